#!/usr/bin/env python3
"""Regenerate MANIFEST.json from props.py (claimed checks) and NOT_CLAIMED (reasons)."""
import json, os, sys
root = os.path.dirname(os.path.dirname(os.path.abspath(__file__)))
sys.path.insert(0, root)
from props import PROPS, NOT_CLAIMED, HOOK_COMMITS

checks = []
for pid in sorted(PROPS):
    c = PROPS[pid]
    checks.append({
        "property_id": pid,
        "quick_cmd": f"./check {pid} --tier quick",
        "thorough_cmd": f"./check {pid} --tier thorough",
        "evidence_file": f"/verif/evidence/{pid}.json",
        "replay_cmd_template": f"./check {pid} --replay {{path}}",
        "engine": "lean",
        "level_claimed": {"category": "proof", "text": c["level_text"], "design_ref": c.get("design_ref", "DESIGN.md §5 " + pid)},
        "level_note": c["level_note"],
        "technique": c["technique"],
    })
m = {
    "version": 1,
    "setup_cmd": "./setup.sh",
    "hooks": {
        "guard": "verif",
        "enable": "go build -tags verif (the harness module /verif/harness replaces github.com/ogen-go/ogen by /repo and is always built with -tags verif)",
        "baseline_off_cmd": "cd /repo && GOFLAGS=-mod=mod GOPROXY=off GOSUMDB=off GOTOOLCHAIN=local go test -json -vet=off -count=1 -timeout 25m ./...",
        "source_commits": HOOK_COMMITS,
        "add_only": True,
    },
    "engines": [
        {"name": "lean", "path": "/verif/lean", "serves_properties": sorted(PROPS),
         "kind_free_text": "Lean 4.33 lake project (core + single Mathlib/Batteries modules in proof files): hand-written executable models, property theorems in Ogen/Props/Cxx.lean, native line-protocol driver Main.lean"},
        {"name": "harness", "path": "/verif/harness", "serves_properties": sorted(PROPS),
         "kind_free_text": "Go module built against /repo's working tree with -tags verif: runs the real code, writes line-protocol cases for the Lean driver, evaluates the properties' predicates directly on the implementation (failing-input search), regenerates and compiles code from /repo's generator"},
    ],
    "checks": checks,
    "not_applicable": [{"property_id": k, "reason": v} for k, v in sorted(NOT_CLAIMED.items())],
    "notes": "All checks: ./check Cxx --tier quick|thorough (honours VERIF_SEED, VERIF_TIER). Verdict protocol, trusted base and known findings: DESIGN.md §2, §3, known_findings.json.",
}
json.dump(m, open(os.path.join(root, "MANIFEST.json"), "w"), indent=1)
print("wrote MANIFEST.json:", len(checks), "checks,", len(m["not_applicable"]), "not claimed")
