#!/usr/bin/env python3
"""Validate MANIFEST.json and evidence/*.json against the schemas in /root/.vp (run with python3-vt)."""
import json, sys, glob, os
import jsonschema
root = os.path.dirname(os.path.dirname(os.path.abspath(__file__)))
ok = True
m = json.load(open(os.path.join(root, "MANIFEST.json")))
try:
    jsonschema.validate(m, json.load(open("/root/.vp/MANIFEST.schema.json")))
    print("MANIFEST ok;", len(m["checks"]), "checks;", len(m.get("not_applicable", [])), "not applicable")
except Exception as e:
    ok = False; print("MANIFEST INVALID:", str(e)[:500])
es = json.load(open("/root/.vp/EVIDENCE.schema.json"))
for f in sorted(glob.glob(os.path.join(root, "evidence", "*.json"))):
    try:
        jsonschema.validate(json.load(open(f)), es); print("ok", os.path.basename(f))
    except Exception as e:
        ok = False; print("INVALID", f, str(e)[:500])
ids = {json.loads(l)["id"] for l in open(os.path.join(root, "properties.jsonl"))}
claimed = {c["property_id"] for c in m["checks"]}
na = {c["property_id"] for c in m.get("not_applicable", [])}
if claimed | na != ids or claimed & na:
    ok = False; print("coverage mismatch: missing", ids - claimed - na, "both", claimed & na)
sys.exit(0 if ok else 1)
