#!/usr/bin/env python3
"""Verify a seeded change in a scratch worktree (compiles, suite green, demo fails with / passes without),
run the property's check against it in /repo (apply, check, undo) and keep it under /verif/seeded/<id>/.
usage: tools/seedkeep.py <seed dir> <id> <Cxx> [tier]"""
import json, os, re, shutil, subprocess, sys, glob
seed, sid, prop = sys.argv[1], sys.argv[2], sys.argv[3]
tier = sys.argv[4] if len(sys.argv) > 4 else "quick"
ENV = dict(os.environ, GOFLAGS="-mod=mod", GOPROXY="off", GOSUMDB="off", GOTOOLCHAIN="local")
WT = "/tmp/wt-verify-" + sid
def sh(cmd, cwd=None, timeout=1800):
    p = subprocess.run(cmd, shell=True, cwd=cwd, env=ENV, stdout=subprocess.PIPE, stderr=subprocess.STDOUT, text=True, timeout=timeout)
    return p.returncode, p.stdout
meta = json.load(open(os.path.join(seed, "meta.json")))
PHASE = os.environ.get("SEEDKEEP_PHASE", "both")
VER = os.path.join(seed, "verified.json")
if PHASE == "check" and os.path.exists(VER):
    res = json.load(open(VER))
    SKIPVERIFY = True
else:
    SKIPVERIFY = False
if SKIPVERIFY:
    pass
subprocess.run(f"git -C /repo worktree remove --force {WT}", shell=True, stdout=subprocess.DEVNULL, stderr=subprocess.DEVNULL)
if not SKIPVERIFY:
    rc, out = sh(f"git -C /repo worktree add --detach {WT} HEAD")
    res = {"worktree_head": sh("git -C /repo rev-parse --short HEAD")[1].strip()}
try:
  if not SKIPVERIFY:
      rc, out = sh(f"git apply --check {seed}/patch.diff", cwd=WT)
      res["applies"] = rc == 0
      if rc != 0:
          print("patch does not apply:", out[:300]); raise SystemExit
      # demo location / command from the meta text
      demo = meta.get("demo", "") + " " + meta.get("demo_file", "") + " " + meta.get("demo_copy_to", "")
      tests = sorted(glob.glob(os.path.join(seed, "*_test.go")))
      dest = None
      m = re.search(r"cp\s+\S+\s+(\S+)", demo)
      if meta.get("demo_copy_to") or meta.get("demo_destination"):
          mm = re.search(r"[\w./-]*\.go", meta.get("demo_copy_to") or meta.get("demo_destination"))
          dest = mm.group(0) if mm else None
      elif m:
          dest = m.group(1)
      if dest:
          dest = re.sub(r"^(/tmp/wt-[A-Za-z0-9]+/|<worktree>/|<repo>/|\$WT/|\./)", "", dest)
          if dest.endswith("/") or not dest.endswith(".go"):
              dest = os.path.join(dest, os.path.basename(tests[0])) if tests else dest
      m = re.search(r"-run\s+'?\"?([^'\" ]+)", demo)
      pat = m.group(1) if m else "."
      pkg = "./" + os.path.dirname(dest) if dest and os.path.dirname(dest) else "."
      def run_demo():
          newdir = not os.path.isdir(os.path.dirname(os.path.join(WT, dest)))
          os.makedirs(os.path.dirname(os.path.join(WT, dest)), exist_ok=True)
          shutil.copy(tests[0], os.path.join(WT, dest))
          rc, out = sh(f"go test -vet=off -count=1 -run '{pat}' {pkg}", cwd=WT, timeout=1500)
          os.remove(os.path.join(WT, dest))
          if newdir:
              shutil.rmtree(os.path.dirname(os.path.join(WT, dest)), ignore_errors=True)
          return rc, out
      runsh = os.path.join(seed, "demo", "run.sh")
      if os.path.exists(runsh):
          def run_demo():
              interp = "bash" if "bash" in open(runsh).readline() else "sh"
              return sh(f"{interp} {runsh} {WT}", cwd=os.path.join(seed, "demo"), timeout=1500)
          tests, dest = [runsh], "demo/run.sh"
      if tests and dest:
          rc0, out0 = run_demo()
          res["demo_passes_without_patch"] = rc0 == 0
      sh(f"git apply {seed}/patch.diff", cwd=WT)
      rc, out = sh("go build ./...", cwd=WT)
      res["compiles"] = rc == 0
      rc, out = sh(f"python3 /verif/tools/baseline.py {WT}", timeout=2400)
      res["suite_green"] = rc == 0
      res["suite_summary"] = out.strip().split("\n")[0]
      if tests and dest:
          rc1, out1 = run_demo()
          res["demo_fails_with_patch"] = rc1 != 0
          res["demo_cmd"] = (("bash" if "bash" in open(runsh).readline() else "sh") + " demo/run.sh <worktree>") if os.path.exists(runsh) else f"cp {os.path.basename(tests[0])} {dest} && go test -vet=off -count=1 -run '{pat}' {pkg}"
finally:
    subprocess.run(f"git -C /repo worktree remove --force {WT}", shell=True, stdout=subprocess.DEVNULL, stderr=subprocess.DEVNULL)
json.dump(res, open(VER, "w"))
print("verified:", res)
if PHASE == "verify":
    sys.exit(0)
ok = all(res.get(k) for k in ("applies", "compiles", "suite_green", "demo_passes_without_patch", "demo_fails_with_patch"))
# run my check
rc, out = sh(f"/verif/tools/seedtest.sh {seed} {prop} {tier}", timeout=7200)
lines = [l for l in out.split("\n") if "VIOLATION" in l or "first failure" in l or "broken:" in l or "exit" in l or "does not apply" in l]
print("\n".join(lines))
detected = "VIOLATION" in out
if not ok:
    print("NOT KEPT (verification incomplete)")
    sys.exit(1)
d = os.path.join("/verif/seeded", sid)
os.makedirs(d, exist_ok=True)
shutil.copy(os.path.join(seed, "patch.diff"), d)
for t in glob.glob(os.path.join(seed, "*")):
    if os.path.basename(t) not in ("patch.diff", "meta.json") and os.path.isfile(t):
        shutil.copy(t, d)
if os.path.isdir(os.path.join(seed, "demo")):
    shutil.copytree(os.path.join(seed, "demo"), os.path.join(d, "demo"), dirs_exist_ok=True)
meta.update({"property": prop, "verified": res, "check": {"cmd": f"./check {prop} --tier {tier}", "detected": detected, "report": lines[:3]}})
json.dump(meta, open(os.path.join(d, "meta.json"), "w"), indent=1)
print("KEPT", d, "detected" if detected else "MISSED")
