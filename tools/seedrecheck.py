#!/usr/bin/env python3
"""Re-run the property's check against every kept seed (apply to /repo, check, undo) and refresh the
`check` record in seeded/<id>/meta.json. usage: tools/seedrecheck.py [id ...]"""
import glob, json, os, subprocess, sys
ids = sys.argv[1:] or sorted(os.path.basename(d) for d in glob.glob('/verif/seeded/*'))
res = {}
for sid in ids:
    d = os.path.join('/verif/seeded', sid)
    meta = json.load(open(os.path.join(d, 'meta.json')))
    prop = meta.get('property') or sid.split('-')[0]
    p = subprocess.run(['sh', '/verif/tools/seedtest.sh', d, prop, 'quick'], stdout=subprocess.PIPE, stderr=subprocess.STDOUT, text=True)
    out = p.stdout
    detected = 'VIOLATION' in out or ': FAIL in' in out
    lines = [l for l in out.split('\n') if 'first failure' in l or 'broken:' in l or 'does not apply' in l or 'dirty' in l]
    meta['check'] = {'cmd': f'./check {prop} --tier quick', 'detected': detected, 'report': [l[:400] for l in lines[:2]]}
    json.dump(meta, open(os.path.join(d, 'meta.json'), 'w'), indent=1)
    res[sid] = detected
    print(sid, 'detected' if detected else 'MISSED', (lines[0][:160] if lines else ''), flush=True)
print(sum(res.values()), 'of', len(res), 'detected')
