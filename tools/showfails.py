#!/usr/bin/env python3
"""print the failures of a corr run: tools/showfails.py <run dir> [max]"""
import json, sys
st = json.load(open(sys.argv[1] + '/stats.json'))
mx = int(sys.argv[2]) if len(sys.argv) > 2 else 40
print('evals', st['evaluations'], 'wall', round(st['wall_s'], 1), 'fails', st['prop_failure_count'], 'known', st.get('known_counts'))
for f in (st.get('prop_failures') or [])[:mx]:
    i = f['input']
    if isinstance(i, dict):
        i = {k: v for k, v in i.items() if k != 'document'}
    print('---', f['what'], '|', json.dumps(i, ensure_ascii=False)[:400], '\n    ', f['observed'][:600].replace('\n', '\n     '))
for n in (st.get('notes') or [])[:10]:
    print('note', n[:300])
