#!/usr/bin/env python3
"""Run /repo's test suite (guard off) and compare with /root/.vp/BASELINE.json: every stable test must pass."""
import json, subprocess, os, sys, ast
env = dict(os.environ, GOFLAGS="-mod=mod", GOPROXY="off", GOSUMDB="off", GOTOOLCHAIN="local")
repo = sys.argv[1] if len(sys.argv) > 1 else "/repo"
b = json.load(open("/root/.vp/BASELINE.json"))
stable = b["stable_pass"]
if isinstance(stable, str):
    stable = ast.literal_eval(stable)
stable = set(stable)
p = subprocess.run(["go", "test", "-json", "-vet=off", "-count=1", "-timeout", "25m", "./..."], cwd=repo, env=env, stdout=subprocess.PIPE, stderr=subprocess.DEVNULL, text=True)
res = {}
for line in p.stdout.split("\n"):
    try:
        e = json.loads(line)
    except Exception:
        continue
    if e.get("Test") and e.get("Action") in ("pass", "fail", "skip"):
        res[e["Package"] + "::" + e["Test"]] = e["Action"]
passed = {k for k, v in res.items() if v == "pass"}
missing = sorted(stable - passed)
failed = sorted(k for k, v in res.items() if v == "fail")
print(f"stable {len(stable)}; passed now {len(passed)}; stable-not-passing {len(missing)}; failing now {len(failed)}")
for m in missing[:20]:
    print("  NOT PASSING:", m, res.get(m))
unexpected = [f for f in failed if f not in set(b.get("always_fail", []))]
for f in unexpected[:20]:
    print("  UNEXPECTED FAIL:", f)
sys.exit(1 if missing or unexpected else 0)
