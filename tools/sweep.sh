#!/bin/sh
# usage: tools/sweep.sh "<seeds>" "<tier>" [props…] — run checks on the unchanged tree with several seeds; print one line per run
# (run from a snapshot: needs `sh setup.sh` first there, since build output is not part of a snapshot)
SEEDS=${1:-"2 3 4"}; TIER=${2:-quick}; shift 2 2>/dev/null
PROPS=${*:-$(python3 -c "import json;print(' '.join(c['property_id'] for c in json.load(open('MANIFEST.json'))['checks']))")}
mkdir -p sweepfails
for s in $SEEDS; do
  for p in $PROPS; do
    t0=$(date +%s)
    VERIF_KEEP_FAILS=$PWD/sweepfails ./check $p --tier $TIER --seed $s > sweep_${p}_${s}.log 2>&1; rc=$?
    echo "seed=$s $p tier=$TIER rc=$rc $(( $(date +%s) - t0 ))s $(grep -c '^VIOLATION' sweep_${p}_${s}.log) viol"
    [ $rc -ne 0 ] && grep -h "VIOLATION" sweep_${p}_${s}.log | head -2
  done
done
