#!/bin/sh
# Regenerate the checked-in generated packages of /repo after a template fix (k8s is skipped: its
# spec is emptied on purpose in this sandbox). Usage: tools/regen_checked_in.sh [/repo]
set -e
REPO=${1:-/repo}
export GOFLAGS=-mod=mod GOPROXY=off GOSUMDB=off GOTOOLCHAIN=local
(cd $REPO/internal/integration && go generate ./... >/dev/null 2>&1)
cd $REPO/examples
grep "go:generate" generate.go | grep -v k8s | grep -v jschemagen | grep -v mkformattest | sed 's|//go:generate ||' | while read -r cmd; do sh -c "$cmd" >/dev/null 2>&1; done
git -C $REPO status --short
