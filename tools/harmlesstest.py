#!/usr/bin/env python3
"""Apply each behaviour-preserving patch (dir with patch.diff + meta.json) to /repo, run the quick check of every
claimed property it touches, undo. A check must stay quiet (exit 0), or, when its regenerated facts or proof
obligations no longer hold, say so with no-failing-input-found; a VIOLATION with a concrete input is a false alarm.
usage: tools/harmlesstest.py <dir>..."""
import json, os, subprocess, sys
CLAIMED = {"C01","C02","C03","C04","C05","C06","C07","C08","C09","C10","C11","C12","C13","C15","C16","C18","C19","C20"}
res = []
for d in sys.argv[1:]:
    meta = json.load(open(os.path.join(d, "meta.json")))
    props = [p for p in meta.get("properties_touched", []) if p in CLAIMED]
    a = subprocess.run(["git", "-C", "/repo", "apply", os.path.join(d, "patch.diff")], capture_output=True, text=True)
    if a.returncode != 0:
        print(d, "DOES NOT APPLY", a.stderr[:200]); continue
    try:
        for p in props:
            c = subprocess.run(["./check", p], cwd="/verif", capture_output=True, text=True)
            viol = [l for l in c.stdout.splitlines() if l.startswith("VIOLATION")]
            verdict = "quiet" if c.returncode == 0 and not viol else ("no-failing-input-found" if viol and all("no-failing-input-found" in l for l in viol) else "FALSE ALARM")
            print(os.path.basename(d), p, verdict, meta.get("kind"), meta.get("files_changed"), flush=True)
            if verdict != "quiet":
                rp = viol[0].split("replay=")[1].split()[0] if viol else ""
                if rp and os.path.exists(rp):
                    subprocess.run(["cp", rp, f"/var/tmp/harmless-{os.path.basename(d)}-{p}.json"])
                print("   ", *viol, sep="\n    ")
            res.append((d, p, verdict))
    finally:
        subprocess.run(["git", "-C", "/repo", "checkout", "--", "."])
        subprocess.run(["git", "-C", "/repo", "clean", "-fdq"])
print("summary:", {v: sum(1 for r in res if r[2] == v) for v in {"quiet", "no-failing-input-found", "FALSE ALARM"}})
