#!/bin/sh
# usage: tools/seedtest.sh <seed dir with patch.diff> <Cxx> [tier]  — apply to /repo, run the check, undo.
set -u
D=$1; P=$2; T=${3:-quick}
if ! git -C /repo diff --quiet; then echo "/repo is dirty"; exit 2; fi
if ! git -C /repo apply --check "$D/patch.diff" 2>/dev/null; then echo "SEED $D: patch does not apply"; exit 3; fi
git -C /repo apply "$D/patch.diff"
cd /verif && ./check $P --tier $T > /tmp/seedtest.out 2>&1; rc=$?
grep -h "VIOLATION\|: ok in\|: FAIL in" /tmp/seedtest.out | head -3
if [ -f /verif/evidence/replay/$P-1.json ]; then python3 - "$P" <<'PY'
import json,sys
d=json.load(open('/verif/evidence/replay/%s-1.json'%sys.argv[1]))
if d['kind']=='failing-input':
    f=d['failures'][0]; print('  first failure:', f['what'][:150], '|', json.dumps(f['input'])[:300], '|', str(f['observed'])[:200])
else:
    print('  broken:', [ (x['what'], x['detail'][:200]) for x in d['no_longer_checks']][:2])
PY
fi
git -C /repo checkout -- . ; git -C /repo clean -fdq
echo "SEED $D on $P: exit $rc"
