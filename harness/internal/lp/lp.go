// Package lp is the line protocol between the Go side (which runs the real ogen code) and
// the Lean driver (which runs the model): one case per line in cases.txt, the
// implementation's canonical answer on the same line number of impl.txt.
package lp

import (
	"bufio"
	"encoding/json"
	"fmt"
	"hash/fnv"
	"os"
	"path/filepath"
	"sort"
	"strconv"
	"time"
)

// Rand is a splitmix64 generator: every random choice of a run derives from VERIF_SEED.
type Rand struct{ s uint64 }

func NewRand(seed uint64) *Rand { return &Rand{s: seed*0x9E3779B97F4A7C15 + 0x1234567} }

func (r *Rand) Uint64() uint64 {
	r.s += 0x9E3779B97F4A7C15
	z := r.s
	z = (z ^ (z >> 30)) * 0xBF58476D1CE4E5B9
	z = (z ^ (z >> 27)) * 0x94D049BB133111EB
	return z ^ (z >> 31)
}
func (r *Rand) Intn(n int) int {
	if n <= 0 {
		return 0
	}
	return int(r.Uint64() % uint64(n))
}
func (r *Rand) Bool() bool          { return r.Uint64()&1 == 1 }
func (r *Rand) Chance(p int) bool   { return r.Intn(100) < p }
func (r *Rand) Fork(tag uint64) *Rand { return NewRand(r.Uint64() ^ tag) }
func Pick[T any](r *Rand, xs []T) T { return xs[r.Intn(len(xs))] }

type Sample struct {
	Case string `json:"case"`
	Impl string `json:"impl"`
}

type PropFail struct {
	Property string `json:"property"`
	What     string `json:"what"`
	Input    any    `json:"input"`
	Observed string `json:"observed"`
	Expected string `json:"expected"`
	Class    string `json:"class,omitempty"` // known-finding class id when the case falls in one
}

type Stats struct {
	Suite              string         `json:"suite"`
	Tier               string         `json:"tier"`
	Seed               uint64         `json:"seed"`
	Evaluations        int            `json:"evaluations"`
	DistinctNontrivial int            `json:"distinct_nontrivial"`
	Rule               string         `json:"rule"`
	Branches           map[string]int `json:"branches"`
	Sizes              map[string]int `json:"sizes"`
	Samples            []Sample       `json:"samples"`
	Exhaustive         map[string]any `json:"exhaustive"`
	PropFails          []PropFail     `json:"prop_failures"`
	PropFailCount      int            `json:"prop_failure_count"`
	PropChecks         int            `json:"property_checks_on_impl"`
	Known              []PropFail     `json:"known_findings_seen"`
	KnownCount         map[string]int `json:"known_counts"`
	Notes              []string       `json:"notes"`
	WallS              float64        `json:"wall_s"`
}

type Run struct {
	Dir   string
	Tier  string
	Seed  uint64
	Rng   *Rand
	cases *bufio.Writer
	impl  *bufio.Writer
	cf    *os.File
	imf   *os.File
	st    Stats
	seen  map[uint64]struct{}
	start time.Time
}

func NewRun(suite, dir, tier string, seed uint64) (*Run, error) {
	if err := os.MkdirAll(dir, 0o755); err != nil {
		return nil, err
	}
	cf, err := os.Create(filepath.Join(dir, "cases.txt"))
	if err != nil {
		return nil, err
	}
	imf, err := os.Create(filepath.Join(dir, "impl.txt"))
	if err != nil {
		return nil, err
	}
	r := &Run{Dir: dir, Tier: tier, Seed: seed, Rng: NewRand(seed), cf: cf, imf: imf,
		cases: bufio.NewWriterSize(cf, 1<<20), impl: bufio.NewWriterSize(imf, 1<<20),
		seen: map[uint64]struct{}{}, start: time.Now()}
	r.st = Stats{Suite: suite, Tier: tier, Seed: seed, Branches: map[string]int{}, Sizes: map[string]int{},
		Exhaustive: map[string]any{}, KnownCount: map[string]int{}}
	return r, nil
}

func (r *Run) Thorough() bool { return r.Tier == "thorough" }

// N picks the case count for the tier.
func (r *Run) N(quick, thorough int) int {
	if r.Thorough() {
		return thorough
	}
	return quick
}

func (r *Run) SetRule(s string) { r.st.Rule = s }
func (r *Run) Note(s string)    { r.st.Notes = append(r.st.Notes, s) }
func (r *Run) Exhaustive(domain string, v any) { r.st.Exhaustive[domain] = v }

// Case records one correspondence case: the line handed to the Lean driver and the
// implementation's answer. branch names the outcome class (used for the distribution and
// for the distinct-nontrivial count); nontrivial says whether it counts as non-trivial.
func (r *Run) Case(model, payload, implOut, branch string, nontrivial bool) {
	r.cases.WriteString(model)
	r.cases.WriteByte(' ')
	r.cases.WriteString(payload)
	r.cases.WriteByte('\n')
	r.impl.WriteString(implOut)
	r.impl.WriteByte('\n')
	r.Count(model+" "+payload, branch, nontrivial)
	if len(r.st.Samples) < 12 && (r.st.Evaluations%97 == 1 || len(r.st.Samples) < 3) {
		r.st.Samples = append(r.st.Samples, Sample{Case: trunc(model+" "+payload, 300), Impl: trunc(implOut, 300)})
	}
}

// Count records an evaluation that has no model line (implementation-only property check).
func (r *Run) Count(key, branch string, nontrivial bool) {
	r.st.Evaluations++
	r.st.Branches[branch]++
	if nontrivial {
		h := fnv.New64a()
		h.Write([]byte(key))
		k := h.Sum64()
		if _, ok := r.seen[k]; !ok {
			r.seen[k] = struct{}{}
		}
	}
}

func (r *Run) Size(bucket string) { r.st.Sizes[bucket]++ }
func (r *Run) SizeN(prefix string, n int) {
	b := strconv.Itoa(n)
	if n > 8 {
		b = "9+"
	}
	r.st.Sizes[prefix+b]++
}
func (r *Run) PropCheck() { r.st.PropChecks++ }

// Fail records a failure of the property itself, observed on the implementation.
func (r *Run) Fail(f PropFail) {
	r.st.PropFailCount++
	if len(r.st.PropFails) < 40 {
		r.st.PropFails = append(r.st.PropFails, f)
	}
}

// Known records a failure that falls in a listed known-finding class.
func (r *Run) Known(f PropFail) {
	r.st.KnownCount[f.Class]++
	if r.st.KnownCount[f.Class] <= 2 {
		r.st.Known = append(r.st.Known, f)
	}
}

func (r *Run) Close() error {
	r.cases.Flush()
	r.impl.Flush()
	r.cf.Close()
	r.imf.Close()
	r.st.DistinctNontrivial = len(r.seen)
	r.st.WallS = time.Since(r.start).Seconds()
	// deterministic order
	sort.Slice(r.st.PropFails, func(i, j int) bool { return false })
	b, err := json.MarshalIndent(r.st, "", " ")
	if err != nil {
		return err
	}
	return os.WriteFile(filepath.Join(r.Dir, "stats.json"), b, 0o644)
}

// Guard runs f and maps a Go panic to the canonical outcome "panic".
func Guard(f func() string) (out string) {
	defer func() {
		if rec := recover(); rec != nil {
			out = "panic"
		}
	}()
	return f()
}

func Hex(b []byte) string { return fmt.Sprintf("%x", b) }

func trunc(s string, n int) string {
	if len(s) > n {
		return s[:n] + "…"
	}
	return s
}

// Perm returns a permutation of 0..n-1 (Fisher–Yates).
func (r *Rand) Perm(n int) []int {
	p := make([]int, n)
	for i := range p {
		p[i] = i
	}
	for i := n - 1; i > 0; i-- {
		j := r.Intn(i + 1)
		p[i], p[j] = p[j], p[i]
	}
	return p
}
