package gcrt

import (
	"math"
	"net/netip"
	"net/url"
	"reflect"
	"time"
)

type rnd struct{ s uint64 }

func (r *rnd) next() uint64 {
	r.s += 0x9E3779B97F4A7C15
	z := r.s
	z = (z ^ (z >> 30)) * 0xBF58476D1CE4E5B9
	z = (z ^ (z >> 27)) * 0x94D049BB133111EB
	return z ^ (z >> 31)
}
func (r *rnd) intn(n int) int { return int(r.next() % uint64(n)) }

var randStrings = []string{"", "a", "abc", "zz", "A", "a1", "12", "123", "foo", "bar", "az", "é", "日本", "a b", "\"q\"", "\\", "\n", " ", "😀", "x9y", "red", "green", "\x00", "</script>", "\t", "á"}
var randInts = []int64{0, 1, -1, 2, 3, 5, 7, 10, -10, 100, 127, 128, -128, 255, 32767, -32768, math.MaxInt32, math.MinInt32, 1 << 40, math.MaxInt64, math.MinInt64, 9007199254740993}
var randFloats = []float64{0, 1, -1, 0.5, -0.25, 1.5, 2, 3, 0.1, 1e-11, 1e21, 123456.789, math.MaxFloat64, math.SmallestNonzeroFloat64, 9007199254740993, -2.5}

// RandomValue builds a type-directed random value: every wrapper state, nil/empty/non-empty
// collections, extreme numbers, escape-heavy and astral strings, bounded recursion.
func RandomValue(t reflect.Type, r *rnd, depth int) reflect.Value {
	v := reflect.New(t).Elem()
	switch t {
	case reflect.TypeOf(time.Time{}):
		v.Set(reflect.ValueOf(time.Unix(int64(r.next()%4102444800), 0).UTC()))
		return v
	case reflect.TypeOf(url.URL{}):
		u, _ := url.Parse("http://example.com/p?q=1")
		v.Set(reflect.ValueOf(*u))
		return v
	case reflect.TypeOf(netip.Addr{}):
		v.Set(reflect.ValueOf(netip.AddrFrom4([4]byte{byte(r.next()), 2, 3, 4})))
		return v
	case reflect.TypeOf(time.Duration(0)):
		v.SetInt(int64(r.next() >> uint(r.intn(64))))
		return v
	}
	if t.PkgPath() == "github.com/go-faster/jx" && t.Name() == "Raw" {
		raws := []string{"1", "\"s\"", "true", "null", "[1,2]", "{\"q\":\"r\"}", "-0.5", "[]", "{}"}
		v.SetBytes([]byte(raws[r.intn(len(raws))]))
		return v
	}
	switch t.Kind() {
	case reflect.String:
		v.SetString(randStrings[r.intn(len(randStrings))])
	case reflect.Bool:
		v.SetBool(r.intn(2) == 0)
	case reflect.Int, reflect.Int8, reflect.Int16, reflect.Int32, reflect.Int64:
		x := randInts[r.intn(len(randInts))]
		if r.intn(3) == 0 {
			x = int64(r.intn(21) - 10)
		}
		if v.OverflowInt(x) {
			x = int64(r.intn(21) - 10)
		}
		v.SetInt(x)
	case reflect.Uint, reflect.Uint8, reflect.Uint16, reflect.Uint32, reflect.Uint64:
		x := uint64(r.intn(300))
		if v.OverflowUint(x) {
			x = uint64(r.intn(100))
		}
		v.SetUint(x)
	case reflect.Float32, reflect.Float64:
		f := randFloats[r.intn(len(randFloats))]
		if r.intn(2) == 0 {
			f = float64(r.intn(33)-16) * 0.25
		}
		if t.Kind() == reflect.Float32 {
			f = float64(float32(f))
			if math.IsInf(f, 0) {
				f = 1
			}
		}
		v.SetFloat(f)
	case reflect.Slice:
		switch k := r.intn(5); {
		case k == 0:
			// nil
		case k == 1 || depth <= 0:
			v.Set(reflect.MakeSlice(t, 0, 0))
		default:
			n := 1 + r.intn(3)
			s := reflect.MakeSlice(t, 0, n)
			for i := 0; i < n; i++ {
				s = reflect.Append(s, RandomValue(t.Elem(), r, depth-1))
			}
			v.Set(s)
		}
	case reflect.Array:
		for i := 0; i < v.Len(); i++ {
			v.Index(i).Set(RandomValue(t.Elem(), r, depth-1))
		}
	case reflect.Map:
		switch k := r.intn(5); {
		case k == 0:
		case k == 1 || depth <= 0:
			v.Set(reflect.MakeMap(t))
		default:
			m := reflect.MakeMap(t)
			n := 1 + r.intn(3)
			for i := 0; i < n; i++ {
				key := reflect.ValueOf([]string{"x", "y", "k 1", "ключ", "", "zz"}[r.intn(6)]).Convert(t.Key())
				m.SetMapIndex(key, RandomValue(t.Elem(), r, depth-1))
			}
			v.Set(m)
		}
	case reflect.Pointer:
		if depth > 0 && r.intn(3) != 0 {
			p := reflect.New(t.Elem())
			p.Elem().Set(RandomValue(t.Elem(), r, depth-1))
			v.Set(p)
		}
	case reflect.Interface:
		// sum-type interfaces cannot be filled without knowing the implementations
	case reflect.Struct:
		if isWrapper(t) {
			_, hasSet := t.FieldByName("Set")
			_, hasNull := t.FieldByName("Null")
			st := r.intn(4)
			switch {
			case st == 0 && hasSet:
				return v // absent
			case st == 1 && hasNull:
				v.FieldByName("Null").SetBool(true)
				if hasSet {
					v.FieldByName("Set").SetBool(true)
				}
				return v
			}
			v.FieldByName("Value").Set(RandomValue(t.Field(0).Type, r, depth))
			if hasSet {
				v.FieldByName("Set").SetBool(true)
			}
			return v
		}
		for i := 0; i < t.NumField(); i++ {
			if !t.Field(i).IsExported() {
				continue
			}
			v.Field(i).Set(RandomValue(t.Field(i).Type, r, depth-1))
		}
	}
	return v
}
