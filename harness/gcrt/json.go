package gcrt

import (
	"fmt"
	"reflect"

	ht "github.com/ogen-go/ogen/http"
	"github.com/ogen-go/ogen/ogenerrors"
)

func htErrNotImplemented() error { return ht.ErrNotImplemented }

func method(v reflect.Value, name string) reflect.Value {
	if m := v.MethodByName(name); m.IsValid() {
		return m
	}
	if v.CanAddr() {
		if m := v.Addr().MethodByName(name); m.IsValid() {
			return m
		}
	}
	p := reflect.New(v.Type())
	p.Elem().Set(v)
	return p.MethodByName(name)
}

func callErr(m reflect.Value, args ...reflect.Value) (out []reflect.Value, pan string) {
	defer func() {
		if r := recover(); r != nil {
			pan = fmt.Sprint(r)
		}
	}()
	return m.Call(args), ""
}

// jsonRoundTrip: Validate, MarshalJSON, UnmarshalJSON into a fresh value, Validate again.
func jsonRoundTrip(api PkgAPI, t reflect.Type, v reflect.Value, ans map[string]any) {
	pv := reflect.New(t)
	pv.Elem().Set(v)
	if m := pv.MethodByName("Validate"); m.IsValid() {
		out, pan := callErr(m)
		if pan != "" {
			ans["validate_panic"] = pan
		} else if !out[0].IsNil() {
			ans["validate_err"] = out[0].Interface().(error).Error()
		}
		ans["has_validate"] = true
	}
	m := pv.MethodByName("MarshalJSON")
	if !m.IsValid() {
		ans["no_json"] = true
		return
	}
	out, pan := callErr(m)
	if pan != "" {
		ans["encode_panic"] = pan
		return
	}
	if !out[1].IsNil() {
		ans["encode_err"] = out[1].Interface().(error).Error()
		return
	}
	text := string(out[0].Bytes())
	ans["text"] = text
	jsonDecode(t, text, ans)
}

func jsonDecode(t reflect.Type, text string, ans map[string]any) {
	nv := reflect.New(t)
	um := nv.MethodByName("UnmarshalJSON")
	if !um.IsValid() {
		ans["no_json"] = true
		return
	}
	out, pan := callErr(um, reflect.ValueOf([]byte(text)))
	if pan != "" {
		ans["decode_panic"] = pan
		return
	}
	if !out[0].IsNil() {
		ans["decode_err"] = out[0].Interface().(error).Error()
		return
	}
	ans["decoded"] = Canon(nv.Elem())
	if m := nv.MethodByName("Validate"); m.IsValid() {
		out, pan := callErr(m)
		if pan != "" {
			ans["decoded_validate_panic"] = pan
		} else if !out[0].IsNil() {
			ans["decoded_validate_err"] = out[0].Interface().(error).Error()
		}
	}
}

// AsPtr returns a pointer to a copy of x (nil for nil): named non-struct response types
// implement their sum interface on the pointer receiver.
func AsPtr(x any) any {
	if x == nil {
		return nil
	}
	v := reflect.ValueOf(x)
	p := reflect.New(v.Type())
	p.Elem().Set(v)
	return p.Interface()
}

func errSkipClient() error { return ogenerrors.ErrSkipClientSecurity }
