// Package gcrt is the runtime of the gencheck driver: it is compiled together with freshly
// generated packages (which register themselves through their verif_glue.go) and answers one
// JSON request per line on stdin with one JSON line on stdout.
package gcrt

import (
	"bufio"
	"bytes"
	"context"
	"encoding"
	"encoding/base64"
	"encoding/json"
	"errors"
	"fmt"
	"io"
	"math"
	"net/http"
	"net/http/httptest"
	"net/netip"
	"net/url"
	"os"
	"reflect"
	"sort"
	"strconv"
	"strings"
	"sync"
	"time"

	"github.com/ogen-go/ogen/middleware"
	"github.com/ogen-go/ogen/ogenerrors"
)

type HandlerCB func(ctx context.Context, op string, req, params any) (any, error)
type NewErrorCB func(ctx context.Context, err error) any
type SecServerCB func(ctx context.Context, scheme, op string, cred any) error
type SecClientCB func(ctx context.Context, scheme, op string) (any, error)

type RouteInfo struct {
	Name, OperationID, Pattern string
	Args                       []string
}

type PkgAPI struct {
	Types     map[string]reflect.Type
	NewServer func(cb HandlerCB, ecb NewErrorCB, sec SecServerCB, mw middleware.Middleware, prefix string) (http.Handler, error)
	NewClient func(serverURL string, hc *http.Client, sec SecClientCB) (any, error)
	FindPath  func(srv http.Handler, method string, u *url.URL) (RouteInfo, bool)
	// per-call server URL override of the generated client: through the context, or as a request option
	ServerURLContext func(ctx context.Context, u *url.URL) context.Context
	ServerURLOption  func(u *url.URL) any
}

var pkgs = map[string]PkgAPI{}

func Register(name string, api PkgAPI) { pkgs[name] = api }

// ---------------------------------------------------------------------------------------
// canonical printing of generated values (never DeepEqual on wrappers, never decimal floats)

func Canon(v reflect.Value) string {
	if !v.IsValid() {
		return "<none>"
	}
	t := v.Type()
	switch x := safeIface(v).(type) {
	case time.Time:
		return "time(" + x.UTC().Format(time.RFC3339Nano) + ")"
	case time.Duration:
		return fmt.Sprintf("dur(%d)", int64(x))
	case url.URL:
		return "url(" + x.String() + ")"
	case netip.Addr:
		return "ip(" + x.String() + ")"
	case []byte:
		if x == nil {
			return "[]"
		}
		return fmt.Sprintf("bytes(%x)", x)
	}
	switch v.Kind() {
	case reflect.Interface, reflect.Pointer:
		if v.IsNil() {
			return "nil"
		}
		return "&" + Canon(v.Elem())
	case reflect.String:
		return fmt.Sprintf("%q", v.String())
	case reflect.Bool:
		return fmt.Sprint(v.Bool())
	case reflect.Int, reflect.Int8, reflect.Int16, reflect.Int32, reflect.Int64:
		return fmt.Sprint(v.Int())
	case reflect.Uint, reflect.Uint8, reflect.Uint16, reflect.Uint32, reflect.Uint64:
		return fmt.Sprint(v.Uint())
	case reflect.Float32:
		return fmt.Sprintf("f32:%08x", math.Float32bits(float32(v.Float())))
	case reflect.Float64:
		return fmt.Sprintf("f64:%016x", math.Float64bits(v.Float()))
	case reflect.Array:
		parts := make([]string, v.Len())
		for i := range parts {
			parts[i] = Canon(v.Index(i))
		}
		return "arr[" + strings.Join(parts, ",") + "]"
	case reflect.Slice:
		// nil and empty are one abstract value (ogen's array semantics)
		parts := make([]string, v.Len())
		for i := range parts {
			parts[i] = Canon(v.Index(i))
		}
		return "[" + strings.Join(parts, ",") + "]"
	case reflect.Map:
		keys := v.MapKeys()
		parts := make([]string, 0, len(keys))
		for _, k := range keys {
			parts = append(parts, Canon(k)+":"+Canon(v.MapIndex(k)))
		}
		sort.Strings(parts)
		return "map{" + strings.Join(parts, ",") + "}"
	case reflect.Struct:
		if isWrapper(t) {
			_, hasSet := t.FieldByName("Set")
			_, hasNull := t.FieldByName("Null")
			if hasSet && !v.FieldByName("Set").Bool() {
				return "absent"
			}
			if hasNull && v.FieldByName("Null").Bool() {
				return "null"
			}
			return "some(" + Canon(v.FieldByName("Value")) + ")"
		}
		if t.PkgPath() != "" && !strings.HasPrefix(t.PkgPath(), "gcmod/") {
			if s, ok := safeIface(v).(fmt.Stringer); ok {
				return t.String() + "(" + s.String() + ")"
			}
		}
		parts := make([]string, 0, t.NumField())
		for i := 0; i < t.NumField(); i++ {
			if !t.Field(i).IsExported() {
				continue
			}
			parts = append(parts, t.Field(i).Name+"="+Canon(v.Field(i)))
		}
		return t.Name() + "{" + strings.Join(parts, ",") + "}"
	default:
		return fmt.Sprintf("<%s>", v.Kind())
	}
}

func safeIface(v reflect.Value) any {
	if !v.CanInterface() {
		return nil
	}
	return v.Interface()
}

func isWrapper(t reflect.Type) bool {
	if t.Kind() != reflect.Struct {
		return false
	}
	f, ok := t.FieldByName("Value")
	if !ok || len(f.Index) != 1 || f.Index[0] != 0 {
		return false
	}
	_, hasSet := t.FieldByName("Set")
	_, hasNull := t.FieldByName("Null")
	return (hasSet || hasNull) && t.NumField() <= 3
}

func canonAny(x any) string {
	if x == nil {
		return "<none>"
	}
	return Canon(reflect.ValueOf(x))
}

// ---------------------------------------------------------------------------------------
// building generated values from an abstract JSON description

// Build fills a value of type t from j: scalars, arrays, objects by Go field name,
// {"$absent":true} for an unset wrapper, null for a null wrapper / nil pointer / nil slice,
// {"$bits":"hex"} for an exact float, {"$time":RFC3339}, {"$type":"Name","$value":…} to pick a
// concrete type for an interface-typed slot, {"$ptr":…} is implied by pointer types.
func Build(api PkgAPI, t reflect.Type, j any) (v reflect.Value, err error) {
	defer func() {
		if r := recover(); r != nil {
			err = fmt.Errorf("build %s from %v: %v", t, j, r)
		}
	}()
	return build(api, t, j), nil
}

func build(api PkgAPI, t reflect.Type, j any) reflect.Value {
	v := reflect.New(t).Elem()
	if m, ok := j.(map[string]any); ok {
		if tn, ok := m["$type"].(string); ok {
			ct, ok := api.Types[strings.TrimPrefix(tn, "*")]
			if !ok {
				panic("unknown type " + tn)
			}
			inner := build(api, ct, m["$value"])
			if strings.HasPrefix(tn, "*") {
				p := reflect.New(ct)
				p.Elem().Set(inner)
				inner = p
			}
			if t.Kind() == reflect.Interface {
				v.Set(inner)
				return v
			}
			return inner
		}
	}
	switch t {
	case reflect.TypeOf(time.Time{}):
		if m, ok := j.(map[string]any); ok {
			tt, err := time.Parse(time.RFC3339Nano, m["$time"].(string))
			if err != nil {
				panic(err)
			}
			v.Set(reflect.ValueOf(tt))
		}
		return v
	case reflect.TypeOf(url.URL{}):
		u, err := url.Parse(j.(string))
		if err != nil {
			panic(err)
		}
		v.Set(reflect.ValueOf(*u))
		return v
	}
	if s, ok := j.(string); ok && t.Kind() != reflect.String {
		if tu, ok := v.Addr().Interface().(encoding.TextUnmarshaler); ok {
			if err := tu.UnmarshalText([]byte(s)); err != nil {
				panic(err)
			}
			return v
		}
	}
	switch t.Kind() {
	case reflect.String:
		switch x := j.(type) {
		case string:
			v.SetString(x)
		case map[string]any: // {"$b64": …} for arbitrary bytes
			b, _ := base64.StdEncoding.DecodeString(x["$b64"].(string))
			v.SetString(string(b))
		}
	case reflect.Bool:
		v.SetBool(j.(bool))
	case reflect.Int, reflect.Int8, reflect.Int16, reflect.Int32, reflect.Int64:
		n, err := j.(json.Number).Int64()
		if err != nil {
			panic(err)
		}
		v.SetInt(n)
	case reflect.Uint, reflect.Uint8, reflect.Uint16, reflect.Uint32, reflect.Uint64:
		var n uint64
		if _, err := fmt.Sscan(j.(json.Number).String(), &n); err != nil {
			panic(err)
		}
		v.SetUint(n)
	case reflect.Float32, reflect.Float64:
		switch x := j.(type) {
		case json.Number:
			f, _ := x.Float64()
			v.SetFloat(f)
		case map[string]any:
			var bits uint64
			fmt.Sscanf(x["$bits"].(string), "%x", &bits)
			if t.Kind() == reflect.Float32 {
				v.SetFloat(float64(math.Float32frombits(uint32(bits))))
			} else {
				v.SetFloat(math.Float64frombits(bits))
			}
		}
	case reflect.Slice:
		if j == nil {
			return v
		}
		if t.Elem().Kind() == reflect.Uint8 {
			if s, ok := j.(string); ok {
				v.SetBytes([]byte(s))
				return v
			}
		}
		arr := j.([]any)
		s := reflect.MakeSlice(t, 0, len(arr))
		for _, e := range arr {
			s = reflect.Append(s, build(api, t.Elem(), e))
		}
		v.Set(s)
	case reflect.Map:
		if j == nil {
			return v
		}
		mm := reflect.MakeMap(t)
		for k, e := range j.(map[string]any) {
			mm.SetMapIndex(reflect.ValueOf(k).Convert(t.Key()), build(api, t.Elem(), e))
		}
		v.Set(mm)
	case reflect.Pointer:
		if j == nil {
			return v
		}
		p := reflect.New(t.Elem())
		p.Elem().Set(build(api, t.Elem(), j))
		v.Set(p)
	case reflect.Interface:
		if j == nil {
			return v
		}
		panic("interface slot needs $type")
	case reflect.Struct:
		if isWrapper(t) {
			_, hasSet := t.FieldByName("Set")
			_, hasNull := t.FieldByName("Null")
			if m, ok := j.(map[string]any); ok && m["$absent"] == true {
				return v
			}
			if m, ok := j.(map[string]any); ok && m["$raw"] != nil {
				// set the wrapper's fields directly (also states Decode never produces)
				raw := m["$raw"].(map[string]any)
				if hasSet {
					v.FieldByName("Set").SetBool(raw["Set"] == true)
				}
				if hasNull {
					v.FieldByName("Null").SetBool(raw["Null"] == true)
				}
				v.FieldByName("Value").Set(build(api, t.Field(0).Type, raw["Value"]))
				return v
			}
			if j == nil && hasNull {
				v.FieldByName("Null").SetBool(true)
				if hasSet {
					v.FieldByName("Set").SetBool(true)
				}
				return v
			}
			v.FieldByName("Value").Set(build(api, t.Field(0).Type, j))
			if hasSet {
				v.FieldByName("Set").SetBool(true)
			}
			return v
		}
		if j == nil {
			return v
		}
		m := j.(map[string]any)
		for name, val := range m {
			if strings.HasPrefix(name, "$") {
				continue
			}
			f := v.FieldByName(name)
			if !f.IsValid() {
				panic("no field " + name + " in " + t.String())
			}
			f.Set(build(api, f.Type(), val))
		}
	default:
		panic("unsupported kind " + t.Kind().String())
	}
	return v
}

// ---------------------------------------------------------------------------------------

// script: what the callbacks do during one request
type script struct {
	// Respond: description of the value the handler returns ({"$type":…,"$value":…}); nil ⇒ ErrNotImplemented
	Respond any `json:"respond"`
	// HandlerError: the handler returns this error text instead
	HandlerError string `json:"handler_error"`
	// RespondRandom: the handler returns a type-directed random value: {"type":"*Name","seed":n,"status":code}
	RespondRandom map[string]any `json:"respond_random"`
	// RespondError: the handler returns this value (a generated type implementing error) as its error
	RespondError any `json:"respond_error"`
	// Security: scheme → "accept" | "skip" | "reject"
	Security map[string]string `json:"security"`
	// MiddlewareRespond: the middleware answers itself, without calling next
	MiddlewareRespond any `json:"mw_respond"`
	// ClientCreds: scheme (SecuritySource method name) → value description, or "$skip" / "$error"
	ClientCreds map[string]any `json:"client_creds"`
}

type obs struct {
	mu            sync.Mutex
	HandlerCalled int               `json:"handler_called"`
	Op            string            `json:"op,omitempty"`
	Req           string            `json:"req,omitempty"`
	Params        string            `json:"params,omitempty"`
	MwCalled      int               `json:"mw_called"`
	MwOp          string            `json:"mw_op,omitempty"`
	MwBody        string            `json:"mw_body,omitempty"`
	MwParams      map[string]string `json:"mw_params,omitempty"`
	SecCalls      []string          `json:"sec_calls,omitempty"`
	BuildErr      string            `json:"build_err,omitempty"`
	Responded     string            `json:"responded,omitempty"`
}

type countingWriter struct {
	http.ResponseWriter
	writeHeaders int
}

func (c *countingWriter) WriteHeader(code int) {
	c.writeHeaders++
	c.ResponseWriter.WriteHeader(code)
}

type server struct {
	api    PkgAPI
	h      http.Handler
	cur    *script
	ob     *obs
	ts     *httptest.Server
	client any
	rt     *recTransport
	// WriteHeader calls of the last request served through the httptest server
	lastWriteHeaders int
	// stress mode (C19): the handler is a pure echo, nothing shared is written
	stressMode   bool
	stressType   string
	stressTS     *httptest.Server
	stressHC     *http.Client
	stressClient any
	stressURL    *url.URL
}

var servers = map[string]*server{}

func getServer(pkg, prefix string) (*server, error) {
	key := pkg + "|" + prefix
	if s, ok := servers[key]; ok {
		return s, nil
	}
	api, ok := pkgs[pkg]
	if !ok {
		return nil, fmt.Errorf("unknown package %q", pkg)
	}
	s := &server{api: api, cur: &script{}, ob: &obs{}}
	if api.NewServer != nil {
		cb := func(ctx context.Context, op string, req, params any) (any, error) {
			if s.stressMode {
				return s.stressEcho(op, req, params)
			}
			s.ob.mu.Lock()
			defer s.ob.mu.Unlock()
			s.ob.HandlerCalled++
			s.ob.Op = op
			s.ob.Req = canonAny(req)
			s.ob.Params = canonAny(params)
			switch s.cur.HandlerError {
			case "":
			case "$not-implemented":
				return nil, errNotImplemented
			case "$wrapped-not-implemented":
				return nil, fmt.Errorf("operation %s: %w", op, errNotImplemented)
			case "$canceled":
				return nil, context.Canceled
			default:
				return nil, errors.New(s.cur.HandlerError)
			}
			if s.cur.RespondError != nil {
				v, err := Build(api, reflect.TypeOf((*any)(nil)).Elem(), s.cur.RespondError)
				if err != nil {
					s.ob.BuildErr = err.Error()
					return nil, errors.New("build: " + err.Error())
				}
				if e, ok := v.Interface().(error); ok {
					return nil, e
				}
				s.ob.BuildErr = "respond_error value is not an error"
				return nil, errors.New("not an error")
			}
			if rr := s.cur.RespondRandom; rr != nil {
				tn, _ := rr["type"].(string)
				t, ok := api.Types[strings.TrimPrefix(tn, "*")]
				if !ok {
					s.ob.BuildErr = "unknown type " + tn
					return nil, errNotImplemented
				}
				var seed uint64
				fmt.Sscan(fmt.Sprint(rr["seed"]), &seed)
				v := RandomValue(t, &rnd{s: seed}, 3)
				if st, ok := rr["status"]; ok && t.Kind() == reflect.Struct {
					if f := v.FieldByName("StatusCode"); f.IsValid() && f.Kind() == reflect.Int {
						var code int64
						fmt.Sscan(fmt.Sprint(st), &code)
						f.SetInt(code)
					}
				}
				s.ob.Responded = Canon(v)
				if strings.HasPrefix(tn, "*") {
					p := reflect.New(t)
					p.Elem().Set(v)
					return p.Interface(), nil
				}
				return v.Interface(), nil
			}
			if s.cur.Respond == nil {
				return nil, errNotImplemented
			}
			v, err := Build(api, reflect.TypeOf((*any)(nil)).Elem(), s.cur.Respond)
			if err != nil {
				s.ob.BuildErr = err.Error()
				return nil, errNotImplemented
			}
			return v.Interface(), nil
		}
		sec := func(ctx context.Context, scheme, op string, cred any) error {
			s.ob.mu.Lock()
			defer s.ob.mu.Unlock()
			s.ob.SecCalls = append(s.ob.SecCalls, scheme+"="+canonAny(cred))
			switch s.cur.Security[scheme] {
			case "skip":
				return ogenerrors.ErrSkipServerSecurity
			case "reject-notimpl":
				return fmt.Errorf("scheme %s: %w", scheme, errNotImplemented)
			case "skip-wrapped":
				return fmt.Errorf("scheme %s: %w", scheme, ogenerrors.ErrSkipServerSecurity)
			case "reject":
				return errors.New("rejected by script")
			}
			return nil
		}
		mw := func(req middleware.Request, next middleware.Next) (middleware.Response, error) {
			if s.stressMode {
				return next(req)
			}
			s.ob.mu.Lock()
			s.ob.MwCalled++
			s.ob.MwOp = req.OperationName
			s.ob.MwBody = canonAny(req.Body)
			s.ob.MwParams = map[string]string{}
			for k, v := range req.Params {
				s.ob.MwParams[string(k.In)+":"+k.Name] = canonAny(v)
			}
			mr := s.cur.MiddlewareRespond
			s.ob.mu.Unlock()
			if mr != nil {
				v, err := Build(api, reflect.TypeOf((*any)(nil)).Elem(), mr)
				if err != nil {
					return middleware.Response{}, err
				}
				return middleware.Response{Type: v.Interface()}, nil
			}
			return next(req)
		}
		// convenient errors: NewError maps an error to the declared error type with the status ogen's own default
		// handler would use (401 for a security error, 500 for a plain handler error)
		var ecb NewErrorCB
		if _, ok := api.Types["ErrorStatusCode"]; ok {
			ecb = func(ctx context.Context, err error) any {
				v, berr := Build(api, reflect.TypeOf((*any)(nil)).Elem(), map[string]any{"$type": "*ErrorStatusCode", "$value": map[string]any{"StatusCode": json.Number(strconv.Itoa(ogenerrors.ErrorCode(err)))}})
				if berr != nil {
					return nil
				}
				return v.Interface()
			}
		}
		h, err := api.NewServer(cb, ecb, sec, mw, prefix)
		if err != nil {
			return nil, err
		}
		s.h = h
	}
	servers[key] = s
	return s, nil
}

var errNotImplemented = htErrNotImplemented()

func (s *server) ensureClient() error {
	if s.client != nil {
		return nil
	}
	if s.api.NewClient == nil || s.h == nil {
		return errors.New("package has no client or no server")
	}
	s.ts = httptest.NewServer(http.HandlerFunc(func(w http.ResponseWriter, r *http.Request) {
		cw := &countingWriter{ResponseWriter: w}
		defer func() { s.lastWriteHeaders = cw.writeHeaders }()
		s.h.ServeHTTP(cw, r)
	}))
	s.rt = &recTransport{}
	sec := func(ctx context.Context, scheme, op string) (any, error) {
		d, ok := s.cur.ClientCreds[scheme]
		if !ok || d == "$skip" {
			return nil, ogenerrors.ErrSkipClientSecurity
		}
		if d == "$error" {
			return nil, errors.New("no credentials (script)")
		}
		t, ok := s.api.Types["sec:"+scheme]
		if !ok {
			return nil, fmt.Errorf("no security type for %s", scheme)
		}
		v, err := Build(s.api, t, d)
		if err != nil {
			return nil, err
		}
		return v.Interface(), nil
	}
	c, err := s.api.NewClient(s.ts.URL, &http.Client{Transport: s.rt}, sec)
	if err != nil {
		return err
	}
	s.client = c
	return nil
}

type recTransport struct {
	Method string              `json:"method"`
	URI    string              `json:"uri"`
	Header map[string][]string `json:"header"`
	Body   string              `json:"body"`
	Status int                 `json:"status"`
	RespH  map[string][]string `json:"resp_header"`
	RespB  string              `json:"resp_body"`
	N      int                 `json:"round_trips"`
}

func (r *recTransport) RoundTrip(req *http.Request) (*http.Response, error) {
	r.N++
	r.Method, r.URI = req.Method, req.URL.RequestURI()
	r.Header = map[string][]string{}
	for k, v := range req.Header {
		r.Header[k] = v
	}
	if req.Body != nil {
		b, _ := io.ReadAll(req.Body)
		req.Body = io.NopCloser(bytes.NewReader(b))
		r.Body = string(b)
	}
	resp, err := http.DefaultTransport.RoundTrip(req)
	if err != nil {
		return nil, err
	}
	b, _ := io.ReadAll(resp.Body)
	resp.Body = io.NopCloser(bytes.NewReader(b))
	r.Status, r.RespB = resp.StatusCode, string(b)
	r.RespH = map[string][]string{}
	for k, v := range resp.Header {
		if k == "Date" || k == "Content-Length" {
			continue
		}
		r.RespH[k] = v
	}
	return resp, nil
}

type request struct {
	Pkg    string `json:"pkg"`
	Cmd    string `json:"cmd"`
	Prefix string `json:"prefix"`
	// find / raw
	Method  string              `json:"method"`
	Path    string              `json:"path"`     // decoded path (URL.Path)
	RawPath string              `json:"raw_path"` // escaped path as sent (URL.RawPath); "" ⇒ none
	Query   string              `json:"query"`
	Header  map[string][]string `json:"header"`
	Body    *string             `json:"body"`
	// ContentLength overrides the length net/http would derive from Body (-1: unknown, as for a chunked request)
	ContentLength *int64 `json:"content_length"`
	Script        script `json:"script"`
	// call
	Op     string `json:"op"`
	Params any    `json:"params"`
	Req    any    `json:"req"`
	// ReqJSON: the request argument is obtained by decoding this JSON text into the argument's type
	ReqJSON string `json:"req_json"`
	// batch: many (method, path, raw_path) probes of the router in one request
	Items [][]string `json:"items"`
	// encode / decode
	Type  string `json:"type"`
	Value any    `json:"value"`
	Text  string `json:"text"`
}

func Main() {
	in := bufio.NewReaderSize(os.Stdin, 1<<20)
	out := bufio.NewWriter(os.Stdout)
	for {
		line, err := in.ReadBytes('\n')
		if len(line) > 0 {
			var req request
			dec := json.NewDecoder(bytes.NewReader(line))
			dec.UseNumber()
			var ans map[string]any
			if derr := dec.Decode(&req); derr != nil {
				ans = map[string]any{"error": "bad request: " + derr.Error()}
			} else {
				ans = handle(&req)
			}
			b, merr := json.Marshal(ans)
			if merr != nil {
				b, _ = json.Marshal(map[string]any{"error": "marshal: " + merr.Error()})
			}
			out.Write(b)
			out.WriteByte('\n')
			out.Flush()
		}
		if err != nil {
			return
		}
	}
}

func hexArgs(args []string) string {
	parts := make([]string, len(args))
	for i, a := range args {
		parts[i] = fmt.Sprintf("%x", a)
	}
	return strings.Join(parts, ",")
}

func handle(req *request) (ans map[string]any) {
	ans = map[string]any{}
	defer func() {
		if r := recover(); r != nil {
			ans["driver_panic"] = fmt.Sprint(r)
		}
	}()
	if req.Cmd == "ping" {
		names := []string{}
		for k := range pkgs {
			names = append(names, k)
		}
		sort.Strings(names)
		ans["pkgs"] = names
		return
	}
	s, err := getServer(req.Pkg, req.Prefix)
	if err != nil {
		ans["error"] = err.Error()
		return
	}
	switch req.Cmd {
	case "callrandom":
		// the generated client called with type-directed random arguments (seed in Text): does it panic?
		if err := s.ensureClient(); err != nil {
			ans["error"] = err.Error()
			return
		}
		s.cur = &req.Script
		s.ob = &obs{}
		m := reflect.ValueOf(s.client).MethodByName(req.Op)
		if !m.IsValid() {
			ans["error"] = "no client method " + req.Op
			return
		}
		var seed uint64
		fmt.Sscan(req.Text, &seed)
		rd := &rnd{s: seed}
		mt := m.Type()
		args := []reflect.Value{reflect.ValueOf(context.Background())}
		for i := 1; i < mt.NumIn(); i++ {
			if mt.IsVariadic() && i == mt.NumIn()-1 {
				continue
			}
			args = append(args, RandomValue(mt.In(i), rd, 3))
		}
		var given []string
		for _, a := range args[1:] {
			given = append(given, Canon(a))
		}
		ans["given"] = strings.Join(given, " ")
		func() {
			defer func() {
				if r := recover(); r != nil {
					ans["panic"] = fmt.Sprint(r)
				}
			}()
			outv := m.Call(args)
			if e := outv[len(outv)-1]; !e.IsNil() {
				ans["err"] = e.Interface().(error).Error()
			}
		}()
		ans["server"] = s.ob
	case "stress":
		var sr stressReq
		b, _ := json.Marshal(req.Value)
		dec := json.NewDecoder(bytes.NewReader(b))
		dec.UseNumber()
		if err := dec.Decode(&sr); err != nil {
			ans["error"] = "bad stress request: " + err.Error()
			return
		}
		s.stress(&sr, ans)
	case "find":
		u := &url.URL{Path: req.Path, RawPath: req.RawPath}
		ri, ok := s.api.FindPath(s.h, req.Method, u)
		ans["ok"] = ok
		if ok {
			ans["name"], ans["opid"], ans["pattern"], ans["args"] = ri.Name, ri.OperationID, ri.Pattern, ri.Args
		}
	case "batch":
		// each answer: "F:<find result> S:<serve result>"
		res := make([]string, len(req.Items))
		s.cur = &script{}
		for i, it := range req.Items {
			u := &url.URL{Path: it[1], RawPath: it[2]}
			f := "miss"
			if ri, ok := s.api.FindPath(s.h, it[0], u); ok {
				f = "ok " + ri.Name + " " + ri.Pattern + " " + hexArgs(ri.Args)
			}
			s.ob = &obs{}
			hr := &http.Request{Method: it[0], URL: u, Header: http.Header{}, Proto: "HTTP/1.1", ProtoMajor: 1, ProtoMinor: 1, Host: "x", Body: http.NoBody}
			hr = hr.WithContext(context.Background())
			rec := httptest.NewRecorder()
			cw := &countingWriter{ResponseWriter: rec}
			pan := ""
			func() {
				defer func() {
					if r := recover(); r != nil {
						pan = " panic=" + fmt.Sprint(r)
					}
				}()
				s.h.ServeHTTP(cw, hr)
			}()
			sv := fmt.Sprintf("%d w%d", rec.Code, cw.writeHeaders)
			if a := rec.Header().Get("Allow"); a != "" {
				sv += " allow=" + a
			}
			if s.ob.HandlerCalled > 0 {
				sv += " op=" + s.ob.Op + " params=" + s.ob.Params
			}
			res[i] = "F:" + f + " S:" + sv + pan
		}
		ans["results"] = res
	case "postbatch":
		// items: [method, path, body]; JSON content type; answer "status hN wN [panic]"
		res := make([]string, len(req.Items))
		s.cur = &req.Script
		for i, it := range req.Items {
			s.ob = &obs{}
			hr := &http.Request{Method: it[0], URL: &url.URL{Path: it[1]}, Header: http.Header{"Content-Type": []string{"application/json"}},
				Proto: "HTTP/1.1", ProtoMajor: 1, ProtoMinor: 1, Host: "x", Body: io.NopCloser(strings.NewReader(it[2])), ContentLength: int64(len(it[2]))}
			hr = hr.WithContext(context.Background())
			rec := httptest.NewRecorder()
			cw := &countingWriter{ResponseWriter: rec}
			pan := ""
			func() {
				defer func() {
					if r := recover(); r != nil {
						pan = " panic=" + fmt.Sprint(r)
					}
				}()
				s.h.ServeHTTP(cw, hr)
			}()
			res[i] = fmt.Sprintf("%d h%d w%d%s", rec.Code, s.ob.HandlerCalled, cw.writeHeaders, pan)
			if s.ob.HandlerCalled > 0 && req.Text == "canon" {
				res[i] += " req=" + s.ob.Req
			}
			if rec.Code == 400 && req.Text == "why" {
				res[i] += " why=" + rec.Body.String()
			}
		}
		ans["results"] = res
	case "raw":
		s.cur = &req.Script
		s.ob = &obs{}
		hr := &http.Request{Method: req.Method, URL: &url.URL{Path: req.Path, RawPath: req.RawPath, RawQuery: req.Query},
			Header: http.Header{}, Proto: "HTTP/1.1", ProtoMajor: 1, ProtoMinor: 1, Host: "x", RequestURI: req.RawPath}
		for k, v := range req.Header {
			hr.Header[k] = v
		}
		if req.Body != nil {
			hr.Body = io.NopCloser(strings.NewReader(*req.Body))
			hr.ContentLength = int64(len(*req.Body))
			if req.ContentLength != nil {
				hr.ContentLength = *req.ContentLength
			}
		} else {
			hr.Body = http.NoBody
		}
		hr = hr.WithContext(context.Background())
		rec := httptest.NewRecorder()
		cw := &countingWriter{ResponseWriter: rec}
		func() {
			defer func() {
				if r := recover(); r != nil {
					ans["panic"] = fmt.Sprint(r)
				}
			}()
			s.h.ServeHTTP(cw, hr)
		}()
		ans["status"] = rec.Code
		ans["write_headers"] = cw.writeHeaders
		ans["allow"] = rec.Header().Get("Allow")
		ans["content_type"] = rec.Header().Get("Content-Type")
		ans["resp_body"] = rec.Body.String()
		rh := map[string][]string{}
		for k, v := range rec.Header() {
			rh[k] = v
		}
		ans["resp_header"] = rh
		ans["server"] = s.ob
	case "call":
		if err := s.ensureClient(); err != nil {
			ans["error"] = err.Error()
			return
		}
		s.cur = &req.Script
		s.ob = &obs{}
		s.lastWriteHeaders = 0
		*s.rt = recTransport{}
		m := reflect.ValueOf(s.client).MethodByName(req.Op)
		if !m.IsValid() {
			ans["error"] = "no client method " + req.Op
			return
		}
		mt := m.Type()
		args := []reflect.Value{reflect.ValueOf(context.Background())}
		given := map[string]string{}
		for i := 1; i < mt.NumIn(); i++ {
			at := mt.In(i)
			if mt.IsVariadic() && i == mt.NumIn()-1 {
				continue
			}
			var v reflect.Value
			var err error
			if strings.HasSuffix(at.Name(), "Params") && at.Kind() == reflect.Struct && at.Name() == req.Op+"Params" {
				v, err = Build(s.api, at, req.Params)
				if err == nil {
					given["params"] = Canon(v)
				}
			} else if req.ReqJSON != "" {
				et := at
				if at.Kind() == reflect.Pointer {
					et = at.Elem()
				}
				nv := reflect.New(et)
				um := nv.MethodByName("UnmarshalJSON")
				if !um.IsValid() {
					ans["error"] = "request type has no UnmarshalJSON: " + at.String()
					return
				}
				if out := um.Call([]reflect.Value{reflect.ValueOf([]byte(req.ReqJSON))}); !out[0].IsNil() {
					ans["error"] = "cannot decode req_json: " + out[0].Interface().(error).Error()
					return
				}
				v = nv.Elem()
				if at.Kind() == reflect.Pointer {
					v = nv
				}
				given["req"] = Canon(v)
			} else {
				v, err = Build(s.api, at, req.Req)
				if err == nil {
					given["req"] = Canon(v)
				}
			}
			if err != nil {
				ans["error"] = err.Error()
				return
			}
			args = append(args, v)
		}
		ans["given"] = given
		cl := map[string]any{}
		func() {
			defer func() {
				if r := recover(); r != nil {
					cl["panic"] = fmt.Sprint(r)
				}
			}()
			outv := m.Call(args)
			e := outv[len(outv)-1]
			if !e.IsNil() {
				cl["err"] = e.Interface().(error).Error()
			}
			if len(outv) == 2 {
				cl["res"] = Canon(outv[0])
			}
		}()
		ans["client"] = cl
		ans["write_headers"] = s.lastWriteHeaders
		ans["wire"] = s.rt
		ans["server"] = s.ob
	case "encode", "roundtrip":
		t, ok := s.api.Types[req.Type]
		if !ok {
			ans["error"] = "unknown type " + req.Type
			return
		}
		v, err := Build(s.api, t, req.Value)
		if err != nil {
			ans["error"] = err.Error()
			return
		}
		ans["value"] = Canon(v)
		jsonRoundTrip(s.api, t, v, ans)
	case "randvalues":
		// type-directed random values of a named type: Validate, encode, decode again
		t, ok := s.api.Types[req.Type]
		if !ok {
			ans["error"] = "unknown type " + req.Type
			return
		}
		var seed uint64
		fmt.Sscan(req.Text, &seed)
		r := &rnd{s: seed}
		n := len(req.Items)
		if n == 0 {
			n = 10
		}
		var out []map[string]any
		for i := 0; i < n; i++ {
			one := map[string]any{}
			func() {
				defer func() {
					if rec := recover(); rec != nil {
						one["driver_panic"] = fmt.Sprint(rec)
					}
				}()
				v := RandomValue(t, r, 3)
				one["value"] = Canon(v)
				jsonRoundTrip(s.api, t, v, one)
			}()
			out = append(out, one)
		}
		ans["results"] = out
	case "decodebatch":
		t, ok := s.api.Types[req.Type]
		if !ok {
			ans["error"] = "unknown type " + req.Type
			return
		}
		var out []map[string]any
		for _, it := range req.Items {
			one := map[string]any{}
			func() {
				defer func() {
					if rec := recover(); rec != nil {
						one["driver_panic"] = fmt.Sprint(rec)
					}
				}()
				jsonDecode(t, it[0], one)
				if one["decoded"] != nil {
					// re-encode the decoded value and decode once more
					nv := reflect.New(t)
					if um := nv.MethodByName("UnmarshalJSON"); um.IsValid() {
						um.Call([]reflect.Value{reflect.ValueOf([]byte(it[0]))})
						two := map[string]any{}
						jsonRoundTrip(s.api, t, nv.Elem(), two)
						one["again"] = two
					}
				}
			}()
			out = append(out, one)
		}
		ans["results"] = out
	case "decode":
		t, ok := s.api.Types[req.Type]
		if !ok {
			ans["error"] = "unknown type " + req.Type
			return
		}
		jsonDecode(t, req.Text, ans)
	default:
		ans["error"] = "unknown cmd " + req.Cmd
	}
	return
}
