package gcrt

// "stress": the concurrency check of C19. A list of items — raw HTTP requests served by the generated server
// and calls made through the generated client against that server — is run once sequentially (the outcome of
// each item "when run alone") and then by many goroutines at once on the same server and the same client, every
// outcome compared with the sequential one. The handler is a pure function of what it is given: it answers with
// an Echo value that spells out the operation, the request and the parameters it saw, so a parameter, body or
// buffer that leaks from one request into another changes some outcome.

import (
	"bytes"
	"context"
	"crypto/sha256"
	"encoding/hex"
	"fmt"
	"io"
	"net/http"
	"net/http/httptest"
	"net/url"
	"reflect"
	"sort"
	"strings"
	"sync"
)

type stressItem struct {
	Kind    string              `json:"kind"` // raw | call
	Method  string              `json:"method"`
	Path    string              `json:"path"`
	Query   string              `json:"query"`
	Header  map[string][]string `json:"header"`
	Body    *string             `json:"body"`
	Op      string              `json:"op"`
	Params  any                 `json:"params"`
	ReqJSON string              `json:"req_json"`
	// Override: the call overrides the server URL with the shared URL value
	Override bool `json:"override"`
}

type stressReq struct {
	Items      []stressItem `json:"items"`
	Goroutines int          `json:"goroutines"`
	Rounds     int          `json:"rounds"`
	EchoType   string       `json:"echo_type"` // generated type with a string field Echo
}

func hashOf(b []byte) string {
	h := sha256.Sum256(b)
	return fmt.Sprintf("%d:%s", len(b), hex.EncodeToString(h[:4]))
}

// stressEcho is the handler in stress mode.
func (s *server) stressEcho(op string, req, params any) (any, error) {
	reqs := canonAny(req)
	// a streamed body: read it here, the handler is its consumer
	if req != nil {
		rv := reflect.ValueOf(req)
		if rv.Kind() == reflect.Pointer && !rv.IsNil() {
			rv = rv.Elem()
		}
		if rv.Kind() == reflect.Struct {
			if f := rv.FieldByName("Data"); f.IsValid() && f.Kind() == reflect.Interface && !f.IsNil() {
				if rd, ok := f.Interface().(io.Reader); ok {
					b, _ := io.ReadAll(rd)
					reqs = "stream " + hashOf(b)
				}
			}
		}
	}
	echo := op + "|" + reqs + "|" + canonAny(params)
	if strings.Contains(echo, "FAILME") {
		return nil, fmt.Errorf("handler failure for %s", hashOf([]byte(echo)))
	}
	v, err := Build(s.api, reflect.TypeOf((*any)(nil)).Elem(), map[string]any{"$type": "*" + s.stressType, "$value": map[string]any{"Echo": echo}})
	if err != nil {
		return nil, fmt.Errorf("stress build: %v", err)
	}
	return v.Interface(), nil
}

func (s *server) stressRaw(it *stressItem) string {
	u := s.stressTS.URL + it.Path
	if it.Query != "" {
		u += "?" + it.Query
	}
	var body io.Reader
	if it.Body != nil {
		body = strings.NewReader(*it.Body)
	}
	hr, err := http.NewRequest(it.Method, u, body)
	if err != nil {
		return "bad-request: " + err.Error()
	}
	for k, v := range it.Header {
		hr.Header[k] = v
	}
	resp, err := s.stressHC.Do(hr)
	if err != nil {
		return "transport: " + err.Error()
	}
	b, _ := io.ReadAll(resp.Body)
	resp.Body.Close()
	var hs []string
	for k, v := range resp.Header {
		if strings.HasPrefix(k, "X-") {
			hs = append(hs, k+"="+strings.Join(v, ","))
		}
	}
	sort.Strings(hs)
	text := string(b)
	if resp.StatusCode >= 400 {
		text = errorHead(text)
	}
	return fmt.Sprintf("%d %s %s [%s]", resp.StatusCode, resp.Header.Get("Content-Type"), text, strings.Join(hs, ";"))
}

func (s *server) stressCall(it *stressItem) (out string) {
	defer func() {
		if r := recover(); r != nil {
			out = "panic: " + fmt.Sprint(r)
		}
	}()
	m := reflect.ValueOf(s.stressClient).MethodByName(it.Op)
	if !m.IsValid() {
		return "no client method " + it.Op
	}
	mt := m.Type()
	ctx := context.Background()
	// every other call overrides the server URL with one URL value shared by all goroutines (it ends in a slash:
	// anything that normalises it in place would be writing shared state)
	override := it.Override && s.stressURL != nil
	if override && s.api.ServerURLContext != nil {
		ctx = s.api.ServerURLContext(ctx, s.stressURL)
	}
	args := []reflect.Value{reflect.ValueOf(ctx)}
	for i := 1; i < mt.NumIn(); i++ {
		at := mt.In(i)
		if mt.IsVariadic() && i == mt.NumIn()-1 {
			if override && s.api.ServerURLOption != nil {
				opt := reflect.ValueOf(s.api.ServerURLOption(s.stressURL))
				if opt.Type().AssignableTo(at.Elem()) {
					args = append(args, opt)
				}
			}
			continue
		}
		if strings.HasSuffix(at.Name(), "Params") && at.Kind() == reflect.Struct && at.Name() == it.Op+"Params" {
			v, err := Build(s.api, at, it.Params)
			if err != nil {
				return "build params: " + err.Error()
			}
			args = append(args, v)
			continue
		}
		et := at
		if at.Kind() == reflect.Pointer {
			et = at.Elem()
		}
		nv := reflect.New(et)
		um := nv.MethodByName("UnmarshalJSON")
		if !um.IsValid() {
			return "request type has no UnmarshalJSON: " + at.String()
		}
		if o := um.Call([]reflect.Value{reflect.ValueOf([]byte(it.ReqJSON))}); !o[0].IsNil() {
			return "cannot decode req_json: " + o[0].Interface().(error).Error()
		}
		if at.Kind() == reflect.Pointer {
			args = append(args, nv)
		} else {
			args = append(args, nv.Elem())
		}
	}
	outv := m.Call(args)
	e := outv[len(outv)-1]
	if !e.IsNil() {
		return "err: " + errorHead(e.Interface().(error).Error())
	}
	if len(outv) == 2 {
		return "res: " + Canon(outv[0])
	}
	return "res"
}

func (s *server) stressOne(it *stressItem) string {
	if it.Kind == "call" {
		return s.stressCall(it)
	}
	return s.stressRaw(it)
}

func (s *server) stress(req *stressReq, ans map[string]any) {
	if s.h == nil || s.api.NewClient == nil {
		ans["error"] = "package has no server or no client"
		return
	}
	s.stressType = req.EchoType
	s.stressMode = true
	defer func() { s.stressMode = false }()
	if s.stressTS == nil {
		s.stressTS = httptest.NewServer(s.h)
		s.stressHC = &http.Client{Transport: &http.Transport{DisableKeepAlives: true}} // no connection reuse: a refused body must not poison the next request
		c, err := s.api.NewClient(s.stressTS.URL, s.stressHC, func(ctx context.Context, scheme, op string) (any, error) {
			return nil, errSkipClient()
		})
		if err != nil {
			ans["error"] = "client: " + err.Error()
			return
		}
		s.stressClient = c
		if u, err := url.Parse(s.stressTS.URL + "/"); err == nil {
			s.stressURL = u
		}
	}
	n := len(req.Items)
	alone := make([]string, n)
	for i := range req.Items {
		alone[i] = s.stressOne(&req.Items[i])
	}
	// a second sequential pass: the outcome alone must itself be reproducible (else the comparison is void)
	var unstable []int
	for i := range req.Items {
		if again := s.stressOne(&req.Items[i]); again != alone[i] {
			unstable = append(unstable, i)
		}
	}
	g := req.Goroutines
	if g <= 0 {
		g = 8
	}
	rounds := req.Rounds
	if rounds <= 0 {
		rounds = 3
	}
	type mism struct {
		Item  int    `json:"item"`
		Alone string `json:"alone"`
		Conc  string `json:"concurrent"`
	}
	var mu sync.Mutex
	var mm []mism
	total := 0
	var wg sync.WaitGroup
	for w := 0; w < g; w++ {
		wg.Add(1)
		go func(w int) {
			defer wg.Done()
			cnt := 0
			for r := 0; r < rounds; r++ {
				for k := 0; k < n; k++ {
					i := (k*(2*w+1) + w*7 + r) % n
					got := s.stressOne(&req.Items[i])
					cnt++
					if got != alone[i] {
						mu.Lock()
						if len(mm) < 8 {
							mm = append(mm, mism{i, alone[i], got})
						}
						mu.Unlock()
					}
				}
			}
			mu.Lock()
			total += cnt
			mu.Unlock()
		}(w)
	}
	wg.Wait()
	ans["alone"] = alone
	ans["unstable"] = unstable
	ans["concurrent_calls"] = total
	ans["mismatches"] = mm
	_ = bytes.MinRead
}

// errorHead keeps an error text up to its first parenthesised detail or quoted URL: details may list members
// in map order and carry the port of the test server, neither is part of the outcome compared here
func errorHead(s string) string {
	for _, cut := range []string{"(", "http://"} {
		if i := strings.Index(s, cut); i >= 0 {
			s = s[:i]
		}
	}
	return s
}
