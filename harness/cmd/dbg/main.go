package main

import (
	"fmt"
	"os"

	"github.com/ogen-go/ogen"
	"github.com/ogen-go/ogen/gen"
)

func main() {
	data, _ := os.ReadFile(os.Args[1])
	spec, err := ogen.Parse(data)
	if err != nil {
		panic(err)
	}
	g, err := gen.NewGenerator(spec, gen.Options{Parser: gen.ParseOptions{InferSchemaType: true}})
	if err != nil {
		panic(err)
	}
	for name, t := range g.Types() {
		fmt.Println(name, t.Kind, fmt.Sprintf("%p", t))
		for _, f := range t.Fields {
			fmt.Printf("   %s: %s kind=%s %p generic-of=%p nullable=%v\n", f.Name, f.Type.Go(), f.Type.Kind, f.Type, f.Type.GenericOf, f.Spec != nil && f.Spec.Schema.Nullable)
		}
	}
}
