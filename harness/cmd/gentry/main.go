// gentry runs /repo's generator on one document and reports what happened; with -build the written
// package is compiled in a scratch module. A debugging and replay aid for C02/C11.
package main

import (
	"flag"
	"fmt"
	"os"
	"os/exec"
	"path/filepath"

	"github.com/ogen-go/ogen"
	"github.com/ogen-go/ogen/gen"
	"github.com/ogen-go/ogen/gen/genfs"

	"verifharness/internal/gc"
)

func main() {
	all := flag.Bool("all-features", false, "enable every feature")
	build := flag.Bool("build", false, "go build + go vet the result")
	keep := flag.Bool("keep", false, "keep the scratch module")
	ce := flag.Int("convenient-errors", 0, "-1 off, 0 auto, 1 on")
	flag.Parse()
	data, err := os.ReadFile(flag.Arg(0))
	if err != nil {
		fmt.Println(err)
		os.Exit(2)
	}
	spec, err := ogen.Parse(data)
	if err != nil {
		fmt.Println("parse:", err)
		os.Exit(1)
	}
	opts := gen.Options{Parser: gen.ParseOptions{InferSchemaType: true}, Generator: gen.GenerateOptions{IgnoreNotImplemented: []string{"all"}, ConvenientErrors: gen.ConvenientErrors(*ce)}}
	if *all {
		fs := gen.FeatureSet{}
		for _, f := range gen.AllFeatures {
			_ = fs.Enable(f.Name)
		}
		opts.Generator.Features = &gen.FeatureOptions{DisableAll: true, Enable: fs}
	}
	g, err := gen.NewGenerator(spec, opts)
	if err != nil {
		fmt.Printf("generate: %+v\n", err)
		os.Exit(1)
	}
	mod, err := gc.NewModule(filepath.Join("/var/tmp", fmt.Sprintf("gentry-%d", os.Getpid())))
	if err != nil {
		panic(err)
	}
	if !*keep {
		defer os.RemoveAll(mod.Dir)
	}
	dir := filepath.Join(mod.Dir, "api")
	os.MkdirAll(dir, 0o755)
	if err := g.WriteSource(genfs.FormattedSource{Root: dir}, "api"); err != nil {
		fmt.Printf("write: %v\n", err)
		os.Exit(1)
	}
	fmt.Println("generated", dir)
	if *build {
		for _, args := range [][]string{{"build", "./..."}, {"vet", "-asmdecl", "./..."}} {
			cmd := exec.Command("go", args...)
			cmd.Dir = mod.Dir
			cmd.Env = append(os.Environ(), "GOFLAGS=-mod=mod", "GOPROXY=off", "GOSUMDB=off", "GOTOOLCHAIN=local")
			out, err := cmd.CombinedOutput()
			fmt.Printf("go %v: %v\n%s", args, err, out)
		}
	}
}
