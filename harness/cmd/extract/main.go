// extract is the fact translator (T-facts): it reads /repo's *source files* with go/ast and writes
// lean/Ogen/Generated/Facts_<name>.lean — literal tables and statement orders that theorems are stated
// over, so that an edit to such a table or order breaks a proof obligation directly. It fails loudly
// when a construct it looks for is no longer there.
package main

import (
	"bytes"
	"encoding/json"
	goerrors "errors"
	"flag"
	"fmt"
	"go/ast"
	"go/parser"
	"go/printer"
	"go/token"
	"math"
	"os"
	"os/exec"
	"path/filepath"
	"sort"
	"strconv"
	"strings"
	"sync"

	"github.com/go-faster/jx"

	"github.com/ogen-go/ogen"
	"github.com/ogen-go/ogen/conv"
	"github.com/ogen-go/ogen/gen"
	ht "github.com/ogen-go/ogen/http"
	ogenjson "github.com/ogen-go/ogen/json"
	"github.com/ogen-go/ogen/ogenerrors"
	"github.com/ogen-go/ogen/ogenregex"
	"github.com/ogen-go/ogen/validate"
)

func fail(format string, a ...any) {
	fmt.Fprintf(os.Stderr, "extract: "+format+"\n", a...)
	os.Exit(1)
}

func parseFile(path string) (*token.FileSet, *ast.File) {
	fset := token.NewFileSet()
	f, err := parser.ParseFile(fset, path, nil, 0)
	if err != nil {
		fail("parse %s: %v", path, err)
	}
	return fset, f
}

func findFunc(f *ast.File, name string) *ast.FuncDecl {
	for _, d := range f.Decls {
		if fd, ok := d.(*ast.FuncDecl); ok && fd.Name.Name == name && fd.Recv == nil {
			return fd
		}
	}
	return nil
}

func callName(c *ast.CallExpr) string {
	switch fn := c.Fun.(type) {
	case *ast.Ident:
		return fn.Name
	case *ast.SelectorExpr:
		if x, ok := fn.X.(*ast.Ident); ok {
			return x.Name + "." + fn.Sel.Name
		}
		return "." + fn.Sel.Name
	}
	return ""
}

func leanStr(s string) string { return strconv.Quote(s) }

// walkCalls visits the call expressions of fn in source order; a call of a function declared in the same file
// (plain identifier) is followed at the call site, once per function on the current path
func walkCalls(f *ast.File, fn *ast.FuncDecl, onPath map[string]bool, visit func(c *ast.CallExpr)) {
	if fn == nil || fn.Body == nil {
		return
	}
	ast.Inspect(fn.Body, func(n ast.Node) bool {
		c, ok := n.(*ast.CallExpr)
		if !ok {
			return true
		}
		visit(c)
		if id, ok := c.Fun.(*ast.Ident); ok && !onPath[id.Name] {
			if callee := findFunc(f, id.Name); callee != nil {
				onPath[id.Name] = true
				walkCalls(f, callee, onPath, visit)
				delete(onPath, id.Name)
			}
		}
		return true
	})
}

// stringBindings: identifier ↦ the string literals it ranges over or is declared as (range over a composite
// literal of strings, package-level var/const of a string or a list of strings)
func stringBindings(f *ast.File) map[string][]string {
	out := map[string][]string{}
	lits := func(e ast.Expr) []string {
		switch x := e.(type) {
		case *ast.BasicLit:
			if x.Kind == token.STRING {
				s, _ := strconv.Unquote(x.Value)
				return []string{s}
			}
		case *ast.CompositeLit:
			var r []string
			for _, el := range x.Elts {
				if bl, ok := el.(*ast.BasicLit); ok && bl.Kind == token.STRING {
					s, _ := strconv.Unquote(bl.Value)
					r = append(r, s)
				}
			}
			return r
		}
		return nil
	}
	named := map[string][]string{}
	ast.Inspect(f, func(n ast.Node) bool {
		switch x := n.(type) {
		case *ast.ValueSpec:
			for i, nm := range x.Names {
				if i < len(x.Values) {
					if l := lits(x.Values[i]); l != nil {
						named[nm.Name] = l
						out[nm.Name] = l
					}
				}
			}
		case *ast.AssignStmt:
			if len(x.Lhs) == 1 && len(x.Rhs) == 1 {
				if id, ok := x.Lhs[0].(*ast.Ident); ok {
					if l := lits(x.Rhs[0]); l != nil {
						named[id.Name] = l
						out[id.Name] = l
					}
				}
			}
		}
		return true
	})
	ast.Inspect(f, func(n ast.Node) bool {
		rs, ok := n.(*ast.RangeStmt)
		if !ok || rs.Value == nil {
			return true
		}
		v, ok := rs.Value.(*ast.Ident)
		if !ok {
			return true
		}
		if l := lits(rs.X); l != nil {
			out[v.Name] = l
		} else if id, ok := rs.X.(*ast.Ident); ok && named[id.Name] != nil {
			out[v.Name] = named[id.Name]
		}
		return true
	})
	return out
}

func leanList(xs []string) string {
	q := make([]string, len(xs))
	for i, x := range xs {
		q[i] = leanStr(x)
	}
	return "[" + strings.Join(q, ", ") + "]"
}

// cli: the order of the calls in cmd/ogen/main.go generate() and cleanDir's name filter
func factsCLI(repo string) (string, int) {
	_, f := parseFile(filepath.Join(repo, "cmd/ogen/main.go"))
	gen := findFunc(f, "generate")
	if gen == nil {
		fail("cmd/ogen/main.go: func generate not found")
	}
	interesting := map[string]string{"ogen.Parse": "Parse", "gen.NewGenerator": "NewGenerator", "os.ReadDir": "ReadDir", "cleanDir": "cleanDir", "os.MkdirAll": "MkdirAll", ".WriteSource": "WriteSource", "g.WriteSource": "WriteSource", "os.Remove": "Remove", "os.RemoveAll": "RemoveAll", "os.WriteFile": "WriteFile", "os.Create": "Create"}
	// calls in execution-text order, helpers of the same file inlined at their call site
	var order []string
	walkCalls(f, gen, map[string]bool{"generate": true}, func(c *ast.CallExpr) {
		if nm, ok := interesting[callName(c)]; ok {
			order = append(order, nm)
		}
	})
	for _, need := range []string{"Parse", "NewGenerator", "ReadDir", "cleanDir", "WriteSource"} {
		found := false
		for _, o := range order {
			if o == need {
				found = true
			}
		}
		if !found {
			fail("cmd/ogen/main.go generate(): call %s not found (order seen: %v)", need, order)
		}
	}
	cd := findFunc(f, "cleanDir")
	if cd == nil {
		fail("cmd/ogen/main.go: func cleanDir not found")
	}
	var suffixes, prefixes []string
	skipsDirs := false
	var removers []string
	// string literals an identifier may stand for: `for _, x := range [...]string{…}` / a package-level list
	bound := stringBindings(f)
	walkCalls(f, cd, map[string]bool{"cleanDir": true}, func(c *ast.CallExpr) {
		switch callName(c) {
		case "strings.HasSuffix", "strings.HasPrefix":
			if len(c.Args) == 2 {
				var vals []string
				switch a := c.Args[1].(type) {
				case *ast.BasicLit:
					if a.Kind == token.STRING {
						s, _ := strconv.Unquote(a.Value)
						vals = []string{s}
					}
				case *ast.Ident:
					vals = bound[a.Name]
				}
				if callName(c) == "strings.HasSuffix" {
					suffixes = append(suffixes, vals...)
				} else {
					prefixes = append(prefixes, vals...)
				}
			}
		case "f.IsDir":
			skipsDirs = true
		case "os.Remove", "os.RemoveAll":
			removers = append(removers, callName(c))
		}
	})
	sort.Strings(suffixes)
	sort.Strings(prefixes)
	// the filter itself is observed, not read: the built binary cleans a directory that holds a probe file for
	// every candidate prefix × candidate suffix (and a directory with an own-pattern name); the prefixes and
	// suffixes of the removed probes are the lists, provided the removed set is exactly their product
	_, _ = suffixes, prefixes
	prefixes, suffixes, skipsDirs = observeCleanFilter(repo)
	var sb strings.Builder
	sb.WriteString("/-! GENERATED by harness/cmd/extract from cmd/ogen/main.go — do not edit. -/\nnamespace Facts.CLI\n")
	fmt.Fprintf(&sb, "/-- calls of `generate()` in source order -/\ndef callOrder : List String := %s\n", leanList(order))
	fmt.Fprintf(&sb, "/-- `cleanDir`: a file is removed iff it is not a directory, has one of these suffixes … -/\ndef ownSuffixes : List String := %s\n", leanList(suffixes))
	fmt.Fprintf(&sb, "/-- … and one of these prefixes -/\ndef ownPrefixes : List String := %s\n", leanList(prefixes))
	fmt.Fprintf(&sb, "def skipsDirectories : Bool := %v\n", skipsDirs)
	fmt.Fprintf(&sb, "def removeCalls : List String := %s\n", leanList(removers))
	sb.WriteString("end Facts.CLI\n")
	return sb.String(), len(order) + len(suffixes) + len(prefixes) + 2
}

func observeCleanFilter(repo string) (prefixes, suffixes []string, skipsDirs bool) {
	scratch := os.Getenv("VERIF_SCRATCH")
	if scratch == "" {
		scratch = "/var/tmp"
	}
	dir, err := os.MkdirTemp(scratch, "extract-cli-")
	if err != nil {
		fail("scratch directory: %v", err)
	}
	defer os.RemoveAll(dir)
	bin := filepath.Join(dir, "ogen")
	build := exec.Command("go", "build", "-o", bin, "./cmd/ogen")
	build.Dir = repo
	if out, err := build.CombinedOutput(); err != nil {
		fail("go build ./cmd/ogen: %v\n%s", err, out)
	}
	spec := filepath.Join(dir, "spec.json")
	os.WriteFile(spec, []byte(`{"openapi":"3.0.3","info":{"title":"t","version":"1"},"paths":{"/a":{"get":{"operationId":"a","responses":{"200":{"description":"ok"}}}}}}`), 0o644)
	tgt := filepath.Join(dir, "api")
	os.MkdirAll(tgt, 0o755)
	candP := []string{"oas", "openapi", "oa", "o", "open", "api", "Oas", "OAS", "x", "_oas", "ogen"}
	candS := []string{"_gen.go", "_gen_test.go", "_gen", "gen.go", ".go", "_test.go", "_gen.go.bak", "_gen_tests.go", "_gen_set.go", "_gen_t.go", "_GEN.go", "_gen.GO"}
	name := func(p, s string) string { return p + "_probe" + s }
	for _, p := range candP {
		for _, s := range candS {
			os.WriteFile(filepath.Join(tgt, name(p, s)), []byte("package api\n"), 0o644)
		}
	}
	os.MkdirAll(filepath.Join(tgt, "oas_probedir_gen.go"), 0o755)
	os.WriteFile(filepath.Join(tgt, "oas_probedir_gen.go", "oas_inner_gen.go"), []byte("package x\n"), 0o644)
	run := exec.Command(bin, "--clean", "--target", tgt, "--package", "api", spec)
	run.Dir = dir
	if out, err := run.CombinedOutput(); err != nil {
		fail("ogen --clean on the probe directory: %v\n%s", err, out)
	}
	removed := map[[2]string]bool{}
	inP, inS := map[string]bool{}, map[string]bool{}
	for _, p := range candP {
		for _, s := range candS {
			if _, err := os.Stat(filepath.Join(tgt, name(p, s))); err != nil {
				removed[[2]string{p, s}] = true
				inP[p], inS[s] = true, true
			}
		}
	}
	for _, p := range candP {
		for _, s := range candS {
			if removed[[2]string{p, s}] != (inP[p] && inS[s]) {
				fail("cmd/ogen --clean: the set of removed probe files is not (some prefixes) × (some suffixes): %s removed=%v", name(p, s), removed[[2]string{p, s}])
			}
		}
	}
	for p := range inP {
		prefixes = append(prefixes, p)
	}
	for s := range inS {
		suffixes = append(suffixes, s)
	}
	sort.Strings(prefixes)
	sort.Strings(suffixes)
	if len(prefixes) == 0 || len(suffixes) == 0 {
		fail("cmd/ogen --clean removed none of the probe files")
	}
	_, errDir := os.Stat(filepath.Join(tgt, "oas_probedir_gen.go", "oas_inner_gen.go"))
	return prefixes, suffixes, errDir == nil
}

// float: observed, not read — which strconv.FormatFloat(v, verb, precision, bits) each float text helper of
// /repo's conv and json packages computes, identified on probe values that tell the candidates apart
// (1e21: 'f' vs 'g' vs 'e'; 0.1+0.2 and float32(0.1): the bit size; 1e-11, 1/3: a fixed precision). A rewrite
// that keeps the helpers' answers keeps these facts.
func factsFloat(repo string) (string, int) {
	probes64 := []float64{1e21, 1e-7, 0.1 + 0.2, 1, 16777217, 1e-11, 123456789.125, 5e-324, math.MaxFloat64, -2.5, 1.0 / 3, 1e20, 123456, 0}
	type cand struct {
		verb byte
		prec int
		bits int
	}
	var cands []cand
	for _, verb := range []byte{'f', 'g', 'e', 'G', 'E'} {
		for prec := -1; prec <= 17; prec++ {
			for _, bits := range []int{32, 64} {
				cands = append(cands, cand{verb, prec, bits})
			}
		}
	}
	identify := func(name string, own int, f func(v float64) string) [5]string {
		var hits []cand
		for _, c := range cands {
			ok := true
			for _, p := range probes64 {
				v := p
				if own == 32 {
					v = float64(float32(p))
				}
				if strconv.FormatFloat(v, c.verb, c.prec, c.bits) != f(v) {
					ok = false
					break
				}
			}
			if ok {
				hits = append(hits, c)
			}
		}
		if len(hits) != 1 {
			fail("float helper %s: %d candidate (verb, precision, bit size) triples reproduce its output on the probe values (want exactly 1): %v", name, len(hits), hits)
		}
		h := hits[0]
		return [5]string{name, "'" + string(h.verb) + "'", strconv.Itoa(h.prec), strconv.Itoa(h.bits), strconv.Itoa(own)}
	}
	unq := func(enc func(e *jx.Encoder)) string {
		var e jx.Encoder
		enc(&e)
		s := string(e.Bytes())
		return strings.TrimSuffix(strings.TrimPrefix(s, "\""), "\"")
	}
	specs := [][5]string{
		identify("Float32ToString", 32, func(v float64) string { return conv.Float32ToString(float32(v)) }),
		identify("Float64ToString", 64, func(v float64) string { return conv.Float64ToString(v) }),
		identify("StringFloat32ToString", 32, func(v float64) string { return conv.StringFloat32ToString(float32(v)) }),
		identify("StringFloat64ToString", 64, func(v float64) string { return conv.StringFloat64ToString(v) }),
		identify("EncodeStringFloat32", 32, func(v float64) string {
			return unq(func(e *jx.Encoder) { ogenjson.EncodeStringFloat32(e, float32(v)) })
		}),
		identify("EncodeStringFloat64", 64, func(v float64) string {
			return unq(func(e *jx.Encoder) { ogenjson.EncodeStringFloat64(e, v) })
		}),
	}
	var sb strings.Builder
	sb.WriteString("/-! GENERATED by harness/cmd/extract from conv and json (observed on the linked packages) — do not edit. -/\nnamespace Facts.Float\n")
	sb.WriteString("/-- (function, verb, precision, bit size, bit size of the value's own type) of the strconv.FormatFloat call each float text helper computes -/\ndef formatCalls : List (String × String × String × String × String) := [\n")
	for i, c := range specs {
		sep := ","
		if i == len(specs)-1 {
			sep = ""
		}
		fmt.Fprintf(&sb, "  (%s, %s, %s, %s, %s)%s\n", leanStr(c[0]), leanStr(c[1]), leanStr(c[2]), leanStr(c[3]), leanStr(c[4]), sep)
	}
	sb.WriteString("]\nend Facts.Float\n")
	return sb.String(), len(specs)
}


// regex: observed, not read — the replacement texts of the converter are what `ogenregex.Convert` of the linked
// package answers for the one-token patterns `\s`, `.`, `[]` and `[^]`
func factsRegex(repo string) (string, int) {
	conv1 := func(p string) []rune {
		out, ok := ogenregex.Convert(p)
		if !ok {
			fail("ogenregex.Convert(%q) reports that the pattern cannot be converted", p)
		}
		return []rune(out)
	}
	ws := conv1(`\s`)
	if len(ws) < 2 || ws[0] != '[' || ws[len(ws)-1] != ']' {
		fail("ogenregex.Convert(`\\s`) is not a bracket class: %q", string(ws))
	}
	if neg := conv1(`\S`); string(neg) != "[^"+string(ws[1:]) {
		fail("ogenregex.Convert(`\\S`) is not the negation of Convert(`\\s`): %q", string(neg))
	}
	cps := func(rs []rune) string {
		parts := make([]string, len(rs))
		for i, r := range rs {
			parts[i] = strconv.Itoa(int(r))
		}
		return "[" + strings.Join(parts, ", ") + "]"
	}
	var sb strings.Builder
	sb.WriteString("/-! GENERATED by harness/cmd/extract from ogenregex (observed on the linked package) — do not edit. -/\nnamespace Facts.Regex\n")
	sb.WriteString("/-- string constants, as code point lists: the class `.` becomes, the members of the class `\\s` becomes -/\ndef consts : List (String × List Nat) := [\n")
	fmt.Fprintf(&sb, "  (\"re2Dot\", %s),\n  (\"whitespaceChars\", %s)\n]\n", cps(conv1(".")), cps(ws[1:len(ws)-1]))
	fmt.Fprintf(&sb, "/-- what `[]` (first) and `[^]` (second) become, as code point lists -/\ndef emptyClass : List Nat := %s\ndef anyClass : List Nat := %s\n", cps(conv1("[]")), cps(conv1("[^]")))
	sb.WriteString("end Facts.Regex\n")
	return sb.String(), 4
}

// constString evaluates a string literal or a concatenation of string literals
func constString(e ast.Expr) (string, bool) {
	switch x := e.(type) {
	case *ast.BasicLit:
		if x.Kind != token.STRING {
			return "", false
		}
		s, err := strconv.Unquote(x.Value)
		return s, err == nil
	case *ast.BinaryExpr:
		if x.Op != token.ADD {
			return "", false
		}
		a, ok1 := constString(x.X)
		b, ok2 := constString(x.Y)
		return a + b, ok1 && ok2
	case *ast.ParenExpr:
		return constString(x.X)
	}
	return "", false
}

// naming: the table of internal/naming/rules.go
func factsNaming(repo string) (string, int) {
	_, f := parseFile(filepath.Join(repo, "internal/naming/rules.go"))
	var rules []string
	for _, d := range f.Decls {
		gd, ok := d.(*ast.GenDecl)
		if !ok {
			continue
		}
		for _, sp := range gd.Specs {
			vs, ok := sp.(*ast.ValueSpec)
			if !ok {
				continue
			}
			for i, n := range vs.Names {
				if n.Name != "rules" || i >= len(vs.Values) {
					continue
				}
				cl, ok := vs.Values[i].(*ast.CompositeLit)
				if !ok {
					continue
				}
				for _, e := range cl.Elts {
					if s, ok := constString(e); ok {
						rules = append(rules, s)
					}
				}
			}
		}
	}
	if len(rules) == 0 {
		fail("internal/naming/rules.go: var rules = [...]string{…} not found")
	}
	var sb strings.Builder
	sb.WriteString("/-! GENERATED by harness/cmd/extract from internal/naming/rules.go — do not edit. -/\nnamespace Facts.Naming\n")
	sb.WriteString("/-- canonical spellings, as code point lists -/\ndef rules : List (List Nat) := [\n")
	for i, r := range rules {
		sep := ","
		if i == len(rules)-1 {
			sep = ""
		}
		fmt.Fprintf(&sb, "  %s%s\n", runeList(r), sep)
	}
	sb.WriteString("]\nend Facts.Naming\n")
	return sb.String(), len(rules)
}

func findMethod(f *ast.File, name string) *ast.FuncDecl {
	for _, d := range f.Decls {
		if fd, ok := d.(*ast.FuncDecl); ok && fd.Name.Name == name && fd.Recv != nil {
			return fd
		}
	}
	return nil
}

func runeList(s string) string {
	var xs []string
	for _, r := range s {
		xs = append(xs, strconv.Itoa(int(r)))
	}
	return "[" + strings.Join(xs, ", ") + "]"
}

// tmpl: facts read off the *text* of the handler and request-decoder templates (go/ast cannot parse a
// text/template): the order in which the stages of a request handler appear, the bit-set statements of the
// security check, the optional-body shortcut. Blanks are normalised to single spaces.
func factsTmpl(repo string) (string, int) {
	read := func(rel string) []string {
		b, err := os.ReadFile(filepath.Join(repo, rel))
		if err != nil {
			fail("%v", err)
		}
		lines := strings.Split(string(b), "\n")
		for i, l := range lines {
			lines[i] = strings.Join(strings.Fields(l), " ")
		}
		return lines
	}
	h := read("gen/_template/handlers.tmpl")
	first := func(lines []string, needle string) int {
		for i, l := range lines {
			if strings.Contains(l, needle) {
				return i
			}
		}
		return -1
	}
	type marker struct{ stage, needle string }
	markers := []marker{
		{"security", "var satisfied bitset"},
		{"params", "decode{{ $op.Name }}Params("},
		{"body", "s.decode{{ $op.Name }}Request("},
		{"handler", "s.h.{{ $op.Name }}(ctx"},
		{"encode", "encode{{ $op.Name }}Response(response"},
	}
	type pos struct {
		stage string
		line  int
	}
	var ps []pos
	for _, m := range markers {
		i := first(h, m.needle)
		if i < 0 {
			fail("gen/_template/handlers.tmpl: stage marker %q not found", m.needle)
		}
		ps = append(ps, pos{m.stage, i})
	}
	sort.SliceStable(ps, func(i, j int) bool { return ps[i].line < ps[j].line })
	var order []string
	for _, p := range ps {
		order = append(order, p.stage)
	}
	// after each failing stage the handler returns before the next stage starts: the number of `return`
	// lines between consecutive stage markers
	var returns []string
	for k := 0; k+1 < len(ps); k++ {
		n := 0
		for i := ps[k].line; i < ps[k+1].line; i++ {
			if h[i] == "return" {
				n++
			}
		}
		returns = append(returns, fmt.Sprintf("(%s, %d)", leanStr(ps[k].stage), n))
	}
	line := func(lines []string, file, needle string) string {
		i := first(lines, needle)
		if i < 0 {
			fail("%s: %q not found", file, needle)
		}
		return lines[i]
	}
	test := line(h, "handlers.tmpl", "satisfied[i] &")
	setBit := line(h, "handlers.tmpl", "satisfied[{{")
	// read off the *generated* Go of a probe document (go/ast, normalised), not off the template text: the no-body
	// shortcut of an optional request body as a sorted list of `&&` conjuncts, and the generic (OptNil) Decode
	// as sorted sets of assignments to the receiver (a right-hand side that is not a literal is `<value>`, an
	// identifier that is neither the request nor the receiver is `<local>`)
	genFiles := generateProbe()
	shortcut := optionalBodyConjuncts(genFiles)
	nullPath, valueResets := genericDecodeAssignments(genFiles)
	var sb strings.Builder
	sb.WriteString("/-! GENERATED by harness/cmd/extract from gen/_template/handlers.tmpl, request_decode.tmpl and json/encoders_generic.tmpl — do not edit. -/\nnamespace Facts.Tmpl\n")
	fmt.Fprintf(&sb, "/-- generic Decode: assignments to the wrapper on the null path (sorted) -/\ndef genericDecodeNullPath : List String := %s\n", leanList(nullPath))
	fmt.Fprintf(&sb, "/-- generic Decode: assignments to the wrapper before a (non-null) value is decoded (sorted) -/\ndef genericDecodeValueResets : List String := %s\n", leanList(valueResets))
	fmt.Fprintf(&sb, "/-- the stages of a request handler in the order in which they appear in the template -/\ndef stageOrder : List String := %s\n", leanList(order))
	fmt.Fprintf(&sb, "/-- `return` statements between a stage's marker and the next stage's -/\ndef returnsAfter : List (String × Nat) := [%s]\n", strings.Join(returns, ", "))
	fmt.Fprintf(&sb, "/-- the requirement test of the security check -/\ndef securityTest : String := %s\n", leanStr(test))
	fmt.Fprintf(&sb, "/-- the statement that records an authenticated scheme -/\ndef securitySetBit : String := %s\n", leanStr(setBit))
	fmt.Fprintf(&sb, "/-- the no-body shortcut of an optional request body: the conjuncts of its condition (sorted) -/\ndef optionalBodyShortcut : List String := %s\n", leanList(shortcut))
	sb.WriteString("end Facts.Tmpl\n")
	return sb.String(), len(order) + len(returns) + 3
}

type probeFS struct{ files map[string][]byte }

func (m *probeFS) WriteFile(name string, content []byte) error {
	m.files[name] = append([]byte(nil), content...)
	return nil
}

// generateProbe runs /repo's generator (linked in) on a small document with an optional JSON request body and an
// optional nullable string member, and returns the generated files
func generateProbe() map[string][]byte {
	const doc = `{"openapi":"3.0.3","info":{"title":"t","version":"1"},"paths":{"/a":{"post":{"operationId":"probe",
	"requestBody":{"required":false,"content":{"application/json":{"schema":{"$ref":"#/components/schemas/P"}}}},
	"responses":{"200":{"description":"ok"}}}}},
	"components":{"schemas":{"P":{"type":"object","properties":{"s":{"type":"string","nullable":true}}}}}}`
	spec, err := ogen.Parse([]byte(doc))
	if err != nil {
		fail("probe document: %v", err)
	}
	g, err := gen.NewGenerator(spec, gen.Options{})
	if err != nil {
		fail("probe document: generator: %v", err)
	}
	fs := &probeFS{files: map[string][]byte{}}
	if err := g.WriteSource(&lockedProbeFS{in: fs}, "api"); err != nil {
		fail("probe document: write: %v", err)
	}
	return fs.files
}

func parseGenerated(files map[string][]byte) (*token.FileSet, []*ast.File) {
	fset := token.NewFileSet()
	var out []*ast.File
	names := make([]string, 0, len(files))
	for n := range files {
		names = append(names, n)
	}
	sort.Strings(names)
	for _, n := range names {
		if !strings.HasSuffix(n, ".go") {
			continue
		}
		f, err := parser.ParseFile(fset, n, files[n], 0)
		if err != nil {
			fail("generated probe file %s does not parse: %v", n, err)
		}
		out = append(out, f)
	}
	return fset, out
}

// exprText prints an expression with identifiers other than those in keep replaced by <local>
func exprText(fset *token.FileSet, e ast.Expr, keep map[string]bool) string {
	var sb strings.Builder
	var rec func(e ast.Expr)
	rec = func(e ast.Expr) {
		switch x := e.(type) {
		case *ast.Ident:
			if keep[x.Name] || x.Name == "true" || x.Name == "false" || x.Name == "nil" {
				sb.WriteString(x.Name)
			} else {
				sb.WriteString("<local>")
			}
		case *ast.SelectorExpr:
			rec(x.X)
			sb.WriteString("." + x.Sel.Name)
		case *ast.UnaryExpr:
			sb.WriteString(x.Op.String())
			rec(x.X)
		case *ast.BinaryExpr:
			rec(x.X)
			sb.WriteString(" " + x.Op.String() + " ")
			rec(x.Y)
		case *ast.ParenExpr:
			rec(x.X)
		case *ast.BasicLit:
			sb.WriteString(x.Value)
		case *ast.IndexExpr:
			rec(x.X)
			sb.WriteString("[")
			rec(x.Index)
			sb.WriteString("]")
		case *ast.CallExpr:
			rec(x.Fun)
			sb.WriteString("(")
			for i, a := range x.Args {
				if i > 0 {
					sb.WriteString(", ")
				}
				rec(a)
			}
			sb.WriteString(")")
		default:
			sb.WriteString("<expr>")
		}
	}
	rec(e)
	return sb.String()
}

func mentions(n ast.Node, text string) bool {
	found := false
	ast.Inspect(n, func(n ast.Node) bool {
		switch x := n.(type) {
		case *ast.SelectorExpr:
			if id, ok := x.X.(*ast.Ident); ok && id.Name+"."+x.Sel.Name == text {
				found = true
			}
		case *ast.BasicLit:
			if x.Value == text {
				found = true
			}
		}
		return !found
	})
	return found
}

// optionalBodyConjuncts: the `if` of the request decoder that looks at both the Content-Type header and
// r.ContentLength, as the sorted list of the conjuncts of its condition
func optionalBodyConjuncts(files map[string][]byte) []string {
	fset, fs := parseGenerated(files)
	var out []string
	for _, f := range fs {
		ast.Inspect(f, func(n ast.Node) bool {
			st, ok := n.(*ast.IfStmt)
			if !ok || out != nil {
				return true
			}
			if !mentions(st.Cond, "r.ContentLength") {
				return true
			}
			var conj func(e ast.Expr)
			conj = func(e ast.Expr) {
				if p, ok := e.(*ast.ParenExpr); ok {
					conj(p.X)
					return
				}
				if b, ok := e.(*ast.BinaryExpr); ok && b.Op == token.LAND {
					conj(b.X)
					conj(b.Y)
					return
				}
				// 0 == x and x == 0 are one conjunct
				if b, ok := e.(*ast.BinaryExpr); ok && (b.Op == token.EQL || b.Op == token.NEQ) {
					if _, lit := b.X.(*ast.BasicLit); lit {
						e = &ast.BinaryExpr{X: b.Y, Op: b.Op, Y: b.X}
					}
				}
				out = append(out, exprText(fset, e, map[string]bool{"r": true}))
			}
			conj(st.Cond)
			return true
		})
	}
	if out == nil {
		fail("generated request decoder of the probe document: no `if` that tests r.ContentLength (the optional-body shortcut)")
	}
	sort.Strings(out)
	return out
}

// genericDecodeAssignments: Decode of the generated OptNilString — assignments to the receiver inside the
// `d.Next() == jx.Null` block, and those after it before the value is decoded
func genericDecodeAssignments(files map[string][]byte) (nullPath, valueResets []string) {
	fset, fs := parseGenerated(files)
	var decode *ast.FuncDecl
	for _, f := range fs {
		for _, d := range f.Decls {
			fd, ok := d.(*ast.FuncDecl)
			if !ok || fd.Name.Name != "Decode" || fd.Recv == nil || len(fd.Recv.List) != 1 || fd.Body == nil {
				continue
			}
			if st, ok := fd.Recv.List[0].Type.(*ast.StarExpr); ok {
				if id, ok := st.X.(*ast.Ident); ok && id.Name == "OptNilString" {
					decode = fd
				}
			}
		}
	}
	if decode == nil || len(decode.Recv.List[0].Names) != 1 {
		fail("generated probe package: (*OptNilString).Decode not found")
	}
	recv := decode.Recv.List[0].Names[0].Name
	assigns := func(n ast.Node) []string {
		var out []string
		ast.Inspect(n, func(n ast.Node) bool {
			as, ok := n.(*ast.AssignStmt)
			if !ok {
				return true
			}
			for i, l := range as.Lhs {
				sel, ok := l.(*ast.SelectorExpr)
				if !ok {
					continue
				}
				if id, ok := sel.X.(*ast.Ident); !ok || id.Name != recv {
					continue
				}
				rhs := "<value>"
				if i < len(as.Rhs) {
					if id, ok := as.Rhs[i].(*ast.Ident); ok && (id.Name == "true" || id.Name == "false") {
						rhs = id.Name
					}
				}
				out = append(out, "o."+sel.Sel.Name+" = "+rhs)
			}
			return true
		})
		sort.Strings(out)
		return out
	}
	var nullBlock *ast.IfStmt
	var after []ast.Stmt
	for i, st := range decode.Body.List {
		if is, ok := st.(*ast.IfStmt); ok && nullBlock == nil && strings.Contains(exprText(fset, is.Cond, map[string]bool{"d": true, "jx": true}), "jx.Null") {
			nullBlock = is
			after = decode.Body.List[i+1:]
		}
	}
	if nullBlock == nil {
		fail("generated (*OptNilString).Decode: no `if d.Next() == jx.Null` block")
	}
	nullPath = assigns(nullBlock.Body)
	// statements after the null block up to (not including) the first one that calls the decoder
	for _, st := range after {
		calls := false
		ast.Inspect(st, func(n ast.Node) bool {
			if c, ok := n.(*ast.CallExpr); ok {
				if sel, ok := c.Fun.(*ast.SelectorExpr); ok {
					if id, ok := sel.X.(*ast.Ident); ok && id.Name == "d" {
						calls = true
					}
				}
			}
			return !calls
		})
		if calls {
			break
		}
		valueResets = append(valueResets, assigns(st)...)
	}
	sort.Strings(valueResets)
	return nullPath, valueResets
}

// errors: the HTTP status each ogenerrors error type reports (Code methods) and the special cases of
// ogenerrors.ErrorCode, as net/http constant names
// errors: observed, not read — the extractor is linked against /repo's ogenerrors, so the statuses are what the
// code of the working tree answers (a rewrite of ErrorCode that keeps its answers keeps these facts)
func factsErrors(repo string) (string, int) {
	type kv struct {
		typ  string
		code int
	}
	codes := []kv{
		{"DecodeParamsError", (&ogenerrors.DecodeParamsError{}).Code()},
		{"DecodeRequestError", (&ogenerrors.DecodeRequestError{}).Code()},
		{"SecurityError", (&ogenerrors.SecurityError{}).Code()},
	}
	defaultCode := ogenerrors.ErrorCode(goerrors.New("some handler error"))
	notImpl := ogenerrors.ErrorCode(ht.ErrNotImplemented)
	ctype := ogenerrors.ErrorCode(&validate.InvalidContentTypeError{ContentType: "x/y"})
	// the same answers through a wrapping error
	if ogenerrors.ErrorCode(fmt.Errorf("wrapped: %w", ht.ErrNotImplemented)) != notImpl || ogenerrors.ErrorCode(fmt.Errorf("wrapped: %w", &validate.InvalidContentTypeError{ContentType: "x/y"})) != ctype {
		fail("ogenerrors.ErrorCode answers differently for a wrapped error")
	}
	sort.Slice(codes, func(i, j int) bool { return codes[i].typ < codes[j].typ })
	var sb strings.Builder
	sb.WriteString("/-! GENERATED by harness/cmd/extract from ogenerrors (observed on the linked package) — do not edit. -/\nnamespace Facts.Errors\n")
	sb.WriteString("/-- (error type, status its Code() method returns) -/\ndef codes : List (String × Nat) := [")
	for i, c := range codes {
		if i > 0 {
			sb.WriteString(", ")
		}
		fmt.Fprintf(&sb, "(%s, %d)", leanStr(c.typ), c.code)
	}
	sb.WriteString("]\n")
	fmt.Fprintf(&sb, "/-- ErrorCode: the default, the status for ht.ErrNotImplemented, the status for an invalid content type -/\ndef defaultCode : Nat := %d\ndef notImplementedCode : Nat := %d\ndef contentTypeCode : Nat := %d\n", defaultCode, notImpl, ctype)
	sb.WriteString("end Facts.Errors\n")
	return sb.String(), len(codes) + 3
}

type orderFS struct {
	names []string
}

func (m *orderFS) WriteFile(name string, content []byte) error {
	m.names = append(m.names, name) // WriteSource may call this from several goroutines: guarded below by GOMAXPROCS(1)? no — by a mutex
	return nil
}

type lockedFS struct {
	mu sync.Mutex
	in orderFS
}

func (m *lockedFS) WriteFile(name string, content []byte) error {
	m.mu.Lock()
	defer m.mu.Unlock()
	return m.in.WriteFile(name, content)
}

// sortComparators lists every call of a sort with a caller-supplied comparator in gen/ and gen/ir/ (non-test files,
// verif hooks excluded): "file:function: comparator body" with the white space collapsed.
func sortComparators(repo string) []string {
	var out []string
	for _, dir := range []string{"gen", "gen/ir"} {
		files, _ := filepath.Glob(filepath.Join(repo, dir, "*.go"))
		sort.Strings(files)
		for _, path := range files {
			base := filepath.Base(path)
			if strings.HasSuffix(base, "_test.go") || strings.HasPrefix(base, "verif_") {
				continue
			}
			fset, f := parseFile(path)
			for _, d := range f.Decls {
				fd, ok := d.(*ast.FuncDecl)
				if !ok || fd.Body == nil {
					continue
				}
				ast.Inspect(fd.Body, func(n ast.Node) bool {
					c, ok := n.(*ast.CallExpr)
					if !ok {
						return true
					}
					switch callName(c) {
					case "slices.SortStableFunc", "slices.SortFunc", "sort.Slice", "sort.SliceStable":
					default:
						return true
					}
					if len(c.Args) != 2 {
						return true
					}
					var buf bytes.Buffer
					if lit, ok := c.Args[1].(*ast.FuncLit); ok {
						_ = printer.Fprint(&buf, fset, lit.Body)
					} else {
						_ = printer.Fprint(&buf, fset, c.Args[1])
					}
					out = append(out, dir+"/"+base+":"+fd.Name.Name+": "+strings.Join(strings.Fields(buf.String()), " "))
					return true
				})
			}
		}
	}
	return out
}

// factsGenOrder: (observed) the file names WriteSource writes for a document that needs every template, with
// every feature on — one entry per WriteFile call; (syntactic) getBuffer resets the buffer it takes from the pool.
func factsGenOrder(repo string) (string, int) {
	const doc = `{"openapi":"3.1.0","info":{"title":"t","version":"1"},
	"servers":[{"url":"https://{r}.example.com","variables":{"r":{"default":"eu"}}}],
	"paths":{"/a/{id}":{"post":{"operationId":"probe","security":[{"k":[]}],
	"parameters":[{"name":"id","in":"path","required":true,"schema":{"type":"string"}},
	{"name":"f","in":"query","style":"deepObject","schema":{"$ref":"#/components/schemas/Q"}}],
	"requestBody":{"required":true,"content":{"application/json":{"schema":{"$ref":"#/components/schemas/P"}}}},
	"responses":{"200":{"description":"ok","content":{"application/json":{"schema":{"$ref":"#/components/schemas/P"}}}},
	"404":{"description":"no","content":{"application/json":{"schema":{"$ref":"#/components/schemas/Q"}}}}}}}},
	"webhooks":{"h":{"post":{"operationId":"hook","requestBody":{"content":{"application/json":{"schema":{"$ref":"#/components/schemas/Q"}}}},"responses":{"200":{"description":"ok"}}}}},
	"components":{"securitySchemes":{"k":{"type":"apiKey","in":"header","name":"X-K"}},
	"schemas":{"P":{"type":"object","required":["s"],"properties":{"s":{"type":"string","minLength":1,"default":"x"},"n":{"type":"integer","default":3}}},
	"Q":{"type":"object","properties":{"a":{"type":"string"}}}}}}`
	spec, err := ogen.Parse([]byte(doc))
	if err != nil {
		fail("genorder probe document: %v", err)
	}
	fset := gen.FeatureSet{}
	for _, f := range gen.AllFeatures {
		_ = fset.Enable(f.Name)
	}
	g, err := gen.NewGenerator(spec, gen.Options{Generator: gen.GenerateOptions{Features: &gen.FeatureOptions{DisableAll: true, Enable: fset}}})
	if err != nil {
		fail("genorder probe document: generator: %v", err)
	}
	fs := &lockedFS{}
	if err := g.WriteSource(fs, "api"); err != nil {
		fail("genorder probe document: write: %v", err)
	}
	names := append([]string{}, fs.in.names...)
	sort.Strings(names)
	if len(names) < 20 {
		fail("genorder probe document: only %d files written — the probe no longer reaches every template", len(names))
	}
	// getBuffer: a Reset call between the pool's Get and the return
	_, f := parseFile(filepath.Join(repo, "gen", "write.go"))
	gb := findFunc(f, "getBuffer")
	if gb == nil {
		fail("gen/write.go: getBuffer not found")
	}
	var calls []string
	walkCalls(f, gb, map[string]bool{}, func(c *ast.CallExpr) { calls = append(calls, callName(c)) })
	resets := false
	seenGet := false
	for _, c := range calls {
		if strings.HasSuffix(c, ".Get") {
			seenGet = true
		}
		if seenGet && (strings.HasSuffix(c, ".Reset") || strings.HasSuffix(c, ".Truncate")) {
			resets = true
		}
	}
	var sb strings.Builder
	sb.WriteString("/-! GENERATED by harness/cmd/extract (WriteSource observed on the linked package; getBuffer read from gen/write.go) — do not edit. -/\nnamespace Facts.GenOrder\n")
	fmt.Fprintf(&sb, "/-- one entry per `WriteFile` call of `WriteSource` on a document that needs every template, all features on (sorted) -/\ndef writtenFiles : List String := %s\n", leanList(names))
	fmt.Fprintf(&sb, "/-- the calls of `getBuffer`, in source order -/\ndef getBufferCalls : List String := %s\n", leanList(calls))
	fmt.Fprintf(&sb, "/-- a `Reset` follows the pool's `Get` -/\ndef getBufferResets : Bool := %v\n", resets)
	cmps := sortComparators(repo)
	fmt.Fprintf(&sb, "/-- every sort with a caller-supplied comparator in gen/ and gen/ir/: `file:function: body` -/\ndef sortComparators : List String := %s\n", leanList(cmps))
	sb.WriteString("end Facts.GenOrder\n")
	return sb.String(), len(names) + 1 + len(cmps)
}

// ---- conc: writes to package-level variables outside init (C19) ----

// globalWrites lists, for the Go files given (one package), every statement outside `init` functions and
// outside package-level initialisers that writes through a package-level variable: assignment to it / to an
// element, field or dereference of it, ++/--, taking its address, delete / clear / copy into it.
// lastGlobalMethodCalls collects, as a side result of globalWrites, every `global.Method(…)` /
// `global[i].Method(…)` call outside init (a method with a pointer receiver may write through the variable)
var lastGlobalMethodCalls = map[string]bool{}

func globalWrites(fset *token.FileSet, files []*ast.File) []string {
	pkgVars := map[string]bool{}
	topSpec := map[*ast.ValueSpec]bool{}
	for _, f := range files {
		for _, d := range f.Decls {
			gd, ok := d.(*ast.GenDecl)
			if !ok || gd.Tok != token.VAR {
				continue
			}
			for _, sp := range gd.Specs {
				vs := sp.(*ast.ValueSpec)
				topSpec[vs] = true
				for _, n := range vs.Names {
					if n.Name != "_" {
						pkgVars[n.Name] = true
					}
				}
			}
		}
	}
	isGlobal := func(id *ast.Ident) bool {
		if !pkgVars[id.Name] {
			return false
		}
		if id.Obj == nil {
			return true // declared in another file of the package
		}
		vs, ok := id.Obj.Decl.(*ast.ValueSpec)
		return ok && topSpec[vs]
	}
	// root identifier of an lvalue-ish expression
	var root func(e ast.Expr) *ast.Ident
	root = func(e ast.Expr) *ast.Ident {
		switch x := e.(type) {
		case *ast.Ident:
			return x
		case *ast.IndexExpr:
			return root(x.X)
		case *ast.SelectorExpr:
			return root(x.X)
		case *ast.StarExpr:
			return root(x.X)
		case *ast.ParenExpr:
			return root(x.X)
		case *ast.SliceExpr:
			return root(x.X)
		}
		return nil
	}
	var out []string
	for _, f := range files {
		for _, d := range f.Decls {
			fd, ok := d.(*ast.FuncDecl)
			if !ok || fd.Body == nil || (fd.Name.Name == "init" && fd.Recv == nil) {
				continue
			}
			fn := fd.Name.Name
			if fd.Recv != nil && len(fd.Recv.List) > 0 {
				fn = exprString(fd.Recv.List[0].Type) + "." + fn
			}
			report := func(pos token.Pos, what string, id *ast.Ident) {
				out = append(out, fmt.Sprintf("%s: %s %s in %s", filepath.Base(fset.Position(pos).Filename), what, id.Name, fn))
			}
			ast.Inspect(fd.Body, func(n ast.Node) bool {
				switch x := n.(type) {
				case *ast.AssignStmt:
					if x.Tok == token.DEFINE {
						return true
					}
					for _, l := range x.Lhs {
						if id := root(l); id != nil && isGlobal(id) {
							report(x.Pos(), "assignment through", id)
						}
					}
				case *ast.IncDecStmt:
					if id := root(x.X); id != nil && isGlobal(id) {
						report(x.Pos(), "inc/dec of", id)
					}
				case *ast.UnaryExpr:
					if x.Op == token.AND {
						if id := root(x.X); id != nil && isGlobal(id) {
							report(x.Pos(), "address of", id)
						}
					}
				case *ast.RangeStmt:
					if x.Tok == token.ASSIGN {
						for _, e := range []ast.Expr{x.Key, x.Value} {
							if e == nil {
								continue
							}
							if id := root(e); id != nil && isGlobal(id) {
								report(x.Pos(), "range assignment to", id)
							}
						}
					}
				case *ast.CallExpr:
					if sel, ok := x.Fun.(*ast.SelectorExpr); ok {
						if id := root(sel.X); id != nil && isGlobal(id) {
							lastGlobalMethodCalls[id.Name+"."+sel.Sel.Name] = true
						}
					}
					if fnid, ok := x.Fun.(*ast.Ident); ok && len(x.Args) > 0 {
						switch fnid.Name {
						case "delete", "clear", "copy":
							if id := root(x.Args[0]); id != nil && isGlobal(id) {
								report(x.Pos(), fnid.Name+" on", id)
							}
						}
					}
				}
				return true
			})
		}
	}
	sort.Strings(out)
	return out
}

func exprString(e ast.Expr) string {
	switch x := e.(type) {
	case *ast.Ident:
		return x.Name
	case *ast.StarExpr:
		return exprString(x.X)
	case *ast.IndexExpr:
		return exprString(x.X)
	case *ast.IndexListExpr:
		return exprString(x.X)
	}
	return "?"
}

func parseDirNoTests(dir string) (*token.FileSet, []*ast.File) {
	fset := token.NewFileSet()
	ents, err := os.ReadDir(dir)
	if err != nil {
		fail("read %s: %v", dir, err)
	}
	var files []*ast.File
	for _, e := range ents {
		n := e.Name()
		if e.IsDir() || !strings.HasSuffix(n, ".go") || strings.HasSuffix(n, "_test.go") || strings.HasPrefix(n, "verif_") {
			continue
		}
		f, err := parser.ParseFile(fset, filepath.Join(dir, n), nil, 0)
		if err != nil {
			fail("parse %s: %v", n, err)
		}
		files = append(files, f)
	}
	return fset, files
}

// factsConc: the generated package (all features, a probe document with patterns, multipleOf, sums, security,
// form and stream bodies) and the runtime packages generated code calls are searched for writes to
// package-level variables outside init.
func factsConc(repo string) (string, int) {
	const doc = `{"openapi":"3.1.0","info":{"title":"t","version":"1"},
	"servers":[{"url":"https://{r}.example.com","variables":{"r":{"default":"eu"}}}],
	"paths":{"/a/{id}":{"post":{"operationId":"probe","security":[{"k":[]},{"b":[]}],
	"parameters":[{"name":"id","in":"path","required":true,"schema":{"type":"string","pattern":"^[a-z]+$"}},
	{"name":"f","in":"query","style":"deepObject","schema":{"$ref":"#/components/schemas/Q"}},
	{"name":"h","in":"header","schema":{"type":"number","multipleOf":0.5}},
	{"name":"c","in":"cookie","schema":{"type":"string","pattern":"(?=a)a"}}],
	"requestBody":{"required":true,"content":{"application/json":{"schema":{"$ref":"#/components/schemas/P"}},
	"application/x-www-form-urlencoded":{"schema":{"$ref":"#/components/schemas/Q"}},
	"application/octet-stream":{"schema":{"type":"string","format":"binary"}}}},
	"responses":{"200":{"description":"ok","content":{"application/json":{"schema":{"$ref":"#/components/schemas/S"}}}},
	"404":{"description":"no","content":{"application/json":{"schema":{"$ref":"#/components/schemas/Q"}}}},
	"default":{"description":"e","content":{"application/json":{"schema":{"$ref":"#/components/schemas/Q"}}}}}}}},
	"webhooks":{"h":{"post":{"operationId":"hook","requestBody":{"content":{"application/json":{"schema":{"$ref":"#/components/schemas/Q"}}}},"responses":{"200":{"description":"ok"}}}}},
	"components":{"securitySchemes":{"k":{"type":"apiKey","in":"header","name":"X-K"},"b":{"type":"http","scheme":"bearer"}},
	"schemas":{"P":{"type":"object","required":["s"],"properties":{"s":{"type":"string","minLength":1,"default":"x","pattern":"^x"},"n":{"type":"number","multipleOf":3,"default":3},
	"e":{"type":"string","enum":["a","b"]},"u":{"type":"array","uniqueItems":true,"items":{"type":"string"}}}},
	"Q":{"type":"object","properties":{"a":{"type":"string"}}},
	"S":{"oneOf":[{"$ref":"#/components/schemas/P"},{"type":"object","required":["z"],"properties":{"z":{"type":"integer"}}}]}}}}`
	spec, err := ogen.Parse([]byte(doc))
	if err != nil {
		fail("conc probe document: %v", err)
	}
	fset := gen.FeatureSet{}
	for _, f := range gen.AllFeatures {
		_ = fset.Enable(f.Name)
	}
	g, err := gen.NewGenerator(spec, gen.Options{Generator: gen.GenerateOptions{Features: &gen.FeatureOptions{DisableAll: true, Enable: fset}}})
	if err != nil {
		fail("conc probe document: generator: %v", err)
	}
	fs := &probeFS{files: map[string][]byte{}}
	lfs := &lockedProbeFS{in: fs}
	if err := g.WriteSource(lfs, "api"); err != nil {
		fail("conc probe document: write: %v", err)
	}
	for n := range fs.files {
		if strings.HasSuffix(n, "_test.go") {
			delete(fs.files, n)
		}
	}
	gfset, gfiles := parseGenerated(fs.files)
	lastGlobalMethodCalls = map[string]bool{}
	genW := globalWrites(gfset, gfiles)
	var genCalls []string
	for k := range lastGlobalMethodCalls {
		genCalls = append(genCalls, k)
	}
	sort.Strings(genCalls)
	// which package-level variables does the generated package have at all (so that an empty list is not vacuous)
	var genVars []string
	for _, f := range gfiles {
		for _, d := range f.Decls {
			if gd, ok := d.(*ast.GenDecl); ok && gd.Tok == token.VAR {
				for _, sp := range gd.Specs {
					for _, n := range sp.(*ast.ValueSpec).Names {
						if n.Name != "_" {
							genVars = append(genVars, n.Name)
						}
					}
				}
			}
		}
	}
	sort.Strings(genVars)
	var rtW []string
	rtPkgs := []string{"uri", "conv", "json", "validate", "ogenregex", "ogenerrors", "http", "middleware", "otelogen", "internal/bitset"}
	var rtCalls []string
	for _, rp := range rtPkgs {
		rfset, rfiles := parseDirNoTests(filepath.Join(repo, rp))
		lastGlobalMethodCalls = map[string]bool{}
		for _, w := range globalWrites(rfset, rfiles) {
			rtW = append(rtW, rp+"/"+w)
		}
		for k := range lastGlobalMethodCalls {
			rtCalls = append(rtCalls, rp+"/"+k)
		}
	}
	sort.Strings(rtCalls)
	var sb strings.Builder
	sb.WriteString("/-! GENERATED by harness/cmd/extract (go/ast over the package the linked generator writes for a probe document, all features, and over the runtime packages of the working tree) — do not edit. -/\nnamespace Facts.Conc\n")
	fmt.Fprintf(&sb, "/-- package-level variables of the generated package -/\ndef generatedGlobals : List String := %s\n", leanList(genVars))
	fmt.Fprintf(&sb, "/-- statements of the generated package, outside init, that write through a package-level variable -/\ndef generatedGlobalWrites : List String := %s\n", leanList(genW))
	fmt.Fprintf(&sb, "/-- the same for the runtime packages generated code calls (%s) -/\ndef runtimeGlobalWrites : List String := %s\n", strings.Join(rtPkgs, ", "), leanList(rtW))
	fmt.Fprintf(&sb, "/-- method calls on (elements of) package-level variables outside init: generated package -/\ndef generatedGlobalMethodCalls : List String := %s\n", leanList(genCalls))
	fmt.Fprintf(&sb, "/-- … and runtime packages -/\ndef runtimeGlobalMethodCalls : List String := %s\n", leanList(rtCalls))
	sb.WriteString("end Facts.Conc\n")
	return sb.String(), len(genVars) + len(genW) + len(rtW) + 1
}

type lockedProbeFS struct {
	mu sync.Mutex
	in *probeFS
}

func (m *lockedProbeFS) WriteFile(name string, content []byte) error {
	m.mu.Lock()
	defer m.mu.Unlock()
	return m.in.WriteFile(name, content)
}

func main() {
	repo := flag.String("repo", "/repo", "repository root")
	out := flag.String("out", "", "output directory (lean/Ogen/Generated)")
	flag.Parse()
	if *out == "" || flag.NArg() == 0 {
		fail("usage: extract -repo DIR -out DIR <cli|float|regex|naming|tmpl|errors>…")
	}
	total := 0
	written := []string{}
	for _, name := range flag.Args() {
		var text string
		var n int
		switch name {
		case "cli":
			text, n = factsCLI(*repo)
		case "float":
			text, n = factsFloat(*repo)
		case "regex":
			text, n = factsRegex(*repo)
		case "naming":
			text, n = factsNaming(*repo)
		case "tmpl":
			text, n = factsTmpl(*repo)
		case "errors":
			text, n = factsErrors(*repo)
		case "genorder":
			text, n = factsGenOrder(*repo)
		case "conc":
			text, n = factsConc(*repo)
		default:
			fail("unknown fact set %q", name)
		}
		total += n
		path := filepath.Join(*out, "Facts_"+name+".lean")
		old, _ := os.ReadFile(path)
		if string(old) != text { // write only when changed, so that lake does not rebuild needlessly
			if err := os.WriteFile(path, []byte(text), 0o644); err != nil {
				fail("%v", err)
			}
			written = append(written, name)
		}
	}
	b, _ := json.Marshal(map[string]any{"count": total, "sets": flag.Args(), "rewritten": written})
	fmt.Println(string(b))
}
