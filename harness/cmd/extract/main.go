// extract is the fact translator (T-facts): it reads /repo's *source files* with go/ast and writes
// lean/Ogen/Generated/Facts_<name>.lean — literal tables and statement orders that theorems are stated
// over, so that an edit to such a table or order breaks a proof obligation directly. It fails loudly
// when a construct it looks for is no longer there.
package main

import (
	"encoding/json"
	goerrors "errors"
	"flag"
	"fmt"
	"go/ast"
	"go/parser"
	"go/token"
	"os"
	"path/filepath"
	"sort"
	"strconv"
	"strings"

	ht "github.com/ogen-go/ogen/http"
	"github.com/ogen-go/ogen/ogenerrors"
	"github.com/ogen-go/ogen/validate"
)

func fail(format string, a ...any) {
	fmt.Fprintf(os.Stderr, "extract: "+format+"\n", a...)
	os.Exit(1)
}

func parseFile(path string) (*token.FileSet, *ast.File) {
	fset := token.NewFileSet()
	f, err := parser.ParseFile(fset, path, nil, 0)
	if err != nil {
		fail("parse %s: %v", path, err)
	}
	return fset, f
}

func findFunc(f *ast.File, name string) *ast.FuncDecl {
	for _, d := range f.Decls {
		if fd, ok := d.(*ast.FuncDecl); ok && fd.Name.Name == name && fd.Recv == nil {
			return fd
		}
	}
	return nil
}

func callName(c *ast.CallExpr) string {
	switch fn := c.Fun.(type) {
	case *ast.Ident:
		return fn.Name
	case *ast.SelectorExpr:
		if x, ok := fn.X.(*ast.Ident); ok {
			return x.Name + "." + fn.Sel.Name
		}
		return "." + fn.Sel.Name
	}
	return ""
}

func leanStr(s string) string { return strconv.Quote(s) }

// walkCalls visits the call expressions of fn in source order; a call of a function declared in the same file
// (plain identifier) is followed at the call site, once per function on the current path
func walkCalls(f *ast.File, fn *ast.FuncDecl, onPath map[string]bool, visit func(c *ast.CallExpr)) {
	if fn == nil || fn.Body == nil {
		return
	}
	ast.Inspect(fn.Body, func(n ast.Node) bool {
		c, ok := n.(*ast.CallExpr)
		if !ok {
			return true
		}
		visit(c)
		if id, ok := c.Fun.(*ast.Ident); ok && !onPath[id.Name] {
			if callee := findFunc(f, id.Name); callee != nil {
				onPath[id.Name] = true
				walkCalls(f, callee, onPath, visit)
				delete(onPath, id.Name)
			}
		}
		return true
	})
}

// stringBindings: identifier ↦ the string literals it ranges over or is declared as (range over a composite
// literal of strings, package-level var/const of a string or a list of strings)
func stringBindings(f *ast.File) map[string][]string {
	out := map[string][]string{}
	lits := func(e ast.Expr) []string {
		switch x := e.(type) {
		case *ast.BasicLit:
			if x.Kind == token.STRING {
				s, _ := strconv.Unquote(x.Value)
				return []string{s}
			}
		case *ast.CompositeLit:
			var r []string
			for _, el := range x.Elts {
				if bl, ok := el.(*ast.BasicLit); ok && bl.Kind == token.STRING {
					s, _ := strconv.Unquote(bl.Value)
					r = append(r, s)
				}
			}
			return r
		}
		return nil
	}
	named := map[string][]string{}
	ast.Inspect(f, func(n ast.Node) bool {
		switch x := n.(type) {
		case *ast.ValueSpec:
			for i, nm := range x.Names {
				if i < len(x.Values) {
					if l := lits(x.Values[i]); l != nil {
						named[nm.Name] = l
						out[nm.Name] = l
					}
				}
			}
		case *ast.AssignStmt:
			if len(x.Lhs) == 1 && len(x.Rhs) == 1 {
				if id, ok := x.Lhs[0].(*ast.Ident); ok {
					if l := lits(x.Rhs[0]); l != nil {
						named[id.Name] = l
						out[id.Name] = l
					}
				}
			}
		}
		return true
	})
	ast.Inspect(f, func(n ast.Node) bool {
		rs, ok := n.(*ast.RangeStmt)
		if !ok || rs.Value == nil {
			return true
		}
		v, ok := rs.Value.(*ast.Ident)
		if !ok {
			return true
		}
		if l := lits(rs.X); l != nil {
			out[v.Name] = l
		} else if id, ok := rs.X.(*ast.Ident); ok && named[id.Name] != nil {
			out[v.Name] = named[id.Name]
		}
		return true
	})
	return out
}

func leanList(xs []string) string {
	q := make([]string, len(xs))
	for i, x := range xs {
		q[i] = leanStr(x)
	}
	return "[" + strings.Join(q, ", ") + "]"
}

// cli: the order of the calls in cmd/ogen/main.go generate() and cleanDir's name filter
func factsCLI(repo string) (string, int) {
	_, f := parseFile(filepath.Join(repo, "cmd/ogen/main.go"))
	gen := findFunc(f, "generate")
	if gen == nil {
		fail("cmd/ogen/main.go: func generate not found")
	}
	interesting := map[string]string{"ogen.Parse": "Parse", "gen.NewGenerator": "NewGenerator", "os.ReadDir": "ReadDir", "cleanDir": "cleanDir", "os.MkdirAll": "MkdirAll", ".WriteSource": "WriteSource", "g.WriteSource": "WriteSource", "os.Remove": "Remove", "os.RemoveAll": "RemoveAll", "os.WriteFile": "WriteFile", "os.Create": "Create"}
	// calls in execution-text order, helpers of the same file inlined at their call site
	var order []string
	walkCalls(f, gen, map[string]bool{"generate": true}, func(c *ast.CallExpr) {
		if nm, ok := interesting[callName(c)]; ok {
			order = append(order, nm)
		}
	})
	for _, need := range []string{"Parse", "NewGenerator", "ReadDir", "cleanDir", "WriteSource"} {
		found := false
		for _, o := range order {
			if o == need {
				found = true
			}
		}
		if !found {
			fail("cmd/ogen/main.go generate(): call %s not found (order seen: %v)", need, order)
		}
	}
	cd := findFunc(f, "cleanDir")
	if cd == nil {
		fail("cmd/ogen/main.go: func cleanDir not found")
	}
	var suffixes, prefixes []string
	skipsDirs := false
	var removers []string
	// string literals an identifier may stand for: `for _, x := range [...]string{…}` / a package-level list
	bound := stringBindings(f)
	walkCalls(f, cd, map[string]bool{"cleanDir": true}, func(c *ast.CallExpr) {
		switch callName(c) {
		case "strings.HasSuffix", "strings.HasPrefix":
			if len(c.Args) == 2 {
				var vals []string
				switch a := c.Args[1].(type) {
				case *ast.BasicLit:
					if a.Kind == token.STRING {
						s, _ := strconv.Unquote(a.Value)
						vals = []string{s}
					}
				case *ast.Ident:
					vals = bound[a.Name]
				}
				if callName(c) == "strings.HasSuffix" {
					suffixes = append(suffixes, vals...)
				} else {
					prefixes = append(prefixes, vals...)
				}
			}
		case "f.IsDir":
			skipsDirs = true
		case "os.Remove", "os.RemoveAll":
			removers = append(removers, callName(c))
		}
	})
	sort.Strings(suffixes)
	sort.Strings(prefixes)
	if len(suffixes) == 0 || len(prefixes) == 0 {
		fail("cmd/ogen/main.go cleanDir(): no HasSuffix/HasPrefix literals found")
	}
	var sb strings.Builder
	sb.WriteString("/-! GENERATED by harness/cmd/extract from cmd/ogen/main.go — do not edit. -/\nnamespace Facts.CLI\n")
	fmt.Fprintf(&sb, "/-- calls of `generate()` in source order -/\ndef callOrder : List String := %s\n", leanList(order))
	fmt.Fprintf(&sb, "/-- `cleanDir`: a file is removed iff it is not a directory, has one of these suffixes … -/\ndef ownSuffixes : List String := %s\n", leanList(suffixes))
	fmt.Fprintf(&sb, "/-- … and one of these prefixes -/\ndef ownPrefixes : List String := %s\n", leanList(prefixes))
	fmt.Fprintf(&sb, "def skipsDirectories : Bool := %v\n", skipsDirs)
	fmt.Fprintf(&sb, "def removeCalls : List String := %s\n", leanList(removers))
	sb.WriteString("end Facts.CLI\n")
	return sb.String(), len(order) + len(suffixes) + len(prefixes) + 2
}

// conv: the strconv.FormatFloat / AppendFloat arguments of the float text helpers
func factsFloat(repo string) (string, int) {
	type spec struct{ fn, verb, prec, bits, want string }
	var specs []spec
	scan := func(path string, pkgFn string) {
		_, f := parseFile(filepath.Join(repo, path))
		for _, d := range f.Decls {
			fd, ok := d.(*ast.FuncDecl)
			if !ok || fd.Body == nil {
				continue
			}
			ast.Inspect(fd.Body, func(n ast.Node) bool {
				c, ok := n.(*ast.CallExpr)
				if !ok {
					return true
				}
				nm := callName(c)
				if nm != "strconv.FormatFloat" && nm != "strconv.AppendFloat" {
					return true
				}
				args := c.Args
				if nm == "strconv.AppendFloat" {
					args = args[1:]
				}
				if len(args) != 4 {
					return true
				}
				txt := func(e ast.Expr) string {
					switch x := e.(type) {
					case *ast.BasicLit:
						return x.Value
					case *ast.UnaryExpr:
						if l, ok := x.X.(*ast.BasicLit); ok {
							return x.Op.String() + l.Value
						}
					case *ast.Ident:
						return x.Name
					}
					return "?"
				}
				// the bit size the value's own type calls for: the type of the first float parameter
				want := "?"
				for _, fl := range fd.Type.Params.List {
					if id, ok := fl.Type.(*ast.Ident); ok {
						switch id.Name {
						case "float32":
							want = "32"
						case "float64":
							want = "64"
						}
					}
					if want != "?" {
						break
					}
				}
				if want == "?" {
					// generic helper: the bit size is a parameter that the callers pass
					want = txt(args[3])
					for _, fl := range fd.Type.Params.List {
						for _, n := range fl.Names {
							if n.Name == want {
								want = "param:" + n.Name
							}
						}
					}
				}
				specs = append(specs, spec{fd.Name.Name, txt(args[1]), txt(args[2]), txt(args[3]), want})
				return true
			})
		}
	}
	scan("conv/encode.go", "conv")
	scan("json/float.go", "json")
	if len(specs) < 4 {
		fail("conv/encode.go, json/float.go: fewer than 4 FormatFloat/AppendFloat calls found (%d)", len(specs))
	}
	var sb strings.Builder
	sb.WriteString("/-! GENERATED by harness/cmd/extract from conv/encode.go and json/float.go — do not edit. -/\nnamespace Facts.Float\n")
	sb.WriteString("/-- (function, verb, precision, bit size, bit size of the value's own type or param:<name>) of every strconv.FormatFloat / AppendFloat call -/\ndef formatCalls : List (String × String × String × String × String) := [\n")
	for i, s := range specs {
		sep := ","
		if i == len(specs)-1 {
			sep = ""
		}
		fmt.Fprintf(&sb, "  (%s, %s, %s, %s, %s)%s\n", leanStr(s.fn), leanStr(s.verb), leanStr(s.prec), leanStr(s.bits), leanStr(s.want), sep)
	}
	sb.WriteString("]\nend Facts.Float\n")
	return sb.String(), len(specs)
}

// regex: the replacement strings and tables of ogenregex/convert.go
func factsRegex(repo string) (string, int) {
	_, f := parseFile(filepath.Join(repo, "ogenregex/convert.go"))
	consts := map[string]string{}
	for _, d := range f.Decls {
		gd, ok := d.(*ast.GenDecl)
		if !ok {
			continue
		}
		for _, sp := range gd.Specs {
			vs, ok := sp.(*ast.ValueSpec)
			if !ok {
				continue
			}
			for i, n := range vs.Names {
				if i < len(vs.Values) {
					if s, ok := constString(vs.Values[i]); ok {
						consts[n.Name] = s
					}
				}
			}
		}
	}
	// string literals written by scanBracket for "[]" and "[^]"
	var bracket []string
	if sb := findMethod(f, "scanBracket"); sb != nil {
		ast.Inspect(sb.Body, func(n ast.Node) bool {
			c, ok := n.(*ast.CallExpr)
			if !ok {
				return true
			}
			if callName(c) == "p.writeString" && len(c.Args) == 1 {
				if lit, ok := c.Args[0].(*ast.BasicLit); ok && lit.Kind == token.STRING {
					s, _ := strconv.Unquote(lit.Value)
					bracket = append(bracket, s)
				}
			}
			return true
		})
	}
	if len(bracket) < 2 {
		fail("ogenregex/convert.go scanBracket(): the two replacement literals for [] and [^] were not found")
	}
	for _, need := range []string{"whitespaceChars", "re2Dot"} {
		if _, ok := consts[need]; !ok {
			fail("ogenregex/convert.go: constant %s not found", need)
		}
	}
	var sbd strings.Builder
	sbd.WriteString("/-! GENERATED by harness/cmd/extract from ogenregex/convert.go — do not edit. -/\nnamespace Facts.Regex\n")
	keys := make([]string, 0, len(consts))
	for k := range consts {
		keys = append(keys, k)
	}
	sort.Strings(keys)
	sbd.WriteString("/-- string constants, as code point lists -/\ndef consts : List (String × List Nat) := [\n")
	for i, k := range keys {
		sep := ","
		if i == len(keys)-1 {
			sep = ""
		}
		fmt.Fprintf(&sbd, "  (%s, %s)%s\n", leanStr(k), runeList(consts[k]), sep)
	}
	sbd.WriteString("]\n")
	fmt.Fprintf(&sbd, "/-- what `scanBracket` writes for `[]` (first) and `[^]` (second), as code point lists -/\ndef emptyClass : List Nat := %s\ndef anyClass : List Nat := %s\n", runeList(bracket[0]), runeList(bracket[1]))
	sbd.WriteString("end Facts.Regex\n")
	return sbd.String(), len(consts) + 2
}

// constString evaluates a string literal or a concatenation of string literals
func constString(e ast.Expr) (string, bool) {
	switch x := e.(type) {
	case *ast.BasicLit:
		if x.Kind != token.STRING {
			return "", false
		}
		s, err := strconv.Unquote(x.Value)
		return s, err == nil
	case *ast.BinaryExpr:
		if x.Op != token.ADD {
			return "", false
		}
		a, ok1 := constString(x.X)
		b, ok2 := constString(x.Y)
		return a + b, ok1 && ok2
	case *ast.ParenExpr:
		return constString(x.X)
	}
	return "", false
}

// naming: the table of internal/naming/rules.go
func factsNaming(repo string) (string, int) {
	_, f := parseFile(filepath.Join(repo, "internal/naming/rules.go"))
	var rules []string
	for _, d := range f.Decls {
		gd, ok := d.(*ast.GenDecl)
		if !ok {
			continue
		}
		for _, sp := range gd.Specs {
			vs, ok := sp.(*ast.ValueSpec)
			if !ok {
				continue
			}
			for i, n := range vs.Names {
				if n.Name != "rules" || i >= len(vs.Values) {
					continue
				}
				cl, ok := vs.Values[i].(*ast.CompositeLit)
				if !ok {
					continue
				}
				for _, e := range cl.Elts {
					if s, ok := constString(e); ok {
						rules = append(rules, s)
					}
				}
			}
		}
	}
	if len(rules) == 0 {
		fail("internal/naming/rules.go: var rules = [...]string{…} not found")
	}
	var sb strings.Builder
	sb.WriteString("/-! GENERATED by harness/cmd/extract from internal/naming/rules.go — do not edit. -/\nnamespace Facts.Naming\n")
	sb.WriteString("/-- canonical spellings, as code point lists -/\ndef rules : List (List Nat) := [\n")
	for i, r := range rules {
		sep := ","
		if i == len(rules)-1 {
			sep = ""
		}
		fmt.Fprintf(&sb, "  %s%s\n", runeList(r), sep)
	}
	sb.WriteString("]\nend Facts.Naming\n")
	return sb.String(), len(rules)
}

func findMethod(f *ast.File, name string) *ast.FuncDecl {
	for _, d := range f.Decls {
		if fd, ok := d.(*ast.FuncDecl); ok && fd.Name.Name == name && fd.Recv != nil {
			return fd
		}
	}
	return nil
}

func runeList(s string) string {
	var xs []string
	for _, r := range s {
		xs = append(xs, strconv.Itoa(int(r)))
	}
	return "[" + strings.Join(xs, ", ") + "]"
}

// tmpl: facts read off the *text* of the handler and request-decoder templates (go/ast cannot parse a
// text/template): the order in which the stages of a request handler appear, the bit-set statements of the
// security check, the optional-body shortcut. Blanks are normalised to single spaces.
func factsTmpl(repo string) (string, int) {
	read := func(rel string) []string {
		b, err := os.ReadFile(filepath.Join(repo, rel))
		if err != nil {
			fail("%v", err)
		}
		lines := strings.Split(string(b), "\n")
		for i, l := range lines {
			lines[i] = strings.Join(strings.Fields(l), " ")
		}
		return lines
	}
	h := read("gen/_template/handlers.tmpl")
	first := func(lines []string, needle string) int {
		for i, l := range lines {
			if strings.Contains(l, needle) {
				return i
			}
		}
		return -1
	}
	type marker struct{ stage, needle string }
	markers := []marker{
		{"security", "var satisfied bitset"},
		{"params", "decode{{ $op.Name }}Params("},
		{"body", "s.decode{{ $op.Name }}Request("},
		{"handler", "s.h.{{ $op.Name }}(ctx"},
		{"encode", "encode{{ $op.Name }}Response(response"},
	}
	type pos struct {
		stage string
		line  int
	}
	var ps []pos
	for _, m := range markers {
		i := first(h, m.needle)
		if i < 0 {
			fail("gen/_template/handlers.tmpl: stage marker %q not found", m.needle)
		}
		ps = append(ps, pos{m.stage, i})
	}
	sort.SliceStable(ps, func(i, j int) bool { return ps[i].line < ps[j].line })
	var order []string
	for _, p := range ps {
		order = append(order, p.stage)
	}
	// after each failing stage the handler returns before the next stage starts: the number of `return`
	// lines between consecutive stage markers
	var returns []string
	for k := 0; k+1 < len(ps); k++ {
		n := 0
		for i := ps[k].line; i < ps[k+1].line; i++ {
			if h[i] == "return" {
				n++
			}
		}
		returns = append(returns, fmt.Sprintf("(%s, %d)", leanStr(ps[k].stage), n))
	}
	line := func(lines []string, file, needle string) string {
		i := first(lines, needle)
		if i < 0 {
			fail("%s: %q not found", file, needle)
		}
		return lines[i]
	}
	test := line(h, "handlers.tmpl", "satisfied[i] &")
	setBit := line(h, "handlers.tmpl", "satisfied[{{")
	rd := read("gen/_template/request_decode.tmpl")
	shortcut := line(rd, "request_decode.tmpl", `r.Header["Content-Type"]; !ok`)
	// the generic (Opt/Nil/OptNil) Decode: which wrapper fields are assigned on the null path and which are
	// reset before a value is decoded
	g := read("gen/_template/json/encoders_generic.tmpl")
	dstart := first(g, "func (o *{{ $.Name }}) Decode(")
	if dstart < 0 {
		fail("encoders_generic.tmpl: Decode not found")
	}
	var nullPath, valueResets []string
	phase := 0 // 0 before the null block, 1 inside it, 2 after it (until the first value branch)
	for i := dstart; i < len(g); i++ {
		l := g[i]
		switch {
		case phase == 0 && strings.Contains(l, "d.Next() == jx.Null"):
			phase = 1
		case phase == 1 && l == "return nil":
			phase = 2
		case phase == 2 && strings.HasPrefix(l, "{{- if $g.Format }}"):
			phase = 3
		}
		if strings.HasPrefix(l, "o.") && strings.Contains(l, " = ") {
			if phase == 1 {
				nullPath = append(nullPath, l)
			} else if phase == 2 {
				valueResets = append(valueResets, l)
			}
		}
		if phase == 3 {
			break
		}
	}
	if phase != 3 {
		fail("encoders_generic.tmpl: the shape of Decode changed (null block / value branches not found)")
	}
	var sb strings.Builder
	sb.WriteString("/-! GENERATED by harness/cmd/extract from gen/_template/handlers.tmpl, request_decode.tmpl and json/encoders_generic.tmpl — do not edit. -/\nnamespace Facts.Tmpl\n")
	fmt.Fprintf(&sb, "/-- generic Decode: assignments to the wrapper on the null path, in order -/\ndef genericDecodeNullPath : List String := %s\n", leanList(nullPath))
	fmt.Fprintf(&sb, "/-- generic Decode: assignments to the wrapper before a (non-null) value is decoded -/\ndef genericDecodeValueResets : List String := %s\n", leanList(valueResets))
	fmt.Fprintf(&sb, "/-- the stages of a request handler in the order in which they appear in the template -/\ndef stageOrder : List String := %s\n", leanList(order))
	fmt.Fprintf(&sb, "/-- `return` statements between a stage's marker and the next stage's -/\ndef returnsAfter : List (String × Nat) := [%s]\n", strings.Join(returns, ", "))
	fmt.Fprintf(&sb, "/-- the requirement test of the security check -/\ndef securityTest : String := %s\n", leanStr(test))
	fmt.Fprintf(&sb, "/-- the statement that records an authenticated scheme -/\ndef securitySetBit : String := %s\n", leanStr(setBit))
	fmt.Fprintf(&sb, "/-- the no-body shortcut of an optional request body -/\ndef optionalBodyShortcut : String := %s\n", leanStr(shortcut))
	sb.WriteString("end Facts.Tmpl\n")
	return sb.String(), len(order) + len(returns) + 3
}

// errors: the HTTP status each ogenerrors error type reports (Code methods) and the special cases of
// ogenerrors.ErrorCode, as net/http constant names
// errors: observed, not read — the extractor is linked against /repo's ogenerrors, so the statuses are what the
// code of the working tree answers (a rewrite of ErrorCode that keeps its answers keeps these facts)
func factsErrors(repo string) (string, int) {
	type kv struct {
		typ  string
		code int
	}
	codes := []kv{
		{"DecodeParamsError", (&ogenerrors.DecodeParamsError{}).Code()},
		{"DecodeRequestError", (&ogenerrors.DecodeRequestError{}).Code()},
		{"SecurityError", (&ogenerrors.SecurityError{}).Code()},
	}
	defaultCode := ogenerrors.ErrorCode(goerrors.New("some handler error"))
	notImpl := ogenerrors.ErrorCode(ht.ErrNotImplemented)
	ctype := ogenerrors.ErrorCode(&validate.InvalidContentTypeError{ContentType: "x/y"})
	// the same answers through a wrapping error
	if ogenerrors.ErrorCode(fmt.Errorf("wrapped: %w", ht.ErrNotImplemented)) != notImpl || ogenerrors.ErrorCode(fmt.Errorf("wrapped: %w", &validate.InvalidContentTypeError{ContentType: "x/y"})) != ctype {
		fail("ogenerrors.ErrorCode answers differently for a wrapped error")
	}
	sort.Slice(codes, func(i, j int) bool { return codes[i].typ < codes[j].typ })
	var sb strings.Builder
	sb.WriteString("/-! GENERATED by harness/cmd/extract from ogenerrors (observed on the linked package) — do not edit. -/\nnamespace Facts.Errors\n")
	sb.WriteString("/-- (error type, status its Code() method returns) -/\ndef codes : List (String × Nat) := [")
	for i, c := range codes {
		if i > 0 {
			sb.WriteString(", ")
		}
		fmt.Fprintf(&sb, "(%s, %d)", leanStr(c.typ), c.code)
	}
	sb.WriteString("]\n")
	fmt.Fprintf(&sb, "/-- ErrorCode: the default, the status for ht.ErrNotImplemented, the status for an invalid content type -/\ndef defaultCode : Nat := %d\ndef notImplementedCode : Nat := %d\ndef contentTypeCode : Nat := %d\n", defaultCode, notImpl, ctype)
	sb.WriteString("end Facts.Errors\n")
	return sb.String(), len(codes) + 3
}

func main() {
	repo := flag.String("repo", "/repo", "repository root")
	out := flag.String("out", "", "output directory (lean/Ogen/Generated)")
	flag.Parse()
	if *out == "" || flag.NArg() == 0 {
		fail("usage: extract -repo DIR -out DIR <cli|float|regex|naming|tmpl|errors>…")
	}
	total := 0
	written := []string{}
	for _, name := range flag.Args() {
		var text string
		var n int
		switch name {
		case "cli":
			text, n = factsCLI(*repo)
		case "float":
			text, n = factsFloat(*repo)
		case "regex":
			text, n = factsRegex(*repo)
		case "naming":
			text, n = factsNaming(*repo)
		case "tmpl":
			text, n = factsTmpl(*repo)
		case "errors":
			text, n = factsErrors(*repo)
		default:
			fail("unknown fact set %q", name)
		}
		total += n
		path := filepath.Join(*out, "Facts_"+name+".lean")
		old, _ := os.ReadFile(path)
		if string(old) != text { // write only when changed, so that lake does not rebuild needlessly
			if err := os.WriteFile(path, []byte(text), 0o644); err != nil {
				fail("%v", err)
			}
			written = append(written, name)
		}
	}
	b, _ := json.Marshal(map[string]any{"count": total, "sets": flag.Args(), "rewritten": written})
	fmt.Println(string(b))
}
