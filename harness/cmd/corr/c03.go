package main

import (
	"regexp"
	"encoding/json"
	"fmt"
	"math"
	"math/big"
	"os"
	"path/filepath"
	"strings"

	"github.com/ogen-go/ogen/gen"
	"github.com/ogen-go/ogen/validate"

	"verifharness/internal/gc"
	"verifharness/internal/lp"
)

func init() { suites["c03"] = c03 }

func bs(b bool) string {
	if b {
		return "1"
	}
	return "0"
}

// the real validate.* against the Lean models, on boundary grids
func c03Validators(r *lp.Run, rng *lp.Rand) {
	ints := []int64{0, 1, -1, 2, -2, 3, -3, 5, 7, 10, -10, 100, math.MaxInt64, math.MinInt64, math.MaxInt64 - 1, math.MinInt64 + 1, math.MaxInt32, math.MinInt32, 1 << 62, -(1 << 62)}
	muls := []uint64{0, 1, 2, 3, 5, 10, 1 << 63, 1<<63 + 1, math.MaxUint64, 1 << 32}
	n := r.N(20000, 400000)
	for i := 0; i < n; i++ {
		pickI := func() int64 {
			if rng.Chance(70) {
				return lp.Pick(rng, ints)
			}
			return int64(rng.Uint64()) >> uint(rng.Intn(64))
		}
		t := validate.Int{MinSet: rng.Bool(), Min: pickI(), MinExclusive: rng.Bool(), MaxSet: rng.Bool(), Max: pickI(), MaxExclusive: rng.Bool(), MultipleOfSet: rng.Chance(60), MultipleOf: lp.Pick(rng, muls)}
		if rng.Chance(30) {
			t.MultipleOf = rng.Uint64() >> uint(rng.Intn(64))
		}
		v := pickI()
		if rng.Chance(30) && t.MinSet { // around the bound
			v = t.Min + int64(rng.Intn(3)-1)
		}
		out := lp.Guard(func() string {
			if err := t.Validate(v); err != nil {
				return "err"
			}
			return "ok"
		})
		r.Case("vint", fmt.Sprintf("%s %d %s %s %d %s %s %d %d", bs(t.MinSet), t.Min, bs(t.MinExclusive), bs(t.MaxSet), t.Max, bs(t.MaxExclusive), bs(t.MultipleOfSet), t.MultipleOf, v), out, "vint:"+out, t.MinSet || t.MaxSet || t.MultipleOfSet)
	}
	// validate.Float against the exact-rational model: bit patterns, bounds as bit patterns, multipleOf as a ratio
	floats := []float64{0, math.Copysign(0, -1), 1, -1, 0.5, -0.25, 1.5, 2, 3, 0.1, 0.2, 0.30000000000000004, 1e-11, 1e21, 123456.789, math.MaxFloat64, -math.MaxFloat64, math.SmallestNonzeroFloat64, 9007199254740993, 9007199254740992, -2.5, 0.75, 7, 10, 100, math.Inf(1), math.Inf(-1), math.NaN()}
	rats := [][2]int64{{1, 1}, {1, 2}, {1, 4}, {3, 1}, {1, 10}, {1, 3}, {5, 2}, {-1, 4}, {1, 1000000}, {7, 1}, {1, 8}, {25, 100}}
	for i := 0; i < n/2; i++ {
		pickF := func() float64 {
			switch x := rng.Intn(10); {
			case x < 6:
				return lp.Pick(rng, floats[:len(floats)-3])
			case x < 8:
				return float64(rng.Intn(41)-20) * 0.25
			default:
				return math.Float64frombits(rng.Uint64())
			}
		}
		mn, mx := pickF(), pickF()
		for math.IsNaN(mn) || math.IsInf(mn, 0) {
			mn = pickF()
		}
		for math.IsNaN(mx) || math.IsInf(mx, 0) {
			mx = pickF()
		}
		rt := lp.Pick(rng, rats)
		t := validate.Float{MinSet: rng.Bool(), Min: mn, MinExclusive: rng.Bool(), MaxSet: rng.Bool(), Max: mx, MaxExclusive: rng.Bool(), MultipleOfSet: rng.Chance(50), MultipleOf: big.NewRat(rt[0], rt[1])}
		v := pickF()
		if rng.Chance(10) {
			v = lp.Pick(rng, floats)
		}
		if rng.Chance(25) && t.MinSet {
			v = lp.Pick(rng, []float64{t.Min, math.Nextafter(t.Min, math.Inf(1)), math.Nextafter(t.Min, math.Inf(-1))})
		}
		if rng.Chance(15) && t.MaxSet {
			v = lp.Pick(rng, []float64{t.Max, math.Nextafter(t.Max, math.Inf(1)), math.Nextafter(t.Max, math.Inf(-1))})
		}
		out := lp.Guard(func() string {
			if err := t.Validate(v); err != nil {
				return "err"
			}
			return "ok"
		})
		r.Case("vfloat", fmt.Sprintf("%016x %s %016x %s %s %016x %s %s %d %d", math.Float64bits(v), bs(t.MinSet), math.Float64bits(t.Min), bs(t.MinExclusive), bs(t.MaxSet), math.Float64bits(t.Max), bs(t.MaxExclusive), bs(t.MultipleOfSet), rt[0], rt[1]), out, "vfloat:"+out, t.MinSet || t.MaxSet || t.MultipleOfSet)
	}
	for i := 0; i < n/4; i++ {
		a := validate.Array{MinLengthSet: rng.Bool(), MinLength: rng.Intn(6), MaxLengthSet: rng.Bool(), MaxLength: rng.Intn(6)}
		l := rng.Intn(8)
		out := "ok"
		if a.ValidateLength(l) != nil {
			out = "err"
		}
		r.Case("vlen", fmt.Sprintf("%s %d %s %d %d", bs(a.MinLengthSet), a.MinLength, bs(a.MaxLengthSet), a.MaxLength, l), out, "vlen:"+out, true)
		st := validate.String{MinLengthSet: a.MinLengthSet, MinLength: a.MinLength, MaxLengthSet: a.MaxLengthSet, MaxLength: a.MaxLength}
		str := strings.Repeat(lp.Pick(rng, []string{"a", "é", "😀", "日"}), l)
		out = "ok"
		if st.Validate(str) != nil {
			out = "err"
		}
		r.Case("vlen", fmt.Sprintf("%s %d %s %d %d", bs(a.MinLengthSet), a.MinLength, bs(a.MaxLengthSet), a.MaxLength, l), out, "vstrlen:"+out, true)
		o := validate.Object{MinPropertiesSet: a.MinLengthSet, MinProperties: a.MinLength, MaxPropertiesSet: a.MaxLengthSet, MaxProperties: a.MaxLength}
		out = "ok"
		if o.ValidateProperties(l) != nil {
			out = "err"
		}
		r.Case("vprops", fmt.Sprintf("%s %d %s %d %d", bs(a.MinLengthSet), a.MinLength, bs(a.MaxLengthSet), a.MaxLength, l), out, "vprops:"+out, true)
		k := rng.Intn(6)
		xs := make([]int64, k)
		parts := make([]string, k)
		for j := range xs {
			xs[j] = int64(rng.Intn(5))
			parts[j] = fmt.Sprint(xs[j])
		}
		out = "ok"
		if validate.UniqueItems(xs) != nil {
			out = "err"
		}
		line := strings.Join(parts, " ")
		if k == 0 {
			line = "-"
		}
		r.Case("vuniq", line, out, "vuniq:"+out, k > 1)
	}
}

type bodyOp struct {
	name   string
	schema *Schema
}

type bodySpec struct {
	g   *SchemaGen
	ops []bodyOp
	pkg *gc.Pkg
}

func (b *bodySpec) doc() string {
	paths := map[string]any{}
	for _, op := range b.ops {
		paths["/"+op.name] = map[string]any{"post": map[string]any{
			"operationId": op.name,
			"requestBody": map[string]any{"required": true, "content": map[string]any{"application/json": map[string]any{"schema": op.schema.JSON()}}},
			"responses":   map[string]any{"200": map[string]any{"description": "ok"}},
		}}
	}
	comps := map[string]any{}
	for name, s := range b.g.Env() {
		comps[name] = s.JSON()
	}
	doc := map[string]any{"openapi": "3.0.3", "info": map[string]any{"title": "t", "version": "1"}, "paths": paths, "components": map[string]any{"schemas": comps}}
	out, _ := json.Marshal(doc)
	return string(out)
}

// fixed keyword matrix (always part of the run; the generator must not refuse any of it)
func matrixSpec(rng *lp.Rand) *bodySpec {
	g := NewSchemaGen(rng)
	obj := func(props ...Prop) *Schema { return g.Component(&Schema{Type: "object", Props: props}) }
	b := &bodySpec{g: g}
	add := func(s *Schema) { b.ops = append(b.ops, bodyOp{fmt.Sprintf("m%d", len(b.ops)), s}) }
	add(obj(Prop{"n", &Schema{Type: "integer"}, true}, Prop{"arr", &Schema{Type: "array", Items: &Schema{Type: "string"}, MinItems: ip(1)}, false}))                             // D11
	add(obj(Prop{"i", &Schema{Type: "integer", MinI: i64p(0), MaxI: i64p(10), ExclMax: true}, true}, Prop{"m", &Schema{Type: "integer", MultI: i64p(3)}, false}))                // bounds
	add(obj(Prop{"f", &Schema{Type: "number", MinF: f64p(-1.5), ExclMin: true, MaxF: f64p(2)}, true}, Prop{"g", &Schema{Type: "number", MultF: f64p(0.25)}, false}))             // floats
	add(obj(Prop{"s", &Schema{Type: "string", MinLen: ip(1), MaxLen: ip(3)}, true}, Prop{"p", &Schema{Type: "string", Pattern: patterns[0]}, false}))                            // strings
	add(obj(Prop{"e", &Schema{Type: "string", Enum: []any{"red", "green"}}, true}, Prop{"ne", &Schema{Type: "string", Enum: []any{"a", "b"}, Nullable: true}, false}))           // enums
	add(g.Component(&Schema{Type: "object", Props: []Prop{{"a", &Schema{Type: "string"}, true}}, AddMode: "false"}))                                                             // closed object
	add(g.Component(&Schema{Type: "object", Props: []Prop{{"a", &Schema{Type: "string"}, false}}, AddMode: "schema", AddProps: &Schema{Type: "integer", MinI: i64p(0)}}))        // typed additional
	add(g.Component(&Schema{Type: "object", AddMode: "schema", AddProps: &Schema{Type: "integer"}, MinProps: ip(1), MaxProps: ip(2)}))                                           // map with counts
	add(&Schema{Type: "array", Items: &Schema{Type: "integer"}, Unique: true, MinItems: ip(1), MaxItems: ip(3)})                                                                 // unique ints
	add(&Schema{Type: "array", Items: &Schema{Type: "string"}, Unique: true})                                                                                                    // unique strings
	add(obj(Prop{"on", &Schema{Type: "string", Nullable: true}, false}, Prop{"rn", &Schema{Type: "integer", Nullable: true}, true}, Prop{"o", &Schema{Type: "boolean"}, false})) // three states
	{                                                                                                                                                                            // recursion
		g.env["Tree"] = &Schema{Type: "object", Props: []Prop{{"v", &Schema{Type: "integer", MinI: i64p(0)}, true}, {"kids", &Schema{Type: "array", Items: &Schema{Ref: "Tree"}, MaxItems: ip(2)}, false}}}
		add(&Schema{Ref: "Tree"})
		// the recursive members are declared before the constrained one; violations sit in nested levels
		g.env["Cat"] = &Schema{Type: "object", Props: []Prop{
			{"children", &Schema{Type: "array", Items: &Schema{Ref: "Cat"}}, false},
			{"next", &Schema{Ref: "Cat"}, false},
			{"byName", &Schema{Type: "object", AddMode: "schema", AddProps: &Schema{Ref: "Cat"}}, false},
			{"name", &Schema{Type: "string", MinLen: ip(1), MaxLen: ip(4)}, true}}}
		add(&Schema{Ref: "Cat"})
	}
	// keywords that occur nowhere but on the values of a map (the tables of compiled patterns and of exact
	// multipleOf rationals are collected by a walk over all types)
	mapOnly := &patternPair{`^[A-Z]{2}$`, regexp.MustCompile(`^[A-Z]{2}$`), []string{"AB", "ZZ"}, []string{"", "a", "ABC", "aB"}}
	mapOnly2 := &patternPair{`^x[0-9]$`, regexp.MustCompile(`^x[0-9]$`), []string{"x1", "x9"}, []string{"", "x", "y1", "x10"}}
	add(g.Component(&Schema{Type: "object", AddMode: "schema", AddProps: &Schema{Type: "string", Pattern: mapOnly}}))
	add(g.Component(&Schema{Type: "object", Props: []Prop{{"id", &Schema{Type: "integer"}, true}}, AddMode: "schema", AddProps: &Schema{Type: "array", Items: &Schema{Type: "string", Pattern: mapOnly2}}}))
	add(g.Component(&Schema{Type: "object", AddMode: "schema", AddProps: &Schema{Type: "number", MultF: f64p(0.125)}}))
	// many fields: required mask across byte boundaries
	var many []Prop
	for i := 0; i < 19; i++ {
		many = append(many, Prop{fmt.Sprintf("f%02d", i), &Schema{Type: "integer"}, i%3 != 1})
	}
	add(g.Component(&Schema{Type: "object", Props: many}))
	add(obj(Prop{"na", &Schema{Type: "array", Items: &Schema{Type: "integer"}, Nullable: true, MinItems: ip(1)}, true}, Prop{"x", &Schema{Type: "array", Items: &Schema{Type: "array", Items: &Schema{Type: "integer", MaxI: i64p(5)}}}, false})) // nullable / nested arrays
	return b
}

func c03(r *lp.Run) {
	r.SetRule("validate.Int/Array/String/Object/UniqueItems on boundary grids against the Lean models; then regenerated servers: a fixed keyword matrix plus random schemas (depth ≤ 3) of the fragment type/properties/required/additionalProperties/items/enum/nullable/bounds/multipleOf/length/pattern/item and property counts/uniqueItems/$ref with recursion; per schema: schema-directed valid instances, single-keyword boundary mutants (off-by-one, missing member, extra member, wrong type, null, duplicate item) and random JSON, posted as request bodies; verdict of an independent reference validator vs (status, handler-invoked). non-trivial = distinct (schema, instance) that is an object or array, or sits on a keyword boundary")
	rng := r.Rng.Fork(3)
	c03Validators(r, rng)
	c03BoundMerge(r, rng.Fork(33))
	c03CountMerge(r, rng.Fork(34))
	c03EnumMerge(r, rng.Fork(35))
	c03PropMerge(r, rng.Fork(36))
	c03NMerge(r, rng.Fork(37))

	scratch := os.Getenv("VERIF_SCRATCH")
	if scratch == "" {
		scratch = "/var/tmp"
	}
	mod, err := gc.NewModule(filepath.Join(scratch, fmt.Sprintf("gc-c03-%d", os.Getpid())))
	if err != nil {
		panic(err)
	}
	defer os.RemoveAll(mod.Dir)
	var specs []*bodySpec
	{ // composition matrix: every shape of GenSum at least once
		g := NewSchemaGen(rng.Fork(2))
		sm := &bodySpec{g: g}
		for k := 0; k < 28; k++ {
			sm.ops = append(sm.ops, bodyOp{fmt.Sprintf("s%d", k), g.GenSum()})
		}
		if pkg, err := mod.Add("bsum", []byte(sm.doc()), gen.Options{}); err != nil {
			r.Fail(lp.PropFail{Property: "C03", What: "the generator refuses the composition (allOf/oneOf/anyOf) matrix spec", Input: sm.doc(), Observed: err.Error(), Expected: "generated package"})
		} else {
			sm.pkg = pkg
			specs = append(specs, sm)
		}
	}
	m := matrixSpec(rng.Fork(1))
	pkg, err := mod.Add("bm", []byte(m.doc()), gen.Options{})
	if err != nil {
		r.Fail(lp.PropFail{Property: "C03", What: "the generator refuses the fixed keyword-matrix spec", Input: m.doc(), Observed: err.Error(), Expected: "generated package"})
	} else {
		m.pkg = pkg
		specs = append(specs, m)
	}
	nSpecs := r.N(24, 200)
	discarded := 0
	for i := 0; i < nSpecs; i++ {
		g := NewSchemaGen(rng.Fork(uint64(100 + i)))
		g.Sums = i%2 == 1
		b := &bodySpec{g: g}
		for k := 0; k < 4; k++ {
			b.ops = append(b.ops, bodyOp{fmt.Sprintf("op%d", k), g.Gen(3)})
		}
		pkg, err := mod.Add(fmt.Sprintf("b%d", i), []byte(b.doc()), gen.Options{})
		if err != nil {
			discarded++
			r.Note("refused: " + trunc200(err.Error()))
			continue
		}
		b.pkg = pkg
		specs = append(specs, b)
	}
	r.Note(fmt.Sprintf("schema specs: %d generated, %d refused by the generator", len(specs), discarded))
	if discarded*10 > nSpecs {
		r.Fail(lp.PropFail{Property: "C03", What: "more than 10% of the random schema specs are refused by the generator", Input: discarded, Observed: fmt.Sprint(discarded), Expected: "rare refusals"})
	}
	handPkg := c03HandAdd(r, mod)
	codecPkgs := c03CodecAdd(r, r.Rng.Fork(303), mod)
	bin, err := mod.Build()
	if err != nil {
		r.Fail(lp.PropFail{Property: "C02", What: "generated packages do not compile", Input: "schema specs", Observed: err.Error(), Expected: "compiles"})
		return
	}
	drv, err := gc.Start(bin)
	if err != nil {
		panic(err)
	}
	defer drv.Close()
	for _, b := range specs {
		for _, op := range b.ops {
			c03Op(r, drv, b, op)
		}
	}
	c03Hand(r, drv, handPkg)
	c03Codec(r, r.Rng.Fork(304), drv, codecPkgs)
}

func trunc200(s string) string {
	if len(s) > 200 {
		return s[:200]
	}
	return s
}

func c03Instances(r *lp.Run, g *SchemaGen, s *Schema) (insts []any, kinds []string) {
	nv := r.N(10, 40)
	for i := 0; i < nv; i++ {
		v, ok := g.GenValid(s, 3)
		if !ok {
			continue
		}
		insts = append(insts, v)
		kinds = append(kinds, "valid")
		if i < 3 {
			for _, m := range g.Mutants(s, v, 3) {
				insts = append(insts, m)
				kinds = append(kinds, "mutant")
			}
		}
	}
	for i := 0; i < r.N(6, 30); i++ {
		insts = append(insts, g.RandomJSON(2))
		kinds = append(kinds, "random")
	}
	for _, t := range c03Fixed[s.Ref] {
		insts = append(insts, parseJSON(t))
		kinds = append(kinds, "fixed")
	}
	return
}

// hand-written instances for matrix schemas: violations in nested levels of a recursive type
var c03Fixed = map[string][]string{
	"Cat": {
		`{"name":"a"}`, `{"name":"a","children":[{"name":"b"}],"next":{"name":"c"},"byName":{"k":{"name":"d"}}}`,
		`{"name":"a","children":[{"name":""}]}`, `{"name":"a","children":[{"name":"b","children":[{"name":"toolong"}]}]}`,
		`{"name":"a","next":{"name":""}}`, `{"name":"a","next":{"name":"b","next":{"name":""}}}`, `{"name":"a","next":{"children":[]}}`,
		`{"name":"a","byName":{"k":{"name":""}}}`, `{"name":"a","byName":{"k":{"name":"b","byName":{"j":{"name":"toolong"}}}}}`,
		`{"name":"a","children":[{"name":"b"},{"name":"c","next":{"name":"12345"}}]}`, `{"name":""}`,
	},
	"Tree": {
		`{"v":1,"kids":[{"v":-1}]}`, `{"v":1,"kids":[{"v":1,"kids":[{"v":1},{"v":1},{"v":1}]}]}`, `{"v":1,"kids":[{"v":1,"kids":[{"v":0}]}]}`,
	},
}

func c03Op(r *lp.Run, drv *gc.Driver, b *bodySpec, op bodyOp) {
	insts, kinds := c03Instances(r, b.g, op.schema)
	items := make([][3]string, len(insts))
	for i, v := range insts {
		items[i] = [3]string{"POST", "/" + op.name, renderJSON(v)}
	}
	ans, _ := drv.Do(map[string]any{"pkg": b.pkg.Name, "cmd": "postbatch", "items": items, "text": "why"})
	res, ok := ans["results"].([]any)
	if !ok {
		r.Fail(lp.PropFail{Property: "C03", What: "driver failure", Input: b.pkg.Name, Observed: fmt.Sprint(ans), Expected: "results"})
		return
	}
	sj, _ := json.Marshal(op.schema.JSON())
	for i, x := range res {
		out := x.(string)
		valid := b.g.Env().Valid(op.schema, insts[i])
		text := items[i][2]
		_, isObj := insts[i].(map[string]any)
		_, isArr := insts[i].([]any)
		r.Count("c03 "+string(sj)+text, fmt.Sprintf("%s:%s:%s", kinds[i], map[bool]string{true: "valid", false: "invalid"}[valid], strings.SplitN(out, " ", 2)[0]), isObj || isArr || kinds[i] == "mutant")
		r.PropCheck()
		in := map[string]any{"schema": json.RawMessage(sj), "instance": text, "components": compsJSON(b.g)}
		accepted := strings.HasPrefix(out, "501 h1")
		refused := strings.HasPrefix(out, "400 h0")
		switch {
		case strings.Contains(out, "panic="):
			r.Fail(lp.PropFail{Property: "C03", What: "server panics while decoding a body", Input: in, Observed: out, Expected: "400 or handler"})
		case valid && !accepted:
			r.Fail(lp.PropFail{Property: "C03", What: "a valid document is refused", Input: in, Observed: out, Expected: "handler invoked"})
		case !valid && !refused:
			r.Fail(lp.PropFail{Property: "C03", What: "an invalid document reaches the handler (or is not answered 400)", Input: in, Observed: out, Expected: "400, handler not invoked"})
		}
	}
}

func compsJSON(g *SchemaGen) json.RawMessage {
	comps := map[string]any{}
	for name, s := range g.Env() {
		comps[name] = s.JSON()
	}
	b, _ := json.Marshal(comps)
	return b
}
