package main

import (
	"encoding/base64"
	"encoding/json"
	"fmt"
	"math"
	"os"
	"path/filepath"
	"strings"
	"unicode/utf8"

	"github.com/ogen-go/ogen/gen"

	"verifharness/internal/gc"
	"verifharness/internal/lp"
)

func init() { suites["c01"] = c01 }

type pmOp struct {
	name        string
	loc, style  string
	explode     bool
	shape, elem string
	required    bool
	def         any // default (prim only)
	zeroDef     bool
	goField     string
	nullable    bool   // schema carries nullable: true (the Go type is a Nil… / OptNil… wrapper)
	prop        string // property the findings are reported under ("" = C01)
}

func (o pmOp) property() string {
	if o.prop != "" {
		return o.prop
	}
	return "C01"
}

func elemSchema(elem string) map[string]any {
	switch elem {
	case "int":
		return map[string]any{"type": "integer", "format": "int64"}
	case "float":
		return map[string]any{"type": "number", "format": "double"}
	case "bool":
		return map[string]any{"type": "boolean"}
	}
	return map[string]any{"type": "string"}
}

func (o pmOp) paramName() string {
	if o.loc == "header" {
		return "X-P"
	}
	return "p"
}

func (o pmOp) schema() map[string]any {
	switch o.shape {
	case "arr":
		return map[string]any{"type": "array", "items": elemSchema(o.elem), "nullable": o.nullable}
	case "obj":
		return map[string]any{"type": "object", "nullable": o.nullable, "required": []string{"a", "b"}, "properties": map[string]any{"a": elemSchema(o.elem), "b": map[string]any{"type": "string"}}}
	}
	s := elemSchema(o.elem)
	if o.nullable {
		s["nullable"] = true
	}
	if o.def != nil {
		s["default"] = o.def
	}
	return s
}

func paramMatrixDoc(ops []pmOp) string {
	paths := map[string]any{}
	for _, o := range ops {
		p := "/" + o.name
		if o.loc == "path" {
			p += "/{p}"
		}
		paths[p] = map[string]any{"get": map[string]any{
			"operationId": o.name,
			"parameters":  []any{map[string]any{"name": o.paramName(), "in": o.loc, "required": o.required, "style": o.style, "explode": o.explode, "schema": o.schema()}},
			"responses":   map[string]any{"200": map[string]any{"description": "ok"}},
		}}
	}
	doc := map[string]any{"openapi": "3.0.3", "info": map[string]any{"title": "t", "version": "1"}, "paths": paths}
	b, _ := json.Marshal(doc)
	return string(b)
}

func paramMatrix() []pmOp {
	var ops []pmOp
	n := 0
	add := func(loc, style string, explode bool, shapes ...string) {
		for _, sh := range shapes {
			for _, el := range []string{"string", "int", "float", "bool"} {
				reqs := []bool{true}
				if loc != "path" {
					reqs = []bool{true, false}
				}
				for _, rq := range reqs {
					ops = append(ops, pmOp{name: fmt.Sprintf("op%d", n), loc: loc, style: style, explode: explode, shape: sh, elem: el, required: rq})
					n++
				}
				if loc != "path" && sh == "prim" {
					def := map[string]any{"string": "dflt", "int": 7, "float": 1.5, "bool": true}[el]
					ops = append(ops, pmOp{name: fmt.Sprintf("op%d", n), loc: loc, style: style, explode: explode, shape: sh, elem: el, required: false, def: def})
					n++
					// a default that is the Go zero value is a default all the same
					zero := map[string]any{"string": "", "int": 0, "float": 0.0, "bool": false}[el]
					ops = append(ops, pmOp{name: fmt.Sprintf("op%d", n), loc: loc, style: style, explode: explode, shape: sh, elem: el, required: false, def: zero, zeroDef: true})
					n++
				}
			}
		}
	}
	for _, st := range []string{"simple", "label", "matrix"} {
		for _, ex := range []bool{false, true} {
			add("path", st, ex, "prim", "arr", "obj")
		}
	}
	add("query", "form", true, "prim", "arr", "obj")
	add("query", "form", false, "prim", "arr", "obj")
	add("query", "pipeDelimited", true, "arr")
	add("query", "pipeDelimited", false, "arr")
	add("query", "deepObject", true, "obj")
	add("header", "simple", false, "prim", "arr", "obj")
	add("header", "simple", true, "prim", "arr", "obj")
	add("cookie", "form", true, "prim")
	add("cookie", "form", false, "prim", "arr", "obj")
	return ops
}

// the same combinations with `nullable: true` on the parameter schema (string and int64 elements): the value
// sits in a Nil… / OptNil… wrapper, which every encoder and decoder config has to look through
func paramMatrixNullable(prop string) []pmOp {
	var ops []pmOp
	for _, o := range paramMatrix() {
		// (a nullable array parameter is refused when the templates run: "unexpected nil semantic null")
		if (o.elem != "string" && o.elem != "int") || o.def != nil || o.shape == "arr" {
			continue
		}
		o.nullable, o.prop = true, prop
		o.name = fmt.Sprintf("nl%d", len(ops))
		ops = append(ops, o)
	}
	return ops
}

var c01Strings = []string{"a", "abc", "é", "日本", "a b", " a", "a ", "\t", "", ",", ".", ";", "=", "|", "&", "%", "%41", "%2C", "/", "..", "../x", "+", "#", "?", "a,b", "a.b", "a;b", "a=b", "a|b", "a&b", "[", "]", "a[b]", "\"", "'", "\\", "\x00", "\x7f", "\n", "\xff", "a\xc3", "😀", "null", "true", "~", "a/b/c", "x%zz", "-", "_"}

const c01Delims = ",.;=|&[] "

func c01CoreString(s string) bool {
	if s == "" || !utf8.ValidString(s) || strings.ContainsAny(s, c01Delims) {
		return false
	}
	for _, c := range s {
		if c < 0x20 || c == 0x7f {
			return false
		}
	}
	return true
}

func strDesc(s string) any {
	if utf8.ValidString(s) {
		return s
	}
	return map[string]any{"$b64": base64.StdEncoding.EncodeToString([]byte(s))}
}

type elemVal struct {
	desc any
	core bool
	text string
}

func elemValues(rng *lp.Rand, elem string, n int) []elemVal {
	var out []elemVal
	switch elem {
	case "string":
		for _, s := range c01Strings {
			out = append(out, elemVal{strDesc(s), c01CoreString(s), fmt.Sprintf("%q", s)})
		}
	case "int":
		for _, v := range []int64{0, 1, -1, 42, math.MaxInt64, math.MinInt64, 1 << 53, -(1<<53 + 1)} {
			out = append(out, elemVal{json.Number(fmt.Sprint(v)), true, fmt.Sprint(v)})
		}
	case "float":
		for _, f := range []float64{0, 1, -1, 0.5, 0.1, 0.1 + 0.2, 1e-11, 1e21, 1e22, 123456789.125, math.MaxFloat64, math.SmallestNonzeroFloat64, math.Copysign(0, -1), 1<<53 + 2, -2.5e-300} {
			out = append(out, elemVal{map[string]any{"$bits": fmt.Sprintf("%x", math.Float64bits(f))}, true, fmt.Sprintf("%v(bits %x)", f, math.Float64bits(f))})
		}
	case "bool":
		out = append(out, elemVal{true, true, "true"}, elemVal{false, true, "false"})
	}
	// rotate deterministically so that different ops see different prefixes when n is small
	if n < len(out) {
		k := rng.Intn(len(out))
		out = append(out[k:], out[:k]...)
		out = out[:n]
	}
	return out
}

type c01Call struct {
	desc  any    // value of the parameter field (nil ⇒ absent)
	core  bool   // every text in the core domain, collections non-empty
	text  string // for reports
	empty bool   // empty collection
	blank bool   // some text with leading/trailing blank (K4 for headers)
	one   bool   // array with exactly one empty string
}

func c01Values(rng *lp.Rand, o pmOp, n int) []c01Call {
	ev := elemValues(rng, o.elem, n)
	var out []c01Call
	isBlank := func(t string) bool {
		return strings.HasPrefix(t, "\" ") || strings.HasSuffix(t, " \"") || strings.HasPrefix(t, "\"\\t") || strings.HasSuffix(t, "\\t\"")
	}
	switch o.shape {
	case "prim":
		for _, e := range ev {
			out = append(out, c01Call{desc: e.desc, core: e.core, text: e.text, blank: isBlank(e.text)})
		}
	case "arr":
		out = append(out, c01Call{desc: []any{}, core: false, text: "[]", empty: true})
		for i, e := range ev {
			out = append(out, c01Call{desc: []any{e.desc}, core: e.core, text: "[" + e.text + "]", blank: isBlank(e.text), one: e.text == `""`})
			f := ev[(i*7+3)%len(ev)]
			out = append(out, c01Call{desc: []any{e.desc, f.desc}, core: e.core && f.core, text: "[" + e.text + "," + f.text + "]", blank: isBlank(e.text) || isBlank(f.text)})
			if i%5 == 0 {
				out = append(out, c01Call{desc: []any{f.desc, e.desc, f.desc}, core: e.core && f.core, text: "[" + f.text + "," + e.text + "," + f.text + "]", blank: isBlank(e.text) || isBlank(f.text)})
			}
		}
	case "obj":
		sv := elemValues(rng, "string", n)
		for i, e := range ev {
			b := sv[(i*5+1)%len(sv)]
			out = append(out, c01Call{desc: map[string]any{"A": e.desc, "B": b.desc}, core: e.core && b.core, text: "{a:" + e.text + ",b:" + b.text + "}", blank: isBlank(e.text) || isBlank(b.text)})
		}
	}
	return out
}

func c01(r *lp.Run) {
	r.SetRule("one regenerated package with an operation for every admitted (location, style, explode, shape) × element type {string, int64, double, boolean} × {required, optional, optional with default}; each driven through the generated client, a real httptest server and the generated server with adversarial texts (blanks, every delimiter, %, %41, /, .., +, &, #, ?, quotes, controls, NUL, DEL, invalid UTF-8, astral), extreme integers and doubles, in every position of arrays and objects, and with the parameter absent; observed: the client's arguments, the recording handler's arguments and the middleware's parameter map (canonical forms, equality is identity). Request bodies: schema-directed JSON values of the C03 schema family sent through the client; responses: every variant (code / pattern / default, with headers) returned by the handler and decoded by the client. non-trivial = distinct (operation, value) that was sent on the wire")
	rng := r.Rng.Fork(1)
	scratch := os.Getenv("VERIF_SCRATCH")
	if scratch == "" {
		scratch = "/var/tmp"
	}
	mod, err := gc.NewModule(filepath.Join(scratch, fmt.Sprintf("gc-c01-%d", os.Getpid())))
	if err != nil {
		panic(err)
	}
	defer os.RemoveAll(mod.Dir)
	ops := paramMatrix()
	nlOps := paramMatrixNullable("")
	nlPkg, nlErr := mod.Add("pmnl", []byte(paramMatrixDoc(nlOps)), gen.Options{})
	if nlErr != nil {
		r.Fail(lp.PropFail{Property: "C01", What: "the generator refuses the parameter feature-matrix spec with nullable parameter schemas", Input: "nullable parameter matrix", Observed: nlErr.Error(), Expected: "generated package"})
	}
	pkg, err := mod.Add("pm", []byte(paramMatrixDoc(ops)), gen.Options{})
	if err != nil {
		r.Fail(lp.PropFail{Property: "C01", What: "the generator refuses the parameter feature-matrix spec", Input: "parameter matrix", Observed: err.Error(), Expected: "generated package"})
		return
	}
	ex := c01BuildExchange(r, rng, mod)
	bin, err := mod.Build()
	if err != nil {
		r.Fail(lp.PropFail{Property: "C02", What: "generated packages do not compile", Input: "C01 feature-matrix specs", Observed: err.Error(), Expected: "compiles"})
		return
	}
	drv, err := gc.Start(bin)
	if err != nil {
		panic(err)
	}
	defer drv.Close()
	byID := map[string]gc.OpInfo{}
	for _, oi := range pkg.Ops {
		byID[oi.OperationID] = oi
	}
	nvals := r.N(14, 60)
	for _, o := range ops {
		oi, ok := byID[o.name]
		if !ok || len(oi.Params) != 1 {
			r.Fail(lp.PropFail{Property: "C01", What: "operation of the feature matrix is missing from the IR", Input: o.name, Observed: fmt.Sprint(oi), Expected: "one parameter"})
			continue
		}
		o.goField = oi.Params[0].Field
		calls := c01Values(rng, o, nvals)
		if o.elem == "float" && o.loc == "path" && o.style == "label" && o.shape != "prim" {
			// the decimal text of a double contains '.', the label style's separator: not core there
			for i := range calls {
				calls[i].core = false
			}
		}
		if !o.required {
			calls = append(calls, c01Call{desc: map[string]any{"$absent": true}, text: "<absent>"})
		}
		for _, c := range calls {
			c01ParamCall(r, drv, pkg.Name, oi, o, c)
		}
	}
	if nlPkg != nil {
		c01RunMatrix(r, rng, drv, nlPkg, nlOps, r.N(6, 30))
	}
	c01RunExchange(r, rng, drv, ex)
}

// c01RunMatrix drives every operation of a parameter-matrix package with n values per element
func c01RunMatrix(r *lp.Run, rng *lp.Rand, drv *gc.Driver, pkg *gc.Pkg, ops []pmOp, n int) {
	byID := map[string]gc.OpInfo{}
	for _, oi := range pkg.Ops {
		byID[oi.OperationID] = oi
	}
	for _, o := range ops {
		oi, ok := byID[o.name]
		if !ok || len(oi.Params) != 1 {
			r.Fail(lp.PropFail{Property: o.property(), What: "operation of the feature matrix is missing from the IR", Input: o.name, Observed: fmt.Sprint(oi), Expected: "one parameter"})
			continue
		}
		o.goField = oi.Params[0].Field
		calls := c01Values(rng, o, n)
		if !o.required {
			calls = append(calls, c01Call{desc: map[string]any{"$absent": true}, text: "<absent>"})
		}
		for _, c := range calls {
			c01ParamCall(r, drv, pkg.Name, oi, o, c)
		}
	}
}

func c01ParamCall(r *lp.Run, drv *gc.Driver, pkgName string, oi gc.OpInfo, o pmOp, c c01Call) {
	params := map[string]any{o.goField: c.desc}
	if c.text == "<absent>" && o.shape == "arr" {
		params = map[string]any{} // an optional array is a plain slice: absent = nil
	}
	ans, _ := drv.Do(map[string]any{"pkg": pkgName, "cmd": "call", "op": oi.Name, "params": params})
	cfg := fmt.Sprintf("%s/%s/explode=%v/%s/%s/required=%v", o.loc, o.style, o.explode, o.shape, o.elem, o.required)
	if o.def != nil {
		cfg += "/default"
	}
	if o.nullable {
		cfg += "/nullable"
	}
	in := map[string]any{"operation": o.name, "config": cfg, "value": c.text}
	if ans["error"] != nil || ans["crash"] != nil || ans["driver_panic"] != nil {
		r.Count("c01 "+cfg+c.text, "driver-error", false)
		r.Fail(lp.PropFail{Property: o.property(), What: "driver failure", Input: in, Observed: fmt.Sprint(ans["error"], ans["crash"], ans["driver_panic"]), Expected: "a call"})
		return
	}
	given, _ := ans["given"].(map[string]any)
	srv, _ := ans["server"].(map[string]any)
	cl, _ := ans["client"].(map[string]any)
	wire, _ := ans["wire"].(map[string]any)
	sent := wire != nil && fmt.Sprint(wire["round_trips"]) != "0"
	handler := srv != nil && fmt.Sprint(srv["handler_called"]) != "0"
	want := fmt.Sprint(given["params"])
	// absent optional with default arrives as the default
	if c.text == "<absent>" && o.def != nil {
		want = c01DefaultCanon(oi.Name, o)
	}
	branch := "refused-by-client"
	switch {
	case cl["panic"] != nil:
		branch = "client-panic"
	case handler && fmt.Sprint(srv["params"]) == want:
		branch = "delivered"
	case handler:
		branch = "delivered-different"
	case sent:
		branch = "refused-by-server"
	}
	r.Count("c01 "+cfg+c.text, o.loc+":"+branch, sent)
	r.PropCheck()
	fail := func(what, obs, exp string) {
		in2 := map[string]any{}
		for k, v := range in {
			in2[k] = v
		}
		if wire != nil {
			in2["wire"] = fmt.Sprint(wire["method"], " ", wire["uri"], " ", wire["header"])
		}
		r.Fail(lp.PropFail{Property: o.property(), What: what, Input: in2, Observed: obs, Expected: exp})
	}
	switch branch {
	case "client-panic":
		fail("the generated client panics", fmt.Sprint(cl["panic"]), "value sent or error")
	case "delivered":
		// the middleware saw the same value
		key := o.loc + ":" + o.paramName()
		mw, _ := srv["mw_params"].(map[string]any)
		got := fmt.Sprint(mw[key])
		wantMw := c01FieldCanon(want)
		if fmt.Sprint(srv["mw_called"]) == "0" || got != wantMw {
			fail("the middleware's parameter map differs from the handler's arguments", got, wantMw)
		}
	case "delivered-different":
		cls := ""
		switch {
		case o.shape == "arr" && o.loc == "query" && o.style == "form" && !o.explode && c.one:
			cls = "W1"
		case o.shape == "arr" && o.loc == "query" && o.style == "pipeDelimited" && !o.explode && c.empty:
			cls = "W2"
		case o.shape == "arr" && o.loc == "header" && c.empty:
			cls = "W3"
		case o.shape == "arr" && o.loc == "cookie" && !o.explode && c.empty:
			cls = "W4"
		case o.loc == "header" && c.blank:
			cls = "K4"
		}
		if cls != "" {
			r.Known(lp.PropFail{Property: o.property(), Class: cls, What: "the handler receives a different parameter value than the caller supplied", Input: in, Observed: fmt.Sprint(srv["params"]), Expected: want})
		} else {
			fail("the handler receives a different parameter value than the caller supplied", fmt.Sprint(srv["params"]), want+" (or an error on either side)")
		}
	default:
		if c.core || (c.text == "<absent>") {
			fail("a core-domain value is not delivered", branch+": client="+fmt.Sprint(cl)+" status="+fmt.Sprint(wire["status"])+" body="+fmt.Sprint(wire["resp_body"]), "delivered unchanged")
		}
	}
}

// c01FieldCanon: "OpNParams{P=<canon>}" ↦ "<canon>"
func c01FieldCanon(paramsCanon string) string {
	i := strings.Index(paramsCanon, "=")
	if i < 0 || !strings.HasSuffix(paramsCanon, "}") {
		return paramsCanon
	}
	return paramsCanon[i+1 : len(paramsCanon)-1]
}

func c01DefaultCanon(opName string, o pmOp) string {
	var v string
	switch o.elem {
	case "string":
		v = `"dflt"`
	case "int":
		v = "7"
	case "float":
		v = fmt.Sprintf("f64:%016x", math.Float64bits(1.5))
	case "bool":
		v = "true"
	}
	if o.zeroDef {
		v = map[string]string{"string": `""`, "int": "0", "float": "f64:0000000000000000", "bool": "false"}[o.elem]
	}
	return fmt.Sprintf("%sParams{%s=some(%s)}", opName, o.goField, v)
}
