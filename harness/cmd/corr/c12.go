package main

import (
	"bytes"
	"fmt"
	"net/url"
	"os"
	"path/filepath"
	"strings"

	"github.com/ogen-go/ogen/gen"
	"verifharness/internal/gc"

	"github.com/ogen-go/ogen"
	"github.com/ogen-go/ogen/openapi/parser"
	"github.com/ogen-go/ogen/uri"

	"verifharness/internal/lp"
)

func init() { suites["c12"] = c12 }

// ---- independent reference (written from RFC 3986, not from normalize.go) ----

func refHex(c byte) (byte, bool) {
	switch {
	case c >= '0' && c <= '9':
		return c - '0', true
	case c >= 'a' && c <= 'f':
		return c - 'a' + 10, true
	case c >= 'A' && c <= 'F':
		return c - 'A' + 10, true
	}
	return 0, false
}

func refUnreserved(c byte) bool {
	return c >= 'a' && c <= 'z' || c >= 'A' && c <= 'Z' || c >= '0' && c <= '9' ||
		c == '-' || c == '.' || c == '_' || c == '~'
}

type refTok struct {
	esc bool
	b   byte
}

func refTokens(s string) ([]refTok, bool) {
	var ts []refTok
	for i := 0; i < len(s); {
		if s[i] != '%' {
			ts = append(ts, refTok{false, s[i]})
			i++
			continue
		}
		if i+2 >= len(s) {
			return nil, false
		}
		h, ok1 := refHex(s[i+1])
		l, ok2 := refHex(s[i+2])
		if !ok1 || !ok2 {
			return nil, false
		}
		ts = append(ts, refTok{true, h<<4 | l})
		i += 3
	}
	return ts, true
}

func refNormalize(s string) (string, bool) {
	ts, ok := refTokens(s)
	if !ok {
		return "", false
	}
	var sb strings.Builder
	for _, t := range ts {
		if t.esc && !refUnreserved(t.b) {
			fmt.Fprintf(&sb, "%%%02X", t.b)
		} else {
			sb.WriteByte(t.b)
		}
	}
	return sb.String(), true
}

func refOctets(s string) []byte {
	ts, _ := refTokens(s)
	var o []byte
	for _, t := range ts {
		o = append(o, t.b)
	}
	return o
}

func implNormalize(s string) string {
	return lp.Guard(func() string {
		t, ok := uri.NormalizeEscapedPath(s)
		if !ok {
			return "err"
		}
		return "ok:" + lp.Hex([]byte(t))
	})
}

func c12One(r *lp.Run, s string, src string) {
	out := implNormalize(s)
	branch := "err"
	nontrivial := false
	switch {
	case out == "panic":
		branch = "panic"
	case strings.HasPrefix(out, "ok:"):
		if out == "ok:"+lp.Hex([]byte(s)) {
			if strings.IndexByte(s, '%') >= 0 {
				branch = "ok-canonical-escapes"
				nontrivial = true
			} else {
				branch = "ok-no-escape"
			}
		} else {
			branch = "ok-rewritten"
			nontrivial = true
		}
	default:
		nontrivial = strings.Count(s, "%") > 1
	}
	r.Case("norm", lp.Hex([]byte(s)), out, src+":"+branch, nontrivial)
	r.SizeN("len", len(s))

	// the property's own predicates, evaluated on the implementation
	r.PropCheck()
	fail := func(what, obs, exp string) {
		r.Fail(lp.PropFail{Property: "C12", What: what, Input: map[string]string{"hex": lp.Hex([]byte(s)), "text": fmt.Sprintf("%q", s)}, Observed: obs, Expected: exp})
	}
	if out == "panic" {
		fail("NormalizeEscapedPath panics", "panic", "a result or (\"\", false)")
		return
	}
	want, valid := refNormalize(s)
	if !valid {
		if out != "err" {
			fail("invalid percent-escape accepted", out, "err")
		}
		return
	}
	if out == "err" {
		fail("valid escaped path refused", out, "ok:"+lp.Hex([]byte(want)))
		return
	}
	t, _ := uri.NormalizeEscapedPath(s)
	if !bytes.Equal(refOctets(t), refOctets(s)) {
		fail("result decodes to different octets", fmt.Sprintf("%q", t), fmt.Sprintf("%q", want))
		return
	}
	if t != want {
		fail("result is not canonical (upper-case hex, only necessary escapes)", fmt.Sprintf("%q", t), fmt.Sprintf("%q", want))
		return
	}
	if again := implNormalize(t); again != "ok:"+lp.Hex([]byte(t)) {
		fail("not idempotent", again, "ok:"+lp.Hex([]byte(t)))
	}
}

func c12(r *lp.Run) {
	r.SetRule("corpus first; then every string of length ≤ L over the alphabet {% 2 5 6 1 a F g - / 0x80} (one per byte class), then random byte strings biased to '%' and hex; non-trivial = distinct input that contains an escape the function must look at (ok with escapes kept or rewritten, or refused with more than one '%')")
	// T-exh: byte predicates on all 256 bytes
	for c := 0; c < 256; c++ {
		b := byte(c)
		bs := fmt.Sprintf("%02x", c)
		r.Case("nbyte", "ishex "+bs, b2s(uri.VerifIshex(b)), "byte", false)
		r.Case("nbyte", "unhex "+bs, fmt.Sprintf("%02x", uri.VerifUnhex(b)), "byte", false)
		r.Case("nbyte", "up "+bs, fmt.Sprintf("%02x", uri.VerifAsciiToUpper(b)), "byte", false)
		r.Case("nbyte", "isLower "+bs, b2s(uri.VerifAsciiIsLowercase(b)), "byte", false)
		r.Case("nbyte", "shouldEscape "+bs, b2s(uri.VerifShouldEscapePath(b)), "byte", false)
	}
	r.Exhaustive("byte predicates ishex/unhex/asciiToUpper/asciiIsLowercase/shouldEscapePath", "all 256 bytes")
	for _, s := range corpusLines("C12") {
		c12One(r, s, "corpus")
	}
	alpha := []byte{'%', '2', '5', 'a', 'F', 'g', '-', '/', 0x80, '6', '1'}
	L := r.N(6, 7)
	var rec func(cur []byte, k int)
	rec = func(cur []byte, k int) {
		c12One(r, string(cur), "exh")
		if k == 0 {
			return
		}
		for _, b := range alpha {
			rec(append(cur[:len(cur):len(cur)], b), k-1)
		}
	}
	rec(nil, L)
	r.Exhaustive("NormalizeEscapedPath", fmt.Sprintf("all strings of length ≤ %d over 11 symbols", L))
	rng := r.Rng.Fork(12)
	n := r.N(30000, 600000)
	pool := []byte("%%%%%0123456789abcdefABCDEFgz-._~/ ?#+")
	for i := 0; i < n; i++ {
		l := rng.Intn(14)
		b := make([]byte, l)
		for j := range b {
			if rng.Chance(85) {
				b[j] = lp.Pick(rng, pool)
			} else {
				b[j] = byte(rng.Intn(256))
			}
		}
		c12One(r, string(b), "rand")
	}
	c12Equivalence(r, rng)
	c12SpecKeys(r)
	c12SpecKeySets(r, rng)
	c12SpecKeyParts(r, rng)
	c12Router(r, rng)
}

// random sets of 3–5 path keys with re-spellings: the document is rejected as containing a duplicate
// exactly when two keys have the same normal form (also when other keys sort between them)
func c12SpecKeySets(r *lp.Run, rng *lp.Rand) {
	n := r.N(300, 6000)
	base := []string{"/user/abc", "/user/Zed", "/user/a-b", "/file/a%2Fb", "/file/a%2Fb/meta", "/x~y", "/a b", "/user/abd", "/%C3%A9"}
	for i := 0; i < n; i++ {
		k := 3 + rng.Intn(3)
		var keys []string
		for j := 0; j < k; j++ {
			b := lp.Pick(rng, base)
			if rng.Chance(60) {
				b = respellEscaped(rng, b)
			}
			keys = append(keys, b)
		}
		// expected: some pair with equal reference normal form (identical spellings cannot both be JSON keys)
		seen := map[string]bool{}
		uniq := []string{}
		for _, key := range keys {
			if !seen[key] {
				seen[key] = true
				uniq = append(uniq, key)
			}
		}
		norm := map[string]string{}
		want := "accepted"
		for _, key := range uniq {
			nk, ok := refNormalize(key)
			if !ok {
				want = "skip"
				break
			}
			if other, dup := norm[nk]; dup && other != key {
				want = "duplicate"
			}
			norm[nk] = key
		}
		if want == "skip" {
			continue
		}
		var parts []string
		for j, key := range uniq {
			parts = append(parts, fmt.Sprintf(`%q:{"get":{"operationId":"o%d","responses":{"200":{"description":"ok"}}}}`, key, j))
		}
		doc := `{"openapi":"3.0.3","info":{"title":"t","version":"1"},"paths":{` + strings.Join(parts, ",") + `}}`
		got := lp.Guard(func() string {
			spec, err := ogen.Parse([]byte(doc))
			if err != nil {
				return "parse-err"
			}
			_, err = parser.Parse(spec, parser.Settings{})
			if err != nil {
				// the documents are valid apart from their keys: any refusal is the duplicate refusal
				return "duplicate"
			}
			return "accepted"
		})
		r.Count("speckeyset "+strings.Join(uniq, " "), "spec-key-set:"+got, true)
		r.PropCheck()
		if got != want {
			r.Fail(lp.PropFail{Property: "C12", What: "spec path keys are not compared for duplicates modulo normalization", Input: map[string]any{"keys": uniq}, Observed: got, Expected: want})
		}
	}
}

// respellStatic: respellEscaped applied to the text outside {parameter} markers only
func respellStatic(rng *lp.Rand, t string) string {
	var sb strings.Builder
	last := 0
	for _, l := range tmplParamRe.FindAllStringIndex(t, -1) {
		sb.WriteString(respellEscaped(rng, t[last:l[0]]))
		sb.WriteString(t[l[0]:l[1]])
		last = l[1]
	}
	sb.WriteString(respellEscaped(rng, t[last:]))
	return sb.String()
}

// a spec path key with parameters is held in normal form part by part: whatever the spelling of its static
// text (before, between and after parameters), the parsed path is the parsed path of the canonical key
func c12SpecKeyParts(r *lp.Run, rng *lp.Rand) {
	segs := []string{"pets", "ph%6Ftos", "a%2Fb", "x~y", "a-b", "%C3%A9", "v1.0", "a%20b", "Zed"}
	n := r.N(400, 8000)
	for i := 0; i < n; i++ {
		var sb strings.Builder
		np := 0
		for k := 0; k < 2+rng.Intn(4); k++ {
			sb.WriteByte('/')
			switch rng.Intn(4) {
			case 0:
				np++
				fmt.Fprintf(&sb, "{p%d}", np)
			case 1:
				np++
				fmt.Fprintf(&sb, "%s{p%d}%s", lp.Pick(rng, []string{"", "v", "%7E"}), np, lp.Pick(rng, []string{"", ".json", "%2Fx", "-%61"}))
			default:
				sb.WriteString(lp.Pick(rng, segs))
			}
		}
		key := sb.String()
		canon, ok := refNormalize(key)
		if !ok {
			continue
		}
		spelled := respellStatic(rng, key)
		parse := func(k string) string {
			return lp.Guard(func() string {
				spec, err := ogen.Parse([]byte(specForRoutes([]rroute{{"GET", k}})))
				if err != nil {
					return "parse-err:" + err.Error()
				}
				api, err := parser.Parse(spec, parser.Settings{})
				if err != nil {
					return "err:" + err.Error()
				}
				if len(api.Operations) != 1 {
					return fmt.Sprint("operations:", len(api.Operations))
				}
				return "path " + api.Operations[0].Path.String()
			})
		}
		got := parse(spelled)
		r.Count("speckeyparts "+spelled, "spec-key-parts", spelled != key && np > 0)
		r.PropCheck()
		if want := "path " + canon; got != want {
			r.Fail(lp.PropFail{Property: "C12", What: "a spec path key is not held in normal form (static text before, between or after parameters)", Input: map[string]any{"key": spelled, "canonical_key": canon}, Observed: got, Expected: want})
		}
	}
}

// respellEscaped: re-spell an already escaped path: flip hex case of escapes, needlessly escape unreserved bytes
func respellEscaped(rng *lp.Rand, p string) string {
	var sb strings.Builder
	for i := 0; i < len(p); i++ {
		c := p[i]
		switch {
		case c == '%' && i+2 < len(p):
			h := p[i+1 : i+3]
			if rng.Bool() {
				h = strings.ToLower(h)
			} else {
				h = strings.ToUpper(h)
			}
			sb.WriteString("%" + h)
			i += 2
		case refUnreserved(c) && rng.Chance(25):
			if rng.Bool() {
				fmt.Fprintf(&sb, "%%%02x", c)
			} else {
				fmt.Fprintf(&sb, "%%%02X", c)
			}
		default:
			sb.WriteByte(c)
		}
	}
	return sb.String()
}

// request paths that differ only in hex case or needless escaping reach the same operation with the same
// arguments — on a regenerated server, with and without a configured path prefix, FindPath and ServeHTTP
func c12Router(r *lp.Run, rng *lp.Rand) {
	scratch := os.Getenv("VERIF_SCRATCH")
	if scratch == "" {
		scratch = "/var/tmp"
	}
	mod, err := gc.NewModule(filepath.Join(scratch, fmt.Sprintf("gc-c12-%d", os.Getpid())))
	if err != nil {
		panic(err)
	}
	defer os.RemoveAll(mod.Dir)
	routes := []rroute{{"GET", "/pet/{name}"}, {"GET", "/pet/{name}/toys/{toy}"}, {"GET", "/a-b/c~d"}, {"POST", "/pet/{name}"}, {"GET", "/v1/{x}.json"},
		{"GET", "/pet/{name}/photos"}, {"GET", "/users/{who}/a%2Fb"}, {"GET", "/users/{who}/a%2Fb/{sub}/z~"}}
	pkg, err := mod.Add("nr", []byte(specForRoutes(routes)), gen.Options{})
	if err != nil {
		r.Fail(lp.PropFail{Property: "C12", What: "the generator refuses the route set of the normalization check", Input: rsetLine(routes), Observed: err.Error(), Expected: "generated router"})
		return
	}
	// the same routes under re-spelled spec keys (static text only): a second server that must behave alike
	routes2 := make([]rroute, len(routes))
	spelledAs := map[string]string{}
	for i, rt := range routes {
		if _, ok := spelledAs[rt.tmpl]; !ok {
			spelledAs[rt.tmpl] = respellStatic(rng, rt.tmpl)
		}
		routes2[i] = rroute{rt.method, spelledAs[rt.tmpl]}
		if i >= 5 {
			// make sure the text after the parameter is re-spelled
			routes2[i].tmpl = strings.NewReplacer("photos", "ph%6ftos", "%2F", "%2f", "z~", "%7a%7E").Replace(rt.tmpl)
		}
	}
	pkg2, err := mod.Add("nr2", []byte(specForRoutes(routes2)), gen.Options{})
	if err != nil {
		r.Fail(lp.PropFail{Property: "C12", What: "the generator refuses a route set whose keys are equivalent re-spellings of an accepted one", Input: rsetLine(routes2), Observed: err.Error(), Expected: "generated router"})
		return
	}
	routes3 := []rroute{{"GET", "/my%20pets/{name}"}, {"GET", "/q%3Fa/{name}"}, {"GET", "/caf%C3%A9/{name}"}}
	pkg3, err := mod.Add("nr3", []byte(specForRoutes(routes3)), gen.Options{})
	if err != nil {
		r.Note("route set with escaped static text refused: " + err.Error())
		pkg3 = nil
	}
	stripPattern := func(s string) string {
		// "F:ok <name> <pattern> <args> S:…" without the pattern (the key as spelled in the spec)
		f := strings.SplitN(s, " ", 4)
		if len(f) == 4 && f[0] == "F:ok" {
			return f[0] + " " + f[1] + " " + f[3]
		}
		return s
	}
	bin, err := mod.Build()
	if err != nil {
		r.Fail(lp.PropFail{Property: "C02", What: "generated router does not compile", Input: rsetLine(routes), Observed: err.Error(), Expected: "compiles"})
		return
	}
	drv, err := gc.Start(bin)
	if err != nil {
		panic(err)
	}
	defer drv.Close()
	args := []string{"a", "a/b", "a b", "é", "a%b", "x.y", "~", "A-Z", "a%2Fb", "+", "a;b=c", "a+b c", "1+1%", "+ +", "a&b=c d", "%2B"}
	for _, prefix := range []string{"", "/api/v1", "/a~b"} {
		for _, rt := range routes {
			n := tmplNParams(rt.tmpl)
			for k := 0; k < r.N(12, 120); k++ {
				vals := make([]string, n)
				esc := make([]string, n)
				for j := range vals {
					vals[j] = lp.Pick(rng, args)
					esc[j] = url.PathEscape(vals[j])
				}
				canonical := prefix + tmplInst(rt.tmpl, esc)
				decoded, derr := url.PathUnescape(canonical)
				if derr != nil {
					continue
				}
				var items [][3]string
				spellings := []string{canonical}
				for v := 0; v < 4; v++ {
					spellings = append(spellings, respellEscaped(rng, canonical))
				}
				for _, sp := range spellings {
					items = append(items, c12RequestItem(rt.method, sp, decoded))
				}
				ans, _ := drv.Do(map[string]any{"pkg": pkg.Name, "cmd": "batch", "prefix": prefix, "items": items})
				res, ok := ans["results"].([]any)
				if !ok {
					r.Fail(lp.PropFail{Property: "C12", What: "driver failure", Input: canonical, Observed: fmt.Sprint(ans), Expected: "results"})
					return
				}
				// every spelling delivers the octets that were escaped into it (FindPath arguments and the
				// handler's decoded parameters), not merely the same thing as the other spellings
				// (a value holding the byte that ends its parameter is matched by the router's first-delimiter
				// rule and misses in every spelling: route semantics, decided under C05)
				if n > 0 && !strings.HasPrefix(fmt.Sprint(res[0]), "F:miss") {
					pnames := tmplParamRe.FindAllStringSubmatch(rt.tmpl, -1)
					byName := map[string]string{}
					for j := range vals {
						byName[pnames[j][1]] = vals[j]
					}
					// the handler's struct has its fields in declaration order (not necessarily the template's)
					var fields []string
					for _, oi := range pkg.Ops {
						if oi.Method == rt.method && oi.Path == rt.tmpl {
							for _, pi := range oi.Params {
								fields = append(fields, pi.Field+"="+fmt.Sprintf("%q", byName[pi.Name]))
							}
						}
					}
					wantArgs := " " + gcHexArgs(vals) + " S:"
					wantParams := "{" + strings.Join(fields, ",") + "}"
					for i := range res {
						got := fmt.Sprint(res[i])
						r.Count("c12router-abs "+prefix+spellings[i], "router-delivers-octets", strings.Contains(spellings[i], "+"))
						r.PropCheck()
						if !strings.Contains(got, wantArgs) || !strings.HasSuffix(got, wantParams) {
							r.Fail(lp.PropFail{Property: "C12", What: "a request path does not deliver the octets escaped into its parameter segments", Input: map[string]any{"routes": rsetLine(routes), "prefix": prefix, "method": rt.method, "path": spellings[i], "values": vals}, Observed: got, Expected: "FindPath arguments" + wantArgs + " and handler parameters " + wantParams})
						}
					}
				}
				ans2, _ := drv.Do(map[string]any{"pkg": pkg2.Name, "cmd": "batch", "prefix": prefix, "items": items})
				if res2, ok := ans2["results"].([]any); ok && len(res2) == len(res) {
					for i := range res {
						r.Count("c12router-keys "+prefix+spellings[i], "router-respelled-spec-keys", true)
						r.PropCheck()
						if stripPattern(fmt.Sprint(res2[i])) != stripPattern(fmt.Sprint(res[i])) {
							r.Fail(lp.PropFail{Property: "C12", What: "two servers generated from spec path keys that differ only in hex case / needless escaping dispatch a request differently", Input: map[string]any{"routes_a": rsetLine(routes), "routes_b": rsetLine(routes2), "prefix": prefix, "method": rt.method, "path": spellings[i]}, Observed: fmt.Sprint(res2[i]), Expected: fmt.Sprint(res[i])})
						}
					}
				} else {
					r.Fail(lp.PropFail{Property: "C12", What: "driver failure", Input: canonical, Observed: fmt.Sprint(ans2), Expected: "results"})
					return
				}
				for i := 1; i < len(res); i++ {
					r.Count("c12router "+prefix+spellings[i], "router-respelling", spellings[i] != canonical)
					r.PropCheck()
					if res[i] != res[0] {
						r.Fail(lp.PropFail{Property: "C12", What: "two spellings of one request path (hex case / needless escaping) are not dispatched alike", Input: map[string]any{"routes": rsetLine(routes), "prefix": prefix, "method": rt.method, "path_a": canonical, "path_b": spellings[i]}, Observed: fmt.Sprint(res[i]), Expected: fmt.Sprint(res[0])})
					}
				}
			}
		}
	}
	// static text that has to stay escaped (a space, a question mark): the known class K18 — the tree holds the
	// key's escaped spelling, a request without RawPath is matched in decoded form
	if pkg3 != nil {
		for _, rt := range routes3 {
			for k := 0; k < r.N(6, 40); k++ {
				v := lp.Pick(rng, []string{"xy", "a", "A-Z", "x.y"})
				canonical := tmplInst(rt.tmpl, []string{v})
				decoded, derr := url.PathUnescape(canonical)
				if derr != nil {
					continue
				}
				spellings := []string{canonical}
				for i := 0; i < 4; i++ {
					spellings = append(spellings, respellEscaped(rng, canonical))
				}
				var items [][3]string
				for _, sp := range spellings {
					items = append(items, c12RequestItem(rt.method, sp, decoded))
				}
				ans, _ := drv.Do(map[string]any{"pkg": pkg3.Name, "cmd": "batch", "prefix": "", "items": items})
				res, ok := ans["results"].([]any)
				if !ok {
					r.Fail(lp.PropFail{Property: "C12", What: "driver failure", Input: canonical, Observed: fmt.Sprint(ans), Expected: "results"})
					return
				}
				r.PropCheck()
				for i := range res {
					r.Count("c12router-k18 "+spellings[i], "router-escaped-static", true)
					if res[i] != res[0] || strings.HasPrefix(fmt.Sprint(res[i]), "F:miss") {
						r.Known(lp.PropFail{Property: "C12", Class: "K18", What: "a template whose static text holds an octet that must stay escaped is matched in one request spelling only", Input: map[string]any{"routes": rsetLine(routes3), "path_a": spellings[0], "path_b": spellings[i]}, Observed: fmt.Sprint(res[i]), Expected: fmt.Sprint(res[0]) + " (and a match)"})
						break
					}
				}
			}
		}
	}
}

// c12RequestItem: the (method, URL.Path, URL.RawPath) net/http hands to a handler for the request target sp —
// RawPath is set only when sp is not the default encoding of the decoded path
func c12RequestItem(method, sp, decoded string) [3]string {
	if u, err := url.ParseRequestURI(sp); err == nil {
		return [3]string{method, u.Path, u.RawPath}
	}
	raw := sp
	if raw == decoded {
		raw = ""
	}
	return [3]string{method, decoded, raw}
}

func gcHexArgs(args []string) string {
	parts := make([]string, len(args))
	for i, a := range args {
		parts[i] = fmt.Sprintf("%x", a)
	}
	return strings.Join(parts, ",")
}

// equivalent re-escapings normalize to the same string (implementation-only check)
func c12Equivalence(r *lp.Run, rng *lp.Rand) {
	n := r.N(5000, 100000)
	for i := 0; i < n; i++ {
		l := 1 + rng.Intn(8)
		oct := make([]byte, l)
		for j := range oct {
			oct[j] = lp.Pick(rng, []byte("ab-~/ %\x80z0_."))
		}
		spell := func() string {
			var sb strings.Builder
			for _, c := range oct {
				switch {
				case !refUnreserved(c) && c != '/' || rng.Chance(40):
					if c == '/' && rng.Bool() { // keep reserved '/' raw in both spellings
						sb.WriteByte(c)
						continue
					}
					if c == '/' {
						sb.WriteByte(c)
						continue
					}
					if rng.Bool() {
						fmt.Fprintf(&sb, "%%%02x", c)
					} else {
						fmt.Fprintf(&sb, "%%%02X", c)
					}
				default:
					sb.WriteByte(c)
				}
			}
			return sb.String()
		}
		a, b := spell(), spell()
		na, nb := implNormalize(a), implNormalize(b)
		r.Count("eqv "+a+" "+b, "equiv-pair", a != b)
		r.PropCheck()
		if na != nb {
			r.Fail(lp.PropFail{Property: "C12", What: "two spellings that differ only in hex case / needless escaping normalize differently",
				Input: map[string]string{"a": a, "b": b}, Observed: na + " vs " + nb, Expected: "equal"})
		}
	}
}

// spec path keys are compared for duplicates modulo the same equivalence
func c12SpecKeys(r *lp.Run) {
	type kc struct {
		a, b string
		dup  bool
	}
	cases := []kc{
		{"/a-b", "/a%2Db", true}, {"/a-b", "/a%2db", true}, {"/a%2fb", "/a%2Fb", true},
		{"/a%2Fb", "/a/b", false}, {"/x%7e", "/x~", true}, {"/x%20y", "/x%20y/", false},
		{"/p/id", "/%70/id", true}, {"/p/id", "/q/id", false}, {"/%41", "/A", true}, {"/%41", "/a", false},
	}
	for _, c := range cases {
		doc := fmt.Sprintf(`{"openapi":"3.0.3","info":{"title":"t","version":"1"},"paths":{%q:{"get":{"operationId":"a","responses":{"200":{"description":"ok"}}}},%q:{"get":{"operationId":"b","responses":{"200":{"description":"ok"}}}}}}`, c.a, c.b)
		got := lp.Guard(func() string {
			spec, err := ogen.Parse([]byte(doc))
			if err != nil {
				return "parse-err"
			}
			_, err = parser.Parse(spec, parser.Settings{})
			if err != nil {
				// the documents are valid apart from their keys: any refusal is the duplicate refusal
				return "duplicate"
			}
			return "accepted"
		})
		r.Count("speckeys "+c.a+" "+c.b, "spec-keys:"+got, true)
		r.PropCheck()
		want := "accepted"
		if c.dup {
			want = "duplicate"
		}
		if got != want {
			r.Fail(lp.PropFail{Property: "C12", What: "spec path keys not compared modulo normalization", Input: map[string]string{"a": c.a, "b": c.b}, Observed: got, Expected: want})
		}
	}
}

func b2s(b bool) string {
	if b {
		return "1"
	}
	return "0"
}
