package main

import (
	"fmt"
	"reflect"
	"strings"

	"github.com/ogen-go/ogen/gen"

	"verifharness/internal/gc"
	"verifharness/internal/lp"
)

// hand-written schemas with hand-written verdicts (JSON Schema as OpenAPI 3.0 reads it); the two recorded
// deviations K19 / K20 / K36–K39 are classified by the exact (operation, instance) pair, everything else here must agree
const c03HandDoc = `{"openapi":"3.0.3","info":{"title":"t","version":"1"},"paths":{
 "/nul":{"post":{"operationId":"nul","requestBody":{"required":true,"content":{"application/json":{"schema":{"allOf":[{"type":"string","nullable":true},{"type":"string","minLength":1}]}}}},"responses":{"200":{"description":"ok"}}}},
 "/ghost":{"post":{"operationId":"ghost","requestBody":{"required":true,"content":{"application/json":{"schema":{"type":"object","required":["ghost"],"properties":{"a":{"type":"integer"}}}}}},"responses":{"200":{"description":"ok"}}}},
 "/xmax":{"post":{"operationId":"xmax","requestBody":{"required":true,"content":{"application/json":{"schema":{"allOf":[{"type":"integer","maximum":10,"exclusiveMaximum":true},{"type":"integer","minimum":0}]}}}},"responses":{"200":{"description":"ok"}}}},
 "/xmin":{"post":{"operationId":"xmin","requestBody":{"required":true,"content":{"application/json":{"schema":{"allOf":[{"type":"integer","minimum":5,"exclusiveMinimum":true},{"type":"integer","minimum":10}]}}}},"responses":{"200":{"description":"ok"}}}},
 "/xeq":{"post":{"operationId":"xeq","requestBody":{"required":true,"content":{"application/json":{"schema":{"allOf":[{"type":"number","maximum":7},{"type":"number","maximum":7,"exclusiveMaximum":true},{"type":"number","minimum":-1,"exclusiveMinimum":true},{"type":"number","minimum":-3}]}}}},"responses":{"200":{"description":"ok"}}}},
 "/enumnum":{"post":{"operationId":"enumnum","requestBody":{"required":true,"content":{"application/json":{"schema":{"allOf":[{"type":"number","enum":[1,2]},{"type":"number","enum":[1.0,2]}]}}}},"responses":{"200":{"description":"ok"}}}},
 "/enumstr":{"post":{"operationId":"enumstr","requestBody":{"required":true,"content":{"application/json":{"schema":{"allOf":[{"type":"string","enum":["a","b","c"]},{"type":"string","enum":["b","c","d"]}]}}}},"responses":{"200":{"description":"ok"}}}},
 "/strlen":{"post":{"operationId":"strlen","requestBody":{"required":true,"content":{"application/json":{"schema":{"allOf":[{"type":"string","minLength":2},{"type":"string","maxLength":4,"minLength":1}]}}}},"responses":{"200":{"description":"ok"}}}},
 "/arrm":{"post":{"operationId":"arrm","requestBody":{"required":true,"content":{"application/json":{"schema":{"allOf":[{"type":"array","items":{"type":"integer"},"minItems":1},{"type":"array","items":{"type":"integer","maximum":5},"maxItems":2,"uniqueItems":true}]}}}},"responses":{"200":{"description":"ok"}}}},
 "/shared":{"post":{"operationId":"shared","requestBody":{"required":true,"content":{"application/json":{"schema":{"allOf":[{"type":"object","properties":{"a":{"type":"integer","minimum":0}}},{"type":"object","required":["a"],"properties":{"a":{"type":"integer","maximum":5}}}]}}}},"responses":{"200":{"description":"ok"}}}},
 "/addp":{"post":{"operationId":"addp","requestBody":{"required":true,"content":{"application/json":{"schema":{"allOf":[{"type":"object","properties":{"a":{"type":"integer"}},"additionalProperties":false},{"type":"object","properties":{"b":{"type":"string"}}}]}}}},"responses":{"200":{"description":"ok"}}}},
 "/req3":{"post":{"operationId":"req3","requestBody":{"required":true,"content":{"application/json":{"schema":{"allOf":[{"required":["c"]},{"type":"object","properties":{"b":{"type":"string"}}},{"type":"object","properties":{"c":{"type":"string"}}}]}}}},"responses":{"200":{"description":"ok"}}}},
 "/req3b":{"post":{"operationId":"req3b","requestBody":{"required":true,"content":{"application/json":{"schema":{"allOf":[{"type":"object","properties":{"b":{"type":"string"}}},{"type":"object","properties":{"c":{"type":"string"}}},{"required":["c"]}]}}}},"responses":{"200":{"description":"ok"}}}},
 "/enumb":{"post":{"operationId":"enumb","requestBody":{"required":true,"content":{"application/json":{"schema":{"type":"integer","enum":[1,5,10],"maximum":5}}}},"responses":{"200":{"description":"ok"}}}},
 "/sib":{"post":{"operationId":"sib","requestBody":{"required":true,"content":{"application/json":{"schema":{"allOf":[{"type":"string"},{"maxLength":5}],"minLength":3}}}},"responses":{"200":{"description":"ok"}}}},
 "/f32":{"post":{"operationId":"f32","requestBody":{"required":true,"content":{"application/json":{"schema":{"type":"number","format":"float","maximum":0.1}}}},"responses":{"200":{"description":"ok"}}}},
 "/minit":{"post":{"operationId":"minit","requestBody":{"required":true,"content":{"application/json":{"schema":{"allOf":[{"type":"array","items":{"type":"integer"},"minItems":1,"maxItems":9},{"type":"array","items":{"type":"integer"},"minItems":3,"maxItems":4}]}}}},"responses":{"200":{"description":"ok"}}}},
 "/len2":{"post":{"operationId":"len2","requestBody":{"required":true,"content":{"application/json":{"schema":{"allOf":[{"type":"string","minLength":2,"maxLength":10},{"type":"string","minLength":4,"maxLength":6}]}}}},"responses":{"200":{"description":"ok"}}}},
 "/props2":{"post":{"operationId":"props2","requestBody":{"required":true,"content":{"application/json":{"schema":{"allOf":[{"type":"object","additionalProperties":{"type":"integer"},"minProperties":1,"maxProperties":5},{"type":"object","additionalProperties":{"type":"integer"},"minProperties":2,"maxProperties":3}]}}}},"responses":{"200":{"description":"ok"}}}},
 "/maxp":{"post":{"operationId":"maxp","requestBody":{"required":true,"content":{"application/json":{"schema":{"type":"object","properties":{"a":{"type":"integer"}},"maxProperties":2}}}},"responses":{"200":{"description":"ok"}}}},
 "/maxp1":{"post":{"operationId":"maxp1","requestBody":{"required":true,"content":{"application/json":{"schema":{"type":"object","required":["a"],"properties":{"a":{"type":"integer"},"b":{"type":"integer"}},"minProperties":2,"maxProperties":3}}}},"responses":{"200":{"description":"ok"}}}},
 "/emoji":{"post":{"operationId":"emoji","requestBody":{"required":true,"content":{"application/json":{"schema":{"type":"object","properties":{"lo":{"type":"string","minLength":4},"hi":{"type":"string","maxLength":2}}}}}},"responses":{"200":{"description":"ok"}}}},
 "/both":{"post":{"operationId":"both","requestBody":{"required":true,"content":{"application/json":{"schema":{"oneOf":[{"$ref":"#/components/schemas/Cat"},{"$ref":"#/components/schemas/Dog"}]}}}},"responses":{"200":{"description":"ok"}}}},
 "/zero":{"post":{"operationId":"zero","requestBody":{"required":true,"content":{"application/json":{"schema":{"type":"object","properties":{"s":{"type":"string","maxLength":0},"a":{"type":"array","items":{"type":"integer"},"maxItems":0},"m":{"type":"object","additionalProperties":{"type":"integer"},"maxProperties":0}}}}}},"responses":{"200":{"description":"ok"}}}}
},"components":{"schemas":{
 "Cat":{"type":"object","required":["meow"],"properties":{"meow":{"type":"string"}}},
 "Dog":{"type":"object","required":["bark"],"properties":{"bark":{"type":"string"}}}}}}`

var c03HandCases = []struct {
	op, body string
	valid    bool
	class    string
}{
	{"nul", `"ab"`, true, ""}, {"nul", `""`, false, ""}, {"nul", `null`, false, "K19"},
	{"ghost", `{"a":1,"ghost":2}`, true, ""}, {"ghost", `{"a":1}`, false, "K20"}, {"ghost", `{}`, false, "K20"}, {"ghost", `{"a":"x","ghost":1}`, false, ""},
	{"xmax", `9`, true, ""}, {"xmax", `10`, false, ""}, {"xmax", `0`, true, ""}, {"xmax", `-1`, false, ""}, {"xmax", `11`, false, ""},
	{"xmin", `10`, true, ""}, {"xmin", `9`, false, ""}, {"xmin", `6`, false, ""}, {"xmin", `5`, false, ""}, {"xmin", `11`, true, ""},
	{"xeq", `7`, false, ""}, {"xeq", `6.5`, true, ""}, {"xeq", `-1`, false, ""}, {"xeq", `-0.5`, true, ""}, {"xeq", `-3`, false, ""}, {"xeq", `8`, false, ""},
	{"enumnum", `1`, true, ""}, {"enumnum", `2`, true, ""}, {"enumnum", `1.0`, true, ""}, {"enumnum", `3`, false, ""},
	{"enumstr", `"b"`, true, ""}, {"enumstr", `"c"`, true, ""}, {"enumstr", `"a"`, false, ""}, {"enumstr", `"d"`, false, ""}, {"enumstr", `"e"`, false, ""},
	{"strlen", `"ab"`, true, ""}, {"strlen", `"abcd"`, true, ""}, {"strlen", `"a"`, false, ""}, {"strlen", `"abcde"`, false, ""}, {"strlen", `""`, false, ""},
	{"arrm", `[1]`, true, ""}, {"arrm", `[1,2]`, true, ""}, {"arrm", `[]`, false, ""}, {"arrm", `[1,1]`, false, ""}, {"arrm", `[6]`, false, ""}, {"arrm", `[1,2,3]`, false, ""},
	{"shared", `{"a":3}`, true, ""}, {"shared", `{"a":0}`, true, ""}, {"shared", `{"a":5}`, true, ""}, {"shared", `{}`, false, ""}, {"shared", `{"a":-1}`, false, ""}, {"shared", `{"a":6}`, false, ""},
	{"addp", `{"a":1}`, true, ""}, {"addp", `{}`, true, ""}, {"addp", `{"a":1,"b":"x"}`, false, "K36"}, {"addp", `{"a":1,"c":2}`, false, ""}, {"addp", `{"b":1}`, false, ""},
	{"req3", `{"c":"x"}`, true, ""}, {"req3", `{"b":"y","c":"x"}`, true, ""}, {"req3", `{}`, false, ""}, {"req3", `{"b":"y"}`, false, ""},
	{"req3b", `{"c":"x"}`, true, ""}, {"req3b", `{}`, false, ""}, {"req3b", `{"b":"y"}`, false, ""},
	{"enumb", `1`, true, ""}, {"enumb", `5`, true, ""}, {"enumb", `2`, false, ""}, {"enumb", `10`, false, "K37"},
	{"sib", `"abc"`, true, ""}, {"sib", `"abcde"`, true, ""}, {"sib", `"abcdef"`, false, ""}, {"sib", `"ab"`, false, "K38"},
	{"f32", `0.05`, true, ""}, {"f32", `0.2`, false, ""}, {"f32", `0.1`, true, "K39"},
	{"minit", `[1,2,3]`, true, ""}, {"minit", `[1,2,3,4]`, true, ""}, {"minit", `[1,2]`, false, ""}, {"minit", `[1]`, false, ""}, {"minit", `[1,2,3,4,5]`, false, ""}, {"minit", `[]`, false, ""},
	{"len2", `"abcd"`, true, ""}, {"len2", `"abcdef"`, true, ""}, {"len2", `"abc"`, false, ""}, {"len2", `"ab"`, false, ""}, {"len2", `"abcdefg"`, false, ""},
	{"props2", `{"a":1,"b":2}`, true, ""}, {"props2", `{"a":1,"b":2,"c":3}`, true, ""}, {"props2", `{"a":1}`, false, ""}, {"props2", `{"a":1,"b":2,"c":3,"d":4}`, false, ""}, {"props2", `{}`, false, ""},
	{"maxp", `{"a":1,"x":2}`, true, ""}, {"maxp", `{"x":1,"y":2}`, true, ""}, {"maxp", `{"a":1,"x":1,"y":2}`, false, ""}, {"maxp", `{"x":1,"y":2,"z":3}`, false, ""},
	{"maxp1", `{"a":1,"b":2}`, true, ""}, {"maxp1", `{"a":1,"x":2,"y":3}`, true, ""}, {"maxp1", `{"a":1}`, false, ""}, {"maxp1", `{"a":1,"b":2,"x":3,"y":4}`, false, ""},
	{"emoji", `{"lo":"\ud83d\ude00\ud83d\ude00\ud83d\ude00\ud83d\ude00"}`, true, ""}, {"emoji", `{"lo":"\ud83d\ude00\ud83d\ude00\ud83d\ude00"}`, false, ""}, {"emoji", `{"hi":"\ud83d\ude00\ud83d\ude00"}`, true, ""}, {"emoji", `{"hi":"\ud83d\ude00\ud83d\ude00\ud83d\ude00"}`, false, ""}, {"emoji", `{"lo":"\u00e9\u00e9\u00e9"}`, false, ""},
	{"both", `{"meow":"m"}`, true, ""}, {"both", `{"bark":"b"}`, true, ""}, {"both", `{"meow":"m","bark":"b"}`, false, ""}, {"both", `{}`, false, ""}, {"both", `{"purr":1}`, false, ""},
	{"zero", `{}`, true, ""}, {"zero", `{"s":"","a":[],"m":{}}`, true, ""}, {"zero", `{"s":"x"}`, false, ""}, {"zero", `{"a":[1]}`, false, ""}, {"zero", `{"m":{"k":1}}`, false, ""},
}

func c03HandAdd(r *lp.Run, mod *gc.Module) *gc.Pkg {
	pkg, err := mod.Add("bhand", []byte(c03HandDoc), gen.Options{})
	if err != nil {
		r.Fail(lp.PropFail{Property: "C03", What: "the generator refuses the hand-written schema spec", Input: c03HandDoc, Observed: err.Error(), Expected: "generated package"})
		return nil
	}
	return pkg
}

func c03Hand(r *lp.Run, drv *gc.Driver, pkg *gc.Pkg) {
	if pkg == nil {
		return
	}
	items := make([][3]string, len(c03HandCases))
	for i, c := range c03HandCases {
		items[i] = [3]string{"POST", "/" + c.op, c.body}
	}
	ans, _ := drv.Do(map[string]any{"pkg": pkg.Name, "cmd": "postbatch", "items": items, "text": "why"})
	res, ok := ans["results"].([]any)
	if !ok {
		r.Fail(lp.PropFail{Property: "C03", What: "driver failure", Input: pkg.Name, Observed: fmt.Sprint(ans), Expected: "results"})
		return
	}
	for i, x := range res {
		c := c03HandCases[i]
		out := fmt.Sprint(x)
		accepted := strings.HasPrefix(out, "501 h1")
		refused := strings.HasPrefix(out, "400 h0")
		r.PropCheck()
		r.Count("hand "+c.op+c.body, fmt.Sprintf("hand:%v:%s", c.valid, strings.SplitN(out, " ", 2)[0]), true)
		in := map[string]any{"operation": c.op, "instance": c.body, "document": "c03HandDoc (harness/cmd/corr/c03x.go)"}
		var f *lp.PropFail
		switch {
		case strings.Contains(out, "panic="):
			f = &lp.PropFail{Property: "C03", What: "server panics while decoding a body", Input: in, Observed: out, Expected: "400 or handler"}
		case c.valid && !accepted:
			f = &lp.PropFail{Property: "C03", What: "a valid document is refused (hand-written verdict)", Input: in, Observed: out, Expected: "handler invoked"}
		case !c.valid && !refused:
			f = &lp.PropFail{Property: "C03", What: "an invalid document reaches the handler (hand-written verdict)", Input: in, Observed: out, Expected: "400, handler not invoked"}
		}
		if f == nil {
			continue
		}
		if c.class != "" && (!c.valid && accepted || c.valid && refused) {
			f.Class = c.class
			r.Known(*f)
			continue
		}
		r.Fail(*f)
	}
}

// the allOf merge of numeric bounds against the Lean model BoundM (driver tag bmerge): every combination of
// absent / inclusive / exclusive bounds on a small grid, equal bounds, and bounds beyond 2^53 (where a comparison
// through float64 no longer tells neighbours apart)
func c03BoundMerge(r *lp.Run, rng *lp.Rand) {
	vals := []string{"", "0", "5", "10", "-3", "9007199254740992", "9007199254740993", "-9007199254740993", "9223372036854775807"}
	flag := func(b bool) string {
		if b {
			return "1"
		}
		return "0"
	}
	dash := func(s string) string {
		if s == "" {
			return "-"
		}
		return s
	}
	one := func(mx1 string, e1 bool, mn1 string, f1 bool, mx2 string, e2 bool, mn2 string, f2 bool) {
		out := lp.Guard(func() string {
			mx, ex, mn, fx, err := gen.VerifMergeBounds(mx1, e1, mn1, f1, mx2, e2, mn2, f2)
			if err != nil {
				return "err"
			}
			return dash(mx) + " " + flag(ex) + " " + dash(mn) + " " + flag(fx)
		})
		line := strings.Join([]string{dash(mx1), flag(e1), dash(mn1), flag(f1), dash(mx2), flag(e2), dash(mn2), flag(f2)}, " ")
		r.Case("bmerge", line, out, "bmerge", mx1 != "" && mx2 != "" || mn1 != "" && mn2 != "")
	}
	// upper bounds exhaustively on the grid (lower side absent), then the mirror image, then random mixtures
	for _, a := range vals {
		for _, b := range vals {
			for m := 0; m < 4; m++ {
				one(a, m&1 != 0, "", false, b, m&2 != 0, "", false)
				one("", false, a, m&1 != 0, "", false, b, m&2 != 0)
			}
		}
	}
	for i := 0; i < r.N(2000, 30000); i++ {
		p := func() string {
			if rng.Chance(20) {
				return ""
			}
			if rng.Chance(25) {
				return lp.Pick(rng, vals[1:])
			}
			return fmt.Sprint(rng.Intn(21) - 10)
		}
		one(p(), rng.Bool(), p(), rng.Bool(), p(), rng.Bool(), p(), rng.Bool())
	}
}

// the allOf merge of count keywords against the Lean model (driver tag cmerge)
func c03CountMerge(r *lp.Run, rng *lp.Rand) {
	vals := []int64{-1, 0, 1, 2, 5, 1 << 40}
	show := func(v int64) string {
		if v < 0 {
			return "-"
		}
		return fmt.Sprint(v)
	}
	for _, kind := range []string{"length", "items", "properties"} {
		for _, a := range vals {
			for _, b := range vals {
				for _, c := range vals {
					for _, d := range vals {
						out := lp.Guard(func() string {
							mn, mx, err := gen.VerifMergeCounts(kind, a, b, c, d)
							if err != nil {
								return "err"
							}
							return show(mn) + " " + show(mx)
						})
						r.Case("cmerge", strings.Join([]string{show(a), show(b), show(c), show(d)}, " "), out, "cmerge:"+kind, a >= 0 && c >= 0 || b >= 0 && d >= 0)
					}
				}
			}
		}
	}
	r.Exhaustive("allOf count merge", map[string]any{"kinds": 3, "grid": "6^4 per kind"})
}

// the allOf merge of enum lists against the Lean model (driver tag emerge): values are small integers, strings,
// booleans, null, a float and nested values, numbered by their DeepEqual class
func c03EnumMerge(r *lp.Run, rng *lp.Rand) {
	pool := []any{nil, "a", "b", "", int64(1), int64(2), float64(1.5), true, false, []any{int64(1)}, map[string]any{"k": "v"}, "1"}
	id := func(v any) int {
		for i, p := range pool {
			if reflect.DeepEqual(p, v) {
				return i
			}
		}
		return -1
	}
	show := func(ids []int) string {
		if len(ids) == 0 {
			return "-"
		}
		s := make([]string, len(ids))
		for i, x := range ids {
			s[i] = fmt.Sprint(x)
		}
		return strings.Join(s, ",")
	}
	one := func(a, b []int) {
		mk := func(ids []int) []any {
			var out []any
			for _, i := range ids {
				out = append(out, pool[i])
			}
			return out
		}
		out := lp.Guard(func() string {
			m, err := gen.VerifMergeEnums(mk(a), mk(b))
			if err != nil {
				return "refused"
			}
			ids := make([]int, len(m))
			for i, v := range m {
				ids[i] = id(v)
			}
			return show(ids)
		})
		r.Case("emerge", show(a)+" "+show(b), out, fmt.Sprintf("emerge:%d:%d:%v", min(len(a), 3), min(len(b), 3), out == "refused"), len(a) > 0 && len(b) > 0)
	}
	// every pair of duplicate-free lists of length ≤ 2 over the first 5 values, in both orders
	var small [][]int
	small = append(small, nil)
	for i := 0; i < 5; i++ {
		small = append(small, []int{i})
		for j := 0; j < 5; j++ {
			if i != j {
				small = append(small, []int{i, j})
			}
		}
	}
	for _, a := range small {
		for _, b := range small {
			one(a, b)
		}
	}
	for i := 0; i < r.N(3000, 40000); i++ {
		gen1 := func() []int {
			n := rng.Intn(6)
			perm := rng.Perm(len(pool))
			return append([]int{}, perm[:n]...)
		}
		one(gen1(), gen1())
	}
}

// the allOf merge of properties and required lists against the Lean model (driver tag pmerge)
func c03PropMerge(r *lp.Run, rng *lp.Rand) {
	show := func(ps []gen.VerifProp) string {
		if len(ps) == 0 {
			return "-"
		}
		s := make([]string, len(ps))
		for i, p := range ps {
			f := "0"
			if p.Required {
				f = "1"
			}
			s[i] = strings.TrimPrefix(p.Name, "n") + ":" + f
		}
		return strings.Join(s, ",")
	}
	showReq := func(req []string) string {
		if len(req) == 0 {
			return "-"
		}
		s := make([]string, len(req))
		for i, n := range req {
			s[i] = strings.TrimPrefix(n, "n")
		}
		return strings.Join(s, ",")
	}
	for i := 0; i < r.N(6000, 60000); i++ {
		member := func() ([]gen.VerifProp, []string) {
			perm := rng.Perm(6)
			n := rng.Intn(5)
			var ps []gen.VerifProp
			var req []string
			for _, k := range perm[:n] {
				p := gen.VerifProp{Name: fmt.Sprintf("n%d", k)}
				// mostly parser-consistent (flag ⇔ listed), sometimes a flag without a listing or a listing alone
				switch rng.Intn(6) {
				case 0, 1:
					p.Required = true
					req = append(req, p.Name)
				case 2:
					p.Required = true
				case 3:
					req = append(req, p.Name)
				}
				ps = append(ps, p)
			}
			if rng.Chance(25) { // a name that this member does not declare (the other may)
				req = append(req, fmt.Sprintf("n%d", rng.Intn(7)))
			}
			return ps, req
		}
		p1, r1 := member()
		p2, r2 := member()
		out := lp.Guard(func() string {
			m, err := gen.VerifMergeProperties(p1, r1, p2, r2)
			if err != nil {
				return "err " + err.Error()
			}
			return show(m)
		})
		shared := 0
		for _, a := range p1 {
			for _, b := range p2 {
				if a.Name == b.Name {
					shared++
				}
			}
		}
		r.Case("pmerge", show(p1)+" "+showReq(r1)+" "+show(p2)+" "+showReq(r2), out, fmt.Sprintf("pmerge:shared%d", min(shared, 2)), len(p1) > 0 && len(p2) > 0)
	}
}

// an allOf of 1–5 object members against the Lean model (driver tag nmerge): the left fold with the union of the
// required lists carried along (fix 944cde35)
func c03NMerge(r *lp.Run, rng *lp.Rand) {
	for i := 0; i < r.N(6000, 60000); i++ {
		n := 1 + rng.Intn(5)
		members := make([]gen.VerifMember, n)
		parts := make([]string, n)
		early := false // a name required by a member before the one that declares it
		declared := map[string]bool{}
		for k := range members {
			perm := rng.Perm(7)
			var ps []gen.VerifProp
			var req []string
			for _, x := range perm[:rng.Intn(4)] {
				p := gen.VerifProp{Name: fmt.Sprintf("n%d", x)}
				if rng.Chance(35) {
					p.Required = true
					req = append(req, p.Name)
				}
				ps = append(ps, p)
			}
			for _, x := range perm[4:][:rng.Intn(3)] { // names this member requires without declaring them
				name := fmt.Sprintf("n%d", x)
				req = append(req, name)
				if !declared[name] {
					early = true
				}
			}
			for _, p := range ps {
				declared[p.Name] = true
			}
			members[k] = gen.VerifMember{Props: ps, Required: req}
			var a, b []string
			for _, p := range ps {
				f := "0"
				if p.Required {
					f = "1"
				}
				a = append(a, strings.TrimPrefix(p.Name, "n")+":"+f)
			}
			for _, q := range req {
				b = append(b, strings.TrimPrefix(q, "n"))
			}
			dash := func(l []string) string {
				if len(l) == 0 {
					return "-"
				}
				return strings.Join(l, ",")
			}
			parts[k] = dash(a) + "/" + dash(b)
		}
		out := lp.Guard(func() string {
			m, err := gen.VerifMergeNProperties(members)
			if err != nil {
				return "err " + err.Error()
			}
			if len(m) == 0 {
				return "-"
			}
			s := make([]string, len(m))
			for i, p := range m {
				f := "0"
				if p.Required {
					f = "1"
				}
				s[i] = strings.TrimPrefix(p.Name, "n") + ":" + f
			}
			return strings.Join(s, ",")
		})
		r.Case("nmerge", strings.Join(parts, ";"), out, fmt.Sprintf("nmerge:%d:early=%v", n, early), n >= 3 && early)
	}
}
