package main

import (
	"fmt"
	"strings"

	"github.com/ogen-go/ogen/gen"

	"verifharness/internal/gc"
	"verifharness/internal/lp"
)

// hand-written schemas with hand-written verdicts (JSON Schema as OpenAPI 3.0 reads it); the two recorded
// deviations K19 / K20 are classified by the exact (operation, instance) pair, everything else here must agree
const c03HandDoc = `{"openapi":"3.0.3","info":{"title":"t","version":"1"},"paths":{
 "/nul":{"post":{"operationId":"nul","requestBody":{"required":true,"content":{"application/json":{"schema":{"allOf":[{"type":"string","nullable":true},{"type":"string","minLength":1}]}}}},"responses":{"200":{"description":"ok"}}}},
 "/ghost":{"post":{"operationId":"ghost","requestBody":{"required":true,"content":{"application/json":{"schema":{"type":"object","required":["ghost"],"properties":{"a":{"type":"integer"}}}}}},"responses":{"200":{"description":"ok"}}}},
 "/xmax":{"post":{"operationId":"xmax","requestBody":{"required":true,"content":{"application/json":{"schema":{"allOf":[{"type":"integer","maximum":10,"exclusiveMaximum":true},{"type":"integer","minimum":0}]}}}},"responses":{"200":{"description":"ok"}}}},
 "/xmin":{"post":{"operationId":"xmin","requestBody":{"required":true,"content":{"application/json":{"schema":{"allOf":[{"type":"integer","minimum":5,"exclusiveMinimum":true},{"type":"integer","minimum":10}]}}}},"responses":{"200":{"description":"ok"}}}},
 "/xeq":{"post":{"operationId":"xeq","requestBody":{"required":true,"content":{"application/json":{"schema":{"allOf":[{"type":"number","maximum":7},{"type":"number","maximum":7,"exclusiveMaximum":true},{"type":"number","minimum":-1,"exclusiveMinimum":true},{"type":"number","minimum":-3}]}}}},"responses":{"200":{"description":"ok"}}}},
 "/both":{"post":{"operationId":"both","requestBody":{"required":true,"content":{"application/json":{"schema":{"oneOf":[{"$ref":"#/components/schemas/Cat"},{"$ref":"#/components/schemas/Dog"}]}}}},"responses":{"200":{"description":"ok"}}}},
 "/zero":{"post":{"operationId":"zero","requestBody":{"required":true,"content":{"application/json":{"schema":{"type":"object","properties":{"s":{"type":"string","maxLength":0},"a":{"type":"array","items":{"type":"integer"},"maxItems":0},"m":{"type":"object","additionalProperties":{"type":"integer"},"maxProperties":0}}}}}},"responses":{"200":{"description":"ok"}}}}
},"components":{"schemas":{
 "Cat":{"type":"object","required":["meow"],"properties":{"meow":{"type":"string"}}},
 "Dog":{"type":"object","required":["bark"],"properties":{"bark":{"type":"string"}}}}}}`

var c03HandCases = []struct {
	op, body string
	valid    bool
	class    string
}{
	{"nul", `"ab"`, true, ""}, {"nul", `""`, false, ""}, {"nul", `null`, false, "K19"},
	{"ghost", `{"a":1,"ghost":2}`, true, ""}, {"ghost", `{"a":1}`, false, "K20"}, {"ghost", `{}`, false, "K20"}, {"ghost", `{"a":"x","ghost":1}`, false, ""},
	{"xmax", `9`, true, ""}, {"xmax", `10`, false, ""}, {"xmax", `0`, true, ""}, {"xmax", `-1`, false, ""}, {"xmax", `11`, false, ""},
	{"xmin", `10`, true, ""}, {"xmin", `9`, false, ""}, {"xmin", `6`, false, ""}, {"xmin", `5`, false, ""}, {"xmin", `11`, true, ""},
	{"xeq", `7`, false, ""}, {"xeq", `6.5`, true, ""}, {"xeq", `-1`, false, ""}, {"xeq", `-0.5`, true, ""}, {"xeq", `-3`, false, ""}, {"xeq", `8`, false, ""},
	{"both", `{"meow":"m"}`, true, ""}, {"both", `{"bark":"b"}`, true, ""}, {"both", `{"meow":"m","bark":"b"}`, false, ""}, {"both", `{}`, false, ""}, {"both", `{"purr":1}`, false, ""},
	{"zero", `{}`, true, ""}, {"zero", `{"s":"","a":[],"m":{}}`, true, ""}, {"zero", `{"s":"x"}`, false, ""}, {"zero", `{"a":[1]}`, false, ""}, {"zero", `{"m":{"k":1}}`, false, ""},
}

func c03HandAdd(r *lp.Run, mod *gc.Module) *gc.Pkg {
	pkg, err := mod.Add("bhand", []byte(c03HandDoc), gen.Options{})
	if err != nil {
		r.Fail(lp.PropFail{Property: "C03", What: "the generator refuses the hand-written schema spec", Input: c03HandDoc, Observed: err.Error(), Expected: "generated package"})
		return nil
	}
	return pkg
}

func c03Hand(r *lp.Run, drv *gc.Driver, pkg *gc.Pkg) {
	if pkg == nil {
		return
	}
	items := make([][3]string, len(c03HandCases))
	for i, c := range c03HandCases {
		items[i] = [3]string{"POST", "/" + c.op, c.body}
	}
	ans, _ := drv.Do(map[string]any{"pkg": pkg.Name, "cmd": "postbatch", "items": items, "text": "why"})
	res, ok := ans["results"].([]any)
	if !ok {
		r.Fail(lp.PropFail{Property: "C03", What: "driver failure", Input: pkg.Name, Observed: fmt.Sprint(ans), Expected: "results"})
		return
	}
	for i, x := range res {
		c := c03HandCases[i]
		out := fmt.Sprint(x)
		accepted := strings.HasPrefix(out, "501 h1")
		refused := strings.HasPrefix(out, "400 h0")
		r.PropCheck()
		r.Count("hand "+c.op+c.body, fmt.Sprintf("hand:%v:%s", c.valid, strings.SplitN(out, " ", 2)[0]), true)
		in := map[string]any{"operation": c.op, "instance": c.body, "document": "c03HandDoc (harness/cmd/corr/c03x.go)"}
		var f *lp.PropFail
		switch {
		case strings.Contains(out, "panic="):
			f = &lp.PropFail{Property: "C03", What: "server panics while decoding a body", Input: in, Observed: out, Expected: "400 or handler"}
		case c.valid && !accepted:
			f = &lp.PropFail{Property: "C03", What: "a valid document is refused (hand-written verdict)", Input: in, Observed: out, Expected: "handler invoked"}
		case !c.valid && !refused:
			f = &lp.PropFail{Property: "C03", What: "an invalid document reaches the handler (hand-written verdict)", Input: in, Observed: out, Expected: "400, handler not invoked"}
		}
		if f == nil {
			continue
		}
		if c.class != "" && !c.valid && accepted {
			f.Class = c.class
			r.Known(*f)
			continue
		}
		r.Fail(*f)
	}
}

// the allOf merge of numeric bounds against the Lean model BoundM (driver tag bmerge): every combination of
// absent / inclusive / exclusive bounds on a small grid, equal bounds, and bounds beyond 2^53 (where a comparison
// through float64 no longer tells neighbours apart)
func c03BoundMerge(r *lp.Run, rng *lp.Rand) {
	vals := []string{"", "0", "5", "10", "-3", "9007199254740992", "9007199254740993", "-9007199254740993", "9223372036854775807"}
	flag := func(b bool) string {
		if b {
			return "1"
		}
		return "0"
	}
	dash := func(s string) string {
		if s == "" {
			return "-"
		}
		return s
	}
	one := func(mx1 string, e1 bool, mn1 string, f1 bool, mx2 string, e2 bool, mn2 string, f2 bool) {
		out := lp.Guard(func() string {
			mx, ex, mn, fx, err := gen.VerifMergeBounds(mx1, e1, mn1, f1, mx2, e2, mn2, f2)
			if err != nil {
				return "err"
			}
			return dash(mx) + " " + flag(ex) + " " + dash(mn) + " " + flag(fx)
		})
		line := strings.Join([]string{dash(mx1), flag(e1), dash(mn1), flag(f1), dash(mx2), flag(e2), dash(mn2), flag(f2)}, " ")
		r.Case("bmerge", line, out, "bmerge", mx1 != "" && mx2 != "" || mn1 != "" && mn2 != "")
	}
	// upper bounds exhaustively on the grid (lower side absent), then the mirror image, then random mixtures
	for _, a := range vals {
		for _, b := range vals {
			for m := 0; m < 4; m++ {
				one(a, m&1 != 0, "", false, b, m&2 != 0, "", false)
				one("", false, a, m&1 != 0, "", false, b, m&2 != 0)
			}
		}
	}
	for i := 0; i < r.N(2000, 30000); i++ {
		p := func() string {
			if rng.Chance(20) {
				return ""
			}
			if rng.Chance(25) {
				return lp.Pick(rng, vals[1:])
			}
			return fmt.Sprint(rng.Intn(21) - 10)
		}
		one(p(), rng.Bool(), p(), rng.Bool(), p(), rng.Bool(), p(), rng.Bool())
	}
}

// the allOf merge of count keywords against the Lean model (driver tag cmerge)
func c03CountMerge(r *lp.Run, rng *lp.Rand) {
	vals := []int64{-1, 0, 1, 2, 5, 1 << 40}
	show := func(v int64) string {
		if v < 0 {
			return "-"
		}
		return fmt.Sprint(v)
	}
	for _, kind := range []string{"length", "items", "properties"} {
		for _, a := range vals {
			for _, b := range vals {
				for _, c := range vals {
					for _, d := range vals {
						out := lp.Guard(func() string {
							mn, mx, err := gen.VerifMergeCounts(kind, a, b, c, d)
							if err != nil {
								return "err"
							}
							return show(mn) + " " + show(mx)
						})
						r.Case("cmerge", strings.Join([]string{show(a), show(b), show(c), show(d)}, " "), out, "cmerge:"+kind, a >= 0 && c >= 0 || b >= 0 && d >= 0)
					}
				}
			}
		}
	}
	r.Exhaustive("allOf count merge", map[string]any{"kinds": 3, "grid": "6^4 per kind"})
}
