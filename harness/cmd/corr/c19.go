package main

// C19 — one generated client and one generated server used by many goroutines at once.
//
// Tie of the non-interference model (lean/Ogen/Concurrency_proof.lean): the model's premise — no step writes
// shared state — is a regenerated fact (Facts_conc: writes through package-level variables outside init, in
// the generated package and the runtime packages). This suite is the search for a failing schedule: servers and
// clients regenerated from the working tree, compiled with the race detector, driven by many goroutines with
// mixed operations (regex- and multipleOf-validated parameters and bodies through both regex engines, sums,
// form and streamed bodies, failing requests, handler failures); every outcome is compared with the outcome of
// the same call run alone.

import (
	"bytes"
	"encoding/json"
	"fmt"
	"os"
	"path/filepath"
	"strings"
	"time"

	"github.com/ogen-go/ogen/gen"

	"verifharness/internal/gc"
	"verifharness/internal/lp"
)

func init() { suites["c19"] = c19 }

const c19Doc = `{
 "openapi": "3.0.3", "info": {"title": "stress", "version": "1"},
 "paths": {
  "/items/{id}": {
   "get": {"operationId": "getItem",
    "parameters": [
     {"name": "id", "in": "path", "required": true, "schema": {"type": "string", "pattern": "^[a-z0-9]+$"}},
     {"name": "q", "in": "query", "schema": {"type": "integer", "minimum": 0, "maximum": 1000}},
     {"name": "tags", "in": "query", "schema": {"type": "array", "items": {"type": "string", "maxLength": 8}}},
     {"name": "X-Tag", "in": "header", "schema": {"type": "string", "pattern": "^(?=a)[a-z]+$"}},
     {"name": "sid", "in": "cookie", "schema": {"type": "string"}},
     {"name": "step", "in": "query", "schema": {"type": "number", "multipleOf": 0.25}},
     {"name": "code", "in": "query", "schema": {"type": "string", "pattern": "^(?!ab)[a-z]+$"}},
     {"name": "word", "in": "query", "schema": {"type": "string", "pattern": "^(?=.*c)[a-z]+$"}}
    ],
    "responses": {"200": {"description": "ok", "content": {"application/json": {"schema": {"$ref": "#/components/schemas/Echo"}}}}}
   }
  },
  "/items": {
   "post": {"operationId": "postItem",
    "requestBody": {"required": true, "content": {"application/json": {"schema": {"$ref": "#/components/schemas/Item"}}}},
    "responses": {"200": {"description": "ok", "content": {"application/json": {"schema": {"$ref": "#/components/schemas/Echo"}}}}}
   }
  },
  "/pets": {
   "post": {"operationId": "postPet",
    "requestBody": {"required": true, "content": {"application/json": {"schema": {"$ref": "#/components/schemas/Pet"}}}},
    "responses": {"200": {"description": "ok", "content": {"application/json": {"schema": {"$ref": "#/components/schemas/Echo"}}}}}
   }
  },
  "/form": {
   "post": {"operationId": "postForm",
    "requestBody": {"required": true, "content": {"application/x-www-form-urlencoded": {"schema": {"$ref": "#/components/schemas/FormBody"}}}},
    "responses": {"200": {"description": "ok", "content": {"application/json": {"schema": {"$ref": "#/components/schemas/Echo"}}}}}
   }
  },
  "/blob": {
   "post": {"operationId": "postBlob",
    "requestBody": {"required": true, "content": {"application/octet-stream": {"schema": {"type": "string", "format": "binary"}}}},
    "responses": {"200": {"description": "ok", "content": {"application/json": {"schema": {"$ref": "#/components/schemas/Echo"}}}}}
   }
  }
 },
 "components": {"schemas": {
  "Echo": {"type": "object", "required": ["echo"], "properties": {"echo": {"type": "string"}}},
  "Item": {"type": "object", "required": ["name"], "properties": {
    "name": {"type": "string", "pattern": "^[A-Za-z ]+$", "minLength": 1, "maxLength": 40},
    "price": {"type": "number", "multipleOf": 0.25, "minimum": 0},
    "count": {"type": "integer", "multipleOf": 3},
    "tags": {"type": "array", "uniqueItems": true, "maxItems": 6, "items": {"type": "string", "pattern": "^(?!x)\\w+$"}},
    "note": {"type": "string", "nullable": true},
    "attrs": {"type": "object", "additionalProperties": {"type": "string", "pattern": "^v"}}
  }},
  "Cat": {"type": "object", "required": ["meow"], "properties": {"meow": {"type": "string", "minLength": 2}}},
  "Dog": {"type": "object", "required": ["bark"], "properties": {"bark": {"type": "integer", "maximum": 9}}},
  "Pet": {"oneOf": [{"$ref": "#/components/schemas/Cat"}, {"$ref": "#/components/schemas/Dog"}]},
  "FormBody": {"type": "object", "required": ["a"], "properties": {"a": {"type": "string", "pattern": "^[a-f]+$"}, "b": {"type": "integer", "minimum": 1}}}
 }}
}`

func c19Items(rng *lp.Rand, n int) []map[string]any {
	str := func(s string) *string { return &s }
	var items []map[string]any
	raw := func(method, path, query, ctype string, body *string, hdr map[string][]string) {
		it := map[string]any{"kind": "raw", "method": method, "path": path, "query": query}
		h := map[string][]string{}
		for k, v := range hdr {
			h[k] = v
		}
		if ctype != "" {
			h["Content-Type"] = []string{ctype}
		}
		it["header"] = h
		if body != nil {
			it["body"] = *body
		}
		items = append(items, it)
	}
	word := func(alpha string, min, max int) string {
		l := min + rng.Intn(max-min+1)
		b := make([]byte, l)
		for i := range b {
			b[i] = alpha[rng.Intn(len(alpha))]
		}
		return string(b)
	}
	// one small pool of values for every member validated by a look-around pattern: the patterns disagree on
	// them (`^(?=a)[a-z]+$`, `^(?!x)\w+$`, `^(?!ab)[a-z]+$`, `^(?=.*c)[a-z]+$`), so a verdict that leaks from one
	// pattern (or one request) to another changes an outcome
	pool := []string{"abc", "xab", "bcd", "axe", "acx", "xc", "ab", "ca", "b"}
	for i := 0; i < n; i++ {
		switch rng.Intn(9) {
		case 0, 1: // getItem, mostly valid
			id := word("abcxyz019", 1, 12)
			if rng.Chance(12) {
				id = "BAD_" + id // pattern violation → 400
			}
			q := fmt.Sprintf("q=%d&step=%v", rng.Intn(1050), []string{"0.25", "1.5", "0.3", "7", "2.75", "10.5", "0.75"}[rng.Intn(7)])
			for k := rng.Intn(3); k > 0; k-- {
				q += "&tags=" + word("abc", 1, 8+rng.Intn(10)/9)
			}
			h := map[string][]string{}
			if rng.Chance(70) {
				h["X-Tag"] = []string{"a" + word("ab", 0, 5)}
				if rng.Chance(10) {
					h["X-Tag"] = []string{"b" + word("ab", 0, 5)}
				}
			}
			if rng.Chance(50) {
				h["Cookie"] = []string{"sid=" + word("abcdef0123456789", 4, 20)}
			}
			if rng.Chance(50) {
				h["X-Tag"] = []string{lp.Pick(rng, pool)}
				q += "&code=" + lp.Pick(rng, pool) + "&word=" + lp.Pick(rng, pool)
			}
			raw("GET", "/items/"+id, q, "", nil, h)
		case 2, 3: // postItem
			item := map[string]any{"name": word("abc XYZ", 1, 30)}
			if rng.Chance(70) {
				item["price"] = []any{0.25, 1.5, 10, 0.3, 2.75, -1, 4, 99.75, 0.5}[rng.Intn(9)]
			}
			if rng.Chance(50) {
				item["count"] = []any{3, 9, 10, 0, -6, 300, 12}[rng.Intn(7)]
			}
			if rng.Chance(60) {
				tags := []any{}
				for k := rng.Intn(5); k > 0; k-- {
					tags = append(tags, word("ab_c", 1, 5)+fmt.Sprint(len(tags)))
					if rng.Chance(8) {
						tags = append(tags, "x"+word("ab", 1, 3))
					}
				}
				item["tags"] = tags
				if rng.Chance(40) {
					item["tags"] = []any{lp.Pick(rng, pool)}
				}
			}
			if rng.Chance(30) {
				item["note"] = nil
			}
			if rng.Chance(40) {
				item["attrs"] = map[string]any{word("kq", 1, 3): "v" + word("abc", 0, 4), word("kq", 1, 3): "v" + word("vw", 0, 3)}
				if rng.Chance(10) {
					item["attrs"].(map[string]any)["bad"] = "w"
				}
			}
			if rng.Chance(5) {
				item["name"] = "FAILME " + word("abc", 1, 5) // handler failure → 500
			}
			b, _ := json.Marshal(item)
			body := string(b)
			if rng.Chance(8) {
				body = body[:len(body)/2] // truncated JSON → 400
			}
			if rng.Bool() {
				raw("POST", "/items", "", "application/json", &body, nil)
			} else {
				items = append(items, map[string]any{"kind": "call", "op": "PostItem", "req_json": string(b), "override": rng.Bool()})
			}
		case 4: // pet (sum)
			var pet map[string]any
			switch rng.Intn(4) {
			case 0:
				pet = map[string]any{"meow": word("mew", 1, 6)}
			case 1:
				pet = map[string]any{"bark": rng.Intn(14)}
			case 2:
				pet = map[string]any{"meow": "mm", "bark": 1}
			default:
				pet = map[string]any{"purr": true}
			}
			b, _ := json.Marshal(pet)
			raw("POST", "/pets", "", "application/json", str(string(b)), nil)
		case 5: // form
			body := "a=" + word("abcdef", 1, 8) + "&b=" + fmt.Sprint(1+rng.Intn(5))
			if rng.Chance(20) {
				body = "a=" + word("abcxyz", 1, 8) + "&b=" + fmt.Sprint(rng.Intn(3))
			}
			raw("POST", "/form", "", "application/x-www-form-urlencoded", &body, nil)
		case 6: // blob: bodies of very different sizes
			sz := []int{0, 1, 17, 4096, 70000, 300000}[rng.Intn(6)]
			b := make([]byte, sz)
			x := byte(rng.Intn(256))
			for i := range b {
				b[i] = x + byte(i*7)
			}
			raw("POST", "/blob", "", "application/octet-stream", str(string(b)), nil)
		case 7: // client call with parameters
			params := map[string]any{"ID": word("abcxyz019", 1, 10)}
			if rng.Chance(60) {
				params["Q"] = rng.Intn(1000)
			}
			if rng.Chance(60) {
				params["XTag"] = "a" + word("ab", 0, 5)
			}
			if rng.Chance(40) {
				params["Sid"] = word("abcdef", 3, 12)
			}
			if rng.Chance(40) {
				params["Tags"] = []any{word("abc", 1, 8), word("abc", 1, 8)}
			}
			if rng.Chance(50) {
				params["XTag"], params["Code"], params["Word"] = lp.Pick(rng, pool), lp.Pick(rng, pool), lp.Pick(rng, pool)
			}
			items = append(items, map[string]any{"kind": "call", "op": "GetItem", "params": params, "override": rng.Bool()})
		case 8: // routing and method failures
			switch rng.Intn(3) {
			case 0:
				raw("GET", "/nowhere/"+word("abc", 1, 5), "", "", nil, nil)
			case 1:
				raw("DELETE", "/items", "", "", nil, nil)
			default:
				body := "{}"
				raw("POST", "/items", "", "text/plain", &body, nil)
			}
		}
	}
	return items
}

func c19(r *lp.Run) {
	r.SetRule("every call made by many goroutines at once on one regenerated server and one regenerated client has the outcome it has when run alone; the race detector reports nothing")
	scratch := os.Getenv("VERIF_SCRATCH")
	if scratch == "" {
		scratch = "/var/tmp"
	}
	mod, err := gc.NewModule(filepath.Join(scratch, fmt.Sprintf("gc-c19-%d", os.Getpid())))
	if err != nil {
		panic(err)
	}
	defer os.RemoveAll(mod.Dir)
	mod.Race = true
	type pk struct {
		name string
		opts gen.Options
	}
	allf := gen.FeatureSet{}
	for _, f := range gen.AllFeatures {
		if f.Name != "debug/example_tests" {
			_ = allf.Enable(f.Name)
		}
	}
	pkgsToBuild := []pk{
		{"stress", gen.Options{Generator: gen.GenerateOptions{ConvenientErrors: gen.ConvenientErrors(-1)}}},
		{"stressall", gen.Options{Generator: gen.GenerateOptions{ConvenientErrors: gen.ConvenientErrors(-1), Features: &gen.FeatureOptions{DisableAll: true, Enable: allf}}}},
	}
	for _, p := range pkgsToBuild {
		if _, err := mod.Add(p.name, []byte(c19Doc), p.opts); err != nil {
			r.Fail(lp.PropFail{Property: "C19", What: "the stress document is not generated by the working tree's generator", Input: p.name, Observed: err.Error(), Expected: "generated"})
			return
		}
	}
	bin, err := mod.Build()
	if err != nil {
		r.Fail(lp.PropFail{Property: "C19", What: "regenerated server/client do not build with the race detector", Input: "stress document", Observed: trunc200(err.Error()), Expected: "builds"})
		return
	}
	var stderr bytes.Buffer
	drv, err := gc.StartWith(bin, &stderr, "GORACE=halt_on_error=0 history_size=3", "GOMAXPROCS=16")
	if err != nil {
		panic(err)
	}
	drv.Timeout = 600 * time.Second
	defer drv.Close()
	totalCalls := 0
	rounds := r.N(3, 12)
	for round := 0; round < rounds; round++ {
		for _, p := range pkgsToBuild {
			items := c19Items(r.Rng.Fork(uint64(round)), r.N(160, 400))
			for _, procs := range []int{16} {
				_ = procs
				ans, _ := drv.Do(map[string]any{"pkg": p.name, "cmd": "stress", "value": map[string]any{
					"items": items, "goroutines": r.N(12, 24), "rounds": r.N(3, 6), "echo_type": "Echo"}})
				r.PropCheck()
				if c, ok := ans["crash"]; ok {
					r.Fail(lp.PropFail{Property: "C19", What: "the driver crashed or hung during concurrent calls", Input: map[string]any{"package": p.name, "round": round}, Observed: fmt.Sprint(c) + " " + trunc200(stderr.String()), Expected: "all calls answered"})
					continue
				}
				if e, ok := ans["error"]; ok {
					r.Fail(lp.PropFail{Property: "C19", What: "stress setup failed", Input: p.name, Observed: fmt.Sprint(e), Expected: "runs"})
					continue
				}
				alone, _ := ans["alone"].([]any)
				if dbg := os.Getenv("VERIF_C19_DEBUG"); dbg != "" && round == 0 {
					var sb strings.Builder
					for i, a := range alone {
						b, _ := json.Marshal(items[i])
						fmt.Fprintf(&sb, "%s\n  => %s\n", trunc200(string(b)), trunc200(fmt.Sprint(a)))
					}
					os.WriteFile(dbg+"-"+p.name, []byte(sb.String()), 0o644)
				}
				kinds := map[string]int{}
				for _, a := range alone {
					s := fmt.Sprint(a)
					k := s
					if i := strings.IndexByte(s, ' '); i > 0 {
						k = s[:i]
					}
					if strings.HasPrefix(s, "res") {
						k = "call-ok"
					} else if strings.HasPrefix(s, "err") {
						k = "call-err"
					}
					kinds[k]++
					r.Count(fmt.Sprintf("%s:%d:%s", p.name, round, s), "alone-"+k, true)
				}
				if kinds["200"] == 0 || kinds["400"] == 0 || kinds["call-ok"] == 0 {
					r.Fail(lp.PropFail{Property: "C19", What: "the stress mix is degenerate (no accepted, no refused or no client call): the comparison would be void", Input: kinds, Observed: fmt.Sprint(kinds), Expected: "200s, 400s and client results"})
				}
				if un, _ := ans["unstable"].([]any); len(un) > 0 {
					idx := 0
					fmt.Sscan(fmt.Sprint(un[0]), &idx)
					r.Fail(lp.PropFail{Property: "C19", What: "a call run alone twice gives two different outcomes (state leaks between sequential requests)", Input: items[idx], Observed: fmt.Sprint(alone[idx]), Expected: "the same outcome"})
				}
				var n int
				fmt.Sscan(fmt.Sprint(ans["concurrent_calls"]), &n)
				totalCalls += n
				if mm, _ := ans["mismatches"].([]any); len(mm) > 0 {
					m0, _ := mm[0].(map[string]any)
					idx := 0
					fmt.Sscan(fmt.Sprint(m0["item"]), &idx)
					r.Fail(lp.PropFail{Property: "C19", What: "the outcome of a call differs from its outcome when run alone", Input: map[string]any{"package": p.name, "item": items[idx], "mismatching_calls_reported": len(mm)}, Observed: trunc200(fmt.Sprint(m0["concurrent"])), Expected: trunc200(fmt.Sprint(m0["alone"]))})
				}
				for k, v := range kinds {
					r.Size("alone-" + k + fmt.Sprintf("x%d", v/20*20))
				}
			}
		}
	}
	drv.Close()
	out := stderr.String()
	races := strings.Count(out, "WARNING: DATA RACE")
	r.Exhaustive("stress", map[string]any{"concurrent_calls": totalCalls, "race_reports": races, "packages": len(pkgsToBuild), "rounds": rounds})
	r.PropCheck()
	if races > 0 {
		i := strings.Index(out, "WARNING: DATA RACE")
		rep := out[i:]
		if j := strings.Index(rep[20:], "=================="); j > 0 {
			rep = rep[:20+j]
		}
		var frames []string
		for _, l := range strings.Split(rep, "\n") {
			l = strings.TrimSpace(l)
			if strings.Contains(l, "ogen-go/ogen") || strings.Contains(l, "gcmod/") || strings.HasPrefix(l, "Write at") || strings.HasPrefix(l, "Read at") || strings.HasPrefix(l, "Previous") {
				if strings.Contains(l, "verifharness/gcrt") {
					continue
				}
				frames = append(frames, l)
			}
			if len(frames) > 14 {
				break
			}
		}
		r.Fail(lp.PropFail{Property: "C19", What: "data race reported while one server and one client were used concurrently", Input: map[string]any{"reports": races}, Observed: strings.Join(frames, " | "), Expected: "no data race"})
	}
	if totalCalls == 0 {
		r.Fail(lp.PropFail{Property: "C19", What: "no concurrent call completed", Input: "stress", Observed: trunc200(out), Expected: "calls"})
	}
}
