package main

import (
	"encoding/json"
	goerrors "errors"
	"fmt"
	"os"
	"path/filepath"
	"runtime/debug"
	"sort"
	"strings"
	"sync"
	"time"

	"github.com/go-faster/yaml"
	"github.com/ogen-go/ogen"
	"github.com/ogen-go/ogen/gen"
	"github.com/ogen-go/ogen/location"

	"verifharness/internal/lp"
)

func init() { suites["c11"] = c11 }

type memFS struct {
	mu    sync.Mutex
	n     int
	keep  bool
	files map[string][]byte
}

func (m *memFS) WriteFile(name string, content []byte) error {
	m.mu.Lock()
	m.n++
	if m.keep {
		if m.files == nil {
			m.files = map[string][]byte{}
		}
		m.files[name] = append([]byte(nil), content...)
	}
	m.mu.Unlock()
	return nil
}

type npath []any

func walkAny(v any, p npath, f func(p npath, v any)) {
	f(p, v)
	switch t := v.(type) {
	case map[string]any:
		keys := make([]string, 0, len(t))
		for k := range t {
			keys = append(keys, k)
		}
		sort.Strings(keys)
		for _, k := range keys {
			walkAny(t[k], append(append(npath{}, p...), k), f)
		}
	case []any:
		for i, e := range t {
			walkAny(e, append(append(npath{}, p...), i), f)
		}
	}
}

func setAt(root any, p npath, nv any, del bool) any {
	if len(p) == 0 {
		return nv
	}
	switch t := root.(type) {
	case map[string]any:
		k := p[0].(string)
		if len(p) == 1 && del {
			delete(t, k)
			return t
		}
		t[k] = setAt(t[k], p[1:], nv, del)
		return t
	case []any:
		i := p[0].(int)
		if i >= len(t) {
			return t
		}
		if len(p) == 1 && del {
			return append(t[:i:i], t[i+1:]...)
		}
		t[i] = setAt(t[i], p[1:], nv, del)
		return t
	}
	return root
}

func renameKeyAt(root any, p npath, newKey string) any {
	if len(p) == 0 {
		return root
	}
	var cur any = root
	for _, s := range p[:len(p)-1] {
		switch t := cur.(type) {
		case map[string]any:
			cur = t[s.(string)]
		case []any:
			cur = t[s.(int)]
		}
	}
	if m, ok := cur.(map[string]any); ok {
		if k, ok := p[len(p)-1].(string); ok {
			m[newKey] = m[k]
			delete(m, k)
		}
	}
	return root
}

func joinPtr(p npath) string {
	parts := []string{}
	for _, s := range p {
		parts = append(parts, strings.ReplaceAll(strings.ReplaceAll(fmt.Sprint(s), "~", "~0"), "/", "~1"))
	}
	return strings.Join(parts, "/")
}

type genOutcome struct {
	kind   string // ok parse-err gen-err write-err unparsable panic timeout
	msg    string
	where  string // first ogen frame of a panic
	hasLoc bool
}

func runGenerator(data []byte) genOutcome {
	done := make(chan genOutcome, 1)
	go func() {
		defer func() {
			if r := recover(); r != nil {
				st := string(debug.Stack())
				loc := ""
				lines := strings.Split(st, "\n")
				for i, l := range lines {
					if strings.Contains(l, "github.com/ogen-go/ogen") && !strings.Contains(l, "verifharness") && i+1 < len(lines) {
						fn := strings.TrimSpace(l)
						if j := strings.LastIndex(fn, "("); j > 0 {
							fn = fn[:j]
						}
						loc = fn
						break
					}
				}
				done <- genOutcome{kind: "panic", msg: fmt.Sprint(r), where: loc}
			}
		}()
		spec, err := ogen.Parse(data)
		if err != nil {
			done <- genOutcome{kind: "parse-err", msg: err.Error()}
			return
		}
		g, err := gen.NewGenerator(spec, gen.Options{})
		if err != nil {
			var le *location.Error
			hasLoc := goerrors.As(err, &le)
			done <- genOutcome{kind: "gen-err", msg: err.Error(), hasLoc: hasLoc}
			return
		}
		if err := g.WriteSource(&memFS{}, "api"); err != nil {
			msg := err.Error()
			if strings.Contains(msg, "goimports") || strings.Contains(msg, "format") {
				done <- genOutcome{kind: "unparsable", msg: msg}
				return
			}
			done <- genOutcome{kind: "write-err", msg: msg}
			return
		}
		done <- genOutcome{kind: "ok"}
	}()
	select {
	case o := <-done:
		return o
	case <-time.After(30 * time.Second):
		return genOutcome{kind: "timeout"}
	}
}

var hostileStrings = []string{"", "a\"b", "a\\b", "type", "0abc", "é", "a b", "a/b", "a~b", "%", "%zz", "a%61%", "{", "}", "{x", "\x00", "😀", "a\nb", "`", "${x}", "*/", "//", "-", "_", "func", "A.B", "a,b", "/a%61%", "/{a}{b}", "#/components/schemas/", "https://[::1"}

func c11(r *lp.Run) {
	r.SetRule("corpus specs from /repo/_testdata (positive + examples, smallest first) with single-fault mutations at sampled nodes — delete, null, retype (string, huge number, negative, list, map, bool), self-$ref, dangling $ref, hostile string, hostile key (quotes, backslashes, keywords, newlines, broken percent-escapes in path keys, adjacent parameters) — plus byte-level truncations and random byte strings, through ogen.Parse + gen.NewGenerator + WriteSource (in-memory) under recover and a 30 s watchdog; outcome must be success or an error, never a panic or a hang; unparsable template output is reported under C02. non-trivial = distinct mutation that gets past ogen.Parse")
	rng := r.Rng.Fork(11)
	repo := os.Getenv("VERIF_REPO")
	if repo == "" {
		repo = "/repo"
	}
	var files []string
	for _, pat := range []string{"_testdata/positive/*.json", "_testdata/positive/*.yml", "_testdata/positive/*.yaml", "_testdata/examples/*.json", "_testdata/examples/*.yml"} {
		m, _ := filepath.Glob(filepath.Join(repo, pat))
		files = append(files, m...)
	}
	sort.Slice(files, func(i, j int) bool {
		a, _ := os.Stat(files[i])
		b, _ := os.Stat(files[j])
		return a.Size() < b.Size()
	})
	var small []string
	for _, f := range files {
		st, _ := os.Stat(f)
		if st.Size() > 0 && st.Size() < 200000 {
			small = append(small, f)
		}
	}
	nFiles := r.N(6, 40)
	perFile := r.N(30, 250)
	// rotate by seed so that different runs see different specs
	if len(small) > nFiles {
		off := int(r.Seed) % len(small)
		small = append(small[off:], small[:off]...)
		small = small[:nFiles]
	}
	for _, f := range small {
		data, err := os.ReadFile(f)
		if err != nil {
			continue
		}
		var root any
		if err := yaml.Unmarshal(data, &root); err != nil {
			continue
		}
		base := filepath.Base(f)
		arrs, arrLens := arraysOf(root)
		var nodes []npath
		walkAny(root, nil, func(p npath, v any) {
			if len(p) > 0 {
				nodes = append(nodes, p)
			}
		})
		for i := len(nodes) - 1; i > 0; i-- {
			j := rng.Intn(i + 1)
			nodes[i], nodes[j] = nodes[j], nodes[i]
		}
		if len(nodes) > perFile {
			nodes = nodes[:perFile]
		}
		for _, p := range nodes {
			p := p
			muts := []struct {
				name string
				f    func(any) any
			}{
				{"delete", func(c any) any { return setAt(c, p, nil, true) }},
				{"null", func(c any) any { return setAt(c, p, nil, false) }},
				{"to-string", func(c any) any { return setAt(c, p, "x", false) }},
				{"to-huge", func(c any) any { return setAt(c, p, 1e30, false) }},
				{"to-neg", func(c any) any { return setAt(c, p, -1, false) }},
				{"to-list", func(c any) any { return setAt(c, p, []any{}, false) }},
				{"to-map", func(c any) any { return setAt(c, p, map[string]any{}, false) }},
				{"to-bool", func(c any) any { return setAt(c, p, true, false) }},
				{"self-ref", func(c any) any { return setAt(c, p, map[string]any{"$ref": "#/" + joinPtr(p)}, false) }},
				{"dangling-ref", func(c any) any { return setAt(c, p, map[string]any{"$ref": "#/nope/nope"}, false) }},
			}
			for _, m := range muts {
				c := m.f(cloneJSON(root))
				b, err := json.Marshal(c)
				if err != nil {
					continue
				}
				c11Judge(r, b, nil, fmt.Sprintf("%s: %s at /%s", base, m.name, joinPtr(p)))
			}
			// a reference one past the end of some array of the document
			if len(arrs) > 0 {
				k := rng.Intn(len(arrs))
				ref := "#/" + joinPtr(arrs[k]) + "/" + fmt.Sprint(arrLens[k])
				if b, err := json.Marshal(setAt(cloneJSON(root), p, map[string]any{"$ref": ref}, false)); err == nil {
					c11Judge(r, b, nil, fmt.Sprintf("%s: $ref %s (index = length) at /%s", base, ref, joinPtr(p)))
				}
			}
			// hostile strings and keys; one with a control character gets a twin without it (K13)
			for _, kind := range []string{"hostile-string", "hostile-key"} {
				h := lp.Pick(rng, hostileStrings)
				mk := func(h string) []byte {
					var c any
					if kind == "hostile-string" {
						c = setAt(cloneJSON(root), p, h, false)
					} else {
						c = renameKeyAt(cloneJSON(root), p, h)
					}
					b, _ := json.Marshal(c)
					return b
				}
				b := mk(h)
				if b == nil {
					continue
				}
				var twin []byte
				if hasControl(h) {
					twin = mk(stripControl(h))
				}
				c11Judge(r, b, twin, fmt.Sprintf("%s: %s %q at /%s", base, kind, h, joinPtr(p)))
			}
		}
		// byte-level: truncations
		for i := 0; i < 6; i++ {
			cut := rng.Intn(len(data) + 1)
			c11Judge(r, data[:cut], nil, fmt.Sprintf("%s: truncated at byte %d", base, cut))
		}
	}
	for i := 0; i < r.N(300, 5000); i++ {
		l := rng.Intn(40)
		b := make([]byte, l)
		for j := range b {
			b[j] = lp.Pick(rng, []byte("{}[]:,\"'-#&*!|>%@`\n \topenapi3.0$ref\\x00\xff"))
		}
		c11Judge(r, b, nil, fmt.Sprintf("random bytes %q", b))
	}
	// the modelled components, tied in this run too: path keys and reference chains against the Lean models
	for _, k := range hostileStrings {
		c12One(r, k, "c11-pathkey")
	}
	for i := 0; i < r.N(300, 3000); i++ {
		l := rng.Intn(10)
		b := make([]byte, l)
		for j := range b {
			b[j] = lp.Pick(rng, []byte("%%%0123456789abcdefABCDEFgz-._~/"))
		}
		c12One(r, "/"+string(b), "c11-pathkey")
	}
	for i := 0; i < r.N(300, 3000); i++ {
		c := genChain(rng)
		out := parseChain(c)
		if len(c.refs) == 1 {
			r.Case("refs", c.line(), out, "c11-refchain:"+strings.SplitN(out, " ", 2)[0], true)
		}
	}
	c11SumCycles(r, r.Rng.Fork(1102))
	c11Located(r)
	c11Shapes(r)
	c11DocSplit(r, r.Rng.Fork(1105))
	c11Positions(r)
	c11Listing(r)
	c11Lines(r, r.Rng.Fork(1106))
	// past failures and witnesses of known classes
	for _, o := range corpusObjs("C11") {
		if d, ok := o["document"].(string); ok {
			c11Judge(r, []byte(d), nil, fmt.Sprint(o["what"]))
		}
	}
	// deep nesting
	for _, depth := range []int{100, 400} {
		s := `{"openapi":"3.0.3","info":{"title":"t","version":"1"},"paths":{},"components":{"schemas":{"D":` + strings.Repeat(`{"type":"array","items":`, depth) + `{"type":"string"}` + strings.Repeat("}", depth) + `}}}`
		c11Judge(r, []byte(s), nil, fmt.Sprintf("array schema nested %d deep", depth))
	}
	c11Flush(r)
}

type c11Job struct {
	data, twin []byte
	what       string
}

var c11Queue []c11Job

// c11Judge queues a document; c11Flush runs the queue on the child-process pool and judges in order.
func c11Judge(r *lp.Run, data, twin []byte, what string) {
	c11Queue = append(c11Queue, c11Job{append([]byte(nil), data...), twin, what})
	if len(c11Queue) >= 2048 {
		c11Flush(r)
	}
}

func c11Flush(r *lp.Run) {
	jobs := c11Queue
	c11Queue = nil
	docs := make([][]byte, len(jobs))
	for i, j := range jobs {
		docs[i] = j.data
	}
	outs := runGeneratorBatch(docs, 12)
	for i, j := range jobs {
		c11JudgeOne(r, j.data, j.twin, j.what, outs[i])
	}
}

func c11JudgeOne(r *lp.Run, data, twin []byte, what string, o genOutcome) {
	r.Count("c11 "+what, "gen:"+o.kind, o.kind != "parse-err")
	r.PropCheck()
	doc := string(data)
	if len(doc) > 4000 {
		doc = doc[:4000] + fmt.Sprintf("…(%d bytes; reproduce with the mutation named in 'mutation')", len(data))
	}
	in := map[string]any{"mutation": what, "document": doc}
	switch o.kind {
	case "panic":
		if cls := c11KnownPanic(o); cls != "" {
			r.Known(lp.PropFail{Property: "C11", Class: cls, What: "the generator panics", Input: in, Observed: o.msg + " @ " + o.where, Expected: "output or an error"})
			return
		}
		r.Fail(lp.PropFail{Property: "C11", What: "the generator panics", Input: in, Observed: o.msg + " @ " + o.where, Expected: "output or an error"})
	case "fatal":
		if cls := c11KnownFatal(what, o); cls != "" {
			r.Known(lp.PropFail{Property: "C11", Class: cls, What: "the generator process dies (unrecoverable runtime error)", Input: in, Observed: trunc200(o.msg), Expected: "output or an error"})
			return
		}
		r.Fail(lp.PropFail{Property: "C11", What: "the generator process dies (unrecoverable runtime error, e.g. stack overflow)", Input: in, Observed: trunc200(o.msg), Expected: "output or an error"})
	case "timeout":
		if strings.HasPrefix(what, "K40 ") {
			// the exact witness document of the corpus only; the 10-level document of the same shape must finish
			r.Known(lp.PropFail{Property: "C11", Class: "K40", What: "allOf merging takes time exponential in the depth of shared allOf members", Input: in, Observed: "timeout", Expected: "output or an error"})
			return
		}
		r.Fail(lp.PropFail{Property: "C11", What: "parsing/generation does not finish within 30 s", Input: in, Observed: "timeout", Expected: "output or an error"})
	case "unparsable":
		if cls := c02Known(o.msg, twin); cls != "" {
			r.Known(lp.PropFail{Property: "C02", Class: cls, What: "the generator fails on its own unparsable template output", Input: in, Observed: trunc200(o.msg), Expected: "a package that builds, or a spec-level diagnostic"})
			return
		}
		r.Fail(lp.PropFail{Property: "C02", What: "the generator fails because its own templates emitted unparsable Go", Input: in, Observed: trunc200(o.msg), Expected: "a package that builds, or a spec-level diagnostic"})
	}
}

// K16: two allOf members that both declare a property referring back to the allOf schema
func c11KnownFatal(what string, o genOutcome) string {
	// the class is the root cause: unbounded recursion inside the allOf merge functions
	if strings.Contains(o.msg, "stack overflow") && (strings.Contains(o.msg, "gen.mergeSchemes") || strings.Contains(o.msg, "gen.mergeProperties") || strings.Contains(o.msg, "gen.mergeNSchemes")) {
		return "K16"
	}
	return ""
}

func c11KnownPanic(o genOutcome) string { return "" }

// c02Known: K13 — the same document with the control characters of the one hostile string replaced
// generates parsable code (or is refused with a diagnostic)
func c02Known(msg string, twin []byte) string {
	if twin == nil {
		return ""
	}
	if o := runGeneratorBatch([][]byte{twin}, 1)[0]; o.kind != "unparsable" && o.kind != "panic" && o.kind != "timeout" && o.kind != "fatal" {
		return "K13"
	}
	return ""
}
