package main

import (
	"fmt"
	"net/http"
	"net/url"
	"os"
	"path/filepath"
	"sort"
	"strings"

	"github.com/ogen-go/ogen"
	"github.com/ogen-go/ogen/gen"
	"github.com/ogen-go/ogen/uri"

	"verifharness/internal/gc"
	"verifharness/internal/lp"
)

func init() { suites["c06"] = c06 }

type pval struct {
	shape string // prim, arr, obj
	prim  string
	arr   []string
	obj   [][2]string
}

func (v pval) show() string {
	switch v.shape {
	case "prim":
		return "P0:" + lp.Hex([]byte(v.prim))
	case "arr":
		parts := []string{}
		for _, a := range v.arr {
			parts = append(parts, lp.Hex([]byte(a)))
		}
		return fmt.Sprintf("A%d:%s", len(v.arr), strings.Join(parts, ";"))
	default:
		parts := []string{}
		for _, kv := range v.obj {
			parts = append(parts, lp.Hex([]byte(kv[0]))+"="+lp.Hex([]byte(kv[1])))
		}
		return fmt.Sprintf("O%d:%s", len(v.obj), strings.Join(parts, ";"))
	}
}

func (v pval) text() string {
	switch v.shape {
	case "prim":
		return fmt.Sprintf("%q", v.prim)
	case "arr":
		return fmt.Sprintf("%q", v.arr)
	default:
		return fmt.Sprintf("%q", v.obj)
	}
}

func (v pval) equal(o pval) bool { return v.show() == o.show() }

func pEncodeInto(e uri.Encoder, v pval) error {
	switch v.shape {
	case "prim":
		return e.EncodeValue(v.prim)
	case "arr":
		return e.EncodeArray(func(e uri.Encoder) error {
			for _, it := range v.arr {
				if err := e.EncodeValue(it); err != nil {
					return err
				}
			}
			return nil
		})
	default:
		for _, kv := range v.obj {
			kv := kv
			if err := e.EncodeField(kv[0], func(e uri.Encoder) error { return e.EncodeValue(kv[1]) }); err != nil {
				return err
			}
		}
		return nil
	}
}

func pDecodeFrom(d uri.Decoder, shape string) (pval, error) {
	out := pval{shape: shape}
	switch shape {
	case "prim":
		s, err := d.DecodeValue()
		out.prim = s
		return out, err
	case "arr":
		err := d.DecodeArray(func(d uri.Decoder) error {
			s, err := d.DecodeValue()
			if err != nil {
				return err
			}
			out.arr = append(out.arr, s)
			return nil
		})
		return out, err
	default:
		err := d.DecodeFields(func(name string, d uri.Decoder) error {
			s, err := d.DecodeValue()
			if err != nil {
				return err
			}
			out.obj = append(out.obj, [2]string{name, s})
			return nil
		})
		return out, err
	}
}

type pcfg struct {
	loc, style string
	explode    bool
	shape      string
	name       string
}

type pres struct {
	out  string // ok <val> | enc-err | dec-err | absent | panic
	wire string
	got  pval
}

// pRoundTrip drives the real codecs exactly the way generated code does.
func pRoundTrip(c pcfg, v pval) (res pres) {
	res.wire = "-"
	defer func() {
		if r := recover(); r != nil {
			res.out = "panic"
		}
	}()
	name := c.name
	var fields []uri.QueryParameterObjectField
	for _, kv := range v.obj {
		fields = append(fields, uri.QueryParameterObjectField{Name: kv[0], Required: false})
	}
	fin := func(got pval, err error) pres {
		if err != nil {
			res.out = "dec-err"
			return res
		}
		got.shape = c.shape
		res.got = got
		res.out = "ok " + got.show()
		return res
	}
	switch c.loc {
	case "path":
		e := uri.NewPathEncoder(uri.PathEncoderConfig{Param: name, Style: uri.PathStyle(c.style), Explode: c.explode})
		if err := pEncodeInto(e, v); err != nil {
			res.out = "enc-err"
			return
		}
		w, err := e.Result()
		if err != nil {
			res.out = "enc-err"
			return
		}
		res.wire = "w:" + lp.Hex([]byte(w))
		// what the server does: the router cuts the escaped argument, then PathUnescape
		un, err := url.PathUnescape(w)
		if err != nil || len(un) == 0 {
			res.out = "dec-err"
			return
		}
		d := uri.NewPathDecoder(uri.PathDecoderConfig{Param: name, Value: un, Style: uri.PathStyle(c.style), Explode: c.explode})
		return fin(pDecodeFrom(d, c.shape))
	case "query":
		q := uri.NewQueryEncoder()
		if err := q.EncodeParam(uri.QueryParameterEncodingConfig{Name: name, Style: uri.QueryStyle(c.style), Explode: c.explode}, func(e uri.Encoder) error { return pEncodeInto(e, v) }); err != nil {
			res.out = "enc-err"
			return
		}
		vals := q.Values()
		var items []string
		for k, xs := range vals {
			hx := make([]string, len(xs))
			for i, x := range xs {
				hx[i] = lp.Hex([]byte(x))
			}
			items = append(items, lp.Hex([]byte(k))+"="+strings.Join(hx, ","))
		}
		sort.Strings(items)
		res.wire = "q:" + strings.Join(items, "&")
		parsed, err := url.ParseQuery(vals.Encode())
		if err != nil {
			res.out = "dec-err"
			return
		}
		qd := uri.NewQueryDecoder(parsed)
		dcfg := uri.QueryParameterDecodingConfig{Name: name, Style: uri.QueryStyle(c.style), Explode: c.explode, Fields: fields}
		if err := qd.HasParam(dcfg); err != nil {
			res.out = "absent"
			return
		}
		var got pval
		err = qd.DecodeParam(dcfg, func(d uri.Decoder) error {
			var err error
			got, err = pDecodeFrom(d, c.shape)
			return err
		})
		return fin(got, err)
	case "header":
		h := http.Header{}
		he := uri.NewHeaderEncoder(h)
		if err := he.EncodeParam(uri.HeaderParameterEncodingConfig{Name: name, Explode: c.explode}, func(e uri.Encoder) error { return pEncodeInto(e, v) }); err != nil {
			res.out = "enc-err"
			return
		}
		if xs, ok := h[http.CanonicalHeaderKey(name)]; ok && len(xs) > 0 {
			res.wire = "h:" + lp.Hex([]byte(xs[0]))
		} else {
			res.wire = "none"
		}
		hd := uri.NewHeaderDecoder(h)
		dcfg := uri.HeaderParameterDecodingConfig{Name: name, Explode: c.explode}
		if err := hd.HasParam(dcfg); err != nil {
			res.out = "absent"
			return
		}
		var got pval
		err := hd.DecodeParam(dcfg, func(d uri.Decoder) error {
			var err error
			got, err = pDecodeFrom(d, c.shape)
			return err
		})
		return fin(got, err)
	case "cookie":
		req, _ := http.NewRequest("GET", "http://x/", nil)
		ce := uri.NewCookieEncoder(req)
		if err := ce.EncodeParam(uri.CookieParameterEncodingConfig{Name: name, Explode: c.explode}, func(e uri.Encoder) error { return pEncodeInto(e, v) }); err != nil {
			res.out = "enc-err"
			return
		}
		if w := req.Header.Get("Cookie"); w != "" {
			res.wire = "c:" + lp.Hex([]byte(strings.TrimPrefix(w, name+"=")))
		} else {
			res.wire = "none"
		}
		cd := uri.NewCookieDecoder(req)
		dcfg := uri.CookieParameterDecodingConfig{Name: name, Explode: c.explode}
		if err := cd.HasParam(dcfg); err != nil {
			res.out = "absent"
			return
		}
		var got pval
		err := cd.DecodeParam(dcfg, func(d uri.Decoder) error {
			var err error
			got, err = pDecodeFrom(d, c.shape)
			return err
		})
		return fin(got, err)
	}
	panic("loc")
}

// ---- admission: does the real parser + generator accept a parameter of this configuration? ----

func paramSpec(loc, style string, explode bool, shape string) string {
	schema := `{"type":"string"}`
	switch shape {
	case "arr":
		schema = `{"type":"array","items":{"type":"string"}}`
	case "obj":
		schema = `{"type":"object","properties":{"a":{"type":"string"},"b":{"type":"string"}}}`
	case "arrarr":
		schema = `{"type":"array","items":{"type":"array","items":{"type":"string"}}}`
	case "arrobj":
		schema = `{"type":"array","items":{"type":"object","properties":{"a":{"type":"string"}}}}`
	case "objarr":
		schema = `{"type":"object","properties":{"a":{"type":"array","items":{"type":"string"}}}}`
	case "objobj":
		schema = `{"type":"object","properties":{"a":{"type":"object","properties":{"b":{"type":"string"}}}}}`
	// shapes spelled through composition or additionalProperties: the parser's style table looks at
	// schema.type, the generator at the built type — a shape must not slip between the two
	case "allofobj":
		schema = `{"allOf":[{"type":"object","properties":{"a":{"type":"string"}}},{"type":"object","properties":{"b":{"type":"string"}}}]}`
	case "allofarr":
		schema = `{"allOf":[{"type":"array","items":{"type":"string"}},{"type":"array","maxItems":5}]}`
	case "allofobjarr":
		schema = `{"allOf":[{"type":"object","properties":{"a":{"type":"array","items":{"type":"string"}}}},{"type":"object","properties":{"b":{"type":"string"}}}]}`
	case "oneofobj":
		schema = `{"oneOf":[{"type":"object","required":["a"],"properties":{"a":{"type":"string"}}},{"type":"object","required":["b"],"properties":{"b":{"type":"string"}}}]}`
	case "mapstr":
		schema = `{"type":"object","additionalProperties":{"type":"string"}}`
	case "mapofarr":
		schema = `{"type":"object","additionalProperties":{"type":"array","items":{"type":"string"}}}`
	case "mapofobj":
		schema = `{"type":"object","additionalProperties":{"type":"object","properties":{"a":{"type":"string"}}}}`
	case "objmapprop":
		schema = `{"type":"object","properties":{"a":{"type":"string"},"labels":{"type":"object","additionalProperties":{"type":"string"}}}}`
	case "recobj":
		schema = `{"$ref":"#/components/schemas/RecNode"}`
	case "objmap":
		schema = `{"type":"object","properties":{"a":{"type":"string"}},"additionalProperties":{"type":"array","items":{"type":"string"}}}`
	}
	path := "/x"
	req := "false"
	if loc == "path" {
		path = "/x/{p}"
		req = "true"
	}
	return fmt.Sprintf(`{"openapi":"3.0.3","info":{"title":"t","version":"1"},"paths":{%q:{"get":{"operationId":"op","parameters":[{"name":"p","in":%q,"required":%s,"style":%q,"explode":%v,"schema":%s}],"responses":{"200":{"description":"ok"}}}}},"components":{"schemas":{"RecNode":{"type":"object","properties":{"v":{"type":"string"},"next":{"$ref":"#/components/schemas/RecNode"}}}}}}`,
		path, loc, req, style, explode, schema)
}

func genAccepts(doc string) (ok bool, why string) {
	defer func() {
		if r := recover(); r != nil {
			ok, why = false, fmt.Sprint("panic: ", r)
		}
	}()
	spec, err := ogen.Parse([]byte(doc))
	if err != nil {
		return false, "parse: " + err.Error()
	}
	_, err = gen.NewGenerator(spec, gen.Options{})
	if err != nil {
		return false, err.Error()
	}
	return true, ""
}

var c06Styles = map[string][]string{
	"path":   {"simple", "label", "matrix"},
	"query":  {"form", "pipeDelimited", "deepObject"},
	"header": {"simple"},
	"cookie": {"form"},
}

// ---- reference: OpenAPI style table (3.0.3 "Style Examples" with the RFC 6570 reading of the
// label/explode=false row, as corrected in 3.0.4) for core values; nil = no serialization defined ----

func refWire(c pcfg, v pval) (wire string, multimap map[string][]string, defined bool) {
	flat := func(kvsep string) []string {
		var out []string
		for _, kv := range v.obj {
			out = append(out, kv[0]+kvsep+kv[1])
		}
		return out
	}
	switch c.loc {
	case "path":
		switch c.style {
		case "simple":
			switch v.shape {
			case "prim":
				return v.prim, nil, true
			case "arr":
				return strings.Join(v.arr, ","), nil, true
			default:
				if c.explode {
					return strings.Join(flat("="), ","), nil, true
				}
				return strings.Join(flat(","), ","), nil, true
			}
		case "label":
			switch v.shape {
			case "prim":
				return "." + v.prim, nil, true
			case "arr":
				if c.explode {
					return "." + strings.Join(v.arr, "."), nil, true
				}
				return "." + strings.Join(v.arr, ","), nil, true
			default:
				if c.explode {
					return "." + strings.Join(flat("="), "."), nil, true
				}
				return "." + strings.Join(flat(","), ","), nil, true
			}
		case "matrix":
			switch v.shape {
			case "prim":
				return ";" + c.name + "=" + v.prim, nil, true
			case "arr":
				if c.explode {
					var parts []string
					for _, a := range v.arr {
						parts = append(parts, ";"+c.name+"="+a)
					}
					return strings.Join(parts, ""), nil, true
				}
				return ";" + c.name + "=" + strings.Join(v.arr, ","), nil, true
			default:
				if c.explode {
					return ";" + strings.Join(flat("="), ";"), nil, true
				}
				return ";" + c.name + "=" + strings.Join(flat(","), ","), nil, true
			}
		}
	case "query":
		mm := map[string][]string{}
		switch c.style {
		case "form":
			switch v.shape {
			case "prim":
				mm[c.name] = []string{v.prim}
			case "arr":
				if c.explode {
					mm[c.name] = v.arr
				} else {
					mm[c.name] = []string{strings.Join(v.arr, ",")}
				}
			default:
				if c.explode {
					for _, kv := range v.obj {
						mm[kv[0]] = []string{kv[1]}
					}
				} else {
					mm[c.name] = []string{strings.Join(flat(","), ",")}
				}
			}
			return "", mm, true
		case "pipeDelimited":
			if v.shape == "arr" {
				if c.explode {
					mm[c.name] = v.arr
				} else {
					mm[c.name] = []string{strings.Join(v.arr, "|")}
				}
				return "", mm, true
			}
		case "deepObject":
			if v.shape == "obj" && c.explode {
				for _, kv := range v.obj {
					mm[c.name+"["+kv[0]+"]"] = []string{kv[1]}
				}
				return "", mm, true
			}
		}
	case "header":
		switch v.shape {
		case "prim":
			return v.prim, nil, true
		case "arr":
			return strings.Join(v.arr, ","), nil, true
		default:
			if c.explode {
				return strings.Join(flat("="), ","), nil, true
			}
			return strings.Join(flat(","), ","), nil, true
		}
	case "cookie":
		if c.explode && v.shape != "prim" {
			return "", nil, false
		}
		switch v.shape {
		case "prim":
			return v.prim, nil, true
		case "arr":
			return strings.Join(v.arr, ","), nil, true
		default:
			return strings.Join(flat(","), ","), nil, true
		}
	}
	return "", nil, false
}

const c06Delims = ",.;=|&[] "

func coreText(s string) bool { return s != "" && !strings.ContainsAny(s, c06Delims) }

// coreVal: the property's core domain (non-empty text without any style delimiter,
// non-empty collections, unique object names)
func coreVal(v pval) bool {
	switch v.shape {
	case "prim":
		return coreText(v.prim)
	case "arr":
		if len(v.arr) == 0 {
			return false
		}
		for _, a := range v.arr {
			if !coreText(a) {
				return false
			}
		}
		return true
	default:
		if len(v.obj) == 0 {
			return false
		}
		seen := map[string]bool{}
		for _, kv := range v.obj {
			if !coreText(kv[0]) || !coreText(kv[1]) || seen[kv[0]] {
				return false
			}
			seen[kv[0]] = true
		}
		return true
	}
}

func uniqueNames(v pval) bool {
	seen := map[string]bool{}
	for _, kv := range v.obj {
		if seen[kv[0]] {
			return false
		}
		seen[kv[0]] = true
	}
	return true
}

// trailingEmptyOnly: an array (object) whose last item (value) is "" and whose other texts are core texts
func trailingEmptyOnly(v pval) bool {
	switch v.shape {
	case "arr":
		n := len(v.arr)
		if n == 0 || v.arr[n-1] != "" {
			return false
		}
		for _, a := range v.arr[:n-1] {
			if !coreText(a) {
				return false
			}
		}
		return true
	case "obj":
		n := len(v.obj)
		if n == 0 || v.obj[n-1][1] != "" || !uniqueNames(v) {
			return false
		}
		for i, kv := range v.obj {
			if !coreText(kv[0]) || (i < n-1 && !coreText(kv[1])) {
				return false
			}
		}
		return true
	}
	return false
}

// knownClass: the recorded wrong-value classes W1–W4 (known_findings.json K1)
func knownClass(c pcfg, v pval, got pval) string {
	if v.shape != "arr" {
		return ""
	}
	one := func(x []string) bool { return len(x) == 1 && x[0] == "" }
	switch {
	case c.loc == "query" && c.style == "form" && !c.explode && one(v.arr) && len(got.arr) == 0:
		return "W1"
	case c.loc == "query" && c.style == "pipeDelimited" && !c.explode && len(v.arr) == 0 && one(got.arr):
		return "W2"
	case c.loc == "header" && len(v.arr) == 0 && one(got.arr):
		return "W3"
	case c.loc == "cookie" && !c.explode && len(v.arr) == 0 && one(got.arr):
		return "W4"
	}
	return ""
}

func c06(r *lp.Run) {
	r.SetRule("admission: the whole location × style(7) × explode × shape grid through ogen.Parse + gen.NewGenerator; round trips: every configuration the uri API can express (admitted or not) × a value matrix over the alphabet {\"\", a, \",\", \".\", \";\", \"=\", \"|\", \" \", \"%\", \"/\", é, \"a,b\", [, ], &, +, \\\", %2C} in every position (arrays ≤ 2 items, objects ≤ 2 fields) + random byte strings (NUL, DEL, 0xFF, every delimiter) with 0–3 items, parameter names p / a=b / x y / é; non-trivial = distinct (configuration, value) that got past the encoder (a wire exists)")
	// A. admission grid (T-exh)
	admitted := map[string]bool{}
	allStyles := []string{"simple", "label", "matrix", "form", "spaceDelimited", "pipeDelimited", "deepObject"}
	for _, loc := range []string{"path", "query", "header", "cookie"} {
		for _, st := range allStyles {
			for _, ex := range []bool{false, true} {
				for _, sh := range []string{"prim", "arr", "obj", "arrarr", "arrobj", "objarr", "objobj"} {
					ok, _ := genAccepts(paramSpec(loc, st, ex, sh))
					key := fmt.Sprintf("%s %s %v %s", loc, st, ex, sh)
					admitted[key] = ok
					r.Case("admitcfg", key, b2s(ok), "admit:"+b2s(ok), false)
					if ok && len(sh) > 4 {
						// nested shapes have no serialization in any style: the runtime encoders panic on them
						// ("nested arrays/objects not allowed"), so generation must refuse them
						r.PropCheck()
						r.Fail(lp.PropFail{Property: "C06", What: "a nested parameter shape is admitted by parser and generator (the uri encoders panic on it at run time)", Input: map[string]any{"location": loc, "style": st, "explode": ex, "shape": sh, "spec": paramSpec(loc, st, ex, sh)}, Observed: "generation succeeds", Expected: "refused at generation time"})
					}
				}
			}
		}
	}
	r.Exhaustive("admission (parser style table + generator parameter checks)", "all 4×7×2×7 = 392 configurations (3 flat + 4 nested shapes)")
	// admission of a parameter does not depend on what else uses its schema: the same configurations with the
	// schema in a component that an earlier parameter (in a configuration that admits every flat shape) uses too
	perm := map[string][2]string{"path": {"simple", "false"}, "query": {"form", "true"}, "header": {"simple", "false"}, "cookie": {"form", "false"}}
	schemas := map[string]string{"prim": `{"type":"string"}`, "arr": `{"type":"array","items":{"type":"string"}}`, "obj": `{"type":"object","properties":{"a":{"type":"string"},"b":{"type":"string"}}}`}
	for _, loc := range []string{"path", "query", "header", "cookie"} {
		for _, st := range allStyles {
			for _, ex := range []bool{false, true} {
				for _, sh := range []string{"prim", "arr", "obj"} {
					pkey := fmt.Sprintf("%s %s %v %s", loc, perm[loc][0], perm[loc][1] == "true", sh)
					key := fmt.Sprintf("%s %s %v %s", loc, st, ex, sh)
					if !admitted[pkey] {
						continue
					}
					path, req := "/x", "false"
					if loc == "path" {
						path, req = "/x/{p1}/{p2}", "true"
					}
					doc := fmt.Sprintf(`{"openapi":"3.0.3","info":{"title":"t","version":"1"},"paths":{%q:{"get":{"operationId":"op","parameters":[`+
						`{"name":"p1","in":%q,"required":%s,"style":%q,"explode":%s,"schema":{"$ref":"#/components/schemas/S"}},`+
						`{"name":"p2","in":%q,"required":%s,"style":%q,"explode":%v,"schema":{"$ref":"#/components/schemas/S"}}],`+
						`"responses":{"200":{"description":"ok"}}}}},"components":{"schemas":{"S":%s}}}`,
						path, loc, req, perm[loc][0], perm[loc][1], loc, req, st, ex, schemas[sh])
					ok, why := genAccepts(doc)
					r.PropCheck()
					r.Count("admit-shared "+key, "admit-shared:"+b2s(ok), true)
					if ok != admitted[key] {
						r.Fail(lp.PropFail{Property: "C06", What: "whether a parameter configuration is admitted depends on another parameter that uses the same schema component", Input: map[string]any{"location": loc, "style": st, "explode": ex, "shape": sh, "spec": doc}, Observed: fmt.Sprintf("admitted=%v %s", ok, why), Expected: fmt.Sprintf("admitted=%v as for the configuration alone", admitted[key])})
					}
				}
			}
		}
	}

	// A'. a header array named Set-Cookie is written as one line per item (RFC 6265) and read from all lines
	for _, items := range [][]string{{"a=1"}, {"a=1", "b=2"}, {"a=1; Path=/", "b=2; Expires=Wed, 21 Oct 2015 07:28:00 GMT", "c=3"}, {"x,y", "z"}} {
		for _, name := range []string{"Set-Cookie", "set-cookie"} {
			h := http.Header{}
			out := lp.Guard(func() string {
				err := uri.NewHeaderEncoder(h).EncodeParam(uri.HeaderParameterEncodingConfig{Name: name, Explode: false}, func(e uri.Encoder) error {
					return e.EncodeArray(func(e uri.Encoder) error {
						for _, it := range items {
							if err := e.EncodeValue(it); err != nil {
								return err
							}
						}
						return nil
					})
				})
				if err != nil {
					return "enc-err"
				}
				var got []string
				err = uri.NewHeaderDecoder(h).DecodeParam(uri.HeaderParameterDecodingConfig{Name: name, Explode: false}, func(d uri.Decoder) error {
					return d.DecodeArray(func(d uri.Decoder) error {
						v, err := d.DecodeValue()
						got = append(got, v)
						return err
					})
				})
				if err != nil {
					return "dec-err"
				}
				return strings.Join(got, "\x00")
			})
			r.PropCheck()
			r.Count("setcookie "+name+strings.Join(items, "|"), "set-cookie-array", true)
			if out != "enc-err" && out != strings.Join(items, "\x00") {
				r.Fail(lp.PropFail{Property: "C06", What: "a Set-Cookie header array is not read back as it was written", Input: map[string]any{"name": name, "items": items}, Observed: out, Expected: strings.Join(items, " | ")})
			}
		}
	}

	// B. values
	alpha := []string{"", "a", ",", ".", ";", "=", "|", " ", "%", "/", "é", "a,b", "[", "]", "&", "+", "\"", "%2C"}
	if !r.Thorough() {
		alpha = []string{"", "a", ",", ".", ";", "=", "|", " ", "%", "/", "é", "&", "%2C"}
	}
	var vals []pval
	for _, a := range alpha {
		vals = append(vals, pval{shape: "prim", prim: a})
	}
	vals = append(vals, pval{shape: "arr", arr: []string{}})
	for _, a := range alpha {
		vals = append(vals, pval{shape: "arr", arr: []string{a}})
		for _, b := range alpha {
			vals = append(vals, pval{shape: "arr", arr: []string{a, b}})
		}
	}
	vals = append(vals, pval{shape: "arr", arr: []string{"x", "y", "z"}}, pval{shape: "arr", arr: []string{"x", "", "z"}}, pval{shape: "arr", arr: []string{"", "", ""}})
	vals = append(vals, pval{shape: "obj", obj: [][2]string{}})
	for _, a := range alpha {
		for _, b := range alpha {
			vals = append(vals, pval{shape: "obj", obj: [][2]string{{a, b}}})
			vals = append(vals, pval{shape: "obj", obj: [][2]string{{"k", "v"}, {a, b}}})
			vals = append(vals, pval{shape: "obj", obj: [][2]string{{a, b}, {"k", "v"}}})
		}
	}
	vals = append(vals, pval{shape: "obj", obj: [][2]string{{"k", "v"}, {"k", "w"}}}, pval{shape: "obj", obj: [][2]string{{"R", "100"}, {"G", "200"}, {"B", "150"}}})
	rng := r.Rng.Fork(6)
	bytesAlpha := []byte{'a', ',', '.', ';', '=', '|', ' ', '%', '/', 0xc3, 0xa9, '[', ']', '&', '+', '"', '2', 'C', 0, 0x7f, 0xff, '\\', 'p', '\t', 'b', 'z'}
	rs := func() string {
		n := rng.Intn(4)
		b := make([]byte, n)
		for i := range b {
			b[i] = lp.Pick(rng, bytesAlpha)
		}
		return string(b)
	}
	coreS := func() string {
		n := 1 + rng.Intn(3)
		b := make([]byte, n)
		for i := range b {
			b[i] = lp.Pick(rng, []byte("abz0%/+é\"~-_"))
		}
		return string(b)
	}
	nr := r.N(6000, 150000)
	for i := 0; i < nr; i++ {
		gen := rs
		if i%3 == 0 {
			gen = coreS
		}
		switch rng.Intn(3) {
		case 0:
			vals = append(vals, pval{shape: "prim", prim: gen()})
		case 1:
			n := rng.Intn(4)
			v := pval{shape: "arr", arr: []string{}}
			for j := 0; j < n; j++ {
				v.arr = append(v.arr, gen())
			}
			vals = append(vals, v)
		default:
			n := rng.Intn(4)
			v := pval{shape: "obj", obj: [][2]string{}}
			for j := 0; j < n; j++ {
				v.obj = append(v.obj, [2]string{gen(), gen()})
			}
			vals = append(vals, v)
		}
	}
	names := []string{"p", "a=b", "x y", "é"}
	for _, loc := range []string{"path", "query", "header", "cookie"} {
		for _, st := range c06Styles[loc] {
			for _, ex := range []bool{false, true} {
				for _, sh := range []string{"prim", "arr", "obj"} {
					adm := admitted[fmt.Sprintf("%s %s %v %s", loc, st, ex, sh)]
					for vi, v := range vals {
						if v.shape != sh {
							continue
						}
						name := "p"
						if (loc == "path" || loc == "query") && vi%5 == 4 {
							name = names[(vi/5)%len(names)]
						}
						c06One(r, pcfg{loc, st, ex, sh, name}, v, adm)
					}
				}
			}
		}
	}
	c06Cookie(r, rng)
	c06Generated(r)
}

func c06One(r *lp.Run, c pcfg, v pval, adm bool) {
	res := pRoundTrip(c, v)
	tag := "admitted"
	if !adm {
		tag = "not-admitted"
	}
	branch := res.out
	if strings.HasPrefix(branch, "ok") {
		if res.got.equal(v) {
			branch = "ok-same"
		} else {
			branch = "ok-different"
		}
	}
	r.Case("codec", fmt.Sprintf("%s %s %v %s %s %s", c.loc, c.style, c.explode, c.shape, lp.Hex([]byte(c.name)), v.show()),
		res.out+" | "+res.wire, tag+":"+c.loc+":"+branch, res.wire != "-")
	if !adm {
		return
	}
	// the property's predicates on the implementation, for configurations ogen admits
	r.PropCheck()
	in := map[string]any{"location": c.loc, "style": c.style, "explode": c.explode, "shape": c.shape, "name": c.name, "value": v.text()}
	fail := func(what, obs, exp string) {
		r.Fail(lp.PropFail{Property: "C06", What: what, Input: in, Observed: obs, Expected: exp})
	}
	if res.out == "panic" {
		fail("an admitted combination panics", "panic", "value or error")
		return
	}
	if strings.HasPrefix(res.out, "ok") && !res.got.equal(v) && uniqueNames(v) {
		if cls := knownClass(c, v, res.got); cls != "" {
			r.Known(lp.PropFail{Property: "C06", Class: cls, What: "decoder delivers a different value", Input: in, Observed: res.got.text(), Expected: v.text()})
		} else {
			fail("decoder delivers a different value than was encoded", res.got.text(), v.text()+" or an error")
		}
		return
	}
	// K41: a path array / object whose last item (value) is the empty string is written with a trailing delimiter
	// and the decoder stops with EOF there: an error, not a wrong value, but the value is not recovered
	if c.loc == "path" && res.out == "dec-err" && res.wire != "-" && trailingEmptyOnly(v) {
		r.Known(lp.PropFail{Property: "C06", Class: "K41", What: "a path value that ends in an empty item is accepted by the encoder and refused by the decoder", Input: in, Observed: "decode error | " + res.wire, Expected: v.text()})
		return
	}
	if coreVal(v) && c.name == "p" {
		if !strings.HasPrefix(res.out, "ok") {
			fail("a core value (non-empty, delimiter-free) is not delivered", res.out, "ok "+v.show())
			return
		}
		// style table
		want, mm, defined := refWire(c, v)
		if !defined {
			return
		}
		switch c.loc {
		case "path":
			if got, err := url.PathUnescape(hexDecode(strings.TrimPrefix(res.wire, "w:"))); err != nil || got != want {
				fail("path serialization differs from the OpenAPI style table", got, want)
			}
		case "query":
			var items []string
			for k, xs := range mm {
				hx := make([]string, len(xs))
				for i, x := range xs {
					hx[i] = lp.Hex([]byte(x))
				}
				items = append(items, lp.Hex([]byte(k))+"="+strings.Join(hx, ","))
			}
			sort.Strings(items)
			if w := "q:" + strings.Join(items, "&"); w != res.wire {
				fail("query serialization differs from the OpenAPI style table", res.wire, w)
			}
		case "header":
			if got := hexDecode(strings.TrimPrefix(res.wire, "h:")); got != want {
				fail("header serialization differs from the OpenAPI style table", got, want)
			}
		case "cookie":
			got, ok := uri.VerifUnescapeCookie(hexDecode(strings.TrimPrefix(res.wire, "c:")))
			if !ok || got != want {
				fail("cookie serialization differs from the OpenAPI style table", got, want)
			}
		}
	}
}

func hexDecode(h string) string {
	var b []byte
	for i := 0; i+1 < len(h); i += 2 {
		x, _ := refHex(h[i])
		y, _ := refHex(h[i+1])
		b = append(b, x<<4|y)
	}
	return string(b)
}

// cookie escaping is an exact inverse pair, its table is the model's, and the escaped text
// survives net/http's cookie sanitiser
func c06Cookie(r *lp.Run, rng *lp.Rand) {
	for c := 0; c < 256; c++ {
		c := c
		r.Case("cookiebyte", fmt.Sprintf("%02x", c), lp.Guard(func() string { return b2s(uri.VerifCookieEscapeChar(byte(c))) }), "cookie-byte", false)
		// the escaper itself on every single byte
		if out := lp.Guard(func() string { return lp.Hex([]byte(uri.VerifEscapeCookie(string([]byte{byte(c)})))) }); out == "panic" {
			r.PropCheck()
			r.Fail(lp.PropFail{Property: "C06", What: "cookie escaping panics", Input: map[string]string{"hex": fmt.Sprintf("%02x", c)}, Observed: "panic", Expected: "escaped text"})
		}
	}
	r.Exhaustive("cookieEscapeChars", "all 256 bytes")
	n := r.N(20000, 400000)
	for i := 0; i < n; i++ {
		l := rng.Intn(7)
		b := make([]byte, l)
		for j := range b {
			if rng.Chance(50) {
				b[j] = lp.Pick(rng, []byte("% ,;\"\\a1F\x7f=\t"))
			} else {
				b[j] = byte(rng.Intn(256))
			}
		}
		s := string(b)
		var esc, back string
		var ok bool
		if lp.Guard(func() string {
			esc = uri.VerifEscapeCookie(s)
			back, ok = uri.VerifUnescapeCookie(esc)
			return ""
		}) == "panic" {
			r.Case("cookie", lp.Hex(b), "panic", "cookie-escape-panic", true)
			r.PropCheck()
			r.Fail(lp.PropFail{Property: "C06", What: "cookie escaping panics", Input: map[string]string{"hex": lp.Hex(b), "text": fmt.Sprintf("%q", s)}, Observed: "panic", Expected: "escaped text"})
			continue
		}
		un := "err"
		if ok {
			un = lp.Hex([]byte(back))
		}
		r.Case("cookie", lp.Hex(b), lp.Hex([]byte(esc))+" "+un, "cookie-escape", esc != s)
		r.PropCheck()
		in := map[string]string{"hex": lp.Hex(b), "text": fmt.Sprintf("%q", s)}
		if !ok || back != s {
			r.Fail(lp.PropFail{Property: "C06", What: "unescapeCookie(escapeCookie(s)) != s", Input: in, Observed: un, Expected: lp.Hex(b)})
		}
		// transport through net/http
		req, _ := http.NewRequest("GET", "http://x/", nil)
		req.AddCookie(&http.Cookie{Name: "p", Value: esc})
		if ck, err := req.Cookie("p"); esc != "" && (err != nil || ck.Value != esc) {
			got := "<missing>"
			if ck != nil {
				got = ck.Value
			}
			r.Fail(lp.PropFail{Property: "C06", What: "escaped cookie value does not survive net/http's cookie sanitiser", Input: in, Observed: got, Expected: esc})
		}
		// decoder on arbitrary input
		raw, ok2 := uri.VerifUnescapeCookie(s)
		o := "err"
		if ok2 {
			o = "ok:" + lp.Hex([]byte(raw))
		}
		r.Case("uncookie", lp.Hex(b), o, "cookie-unescape", strings.Contains(s, "%"))
	}
}

// C. the generated glue around the codecs, for the wrapper kinds the uri tests above cannot see: every admitted
// (location, style, explode) × {primitive, object} with `nullable: true` on the parameter schema, required and
// optional, through a regenerated client and server (the value sits in a Nil… / OptNil… wrapper that the
// encoder and decoder configuration has to look through)
func c06Generated(r *lp.Run) {
	scratch := os.Getenv("VERIF_SCRATCH")
	if scratch == "" {
		scratch = "/var/tmp"
	}
	mod, err := gc.NewModule(filepath.Join(scratch, fmt.Sprintf("gc-c06-%d", os.Getpid())))
	if err != nil {
		panic(err)
	}
	defer os.RemoveAll(mod.Dir)
	ops := paramMatrixNullable("C06")
	pkg, err := mod.Add("pmnl", []byte(paramMatrixDoc(ops)), gen.Options{})
	if err != nil {
		r.PropCheck()
		r.Fail(lp.PropFail{Property: "C06", What: "the generator refuses the parameter matrix with nullable parameter schemas", Input: "nullable parameter matrix", Observed: err.Error(), Expected: "generated package"})
		return
	}
	bin, err := mod.Build()
	if err != nil {
		r.PropCheck()
		r.Fail(lp.PropFail{Property: "C02", What: "generated packages do not compile", Input: "nullable parameter matrix", Observed: err.Error(), Expected: "compiles"})
		return
	}
	drv, err := gc.Start(bin)
	if err != nil {
		panic(err)
	}
	defer drv.Close()
	c01RunMatrix(r, r.Rng.Fork(606), drv, pkg, ops, r.N(6, 30))
}
