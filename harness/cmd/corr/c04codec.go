package main

import (
	"bytes"
	"encoding/json"
	"fmt"
	"hash/fnv"
	"math/big"
	"sort"
	"strings"
	"unicode/utf8"

	"github.com/ogen-go/ogen/gen"

	gc "verifharness/internal/gc"
	"verifharness/internal/lp"
)

// The codec fragment of the Lean model `JCodec` (lean/Ogen/JsonCodecModel.lean): integers, strings, booleans,
// arrays (items may be nullable) and objects with named properties, each required or optional, nullable or
// not. Types are generated here, rendered as component schemas, regenerated and compiled with the other C04
// packages; documents (valid instances in every member order with undeclared members, and single-fault
// mutants) are decoded and re-encoded by the generated code and by the model, and judged by a reference
// validator written against the schema semantics.

type cTy struct {
	kind   string // int str bool arr obj
	nul    bool   // arr: items nullable
	item   *cTy
	fields []cField
	closed bool // obj: additionalProperties: false
	// validation keywords (only generated for the C03 stream): integer bounds and multipleOf, string length in
	// code points / item count
	imin, imax   *int64
	exMin, exMax bool
	mult         int64
	lmin         int
	lmax         *int
}

type cField struct {
	name     string
	req, nul bool
	ty       *cTy
	dflt     *J // schema default of an optional, non-nullable integer / string / boolean member
}

var cNames = []string{"a", "b", "c", "id", "n", "tag", "éz", "h i", "x-y", "k_1", "zed", "Q", "日本w", "v2", "d.e", "f\"g"}

// genCTyK: genCTy with validation keywords on the leaves and arrays
func genCTyK(rng *lp.Rand, depth int, wantObj bool) *cTy {
	t := genCTy(rng, depth, wantObj)
	var deco func(t *cTy)
	deco = func(t *cTy) {
		switch t.kind {
		case "int":
			if rng.Chance(60) {
				lo := int64(rng.Intn(7)) - 3
				t.imin = &lo
				t.exMin = rng.Chance(30)
			}
			if rng.Chance(60) {
				hi := int64(rng.Intn(9)) + 1
				t.imax = &hi
				t.exMax = rng.Chance(30)
			}
			if rng.Chance(30) {
				t.mult = int64(2 + rng.Intn(3))
			}
		case "str", "arr":
			if rng.Chance(50) {
				t.lmin = rng.Intn(3)
			}
			if rng.Chance(50) {
				m := t.lmin + rng.Intn(3)
				t.lmax = &m
			}
			if t.kind == "arr" {
				deco(t.item)
			}
		case "obj":
			for i := range t.fields {
				t.fields[i].dflt = nil
				deco(t.fields[i].ty)
			}
		}
	}
	deco(t)
	return t
}

// cArrKey: the part of an array-of-arrays shape that the wrapper's name carries (kinds and leaf nullability)
func cArrKey(t *cTy) string {
	if t.kind == "arr" {
		if t.item.kind == "arr" {
			return "A" + cArrKey(t.item)
		}
		return fmt.Sprintf("A%v%s", t.nul, t.item.kind)
	}
	return t.kind
}

func genCTy(rng *lp.Rand, depth int, wantObj bool) *cTy {
	k := rng.Intn(6)
	if wantObj {
		k = 5
	}
	if depth <= 0 && k >= 3 {
		k = rng.Intn(3)
	}
	switch k {
	case 0:
		return &cTy{kind: "int"}
	case 1:
		return &cTy{kind: "str"}
	case 2:
		return &cTy{kind: "bool"}
	case 3, 4:
		a := &cTy{kind: "arr", nul: rng.Chance(35), item: genCTy(rng, depth-1, false)}
		if a.item.kind == "arr" {
			// K22: the generic wrapper of a boxed array is named after the item's name postfix, which does not say
			// whether an inner array is nullable — two boxed arrays of arrays that differ only there share one wrapper
			// in a package. The nullability of inner arrays is therefore a function of the rest of the shape here
			// (the hand-written case NestedNullArr of the format matrix is the witness of the class).
			h := fnv.New32a()
			h.Write([]byte(cArrKey(a.item)))
			a.nul = h.Sum32()%100 < 35
		}
		return a
	}
	n := 1 + rng.Intn(5)
	seen := map[string]bool{}
	t := &cTy{kind: "obj", closed: rng.Chance(30)}
	for len(t.fields) < n {
		name := lp.Pick(rng, cNames)
		if seen[name] {
			continue
		}
		seen[name] = true
		f := cField{name: name, req: rng.Bool(), nul: rng.Chance(40), ty: genCTy(rng, depth-1, false)}
		if !f.req && !f.nul && rng.Chance(40) {
			switch f.ty.kind {
			case "int":
				f.dflt = &J{kind: "num", raw: lp.Pick(rng, []string{"0", "7", "-3", "9223372036854775807"})}
			case "str":
				f.dflt = &J{kind: "str", s: lp.Pick(rng, []string{"", "dflt", "é \"q\""})}
			case "bool":
				f.dflt = &J{kind: "bool", b: rng.Bool()}
			}
		}
		t.fields = append(t.fields, f)
	}
	// the document is rendered with sorted keys, which is the declaration order the generator sees
	sort.Slice(t.fields, func(i, j int) bool { return t.fields[i].name < t.fields[j].name })
	return t
}

func (t *cTy) schema(nullable bool) map[string]any {
	var m map[string]any
	switch t.kind {
	case "int":
		m = map[string]any{"type": "integer"}
		if t.imin != nil {
			m["minimum"] = *t.imin
			if t.exMin {
				m["exclusiveMinimum"] = true
			}
		}
		if t.imax != nil {
			m["maximum"] = *t.imax
			if t.exMax {
				m["exclusiveMaximum"] = true
			}
		}
		if t.mult != 0 {
			m["multipleOf"] = t.mult
		}
	case "str":
		m = map[string]any{"type": "string"}
		if t.lmin != 0 {
			m["minLength"] = t.lmin
		}
		if t.lmax != nil {
			m["maxLength"] = *t.lmax
		}
	case "bool":
		m = map[string]any{"type": "boolean"}
	case "arr":
		m = map[string]any{"type": "array", "items": t.item.schema(t.nul)}
		if t.lmin != 0 {
			m["minItems"] = t.lmin
		}
		if t.lmax != nil {
			m["maxItems"] = *t.lmax
		}
	default:
		props := map[string]any{}
		var req []string
		for _, f := range t.fields {
			ps := f.ty.schema(f.nul)
			if f.dflt != nil {
				switch f.dflt.kind {
				case "num":
					ps["default"] = json.Number(f.dflt.raw)
				case "str":
					ps["default"] = f.dflt.s
				case "bool":
					ps["default"] = f.dflt.b
				}
			}
			props[f.name] = ps
			if f.req {
				req = append(req, f.name)
			}
		}
		m = map[string]any{"type": "object", "properties": props}
		if req != nil {
			m["required"] = req
		}
		if t.closed {
			m["additionalProperties"] = false
		}
	}
	if nullable {
		m["nullable"] = true
	}
	return m
}

// tokens of the type for the model's line protocol
func (t *cTy) toks(sb *strings.Builder) {
	optI := func(p *int64) string {
		if p == nil {
			return "-"
		}
		return fmt.Sprint(*p)
	}
	lenK := func() string {
		mx := "-"
		if t.lmax != nil {
			mx = fmt.Sprint(*t.lmax)
		}
		return fmt.Sprintf(":%d:%s", t.lmin, mx)
	}
	switch t.kind {
	case "int":
		mu := "-"
		if t.mult != 0 {
			mu = fmt.Sprint(t.mult)
		}
		fmt.Fprintf(sb, "I:%s:%s:%d:%d:%s ", optI(t.imin), optI(t.imax), b2i(t.exMin), b2i(t.exMax), mu)
	case "str":
		sb.WriteString("S" + lenK() + " ")
	case "bool":
		sb.WriteString("B ")
	case "arr":
		fmt.Fprintf(sb, "A%d%s ", b2i(t.nul), lenK())
		t.item.toks(sb)
	default:
		fmt.Fprintf(sb, "O%d:%d ", len(t.fields), b2i(t.closed))
		for _, f := range t.fields {
			if f.dflt != nil {
				fmt.Fprintf(sb, "F2%d%x ", b2i(f.nul), f.name)
				jtoks(f.dflt, sb)
			} else {
				fmt.Fprintf(sb, "F%d%d%x ", b2i(f.req), b2i(f.nul), f.name)
			}
			f.ty.toks(sb)
		}
	}
}

var cInts = []string{"0", "1", "-1", "7", "42", "-100", "9007199254740993", "-9007199254740993", "9223372036854775807", "-9223372036854775808", "2147483648"}

// a valid document of the type: members in random order, optional members in each allowed state, undeclared members
func (t *cTy) instance(rng *lp.Rand) *J {
	switch t.kind {
	case "int":
		if t.imin != nil || t.imax != nil || t.mult != 0 {
			// around the bounds and the multiples
			c := []int64{0, 1, -1, 2, 3, 4, 6, 12}
			if t.imin != nil {
				c = append(c, *t.imin-1, *t.imin, *t.imin+1)
			}
			if t.imax != nil {
				c = append(c, *t.imax-1, *t.imax, *t.imax+1)
			}
			return &J{kind: "num", raw: fmt.Sprint(lp.Pick(rng, c))}
		}
		return &J{kind: "num", raw: lp.Pick(rng, cInts)}
	case "str":
		if t.lmin != 0 || t.lmax != nil {
			// lengths around the bounds, in code points of one to four bytes
			n := t.lmin + rng.Intn(3) - 1
			if t.lmax != nil && rng.Bool() {
				n = *t.lmax + rng.Intn(3) - 1
			}
			var sb strings.Builder
			for i := 0; i < n; i++ {
				sb.WriteString(lp.Pick(rng, []string{"a", "é", "日", "😀", " ", "\"", "0"}))
			}
			return &J{kind: "str", s: sb.String()}
		}
		return &J{kind: "str", s: lp.Pick(rng, jStrs)}
	case "bool":
		return &J{kind: "bool", b: rng.Bool()}
	case "arr":
		j := &J{kind: "arr"}
		cnt := rng.Intn(4)
		if t.lmin != 0 || t.lmax != nil {
			cnt = t.lmin + rng.Intn(3) - 1
			if t.lmax != nil && rng.Bool() {
				cnt = *t.lmax + rng.Intn(3) - 1
			}
		}
		for i := cnt; i > 0; i-- {
			if t.nul && rng.Chance(30) {
				j.arr = append(j.arr, &J{kind: "null"})
			} else {
				j.arr = append(j.arr, t.item.instance(rng))
			}
		}
		return j
	}
	j := &J{kind: "obj"}
	for _, f := range t.fields {
		switch {
		case !f.req && rng.Chance(35):
			continue
		case f.nul && rng.Chance(35):
			j.keys, j.vals = append(j.keys, f.name), append(j.vals, &J{kind: "null"})
		default:
			j.keys, j.vals = append(j.keys, f.name), append(j.vals, f.ty.instance(rng))
		}
	}
	if rng.Chance(30) {
		extra := lp.Pick(rng, []string{"zz", "", "ID", "extra key", "a "})
		dup := false
		for _, f := range t.fields {
			dup = dup || f.name == extra
		}
		if !dup {
			j.keys, j.vals = append(j.keys, extra), append(j.vals, (&cTy{kind: lp.Pick(rng, []string{"int", "str", "bool"})}).instance(rng))
		}
	}
	for a := len(j.keys) - 1; a > 0; a-- {
		b := rng.Intn(a + 1)
		j.keys[a], j.keys[b] = j.keys[b], j.keys[a]
		j.vals[a], j.vals[b] = j.vals[b], j.vals[a]
	}
	return j
}

// one fault somewhere in the document (it may happen to stay valid: the reference decides)
func cMutate(rng *lp.Rand, j *J) *J {
	var nodes []*J
	var walk func(x *J)
	walk = func(x *J) {
		nodes = append(nodes, x)
		for _, e := range x.arr {
			walk(e)
		}
		for _, e := range x.vals {
			walk(e)
		}
	}
	c := cloneJ(j)
	walk(c)
	x := lp.Pick(rng, nodes)
	switch rng.Intn(5) {
	case 0: // drop a member / an item
		if x.kind == "obj" && len(x.keys) > 0 {
			i := rng.Intn(len(x.keys))
			x.keys = append(x.keys[:i:i], x.keys[i+1:]...)
			x.vals = append(x.vals[:i:i], x.vals[i+1:]...)
		} else if x.kind == "arr" && len(x.arr) > 0 {
			x.arr = x.arr[1:]
		} else {
			*x = J{kind: "null"}
		}
	case 1:
		*x = J{kind: "null"}
	case 2: // another kind
		repl := []*J{{kind: "num", raw: "3"}, {kind: "str", s: "x"}, {kind: "bool", b: true}, {kind: "arr"}, {kind: "obj"}, {kind: "arr", arr: []*J{{kind: "null"}}},
			// number literals no integer decoder takes: a fraction or exponent part, a value beyond 64 bits
			{kind: "num", raw: "1.0"}, {kind: "num", raw: "1.5"}, {kind: "num", raw: "1e2"}, {kind: "num", raw: "2E0"}, {kind: "num", raw: "-0.0"},
			{kind: "num", raw: "9223372036854775808"}, {kind: "num", raw: "-9223372036854775809"}, {kind: "num", raw: "123456789012345678901234567890"},
			{kind: "num", raw: "9223372036854775807"}, {kind: "num", raw: "-9223372036854775808"}}
		*x = *lp.Pick(rng, repl)
	case 3: // a null item / member value inside a collection
		if x.kind == "arr" {
			x.arr = append(x.arr, &J{kind: "null"})
		} else if x.kind == "obj" && len(x.vals) > 0 {
			x.vals[rng.Intn(len(x.vals))] = &J{kind: "null"}
		}
	case 4: // rename a member (a declared member goes missing, an undeclared one appears)
		if x.kind == "obj" && len(x.keys) > 0 {
			i := rng.Intn(len(x.keys))
			nk := x.keys[i] + "_"
			for _, k := range x.keys {
				if k == nk {
					nk = ""
				}
			}
			if nk != "" {
				x.keys[i] = nk
			}
		}
	}
	return c
}

func cloneJ(j *J) *J {
	c := *j
	c.arr = nil
	for _, e := range j.arr {
		c.arr = append(c.arr, cloneJ(e))
	}
	c.keys = append([]string(nil), j.keys...)
	c.vals = nil
	for _, e := range j.vals {
		c.vals = append(c.vals, cloneJ(e))
	}
	return &c
}

// reference: the schema as a predicate on documents (unique member names)
func (t *cTy) valid(j *J) bool {
	switch t.kind {
	case "int":
		// an integer literal (no fraction, no exponent) within 64 bits
		if j.kind != "num" || strings.ContainsAny(j.raw, ".eE") {
			return false
		}
		n, ok := new(big.Int).SetString(j.raw, 10)
		return ok && n.IsInt64()
	case "str":
		return j.kind == "str"
	case "bool":
		return j.kind == "bool"
	case "arr":
		if j.kind != "arr" {
			return false
		}
		for _, e := range j.arr {
			if e.kind == "null" {
				if !t.nul {
					return false
				}
			} else if !t.item.valid(e) {
				return false
			}
		}
		return true
	}
	if j.kind != "obj" {
		return false
	}
	if t.closed {
		for _, k := range j.keys {
			known := false
			for _, f := range t.fields {
				known = known || f.name == k
			}
			if !known {
				return false
			}
		}
	}
	for _, f := range t.fields {
		var v *J
		for i, k := range j.keys {
			if k == f.name {
				v = j.vals[i]
			}
		}
		switch {
		case v == nil:
			if f.req {
				return false
			}
		case v.kind == "null":
			if !f.nul {
				return false
			}
		default:
			if !f.ty.valid(v) {
				return false
			}
		}
	}
	return true
}

// reference: the keywords (on a document that has the right shape)
func (t *cTy) keywordsOK(j *J) bool {
	lenOK := func(n int) bool { return n >= t.lmin && (t.lmax == nil || n <= *t.lmax) }
	switch {
	case j.kind == "null":
		return true
	case t.kind == "int" && j.kind == "num":
		n, ok := new(big.Int).SetString(j.raw, 10)
		if !ok {
			return false
		}
		if t.imin != nil {
			if c := n.Cmp(big.NewInt(*t.imin)); c < 0 || (c == 0 && t.exMin) {
				return false
			}
		}
		if t.imax != nil {
			if c := n.Cmp(big.NewInt(*t.imax)); c > 0 || (c == 0 && t.exMax) {
				return false
			}
		}
		if t.mult != 0 && new(big.Int).Mod(n, big.NewInt(t.mult)).Sign() != 0 {
			return false
		}
	case t.kind == "str" && j.kind == "str":
		return lenOK(utf8.RuneCountInString(j.s))
	case t.kind == "arr" && j.kind == "arr":
		if !lenOK(len(j.arr)) {
			return false
		}
		for _, e := range j.arr {
			if !t.item.keywordsOK(e) {
				return false
			}
		}
	case t.kind == "obj" && j.kind == "obj":
		for _, f := range t.fields {
			for i, k := range j.keys {
				if k == f.name && !f.ty.keywordsOK(j.vals[i]) {
					return false
				}
			}
		}
	}
	return true
}

// reference: the document reduced to what the schema names, in declaration order (what a faithful codec writes back)
func (t *cTy) project(j *J) *J {
	switch {
	case j.kind == "null":
		return j
	case t.kind == "arr":
		o := &J{kind: "arr"}
		for _, e := range j.arr {
			o.arr = append(o.arr, t.item.project(e))
		}
		return o
	case t.kind == "obj":
		o := &J{kind: "obj"}
		for _, f := range t.fields {
			found := false
			for i, k := range j.keys {
				if k == f.name {
					found = true
					o.keys, o.vals = append(o.keys, k), append(o.vals, f.ty.project(j.vals[i]))
				}
			}
			if !found && f.dflt != nil {
				// an absent member that has a schema default arrives as that default (and is written back)
				o.keys, o.vals = append(o.keys, f.name), append(o.vals, f.dflt)
			}
		}
		return o
	}
	return j
}

// order-preserving parse of a JSON text into J
func parseJOrdered(text string) (*J, error) {
	dec := json.NewDecoder(bytes.NewReader([]byte(text)))
	dec.UseNumber()
	var val func() (*J, error)
	val = func() (*J, error) {
		tok, err := dec.Token()
		if err != nil {
			return nil, err
		}
		switch x := tok.(type) {
		case nil:
			return &J{kind: "null"}, nil
		case bool:
			return &J{kind: "bool", b: x}, nil
		case string:
			return &J{kind: "str", s: x}, nil
		case json.Number:
			return &J{kind: "num", raw: x.String()}, nil
		case json.Delim:
			if x == '[' {
				j := &J{kind: "arr"}
				for dec.More() {
					e, err := val()
					if err != nil {
						return nil, err
					}
					j.arr = append(j.arr, e)
				}
				_, err := dec.Token()
				return j, err
			}
			j := &J{kind: "obj"}
			for dec.More() {
				k, err := dec.Token()
				if err != nil {
					return nil, err
				}
				e, err := val()
				if err != nil {
					return nil, err
				}
				j.keys, j.vals = append(j.keys, k.(string)), append(j.vals, e)
			}
			_, err := dec.Token()
			return j, err
		}
		return nil, fmt.Errorf("unexpected token %v", tok)
	}
	return val()
}

type codecPkg struct {
	pkg   *gc.Pkg
	types []*cTy
	doc   string
}

// c04CodecAdd: packages of codec-fragment types, added to the scratch module before it is built
func c04CodecAdd(r *lp.Run, rng *lp.Rand, mod *gc.Module) []*codecPkg {
	var out []*codecPkg
	for p := 0; p < r.N(5, 40); p++ {
		cp := &codecPkg{}
		comps := map[string]any{}
		paths := map[string]any{}
		for i := 0; i < 6; i++ {
			t := genCTy(rng, 3, true)
			cp.types = append(cp.types, t)
			name := fmt.Sprintf("T%d", i)
			comps[name] = t.schema(false)
			paths["/"+name] = map[string]any{"post": map[string]any{"operationId": "op" + name,
				"requestBody": map[string]any{"required": true, "content": map[string]any{"application/json": map[string]any{"schema": map[string]any{"$ref": "#/components/schemas/" + name}}}},
				"responses":   map[string]any{"200": map[string]any{"description": "ok"}}}}
		}
		doc, _ := json.Marshal(map[string]any{"openapi": "3.0.3", "info": map[string]any{"title": "t", "version": "1"}, "paths": paths, "components": map[string]any{"schemas": comps}})
		cp.doc = string(doc)
		pkg, err := mod.Add(fmt.Sprintf("cd%d", p), doc, gen.Options{})
		if err != nil {
			r.Fail(lp.PropFail{Property: "C04", What: "the generator refuses a document of the codec fragment (objects, arrays, integers, strings, booleans; required / nullable members)", Input: json.RawMessage(doc), Observed: err.Error(), Expected: "generated package"})
			continue
		}
		cp.pkg = pkg
		out = append(out, cp)
	}
	return out
}

func c04Codec(r *lp.Run, rng *lp.Rand, drv *gc.Driver, pkgs []*codecPkg) {
	for _, cp := range pkgs {
		for ti, t := range cp.types {
			name := fmt.Sprintf("T%d", ti)
			var docs []*J
			var texts [][]string
			for i := 0; i < r.N(60, 400); i++ {
				j := t.instance(rng)
				if rng.Chance(45) {
					j = cMutate(rng, j)
				}
				var sb strings.Builder
				(&jgen{r: rng}).text(j, &sb)
				docs = append(docs, j)
				texts = append(texts, []string{sb.String()})
			}
			ans, _ := drv.Do(map[string]any{"pkg": cp.pkg.Name, "cmd": "decodebatch", "type": name, "items": texts})
			res, ok := ans["results"].([]any)
			if !ok || len(res) != len(docs) {
				r.Fail(lp.PropFail{Property: "C04", What: "driver failure", Input: map[string]any{"type": name, "document": json.RawMessage(cp.doc)}, Observed: fmt.Sprint(ans), Expected: "results"})
				continue
			}
			var tt strings.Builder
			t.toks(&tt)
			for i, x := range res {
				one := x.(map[string]any)
				in := map[string]any{"type": name, "schema": t.schema(false), "instance": texts[i][0]}
				got := ""
				switch {
				case one["driver_panic"] != nil || one["decode_panic"] != nil:
					r.PropCheck()
					r.Fail(lp.PropFail{Property: "C04", What: "the generated decoder panics", Input: in, Observed: fmt.Sprint(one["driver_panic"], one["decode_panic"]), Expected: "value or error"})
					continue
				case one["decode_err"] != nil:
					got = "none"
				default:
					again, _ := one["again"].(map[string]any)
					text, _ := again["text"].(string)
					back, err := parseJOrdered(text)
					if err != nil {
						r.PropCheck()
						r.Fail(lp.PropFail{Property: "C04", What: "the re-encoding of a decoded document is not well-formed JSON", Input: in, Observed: text, Expected: "JSON"})
						continue
					}
					var sb strings.Builder
					jtoks(back, &sb)
					got = strings.TrimSpace(sb.String())
				}
				var dt strings.Builder
				jtoks(docs[i], &dt)
				valid := t.valid(docs[i])
				r.Case("jcodec", tt.String()+strings.TrimSpace(dt.String()), got, fmt.Sprintf("codec:valid=%v", valid), len(docs[i].keys) > 1)
				// ---- the property on the implementation ----
				r.PropCheck()
				switch {
				case valid && got == "none":
					r.Fail(lp.PropFail{Property: "C04", What: "a document that the schema admits is refused by the generated decoder", Input: in, Observed: fmt.Sprint(one["decode_err"]), Expected: "decoded"})
				case !valid && got != "none":
					r.Fail(lp.PropFail{Property: "C04", What: "a document that the schema does not admit (missing required member, null where not nullable, wrong JSON type) is decoded", Input: in, Observed: got, Expected: "refused"})
				case valid:
					var want strings.Builder
					jtoks(t.project(docs[i]), &want)
					if w := strings.TrimSpace(want.String()); w != got {
						r.Fail(lp.PropFail{Property: "C04", What: "decoding and re-encoding a valid document changes it (beyond dropping undeclared members and ordering by declaration)", Input: in, Observed: got, Expected: w})
					}
				}
			}
		}
	}
}

// C03 on the same fragment with validation keywords: the regenerated *server's* verdict on a body (handler reached
// or 400) against the Lean model's `accept` (decode, then Validate) and the reference (shape and keywords)
func c03CodecAdd(r *lp.Run, rng *lp.Rand, mod *gc.Module) []*codecPkg {
	var out []*codecPkg
	for p := 0; p < r.N(4, 30); p++ {
		cp := &codecPkg{}
		comps := map[string]any{}
		paths := map[string]any{}
		for i := 0; i < 6; i++ {
			t := genCTyK(rng, 3, true)
			cp.types = append(cp.types, t)
			name := fmt.Sprintf("T%d", i)
			comps[name] = t.schema(false)
			paths["/"+name] = map[string]any{"post": map[string]any{"operationId": "op" + name,
				"requestBody": map[string]any{"required": true, "content": map[string]any{"application/json": map[string]any{"schema": map[string]any{"$ref": "#/components/schemas/" + name}}}},
				"responses":   map[string]any{"200": map[string]any{"description": "ok"}}}}
		}
		doc, _ := json.Marshal(map[string]any{"openapi": "3.0.3", "info": map[string]any{"title": "t", "version": "1"}, "paths": paths, "components": map[string]any{"schemas": comps}})
		cp.doc = string(doc)
		pkg, err := mod.Add(fmt.Sprintf("ck%d", p), doc, gen.Options{})
		if err != nil {
			r.Fail(lp.PropFail{Property: "C03", What: "the generator refuses a document of the codec fragment with validation keywords", Input: json.RawMessage(doc), Observed: err.Error(), Expected: "generated package"})
			continue
		}
		cp.pkg = pkg
		out = append(out, cp)
	}
	return out
}

func c03Codec(r *lp.Run, rng *lp.Rand, drv *gc.Driver, pkgs []*codecPkg) {
	for _, cp := range pkgs {
		for ti, t := range cp.types {
			name := fmt.Sprintf("T%d", ti)
			var docs []*J
			var items [][3]string
			for i := 0; i < r.N(60, 400); i++ {
				j := t.instance(rng)
				if rng.Chance(30) {
					j = cMutate(rng, j)
				}
				var sb strings.Builder
				(&jgen{r: rng}).text(j, &sb)
				docs = append(docs, j)
				items = append(items, [3]string{"POST", "/" + name, sb.String()})
			}
			ans, _ := drv.Do(map[string]any{"pkg": cp.pkg.Name, "cmd": "postbatch", "items": items})
			res, ok := ans["results"].([]any)
			if !ok || len(res) != len(docs) {
				r.Fail(lp.PropFail{Property: "C03", What: "driver failure", Input: map[string]any{"type": name, "document": json.RawMessage(cp.doc)}, Observed: fmt.Sprint(ans), Expected: "results"})
				continue
			}
			var tt strings.Builder
			t.toks(&tt)
			for i, x := range res {
				out := fmt.Sprint(x)
				in := map[string]any{"type": name, "schema": t.schema(false), "instance": items[i][2]}
				accepted := strings.HasPrefix(out, "501 h1") || strings.HasPrefix(out, "200 h1")
				refused := strings.HasPrefix(out, "400 h0")
				var dt strings.Builder
				jtoks(docs[i], &dt)
				shape := t.valid(docs[i])
				want := shape && t.keywordsOK(docs[i])
				got := "refuse"
				if accepted {
					got = "accept"
				}
				r.PropCheck()
				if strings.Contains(out, "panic=") || (!accepted && !refused) {
					r.Fail(lp.PropFail{Property: "C03", What: "the server answers a body with something other than the handler or 400", Input: in, Observed: out, Expected: "handler or 400"})
					continue
				}
				r.Case("jaccept", tt.String()+strings.TrimSpace(dt.String()), got, fmt.Sprintf("accept:shape=%v,valid=%v", shape, want), shape)
				switch {
				case want && !accepted:
					r.Fail(lp.PropFail{Property: "C03", What: "a body that is valid against the schema is refused", Input: in, Observed: out, Expected: "handler invoked"})
				case !want && accepted:
					r.Fail(lp.PropFail{Property: "C03", What: "a body that violates the schema (shape or keyword) reaches the handler", Input: in, Observed: out, Expected: "400, handler not invoked"})
				}
			}
		}
	}
}
