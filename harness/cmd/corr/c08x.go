package main

import (
	"encoding/json"
	"fmt"
	"os"
	"path/filepath"
	"regexp"
	"strconv"
	"strings"

	"github.com/ogen-go/ogen/gen"
	"github.com/ogen-go/ogen/ogenregex"

	"verifharness/internal/gc"
	"verifharness/internal/lp"
)

// engine agreement: a pattern of the sub-fragment that both engines implement faithfully (literals in every
// escape spelling, classes of literals and ranges, \d \w, ^ $, concatenation, alternation, * + ?) is forced
// onto the backtracking engine by a look-ahead that cannot fail or a look-behind that cannot fail, and must
// answer as the converted pattern does
func c08EngineAgreement(r *lp.Run, rng *lp.Rand) {
	lit := func(c rune) string {
		switch rng.Intn(6) {
		case 0:
			return fmt.Sprintf(`\u{%x}`, c)
		case 1:
			return fmt.Sprintf(`\u{%06X}`, c)
		case 2:
			if c <= 0xFFFF {
				return fmt.Sprintf(`\u%04x`, c)
			}
		case 3:
			if c <= 0xFF {
				return fmt.Sprintf(`\x%02X`, c)
			}
		}
		if strings.ContainsRune(`\^$.|?*+()[]{}/-`, c) {
			return `\` + string(c)
		}
		return string(c)
	}
	alpha := []rune{'a', 'b', 'c', 'd', 'u', '6', '1', '{', '}', 'é', 0x20000, '-', 'Z', '_', ' '}
	var atom func(d int) string
	atom = func(d int) string {
		switch k := rng.Intn(10); {
		case k < 4:
			return lit(lp.Pick(rng, alpha))
		case k == 4:
			// range endpoints other than '-': regexp2 itself mis-reads a class range that starts or ends with an
			// escaped hyphen (`[\--d]`), which is the third-party engine's deviation, not the conversion's
			a, b := lp.Pick(rng, alpha), lp.Pick(rng, alpha)
			for a == '-' || b == '-' {
				a, b = lp.Pick(rng, alpha), lp.Pick(rng, alpha)
			}
			if a > b {
				a, b = b, a
			}
			neg := ""
			if rng.Chance(30) {
				neg = "^"
			}
			single := lp.Pick(rng, alpha)
			for single == '-' {
				single = lp.Pick(rng, alpha)
			}
			return "[" + neg + lit(a) + "-" + lit(b) + lit(single) + "]"
		case k == 5:
			return lp.Pick(rng, []string{`\d`, `\w`, `\D`, `\W`})
		case k == 6 && d > 0:
			return "(?:" + atom(d-1) + "|" + atom(d-1) + ")"
		case k == 7 && d > 0:
			return "(?:" + atom(d-1) + atom(d-1) + ")" + lp.Pick(rng, []string{"*", "+", "?"})
		default:
			return lit(lp.Pick(rng, alpha)) + lp.Pick(rng, []string{"", "*", "+", "?"})
		}
	}
	var subjects []string
	subjects = append(subjects, "")
	for _, a := range alpha {
		subjects = append(subjects, string(a))
		for _, b := range alpha {
			subjects = append(subjects, string(a)+string(b))
		}
	}
	subjects = append(subjects, "uuuuuu", strings.Repeat("u", 61), strings.Repeat("u", 0x61), "a{61}", "u{61}", "abc", "bcd")
	forcers := []string{"(?=)", "(?!\\u{10FFFF}\\u{10FFFE})", "(?<=)"}
	n := r.N(150, 3000)
	for i := 0; i < n; i++ {
		p := ""
		for k := 0; k < 1+rng.Intn(3); k++ {
			p += atom(2)
		}
		if rng.Bool() {
			p = "^" + p + "$"
		}
		plain, err := ogenregex.Compile(p)
		if err != nil {
			r.PropCheck()
			r.Fail(lp.PropFail{Property: "C08", What: "a pattern of the portable grammar does not compile", Input: map[string]string{"pattern": p}, Observed: err.Error(), Expected: "compiles"})
			continue
		}
		f := lp.Pick(rng, forcers)
		fp := f + p
		if strings.HasPrefix(p, "^") {
			fp = "^" + f + p[1:]
		}
		forced, err := ogenregex.Compile(fp)
		r.PropCheck()
		if err != nil {
			r.Count("engine "+fp, "engine:compile-error", true)
			r.Fail(lp.PropFail{Property: "C08", What: "a pattern that compiles on the linear-time engine does not compile on the backtracking engine once a look-around forces it there", Input: map[string]string{"pattern": fp, "without_look_around": p}, Observed: err.Error(), Expected: "compiles"})
			continue
		}
		bad := ""
		for _, s := range subjects {
			a, _ := plain.MatchString(s)
			b, _ := forced.MatchString(s)
			if a != b {
				bad = fmt.Sprintf("subject %q: converted pattern %v, backtracking engine %v", s, a, b)
				break
			}
		}
		r.Count("engine "+fp, "engine:"+map[bool]string{true: "agree", false: "DIFFER"}[bad == ""], true)
		if bad != "" {
			r.Fail(lp.PropFail{Property: "C08", What: "the backtracking engine and the converted pattern disagree on a pattern both implement", Input: map[string]string{"pattern": fp, "without_look_around": p}, Observed: bad, Expected: "same answer"})
		}
	}
}

// generated validators: a `pattern` keyword must behave in regenerated code exactly as ogenregex.Compile says
// (which the suite ties to the ECMA-262 model) — no pattern may be dropped, approximated or special-cased on
// the way through the generator
func c08Generated(r *lp.Run) {
	patterns := []string{`^.*$`, `^(.*)$`, `.*`, `^.+$`, `^[\s\S]*$`, `^a.c$`, `^\S+$`, `^\s*$`, `^$`, `^(?:)$`, `a`, `^[^]$`, `^\w+$`, `^.?$`, `(?=a)a`, `^(?!b).$`, `^\d{2}$`, `^a|b$`}
	subjects := []string{"", "a", "abc", "a\nc", "\n", "a\r", "\u2028", "a\u2029b", "\u0085", "\u00a0", "\t", " ", "\ufeff", "12", "b", "a\n", "\nb", "é", "\U00020000"}
	scratch := os.Getenv("VERIF_SCRATCH")
	if scratch == "" {
		scratch = "/var/tmp"
	}
	mod, err := gc.NewModule(filepath.Join(scratch, fmt.Sprintf("gc-c08-%d", os.Getpid())))
	if err != nil {
		panic(err)
	}
	defer os.RemoveAll(mod.Dir)
	paths := map[string]any{}
	for i, p := range patterns {
		paths[fmt.Sprintf("/p%d", i)] = map[string]any{"post": map[string]any{"operationId": fmt.Sprintf("p%d", i),
			"requestBody": map[string]any{"required": true, "content": map[string]any{"application/json": map[string]any{"schema": map[string]any{"type": "object", "required": []any{"s"}, "properties": map[string]any{"s": map[string]any{"type": "string", "pattern": p}}}}}},
			"responses":   map[string]any{"200": map[string]any{"description": "ok"}}}}
	}
	// a pattern next to the other string keywords: every keyword is checked, none takes the place of another
	type combo struct {
		name     string
		extra    map[string]any
		pattern  string
		subjects []string // all of them satisfy the other keywords
	}
	combos := []combo{
		{"email", map[string]any{"format": "email"}, `^[a-m]`, []string{"a@b.co", "x.y@example.com", "m@example.org", "zed@example.com"}},
		{"email", map[string]any{"format": "email"}, `\.com$`, []string{"a@b.co", "x.y@example.com", "m@example.org"}},
		{"hostname", map[string]any{"format": "hostname"}, `^[a-m]`, []string{"example.com", "a-b.example", "zed.example", "m.example"}},
		{"hostname", map[string]any{"format": "hostname"}, `^(?!ex)`, []string{"example.com", "a-b.example"}},
		{"lengths", map[string]any{"minLength": 2, "maxLength": 4}, `^a`, []string{"ab", "ba", "abcd", "bcda"}},
		{"email+lengths", map[string]any{"format": "email", "minLength": 3, "maxLength": 40}, `^z`, []string{"a@b.co", "z@b.co"}},
	}
	for i, c := range combos {
		sch := map[string]any{"type": "string", "pattern": c.pattern}
		for k, v := range c.extra {
			sch[k] = v
		}
		paths[fmt.Sprintf("/c%d", i)] = map[string]any{"post": map[string]any{"operationId": fmt.Sprintf("c%d", i),
			"requestBody": map[string]any{"required": true, "content": map[string]any{"application/json": map[string]any{"schema": map[string]any{"type": "object", "required": []any{"s"}, "properties": map[string]any{"s": sch}}}}},
			"responses":   map[string]any{"200": map[string]any{"description": "ok"}}}}
	}
	doc, _ := json.Marshal(map[string]any{"openapi": "3.0.3", "info": map[string]any{"title": "t", "version": "1"}, "paths": paths})
	pkg, err := mod.Add("rx", doc, gen.Options{})
	if err != nil {
		r.Fail(lp.PropFail{Property: "C08", What: "the generator refuses the pattern spec", Input: string(doc), Observed: err.Error(), Expected: "generated package"})
		return
	}
	bin, err := mod.Build()
	if err != nil {
		r.Fail(lp.PropFail{Property: "C02", What: "generated packages do not compile", Input: "C08 pattern spec", Observed: err.Error(), Expected: "compiles"})
		return
	}
	drv, err := gc.Start(bin)
	if err != nil {
		panic(err)
	}
	defer drv.Close()
	for i, p := range patterns {
		re, err := ogenregex.Compile(p)
		if err != nil {
			r.Fail(lp.PropFail{Property: "C08", What: "pattern does not compile", Input: p, Observed: err.Error(), Expected: "compiles"})
			continue
		}
		var items [][3]string
		for _, s := range subjects {
			b, _ := json.Marshal(map[string]string{"s": s})
			items = append(items, [3]string{"POST", fmt.Sprintf("/p%d", i), string(b)})
		}
		ans, _ := drv.Do(map[string]any{"pkg": pkg.Name, "cmd": "postbatch", "items": items, "text": "why"})
		res, ok := ans["results"].([]any)
		if !ok {
			r.Fail(lp.PropFail{Property: "C08", What: "driver failure", Input: p, Observed: fmt.Sprint(ans), Expected: "results"})
			continue
		}
		for k, x := range res {
			out := fmt.Sprint(x)
			want, _ := re.MatchString(subjects[k])
			accepted := strings.HasPrefix(out, "501 h1")
			refused := strings.HasPrefix(out, "400 h0")
			r.Count("c08 gen "+p+subjects[k], fmt.Sprintf("generated-validator:%v", want), true)
			r.PropCheck()
			if (want && !accepted) || (!want && !refused) {
				r.Fail(lp.PropFail{Property: "C08", What: "the generated validator for a `pattern` does not answer as the compiled pattern does", Input: map[string]string{"pattern": p, "subject": subjects[k]}, Observed: out, Expected: map[bool]string{true: "accepted (handler invoked)", false: "400"}[want]})
			}
		}
	}
	for i, c := range combos {
		re, err := ogenregex.Compile(c.pattern)
		if err != nil {
			r.Fail(lp.PropFail{Property: "C08", What: "pattern does not compile", Input: c.pattern, Observed: err.Error(), Expected: "compiles"})
			continue
		}
		var items [][3]string
		for _, s := range c.subjects {
			b, _ := json.Marshal(map[string]string{"s": s})
			items = append(items, [3]string{"POST", fmt.Sprintf("/c%d", i), string(b)})
		}
		ans, _ := drv.Do(map[string]any{"pkg": pkg.Name, "cmd": "postbatch", "items": items, "text": "why"})
		res, ok := ans["results"].([]any)
		if !ok {
			r.Fail(lp.PropFail{Property: "C08", What: "driver failure", Input: c.pattern, Observed: fmt.Sprint(ans), Expected: "results"})
			continue
		}
		for k, x := range res {
			out := fmt.Sprint(x)
			want, _ := re.MatchString(c.subjects[k])
			accepted := strings.HasPrefix(out, "501 h1")
			refused := strings.HasPrefix(out, "400 h0")
			r.Count("c08 gen "+c.name+c.pattern+c.subjects[k], fmt.Sprintf("generated-validator-with-%s:%v", c.name, want), true)
			r.PropCheck()
			if (want && !accepted) || (!want && !refused) {
				r.Fail(lp.PropFail{Property: "C08", What: "a `pattern` next to other string keywords (" + c.name + ") is not executed as the compiled pattern answers", Input: map[string]any{"pattern": c.pattern, "other_keywords": c.extra, "subject": c.subjects[k]}, Observed: out, Expected: map[bool]string{true: "accepted (handler invoked)", false: "400"}[want]})
			}
		}
	}
}

// control-letter and legacy octal escapes: every `\cX` (X a letter) denotes the code point X mod 32, every
// octal escape below \400 the code point with that octal value — checked on the compiled pattern
func c08Escapes(r *lp.Run) {
	check := func(esc string, cp rune) {
		p := "^" + esc + "$"
		re, err := ogenregex.Compile(p)
		r.Count("escape "+esc, "escape", true)
		r.PropCheck()
		in := map[string]string{"pattern": p, "denotes": fmt.Sprintf("U+%04X", cp)}
		if err != nil {
			r.Fail(lp.PropFail{Property: "C08", What: "an escape of the portable grammar does not compile", Input: in, Observed: err.Error(), Expected: "compiles"})
			return
		}
		yes, _ := re.MatchString(string(cp))
		no1, _ := re.MatchString(string(cp) + "0")
		no2, _ := re.MatchString(string(cp/16) + string('0'+cp%16))
		no3, _ := re.MatchString(esc)
		if !yes || no1 || no2 || no3 {
			r.Fail(lp.PropFail{Property: "C08", What: "an escape does not denote its code point", Input: in, Observed: fmt.Sprintf("matches its code point: %v; matches <cp>0: %v; matches the escape's own text: %v", yes, no1 || no2, no3), Expected: "true false false"})
		}
	}
	for c := 'A'; c <= 'Z'; c++ {
		check(`\c`+string(c), c%32)
		check(`\c`+string(c+32), c%32)
		check(`[\c`+string(c)+`]`, c%32)
	}
	for v := 1; v < 0o400; v++ {
		if v < 8 {
			continue // \1..\7 are back-references when groups exist; \0 is NUL — covered by the token stream
		}
		check(`\`+strconv.FormatInt(int64(v), 8), rune(v))
	}
	check(`\0`, 0)
	// beyond three digits / beyond \377 the escape ends early and the remaining digits are literals (Annex B)
	for _, c := range []struct {
		p, yes string
		no     []string
	}{
		{`^\400$`, " 0", []string{"\u0100", "\x100"}}, {`^\477$`, "'7", []string{"\u013f"}}, {`^\777$`, "?7", []string{"\u01ff"}},
		{`^\1234$`, "S4", []string{"\u029c"}}, {`^\0377$`, "\x1f7", []string{"\u00ff"}}, {`^\3777$`, "\u00ff7", []string{"\u07ff"}}, {`^\1010$`, "A0", []string{"\u0208"}},
		{`^[\400]$`, " ", []string{"\u0100"}}, {`^[\400]$`, "0", nil},
	} {
		re, err := ogenregex.Compile(c.p)
		r.Count("escape-long "+c.p+c.yes, "escape-long", true)
		r.PropCheck()
		in := map[string]string{"pattern": c.p}
		if err != nil {
			r.Fail(lp.PropFail{Property: "C08", What: "an escape of the portable grammar does not compile", Input: in, Observed: err.Error(), Expected: "compiles"})
			continue
		}
		unq := func(s string) string { u, err := strconv.Unquote(`"` + s + `"`); if err != nil { return s }; return u }
		if ok, _ := re.MatchString(unq(c.yes)); !ok {
			r.Fail(lp.PropFail{Property: "C08", What: "a legacy octal escape swallows more than three digits / more than \\377", Input: in, Observed: "does not match " + strconv.Quote(unq(c.yes)), Expected: "matches"})
		}
		for _, n := range c.no {
			if ok, _ := re.MatchString(unq(n)); ok {
				r.Fail(lp.PropFail{Property: "C08", What: "a legacy octal escape swallows more than three digits / more than \\377", Input: in, Observed: "matches " + strconv.Quote(unq(n)), Expected: "no match"})
			}
		}
	}
}

// patterns made of class edge cases and nothing the converter would otherwise have to touch (no backslash, dot or
// parenthesis): `[]` / `[^]` next to `]`, a `[` inside a class, POSIX-looking classes, hyphens at the ends.
// ECMA-262 and RE2 read these differently (under ECMA-262 the first `]` ends a class, `[` inside one is an ordinary
// character and there are no POSIX classes), so each is paired with its ECMA-262 reading written out by hand in
// RE2 syntax, and `Compile(p)` must match exactly what that oracle matches. (The backtracking engine is no oracle
// here: regexp2 itself gives `[[:alpha:]]` a reading of its own.)
func c08ClassEdges(r *lp.Run) {
	const anyC, noC = `[\x00-\x{10FFFF}]`, `[^\x00-\x{10FFFF}]`
	cases := [][2]string{
		{`[]]`, noC + `\]`}, {`^x[^]]$`, `^x` + anyC + `\]$`}, {`^[[:alpha:]]$`, `^[\[:alph]\]$`}, {`^[^[:digit:]]+$`, `^[^\[:digt]\]+$`},
		{`[[:alpha:]]`, `[\[:alph]\]`}, {`^[[:^alpha:]]$`, `^[\[:\^alph]\]$`}, {`a[]b`, `a` + noC + `b`}, {`^[^]$`, `^` + anyC + `$`}, {`^[^][^]$`, `^` + anyC + anyC + `$`},
		{`[[]`, `\[`}, {`^[a[]$`, `^[a\[]$`}, {`^[[a]$`, `^[\[a]$`}, {`[a-]`, `[a\-]`}, {`^[-a]$`, `^[\-a]$`}, {`^[]a]$`, `^` + noC + `a\]$`}, {`[^]a]`, anyC + `a\]`},
		{`^[$]$`, `^\$$`}, {`^[|]$`, `^\|$`}, {`^[*+?]$`, `^[*+?]$`}, {`^[{}]$`, `^[{}]$`}, {`^[a-c-e]$`, `^[a-c\-e]$`}, {`^[^-a]$`, `^[^\-a]$`},
		{`[]`, noC}, {`[^]`, anyC}, {`^[]*$`, `^$`}, {`^[^]*$`, `^` + anyC + `*$`}, {`^a[]|b$`, `^a` + noC + `|b$`}, {`^[[]]$`, `^\[\]$`}, {`^[[][]]$`, `^\[` + noC + `\]$`},
		// an escaped hyphen between two atoms is a hyphen, not a range
		{`^[+\-.]$`, `^[+\-.]$`}, {`^[a\-c]$`, `^[a\-c]$`}, {`^[$\-|]$`, `^[$\-|]$`}, {`^[^a\-e]$`, `^[^a\-e]$`}, {`^[\--\-]$`, `^\-$`}, {`^[*\-{]$`, `^[*\-{]$`},
		{`[[=a=]]`, `[\[=a]\]`}, {`^[[.a.]]$`, `^[\[.a]\]$`}, {`^[a&&b]$`, `^[a&b]$`}, {`^[a~~b]$`, `^[a~b]$`},
	}
	alpha := []rune{']', '[', ':', 'a', 'l', 'p', 'h', 'b', 'c', 'd', 'e', 'x', '1', '-', '^', '$', '|', '*', '{', '}', '=', '&', '~', '.', ',', '+', 'é', '\n'}
	subjects := []string{""}
	for _, a := range alpha {
		subjects = append(subjects, string(a))
		for _, b := range alpha {
			subjects = append(subjects, string(a)+string(b))
		}
	}
	subjects = append(subjects, "a]]", "x]]", "xa]", "[]]", "ab]", "a:]", ":]]", "abc", "x\n]", "[]a]", "[a]")
	for _, c := range cases {
		p := c[0]
		oracle := regexp.MustCompile(c[1])
		compiled, err := ogenregex.Compile(p)
		r.PropCheck()
		if err != nil {
			r.Count("classedge "+p, "class-edge:compile-error", true)
			r.Fail(lp.PropFail{Property: "C08", What: "a pattern of the portable grammar does not compile", Input: map[string]string{"pattern": p}, Observed: err.Error(), Expected: "compiles"})
			continue
		}
		bad := ""
		for _, s := range subjects {
			a, _ := compiled.MatchString(s)
			if b := oracle.MatchString(s); a != b {
				bad = fmt.Sprintf("subject %q: as compiled %v, ECMA-262 reading %v", s, a, b)
				break
			}
		}
		r.Count("classedge "+p, "class-edge:"+map[bool]string{true: "agree", false: "DIFFER"}[bad == ""], true)
		if bad != "" {
			r.Fail(lp.PropFail{Property: "C08", What: "a class edge case does not mean what it means under ECMA-262", Input: map[string]string{"pattern": p, "ecma_262_reading_in_re2_syntax": c[1]}, Observed: bad, Expected: "same answer"})
		}
	}
}
