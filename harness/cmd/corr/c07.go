package main

import (
	"encoding/json"
	"fmt"
	"sort"
	"strings"

	"github.com/ogen-go/ogen"
	"github.com/ogen-go/ogen/jsonschema"
	"github.com/ogen-go/ogen/openapi"
	"github.com/ogen-go/ogen/openapi/parser"

	"verifharness/internal/lp"
)

func init() { suites["c07"] = c07 }

type M = map[string]any

func cref(kind, name string) M { return M{"$ref": "#/components/" + kind + "/" + name} }

// ---- 1. header reference chains against the Lean resolver model ----

type chainDoc struct {
	depth int
	env   map[int]string // k -> "r<k'>" | "p<payload>"
	refs  [][2]int       // (name id, target k)
}

func (c chainDoc) doc() string {
	headers := M{}
	for k, v := range c.env {
		if v[0] == 'r' {
			headers[fmt.Sprintf("H%d", k)] = cref("headers", "H"+v[1:])
		} else {
			headers[fmt.Sprintf("H%d", k)] = M{"description": "payload " + v[1:], "schema": M{"type": "string"}}
		}
	}
	hs := M{}
	for _, r := range c.refs {
		hs[fmt.Sprintf("X-N%d", r[0])] = cref("headers", fmt.Sprintf("H%d", r[1]))
	}
	doc := M{"openapi": "3.0.3", "info": M{"title": "t", "version": "1"},
		"paths":      M{"/x": M{"get": M{"operationId": "x", "responses": M{"200": M{"description": "ok", "headers": hs}}}}},
		"components": M{"headers": headers}}
	b, _ := json.Marshal(doc)
	return string(b)
}

func (c chainDoc) line() string {
	var es []string
	var ks []int
	for k := range c.env {
		ks = append(ks, k)
	}
	sort.Ints(ks)
	for _, k := range ks {
		es = append(es, fmt.Sprintf("%d=%s", k, c.env[k]))
	}
	env := strings.Join(es, ",")
	if env == "" {
		env = "-"
	}
	// the parser visits the referrers of one response in Go map order; the model's answer does not depend
	// on the order (resolveAll_transparent), so the line lists them sorted by name
	refs := append([][2]int{}, c.refs...)
	sort.Slice(refs, func(i, j int) bool { return refs[i][0] < refs[j][0] })
	var rs []string
	for _, r := range refs {
		rs = append(rs, fmt.Sprintf("%d:%d", r[0], r[1]))
	}
	return fmt.Sprintf("%d %s %s", c.depth, env, strings.Join(rs, ","))
}

func parseChain(c chainDoc) string {
	return lp.Guard(func() string {
		spec, err := ogen.Parse([]byte(c.doc()))
		if err != nil {
			return "spec-err:" + err.Error()
		}
		api, err := parser.Parse(spec, parser.Settings{DepthLimit: c.depth})
		if err != nil {
			e := err.Error()
			switch {
			case strings.Contains(e, "infinite recursion"):
				return "err:cycle"
			case strings.Contains(e, "depth limit"):
				return "err:depth"
			case strings.Contains(e, "resolve") || strings.Contains(e, "not found") || strings.Contains(e, "find"):
				return "err:missing"
			}
			// an error of a wording this harness does not know: the kind of an error is not part of the
			// property (only when one may occur), so the line is not compared with the model
			return "err:unknown:" + e
		}
		var out []string
		for _, op := range api.Operations {
			resp := op.Responses.StatusCode[200]
			var names []string
			for k := range resp.Headers {
				names = append(names, k)
			}
			sort.Slice(names, func(i, j int) bool {
				var a, b int
				fmt.Sscanf(names[i], "X-N%d", &a)
				fmt.Sscanf(names[j], "X-N%d", &b)
				return a < b
			})
			for _, k := range names {
				h := resp.Headers[k]
				var n, p int
				fmt.Sscanf(h.Name, "X-N%d", &n)
				fmt.Sscanf(h.Description, "payload %d", &p)
				// the map key must be the referrer's name too
				var kn int
				fmt.Sscanf(k, "X-N%d", &kn)
				if kn != n {
					out = append(out, fmt.Sprintf("%d(key %d):%d", n, kn, p))
				} else {
					out = append(out, fmt.Sprintf("%d:%d", n, p))
				}
			}
		}
		return "ok " + strings.Join(out, ",")
	})
}

func genChain(rng *lp.Rand) chainDoc {
	c := chainDoc{depth: 1 + rng.Intn(6), env: map[int]string{}}
	n := 1 + rng.Intn(6)
	// an acyclic forest first
	for k := 0; k < n; k++ {
		if k == 0 || rng.Chance(40) {
			c.env[k] = fmt.Sprintf("p%d", 100+k)
		} else {
			c.env[k] = fmt.Sprintf("r%d", rng.Intn(k))
		}
	}
	// at most one defect, so that the reported error kind does not depend on the visiting order
	bad := -1
	switch rng.Intn(6) {
	case 0: // dangling
		bad = n
		c.env[n] = fmt.Sprintf("r%d", 90)
	case 1: // self cycle
		bad = n
		c.env[n] = fmt.Sprintf("r%d", n)
	case 2: // two-cycle
		bad = n
		c.env[n] = fmt.Sprintf("r%d", n+1)
		c.env[n+1] = fmt.Sprintf("r%d", n)
	}
	m := 1 + rng.Intn(4)
	for i := 0; i < m; i++ {
		t := rng.Intn(n)
		if bad >= 0 && rng.Chance(35) {
			t = bad
		}
		if rng.Chance(50) && len(c.refs) > 0 { // share a target
			t = c.refs[rng.Intn(len(c.refs))][1]
		}
		c.refs = append(c.refs, [2]int{i + 1, t})
	}
	return c
}

// chainLen: nodes visited from k to its payload
func (c chainDoc) chainLen(k int) int {
	n := 0
	seen := map[int]bool{}
	for {
		v, ok := c.env[k]
		if !ok || seen[k] {
			return 1 << 20
		}
		seen[k] = true
		n++
		if v[0] == 'p' {
			return n
		}
		fmt.Sscanf(v[1:], "%d", &k)
	}
}

func c07(r *lp.Run) {
	r.SetRule("(1) header components that are $ref chains ending in a payload (forest + at most one defect: dangling, self-cycle, two-cycle), 1–4 referrers under different names sharing targets, depth limits 1–6, through parser.Parse; outcome (name and payload per referrer, or error kind) compared with the Lean resolver threaded through one cache; (2) random documents with shared schema, parameter, header, response, request-body and path-item components (k ≥ 2 referrers), each compared with its fully and randomly-partially inlined form and with a second parse of itself through a structural projection that ignores Ref/location fields. non-trivial = distinct document with a shared target or a chain of length ≥ 2")
	rng := r.Rng.Fork(7)
	n := r.N(3000, 60000)
	for i := 0; i < n; i++ {
		c := genChain(rng)
		out := parseChain(c)
		shared := false
		seen := map[int]bool{}
		for _, rf := range c.refs {
			if seen[rf[1]] {
				shared = true
			}
			seen[rf[1]] = true
		}
		// depth errors depend on which referrer of a shared chain comes first (cache hits shorten later
		// walks): only compare documents whose every chain fits the limit or whose outcome is order-free
		orderFree := true
		for _, rf := range c.refs {
			if l := c.chainLen(rf[1]); l < 1<<20 && l > c.depth {
				orderFree = len(c.refs) == 1
			}
		}
		branch := strings.SplitN(out, " ", 2)[0]
		if strings.HasPrefix(out, "err:unknown") {
			r.Count("refs-impl "+c.line(), "chain-error-of-unknown-wording", shared)
		} else if orderFree {
			r.Case("refs", c.line(), out, "chain:"+branch, shared)
		} else {
			r.Count("refs-impl "+c.line(), "chain-order-dependent:"+branch, shared)
		}
		// ---- the property on the implementation ----
		r.PropCheck()
		in := map[string]any{"document": c.doc(), "depth_limit": c.depth}
		if out == "panic" || strings.HasPrefix(out, "spec-err") {
			r.Fail(lp.PropFail{Property: "C07", What: "unexpected outcome of reference resolution", Input: in, Observed: out, Expected: "resolved headers or a missing/cycle/depth error"})
			continue
		}
		if strings.HasPrefix(out, "ok ") {
			for _, rf := range c.refs {
				want := fmt.Sprintf("%d:%d", rf[0], payloadOf(c, rf[1]))
				if !strings.Contains(","+out[3:]+",", ","+want+",") {
					r.Fail(lp.PropFail{Property: "C07", What: "a referrer does not get its own name and its target's payload ($ref is not transparent)", Input: in, Observed: out, Expected: "… " + want + " …"})
					break
				}
			}
		} else {
			// an error is only right if some referrer's chain is defective or too long
			okErr := false
			for _, rf := range c.refs {
				if c.chainLen(rf[1]) > c.depth {
					okErr = true
				}
			}
			if !okErr {
				r.Fail(lp.PropFail{Property: "C07", What: "resolution fails although every chain is acyclic and within the depth limit", Input: in, Observed: out, Expected: "resolved headers"})
			}
		}
	}
	c07Inline(r, rng)
	c07Recursion(r, rng)
	c07Expand(r, r.Rng.Fork(701))
	c07CompositionDAGs(r, r.Rng.Fork(702))
	c07Hand(r)
	refVariants(r, rng, "C07", r.N(150, 3000), "components moved to an external file", "components moved to an external file, root has decoys of the same names", "components moved to a document addressed by URL (the root has a URL of its own and decoys of the same names)", "components renamed (names made of the prefix's characters, dotted and prefixed sibling names)")
}

func payloadOf(c chainDoc, k int) int {
	for i := 0; i < 100; i++ {
		v, ok := c.env[k]
		if !ok {
			return -1
		}
		if v[0] == 'p' {
			var p int
			fmt.Sscanf(v[1:], "%d", &p)
			return p
		}
		fmt.Sscanf(v[1:], "%d", &k)
	}
	return -1
}

// ---- 2. $ref vs inlined copy, all component kinds ----

func genRefSpec(r *lp.Rand) M {
	nS, nP, nH, nR, nB := 3, 2, 2, 2, 2
	schemas := M{}
	for i := 0; i < nS; i++ {
		props := M{"v" + fmt.Sprint(i): M{"type": "string"}}
		for j := 0; j < nS; j++ {
			if r.Intn(3) == 0 && j > i {
				props["r"+fmt.Sprint(j)] = cref("schemas", fmt.Sprintf("S%d", j))
			}
		}
		if r.Intn(5) == 0 {
			props["self"] = cref("schemas", fmt.Sprintf("S%d", i))
		}
		schemas[fmt.Sprintf("S%d", i)] = M{"type": "object", "properties": props}
	}
	sch := func() any {
		if r.Bool() {
			return cref("schemas", fmt.Sprintf("S%d", r.Intn(nS)))
		}
		return M{"type": lp.Pick(r, []string{"string", "integer", "boolean"})}
	}
	params := M{}
	for i := 0; i < nP; i++ {
		params[fmt.Sprintf("P%d", i)] = M{"name": fmt.Sprintf("q%d", i), "in": "query", "schema": M{"type": "string"}, "description": fmt.Sprintf("param %d", i)}
	}
	headers := M{}
	for i := 0; i < nH; i++ {
		headers[fmt.Sprintf("H%d", i)] = M{"schema": M{"type": []string{"string", "integer"}[i%2]}, "description": fmt.Sprintf("header %d", i)}
	}
	responses := M{}
	for i := 0; i < nR; i++ {
		hs := M{}
		for j := 0; j < 2; j++ {
			if r.Bool() {
				hs[fmt.Sprintf("X-R%d-%d", i, j)] = cref("headers", fmt.Sprintf("H%d", r.Intn(nH)))
			}
		}
		resp := M{"description": fmt.Sprintf("resp %d", i), "content": M{"application/json": M{"schema": sch()}}}
		if len(hs) > 0 {
			resp["headers"] = hs
		}
		responses[fmt.Sprintf("R%d", i)] = resp
	}
	bodies := M{}
	for i := 0; i < nB; i++ {
		bodies[fmt.Sprintf("B%d", i)] = M{"required": i%2 == 0, "content": M{"application/json": M{"schema": sch()}}}
	}
	mkOp := func(id string) M {
		op := M{"operationId": id}
		var ps []any
		for i := 0; i < nP; i++ {
			if r.Bool() {
				ps = append(ps, cref("parameters", fmt.Sprintf("P%d", i)))
			}
		}
		if ps != nil {
			op["parameters"] = ps
		}
		if r.Bool() {
			op["requestBody"] = cref("requestBodies", fmt.Sprintf("B%d", r.Intn(nB)))
		}
		rs := M{}
		for _, code := range []string{"200", "404", "default"} {
			switch r.Intn(3) {
			case 0:
				rs[code] = cref("responses", fmt.Sprintf("R%d", r.Intn(nR)))
			case 1:
				hs := M{}
				for j := 0; j < 2; j++ {
					hs[fmt.Sprintf("X-%s-%d", code, j)] = cref("headers", fmt.Sprintf("H%d", r.Intn(nH)))
				}
				rs[code] = M{"description": "inline " + code, "headers": hs, "content": M{"application/json": M{"schema": sch()}}}
			}
		}
		if len(rs) == 0 {
			rs["200"] = M{"description": "ok"}
		}
		op["responses"] = rs
		return op
	}
	piOp := mkOp("piGet")
	delete(piOp, "operationId")
	pathItems := M{"PI0": M{"get": piOp, "parameters": []any{cref("parameters", "P0")}}}
	paths := M{}
	for i := 0; i < 3; i++ {
		paths[fmt.Sprintf("/p%d", i)] = M{"post": mkOp(fmt.Sprintf("op%d", i))}
	}
	nPI := r.Intn(3)
	for i := 0; i < nPI; i++ {
		paths[fmt.Sprintf("/pi%d", i)] = cref("pathItems", "PI0")
	}
	return M{"openapi": "3.1.0", "info": M{"title": "t", "version": "1"}, "paths": paths,
		"components": M{"schemas": schemas, "parameters": params, "headers": headers, "responses": responses, "requestBodies": bodies, "pathItems": pathItems}}
}

func cloneJSON(v any) any {
	b, _ := json.Marshal(v)
	var out any
	json.Unmarshal(b, &out)
	return out
}

func inlineRefs(root M, v any, which func() bool) any {
	switch t := v.(type) {
	case map[string]any:
		if rf, ok := t["$ref"].(string); ok && !strings.HasPrefix(rf, "#/components/schemas/") && which() {
			parts := strings.Split(strings.TrimPrefix(rf, "#/"), "/")
			var cur any = map[string]any(root)
			for _, p := range parts {
				cur = cur.(map[string]any)[p]
			}
			return inlineRefs(root, cloneJSON(cur), which)
		}
		out := map[string]any{}
		for k, e := range t {
			out[k] = inlineRefs(root, e, which)
		}
		return out
	case []any:
		out := make([]any, len(t))
		for i, e := range t {
			out[i] = inlineRefs(root, e, which)
		}
		return out
	}
	return v
}

func schemaShape(s *jsonschema.Schema, seen map[*jsonschema.Schema]bool) string {
	if s == nil {
		return "nil"
	}
	if seen[s] {
		return "<rec>"
	}
	seen[s] = true
	defer delete(seen, s)
	var props []string
	for _, p := range s.Properties {
		props = append(props, p.Name+":"+schemaShape(p.Schema, seen))
	}
	sort.Strings(props)
	return fmt.Sprintf("%s{%s}", s.Type, strings.Join(props, ","))
}

func projectAPI(api *openapi.API) string {
	var lines []string
	for _, op := range api.Operations {
		var sb strings.Builder
		fmt.Fprintf(&sb, "%s %s id=%s", op.HTTPMethod, op.Path.String(), op.OperationID)
		var ps []string
		for _, p := range op.Parameters {
			ps = append(ps, fmt.Sprintf("%s/%s/%v/%s/%q", p.In, p.Name, p.Required, schemaShape(p.Schema, map[*jsonschema.Schema]bool{}), p.Description))
		}
		sort.Strings(ps)
		fmt.Fprintf(&sb, " params=%v", ps)
		if rb := op.RequestBody; rb != nil {
			var cs []string
			for ct, m := range rb.Content {
				cs = append(cs, ct+":"+schemaShape(m.Schema, map[*jsonschema.Schema]bool{}))
			}
			sort.Strings(cs)
			fmt.Fprintf(&sb, " body(req=%v)=%v", rb.Required, cs)
		}
		resp := func(name string, r *openapi.Response) {
			if r == nil {
				return
			}
			var hs []string
			for k, h := range r.Headers {
				hs = append(hs, fmt.Sprintf("%s->%s/%s/%q", k, h.Name, schemaShape(h.Schema, map[*jsonschema.Schema]bool{}), h.Description))
			}
			sort.Strings(hs)
			var cs []string
			for ct, m := range r.Content {
				cs = append(cs, ct+":"+schemaShape(m.Schema, map[*jsonschema.Schema]bool{}))
			}
			sort.Strings(cs)
			fmt.Fprintf(&sb, " resp[%s]=%q hdr=%v content=%v", name, r.Description, hs, cs)
		}
		var codes []int
		for c := range op.Responses.StatusCode {
			codes = append(codes, c)
		}
		sort.Ints(codes)
		for _, c := range codes {
			resp(fmt.Sprint(c), op.Responses.StatusCode[c])
		}
		resp("default", op.Responses.Default)
		for i, req := range op.Security {
			var ss []string
			for _, sc := range req.Schemes {
				x := sc.Security
				ss = append(ss, fmt.Sprintf("%s:%s/%s/%s/%s/custom=%v/%v", sc.Name, x.Type, x.Name, x.In, x.Scheme, x.XOgenCustomSecurity, sc.Scopes))
			}
			sort.Strings(ss)
			fmt.Fprintf(&sb, " sec[%d]=%v", i, ss)
		}
		lines = append(lines, sb.String())
	}
	sort.Strings(lines)
	return strings.Join(lines, "\n")
}

func parseProject(spec any) (string, error) {
	data, _ := json.Marshal(spec)
	var out string
	var perr error
	res := lp.Guard(func() string {
		s, err := ogen.Parse(data)
		if err != nil {
			perr = err
			return ""
		}
		api, err := parser.Parse(s, parser.Settings{})
		if err != nil {
			perr = err
			return ""
		}
		out = projectAPI(api)
		return ""
	})
	if res == "panic" {
		return "", fmt.Errorf("panic")
	}
	return out, perr
}

func c07Inline(r *lp.Run, rng *lp.Rand) {
	n := r.N(300, 6000)
	for i := 0; i < n; i++ {
		spec := genRefSpec(rng)
		a, errA := parseProject(spec)
		doc, _ := json.Marshal(spec)
		for variant := 0; variant < 3; variant++ {
			var b string
			var errB error
			what := "fully inlined copy"
			switch variant {
			case 0:
				b, errB = parseProject(inlineRefs(spec, cloneJSON(spec), func() bool { return true }))
			case 1:
				what = "partially inlined copy"
				b, errB = parseProject(inlineRefs(spec, cloneJSON(spec), func() bool { return rng.Bool() }))
			default:
				what = "second parse of the same document"
				b, errB = parseProject(spec)
			}
			r.Count(fmt.Sprintf("inline %d %d", i, variant), "inline:"+what, true)
			r.PropCheck()
			in := map[string]any{"document": json.RawMessage(doc), "compared_with": what}
			switch {
			case (errA == nil) != (errB == nil):
				r.Fail(lp.PropFail{Property: "C07", What: "a document and its " + what + " are not both accepted", Input: in, Observed: fmt.Sprint(errA, " | ", errB), Expected: "same outcome"})
			case errA == nil && a != b:
				la, lb := strings.Split(a, "\n"), strings.Split(b, "\n")
				d := "operation count differs"
				for k := range la {
					if k < len(lb) && la[k] != lb[k] {
						d = "with $ref: " + la[k] + "  ||  " + what + ": " + lb[k]
						break
					}
				}
				r.Fail(lp.PropFail{Property: "C07", What: "a $ref is not equivalent to an inlined copy of its target (" + what + ")", Input: in, Observed: d, Expected: "identical parsed API"})
			}
		}
	}
}
