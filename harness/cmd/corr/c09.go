package main

import (
	"encoding/json"
	"fmt"
	"os"
	"path/filepath"
	"sort"
	"strings"

	"github.com/ogen-go/ogen/gen"

	"verifharness/internal/gc"
	"verifharness/internal/lp"
)

func init() { suites["c09"] = c09 }

type secOp struct {
	name string  // operationId
	reqs [][]int // alternatives over global scheme numbers; nil ⇒ inherit the global requirement
	none bool    // explicit `security: []`
}

type secSpec struct {
	k       int
	global  [][]int
	ops     []secOp
	convErr bool // every operation declares the same default error response (convenient errors become active)
	// schemes of a kind the generator does not implement (openIdConnect); the spec is then generated with
	// ignore_not_implemented, which skips every alternative that names one of them
	unimpl map[int]bool
}

func (s secSpec) doc() string {
	schemes := map[string]any{}
	for i := 0; i < s.k; i++ {
		schemes[fmt.Sprintf("S%d", i)] = map[string]any{"type": "apiKey", "in": "header", "name": fmt.Sprintf("X-S%d", i)}
		if s.unimpl[i] {
			schemes[fmt.Sprintf("S%d", i)] = map[string]any{"type": "openIdConnect", "openIdConnectUrl": "https://example.com/.well-known/openid-configuration"}
		}
	}
	mkReq := func(reqs [][]int) []any {
		out := []any{}
		for _, alt := range reqs {
			m := map[string]any{}
			for _, i := range alt {
				m[fmt.Sprintf("S%d", i)] = []any{}
			}
			out = append(out, m)
		}
		return out
	}
	paths := map[string]any{}
	for _, op := range s.ops {
		o := map[string]any{"operationId": op.name, "responses": map[string]any{"200": map[string]any{"description": "ok"}}}
		if s.convErr {
			o["responses"].(map[string]any)["default"] = map[string]any{"description": "error", "content": map[string]any{"application/json": map[string]any{"schema": map[string]any{"$ref": "#/components/schemas/Error"}}}}
		}
		if op.none {
			o["security"] = []any{}
		} else if op.reqs != nil {
			o["security"] = mkReq(op.reqs)
		}
		paths["/"+op.name] = map[string]any{"get": o}
	}
	doc := map[string]any{"openapi": "3.0.3", "info": map[string]any{"title": "t", "version": "1"}, "paths": paths,
		"components": map[string]any{"securitySchemes": schemes}}
	if s.convErr {
		doc["components"].(map[string]any)["schemas"] = map[string]any{"Error": map[string]any{"type": "object", "required": []any{"code"}, "properties": map[string]any{"code": map[string]any{"type": "integer"}, "message": map[string]any{"type": "string"}}}}
	}
	if s.global != nil {
		doc["security"] = mkReq(s.global)
	}
	b, _ := json.Marshal(doc)
	return string(b)
}

func (s secSpec) effective(op secOp) [][]int {
	if op.none {
		return nil
	}
	reqs := s.global
	if op.reqs != nil {
		reqs = op.reqs
	}
	if s.unimpl == nil {
		return reqs
	}
	var out [][]int
	for _, alt := range reqs {
		skip := false
		for _, g := range alt {
			skip = skip || s.unimpl[g]
		}
		if !skip {
			out = append(out, alt)
		}
	}
	return out
}

func genReqs(rng *lp.Rand, k int) [][]int {
	n := 1 + rng.Intn(3)
	var out [][]int
	for i := 0; i < n; i++ {
		if rng.Chance(10) {
			out = append(out, []int{}) // anonymous alternative
			continue
		}
		m := 1 + rng.Intn(3)
		seen := map[int]bool{}
		var alt []int
		for j := 0; j < m; j++ {
			x := rng.Intn(k)
			if rng.Chance(40) && k > 8 { // reach across the byte boundary
				x = 8 + rng.Intn(k-8)
			}
			if !seen[x] {
				seen[x] = true
				alt = append(alt, x)
			}
		}
		out = append(out, alt)
	}
	return out
}

// all requirement structures over k ≤ 3 schemes with ≤ 2 alternatives
func allReqs(k int) [][][]int {
	var subsets [][]int
	for m := 0; m < 1<<k; m++ {
		var s []int
		for i := 0; i < k; i++ {
			if m&(1<<i) != 0 {
				s = append(s, i)
			}
		}
		if s == nil {
			s = []int{}
		}
		subsets = append(subsets, s)
	}
	var out [][][]int
	for _, a := range subsets {
		out = append(out, [][]int{a})
		for _, b := range subsets {
			out = append(out, [][]int{a, b})
		}
	}
	return out
}

func reqStr(reqs [][]int) string {
	if len(reqs) == 0 {
		return "-"
	}
	var alts []string
	for _, a := range reqs {
		if len(a) == 0 {
			alts = append(alts, "e")
			continue
		}
		var xs []string
		for _, i := range a {
			xs = append(xs, fmt.Sprint(i))
		}
		alts = append(alts, strings.Join(xs, "."))
	}
	return strings.Join(alts, ";")
}

func c09(r *lp.Run) {
	r.SetRule("specs with k ∈ {1,2,3,4,8,9,16,17,20} apiKey schemes; every requirement structure with ≤ 2 alternatives for k ≤ 3, random structures above (alternatives of 1–3 schemes, indices across the byte boundary, anonymous {} alternatives), global requirement, operation-level override and `security: []`; regenerated and compiled; per operation the IR's bit masks are compared with the model's, and the server is driven with scripted scheme outcomes (absent / accepted / skipped / rejected): all 4^n vectors for n ≤ 4 schemes of the operation, random vectors above; one more spec with every scheme kind (apiKey header/query/cookie, basic, bearer, oauth2) for the credential round trip through the generated client. non-trivial = distinct (operation requirement, outcome vector) with at least one scheme present")
	rng := r.Rng.Fork(9)
	scratch := os.Getenv("VERIF_SCRATCH")
	if scratch == "" {
		scratch = "/var/tmp"
	}
	mod, err := gc.NewModule(filepath.Join(scratch, fmt.Sprintf("gc-c09-%d", os.Getpid())))
	if err != nil {
		panic(err)
	}
	defer os.RemoveAll(mod.Dir)

	var specs []secSpec
	// exhaustive small structures, packed several operations per spec
	for k := 1; k <= 3; k++ {
		all := allReqs(k)
		if !r.Thorough() && k == 3 {
			// sample
			var pick [][][]int
			for i, x := range all {
				if i%5 == int(r.Seed%5) {
					pick = append(pick, x)
				}
			}
			all = pick
		}
		s := secSpec{k: k}
		for i, reqs := range all {
			s.ops = append(s.ops, secOp{name: fmt.Sprintf("op%d", i), reqs: reqs})
		}
		specs = append(specs, s)
	}
	// scheme indexes are assigned per operation (first occurrence), so crossing the byte boundary of the
	// mask needs operations that *use* more than eight schemes
	wide := secSpec{k: 20}
	wide.ops = append(wide.ops,
		secOp{name: "w0", reqs: [][]int{{0, 1, 2, 3, 4, 5, 6, 7}, {8}, {0, 9}}},
		secOp{name: "w1", reqs: [][]int{{0, 1, 2, 3, 4, 5, 6}, {7, 8}, {9, 10, 11}, {15, 16, 17}}},
		secOp{name: "w2", reqs: [][]int{{19, 18, 17, 16, 15, 14, 13, 12, 11, 10, 9, 8, 7, 6, 5, 4, 3}, {2}}},
		secOp{name: "w3", reqs: [][]int{{0}, {1}, {2}, {3}, {4}, {5}, {6}, {7}, {8}, {9}}})
	for i := 0; i < r.N(3, 20); i++ {
		var reqs [][]int
		used := 0
		for used < 9+rng.Intn(6) {
			m := 1 + rng.Intn(4)
			var alt []int
			for j := 0; j < m; j++ {
				alt = append(alt, (used+j)%20)
			}
			used += m
			reqs = append(reqs, alt)
		}
		wide.ops = append(wide.ops, secOp{name: fmt.Sprintf("wr%d", i), reqs: reqs})
	}
	specs = append(specs, wide)
	ks := []int{4, 8, 9, 16, 17, 20}
	for _, k := range ks {
		s := secSpec{k: k, global: genReqs(rng, k)}
		nops := r.N(4, 12)
		for i := 0; i < nops; i++ {
			op := secOp{name: fmt.Sprintf("op%d", i)}
			switch i % 4 {
			case 0: // inherits global
			case 1:
				op.none = true
			default:
				op.reqs = genReqs(rng, k)
			}
			s.ops = append(s.ops, op)
		}
		specs = append(specs, s)
	}
	// the same structures with a shared default error response: convenient errors route the security failure
	// through NewError + encodeErrorResponse, a different code path of the handler template
	{
		ce := secSpec{k: 2, convErr: true}
		for i, reqs := range allReqs(2) {
			ce.ops = append(ce.ops, secOp{name: fmt.Sprintf("ce%d", i), reqs: reqs})
		}
		specs = append(specs, ce)
		cw := wide
		cw.convErr = true
		specs = append(specs, cw)
		cg := secSpec{k: 9, global: genReqs(rng, 9), convErr: true}
		cg.ops = append(cg.ops, secOp{name: "g0"}, secOp{name: "g1", none: true}, secOp{name: "g2", reqs: genReqs(rng, 9)})
		specs = append(specs, cg)
	}
	// alternatives that name a scheme of a kind the generator does not implement are skipped under
	// ignore_not_implemented; what is left must still be evaluated as written
	{
		ni := secSpec{k: 5, unimpl: map[int]bool{3: true}}
		for i, reqs := range [][][]int{{{0, 3}, {0, 1}}, {{3}, {1}}, {{0, 3}, {1, 2}, {0, 2}}, {{1, 3}, {0}, {0, 1}}, {{0, 1, 3}, {1, 2}, {3, 4}, {0, 4}}, {{2, 3}, {2, 4}}, {{4, 3}, {4}}, {{0}, {0, 3}, {1}}} {
			ni.ops = append(ni.ops, secOp{name: fmt.Sprintf("ni%d", i), reqs: reqs})
		}
		specs = append(specs, ni)
		ng := secSpec{k: 4, unimpl: map[int]bool{1: true}, global: [][]int{{0, 1}, {0, 2}}}
		ng.ops = append(ng.ops, secOp{name: "g0"}, secOp{name: "g1", reqs: [][]int{{0, 1}, {2, 3}, {0, 3}}}, secOp{name: "g2", none: true})
		specs = append(specs, ng)
		for i := 0; i < r.N(2, 12); i++ {
			k := 6
			rs := secSpec{k: k, unimpl: map[int]bool{rng.Intn(k): true, rng.Intn(k): true}}
			for j := 0; j < 6; j++ {
				reqs := genReqs(rng, k)
				if len(rs.effective(secOp{reqs: reqs})) == 0 {
					// every alternative skipped would leave the operation without any requirement: not explored
					continue
				}
				rs.ops = append(rs.ops, secOp{name: fmt.Sprintf("r%d", j), reqs: reqs})
			}
			if len(rs.ops) > 0 {
				specs = append(specs, rs)
			}
		}
	}
	type built struct {
		spec secSpec
		pkg  *gc.Pkg
	}
	var bs []built
	for i, s := range specs {
		opts := gen.Options{}
		if s.unimpl != nil {
			opts.Generator.IgnoreNotImplemented = []string{"all"}
		}
		if d := os.Getenv("C09_DUMP"); d != "" {
			os.WriteFile(filepath.Join(d, fmt.Sprintf("sec%d.json", i)), []byte(s.doc()), 0o644)
		}
		pkg, err := mod.Add(fmt.Sprintf("sec%d", i), []byte(s.doc()), opts)
		if err != nil {
			r.Fail(lp.PropFail{Property: "C09", What: "the generator refuses a feature-matrix security spec", Input: s.doc(), Observed: err.Error(), Expected: "generated package"})
			continue
		}
		bs = append(bs, built{s, pkg})
	}
	kindsPkg, kerr := mod.Add("seckinds", []byte(secKindsDoc), gen.Options{})
	if kerr != nil {
		r.Fail(lp.PropFail{Property: "C09", What: "the generator refuses the scheme-kind matrix spec", Input: secKindsDoc, Observed: kerr.Error(), Expected: "generated package"})
	}
	kinds2Pkg, kerr2 := mod.Add("seckinds2", []byte(secKinds2Doc), gen.Options{})
	if kerr2 != nil {
		r.Fail(lp.PropFail{Property: "C09", What: "the generator refuses the second scheme-kind spec", Input: secKinds2Doc, Observed: kerr2.Error(), Expected: "generated package"})
	}
	bin, err := mod.Build()
	if err != nil {
		r.Fail(lp.PropFail{Property: "C02", What: "generated security packages do not compile", Input: "security specs", Observed: err.Error(), Expected: "compiles"})
		return
	}
	drv, err := gc.Start(bin)
	if err != nil {
		panic(err)
	}
	defer drv.Close()

	for _, b := range bs {
		for _, op := range b.spec.ops {
			c09Op(r, rng, drv, b.spec, b.pkg, op)
		}
	}
	if kindsPkg != nil {
		c09Kinds(r, rng, drv, kindsPkg)
	}
	if kinds2Pkg != nil {
		c09Extra(r, drv, kinds2Pkg)
	}
}

func usedSchemes(reqs [][]int) map[int]bool {
	m := map[int]bool{}
	for _, alt := range reqs {
		for _, g := range alt {
			m[g] = true
		}
	}
	return m
}

func c09Op(r *lp.Run, rng *lp.Rand, drv *gc.Driver, spec secSpec, pkg *gc.Pkg, op secOp) {
	// find the IR operation
	var irSecs []string // scheme type names in index order
	var irMasks [][]byte
	found := false
	for _, o := range pkg.Gen.Operations() {
		if o.Spec.OperationID != op.name {
			continue
		}
		found = true
		for _, s := range o.Security.Securities {
			irSecs = append(irSecs, s.Type.Name)
		}
		for _, m := range o.Security.Requirements {
			irMasks = append(irMasks, []byte(m))
		}
	}
	if !found {
		return
	}
	eff := spec.effective(op)
	in := map[string]any{"schemes": spec.k, "requirement": reqStr(eff), "operation": op.name}
	if spec.unimpl != nil {
		in["not_implemented_schemes"] = fmt.Sprint(spec.unimpl)
	}
	// the operation's own scheme list: which index a scheme gets is the generator's business (first occurrence
	// today), but the list has no duplicates and holds every scheme of the effective requirement; it may hold
	// more (a scheme met in an alternative that was skipped afterwards)
	r.PropCheck()
	idxOf := map[int]int{}
	var order []int
	for i, name := range irSecs {
		var g int
		if _, err := fmt.Sscanf(name, "S%d", &g); err != nil || fmt.Sprintf("S%d", g) != name {
			r.Fail(lp.PropFail{Property: "C09", What: "the operation's scheme list holds something that is not a scheme of the document", Input: in, Observed: strings.Join(irSecs, ","), Expected: "S<i> names"})
			return
		}
		if _, dup := idxOf[g]; dup {
			r.Fail(lp.PropFail{Property: "C09", What: "the operation's scheme list holds a scheme twice", Input: in, Observed: strings.Join(irSecs, ","), Expected: "no duplicates"})
			return
		}
		idxOf[g] = i
		order = append(order, g)
	}
	local := make([][]int, len(eff))
	for i, alt := range eff {
		local[i] = []int{}
		for _, g := range alt {
			x, ok := idxOf[g]
			if !ok {
				r.Fail(lp.PropFail{Property: "C09", What: "a scheme of the effective requirement is missing from the operation's scheme list (or the operation-level requirement does not replace the global one)", Input: in, Observed: strings.Join(irSecs, ","), Expected: fmt.Sprintf("… S%d …", g)})
				return
			}
			local[i] = append(local[i], x)
		}
	}
	if spec.unimpl == nil && len(order) != len(usedSchemes(eff)) {
		r.Fail(lp.PropFail{Property: "C09", What: "the operation's scheme list holds schemes its requirement does not name (or the operation-level requirement does not replace the global one)", Input: in, Observed: strings.Join(irSecs, ","), Expected: fmt.Sprint(len(usedSchemes(eff)), " schemes")})
		return
	}
	if len(irMasks) != len(local) {
		r.Fail(lp.PropFail{Property: "C09", What: "number of requirement masks differs from the number of alternatives", Input: in, Observed: fmt.Sprint(len(irMasks)), Expected: fmt.Sprint(len(local))})
		return
	}
	for i, alt := range local {
		xs := make([]string, len(alt))
		for j, x := range alt {
			xs[j] = fmt.Sprint(x)
		}
		line := strings.Join(xs, ".")
		if line == "" {
			line = "-"
		}
		r.Case("bitset", line, lp.Hex(irMasks[i]), "mask", len(alt) > 0)
	}
	// outcome vectors
	n := len(order)
	var vectors []string
	if n == 0 {
		vectors = []string{"-"}
	} else if n <= 4 {
		var rec func(cur string)
		rec = func(cur string) {
			if len(cur) == n {
				vectors = append(vectors, cur)
				return
			}
			for _, c := range "acsr" {
				rec(cur + string(c))
			}
		}
		rec("")
	} else {
		cnt := r.N(40, 400)
		for i := 0; i < cnt; i++ {
			b := make([]byte, n)
			for j := range b {
				switch {
				case i%3 == 0: // mostly accepted
					b[j] = lp.Pick(rng, []byte("ccccca"))
				case i%3 == 1:
					b[j] = lp.Pick(rng, []byte("acsr"))
				default:
					b[j] = lp.Pick(rng, []byte("aaacs"))
				}
			}
			// make some alternative fully accepted now and then
			if i%2 == 0 && len(local) > 0 {
				for _, x := range lp.Pick(rng, local) {
					b[x] = 'c'
				}
			}
			vectors = append(vectors, string(b))
		}
		// nothing presented; exactly one scheme accepted; exactly one alternative accepted; all but one
		vectors = append(vectors, strings.Repeat("a", n))
		for j := 0; j < n; j++ {
			b := []byte(strings.Repeat("a", n))
			b[j] = 'c'
			vectors = append(vectors, string(b))
			b = []byte(strings.Repeat("c", n))
			b[j] = 'a'
			vectors = append(vectors, string(b))
		}
		for _, alt := range local {
			b := []byte(strings.Repeat("a", n))
			for _, x := range alt {
				b[x] = 'c'
			}
			vectors = append(vectors, string(b))
		}
	}
	for _, vec := range vectors {
		header := map[string][]string{}
		script := map[string]string{}
		if vec != "-" {
			for j, c := range []byte(vec) {
				g := order[j]
				if c != 'a' {
					header[fmt.Sprintf("X-S%d", g)] = []string{fmt.Sprintf("cred-%d", g)}
				}
				switch c {
				case 's':
					script[irSecs[j]] = "skip"
				case 'r':
					script[irSecs[j]] = "reject"
				default:
					script[irSecs[j]] = "accept"
				}
			}
		}
		ans, _ := drv.Do(map[string]any{"pkg": pkg.Name, "cmd": "raw", "method": "GET", "path": "/" + op.name, "header": header, "script": map[string]any{"security": script}})
		status := fmt.Sprint(ans["status"])
		srv, _ := ans["server"].(map[string]any)
		handler := srv != nil && fmt.Sprint(srv["handler_called"]) != "0"
		if wh := fmt.Sprint(ans["write_headers"]); wh != "1" && ans["panic"] == nil {
			r.Fail(lp.PropFail{Property: "C09", What: "not exactly one response is written", Input: map[string]any{"operation": op.name, "requirement": reqStr(eff), "outcomes": vec, "convenient_errors": spec.convErr}, Observed: "WriteHeader calls: " + wh + ", status " + status + fmt.Sprint(", handler invoked: ", handler), Expected: "1"})
		}
		out := "401"
		if handler {
			out = "handler"
		} else if status != "401" {
			out = "status-" + status
		}
		if ans["panic"] != nil {
			out = "panic"
		}
		r.Case("sec", vec+" "+reqStr(local), out, fmt.Sprintf("n%d:%s", min(n, 9), out), strings.ContainsAny(vec, "csr"))
		// ---- property predicates on the implementation ----
		r.PropCheck()
		in2 := map[string]any{"schemes": spec.k, "requirement": reqStr(eff), "operation": op.name, "outcomes(a=absent,c=accepted,s=skipped,r=rejected)": vec}
		accepted := func(alt []int) bool {
			for _, x := range alt {
				if vec == "-" || vec[x] != 'c' {
					return false
				}
			}
			return true
		}
		someAlt := false
		for _, alt := range local {
			if accepted(alt) {
				someAlt = true
			}
		}
		rejected := strings.Contains(vec, "r")
		switch {
		case out == "panic" || strings.HasPrefix(out, "status-"):
			r.Fail(lp.PropFail{Property: "C09", What: "unexpected answer from the security stage", Input: in2, Observed: out, Expected: "handler or 401"})
		case handler && n > 0 && !someAlt:
			r.Fail(lp.PropFail{Property: "C09", What: "handler invoked although no security alternative is fully accepted", Input: in2, Observed: "handler", Expected: "401"})
		case handler && rejected:
			r.Fail(lp.PropFail{Property: "C09", What: "handler invoked although a scheme handler returned an error", Input: in2, Observed: "handler", Expected: "401"})
		case !handler && (n == 0 || (someAlt && !rejected)):
			r.Fail(lp.PropFail{Property: "C09", What: "401 although a security alternative is fully accepted and no scheme handler failed", Input: in2, Observed: out, Expected: "handler"})
		case !handler && someAlt && rejected:
			r.Known(lp.PropFail{Property: "C09", Class: "K2", What: "a scheme handler's error aborts the request although another alternative is satisfied", Input: in2, Observed: "401", Expected: "handler"})
		}
		// credentials reach the scheme handler unchanged
		if srv != nil {
			if calls, ok := srv["sec_calls"].([]any); ok {
				for _, c := range calls {
					cs := fmt.Sprint(c)
					name := strings.SplitN(cs, "=", 2)[0]
					g := strings.TrimPrefix(name, "S")
					if !strings.Contains(cs, fmt.Sprintf("%q", "cred-"+g)) {
						r.Fail(lp.PropFail{Property: "C09", What: "scheme handler receives another credential than the request carried", Input: in2, Observed: cs, Expected: "cred-" + g})
					}
				}
			}
		}
	}
}

const secKindsDoc = `{"openapi":"3.0.3","info":{"title":"t","version":"1"},
"paths":{
 "/h":{"get":{"operationId":"opHeader","security":[{"KH":[]}],"responses":{"200":{"description":"ok"}}}},
 "/q":{"get":{"operationId":"opQuery","security":[{"KQ":[]}],"responses":{"200":{"description":"ok"}}}},
 "/c":{"get":{"operationId":"opCookie","security":[{"KC":[]}],"responses":{"200":{"description":"ok"}}}},
 "/b":{"get":{"operationId":"opBasic","security":[{"HB":[]}],"responses":{"200":{"description":"ok"}}}},
 "/t":{"get":{"operationId":"opBearer","security":[{"HT":[]}],"responses":{"200":{"description":"ok"}}}},
 "/o":{"get":{"operationId":"opOAuth","security":[{"OA":["read","write"]}],"responses":{"200":{"description":"ok"}}}},
 "/two":{"get":{"operationId":"opTwo","security":[{"KH":[],"KQ":[]},{"HT":[]}],"responses":{"200":{"description":"ok"}}}}
},
"components":{"securitySchemes":{
 "KH":{"type":"apiKey","in":"header","name":"X-Key"},
 "KQ":{"type":"apiKey","in":"query","name":"key"},
 "KC":{"type":"apiKey","in":"cookie","name":"ck"},
 "HB":{"type":"http","scheme":"basic"},
 "HT":{"type":"http","scheme":"bearer"},
 "OA":{"type":"oauth2","flows":{"implicit":{"authorizationUrl":"https://a.b/auth","scopes":{"read":"r","write":"w"}}}}
}}}`

// credential round trip: what the generated client attaches is what the generated server extracts
func c09Kinds(r *lp.Run, rng *lp.Rand, drv *gc.Driver, pkg *gc.Pkg) {
	secrets := []string{"secret", "a b", "tök", "x=y&z", "abc/def+ghi==", "p:w", "%41", "a;b", "\"q\"", "ü", " lead", "trail ", "a,b", "back\\slash", "tab\there", "~!@#$^*()_-", ":", "pa:ss:word", "a:", ":b"}
	for i := 0; i < r.N(20, 300); i++ {
		n := 1 + rng.Intn(10)
		b := make([]rune, n)
		for j := range b {
			b[j] = lp.Pick(rng, []rune("abcXYZ019 :;,=&%+/\\\"'~-_.é"))
		}
		secrets = append(secrets, string(b))
	}
	type kc struct {
		op, scheme string
		cred       func(s string) map[string]any
		want       func(s string) string
	}
	kinds := []kc{
		{"OpHeader", "KH", func(s string) map[string]any { return map[string]any{"APIKey": s} }, func(s string) string { return fmt.Sprintf("KH{APIKey=%q}", s) }},
		{"OpQuery", "KQ", func(s string) map[string]any { return map[string]any{"APIKey": s} }, func(s string) string { return fmt.Sprintf("KQ{APIKey=%q}", s) }},
		{"OpCookie", "KC", func(s string) map[string]any { return map[string]any{"APIKey": s} }, func(s string) string { return fmt.Sprintf("KC{APIKey=%q}", s) }},
		{"OpBasic", "HB", func(s string) map[string]any { return map[string]any{"Username": "u" + s, "Password": s} }, func(s string) string { return fmt.Sprintf("HB{Username=%q,Password=%q}", "u"+s, s) }},
		{"OpBasic", "HB", func(s string) map[string]any { return map[string]any{"Username": "user", "Password": s} }, func(s string) string { return fmt.Sprintf("HB{Username=%q,Password=%q}", "user", s) }},
		{"OpBearer", "HT", func(s string) map[string]any { return map[string]any{"Token": s} }, func(s string) string { return fmt.Sprintf("HT{Token=%q}", s) }},
		{"OpOAuth", "OA", func(s string) map[string]any { return map[string]any{"Token": s} }, func(s string) string { return fmt.Sprintf("OA{Token=%q,Scopes=[\"read\",\"write\"]}", s) }},
	}
	for _, k := range kinds {
		for _, s := range secrets {
			ans, _ := drv.Do(map[string]any{"pkg": pkg.Name, "cmd": "call", "op": k.op, "script": map[string]any{"client_creds": map[string]any{k.scheme: k.cred(s)}, "security": map[string]string{k.scheme: "accept"}}})
			r.Count("kinds "+k.op+s, "kind:"+k.scheme, true)
			r.PropCheck()
			in := map[string]any{"operation": k.op, "scheme": k.scheme, "credential": s}
			srv, _ := ans["server"].(map[string]any)
			cl, _ := ans["client"].(map[string]any)
			var calls []string
			if srv != nil {
				if cs, ok := srv["sec_calls"].([]any); ok {
					for _, c := range cs {
						calls = append(calls, fmt.Sprint(c))
					}
				}
			}
			sort.Strings(calls)
			want := k.scheme + "=" + k.want(s)
			got := strings.Join(calls, " ")
			clientErr := cl != nil && cl["err"] != nil && !strings.Contains(fmt.Sprint(cl["err"]), "501") && !strings.Contains(fmt.Sprint(cl["err"]), "unexpected status")
			switch {
			case ans["error"] != nil || ans["crash"] != nil || ans["driver_panic"] != nil:
				r.Fail(lp.PropFail{Property: "C09", What: "driver failure", Input: in, Observed: fmt.Sprint(ans), Expected: "a call"})
			case got == want:
			case got == "" && clientErr:
				// the client refused to send a credential it cannot carry: allowed
			case k.scheme == "KC" && !cookieValueSafe(s):
				r.Known(lp.PropFail{Property: "C09", Class: "K10", What: "apiKey-in-cookie credential with bytes outside the cookie-value set is altered in transit", Input: in, Observed: got, Expected: want})
			case k.scheme == "HB" && strings.Contains(fmt.Sprint(k.cred(s)["Username"]), ":"):
				r.Known(lp.PropFail{Property: "C09", Class: "K11", What: "basic-auth user name containing ':' is split differently by the server", Input: in, Observed: got, Expected: want})
			case (k.scheme == "KH" || k.scheme == "HT" || k.scheme == "OA") && s != strings.Trim(s, " \t"):
				r.Known(lp.PropFail{Property: "C09", Class: "K4", What: "leading/trailing blank of a header-carried credential is trimmed by HTTP", Input: in, Observed: got, Expected: want})
			default:
				r.Fail(lp.PropFail{Property: "C09", What: "the credential extracted by the server differs from the one the client attached", Input: in, Observed: got + fmt.Sprint(" client=", cl), Expected: want})
			}
		}
	}
}

// cookieValueSafe: bytes net/http's cookie sanitiser keeps (validCookieValueByte)
func cookieValueSafe(s string) bool {
	for i := 0; i < len(s); i++ {
		b := s[i]
		if !(0x20 <= b && b < 0x7f && b != '"' && b != ';' && b != '\\') {
			return false
		}
	}
	return s == strings.Trim(s, " ")
}
