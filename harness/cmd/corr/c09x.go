package main

import (
	"fmt"
	"sort"
	"strconv"
	"strings"

	"verifharness/internal/gc"
	"verifharness/internal/lp"
)

// scheme kinds again, with what the first matrix does not have: header names that are not in canonical MIME
// form, an operation with security *and* parameters, two alternatives of different kinds.
const secKinds2Doc = `{"openapi":"3.0.3","info":{"title":"t","version":"1"},
"paths":{
 "/h2":{"get":{"operationId":"opHeader2","security":[{"KH2":[]}],"responses":{"200":{"description":"ok"}}}},
 "/h3":{"get":{"operationId":"opHeader3","security":[{"KL":[]}],"responses":{"200":{"description":"ok"}}}},
 "/t":{"get":{"operationId":"opBearer","security":[{"HT":[]}],"responses":{"200":{"description":"ok"}}}},
 "/b":{"get":{"operationId":"opBasic","security":[{"HB":[]}],"responses":{"200":{"description":"ok"}}}},
 "/alt":{"get":{"operationId":"opAlt","security":[{"KH2":[]},{"HT":[]}],"responses":{"200":{"description":"ok"}}}},
 "/both":{"get":{"operationId":"opBoth","security":[{"HB":[],"HT":[]}],"responses":{"200":{"description":"ok"}}}},
 "/altanon":{"get":{"operationId":"opAltAnon","security":[{"KH2":[]},{}],"responses":{"200":{"description":"ok"}}}},
 "/p/{n}":{"get":{"operationId":"opParams","security":[{"HT":[]}],
   "parameters":[{"name":"n","in":"path","required":true,"schema":{"type":"integer","maximum":100}},{"name":"q","in":"query","required":true,"schema":{"type":"string"}}],
   "responses":{"200":{"description":"ok"}}}}
},
"components":{"securitySchemes":{
 "KH2":{"type":"apiKey","in":"header","name":"X-API-Key-V2"},
 "KL":{"type":"apiKey","in":"header","name":"x-tenant-token"},
 "HB":{"type":"http","scheme":"basic"},
 "HT":{"type":"http","scheme":"bearer"}
}}}`

func c09SecCalls(ans map[string]any) (calls []string, handler bool) {
	srv, _ := ans["server"].(map[string]any)
	if srv != nil {
		if cs, ok := srv["sec_calls"].([]any); ok {
			for _, c := range cs {
				calls = append(calls, fmt.Sprint(c))
			}
		}
		handler = fmt.Sprint(srv["handler_called"]) != "0" && srv["handler_called"] != nil
	}
	sort.Strings(calls)
	return
}

func c09Extra(r *lp.Run, drv *gc.Driver, pkg *gc.Pkg) {
	// (a) apiKey in a header whose name is not canonical: what the client attaches is what the server extracts
	for _, k := range []struct{ op, scheme string }{{"OpHeader2", "KH2"}, {"OpHeader3", "KL"}} {
		for _, s := range []string{"secret", "a b", "x=y"} {
			ans, _ := drv.Do(map[string]any{"pkg": pkg.Name, "cmd": "call", "op": k.op, "script": map[string]any{"client_creds": map[string]any{k.scheme: map[string]any{"APIKey": s}}, "security": map[string]string{k.scheme: "accept"}}})
			r.Count("kinds2 "+k.op+s, "kind2:"+k.scheme, true)
			r.PropCheck()
			calls, _ := c09SecCalls(ans)
			want := fmt.Sprintf("%s=%s{APIKey=%q}", k.scheme, k.scheme, s)
			if got := strings.Join(calls, " "); got != want {
				r.Fail(lp.PropFail{Property: "C09", What: "the credential extracted by the server differs from the one the client attached (header name not in canonical form)", Input: map[string]any{"operation": k.op, "scheme": k.scheme, "credential": s}, Observed: got + fmt.Sprint(" client=", ans["client"], ans["error"]), Expected: want})
			}
		}
	}
	raw := func(path, query string, hdr map[string][]string, script map[string]any) map[string]any {
		ans, _ := drv.Do(map[string]any{"pkg": pkg.Name, "cmd": "raw", "method": "GET", "path": path, "query": query, "header": hdr, "script": script})
		return ans
	}
	expect := func(what string, in map[string]any, ans map[string]any, wantHandler bool) {
		r.PropCheck()
		r.Count(fmt.Sprint(in), "authz:"+what, true)
		_, handler := c09SecCalls(ans)
		status := fmt.Sprint(ans["status"])
		if ans["panic"] != nil || ans["crash"] != nil || ans["driver_panic"] != nil {
			r.Fail(lp.PropFail{Property: "C09", What: "the server panics", Input: in, Observed: fmt.Sprint(ans["panic"], ans["crash"], ans["driver_panic"]), Expected: "a response"})
			return
		}
		if wantHandler && !handler { // the scripted handler answers 501 (nothing to respond with): reaching it is what counts
			r.Fail(lp.PropFail{Property: "C09", What: what + ": a request whose requirement is met does not reach the handler", Input: in, Observed: fmt.Sprintf("status %s handler=%v", status, handler), Expected: "handler invoked"})
		}
		if !wantHandler && (handler || status != "401") {
			r.Fail(lp.PropFail{Property: "C09", What: what + ": a request whose requirement is not met is not answered 401 without the handler", Input: in, Observed: fmt.Sprintf("status %s handler=%v", status, handler), Expected: "401, handler not invoked"})
		}
	}
	accept := map[string]any{"security": map[string]string{"HT": "accept", "HB": "accept", "KH2": "accept"}}
	// (b) the Authorization header: scheme and credentials are separated by one space, the scheme name is
	// case-insensitive; anything else is not a credential of that scheme
	for _, a := range []struct {
		v    string
		want bool
	}{
		{"Bearer tok", true}, {"bearer tok", true}, {"BEARER tok", true},
		{"BearerXtok", false}, {"Bearer=tok", false}, {"Bearer\ttok", false}, {"Bearertok", false}, {"Bearer", false},
		{"Bear tok", false}, {"Bearerr tok", false}, {"Basic dTpw", false}, {"tok", false}, {"", false}, {"Bearer:tok", false}, {"Bearer,tok", false},
	} {
		ans := raw("/t", "", map[string][]string{"Authorization": {a.v}}, accept)
		expect("bearer", map[string]any{"path": "/t", "Authorization": a.v}, ans, a.want)
	}
	for _, a := range []struct {
		v    string
		want bool
	}{
		{"Basic dTpw", true}, {"basic dTpw", true}, {"BasicXdTpw", false}, {"Basic=dTpw", false}, {"BasicdTpw", false}, {"Basic", false}, {"Bearer dTpw", false}, {"Basi dTpw", false},
	} {
		ans := raw("/b", "", map[string][]string{"Authorization": {a.v}}, accept)
		expect("basic", map[string]any{"path": "/b", "Authorization": a.v}, ans, a.want)
	}
	// (b') the same against the Lean model of findAuthorization (driver tag authz): lists of one to three header
	// values; what the security handler is handed is what the model extracts
	authz := [][]string{
		{"Bearer tok"}, {"bearer  two spaces"}, {"BEARER a b c"}, {"BearerXtok"}, {"Bearer"}, {"Bearer "}, {" Bearer tok"}, {""},
		{"Basic dTpw", "Bearer second"}, {"BearerXno", "Bearer yes"}, {"Bearer first", "Bearer second"}, {"nospace", "Bearer=no", "bEaReR ok"},
		{"Bea\u212Aer tok"}, {"Bearer\u00a0tok"}, {"Bearer t\u00f6k"}, {"B\u00e9arer tok"}, {"Bearer\ttok", "Bearer\x00tok"},
		{"Bearer tok "}, {"Bearer  "}, {"Bearer a=b&c"}, {"bearer Bearer tok"},
	}
	for _, vs := range authz {
		ans := raw("/t", "", map[string][]string{"Authorization": vs}, accept)
		calls, _ := c09SecCalls(ans)
		impl := "none"
		for _, c := range calls {
			if i := strings.Index(c, "Token="); i >= 0 {
				if tok, err := strconv.Unquote(strings.TrimSuffix(c[i+len("Token="):], "}")); err == nil {
					impl = "some:" + c10KeyHex(tok)
				}
			}
		}
		r.Case("authz", "Bearer "+c10KeysHex(vs), impl, "authz:"+impl[:4], true)
	}
	// (c) an alternative that the security handler skips — with the sentinel as it is, and wrapped — does not
	// stand in the way of another alternative that is met
	for _, skip := range []string{"skip", "skip-wrapped"} {
		sc := map[string]any{"security": map[string]string{"KH2": skip, "HT": "accept"}}
		ans := raw("/alt", "", map[string][]string{"X-Api-Key-V2": {"k"}, "Authorization": {"Bearer tok"}}, sc)
		expect("skipped alternative ("+skip+") next to an accepted one", map[string]any{"path": "/alt", "KH2": skip, "HT": "accept"}, ans, true)
		ans = raw("/alt", "", map[string][]string{"X-Api-Key-V2": {"k"}}, sc)
		expect("only a skipped alternative ("+skip+")", map[string]any{"path": "/alt", "KH2": skip, "HT": "absent"}, ans, false)
		ans = raw("/altanon", "", map[string][]string{"X-Api-Key-V2": {"k"}}, map[string]any{"security": map[string]string{"KH2": skip}})
		expect("skipped alternative ("+skip+") next to the anonymous one", map[string]any{"path": "/altanon", "KH2": skip}, ans, true)
	}
	// (e) K26: a security handler error that wraps ht.ErrNotImplemented is answered 501, not 401
	{
		ans := raw("/t", "", map[string][]string{"Authorization": {"Bearer tok"}}, map[string]any{"security": map[string]string{"HT": "reject-notimpl"}})
		_, handler := c09SecCalls(ans)
		status := fmt.Sprint(ans["status"])
		r.PropCheck()
		r.Count("k26", "authz:notimpl", true)
		switch {
		case handler:
			r.Fail(lp.PropFail{Property: "C09", What: "a rejected credential reaches the handler", Input: "security handler error wrapping ErrNotImplemented", Observed: status, Expected: "401, handler not invoked"})
		case status != "401":
			r.Known(lp.PropFail{Property: "C09", Class: "K26", What: "a security handler error that wraps ht.ErrNotImplemented is answered " + status + " instead of 401", Input: map[string]any{"path": "/t", "HT": "error wrapping ht.ErrNotImplemented"}, Observed: status, Expected: "401"})
		}
	}
	// (f) K27: an alternative that needs basic and bearer together, through the generated client
	{
		ans, _ := drv.Do(map[string]any{"pkg": pkg.Name, "cmd": "call", "op": "OpBoth", "script": map[string]any{
			"client_creds": map[string]any{"HB": map[string]any{"Username": "u", "Password": "p"}, "HT": map[string]any{"Token": "tok"}},
			"security":     map[string]string{"HB": "accept", "HT": "accept"}}})
		calls, handler := c09SecCalls(ans)
		r.PropCheck()
		r.Count("k27", "authz:both", true)
		if !handler {
			r.Known(lp.PropFail{Property: "C09", Class: "K27", What: "an alternative requiring http basic and bearer together cannot be met through the generated client: both schemes write the Authorization header, the later one wins", Input: map[string]any{"operation": "OpBoth", "client_creds": "basic u:p + bearer tok"}, Observed: "server saw " + strings.Join(calls, " ") + fmt.Sprint(" client=", ans["client"]), Expected: "both credentials extracted, handler invoked"})
		}
	}
	// (d) unmet security comes first: a request that is also malformed is answered 401, not 400
	for _, q := range []struct{ path, query string }{{"/p/abc", "q=x"}, {"/p/7", ""}, {"/p/1000", "q=x"}, {"/p/abc", ""}} {
		ans := raw(q.path, q.query, map[string][]string{}, accept)
		expect("unauthenticated and malformed", map[string]any{"path": q.path, "query": q.query, "credentials": "none"}, ans, false)
		ans = raw(q.path, q.query, map[string][]string{"Authorization": {"BearerXtok"}}, accept)
		expect("malformed credentials and malformed parameters", map[string]any{"path": q.path, "query": q.query, "Authorization": "BearerXtok"}, ans, false)
	}
	ans := raw("/p/7", "q=x", map[string][]string{"Authorization": {"Bearer tok"}}, accept)
	expect("authenticated and well-formed", map[string]any{"path": "/p/7", "query": "q=x"}, ans, true)
}
