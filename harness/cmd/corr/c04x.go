package main

import (
	"encoding/json"
	"fmt"
	"regexp"
	"strings"

	"verifharness/internal/gc"
	"verifharness/internal/lp"
)

// format matrix: keywords the Schema generator does not produce — string-encoded integers, unsigned
// widths, unix timestamps (also inside type-discriminated sums), nullable members with `default: null`,
// other defaults. Every instance is complete (all default-bearing members present), so decoding and
// re-encoding must give the same JSON document.
type fmtCase struct {
	name      string
	schema    string
	instances []string
}

// further components a case's schema refers to
var fmtExtra = map[string]map[string]string{
	"SumFields3": {
		"Circle":   `{"type":"object","required":["id","radius"],"properties":{"id":{"type":"string"},"radius":{"type":"number"},"tag":{"type":"string"}}}`,
		"Square":   `{"type":"object","required":["id","side"],"properties":{"id":{"type":"string"},"side":{"type":"number"},"tag":{"type":"string"}}}`,
		"Triangle": `{"type":"object","required":["id","base","height"],"properties":{"id":{"type":"string"},"base":{"type":"number"},"height":{"type":"number"}}}`,
	},
	"SumFields5": {
		"V1": `{"type":"object","required":["id","a"],"properties":{"id":{"type":"integer"},"a":{"type":"string"},"m":{"type":"string"}}}`,
		"V2": `{"type":"object","required":["id","b"],"properties":{"id":{"type":"integer"},"b":{"type":"string"},"m":{"type":"string"}}}`,
		"V3": `{"type":"object","required":["id","c"],"properties":{"id":{"type":"integer"},"c":{"type":"string"},"m":{"type":"string"}}}`,
		"V4": `{"type":"object","required":["id","d"],"properties":{"id":{"type":"integer"},"d":{"type":"string"},"n":{"type":"string"}}}`,
		"V5": `{"type":"object","required":["id","e"],"properties":{"id":{"type":"integer"},"e":{"type":"string"},"n":{"type":"string"}}}`,
	},
	"NamedBoxes": {
		"NArr": `{"type":"array","nullable":true,"items":{"type":"string"}}`,
		"Arr":  `{"type":"array","items":{"type":"integer"}}`,
		"NStr": `{"type":"string","nullable":true}`,
		"NObj": `{"type":"object","nullable":true,"required":["k"],"properties":{"k":{"type":"integer"}}}`,
		"NInt": `{"type":"integer","nullable":true}`,
	},
	"NullEmptyRef": {"NullEmpty": `{"type":"object","nullable":true}`},
	"SumBag": {
		"Bag": `{"type":"object","required":["kind"],"properties":{"kind":{"type":"string"}},"additionalProperties":{"type":"string"}}`,
		"Box": `{"type":"object","required":["kind","size"],"properties":{"kind":{"type":"string"},"size":{"type":"integer"}}}`,
		"Pat": `{"type":"object","required":["kind"],"properties":{"kind":{"type":"string"}},"patternProperties":{"^x-":{"type":"integer"}}}`,
	},
}

var fmtCases = []fmtCase{
	// sums told apart by the members only one variant has: a member shared by three (five) variants, one shared by
	// two, one by three, must not decide anything
	{"SumFields3", `{"type":"object","required":["v"],"properties":{"v":{"oneOf":[{"$ref":"#/components/schemas/Circle"},{"$ref":"#/components/schemas/Square"},{"$ref":"#/components/schemas/Triangle"}]}}}`,
		[]string{`{"v":{"id":"c","radius":1.5}}`, `{"v":{"id":"s","side":2}}`, `{"v":{"id":"t","base":3,"height":4}}`, `{"v":{"id":"c","radius":1,"tag":"x"}}`, `{"v":{"id":"s","side":2,"tag":"y"}}`}},
	{"SumFields5", `{"type":"object","required":["v"],"properties":{"v":{"oneOf":[{"$ref":"#/components/schemas/V1"},{"$ref":"#/components/schemas/V2"},{"$ref":"#/components/schemas/V3"},{"$ref":"#/components/schemas/V4"},{"$ref":"#/components/schemas/V5"}]}}}`,
		[]string{`{"v":{"id":1,"a":"x"}}`, `{"v":{"id":2,"b":"x"}}`, `{"v":{"id":3,"c":"x"}}`, `{"v":{"id":4,"d":"x"}}`, `{"v":{"id":5,"e":"x"}}`, `{"v":{"id":1,"a":"x","m":"q"}}`, `{"v":{"id":3,"c":"x","m":"q"}}`, `{"v":{"id":4,"d":"x","n":"q"}}`, `{"v":{"id":5,"e":"x","n":"q"}}`}},
	// named (component) schemas, nullable or not, used through $ref as required and as optional members: the
	// boxing is chosen at the use site, the null branch has to exist in the codec of the named type too
	{"NamedBoxes", `{"type":"object","required":["ra","rb","rs","ro","ri"],"properties":{
		"ra":{"$ref":"#/components/schemas/NArr"},"oa":{"$ref":"#/components/schemas/NArr"},
		"rb":{"$ref":"#/components/schemas/Arr"},"ob":{"$ref":"#/components/schemas/Arr"},
		"rs":{"$ref":"#/components/schemas/NStr"},"os":{"$ref":"#/components/schemas/NStr"},
		"ro":{"$ref":"#/components/schemas/NObj"},"oo":{"$ref":"#/components/schemas/NObj"},
		"ri":{"$ref":"#/components/schemas/NInt"},"oi":{"$ref":"#/components/schemas/NInt"}}}`,
		[]string{`{"ra":null,"rb":[],"rs":null,"ro":null,"ri":null}`, `{"ra":["x"],"rb":[1,2],"rs":"s","ro":{"k":1},"ri":0}`, `{"ra":[],"rb":[0],"rs":"","ro":{"k":0},"ri":-1}`,
			`{"ra":null,"oa":null,"rb":[],"ob":[],"rs":null,"os":null,"ro":null,"oo":null,"ri":null,"oi":null}`,
			`{"ra":["a","b"],"oa":["c"],"rb":[3],"ob":[4,5],"rs":"p","os":"q","ro":{"k":7},"oo":{"k":8},"ri":9,"oi":10}`,
			`{"ra":null,"oa":[],"rb":[],"ob":[1],"rs":"x","os":null,"ro":{"k":2},"oo":null,"ri":1,"oi":null}`}},
	// a discriminated sum whose variant has only the discriminator plus additional / pattern properties
	{"SumBag", `{"type":"object","required":["v"],"properties":{"v":{"oneOf":[{"$ref":"#/components/schemas/Bag"},{"$ref":"#/components/schemas/Box"},{"$ref":"#/components/schemas/Pat"}],"discriminator":{"propertyName":"kind","mapping":{"bag":"#/components/schemas/Bag","box":"#/components/schemas/Box","pat":"#/components/schemas/Pat"}}}}}`,
		[]string{`{"v":{"kind":"bag","x":"y","z":"w"}}`, `{"v":{"kind":"bag"}}`, `{"v":{"kind":"box","size":3}}`, `{"v":{"kind":"pat","x-a":1,"x-b":2}}`}},
	// custom time layouts on optional / nullable / required members
	{"TimeFmt", `{"type":"object","required":["req"],"properties":{
		"req":{"type":"string","format":"date","x-ogen-time-format":"02/01/2006"},
		"due":{"type":"string","format":"date","x-ogen-time-format":"02/01/2006"},
		"at":{"type":"string","format":"date-time","nullable":true,"x-ogen-time-format":"2006-01-02 15:04:05"},
		"tm":{"type":"string","format":"time","x-ogen-time-format":"3:04PM"},
		"on":{"type":"string","format":"date-time","nullable":true,"x-ogen-time-format":"02 Jan 06 15:04 -0700"}}}`,
		[]string{`{"req":"25/12/2001"}`, `{"req":"25/12/2001","due":"01/02/2003"}`, `{"req":"25/12/2001","at":"2001-12-25 10:11:12"}`, `{"req":"25/12/2001","at":null,"on":null}`,
			`{"req":"25/12/2001","tm":"3:04PM"}`, `{"req":"25/12/2001","on":"25 Dec 01 10:11 +0530"}`, `{"req":"01/01/1970","due":"31/12/9999","at":"1969-12-31 23:59:59","tm":"12:00AM","on":"01 Jan 70 00:00 +0000"}`}},
	// null through pointer-typed nullable members (fixed bde24270)
	{"NullEmptyRef", `{"type":"object","properties":{"a":{"$ref":"#/components/schemas/NullEmpty"},"r":{"$ref":"#/components/schemas/NullEmpty"}},"required":["r"]}`,
		[]string{`{"a":null,"r":null}`, `{"a":{},"r":{}}`, `{"r":null}`, `{"r":{}}`}},
	{"NullRec", `{"type":"object","nullable":true,"properties":{"next":{"$ref":"#/components/schemas/NullRec"},"v":{"type":"string"}}}`,
		[]string{`{"next":null}`, `{"next":{"next":null,"v":"x"}}`, `{"v":"y"}`, `{"next":{"next":{"next":null}}}`}},
	{"NullRecAllOf", `{"type":"object","properties":{"next":{"nullable":true,"allOf":[{"$ref":"#/components/schemas/NullRecAllOf"}]},"v":{"type":"string"}}}`,
		[]string{`{"next":null}`, `{"next":{"next":null,"v":"x"}}`, `{"v":"y"}`}},
	{"StrInts", `{"type":"object","properties":{
		"su64":{"type":"string","format":"uint64"},"su":{"type":"string","format":"uint"},"su32":{"type":"string","format":"uint32"},"su16":{"type":"string","format":"uint16"},"su8":{"type":"string","format":"uint8"},
		"si64":{"type":"string","format":"int64"},"si":{"type":"string","format":"int"},"si32":{"type":"string","format":"int32"},"si16":{"type":"string","format":"int16"},"si8":{"type":"string","format":"int8"}}}`,
		[]string{`{"su64":"18446744073709551615"}`, `{"su64":"9223372036854775808"}`, `{"su64":"9223372036854775807"}`, `{"su64":"0"}`, `{"su":"18446744073709551615"}`, `{"su":"9223372036854775808"}`,
			`{"su32":"4294967295"}`, `{"su32":"2147483648"}`, `{"su16":"65535"}`, `{"su16":"32768"}`, `{"su8":"255"}`, `{"su8":"128"}`,
			`{"si64":"-9223372036854775808"}`, `{"si64":"9223372036854775807"}`, `{"si":"-9223372036854775808"}`, `{"si32":"-2147483648"}`, `{"si32":"2147483647"}`, `{"si16":"-32768"}`, `{"si8":"-128"}`, `{"si8":"127"}`,
			`{"su64":"1","su":"2","su32":"3","su16":"4","su8":"5","si64":"-1","si":"-2","si32":"-3","si16":"-4","si8":"-5"}`}},
	{"UInts", `{"type":"object","properties":{
		"u64":{"type":"integer","format":"uint64"},"u":{"type":"integer","format":"uint"},"u32":{"type":"integer","format":"uint32"},"u16":{"type":"integer","format":"uint16"},"u8":{"type":"integer","format":"uint8"},
		"i64":{"type":"integer","format":"int64"},"i32":{"type":"integer","format":"int32"},"i16":{"type":"integer","format":"int16"},"i8":{"type":"integer","format":"int8"}}}`,
		[]string{`{"u64":18446744073709551615}`, `{"u64":9223372036854775808}`, `{"u":18446744073709551615}`, `{"u32":4294967295}`, `{"u16":65535}`, `{"u8":255}`,
			`{"i64":-9223372036854775808}`, `{"i64":9223372036854775807}`, `{"i32":-2147483648}`, `{"i16":-32768}`, `{"i8":-128}`, `{"u64":0,"u":1,"u32":2,"u16":3,"u8":4,"i64":-1,"i32":-2,"i16":-3,"i8":-4}`}},
	{"UnixTimes", `{"type":"object","properties":{
		"s":{"type":"integer","format":"unix"},"s2":{"type":"integer","format":"unix-seconds"},"n":{"type":"integer","format":"unix-nano"},"u":{"type":"integer","format":"unix-micro"},"m":{"type":"integer","format":"unix-milli"},
		"ss":{"type":"string","format":"unix"},"sn":{"type":"string","format":"unix-nano"},"sm":{"type":"string","format":"unix-milli"}}}`,
		[]string{`{"s":1700000000}`, `{"s":0}`, `{"s":-1}`, `{"s2":1700000000}`, `{"n":1700000000123456789}`, `{"u":1700000000123456}`, `{"m":1700000000123}`, `{"ss":"1700000000"}`, `{"sn":"1700000000123456789"}`, `{"sm":"1700000000123"}`, `{"m":-1}`, `{"n":-1}`,
			// far from the epoch (UnixNano is undefined there, the other units are not) and the zero time.Time
			`{"s":32503680000}`, `{"s2":32503680000}`, `{"m":32503680000000}`, `{"u":32503680000000000}`, `{"ss":"32503680000"}`, `{"sm":"32503680000000"}`,
			`{"s":-62135596800}`, `{"m":-62135596800000}`, `{"u":-62135596800000000}`, `{"s":253402300799}`, `{"m":-1500}`, `{"u":-1500}`, `{"m":-999}`, `{"u":-1}`}},
	{"SumUnix", `{"type":"object","required":["v"],"properties":{"v":{"oneOf":[{"type":"integer","format":"unix"},{"type":"boolean"}]}}}`,
		[]string{`{"v":1700000000}`, `{"v":true}`, `{"v":0}`}},
	{"SumUnixMilli", `{"type":"object","required":["v"],"properties":{"v":{"oneOf":[{"type":"integer","format":"unix-milli"},{"type":"array","items":{"type":"string"}}]}}}`,
		[]string{`{"v":1700000000123}`, `{"v":["a"]}`, `{"v":[]}`}},
	{"SumUnixNano", `{"type":"object","required":["v"],"properties":{"v":{"anyOf":[{"type":"integer","format":"unix-nano"},{"type":"boolean"},{"type":"array","items":{"type":"integer"}}]}}}`,
		[]string{`{"v":1700000000123456789}`, `{"v":false}`, `{"v":[1,2]}`}},
	{"SumStrTime", `{"type":"object","required":["v"],"properties":{"v":{"oneOf":[{"type":"string","format":"date-time"},{"type":"integer"}]}}}`,
		[]string{`{"v":"2023-11-14T22:13:20Z"}`, `{"v":5}`}},
	{"SumStrUnix", `{"type":"object","required":["v"],"properties":{"v":{"oneOf":[{"type":"string","format":"unix"},{"type":"integer"}]}}}`,
		[]string{`{"v":"1700000000"}`, `{"v":5}`}},
	{"SumNumStr", `{"type":"object","required":["v"],"properties":{"v":{"oneOf":[{"type":"number"},{"type":"string"},{"type":"boolean"}]}}}`,
		[]string{`{"v":1.5}`, `{"v":"s"}`, `{"v":false}`, `{"v":-0.0}`}},
	// K22: generic wrappers of arrays are named after the item postfix only — two optional nullable arrays of
	// date-time with different layouts share one wrapper type
	{"TimeArrLayouts", `{"type":"object","properties":{
		"a":{"type":"array","nullable":true,"items":{"type":"string","format":"date-time","x-ogen-time-format":"2006-01-02 15:04"}},
		"b":{"type":"array","nullable":true,"items":{"type":"string","format":"date-time"}}}}`,
		[]string{`{"a":["2024-05-06 07:08"]}`, `{"b":["2024-05-06T07:08:00Z"]}`, `{"a":["2024-05-06 07:08"],"b":["2024-05-06T07:08:00Z"]}`, `{"a":null,"b":null}`, `{}`}},
	// K22 again: a boxed array of arrays — whether the inner arrays are nullable is not in the wrapper's name
	{"NestedNullArr", `{"type":"object","properties":{
		"t":{"type":"array","nullable":true,"items":{"type":"array","items":{"type":"boolean","nullable":true}}},
		"u":{"type":"array","nullable":true,"items":{"type":"array","nullable":true,"items":{"type":"boolean","nullable":true}}}}}`,
		[]string{`{"t":[[true,null],[]]}`, `{"u":[null,[false]]}`, `{"t":null,"u":null}`, `{}`}},
	// K24: the variant of anyOf[integer, number] is chosen by the spelling of the number
	{"SumIntNum", `{"type":"object","required":["v"],"properties":{"v":{"anyOf":[{"type":"integer"},{"type":"number"}]}}}`,
		[]string{`{"v":3}`, `{"v":3.5}`, `{"v":3.0}`, `{"v":1e2}`}},
	{"NullDefaults", `{"type":"object","required":["a","ri"],"properties":{
		"a":{"type":"string","nullable":true,"default":null},"ri":{"type":"integer","nullable":true,"default":null},
		"b":{"type":"integer","nullable":true,"default":null},"c":{"type":"string","default":"x"},"d":{"type":"string","nullable":true,"default":"y"},
		"e":{"type":"boolean","default":true},"f":{"type":"number","default":0},"g":{"type":"integer","default":0},"h":{"type":"string","default":""}}}`,
		[]string{`{"a":"v","ri":1,"b":2,"c":"q","d":"z","e":false,"f":1.5,"g":7,"h":"w"}`, `{"a":null,"ri":null,"b":null,"c":"q","d":null,"e":true,"f":0,"g":0,"h":""}`,
			`{"a":"","ri":0,"b":0,"c":"","d":"","e":false,"f":0,"g":0,"h":""}`, `{"a":"v","ri":null,"b":3,"c":"x","d":"y","e":true,"f":-1,"g":-1,"h":"h"}`}},
	{"Formats", `{"type":"object","properties":{
		"uuid":{"type":"string","format":"uuid"},"ip":{"type":"string","format":"ip"},"ip4":{"type":"string","format":"ipv4"},"ip6":{"type":"string","format":"ipv6"},"uri":{"type":"string","format":"uri"},
		"dur":{"type":"string","format":"duration"},"dt":{"type":"string","format":"date-time"},"d":{"type":"string","format":"date"},"t":{"type":"string","format":"time"},"by":{"type":"string","format":"byte"},
		"f32":{"type":"number","format":"float"},"f64":{"type":"number","format":"double"},"sf64":{"type":"string","format":"float64"},"sf32":{"type":"string","format":"float32"},"sb":{"type":"string","format":"boolean"}}}`,
		[]string{`{"uuid":"123e4567-e89b-12d3-a456-426614174000"}`, `{"ip":"1.2.3.4"}`, `{"ip":"::1"}`, `{"ip4":"255.255.255.255"}`, `{"ip6":"2001:db8::1"}`, `{"uri":"http://example.com/p?q=1#f"}`,
			`{"dur":"1h2m3s"}`, `{"dur":"0s"}`, `{"dur":"-1.5s"}`, `{"dur":"-1ns"}`, `{"dur":"-1.5ms"}`, `{"dur":"-250ms"}`, `{"dur":"-999.999999ms"}`, `{"dur":"1ns"}`, `{"dur":"-1s"}`, `{"dur":"-2562047h47m16.854775808s"}`, `{"dur":"1µs"}`, `{"dur":"-1µs"}`, `{"ip6":"::ffff:192.0.2.1"}`, `{"ip":"::ffff:10.0.0.1"}`, `{"dt":"2023-11-14T22:13:20Z"}`, `{"dt":"2023-11-14T22:13:20.123456789+05:30"}`, `{"d":"2023-11-14"}`, `{"t":"22:13:20"}`, `{"by":"AAEC/w=="}`, `{"by":""}`,
			`{"f32":0.5}`, `{"f32":16777216}`, `{"f64":1e-11}`, `{"f64":9007199254740992}`, `{"f64":1.7976931348623157e308}`, `{"sf64":"0.1"}`, `{"sf32":"0.5"}`, `{"sb":"true"}`, `{"sb":"false"}`}},
}

var reFrac = regexp.MustCompile(`(T\d\d:\d\d:\d\d)\.\d+`)

func fmtMatrixDoc() string {
	comps := map[string]any{}
	paths := map[string]any{}
	for _, c := range fmtCases {
		comps[c.name] = json.RawMessage(c.schema)
		for k, v := range fmtExtra[c.name] {
			comps[k] = json.RawMessage(v)
		}
		paths["/"+c.name] = map[string]any{"post": map[string]any{"operationId": "post" + c.name,
			"requestBody": map[string]any{"required": true, "content": map[string]any{"application/json": map[string]any{"schema": map[string]any{"$ref": "#/components/schemas/" + c.name}}}},
			"responses":   map[string]any{"200": map[string]any{"description": "ok"}}}}
	}
	doc := map[string]any{"openapi": "3.0.3", "info": map[string]any{"title": "t", "version": "1"}, "paths": paths, "components": map[string]any{"schemas": comps}}
	b, _ := json.Marshal(doc)
	return string(b)
}

func c04Formats(r *lp.Run, drv *gc.Driver, pkg *gc.Pkg) {
	for _, c := range fmtCases {
		var items [][]string
		for _, in := range c.instances {
			items = append(items, []string{in})
		}
		ans, _ := drv.Do(map[string]any{"pkg": pkg.Name, "cmd": "decodebatch", "type": c.name, "items": items})
		res, ok := ans["results"].([]any)
		if !ok {
			r.Fail(lp.PropFail{Property: "C04", What: "driver failure", Input: c.name, Observed: fmt.Sprint(ans), Expected: "results"})
			continue
		}
		for i, x := range res {
			one := x.(map[string]any)
			inst := c.instances[i]
			in := map[string]any{"type": c.name, "schema": json.RawMessage(c.schema), "instance": inst}
			r.PropCheck()
			fail := func(what, obs, exp string) {
				switch c.name {
				case "TimeArrLayouts", "NestedNullArr":
					r.Known(lp.PropFail{Property: "C04", Class: "K22", What: what, Input: in, Observed: obs, Expected: exp})
					return
				case "SumIntNum":
					if strings.Contains(what, "different value") {
						r.Known(lp.PropFail{Property: "C04", Class: "K24", What: what, Input: in, Observed: obs, Expected: exp})
						return
					}
				}
				r.Fail(lp.PropFail{Property: "C04", What: what, Input: in, Observed: obs, Expected: exp})
			}
			if one["decode_err"] != nil || one["decode_panic"] != nil || one["driver_panic"] != nil {
				r.Count("c04 fmt "+c.name+inst, "fmt:decode-refused", true)
				fail("a valid instance is not decoded", fmt.Sprint(one["decode_err"], one["decode_panic"], one["driver_panic"]), "value")
				continue
			}
			again, _ := one["again"].(map[string]any)
			if again == nil {
				r.Count("c04 fmt "+c.name+inst, "fmt:no-reencode", true)
				fail("the decoded value was not re-encoded", fmt.Sprint(one), "text")
				continue
			}
			r.Count("c04 fmt "+c.name+inst, "fmt:round-trip", true)
			if again["encode_err"] != nil || again["encode_panic"] != nil {
				fail("a decoded valid instance cannot be encoded", fmt.Sprint(again["encode_err"], again["encode_panic"]), inst)
				continue
			}
			text, _ := again["text"].(string)
			if !stdValid([]byte(text)) || !jsonEqualRef(parseJSON(text), parseJSON(inst)) {
				// K14: date-time members are written at one-second resolution
				if m := reFrac.ReplaceAllString(inst, "$1"); m != inst && stdValid([]byte(text)) && jsonEqualRef(parseJSON(text), parseJSON(m)) {
					r.Known(lp.PropFail{Property: "C04", Class: "K14", What: "a date-time member loses its fractional seconds when encoded", Input: in, Observed: text, Expected: inst})
					continue
				}
				// K17: an absent recursive nullable optional member comes back as null
				if strings.HasPrefix(c.name, "NullRec") && stdValid([]byte(text)) && jsonEqualRef(dropNullMember(parseJSON(text), "next"), parseJSON(inst)) {
					r.Known(lp.PropFail{Property: "C04", Class: "K17", What: "an absent recursive nullable optional member is re-encoded as null", Input: in, Observed: text, Expected: inst})
					continue
				}
				fail("decoding and re-encoding a complete valid instance changes the document", text, inst)
				continue
			}
			if again["decode_err"] != nil || again["decoded"] != one["decoded"] {
				fail("decoding the encoding yields a different value", fmt.Sprint(again["decoded"], again["decode_err"])+" text="+text, fmt.Sprint(one["decoded"]))
			}
		}
	}
}

// dropNullMember removes, at every level, a member `name` whose value is null.
func dropNullMember(v any, name string) any {
	switch t := v.(type) {
	case map[string]any:
		out := map[string]any{}
		for k, x := range t {
			if k == name && x == nil {
				continue
			}
			out[k] = dropNullMember(x, name)
		}
		return out
	case []any:
		out := make([]any, len(t))
		for i, x := range t {
			out[i] = dropNullMember(x, name)
		}
		return out
	}
	return v
}
