package main

import (
	"encoding/json"
	"fmt"
	"sort"
	"strings"

	"github.com/ogen-go/ogen/gen"
	"github.com/ogen-go/ogen/gen/ir"

	"verifharness/internal/gc"
	"verifharness/internal/lp"
)

// ---- request bodies and response variants through client and server ----

type exSpec struct {
	pkg  *gc.Pkg
	g    *SchemaGen
	ops  []bodyOp
	rops []string // operations of the response matrix
}

type c01Exchange struct {
	sameName *gc.Pkg
	bodies []*exSpec
	resp   *exSpec
}

const respMatrixDoc = `{"openapi":"3.0.3","info":{"title":"t","version":"1"},
"paths":{
 "/r1":{"get":{"operationId":"r1","responses":{
   "200":{"description":"ok","headers":{"X-R":{"schema":{"type":"string"}},"X-N":{"required":true,"schema":{"type":"integer","format":"int64"}}},"content":{"application/json":{"schema":{"$ref":"#/components/schemas/A"}}}},
   "201":{"description":"created"},
   "404":{"description":"nf","content":{"application/json":{"schema":{"$ref":"#/components/schemas/B"}}}},
   "4XX":{"description":"client","content":{"application/json":{"schema":{"$ref":"#/components/schemas/C"}}}},
   "default":{"description":"def","content":{"application/json":{"schema":{"$ref":"#/components/schemas/D"}}}}}}},
 "/r2":{"get":{"operationId":"r2","responses":{
   "200":{"description":"ok","content":{"application/json":{"schema":{"type":"array","items":{"$ref":"#/components/schemas/A"}}}}},
   "204":{"description":"none","headers":{"X-R":{"schema":{"type":"string"}}}},
   "5XX":{"description":"srv","content":{"application/json":{"schema":{"$ref":"#/components/schemas/B"}}}}}}},
 "/r3":{"get":{"operationId":"r3","responses":{
   "200":{"description":"ok","content":{"application/json":{"schema":{"$ref":"#/components/schemas/A"}}}},
   "default":{"description":"def","headers":{"X-R":{"schema":{"type":"string"}}},"content":{"application/json":{"schema":{"$ref":"#/components/schemas/B"}}}}}}},
 "/r4":{"get":{"operationId":"r4","responses":{
   "200":{"description":"ok","content":{"application/json":{"schema":{"type":"string"}}}},
   "2XX":{"description":"ok2","content":{"application/json":{"schema":{"$ref":"#/components/schemas/C"}}}},
   "400":{"description":"bad","content":{"application/json":{"schema":{"$ref":"#/components/schemas/B"}}}}}}},
 "/r5":{"get":{"operationId":"r5","responses":{
   "200":{"description":"ok","content":{"application/json":{"schema":{"$ref":"#/components/schemas/C"}}}},
   "4XX":{"description":"c","content":{"application/json":{"schema":{"$ref":"#/components/schemas/D"}}}},
   "default":{"description":"def","content":{"application/json":{"schema":{"$ref":"#/components/schemas/C"}}}}}}},
 "/r6":{"get":{"operationId":"r6","responses":{
   "200":{"description":"ok","headers":{"X-R":{"schema":{"type":"string"}}}},
   "4XX":{"description":"c","headers":{"X-R":{"schema":{"type":"string"}}}},
   "default":{"description":"def","headers":{"X-R":{"schema":{"type":"string"}},"X-N":{"schema":{"type":"integer","format":"int64"}}}}}}},
 "/r7":{"get":{"operationId":"r7","responses":{
   "204":{"description":"none"},
   "3XX":{"description":"redir"},
   "default":{"description":"def"}}}},
 "/dflt":{"post":{"operationId":"dflt","requestBody":{"required":true,"content":{"application/json":{"schema":{"$ref":"#/components/schemas/Dflt"}}}},"responses":{"200":{"description":"ok"}}}}
},
"components":{"schemas":{
 "Dflt":{"type":"object","properties":{
   "a":{"type":"boolean","default":false},"b":{"type":"boolean","default":true},
   "c":{"type":"integer","format":"int64","default":0},"d":{"type":"integer","format":"int64","default":7},
   "e":{"type":"string","default":""},"f":{"type":"string","default":"x"},
   "g":{"type":"number","format":"double","default":0},"h":{"type":"number","format":"double","default":1.5},
   "i":{"type":"string"}}},
 "A":{"type":"object","required":["s","n"],"properties":{"s":{"type":"string"},"n":{"type":"integer","format":"int64"},"f":{"type":"number","format":"double"},"b":{"type":"boolean"},"arr":{"type":"array","items":{"type":"string"}},"on":{"type":"string","nullable":true}}},
 "B":{"type":"object","required":["code"],"properties":{"code":{"type":"integer","format":"int64"},"msg":{"type":"string"}}},
 "C":{"type":"object","properties":{"why":{"type":"string"},"m":{"type":"object","additionalProperties":{"type":"integer","format":"int64"}}}},
 "D":{"type":"object","required":["d"],"properties":{"d":{"type":"string"}}}}}}`

func c01BuildExchange(r *lp.Run, rng *lp.Rand, mod *gc.Module) *c01Exchange {
	ex := &c01Exchange{}
	n := r.N(8, 40)
	for i := 0; i < n; i++ {
		g := NewSchemaGen(rng.Fork(uint64(500 + i)))
		b := &bodySpec{g: g}
		for k := 0; k < 4; k++ {
			b.ops = append(b.ops, bodyOp{fmt.Sprintf("op%d", k), g.Gen(3)})
		}
		pkg, err := mod.Add(fmt.Sprintf("xb%d", i), []byte(b.doc()), gen.Options{})
		if err != nil {
			continue
		}
		ex.bodies = append(ex.bodies, &exSpec{pkg: pkg, g: g, ops: b.ops})
	}
	if sp, err := mod.Add("xsn", []byte(sameNameDoc), gen.Options{}); err != nil {
		r.Fail(lp.PropFail{Property: "C01", What: "the generator refuses the same-name parameter spec", Input: sameNameDoc, Observed: err.Error(), Expected: "generated package"})
	} else {
		ex.sameName = sp
	}
	pkg, err := mod.Add("xr", []byte(respMatrixDoc), gen.Options{})
	if err != nil {
		r.Fail(lp.PropFail{Property: "C01", What: "the generator refuses the response feature-matrix spec", Input: respMatrixDoc, Observed: err.Error(), Expected: "generated package"})
	} else {
		ex.resp = &exSpec{pkg: pkg}
	}
	return ex
}

func c01RunExchange(r *lp.Run, rng *lp.Rand, drv *gc.Driver, ex *c01Exchange) {
	for _, b := range ex.bodies {
		byID := map[string]gc.OpInfo{}
		for _, oi := range b.pkg.Ops {
			byID[oi.OperationID] = oi
		}
		for _, op := range b.ops {
			oi, ok := byID[op.name]
			if !ok {
				continue
			}
			c01BodyOp(r, drv, b, oi, op)
		}
	}
	if ex.sameName != nil {
		c01SameNames(r, drv, ex.sameName)
	}
	if ex.resp != nil {
		c01Responses(r, rng, drv, ex.resp)
		c01BodyDefaults(r, drv, ex.resp)
	}
}

func c01BodyOp(r *lp.Run, drv *gc.Driver, b *exSpec, oi gc.OpInfo, op bodyOp) {
	sj, _ := json.Marshal(op.schema.JSON())
	for i := 0; i < r.N(10, 30); i++ {
		v, ok := b.g.GenValid(op.schema, 3)
		if !ok || v == nil {
			continue
		}
		text := renderJSON(v)
		ans, _ := drv.Do(map[string]any{"pkg": b.pkg.Name, "cmd": "call", "op": oi.Name, "req_json": text})
		in := map[string]any{"schema": json.RawMessage(sj), "components": compsJSON(b.g), "body": text}
		if e := fmt.Sprint(ans["error"]); ans["error"] != nil {
			if strings.Contains(e, "no UnmarshalJSON") {
				return // the request type is not a named type (plain slice / primitive): built elsewhere
			}
			r.Count("c01body "+text, "body:driver-error", false)
			if strings.Contains(e, "cannot decode req_json") {
				continue // C03/C04's business
			}
			r.Fail(lp.PropFail{Property: "C01", What: "driver failure", Input: in, Observed: e, Expected: "a call"})
			continue
		}
		given, _ := ans["given"].(map[string]any)
		srv, _ := ans["server"].(map[string]any)
		cl, _ := ans["client"].(map[string]any)
		handler := srv != nil && fmt.Sprint(srv["handler_called"]) != "0"
		want := strings.TrimLeft(fmt.Sprint(given["req"]), "&")
		got := strings.TrimLeft(fmt.Sprint(srv["req"]), "&")
		branch := "refused"
		if handler && got == want {
			branch = "delivered"
		} else if handler {
			branch = "delivered-different"
		}
		r.Count("c01body "+b.pkg.Name+oi.Name+text, "body:"+branch, true)
		r.PropCheck()
		switch branch {
		case "delivered":
			if mw := strings.TrimLeft(fmt.Sprint(srv["mw_body"]), "&"); mw != want {
				r.Fail(lp.PropFail{Property: "C01", What: "the middleware sees another request body than the handler", Input: in, Observed: mw, Expected: want})
			}
		case "delivered-different":
			r.Fail(lp.PropFail{Property: "C01", What: "the handler receives a different request body than the caller supplied", Input: in, Observed: got, Expected: want})
		default:
			// D15: undeclared members of the instance do not survive decoding into the Go value, the value passes
			// Validate() (which never counts properties) and the document on the wire violates min/maxProperties
			if wire, ok := ans["wire"].(map[string]any); ok {
				if wb, ok := wire["body"].(string); ok && stdValid([]byte(wb)) && !b.g.Env().Valid(op.schema, parseJSON(wb)) && c04Known(op.schema, b.g.Env(), wb) == "D15" {
					r.Known(lp.PropFail{Property: "C01", Class: "D15", What: "a value that passes Validate() is sent as a document that violates min/maxProperties and is refused by the server", Input: in, Observed: wb, Expected: "refused by the client, or valid on the wire"})
					continue
				}
			}
			// the value came from decoding a valid instance: it passes validation and must be delivered
			r.Fail(lp.PropFail{Property: "C01", What: "a valid request body is not delivered", Input: in, Observed: fmt.Sprint("client=", cl, " wire=", ans["wire"]), Expected: "delivered unchanged"})
		}
	}
}

type respVariant struct {
	kind   string // code | pattern | default
	typ    string // Go type expression of the value the handler returns
	codes  []int  // statuses to try
	header bool
	tag    string // c200 | p4 | d  (the Lean driver's notation)
}

func respVariants(op *ir.Operation) []respVariant {
	var out []respVariant
	claimed := map[int]bool{}
	for code := range op.Responses.StatusCode {
		claimed[code] = true
	}
	typeOf := func(resp *ir.Response) []string {
		var ts []string
		goT := func(t *ir.Type) string {
			if t.DoPassByPointer() {
				return "*" + t.Go()
			}
			return t.Go()
		}
		if resp.NoContent != nil {
			ts = append(ts, goT(resp.NoContent))
		}
		var cts []string
		for ct := range resp.Contents {
			cts = append(cts, string(ct))
		}
		sort.Strings(cts)
		for _, ct := range cts {
			ts = append(ts, goT(resp.Contents[ir.ContentType(ct)].Type))
		}
		return ts
	}
	var codes []int
	for code := range op.Responses.StatusCode {
		codes = append(codes, code)
	}
	sort.Ints(codes)
	for _, code := range codes {
		for _, t := range typeOf(op.Responses.StatusCode[code]) {
			out = append(out, respVariant{kind: "code", typ: t, codes: []int{code}, tag: fmt.Sprintf("c%d", code)})
		}
	}
	patClaimed := map[int]bool{}
	for i, resp := range op.Responses.Pattern {
		if resp == nil {
			continue
		}
		patClaimed[i+1] = true
		var cs []int
		h := (i + 1) * 100 // Pattern[0] is 1XX
		for _, c := range []int{h + 1, h + 18, h + 99, h} {
			if !claimed[c] {
				cs = append(cs, c)
			}
		}
		for _, t := range typeOf(resp) {
			out = append(out, respVariant{kind: "pattern", typ: t, codes: cs, tag: fmt.Sprintf("p%d", i+1)})
		}
	}
	if op.Responses.Default != nil {
		var cs []int
		for _, c := range []int{200, 202, 301, 400, 418, 500, 503, 599} {
			if !claimed[c] && !patClaimed[c/100] {
				cs = append(cs, c)
			}
		}
		for _, t := range typeOf(op.Responses.Default) {
			out = append(out, respVariant{kind: "default", typ: t, codes: cs, tag: "d"})
		}
	}
	return out
}

func c01Responses(r *lp.Run, rng *lp.Rand, drv *gc.Driver, x *exSpec) {
	for _, op := range x.pkg.Gen.Operations() {
		if op.Request != nil {
			continue // the response matrix operations take no request
		}
		c01Select(r, rng, drv, x, op)
		for _, v := range respVariants(op) {
			for _, code := range v.codes {
				for k := 0; k < r.N(6, 40); k++ {
					seed := rng.Uint64() >> 1
					ans, _ := drv.Do(map[string]any{"pkg": x.pkg.Name, "cmd": "call", "op": op.Name,
						"script": map[string]any{"respond_random": map[string]any{"type": v.typ, "seed": fmt.Sprint(seed), "status": code}}})
					srv, _ := ans["server"].(map[string]any)
					cl, _ := ans["client"].(map[string]any)
					wire, _ := ans["wire"].(map[string]any)
					in := map[string]any{"operation": op.Spec.OperationID, "variant": v.kind, "type": v.typ, "status": code, "seed": seed}
					if ans["error"] != nil || srv == nil || srv["build_err"] != nil {
						r.Count("c01resp "+fmt.Sprint(in), "resp:driver-error", false)
						r.Fail(lp.PropFail{Property: "C01", What: "driver failure", Input: in, Observed: fmt.Sprint(ans["error"], srv), Expected: "a call"})
						continue
					}
					want := fmt.Sprint(srv["responded"])
					in["handler_returned"] = want
					got := strings.TrimLeft(fmt.Sprint(cl["res"]), "&")
					branch := "error"
					switch {
					case cl["panic"] != nil:
						branch = "client-panic"
					case cl["err"] == nil && got == want:
						branch = "same"
					case cl["err"] == nil:
						branch = "different"
					}
					r.Count("c01resp "+fmt.Sprint(in), "resp:"+v.kind+":"+branch, true)
					r.PropCheck()
					status := fmt.Sprint(wire["status"])
					if wh := fmt.Sprint(ans["write_headers"]); wh != "1" && wh != "0" {
						r.Fail(lp.PropFail{Property: "C15", What: "the server writes more than one response header for one request", Input: in, Observed: "WriteHeader calls: " + wh + ", status " + status, Expected: "1"})
					}
					switch branch {
					case "client-panic":
						r.Fail(lp.PropFail{Property: "C01", What: "the generated client panics while decoding a response", Input: in, Observed: fmt.Sprint(cl["panic"]), Expected: "value or error"})
					case "different":
						if hdrBlank(want) {
							r.Known(lp.PropFail{Property: "C01", Class: "K4", What: "a response header value loses leading/trailing blanks", Input: in, Observed: got, Expected: want})
						} else {
							r.Fail(lp.PropFail{Property: "C01", What: "the caller receives a different response than the handler returned", Input: in, Observed: got + " (status " + status + ")", Expected: want})
						}
					case "same":
						if v.kind != "code" || code != 0 {
							if status != fmt.Sprint(code) {
								r.Fail(lp.PropFail{Property: "C01", What: "the response is sent with another status than the variant carries", Input: in, Observed: status, Expected: fmt.Sprint(code)})
							}
						}
					case "error":
						// an error instead of a different value is allowed when the value cannot be carried
						// (header text with controls, …); values without such text must arrive
						if !strings.ContainsAny(want, "\x00\n\t") && !strings.Contains(want, "\\x00") && !strings.Contains(want, "\\n") && !strings.Contains(want, "\\t") && !hdrBlank(want) {
							r.Fail(lp.PropFail{Property: "C01", What: "the caller gets an error for a response the handler returned", Input: in, Observed: fmt.Sprint(cl["err"]) + " (status " + status + ")", Expected: want})
						}
					}
				}
			}
		}
	}
}

// hdrBlank: does the canonical form contain a header field (XR=…) whose text has blanks at the ends
func hdrBlank(canon string) bool {
	i := strings.Index(canon, "XR=some(\"")
	if i < 0 {
		return false
	}
	rest := canon[i+len("XR=some(\""):]
	j := strings.Index(rest, "\")")
	if j < 0 {
		return false
	}
	v := rest[:j]
	// HTTP's field-value rules: optional whitespace at the ends is trimmed, CR/LF become blanks
	return v != strings.TrimSpace(v) || strings.HasPrefix(v, "\\t") || strings.HasSuffix(v, "\\t") || strings.Contains(v, "\\n") || strings.Contains(v, "\\r")
}

// c01Select ties the Lean `select` ladder to the generated response decoder: a pattern or default variant is
// returned with every interesting status (also ones the spec assigns to other variants) and the type of the
// value the client decodes tells which variant it selected.
func c01Select(r *lp.Run, rng *lp.Rand, drv *gc.Driver, x *exSpec, op *ir.Operation) {
	vars := respVariants(op)
	byType := map[string]string{}
	var tags []string
	seen := map[string]bool{}
	for _, v := range vars {
		byType[strings.TrimPrefix(v.typ, "*")] = v.tag
		if !seen[v.tag] {
			seen[v.tag] = true
			tags = append(tags, v.tag)
		}
	}
	decl := strings.Join(tags, ",")
	statuses := []int{200, 201, 202, 299, 301, 400, 404, 418, 499, 500, 503} // statuses that may carry a body
	for _, v := range vars {
		if v.kind == "code" {
			continue
		}
		for _, st := range statuses {
			ans, _ := drv.Do(map[string]any{"pkg": x.pkg.Name, "cmd": "call", "op": op.Name,
				"script": map[string]any{"respond_random": map[string]any{"type": v.typ, "seed": fmt.Sprint(rng.Uint64() >> 1), "status": st}}})
			cl, _ := ans["client"].(map[string]any)
			wire, _ := ans["wire"].(map[string]any)
			if wh := fmt.Sprint(ans["write_headers"]); wh != "1" && wh != "0" {
				srv, _ := ans["server"].(map[string]any)
				r.Fail(lp.PropFail{Property: "C15", What: "the server writes more than one response header for one request", Input: map[string]any{"operation": op.Spec.OperationID, "returned_variant": v.tag, "status": st, "handler_returned": fmt.Sprint(srv["responded"])}, Observed: "WriteHeader calls: " + wh + ", status on the wire " + fmt.Sprint(wire["status"]), Expected: "1"})
			}
			if cl == nil || wire == nil || fmt.Sprint(wire["status"]) != fmt.Sprint(st) {
				continue // not sent with that status (e.g. 204 with a body is refused by net/http)
			}
			in := map[string]any{"operation": op.Spec.OperationID, "declared": decl, "returned_variant": v.tag, "status": st}
			if cl["err"] != nil {
				r.Count("rsel-err "+fmt.Sprint(in), "select:error", true)
				continue
			}
			res := strings.TrimLeft(fmt.Sprint(cl["res"]), "&")
			tn := res
			if i := strings.IndexAny(res, "{["); i > 0 {
				tn = res[:i]
			}
			got, ok := byType[tn]
			if !ok {
				got = "?" + tn
			}
			r.Case("rsel", fmt.Sprintf("%s %d", decl, st), got, "select:"+got, true)
			r.PropCheck()
			if got != v.tag {
				r.Known(lp.PropFail{Property: "C01", Class: "K3", What: "a pattern/default variant carrying a status that the spec assigns to a more specific variant is decoded as that other variant", Input: in, Observed: got, Expected: v.tag})
			}
		}
	}
}

// absent members that have a schema default arrive as that default (also when the default is the zero value)
func c01BodyDefaults(r *lp.Run, drv *gc.Driver, x *exSpec) {
	abs := map[string]any{"$absent": true}
	all := map[string]string{"A": "some(false)", "B": "some(true)", "C": "some(0)", "D": "some(7)", "E": `some("")`, "F": `some("x")`,
		"G": "some(f64:0000000000000000)", "H": "some(f64:3ff8000000000000)", "I": "absent"}
	given := map[string]map[string]any{
		"nothing":  {"A": abs, "B": abs, "C": abs, "D": abs, "E": abs, "F": abs, "G": abs, "H": abs, "I": abs},
		"some set": {"A": true, "B": abs, "C": json.Number("5"), "D": abs, "E": "v", "F": abs, "G": abs, "H": json.Number("2"), "I": "i"},
	}
	for name, desc := range given {
		ans, _ := drv.Do(map[string]any{"pkg": x.pkg.Name, "cmd": "call", "op": "Dflt", "req": desc})
		srv, _ := ans["server"].(map[string]any)
		r.Count("c01dflt "+name, "body-defaults", true)
		r.PropCheck()
		in := map[string]any{"operation": "dflt", "members_supplied": name}
		if ans["error"] != nil || srv == nil {
			r.Fail(lp.PropFail{Property: "C01", What: "driver failure", Input: in, Observed: fmt.Sprint(ans), Expected: "a call"})
			continue
		}
		got := fmt.Sprint(srv["req"])
		for f, want := range all {
			exp := f + "=" + want
			if name == "some set" {
				switch f {
				case "A":
					exp = "A=some(true)"
				case "C":
					exp = "C=some(5)"
				case "E":
					exp = `E=some("v")`
				case "H":
					exp = "H=some(f64:4000000000000000)"
				case "I":
					exp = `I=some("i")`
				}
			}
			if !strings.Contains(got, exp) {
				r.Fail(lp.PropFail{Property: "C01", What: "an absent member with a schema default does not arrive as that default (or a supplied member is changed)", Input: in, Observed: got, Expected: "… " + exp + " …"})
				break
			}
		}
	}
}

// ---- parameters that share a name across locations, several parameters per operation, path parameters declared in
// another order than they have in the path (also split between the path item and the operation) ----

const sameNameDoc = `{"openapi":"3.0.3","info":{"title":"t","version":"1"},"paths":{
 "/sn/{id}":{"get":{"operationId":"sameName","parameters":[
   {"name":"id","in":"path","required":true,"schema":{"type":"string"}},
   {"name":"id","in":"query","required":true,"schema":{"type":"string"}},
   {"name":"id","in":"header","required":true,"schema":{"type":"string"}},
   {"name":"id","in":"cookie","required":true,"schema":{"type":"string"}}],
   "responses":{"200":{"description":"ok"}}}},
 "/sn2/{a}/{b}":{"get":{"operationId":"sameName2","parameters":[
   {"name":"b","in":"header","required":true,"schema":{"type":"integer"}},
   {"name":"a","in":"query","schema":{"type":"integer"}},
   {"name":"a","in":"path","required":true,"schema":{"type":"integer"}},
   {"name":"b","in":"path","required":true,"schema":{"type":"integer"}},
   {"name":"a","in":"cookie","schema":{"type":"integer"}}],
   "responses":{"200":{"description":"ok"}}}},
 "/sn3/{x}":{"parameters":[{"name":"x","in":"header","required":true,"schema":{"type":"string"}},{"name":"x","in":"path","required":true,"schema":{"type":"string"}}],
   "get":{"operationId":"sameName3","parameters":[{"name":"x","in":"query","required":true,"schema":{"type":"string"}}],"responses":{"200":{"description":"ok"}}}},
 "/po/{org}/{repo}/labels/{label}":{"get":{"operationId":"pathOrder","parameters":[
   {"name":"label","in":"path","required":true,"schema":{"type":"string"}},
   {"name":"org","in":"path","required":true,"schema":{"type":"string"}},
   {"name":"repo","in":"path","required":true,"schema":{"type":"string"}}],
   "responses":{"200":{"description":"ok"}}}},
 "/po2/{a}/{b}":{"parameters":[{"name":"a","in":"path","required":true,"schema":{"type":"string"}}],
   "get":{"operationId":"pathOrder2","parameters":[{"name":"b","in":"path","required":true,"schema":{"type":"string"}}],"responses":{"200":{"description":"ok"}}},
   "delete":{"operationId":"pathOrder3","parameters":[{"name":"q","in":"query","schema":{"type":"string"}},{"name":"b","in":"path","required":true,"schema":{"type":"string"}}],"responses":{"200":{"description":"ok"}}}}
}}`

func c01SameNames(r *lp.Run, drv *gc.Driver, pkg *gc.Pkg) {
	for _, oi := range pkg.Ops {
		// a distinct value per parameter, typed by the field's declared schema (integers for sameName2)
		for round := 0; round < 3; round++ {
			params := map[string]any{}
			for k, p := range oi.Params {
				if oi.OperationID == "sameName2" {
					params[p.Field] = json.Number(fmt.Sprint(100*(round+1) + k))
				} else {
					params[p.Field] = fmt.Sprintf("%s-%s-%d", p.In, p.Name, round)
				}
			}
			ans, _ := drv.Do(map[string]any{"pkg": pkg.Name, "cmd": "call", "op": oi.Name, "params": params})
			in := map[string]any{"operation": oi.OperationID, "parameters": oi.Params, "values": params}
			r.Count("c01 samename "+oi.OperationID+fmt.Sprint(round), "same-name-parameters", true)
			r.PropCheck()
			if ans["error"] != nil || ans["crash"] != nil || ans["driver_panic"] != nil {
				r.Fail(lp.PropFail{Property: "C01", What: "driver failure", Input: in, Observed: fmt.Sprint(ans["error"], ans["crash"], ans["driver_panic"]), Expected: "a call"})
				continue
			}
			given, _ := ans["given"].(map[string]any)
			srv, _ := ans["server"].(map[string]any)
			if srv == nil || fmt.Sprint(srv["handler_called"]) == "0" {
				r.Fail(lp.PropFail{Property: "C01", What: "a call with same-named parameters in different locations does not reach the handler", Input: in, Observed: fmt.Sprint(ans["status"], " ", ans["client"], " ", ans["wire"]), Expected: "handler invoked"})
				continue
			}
			if fmt.Sprint(srv["params"]) != fmt.Sprint(given["params"]) {
				r.Fail(lp.PropFail{Property: "C01", What: "with same-named parameters in different locations the handler receives other values than the caller supplied", Input: in, Observed: fmt.Sprint(srv["params"]), Expected: fmt.Sprint(given["params"])})
			}
		}
	}
}
