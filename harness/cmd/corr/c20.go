package main

import (
	"crypto/sha1"
	"fmt"
	"io/fs"
	"os"
	"os/exec"
	"path/filepath"
	"sort"
	"strings"

	"verifharness/internal/lp"
)

func init() { suites["c20"] = c20 }

const cliGood = `{"openapi":"3.0.3","info":{"title":"t","version":"1"},"paths":{"/a":{"get":{"operationId":"a","responses":{"200":{"description":"ok"}}}}}}`

type cliStage struct {
	name  string   // harness name
	model string   // model stage
	args  []string // extra arguments
	spec  string   // spec text ("" ⇒ the spec file does not exist)
	cfg   string   // config file text ("" ⇒ none)
}

func cliStages() []cliStage {
	rep := func(old, new string) string { return strings.Replace(cliGood, old, new, 1) }
	return []cliStage{
		{name: "bad-flag", model: "flags", args: []string{"--nope"}, spec: cliGood},
		{name: "missing-config", model: "config", args: []string{"--config", "{W}/nocfg.yml"}, spec: cliGood},
		{name: "malformed-config", model: "config", args: []string{"--config", "{W}/cfg.yml"}, spec: cliGood, cfg: "generator: ["},
		{name: "unknown-config-field", model: "config", args: []string{"--config", "{W}/cfg.yml"}, spec: cliGood, cfg: "nonsense_field: 1\n"},
		{name: "config-unknown-feature-enable", model: "config", args: []string{"--config", "{W}/cfg.yml"}, spec: cliGood, cfg: "generator:\n  features:\n    enable:\n      - paths/clinet\n"},
		{name: "config-unknown-feature-disable", model: "config", args: []string{"--config", "{W}/cfg.yml"}, spec: cliGood, cfg: "generator:\n  features:\n    disable:\n      - nosuch/feature\n"},
		{name: "config-feature-wrong-type", model: "config", args: []string{"--config", "{W}/cfg.yml"}, spec: cliGood, cfg: "generator:\n  features:\n    enable: 7\n"},
		{name: "config-bad-convenient-errors", model: "config", args: []string{"--config", "{W}/cfg.yml"}, spec: cliGood, cfg: "generator:\n  convenient_errors: maybe\n"},
		{name: "config-bad-filter-regex", model: "config", args: []string{"--config", "{W}/cfg.yml"}, spec: cliGood, cfg: "generator:\n  filters:\n    path_regex: \"([\"\n"},
		{name: "config-bad-depth", model: "config", args: []string{"--config", "{W}/cfg.yml"}, spec: cliGood, cfg: "parser:\n  depth_limit: many\n"},
		{name: "missing-spec", model: "specRead"},
		{name: "malformed-yaml", model: "yamlParse", spec: `{"openapi": "3.0.3", "info": {`},
		{name: "invalid-version", model: "specValidate", spec: rep("3.0.3", "9.9")},
		{name: "spec-validation", model: "specValidate", spec: rep(`"responses":{"200":{"description":"ok"}}`, `"responses":{}`)},
		{name: "not-implemented", model: "irBuild", spec: rep(`"operationId":"a",`, `"operationId":"a","parameters":[{"name":"p","in":"query","content":{"text/plain":{"schema":{"type":"string"}}}}],`)},
		{name: "dangling-ref", model: "irBuild", spec: rep(`"responses":{"200":{"description":"ok"}}`, `"responses":{"200":{"$ref":"#/components/responses/nope"}}`)},
		{name: "duplicate-operation-id", model: "irBuild", spec: rep(`"/a":{"get":{"operationId":"a","responses":{"200":{"description":"ok"}}}}`, `"/a":{"get":{"operationId":"a","responses":{"200":{"description":"ok"}}}},"/b":{"get":{"operationId":"a","responses":{"200":{"description":"ok"}}}}`)},
		{name: "route-conflict", model: "routeBuild", spec: rep(`"/a":{"get":{"operationId":"a",`, `"/a/{x}{y}":{"get":{"operationId":"a","parameters":[{"name":"x","in":"path","required":true,"schema":{"type":"string"}},{"name":"y","in":"path","required":true,"schema":{"type":"string"}}],`)},
		{name: "success", model: "none", spec: cliGood},
	}
}

type snapEntry struct {
	kind, mode, hash string
}

func snapshot(dir string) map[string]snapEntry {
	if _, err := os.Lstat(dir); err != nil {
		return nil
	}
	out := map[string]snapEntry{}
	filepath.WalkDir(dir, func(p string, d fs.DirEntry, err error) error {
		if err != nil || p == dir {
			return nil
		}
		rel, _ := filepath.Rel(dir, p)
		info, _ := d.Info()
		if d.IsDir() {
			out[rel] = snapEntry{"dir", fmt.Sprintf("%o", info.Mode().Perm()), ""}
		} else {
			b, _ := os.ReadFile(p)
			out[rel] = snapEntry{"file", fmt.Sprintf("%o", info.Mode().Perm()), fmt.Sprintf("%x", sha1.Sum(b))}
		}
		return nil
	})
	return out
}

var cliUserFiles = []string{"oas_x.go", "myoas_gen.go", "openapi_gen.go.bak", "user.go", "oas_user_gen.go", "openapi_extra_gen_test.go", "OAS_upper_gen.go", "oas_gen.go.txt", "oas_gen.go", "xoas_a_gen.go", "openapi_gen_test.go", "openapi_generate.go", "oas_generic_helpers.go", "oas_gen_overrides.go", "oas_a_gen_b.go", "oas_gen.gox", "oas_x_gen_test.go.go", "openapi_gen", "oas_gen_test.go.orig", "oas_.go", "oas_a_GEN.go", "oas_handlers_gen_tests.go", "oas_client_gen_set.go", "openapi_b_gen_est.go", "oas_c_gen_t.go", "oas_d_gen__.go", "oas_e_gen_test_test.go", "oas_f_gen.go.go", "oas_g_gen_tes.go"}

func c20(r *lp.Run) {
	r.SetRule("the cmd/ogen binary built from /repo, run with --clean (and without) for every pre-write failure stage (bad flag; missing, malformed, unknown-field config; missing spec; malformed YAML; invalid version; spec validation; not-implemented feature; dangling $ref; duplicate operationId; routing conflict) and for success, crossed with every target state (absent, empty, previous generation, previous generation + look-alike user files + directories named like generated files + nested directories, the same read-only); recursive snapshot (names, modes, hashes) before and after, exit code; top-level outcome compared with the Lean stage machine. non-trivial = distinct (stage, state, clean) with a non-empty target")
	scratch := os.Getenv("VERIF_SCRATCH")
	if scratch == "" {
		scratch = "/var/tmp"
	}
	W := filepath.Join(scratch, fmt.Sprintf("cli-%d", os.Getpid()))
	os.MkdirAll(W, 0o755)
	defer func() {
		exec.Command("chmod", "-R", "u+w", W).Run()
		os.RemoveAll(W)
	}()
	repo := os.Getenv("VERIF_REPO")
	if repo == "" {
		repo = "/repo"
	}
	bin := filepath.Join(W, "ogen")
	build := exec.Command("go", "build", "-o", bin, "./cmd/ogen")
	build.Dir = repo
	build.Env = append(os.Environ(), "GOFLAGS=-mod=mod", "GOPROXY=off", "GOSUMDB=off", "GOTOOLCHAIN=local")
	if out, err := build.CombinedOutput(); err != nil {
		r.Fail(lp.PropFail{Property: "C20", What: "cmd/ogen does not build", Input: "go build ./cmd/ogen", Observed: string(out), Expected: "binary"})
		return
	}
	env := append(os.Environ(), "GOFLAGS=-mod=mod", "GOPROXY=off", "GOSUMDB=off", "GOTOOLCHAIN=local")
	run := func(args ...string) int {
		cmd := exec.Command(bin, args...)
		cmd.Dir = W
		cmd.Env = env
		cmd.Run()
		return cmd.ProcessState.ExitCode()
	}
	okSpec := filepath.Join(W, "ok.json")
	os.WriteFile(okSpec, []byte(cliGood), 0o644)
	tgt := filepath.Join(W, "tgt")
	mkstate := func(state string) {
		exec.Command("chmod", "-R", "u+w", tgt).Run()
		os.RemoveAll(tgt)
		if state == "absent" {
			return
		}
		os.MkdirAll(tgt, 0o755)
		if state == "empty" {
			return
		}
		run("--target", tgt, "--package", "api", okSpec)
		if state == "mixed" || state == "readonly" {
			for _, n := range cliUserFiles {
				os.WriteFile(filepath.Join(tgt, n), []byte("package api // user "+n+"\n"), 0o644)
			}
			os.MkdirAll(filepath.Join(tgt, "oas_dir_gen.go"), 0o755)
			os.WriteFile(filepath.Join(tgt, "oas_dir_gen.go", "inner_gen.go"), []byte("x"), 0o644)
			os.MkdirAll(filepath.Join(tgt, "sub"), 0o755)
			os.WriteFile(filepath.Join(tgt, "sub", "oas_nested_gen.go"), []byte("x"), 0o644)
		}
		if state == "readonly" {
			ents, _ := os.ReadDir(tgt)
			for _, e := range ents {
				if !e.IsDir() {
					os.Chmod(filepath.Join(tgt, e.Name()), 0o444)
				}
			}
		}
	}
	// what a successful run writes
	mkstate("absent")
	run("--target", tgt, "--package", "api", okSpec)
	var written []string
	for n := range snapshot(tgt) {
		written = append(written, n)
	}
	sort.Strings(written)
	if len(written) == 0 {
		r.Fail(lp.PropFail{Property: "C20", What: "a successful run writes nothing", Input: cliGood, Observed: "empty target", Expected: "generated files"})
		return
	}
	isWritten := map[string]bool{}
	for _, w := range written {
		isWritten[w] = true
	}
	for _, state := range []string{"absent", "empty", "prev", "mixed", "readonly"} {
		for _, st := range cliStages() {
			for _, clean := range []bool{true, false} {
				mkstate(state)
				specPath := filepath.Join(W, "spec.json")
				os.Remove(specPath)
				if st.spec != "" {
					os.WriteFile(specPath, []byte(st.spec), 0o644)
				}
				os.Remove(filepath.Join(W, "cfg.yml"))
				if st.cfg != "" {
					os.WriteFile(filepath.Join(W, "cfg.yml"), []byte(st.cfg), 0o644)
				}
				before := snapshot(tgt)
				args := []string{"--target", tgt, "--package", "api"}
				if clean {
					args = append(args, "--clean")
				}
				for _, a := range st.args {
					args = append(args, strings.ReplaceAll(a, "{W}", W))
				}
				args = append(args, specPath)
				rc := run(args...)
				after := snapshot(tgt)
				// ---- model line (top level only) ----
				ents := func(s map[string]snapEntry, orig map[string]snapEntry) string {
					if s == nil {
						return "absent"
					}
					var items []string
					for n, e := range s {
						if strings.Contains(n, string(filepath.Separator)) {
							continue
						}
						k, c := "f", "1"
						if e.kind == "dir" {
							k, c = "d", "0"
						} else if orig != nil {
							if o, ok := orig[n]; !ok || o.hash != e.hash {
								c = "99" // (re)written by this run
							}
						}
						items = append(items, n+":"+k+":"+c)
					}
					sort.Strings(items)
					if len(items) == 0 {
						return "empty"
					}
					return strings.Join(items, ",")
				}
				rcs := "0"
				if rc != 0 {
					rcs = "1"
				}
				// a successful run over a previous generation rewrites identical bytes: content ids are
				// compared by "written this run" = name in the generator's output set
				afterLine := ents(after, nil)
				if rc == 0 && after != nil {
					var items []string
					for n, e := range after {
						if strings.Contains(n, string(filepath.Separator)) {
							continue
						}
						k, c := "f", "1"
						if e.kind == "dir" {
							k, c = "d", "0"
						} else if isWritten[n] {
							c = "99"
						}
						items = append(items, n+":"+k+":"+c)
					}
					sort.Strings(items)
					afterLine = strings.Join(items, ",")
				}
				modelStage := st.model
				tag := fmt.Sprintf("%s/%s/clean=%v", st.name, state, clean)
				if state == "readonly" && rc != 0 && st.model == "none" {
					// read-only files make the write itself fail: OS semantics, outside the model
					r.Count("cli "+tag, "cli:os-failure", true)
				} else {
					r.Case("cli", fmt.Sprintf("%s %s %s %s", bs(clean), modelStage, strings.Join(written, ","), ents(before, nil)), rcs+" "+afterLine, "cli:"+st.name, before != nil && len(before) > 0)
				}
				// ---- the property on the implementation ----
				r.PropCheck()
				in := map[string]any{"stage": st.name, "target_state": state, "clean": clean, "args": strings.Join(args[2:], " ")}
				if st.model != "none" {
					if rc == 0 {
						r.Fail(lp.PropFail{Property: "C20", What: "a pre-write failure exits with status 0", Input: in, Observed: "exit 0", Expected: "non-zero"})
					}
					if d := snapDiff(before, after); d != "" {
						r.Fail(lp.PropFail{Property: "C20", What: "a pre-write failure changes the target directory", Input: in, Observed: d, Expected: "byte-identical snapshot"})
					}
					continue
				}
				// success: only own-pattern files may disappear or change; nested content and user files survive
				if rc != 0 && state != "readonly" {
					r.Fail(lp.PropFail{Property: "C20", What: "generation of a valid spec fails", Input: in, Observed: fmt.Sprint("exit ", rc), Expected: "exit 0"})
					continue
				}
				for n, e := range before {
					a, ok := after[n]
					own := !strings.Contains(n, string(filepath.Separator)) && e.kind == "file" &&
						(strings.HasSuffix(n, "_gen.go") || strings.HasSuffix(n, "_gen_test.go")) && (strings.HasPrefix(n, "openapi") || strings.HasPrefix(n, "oas"))
					switch {
					case !ok && !(own && clean):
						r.Fail(lp.PropFail{Property: "C20", What: "a file that does not match the generator's own pattern (or a directory, or without --clean) is removed", Input: in, Observed: "removed: " + n, Expected: "kept"})
					case ok && a.hash != e.hash && !isWritten[n]:
						r.Fail(lp.PropFail{Property: "C20", What: "a user file is modified", Input: in, Observed: "modified: " + n, Expected: "unchanged"})
					case ok && own && clean && !isWritten[n] && state != "readonly":
						r.Fail(lp.PropFail{Property: "C20", What: "--clean leaves a stale file of the generator's own pattern", Input: in, Observed: "still there: " + n, Expected: "removed"})
					}
				}
			}
		}
	}
	c20Expand(r, W, bin, run, tgt, mkstate)
}

func snapDiff(a, b map[string]snapEntry) string {
	if (a == nil) != (b == nil) {
		return fmt.Sprintf("existence changed: before exists=%v after exists=%v (%d entries)", a != nil, b != nil, len(b))
	}
	var d []string
	for n, e := range a {
		if f, ok := b[n]; !ok {
			d = append(d, "removed "+n)
		} else if e != f {
			d = append(d, "modified "+n)
		}
	}
	for n := range b {
		if _, ok := a[n]; !ok {
			d = append(d, "added "+n)
		}
	}
	sort.Strings(d)
	if len(d) > 8 {
		d = append(d[:8], fmt.Sprintf("… %d more", len(d)-8))
	}
	return strings.Join(d, "; ")
}

// K6: `expand:` pointing into the target directory is written during IR build, before a later failure
func c20Expand(r *lp.Run, W, bin string, run func(...string) int, tgt string, mkstate func(string)) {
	mkstate("absent")
	cfg := filepath.Join(W, "expand.yml")
	os.WriteFile(cfg, []byte("expand: "+filepath.Join(tgt, "expanded.yml")+"\n"), 0o644)
	spec := filepath.Join(W, "conflict.json")
	os.WriteFile(spec, []byte(strings.Replace(cliGood, `"/a":{"get":{"operationId":"a",`, `"/a/{x}{y}":{"get":{"operationId":"a","parameters":[{"name":"x","in":"path","required":true,"schema":{"type":"string"}},{"name":"y","in":"path","required":true,"schema":{"type":"string"}}],`, 1)), 0o644)
	before := snapshot(tgt)
	rc := run("--target", tgt, "--package", "api", "--clean", "--config", cfg, spec)
	after := snapshot(tgt)
	r.Count("cli expand", "cli:expand-into-target", true)
	r.PropCheck()
	if d := snapDiff(before, after); rc != 0 && d != "" {
		r.Known(lp.PropFail{Property: "C20", Class: "K6", What: "with `expand:` pointing into the target directory the expanded spec is written during IR build; a later routing failure exits non-zero after creating the directory and that file", Input: map[string]any{"config": "expand: <target>/expanded.yml", "spec": "routing conflict /a/{x}{y}"}, Observed: d, Expected: "untouched"})
	}
}
