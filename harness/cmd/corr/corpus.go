package main

import (
	"bufio"
	"encoding/json"
	"os"
	"path/filepath"
)

// corpusDir is /verif/corpus unless VERIF_CORPUS overrides it.
func corpusDir() string {
	if d := os.Getenv("VERIF_CORPUS"); d != "" {
		return d
	}
	return "/verif/corpus"
}

// corpusLines reads corpus/<id>/*.jsonl; each line is a JSON string (the case payload).
func corpusLines(id string) []string {
	var out []string
	files, _ := filepath.Glob(filepath.Join(corpusDir(), id, "*.jsonl"))
	for _, f := range files {
		fh, err := os.Open(f)
		if err != nil {
			continue
		}
		sc := bufio.NewScanner(fh)
		sc.Buffer(make([]byte, 1<<20), 1<<24)
		for sc.Scan() {
			var s string
			if json.Unmarshal(sc.Bytes(), &s) == nil {
				out = append(out, s)
			}
		}
		fh.Close()
	}
	return out
}

// corpusObjs reads corpus/<id>/*.jsonl where each line is a JSON object.
func corpusObjs(id string) []map[string]any {
	var out []map[string]any
	files, _ := filepath.Glob(filepath.Join(corpusDir(), id, "*.jsonl"))
	for _, f := range files {
		fh, err := os.Open(f)
		if err != nil {
			continue
		}
		sc := bufio.NewScanner(fh)
		sc.Buffer(make([]byte, 1<<20), 1<<24)
		for sc.Scan() {
			var m map[string]any
			if json.Unmarshal(sc.Bytes(), &m) == nil {
				out = append(out, m)
			}
		}
		fh.Close()
	}
	return out
}
