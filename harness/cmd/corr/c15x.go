package main

import (
	"fmt"
	"strings"

	"github.com/ogen-go/ogen/gen"

	"verifharness/internal/gc"
	"verifharness/internal/lp"
)

// second stage spec: conjunctive security requirements, alternatives, an optional request body
const stages2Doc = `{"openapi":"3.0.3","info":{"title":"t","version":"1"},
"paths":{
 "/and":{"get":{"operationId":"getAnd","security":[{"A":[],"B":[]}],"responses":{"200":{"description":"ok","content":{"application/json":{"schema":{"$ref":"#/components/schemas/Item"}}}}}}},
 "/andor":{"get":{"operationId":"getAndOr","security":[{"A":[],"B":[]},{"C":[]}],"responses":{"200":{"description":"ok","content":{"application/json":{"schema":{"$ref":"#/components/schemas/Item"}}}}}}},
 "/and3":{"get":{"operationId":"getAnd3","security":[{"A":[],"B":[],"C":[]}],"responses":{"200":{"description":"ok","content":{"application/json":{"schema":{"$ref":"#/components/schemas/Item"}}}}}}},
 "/optsec":{"get":{"operationId":"getOptSec","security":[{},{"A":[]}],"responses":{"200":{"description":"ok","content":{"application/json":{"schema":{"$ref":"#/components/schemas/Item"}}}}}}},
 "/names/{name}":{"get":{"operationId":"getName","parameters":[{"name":"name","in":"path","required":true,"schema":{"type":"string"}}],"responses":{"200":{"description":"ok","content":{"application/json":{"schema":{"$ref":"#/components/schemas/Item"}}}}}}},
 "/files/{dir}/{name}":{"get":{"operationId":"getFile","parameters":[{"name":"dir","in":"path","required":true,"schema":{"type":"string"}},{"name":"name","in":"path","required":true,"schema":{"type":"string"}}],"responses":{"200":{"description":"ok","content":{"application/json":{"schema":{"$ref":"#/components/schemas/Item"}}}}}}},
 "/form":{"post":{"operationId":"postForm","requestBody":{"required":true,"content":{"application/x-www-form-urlencoded":{"schema":{"$ref":"#/components/schemas/Item"}}}},
   "responses":{"200":{"description":"ok","content":{"application/json":{"schema":{"$ref":"#/components/schemas/Item"}}}}}}},
 "/multi":{"post":{"operationId":"postMulti","requestBody":{"required":true,"content":{"multipart/form-data":{"schema":{"$ref":"#/components/schemas/Item"}}}},
   "responses":{"200":{"description":"ok","content":{"application/json":{"schema":{"$ref":"#/components/schemas/Item"}}}}}}},
 "/bearer":{"get":{"operationId":"getBearer","security":[{"T":[]}],"responses":{"200":{"description":"ok","content":{"application/json":{"schema":{"$ref":"#/components/schemas/Item"}}}}}}},
 "/hdr":{"get":{"operationId":"getHdr","parameters":[{"name":"X-Request-ID","in":"header","required":true,"schema":{"type":"string"}},{"name":"x-lower","in":"header","schema":{"type":"string"}},{"name":"X-UPPER-N","in":"header","schema":{"type":"integer"}}],
   "responses":{"200":{"description":"ok","content":{"application/json":{"schema":{"$ref":"#/components/schemas/Item"}}}}}}},
 "/opt":{"post":{"operationId":"postOpt","requestBody":{"required":false,"content":{"application/json":{"schema":{"$ref":"#/components/schemas/Item"}}}},
   "responses":{"200":{"description":"ok","content":{"application/json":{"schema":{"$ref":"#/components/schemas/Item"}}}}}}}
},
"components":{"securitySchemes":{"A":{"type":"apiKey","in":"header","name":"X-A"},"B":{"type":"apiKey","in":"header","name":"X-B"},"C":{"type":"apiKey","in":"query","name":"c"},"T":{"type":"http","scheme":"bearer"}},
 "schemas":{"Item":{"type":"object","required":["name"],"properties":{"name":{"type":"string"}}}}}}`

type c15pkgs struct {
	st2    *gc.Pkg
	nested []c15nested
}

type c15nested struct {
	pkg        *gc.Pkg
	loc, shape string
}

// c15Extra generates the additional packages (before the module is built).
func c15Extra(r *lp.Run, mod *gc.Module) *c15pkgs {
	out := &c15pkgs{}
	p, err := mod.Add("st2", []byte(stages2Doc), gen.Options{})
	if err != nil {
		r.Fail(lp.PropFail{Property: "C15", What: "the generator refuses the second stage spec", Input: stages2Doc, Observed: err.Error(), Expected: "generated package"})
	} else {
		out.st2 = p
	}
	// parameter shapes that have no serialization: the generator must refuse them; a server generated for one
	// anyway is driven below
	i := 0
	for _, loc := range []string{"path", "query", "header", "cookie"} {
		for _, sh := range []string{"arrarr", "arrobj", "objarr", "objobj"} {
			style := map[string]string{"path": "simple", "query": "form", "header": "simple", "cookie": "form"}[loc]
			explode := loc == "query" || loc == "cookie"
			doc := paramSpec(loc, style, explode, sh)
			r.PropCheck()
			pkg, err := mod.Add(fmt.Sprintf("nest%d", i), []byte(doc), gen.Options{})
			i++
			r.Count("c15 nested "+loc+sh, "nested-shape:"+map[bool]string{true: "refused", false: "admitted"}[err != nil], false)
			if err == nil {
				out.nested = append(out.nested, c15nested{pkg, loc, sh})
			}
		}
	}
	// the same for shapes spelled through allOf / oneOf / additionalProperties, under every style of the location
	styles := map[string][]string{"path": {"simple", "label", "matrix"}, "query": {"form", "pipeDelimited", "spaceDelimited", "deepObject"}, "header": {"simple"}, "cookie": {"form"}}
	k := 0
	for _, loc := range []string{"path", "query", "header", "cookie"} {
		for _, style := range styles[loc] {
			for _, explode := range []bool{false, true} {
				for _, sh := range []string{"allofobj", "allofarr", "allofobjarr", "oneofobj", "mapstr", "mapofarr", "mapofobj", "objmap", "objmapprop", "recobj"} {
					k++
					if !r.Thorough() && k%2 != int(r.Seed%2) && !(style == "pipeDelimited" && sh == "allofobj") {
						continue
					}
					doc := paramSpec(loc, style, explode, sh)
					r.PropCheck()
					pkg, err := mod.Add(fmt.Sprintf("nest%d", i), []byte(doc), gen.Options{})
					i++
					r.Count("c15 composed "+loc+style+sh, "composed-shape:"+map[bool]string{true: "refused", false: "admitted"}[err != nil], false)
					if err == nil {
						out.nested = append(out.nested, c15nested{pkg, loc, fmt.Sprintf("%s style=%s explode=%v", sh, style, explode)})
					}
				}
			}
		}
	}
	return out
}

func c15ExtraRun(r *lp.Run, drv *gc.Driver, x *c15pkgs) {
	respond := map[string]any{"$type": "*Item", "$value": map[string]any{"Name": "abc"}}
	for _, n := range x.nested {
		var qs []stReq
		mk := func() stReq {
			return stReq{method: "GET", path: "/x", header: map[string][]string{}, stage: "any", hout: "ok"}
		}
		switch n.loc {
		case "path":
			for _, v := range []string{"1", "a,b", ".a.b", ";p=a,b", "a=1,b=2", ".a=1.b=2", ";a=1;b=2", "k,v,k2,v2", "a,b,c"} {
				q := mk()
				q.path = "/x/" + v
				qs = append(qs, q)
			}
		case "query":
			for _, v := range []string{"p=1&a=1", "p=a,b", "p=a|b", "p=a%20b", "p[a]=1&p[b]=2", "a=1&b=2", "p=k,v,k2,v2", "p=a&p=b", "p=a,b,c&k=v"} {
				q := mk()
				q.query = v
				qs = append(qs, q)
			}
		case "header":
			for _, v := range []string{"1", "a,b", "k,v", "a=1,b=2", "k,v,k2,v2", "a,b,c"} {
				q := mk()
				q.header["P"] = []string{v}
				qs = append(qs, q)
			}
		case "cookie":
			for _, v := range []string{"p=1", "p=a,b", "p=k,v,k2,v2", "a=1; b=2", "p=a,b,c"} {
				q := mk()
				q.header["Cookie"] = []string{v}
				qs = append(qs, q)
			}
		}
		// the generated client with type-directed random values of the parameter: it must not panic either
		for seed := 1; seed <= 6; seed++ {
			ans, _ := drv.Do(map[string]any{"pkg": n.pkg.Name, "cmd": "callrandom", "op": "Op", "text": fmt.Sprint(seed*7919 + len(n.shape)), "script": map[string]any{}})
			r.PropCheck()
			r.Count(fmt.Sprint(n.loc, n.shape, "client", seed), "nested-client-call", true)
			if ans["panic"] != nil || ans["crash"] != nil || ans["driver_panic"] != nil {
				r.Fail(lp.PropFail{Property: "C15", What: "the client generated for a nested or composed parameter shape panics when the parameter is set", Input: map[string]any{"location": n.loc, "shape": n.shape, "value": ans["given"]}, Observed: fmt.Sprint(ans["panic"], ans["crash"], ans["driver_panic"]), Expected: "a request or an error (or no such client: the shape has no serialization)"})
				break
			}
		}
		for _, q := range qs {
			ans := c15Do(drv, n.pkg.Name, q, respond)
			r.PropCheck()
			r.Count(fmt.Sprint(n.loc, n.shape, q.path, q.query, q.header), "nested-request", true)
			in := map[string]any{"location": n.loc, "shape": n.shape, "request": q.method + " " + q.path + "?" + q.query, "header": q.header}
			if ans["panic"] != nil || ans["crash"] != nil || ans["driver_panic"] != nil {
				r.Fail(lp.PropFail{Property: "C15", What: "a server generated for a nested or composed parameter shape panics when the parameter is sent", Input: in, Observed: fmt.Sprint(ans["panic"], ans["crash"], ans["driver_panic"]), Expected: "a response (or no such server: the shape has no serialization)"})
				break
			} else if fmt.Sprint(ans["write_headers"]) != "1" {
				r.Fail(lp.PropFail{Property: "C15", What: "not exactly one response is written", Input: in, Observed: fmt.Sprint(ans["write_headers"]), Expected: "1"})
				break
			}
		}
	}
	if x.st2 == nil {
		return
	}
	pkg := x.st2.Name
	type sc struct {
		path, query string
		hdr         map[string][]string
		script      map[string]any
		stage       string
	}
	h := func(kv ...string) map[string][]string {
		m := map[string][]string{}
		for i := 0; i+1 < len(kv); i += 2 {
			m[kv[i]] = []string{kv[i+1]}
		}
		return m
	}
	rej := func(s string) map[string]any { return map[string]any{"security": map[string]string{s: "reject"}} }
	cases := []sc{
		{"/and", "", h("X-A", "a", "X-B", "b"), nil, "handler"},
		{"/and", "", h("X-A", "a"), nil, "security"},
		{"/and", "", h("X-B", "b"), nil, "security"},
		{"/and", "", h(), nil, "security"},
		{"/and", "c=1", h(), nil, "security"},
		{"/and", "", h("X-A", "a", "X-B", "b"), rej("B"), "security"},
		{"/and", "", h("X-A", "a", "X-B", "b"), rej("A"), "security"},
		{"/andor", "c=1", h(), nil, "handler"},
		{"/andor", "", h("X-A", "a", "X-B", "b"), nil, "handler"},
		{"/andor", "", h("X-A", "a"), nil, "security"},
		{"/andor", "", h("X-B", "b"), nil, "security"},
		{"/andor", "c=1", h("X-B", "b"), nil, "handler"},
		{"/andor", "", h(), nil, "security"},
		{"/and3", "c=1", h("X-A", "a", "X-B", "b"), nil, "handler"},
		{"/and3", "", h("X-A", "a", "X-B", "b"), nil, "security"},
		{"/and3", "c=1", h("X-A", "a"), nil, "security"},
		{"/and3", "c=1", h("X-B", "b"), nil, "security"},
		{"/and3", "c=1", h(), nil, "security"},
		{"/optsec", "", h(), nil, "handler"},
		{"/optsec", "", h("X-A", "a"), nil, "handler"},
	}
	for _, c := range cases {
		q := stReq{method: "GET", path: c.path, query: c.query, header: c.hdr, script: c.script, stage: c.stage, hout: "ok"}
		c15One(r, drv, pkg, q, respond)
	}
	// the Authorization header: one space between scheme and credentials, scheme name case-insensitive;
	// anything else is not a credential and must not reach the handler
	for _, a := range []struct {
		v     string
		stage string
	}{
		{"Bearer tok", "handler"}, {"bearer tok", "handler"}, {"BearerXtok", "security"}, {"Bearer=tok", "security"}, {"Bearer\ttok", "security"},
		{"Bearertok", "security"}, {"Bearer", "security"}, {"Bear tok", "security"}, {"Basic dTpw", "security"}, {"", "security"}, {"Bearer:tok", "security"},
	} {
		q := stReq{method: "GET", path: "/bearer", header: h("Authorization", a.v), stage: a.stage, hout: "ok"}
		c15One(r, drv, pkg, q, respond)
	}
	// header parameters whose names are not in canonical MIME form, behind the middleware: delivered, not lost,
	// no panic; the required one missing is a parameter failure
	for _, hc := range []struct {
		hdr   map[string][]string
		stage string
		want  []string
	}{
		{h("X-Request-Id", "r1", "X-Lower", "lo", "X-Upper-N", "7"), "handler", []string{`"r1"`, `"lo"`, "7"}},
		{h("X-Request-Id", "r2"), "handler", []string{`"r2"`}},
		{h("X-Lower", "lo"), "params", nil},
		{h("X-Request-Id", "r3", "X-Upper-N", "seven"), "params", nil},
	} {
		q := stReq{method: "GET", path: "/hdr", header: hc.hdr, stage: hc.stage, hout: "ok"}
		c15One(r, drv, pkg, q, respond)
		if hc.stage == "handler" {
			ans := c15Do(drv, pkg, q, respond)
			srv, _ := ans["server"].(map[string]any)
			seen := fmt.Sprint(srv["params"]) + " " + fmt.Sprint(srv["mw_params"])
			r.PropCheck()
			for _, w := range hc.want {
				if !strings.Contains(fmt.Sprint(srv["params"]), w) || !strings.Contains(fmt.Sprint(srv["mw_params"]), w) {
					r.Fail(lp.PropFail{Property: "C15", What: "a header parameter with a non-canonical name does not arrive at the handler / the middleware", Input: map[string]any{"path": "/hdr", "header": hc.hdr}, Observed: seen, Expected: "value " + w + " in both"})
					break
				}
			}
		}
	}
	// optional request body
	sp := func(s string) *string { return &s }
	ct := func(v string) map[string][]string { return map[string][]string{"Content-Type": {v}} }
	none := map[string][]string{}
	bodies := []struct {
		hdr   map[string][]string
		body  *string
		stage string
	}{
		{none, nil, "handler"},
		{ct("application/json"), sp(`{"name":"a"}`), "handler"},
		{ct("application/json"), sp(`{"name":`), "body400"},
		{ct("application/json"), sp(`{"nom":"a"}`), "body400"},
		{ct("application/json"), sp(`[]`), "body400"},
		{none, sp(`{"name":"a"}`), "body415-or-400"},
		{none, sp(`{"name":`), "body415-or-400"},
		{none, sp(`x`), "body415-or-400"},
		{ct("text/plain"), sp(`{"name":"a"}`), "body415"},
		{ct("text/plain"), sp(``), "body415"},
		{ct("text/plain"), nil, "body415"},
		{ct("application/xml"), nil, "body415"},
		{ct("garbage;;;"), nil, "body415-or-400"},
		{ct("garbage;;;"), sp(`{"name":"a"}`), "body415-or-400"},
	}
	for _, b := range bodies {
		q := stReq{method: "POST", path: "/opt", header: b.hdr, body: b.body, stage: b.stage, hout: "ok"}
		c15One(r, drv, pkg, q, respond)
	}
	// doubled slashes where a string parameter starts or ends
	for _, p := range []string{"/names//x", "/names//", "/names/a/b", "/names/", "/files/u//etc/passwd", "/files//x", "/files/a//", "/files/a/b/"} {
		c15One(r, drv, pkg, stReq{method: "GET", path: p, header: map[string][]string{}, stage: map[bool]string{true: "route404-or-params", false: "route404"}[p == "/names/" || p == "/files//x"], hout: "ok"}, respond) // an empty path argument is accepted by the tree or not (K7) and never delivered
	}
	for _, p := range []string{"/names/x", "/files/a/b", "/names/a%2Fb"} {
		q := stReq{method: "GET", path: p, header: map[string][]string{}, stage: "handler", hout: "ok"}
		if p == "/names/a%2Fb" {
			q.path, q.rawPath = "/names/a/b", "/names/a%2Fb"
		}
		c15One(r, drv, pkg, q, respond)
	}
	// form bodies: with the length net/http derives, and with an unknown length (chunked transfer)
	unknown := int64(-1)
	for _, fb := range []struct {
		path, ct, body string
		cl             *int64
		stage          string
	}{
		{"/form", "application/x-www-form-urlencoded", "name=abc", nil, "handler"},
		{"/form", "application/x-www-form-urlencoded", "name=abc", &unknown, "handler"},
		{"/form", "application/x-www-form-urlencoded", "", &unknown, "body400"},
		{"/form", "application/x-www-form-urlencoded", "nom=abc", &unknown, "body400"},
		{"/form", "application/x-www-form-urlencoded", "name=%zz", &unknown, "body400"},
		{"/form", "application/x-www-form-urlencoded", "name=%zz", nil, "body400"},
		{"/form", "application/json", `{"name":"abc"}`, nil, "body415"},
		{"/multi", "multipart/form-data; boundary=XX", "--XX\r\nContent-Disposition: form-data; name=\"name\"\r\n\r\nabc\r\n--XX--\r\n", nil, "handler"},
		{"/multi", "multipart/form-data; boundary=XX", "--XX\r\nContent-Disposition: form-data; name=\"name\"\r\n\r\nabc\r\n--XX--\r\n", &unknown, "handler"},
		{"/multi", "multipart/form-data; boundary=XX", "--XX\r\nContent-Disposition: form-data; name=\"name\"\r\n\r\nabc", &unknown, "body400"},
		{"/multi", "multipart/form-data", "x", nil, "body400"},
	} {
		b := fb.body
		q := stReq{method: "POST", path: fb.path, header: ct(fb.ct), body: &b, contentLength: fb.cl, stage: fb.stage, hout: "ok"}
		c15One(r, drv, pkg, q, respond)
	}
}
