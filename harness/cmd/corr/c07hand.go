package main

import (
	"context"
	"encoding/json"
	"fmt"
	"net/url"
	"os"
	"path/filepath"
	"strings"

	"github.com/ogen-go/ogen"
	"github.com/ogen-go/ogen/gen"
	"github.com/ogen-go/ogen/openapi/parser"

	"verifharness/internal/gc"
	"verifharness/internal/lp"
)

type pathResolver map[string]string

func (f pathResolver) Get(_ context.Context, loc string) ([]byte, error) {
	u, err := url.Parse(loc)
	if err != nil {
		return nil, err
	}
	d, ok := f[u.Path]
	if !ok {
		return nil, fmt.Errorf("no such file %q", loc)
	}
	return []byte(d), nil
}

func projectFiles(files pathResolver, root string) (string, error) {
	var out string
	var perr error
	res := lp.Guard(func() string {
		s, err := ogen.Parse([]byte(files[root]))
		if err != nil {
			perr = err
			return ""
		}
		api, err := parser.Parse(s, parser.Settings{External: files, RootURL: &url.URL{Scheme: "file", Path: root}})
		if err != nil {
			perr = err
			return ""
		}
		out = projectAPI(api)
		return ""
	})
	if res == "panic" {
		return "", fmt.Errorf("panic")
	}
	return out, perr
}

// hand-written reference shapes: (1) a component of the root reached through another file that only forwards
// back to the root — the local references inside it belong to the root, also when the other file has something
// else under the same pointer; (2) documents whose only difference is a reference versus a copy must generate
// alike: both refused or both compiling (recorded deviations are decided by the case name).
func c07Hand(r *lp.Run) {
	const rootTmpl = `{"openapi":"3.0.3","info":{"title":"t","version":"1"},"paths":{"/pets":{"get":{"operationId":"listPets",
 "parameters":[PARAM],
 "responses":{"200":{"description":"ok","headers":{"X-Rate-Limit":HEADER},"content":{"application/json":{"schema":{"type":"string"}}}}}}}},
 "components":{"headers":{"Limit":{"required":true,"schema":{"$ref":"#/components/schemas/Limit"}}},
  "parameters":{"Page":{"name":"page","in":"query","schema":{"$ref":"#/components/schemas/Limit"}}},
  "schemas":{"Limit":{"type":"integer","format":"int32","minimum":1}}}}`
	inl := strings.NewReplacer("HEADER", `{"required":true,"schema":{"$ref":"#/components/schemas/Limit"}}`, "PARAM", `{"name":"page","in":"query","schema":{"$ref":"#/components/schemas/Limit"}}`).Replace(rootTmpl)
	ref := strings.NewReplacer("HEADER", `{"$ref":"common/defs.json#/components/headers/RateLimit"}`, "PARAM", `{"$ref":"common/defs.json#/components/parameters/P"}`).Replace(rootTmpl)
	want, werr := projectFiles(pathResolver{"/spec/api.json": inl}, "/spec/api.json")
	for name, schemas := range map[string]string{
		"the other file has no schemas":                            ``,
		"the other file has another schema under the same pointer": `,"schemas":{"Limit":{"type":"string","maxLength":3}}`,
	} {
		defs := `{"components":{"headers":{"RateLimit":{"$ref":"../api.json#/components/headers/Limit"}},"parameters":{"P":{"$ref":"../api.json#/components/parameters/Page"}}` + schemas + `}}`
		got, gerr := projectFiles(pathResolver{"/spec/api.json": ref, "/spec/common/defs.json": defs}, "/spec/api.json")
		r.PropCheck()
		r.Count("c07 hand backref "+name, "hand:backref", true)
		if werr != nil || gerr != nil || got != want {
			r.Fail(lp.PropFail{Property: "C07", What: "a component of the root document reached through another file (which refers back to the root) is not parsed like its copy in place", Input: map[string]any{"case": name, "root": ref, "common/defs.json": defs}, Observed: truncN(fmt.Sprint(got, gerr), 600), Expected: truncN(fmt.Sprint(want, werr), 600)})
		}
	}

	// (1a) a security scheme reached through a reference keeps its extensions (fixed bc7e304b)
	{
		doc := func(key string) string {
			return `{"openapi":"3.0.3","info":{"title":"t","version":"1"},"paths":{"/x":{"get":{"operationId":"x","security":[{"key":[]}],"responses":{"200":{"description":"ok"}}}}},"components":{"securitySchemes":{"key":` + key + `,"real":{"type":"apiKey","in":"header","name":"X-Key","x-ogen-custom-security":true}}}}`
		}
		var a, b string
		var ea, eb error
		a, ea = parseProject(parseJSONDoc(doc(`{"$ref":"#/components/securitySchemes/real"}`)))
		b, eb = parseProject(parseJSONDoc(doc(`{"type":"apiKey","in":"header","name":"X-Key","x-ogen-custom-security":true}`)))
		r.PropCheck()
		r.Count("c07 hand secref", "hand:security-ref", true)
		if ea != nil || eb != nil || a != b || !strings.Contains(a, "custom=true") {
			r.Fail(lp.PropFail{Property: "C07", What: "a security scheme reached through a reference is not parsed like its copy in place", Input: doc(`{"$ref":"#/components/securitySchemes/real"}`), Observed: truncN(fmt.Sprint(a, ea), 400), Expected: truncN(fmt.Sprint(b, eb), 400)})
		}
	}
	// (1c) a reference to a whole document (no fragment) can be parsed; K35: it cannot be expanded
	{
		root := `{"openapi":"3.0.3","info":{"title":"t","version":"1"},"paths":{"/x":{"get":{"operationId":"x","responses":{"200":{"$ref":"resp.json"}}}}}}`
		files := pathResolver{"/s/api.json": root, "/s/resp.json": `{"description":"ok","content":{"application/json":{"schema":{"type":"string"}}}}`}
		var perr, eerr error
		lp.Guard(func() string {
			sp, err := ogen.Parse([]byte(root))
			if err != nil {
				perr = err
				return ""
			}
			api, err := parser.Parse(sp, parser.Settings{External: files, RootURL: &url.URL{Scheme: "file", Path: "/s/api.json"}})
			if err != nil {
				perr = err
				return ""
			}
			_, eerr = parser.Expand(api)
			return ""
		})
		r.PropCheck()
		r.Count("c07 hand wholedoc", "hand:whole-document-ref", true)
		switch {
		case perr != nil:
			r.Fail(lp.PropFail{Property: "C07", What: "a reference to a whole document is not parsed", Input: map[string]any{"api.json": root}, Observed: perr.Error(), Expected: "parsed like the response in place"})
		case eerr != nil:
			r.Known(lp.PropFail{Property: "C07", Class: "K35", What: "a document with a reference to a whole file cannot be expanded", Input: map[string]any{"api.json": root}, Observed: truncN(eerr.Error(), 300), Expected: "a single document that parses to the same API"})
		}
	}
	// (1b) the outcome of parsing does not depend on the order in which components are met, and a reference
	// is accepted exactly when the copy is
	for _, pc := range []struct{ name, withRef, withCopy, class string }{
		{"an alias (a schema that is only a $ref) on a schema cycle",
			`{"openapi":"3.0.3","info":{"title":"t","version":"1"},"paths":{},"components":{"schemas":{"A":{"$ref":"#/components/schemas/B"},"B":{"type":"object","properties":{"next":{"$ref":"#/components/schemas/A"}}}}}}`,
			`{"openapi":"3.0.3","info":{"title":"t","version":"1"},"paths":{},"components":{"schemas":{"A":{"$ref":"#/components/schemas/B"},"B":{"type":"object","properties":{"next":{"$ref":"#/components/schemas/B"}}}}}}`, ""},
		{"a header component used under a valid and under an invalid header name",
			`{"openapi":"3.0.3","info":{"title":"t","version":"1"},"paths":{"/x":{"get":{"operationId":"x","responses":{"200":{"description":"ok","headers":{"X-Good":{"$ref":"#/components/headers/H"}}},"201":{"description":"ok","headers":{"Bad Name":{"$ref":"#/components/headers/H"}}}}}}},"components":{"headers":{"H":{"schema":{"type":"string"}}}}}`,
			`{"openapi":"3.0.3","info":{"title":"t","version":"1"},"paths":{"/x":{"get":{"operationId":"x","responses":{"200":{"description":"ok","headers":{"X-Good":{"$ref":"#/components/headers/H"}}},"201":{"description":"ok","headers":{"Bad Name":{"schema":{"type":"string"}}}}}}}},"components":{"headers":{"H":{"schema":{"type":"string"}}}}}`, ""},
	} {
		outcome := func(doc string) string {
			var o string
			res := lp.Guard(func() string {
				sp, err := ogen.Parse([]byte(doc))
				if err != nil {
					o = "refused"
					return ""
				}
				if _, err := parser.Parse(sp, parser.Settings{}); err != nil {
					o = "refused"
					return ""
				}
				o = "accepted"
				return ""
			})
			if res == "panic" {
				return "panic"
			}
			return o
		}
		seen := map[string]int{}
		for k := 0; k < 40; k++ {
			seen[outcome(pc.withRef)]++
		}
		cp := outcome(pc.withCopy)
		r.PropCheck()
		r.Count("c07 hand parse "+pc.name, "hand:parse-repeat", true)
		if len(seen) == 1 && seen[cp] == 40 {
			continue
		}
		f := lp.PropFail{Property: "C07", What: "parsing a document with a reference does not always end as parsing the document with the copy does (40 runs)", Input: map[string]any{"case": pc.name, "with_reference": pc.withRef, "with_copy": pc.withCopy}, Observed: fmt.Sprint(seen), Expected: "always " + cp}
		if pc.class != "" {
			f.Class = pc.class
			r.Known(f)
			continue
		}
		r.Fail(f)
	}

	// (2) reference versus copy: outcome of generation and compilation
	scratch := os.Getenv("VERIF_SCRATCH")
	if scratch == "" {
		scratch = "/var/tmp"
	}
	mod, err := gc.NewModule(filepath.Join(scratch, fmt.Sprintf("gc-c07h-%d", os.Getpid())))
	if err != nil {
		panic(err)
	}
	defer os.RemoveAll(mod.Dir)
	wrap := func(paths, comps string) string {
		return `{"openapi":"3.0.3","info":{"title":"t","version":"1"},"paths":` + paths + `,"components":` + comps + `}`
	}
	E := `"E":{"type":"object","properties":{"m":{"type":"string"}}}`
	hdr := func(name, typ string) string {
		return `"` + name + `":{"required":true,"schema":{"type":"` + typ + `"}}`
	}
	resp := func(schema string, headers ...string) string {
		return `{"description":"r","headers":{` + strings.Join(headers, ",") + `},"content":{"application/json":{"schema":` + schema + `}}}`
	}
	refE, copyE := `{"$ref":"#/components/schemas/E"}`, `{"type":"object","properties":{"m":{"type":"string"}}}`
	op := func(resps string) string {
		return `{"/x":{"get":{"operationId":"opX","responses":{` + resps + `}}}}`
	}
	type hc struct {
		name, withRef, withCopy, class string
	}
	cases := []hc{
		{"two responses wrap one schema with header sets of equal size and different names",
			wrap(op(`"4XX":`+resp(refE, hdr("X-A", "string"))+`,"5XX":`+resp(refE, hdr("X-B", "string"))), `{"schemas":{`+E+`}}`),
			wrap(op(`"4XX":`+resp(refE, hdr("X-A", "string"))+`,"5XX":`+resp(copyE, hdr("X-B", "string"))), `{"schemas":{`+E+`}}`), ""},
		{"two responses wrap one schema with two headers each, one name in common",
			wrap(op(`"4XX":`+resp(refE, hdr("X-A", "string"), hdr("X-C", "string"))+`,"5XX":`+resp(refE, hdr("X-B", "string"), hdr("X-C", "string"))), `{"schemas":{`+E+`}}`),
			wrap(op(`"4XX":`+resp(refE, hdr("X-A", "string"), hdr("X-C", "string"))+`,"5XX":`+resp(copyE, hdr("X-B", "string"), hdr("X-C", "string"))), `{"schemas":{`+E+`}}`), ""},
		{"K28 two responses wrap one schema with a header of the same name and another type",
			wrap(op(`"4XX":`+resp(refE, hdr("X-A", "string"))+`,"5XX":`+resp(refE, hdr("X-A", "integer"))), `{"schemas":{`+E+`}}`),
			wrap(op(`"4XX":`+resp(refE, hdr("X-A", "string"))+`,"5XX":`+resp(copyE, hdr("X-A", "integer"))), `{"schemas":{`+E+`}}`), "K28"},
		{"K29 a header component used under two names in one response",
			wrap(op(`"200":{"description":"ok","headers":{"X-First":{"$ref":"#/components/headers/H"},"X-Second":{"$ref":"#/components/headers/H"}},"content":{"application/json":{"schema":{"type":"string"}}}}`), `{"headers":{"H":{"required":true,"schema":{"type":"string"}}}}`),
			wrap(op(`"200":{"description":"ok","headers":{`+hdr("X-First", "string")+`,`+hdr("X-Second", "string")+`},"content":{"application/json":{"schema":{"type":"string"}}}}`), `{}`), "K29"},
		{"K30 a recursive tuple",
			wrap(op(`"200":{"description":"ok","content":{"application/json":{"schema":{"$ref":"#/components/schemas/T"}}}}`), `{"schemas":{"T":{"type":"array","items":[{"$ref":"#/components/schemas/T"},{"type":"string"}]}}}`),
			wrap(op(`"200":{"description":"ok","content":{"application/json":{"schema":{"$ref":"#/components/schemas/T"}}}}`), `{"schemas":{"T":{"type":"array","items":[{"type":"array","items":{"type":"string"}},{"type":"string"}]}}}`), "K30"},
	}
	// a parameter component shared by two operations, one of which has a same-named parameter elsewhere: the
	// other operation's parameter struct must be what it is with the parameter written in place (fixed)
	paramDoc := func(opB string) string {
		return wrap(`{"/a/{id}":{"get":{"operationId":"opA","parameters":[{"$ref":"#/components/parameters/QId"},{"name":"id","in":"path","required":true,"schema":{"type":"string"}}],"responses":{"200":{"description":"ok"}}}},"/b":{"get":{"operationId":"opB","parameters":[`+opB+`],"responses":{"200":{"description":"ok"}}}}}`,
			`{"parameters":{"QId":{"name":"id","in":"query","schema":{"type":"string"}}}}`)
	}
	cases = append(cases, hc{"same-files: a shared parameter component next to a same-named path parameter in another operation",
		paramDoc(`{"$ref":"#/components/parameters/QId"}`), paramDoc(`{"name":"id","in":"query","schema":{"type":"string"}}`), ""})
	// valid recursive schemas must become recursive types (K34: two shapes that are refused as "infinite recursion")
	recDoc := func(schemas string) string {
		return wrap(`{"/x":{"post":{"operationId":"opX","requestBody":{"content":{"application/json":{"schema":{"$ref":"#/components/schemas/A"}}}},"responses":{"200":{"description":"ok"}}}}}`, `{"schemas":{`+schemas+`}}`)
	}
	for _, rc := range []struct{ name, doc, class string }{
		{"a required member that leads into a cycle it is not part of", recDoc(`"A":{"type":"object","required":["b"],"properties":{"b":{"$ref":"#/components/schemas/B"}}},"B":{"type":"object","properties":{"c":{"$ref":"#/components/schemas/C"}}},"C":{"type":"object","properties":{"b":{"$ref":"#/components/schemas/B"}}}`), "K34"},
		{"a required in-place member whose optional member closes the cycle", recDoc(`"A":{"type":"object","required":["b"],"properties":{"b":{"type":"object","properties":{"a":{"$ref":"#/components/schemas/A"}}}}}`), "K34"},
		{"an optional in-place member whose required member closes the cycle", recDoc(`"A":{"type":"object","properties":{"b":{"type":"object","required":["a"],"properties":{"a":{"$ref":"#/components/schemas/A"}}}}}`), ""},
		{"an optional member on a two-schema cycle", recDoc(`"A":{"type":"object","properties":{"b":{"$ref":"#/components/schemas/B"}}},"B":{"type":"object","required":["a"],"properties":{"a":{"$ref":"#/components/schemas/A"}}}`), ""},
	} {
		cases = append(cases, hc{"recursive: " + rc.name, rc.doc, rc.doc, rc.class})
	}
	type built struct {
		c       hc
		refPkg  *gc.Pkg
		copyPkg *gc.Pkg
		refErr  error
		copyErr error
	}
	var bs []built
	for i, c := range cases {
		b := built{c: c}
		b.refPkg, b.refErr = mod.Add(fmt.Sprintf("hr%d", i), []byte(c.withRef), gen.Options{Generator: gen.GenerateOptions{IgnoreNotImplemented: []string{"all"}}})
		b.copyPkg, b.copyErr = mod.Add(fmt.Sprintf("hc%d", i), []byte(c.withCopy), gen.Options{Generator: gen.GenerateOptions{IgnoreNotImplemented: []string{"all"}}})
		bs = append(bs, b)
	}
	const g1Doc = `{"openapi":"3.0.3","info":{"title":"t","version":"1"},"paths":{
 "/a":{"get":{"operationId":"opA","responses":{"200":{"$ref":"#/components/responses/R"}}}},
 "/b":{"get":{"operationId":"opB","responses":{"200":{"description":"ok"},"default":{"$ref":"#/components/responses/R"}}}}},
 "components":{"responses":{"R":{"description":"shared","content":{"application/json":{"schema":{"type":"object","properties":{"x":{"type":"string"}}}}}}}}}`
	g1Pkg, _ := mod.Add("hg1", []byte(g1Doc), gen.Options{})
	failing := map[string]bool{}
	bin, berr := mod.Build()
	if be, ok := berr.(*gc.BuildError); ok {
		// the packages of the recorded classes do not compile: note them, drop them, build the rest
		for _, n := range be.FailingPackages() {
			failing[n] = true
			mod.Drop(n)
		}
		if len(failing) > 0 && !failing["hg1"] {
			bin, berr = mod.Build()
		}
	}
	if berr == nil && g1Pkg != nil {
		if drv, err := gc.Start(bin); err == nil {
			ans, _ := drv.Do(map[string]any{"pkg": "hg1", "cmd": "raw", "method": "GET", "path": "/b", "header": map[string][]string{},
				"script": map[string]any{"respond": map[string]any{"$type": "*R", "$value": map[string]any{}}}})
			drv.Close()
			r.PropCheck()
			r.Count("c07 hand g1", "hand:shared-response", true)
			r.Note("shared response component: " + truncN(fmt.Sprint(ans), 300))
			if ans["panic"] != nil || fmt.Sprint(ans["status"]) == "0" {
				r.Known(lp.PropFail{Property: "C07", Class: "K33", What: "a response component used under a status code in one operation and under `default` in another keeps the first use's shape: the encoder of the second writes WriteHeader(0)", Input: map[string]any{"document": g1Doc, "request": "GET /b, handler returns *R"}, Observed: fmt.Sprint(ans["panic"], " status ", ans["status"]), Expected: "a response with a status code (as with the response written in place: a …StatusCode wrapper)"})
			}
		}
	}
	if _, err := bin, berr; err != nil {
		if _, ok := err.(*gc.BuildError); ok {
			if len(failing) == 0 {
				r.Fail(lp.PropFail{Property: "C07", What: "the hand-written reference/copy module does not build and no package is named", Input: "c07Hand", Observed: truncN(err.Error(), 600), Expected: "builds"})
			}
		}
	}
	for i, b := range bs {
		r.PropCheck()
		r.Count("c07 hand "+b.c.name, "hand:refcopy", true)
		outcome := func(p *gc.Pkg, e error, name string) string {
			switch {
			case e != nil:
				return "refused"
			case failing[name]:
				return "does-not-compile"
			}
			return "compiles"
		}
		ro, co := outcome(b.refPkg, b.refErr, fmt.Sprintf("hr%d", i)), outcome(b.copyPkg, b.copyErr, fmt.Sprintf("hc%d", i))
		if strings.HasPrefix(b.c.name, "recursive:") && ro != "compiles" {
			f := lp.PropFail{Property: "C07", What: "a valid recursive schema does not become a recursive type", Input: map[string]any{"case": b.c.name, "document": b.c.withRef}, Observed: ro + fmt.Sprint(" ", b.refErr), Expected: "a package that compiles"}
			if b.c.class != "" {
				f.Class = b.c.class
				r.Known(f)
			} else {
				r.Fail(f)
			}
			continue
		}
		if ro == co && ro != "does-not-compile" {
			if ro == "compiles" && strings.HasPrefix(b.c.name, "same-files:") {
				// the generated declarations must be the same, comment lines and the package clause aside
				if d := c07DiffPkgs(b.refPkg, b.copyPkg); d != "" {
					r.Fail(lp.PropFail{Property: "C07", What: "the code generated for a document with a reference differs from the code generated with a copy in its place", Input: map[string]any{"case": b.c.name, "with_reference": b.c.withRef, "with_copy": b.c.withCopy}, Observed: d, Expected: "the same declarations"})
				}
			}
			continue
		}
		f := lp.PropFail{Property: "C07", What: "a document with a reference and the same document with a copy in its place are not generated alike", Input: map[string]any{"case": b.c.name, "with_reference": b.c.withRef, "with_copy": b.c.withCopy}, Observed: "with the reference: " + ro + fmt.Sprint(" ", b.refErr), Expected: "as with the copy: " + co + fmt.Sprint(" ", b.copyErr)}
		if b.c.class != "" {
			f.Class = b.c.class
			r.Known(f)
			continue
		}
		r.Fail(f)
	}
}

func parseJSONDoc(s string) any {
	var v any
	if err := json.Unmarshal([]byte(s), &v); err != nil {
		panic(err)
	}
	return v
}

// c07DiffPkgs compares the generated files of two packages line by line, skipping comments and the package clause.
func c07DiffPkgs(a, b *gc.Pkg) string {
	norm := func(p *gc.Pkg) map[string][]string {
		out := map[string][]string{}
		files, _ := filepath.Glob(filepath.Join(p.Dir, "oas_*_gen.go"))
		for _, f := range files {
			data, err := os.ReadFile(f)
			if err != nil {
				continue
			}
			var lines []string
			for _, l := range strings.Split(string(data), "\n") {
				t := strings.TrimSpace(l)
				if t == "" || strings.HasPrefix(t, "//") || strings.HasPrefix(t, "package ") {
					continue
				}
				lines = append(lines, l)
			}
			out[filepath.Base(f)] = lines
		}
		return out
	}
	fa, fb := norm(a), norm(b)
	for name, la := range fa {
		lb, ok := fb[name]
		if !ok {
			return "file " + name + " only with the reference"
		}
		for i := 0; i < len(la) && i < len(lb); i++ {
			if la[i] != lb[i] {
				return fmt.Sprintf("%s: %q vs %q", name, strings.TrimSpace(la[i]), strings.TrimSpace(lb[i]))
			}
		}
		if len(la) != len(lb) {
			return fmt.Sprintf("%s: %d vs %d lines", name, len(la), len(lb))
		}
	}
	for name := range fb {
		if _, ok := fa[name]; !ok {
			return "file " + name + " only with the copy"
		}
	}
	return ""
}
