package main

import (
	"encoding/json"
	"fmt"
	"os"
	"path/filepath"
	"sort"
	"strings"

	"github.com/ogen-go/ogen/gen"

	"verifharness/internal/gc"
	"verifharness/internal/lp"
)

func init() { suites["c04"] = c04 }

func c04(r *lp.Run) {
	r.SetRule("the keyword-matrix spec and random schema specs of C03, regenerated and compiled; for every generated named component type: (a) type-directed random Go values built by reflection in the driver (every Opt/Nil/OptNil state, nil/empty/non-empty slices and maps, extreme integers and doubles, escape-heavy and astral strings, recursion to depth 3) — those that pass the type's own Validate() are encoded, the JSON is parsed and validated against the source schema by the reference validator, and decoded again (equality through canonical accessors, never DeepEqual); (b) schema-directed valid instances decoded, re-encoded, re-decoded. non-trivial = distinct (type, value) whose canonical form contains a collection or a wrapper")
	rng := r.Rng.Fork(4)
	scratch := os.Getenv("VERIF_SCRATCH")
	if scratch == "" {
		scratch = "/var/tmp"
	}
	mod, err := gc.NewModule(filepath.Join(scratch, fmt.Sprintf("gc-c04-%d", os.Getpid())))
	if err != nil {
		panic(err)
	}
	defer os.RemoveAll(mod.Dir)
	var specs []*bodySpec
	m := matrixSpec(rng.Fork(1))
	if pkg, err := mod.Add("bm", []byte(m.doc()), gen.Options{}); err != nil {
		r.Fail(lp.PropFail{Property: "C04", What: "the generator refuses the fixed keyword-matrix spec", Input: m.doc(), Observed: err.Error(), Expected: "generated package"})
	} else {
		m.pkg = pkg
		specs = append(specs, m)
	}
	{ // hand-written: one named array used as a required member here and as an optional member there; a
		// required byte-string member (the recorded classes K21, K23 are decided by these type names)
		g := NewSchemaGen(rng.Fork(77))
		g.env["SharedArr"] = &Schema{Type: "array", Items: &Schema{Type: "integer"}}
		g.env["UsesArrReq"] = &Schema{Type: "object", Props: []Prop{{"req", &Schema{Ref: "SharedArr"}, true}, {"n", &Schema{Type: "integer"}, false}}}
		g.env["UsesArrOpt"] = &Schema{Type: "object", Props: []Prop{{"opt", &Schema{Ref: "SharedArr"}, false}}}
		g.env["OnlyReqArr"] = &Schema{Type: "array", Items: &Schema{Type: "integer"}}
		g.env["UsesOnlyReq"] = &Schema{Type: "object", Props: []Prop{{"req", &Schema{Ref: "OnlyReqArr"}, true}}}
		g.env["Blob"] = &Schema{Type: "object", Props: []Prop{{"b", &Schema{Type: "string", Format: "byte"}, true}, {"o", &Schema{Type: "string", Format: "byte"}, false}}}
		hb := &bodySpec{g: g}
		for _, n := range []string{"UsesArrReq", "UsesArrOpt", "UsesOnlyReq", "Blob"} {
			hb.ops = append(hb.ops, bodyOp{"h" + n, &Schema{Ref: n}})
		}
		if pkg, err := mod.Add("bshared", []byte(hb.doc()), gen.Options{}); err != nil {
			r.Fail(lp.PropFail{Property: "C04", What: "the generator refuses the hand-written shared-array spec", Input: hb.doc(), Observed: err.Error(), Expected: "generated package"})
		} else {
			hb.pkg = pkg
			specs = append(specs, hb)
		}
	}
	nSpecs := r.N(16, 150)
	discarded := 0
	for i := 0; i < nSpecs; i++ {
		g := NewSchemaGen(rng.Fork(uint64(100 + i)))
		b := &bodySpec{g: g}
		for k := 0; k < 4; k++ {
			b.ops = append(b.ops, bodyOp{fmt.Sprintf("op%d", k), g.Gen(3)})
		}
		pkg, err := mod.Add(fmt.Sprintf("b%d", i), []byte(b.doc()), gen.Options{})
		if err != nil {
			discarded++
			continue
		}
		b.pkg = pkg
		specs = append(specs, b)
	}
	r.Note(fmt.Sprintf("schema specs: %d generated, %d refused by the generator", len(specs), discarded))
	if discarded*10 > nSpecs {
		r.Fail(lp.PropFail{Property: "C04", What: "more than 10% of the random schema specs are refused by the generator", Input: discarded, Observed: fmt.Sprint(discarded), Expected: "rare refusals"})
	}
	fmtPkg, ferr := mod.Add("fm", []byte(fmtMatrixDoc()), gen.Options{})
	if ferr != nil {
		r.Fail(lp.PropFail{Property: "C04", What: "the generator refuses the format-matrix spec", Input: fmtMatrixDoc(), Observed: ferr.Error(), Expected: "generated package"})
	}
	codecPkgs := c04CodecAdd(r, r.Rng.Fork(404), mod)
	bin, err := mod.Build()
	if err != nil {
		r.Fail(lp.PropFail{Property: "C02", What: "generated packages do not compile", Input: "schema specs", Observed: err.Error(), Expected: "compiles"})
		return
	}
	drv, err := gc.Start(bin)
	if err != nil {
		panic(err)
	}
	defer drv.Close()
	if len(specs) > 0 && specs[0] == m {
		c04Wrappers(r, drv, m)
	}
	if fmtPkg != nil {
		c04Formats(r, drv, fmtPkg)
	}
	c04Codec(r, r.Rng.Fork(405), drv, codecPkgs)
	for _, b := range specs {
		names := make([]string, 0)
		for name := range b.g.Env() {
			names = append(names, name)
		}
		sort.Strings(names)
		types := b.pkg.Gen.Types()
		for _, name := range names {
			if _, ok := types[name]; !ok {
				continue // not generated as a named type (e.g. inlined primitive alias)
			}
			c04Type(r, rng, drv, b, name)
		}
	}
}

func c04Type(r *lp.Run, rng *lp.Rand, drv *gc.Driver, b *bodySpec, name string) {
	s := b.g.Env()[name]
	sj, _ := json.Marshal(s.JSON())
	env := b.g.Env()
	inBase := func(extra map[string]any) map[string]any {
		m := map[string]any{"type": name, "schema": json.RawMessage(sj), "components": compsJSON(b.g)}
		for k, v := range extra {
			m[k] = v
		}
		return m
	}
	nontrivial := func(canon string) bool {
		for _, c := range canon {
			if c == '[' || c == '{' || c == '(' {
				return true
			}
		}
		return false
	}
	judge := func(kind string, one map[string]any, in map[string]any) {
		value := fmt.Sprint(one["value"])
		r.Count("c04 "+b.pkg.Name+name+value+fmt.Sprint(one["text"]), kind+":"+c04Branch(one), nontrivial(value))
		r.PropCheck()
		fail := func(what, obs, exp string) {
			if b.pkg.Name == "bshared" {
				// K21: a named array that some other schema uses as an optional member loses its nil check everywhere
				if name == "UsesArrReq" && !strings.Contains(fmt.Sprint(one["text"]), `"req"`) {
					r.Known(lp.PropFail{Property: "C04", Class: "K21", What: what, Input: in, Observed: obs, Expected: exp})
					return
				}
				// K23: a nil byte slice of a required, non-nullable member is written as null
				if name == "Blob" && strings.Contains(fmt.Sprint(one["text"]), `"b":null`) {
					r.Known(lp.PropFail{Property: "C04", Class: "K23", What: what, Input: in, Observed: obs, Expected: exp})
					return
				}
			}
			r.Fail(lp.PropFail{Property: "C04", What: what, Input: in, Observed: obs, Expected: exp})
		}
		for _, k := range []string{"driver_panic", "validate_panic", "encode_panic", "decode_panic"} {
			if one[k] != nil {
				fail("panic in "+k, fmt.Sprint(one[k]), "no panic")
				return
			}
		}
		if one["validate_err"] != nil {
			return // the value does not pass its own validation: outside the domain
		}
		if one["encode_err"] != nil {
			fail("a value that passes its own validation cannot be encoded", fmt.Sprint(one["encode_err"]), "JSON")
			return
		}
		text, _ := one["text"].(string)
		if !stdValid([]byte(text)) {
			fail("encoding is not well-formed JSON", text, "JSON")
			return
		}
		if !env.Valid(s, parseJSON(text)) {
			if cls := c04Known(s, env, text); cls != "" {
				r.Known(lp.PropFail{Property: "C04", Class: cls, What: "a value that passes Validate() encodes to JSON that violates min/maxProperties", Input: in, Observed: text, Expected: "valid against the schema"})
				return
			}
			fail("encoded JSON is not valid against the source schema", text, "valid against the schema")
			return
		}
		if one["decode_err"] != nil {
			fail("the encoding of a valid value cannot be decoded", fmt.Sprint(one["decode_err"])+" text="+text, "same value")
			return
		}
		if one["decoded"] != one["value"] {
			// K17: a pointer-boxed optional nullable (recursive) member has one state for absent and null after
			// decoding: a non-nil pointer to an unset optional is written as an absent member and comes back nil
			if strings.ReplaceAll(value, "&absent", "nil") == fmt.Sprint(one["decoded"]) {
				r.Known(lp.PropFail{Property: "C04", Class: "K17", What: "an absent recursive nullable optional member (a pointer to an unset optional) comes back as null (a nil pointer)", Input: in, Observed: fmt.Sprint(one["decoded"]) + " text=" + text, Expected: value})
				return
			}
			fail("decoding the encoding yields a different value", fmt.Sprint(one["decoded"])+" text="+text, value)
		}
	}
	// (a) random Go values
	n := r.N(25, 200)
	items := make([][]string, n)
	for i := range items {
		items[i] = []string{""}
	}
	ans, _ := drv.Do(map[string]any{"pkg": b.pkg.Name, "cmd": "randvalues", "type": name, "text": fmt.Sprint(rng.Uint64() >> 1), "items": items})
	if res, ok := ans["results"].([]any); ok {
		for _, x := range res {
			one := x.(map[string]any)
			judge("rand", one, inBase(map[string]any{"go_value": one["value"]}))
		}
	} else {
		r.Fail(lp.PropFail{Property: "C04", What: "driver failure", Input: inBase(nil), Observed: fmt.Sprint(ans), Expected: "results"})
	}
	// (b) valid instances: decode, encode, decode
	var texts [][]string
	for i := 0; i < r.N(8, 40); i++ {
		v, ok := b.g.GenValid(&Schema{Ref: name}, 3)
		if ok && v != nil { // null for a nullable component is carried by the wrapper at the use site, not by the named type
			texts = append(texts, []string{renderJSON(v)})
		}
	}
	ans, _ = drv.Do(map[string]any{"pkg": b.pkg.Name, "cmd": "decodebatch", "type": name, "items": texts})
	if res, ok := ans["results"].([]any); ok {
		for i, x := range res {
			one := x.(map[string]any)
			in := inBase(map[string]any{"instance": texts[i][0]})
			if one["decode_err"] != nil || one["decode_panic"] != nil {
				r.PropCheck()
				r.Count("c04 inst "+b.pkg.Name+name+texts[i][0], "inst:decode-refused", true)
				r.Fail(lp.PropFail{Property: "C04", What: "a valid instance is not decoded", Input: in, Observed: fmt.Sprint(one["decode_err"], one["decode_panic"]), Expected: "value"})
				continue
			}
			again, _ := one["again"].(map[string]any)
			if again == nil {
				continue
			}
			again["value"] = one["decoded"]
			judge("inst", again, in)
		}
	}
}

func c04Branch(one map[string]any) string {
	switch {
	case one["validate_err"] != nil:
		return "fails-own-validation"
	case one["encode_err"] != nil:
		return "encode-error"
	case one["decode_err"] != nil:
		return "decode-error"
	default:
		return "round-trip"
	}
}

// c04Known: D15 — Validate() of generated map/struct types does not check min/maxProperties
// (only Decode does): the only schema violation of the text is a property count
func c04Known(s *Schema, env Env, text string) string {
	v := parseJSON(text)
	relaxed := relaxProps(s, env, map[string]*Schema{})
	if relaxed.Valid(&Schema{Ref: "$root"}, v) {
		return "D15"
	}
	return ""
}

// relaxProps: a copy of the environment with every min/maxProperties removed
func relaxProps(root *Schema, env Env, seen map[string]*Schema) Env {
	out := Env{}
	var cp func(s *Schema) *Schema
	cp = func(s *Schema) *Schema {
		if s == nil {
			return nil
		}
		c := *s
		c.MinProps, c.MaxProps = nil, nil
		c.Items = cp(s.Items)
		c.AddProps = cp(s.AddProps)
		c.Props = nil
		for _, p := range s.Props {
			c.Props = append(c.Props, Prop{p.Name, cp(p.S), p.Required})
		}
		return &c
	}
	for k, s := range env {
		out[k] = cp(s)
	}
	out["$root"] = cp(root)
	return out
}

// c04Wrappers ties the Lean wrapper model (OptNil.encode/decode/state) to the generated OptNilT codec:
// every raw field combination (Set, Null, Value) of an optional nullable member is encoded inside its
// struct and decoded again; member kind on the wire and the state after decoding must be the model's.
func c04Wrappers(r *lp.Run, drv *gc.Driver, m *bodySpec) {
	// the matrix operation with members on (optional nullable string), rn (required nullable integer)
	var typeName string
	for name, s := range m.g.Env() {
		if len(s.Props) == 3 && s.Props[0].Name == "on" {
			typeName = name
		}
	}
	if typeName == "" {
		return
	}
	for _, set := range []bool{false, true} {
		for _, null := range []bool{false, true} {
			for _, val := range []string{"", "x", "null"} {
				desc := map[string]any{"On": map[string]any{"$raw": map[string]any{"Set": set, "Null": null, "Value": val}}, "Rn": json.Number("1")}
				ans, _ := drv.Do(map[string]any{"pkg": m.pkg.Name, "cmd": "roundtrip", "type": typeName, "value": desc})
				text, _ := ans["text"].(string)
				member := "bad"
				if obj, ok := parseJSON(text).(map[string]any); ok {
					switch x := obj["on"].(type) {
					case nil:
						if _, present := obj["on"]; present {
							member = "null"
						} else {
							member = "omitted"
						}
					case string:
						member = "val:" + lp.Hex([]byte(x))
					}
				}
				decoded := fmt.Sprint(ans["decoded"])
				state := "bad"
				switch {
				case containsField(decoded, "On=absent"):
					state = "omitted"
				case containsField(decoded, "On=null"):
					state = "null"
				case containsField(decoded, "On=some("):
					state = "val"
				}
				r.Case("optnil", fmt.Sprintf("%s %s %s", bs(set), bs(null), lp.Hex([]byte(val))), member+" "+state, "wrapper:"+state, true)
			}
		}
	}
}

func containsField(canon, f string) bool {
	for i := 0; i+len(f) <= len(canon); i++ {
		if canon[i:i+len(f)] == f {
			return true
		}
	}
	return false
}
