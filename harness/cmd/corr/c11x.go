package main

import (
	"bytes"
	"encoding/json"
	"fmt"
	"net/url"
	"path"
	"regexp"
	"strconv"
	"strings"

	"github.com/ogen-go/ogen"
	"github.com/ogen-go/ogen/gen"
	"github.com/ogen-go/ogen/location"

	"verifharness/internal/lp"
	"time"
	"github.com/ogen-go/ogen/gen/ir"
)

// ---- composition cycles: oneOf / anyOf / allOf graphs with inline (unnamed) hops ----

func c11SumCycles(r *lp.Run, rng *lp.Rand) {
	kw := []string{"oneOf", "anyOf", "allOf"}
	n := r.N(150, 3000)
	for i := 0; i < n; i++ {
		k := 1 + rng.Intn(3)
		ref := func() M { return M{"$ref": fmt.Sprintf("#/components/schemas/N%d", rng.Intn(k))} }
		var member func(d int) any
		member = func(d int) any {
			switch x := rng.Intn(8); {
			case x < 3:
				return ref()
			case x == 3:
				return M{"type": lp.Pick(rng, []string{"string", "integer", "boolean"})}
			case x == 4:
				return M{"type": "object", "properties": M{"p": ref(), "q": M{"type": "string"}}}
			case x == 5:
				return M{"type": "array", "items": ref()}
			default:
				if d <= 0 {
					return ref()
				}
				m := []any{}
				for j := 0; j < 1+rng.Intn(3); j++ {
					m = append(m, member(d-1))
				}
				return M{lp.Pick(rng, kw): m}
			}
		}
		schemas := M{}
		for j := 0; j < k; j++ {
			m := []any{}
			for q := 0; q < 1+rng.Intn(3); q++ {
				m = append(m, member(2))
			}
			schemas[fmt.Sprintf("N%d", j)] = M{lp.Pick(rng, kw): m}
		}
		// the place the graph is used from: a body, a parameter in each location (their style/type check walks
		// the composition too), a response header, a response body, a parameter with `content`
		n0 := M{"$ref": "#/components/schemas/N0"}
		op := M{"operationId": "a", "responses": M{"200": M{"description": "ok"}}}
		path := "/a"
		place := []string{"request body", "query parameter", "header parameter", "path parameter", "cookie parameter", "response header", "response body", "content parameter", "deepObject parameter"}[i%9]
		switch place {
		case "request body":
			op["requestBody"] = M{"content": M{"application/json": M{"schema": n0}}}
		case "query parameter":
			op["parameters"] = []any{M{"name": "q", "in": "query", "schema": n0}}
		case "header parameter":
			op["parameters"] = []any{M{"name": "X-Q", "in": "header", "schema": n0}}
		case "path parameter":
			path = "/a/{q}"
			op["parameters"] = []any{M{"name": "q", "in": "path", "required": true, "schema": n0}}
		case "cookie parameter":
			op["parameters"] = []any{M{"name": "q", "in": "cookie", "schema": n0}}
		case "response header":
			op["responses"] = M{"200": M{"description": "ok", "headers": M{"X-R": M{"schema": n0}}}}
		case "response body":
			op["responses"] = M{"200": M{"description": "ok", "content": M{"application/json": M{"schema": n0}}}}
		case "content parameter":
			op["parameters"] = []any{M{"name": "q", "in": "query", "content": M{"application/json": M{"schema": n0}}}}
		case "deepObject parameter":
			op["parameters"] = []any{M{"name": "q", "in": "query", "style": "deepObject", "explode": true, "schema": n0}}
		}
		doc := M{"openapi": "3.0.3", "info": M{"title": "t", "version": "1"},
			"paths":      M{path: M{"post": op}},
			"components": M{"schemas": schemas}}
		b, _ := json.Marshal(doc)
		c11Judge(r, b, nil, fmt.Sprintf("composition graph %d (oneOf/anyOf/allOf with inline hops) used from a %s", i, place))
	}
}

// ---- references one past the end of an array (what is left when the last element is deleted) ----

func arraysOf(root any) (out []npath, lens []int) {
	walkAny(root, nil, func(p npath, v any) {
		if a, ok := v.([]any); ok && len(p) > 0 {
			out = append(out, append(npath{}, p...))
			lens = append(lens, len(a))
		}
	})
	return
}

// ---- located diagnostics: the position an error names lies in the file it names, at the faulty node ----

var reAt = regexp.MustCompile(`([A-Za-z0-9_./:-]+\.(?:ya?ml|json)):(\d+)(?::(\d+))?`)

type locFiles struct {
	root  string
	files map[string]string
}

func runLocated(lf locFiles) (errText string, kind string) {
	res := lp.Guard(func() string {
		data := []byte(lf.files[lf.root])
		spec, err := ogen.Parse(data)
		if err != nil {
			errText = err.Error()
			return "parse-err"
		}
		opts := gen.Options{Parser: gen.ParseOptions{
			AllowRemote: true,
			File:        location.NewFile(lf.root, "/specs/"+lf.root, data),
			RootURL:     &url.URL{Scheme: "file", Path: "/specs/" + lf.root},
			Remote: gen.RemoteOptions{
				ReadFile: func(p string) ([]byte, error) {
					if s, ok := lf.files[path.Base(p)]; ok {
						return []byte(s), nil
					}
					return nil, fmt.Errorf("no such file %q", p)
				},
				URLToFilePath: func(u *url.URL) (string, error) {
					if u.Path == "" {
						return u.Opaque, nil
					}
					return u.Path, nil
				},
			},
		}}
		_, err = gen.NewGenerator(spec, opts)
		if err != nil {
			errText = err.Error()
			return "gen-err"
		}
		return "ok"
	})
	return errText, res
}

func c11Located(r *lp.Run) {
	items := "item:\n  get:\n    operationId: getItems\n    responses:\n      \"200\":\n        description: ok\n# end\n"
	rootFor := func(key string) string {
		return "openapi: 3.0.3\ninfo:\n  title: t\n  version: \"1\"\n# a few\n# lines\n# of\n# comment\npaths:\n  /plain:\n    get:\n      operationId: plain\n      responses:\n        \"200\":\n          description: ok\n  " + key + ":\n    $ref: \"items.yml#/item\"\n"
	}
	// (the faulty key is not the first key of `paths`: a mapping's own position is that of its first key)
	type sc struct {
		name     string
		lf       locFiles
		wantFile string // the file the faulty node is in ("" = the referring or the referred file: a fault inside a referred fragment may be reported at the reference)
		wantLine int    // its line (1-based), 0 = any line of that file
	}
	var scs []sc
	// (the last four: the same faults in keys that also carry a valid but non-canonical escape — the key is
	// looked up in the document as it is written there, not in its normal form)
	for _, key := range []string{`"/pets?limit=10"`, `"//host/x"`, `"/a%zz"`, `"/a/{x"`, `"pets"`, `"/a%2fb/{x"`, `"/p%65ts?limit=10"`, `"/a%7e/{x/y}"`, `"/%41/{x"`} {
		scs = append(scs, sc{"path key " + key + " whose path item is a $ref into another file", locFiles{"root.yml", map[string]string{"root.yml": rootFor(key), "items.yml": items}}, "root.yml", 16})
	}
	// faults inside the external file
	badItems := strings.Replace(items, "description: ok", "description: ok\n        content: 7", 1)
	scs = append(scs, sc{"wrong node kind inside the external file", locFiles{"root.yml", map[string]string{"root.yml": rootFor("/items"), "items.yml": badItems}}, "", 0})
	badItems2 := strings.Replace(items, "operationId: getItems", "operationId: getItems\n    parameters:\n      - name: p\n        in: nowhere\n        schema: {type: string}", 1)
	scs = append(scs, sc{"invalid parameter location inside the external file", locFiles{"root.yml", map[string]string{"root.yml": rootFor("/items"), "items.yml": badItems2}}, "", 0})
	// a dangling reference from the root into the external file
	scs = append(scs, sc{"dangling pointer into the external file", locFiles{"root.yml", map[string]string{"root.yml": strings.Replace(rootFor("/items"), "items.yml#/item", "items.yml#/nope", 1), "items.yml": items}}, "root.yml", 17})
	// single file, fault deep in the document
	single := rootFor("/items")
	single = strings.Replace(single, "    $ref: \"items.yml#/item\"\n", "    get:\n      operationId: x\n      parameters:\n        - name: q\n          in: query\n          schema:\n            type: strng\n      responses:\n        \"200\":\n          description: ok\n", 1)
	scs = append(scs, sc{"unknown schema type in a single file", locFiles{"root.yml", map[string]string{"root.yml": single}}, "root.yml", 23})
	// line of the first line of text that contains marker (1-based)
	lineOf := func(text, marker string) int {
		for i, l := range strings.Split(text, "\n") {
			if strings.Contains(l, marker) {
				return i + 1
			}
		}
		return 0
	}
	// YAML mapping keys that are not strings: plain integer status codes (`404:`) — the same faults as with
	// quoted keys must be found at the key
	for _, q := range []struct{ name, key, body string }{
		{"unquoted status code with a null response", "404", " ~"},
		{"quoted status code with a null response", `"404"`, " ~"},
		{"unquoted status code out of range", "700", "\n          description: bad"},
		{"quoted status code out of range", `"700"`, "\n          description: bad"},
	} {
		doc := "openapi: 3.0.3\ninfo:\n  title: t\n  version: \"1\"\npaths:\n  /x:\n    get:\n      operationId: x\n      responses:\n        200:\n          description: ok\n        201:\n          description: ok\n        " + q.key + ":" + q.body + "\n        default:\n          description: d\n"
		scs = append(scs, sc{q.name, locFiles{"root.yml", map[string]string{"root.yml": doc}}, "root.yml", lineOf(doc, "        "+q.key+":")})
	}
	// a conflict of two keywords is located at the keywords (fixed 176e3718), an enum value of the wrong type at
	// the value
	for _, q := range []struct{ name, schema, marker string }{
		{"minLength greater than maxLength", "type: string\n            description: d\n            minLength: 10\n            maxLength: 5", "minLength: 10"},
		{"minItems greater than maxItems", "type: array\n            items: {type: string}\n            description: d\n            maxItems: 1\n            minItems: 3", "Items: "},
		{"enum value of the wrong type", "type: integer\n            enum:\n              - 1\n              - 2\n              - \"three\"", "\"three\""},
		{"K25 enum value of the wrong type after a null", "type: integer\n            nullable: true\n            enum:\n              - null\n              - 1\n              - 2\n              - \"three\"", "\"three\""},
	} {
		doc := "openapi: 3.0.3\ninfo:\n  title: t\n  version: \"1\"\npaths:\n  /x:\n    get:\n      operationId: x\n      parameters:\n        - name: q\n          in: query\n          schema:\n            " + q.schema + "\n      responses:\n        \"200\":\n          description: ok\n"
		want := lineOf(doc, q.marker)
		if q.marker == "Items: " {
			want = 0 // either of the two keyword lines: checked below through wantAny
		}
		scs = append(scs, sc{q.name, locFiles{"root.yml", map[string]string{"root.yml": doc}}, "root.yml", want})
	}
	// a parameter whose schema lives in another file and does not fit the style: the position is inside the
	// schema, so the file must be the schema's (fixed 066adfdc)
	{
		root := "openapi: 3.0.3\ninfo:\n  title: t\n  version: \"1\"\npaths:\n  /x:\n    get:\n      operationId: x\n      parameters:\n        - name: f\n          in: query\n          style: deepObject\n          explode: true\n          schema:\n            $ref: \"schemas.yml#/Filter\"\n      responses:\n        \"200\":\n          description: ok\n"
		schemas := strings.Repeat("# padding\n", 24) + "Filter:\n  type: string\n"
		scs = append(scs, sc{"style/type conflict with the schema in another, longer file", locFiles{"root.yml", map[string]string{"root.yml": root, "schemas.yml": schemas}}, "", 0})
	}
	for _, s := range scs {
		errText, kind := runLocated(s.lf)
		r.Count("c11 located "+s.name, "located:"+kind, true)
		r.PropCheck()
		in := map[string]any{"case": s.name, "files": s.lf.files}
		if kind == "panic" {
			r.Fail(lp.PropFail{Property: "C11", What: "the generator panics", Input: in, Observed: "panic", Expected: "a located diagnostic"})
			continue
		}
		if kind == "ok" {
			r.Fail(lp.PropFail{Property: "C11", What: "a document with a fault is accepted", Input: in, Observed: "generated", Expected: "a located diagnostic"})
			continue
		}
		ms := reAt.FindAllStringSubmatch(errText, -1)
		if len(ms) == 0 {
			r.Fail(lp.PropFail{Property: "C11", What: "the diagnostic carries no file:line position", Input: in, Observed: truncN(errText, 400), Expected: "… " + s.wantFile + ":<line>:<col> …"})
			continue
		}
		hitWanted := false
		for _, m := range ms {
			base := path.Base(m[1])
			text, known := s.lf.files[base]
			line, _ := strconv.Atoi(m[2])
			if !known {
				r.Fail(lp.PropFail{Property: "C11", What: "the diagnostic names a file that is not part of the document", Input: in, Observed: m[0], Expected: "one of the document's files"})
				continue
			}
			lines := strings.Split(text, "\n")
			if line < 1 || line > len(lines) {
				r.Fail(lp.PropFail{Property: "C11", What: "the diagnostic's position lies outside the file it names", Input: in, Observed: fmt.Sprintf("%s (that file has %d lines)", m[0], len(lines)), Expected: "a position inside " + base})
				continue
			}
			if m[3] != "" {
				if col, _ := strconv.Atoi(m[3]); col < 1 || col > len(lines[line-1])+1 {
					r.Fail(lp.PropFail{Property: "C11", What: "the diagnostic's column lies outside the line it names", Input: in, Observed: fmt.Sprintf("%s (that line has %d bytes)", m[0], len(lines[line-1])), Expected: "a column inside the line"})
					continue
				}
			}
			if (s.wantFile == "" || base == s.wantFile) && (s.wantLine == 0 || line == s.wantLine) {
				hitWanted = true
			}
		}
		if !hitWanted && strings.HasPrefix(s.name, "K25 ") {
			r.Known(lp.PropFail{Property: "C11", Class: "K25", What: "an enum value of the wrong type is located one element early for every null before it", Input: in, Observed: truncN(errText, 300), Expected: fmt.Sprintf("a position %s:%d", s.wantFile, s.wantLine)})
			continue
		}
		if !hitWanted {
			want := s.wantFile
			if s.wantLine > 0 {
				want += fmt.Sprintf(":%d", s.wantLine)
			}
			r.Fail(lp.PropFail{Property: "C11", What: "the diagnostic does not point at the faulty node", Input: in, Observed: truncN(errText, 400), Expected: "a position " + want})
		}
	}
}

// keyed and enumerated positions of a document × hostile values: every position whose text selects a branch in
// the parser or generator (response keys, media types, parameter location and style, schema type and format,
// security scheme kind, server URL, header names, required / enum / default entries) is given every value of
// a list that holds the boundary spellings of all of them; the outcome must be success or a diagnostic
func c11Positions(r *lp.Run) {
	values := []string{"", " ", "0XX", "-XX", "+XX", " XX", "*XX", "/XX", "6XX", "9XX", "XXX", "1xx", "2X", "2XXX", "XX2", "99", "099", "100", "600", "999", "1000", "-1", "+200", "2e2", "200 ", "0x10", "default", "Default", "default ",
		"*/*", "application/*", "*/json", "application/json; charset=utf-8", "application/json;", ";", "/", "a/", "/b", "a/b/c", "text/plain", "multipart/form-data", "application/x-www-form-urlencoded", "application/octet-stream", "application/problem+json", "+json", "application/+json",
		"query", "Query", "path", "header", "cookie", "body", "formData", "form", "simple", "matrix", "label", "spaceDelimited", "pipeDelimited", "deepObject", "deepobject",
		"string", "integer", "number", "boolean", "array", "object", "null", "String", "int", "any", "file",
		"int32", "int64", "uint8", "float", "double", "byte", "binary", "date", "date-time", "time", "duration", "uuid", "ipv4", "ipv6", "ip", "mac", "uri", "email", "hostname", "password", "unix", "unix-seconds", "unix-nano", "decimal", "regex", "int128", "x",
		"apiKey", "http", "oauth2", "openIdConnect", "mutualTLS", "basic", "bearer", "digest", "Bearer", "BASIC",
		"{", "}", "{}", "{x}", "{x", "x}", "{{x}}", "https://{host}/{base", "http://[::1", "%", "%zz", "a b", "é", "\x00", "a\nb", "Content-Type", "content-type", "Set-Cookie", "X-A B", "X-É", ":", "$ref", "#", "#/", "#/components/schemas/", "~", "~2"}
	type pos struct {
		name string
		doc  func(v string) map[string]any
	}
	base := func(op map[string]any, comps map[string]any) map[string]any {
		d := map[string]any{"openapi": "3.0.3", "info": map[string]any{"title": "t", "version": "1"}, "paths": map[string]any{"/a/{id}": map[string]any{"post": op}}}
		if comps != nil {
			d["components"] = comps
		}
		return d
	}
	okResp := func() map[string]any { return map[string]any{"200": map[string]any{"description": "ok"}} }
	idParam := func() map[string]any {
		return map[string]any{"name": "id", "in": "path", "required": true, "schema": map[string]any{"type": "string"}}
	}
	jsonOf := func(schema any) map[string]any {
		return map[string]any{"application/json": map[string]any{"schema": schema}}
	}
	positions := []pos{
		{"response key", func(v string) map[string]any {
			return base(map[string]any{"operationId": "a", "parameters": []any{idParam()}, "responses": map[string]any{v: map[string]any{"description": "r", "content": jsonOf(map[string]any{"type": "string"})}, "200": map[string]any{"description": "ok"}}}, nil)
		}},
		{"only response key", func(v string) map[string]any {
			return base(map[string]any{"operationId": "a", "parameters": []any{idParam()}, "responses": map[string]any{v: map[string]any{"description": "r"}}}, nil)
		}},
		{"request media type", func(v string) map[string]any {
			return base(map[string]any{"operationId": "a", "parameters": []any{idParam()}, "requestBody": map[string]any{"content": map[string]any{v: map[string]any{"schema": map[string]any{"type": "string"}}}}, "responses": okResp()}, nil)
		}},
		{"response media type", func(v string) map[string]any {
			return base(map[string]any{"operationId": "a", "parameters": []any{idParam()}, "responses": map[string]any{"200": map[string]any{"description": "r", "content": map[string]any{v: map[string]any{"schema": map[string]any{"type": "string"}}}}}}, nil)
		}},
		{"parameter in", func(v string) map[string]any {
			return base(map[string]any{"operationId": "a", "parameters": []any{idParam(), map[string]any{"name": "q", "in": v, "schema": map[string]any{"type": "string"}}}, "responses": okResp()}, nil)
		}},
		{"parameter style", func(v string) map[string]any {
			return base(map[string]any{"operationId": "a", "parameters": []any{idParam(), map[string]any{"name": "q", "in": "query", "style": v, "schema": map[string]any{"type": "array", "items": map[string]any{"type": "string"}}}}, "responses": okResp()}, nil)
		}},
		{"parameter name", func(v string) map[string]any {
			return base(map[string]any{"operationId": "a", "parameters": []any{idParam(), map[string]any{"name": v, "in": "header", "schema": map[string]any{"type": "string"}}}, "responses": okResp()}, nil)
		}},
		{"schema type", func(v string) map[string]any {
			return base(map[string]any{"operationId": "a", "parameters": []any{idParam()}, "requestBody": map[string]any{"content": jsonOf(map[string]any{"type": v})}, "responses": okResp()}, nil)
		}},
		{"string format", func(v string) map[string]any {
			return base(map[string]any{"operationId": "a", "parameters": []any{idParam(), map[string]any{"name": "q", "in": "query", "schema": map[string]any{"type": "string", "format": v}}}, "requestBody": map[string]any{"content": jsonOf(map[string]any{"type": "object", "properties": map[string]any{"f": map[string]any{"type": "string", "format": v}}})}, "responses": okResp()}, nil)
		}},
		{"integer format", func(v string) map[string]any {
			return base(map[string]any{"operationId": "a", "parameters": []any{idParam(), map[string]any{"name": "q", "in": "query", "schema": map[string]any{"type": "integer", "format": v}}}, "requestBody": map[string]any{"content": jsonOf(map[string]any{"type": "object", "properties": map[string]any{"f": map[string]any{"type": "integer", "format": v}}})}, "responses": okResp()}, nil)
		}},
		{"number format", func(v string) map[string]any {
			return base(map[string]any{"operationId": "a", "parameters": []any{idParam()}, "requestBody": map[string]any{"content": jsonOf(map[string]any{"type": "object", "properties": map[string]any{"f": map[string]any{"type": "number", "format": v}}})}, "responses": okResp()}, nil)
		}},
		{"security scheme type", func(v string) map[string]any {
			return base(map[string]any{"operationId": "a", "parameters": []any{idParam()}, "security": []any{map[string]any{"s": []any{}}}, "responses": okResp()}, map[string]any{"securitySchemes": map[string]any{"s": map[string]any{"type": v, "name": "k", "in": "header", "scheme": "bearer", "openIdConnectUrl": "https://x/y", "flows": map[string]any{}}}})
		}},
		{"http scheme", func(v string) map[string]any {
			return base(map[string]any{"operationId": "a", "parameters": []any{idParam()}, "security": []any{map[string]any{"s": []any{}}}, "responses": okResp()}, map[string]any{"securitySchemes": map[string]any{"s": map[string]any{"type": "http", "scheme": v}}})
		}},
		{"apiKey in", func(v string) map[string]any {
			return base(map[string]any{"operationId": "a", "parameters": []any{idParam()}, "security": []any{map[string]any{"s": []any{}}}, "responses": okResp()}, map[string]any{"securitySchemes": map[string]any{"s": map[string]any{"type": "apiKey", "name": "k", "in": v}}})
		}},
		{"apiKey name", func(v string) map[string]any {
			return base(map[string]any{"operationId": "a", "parameters": []any{idParam()}, "security": []any{map[string]any{"s": []any{}}}, "responses": okResp()}, map[string]any{"securitySchemes": map[string]any{"s": map[string]any{"type": "apiKey", "name": v, "in": "cookie"}}})
		}},
		{"server url", func(v string) map[string]any {
			d := base(map[string]any{"operationId": "a", "parameters": []any{idParam()}, "responses": okResp()}, nil)
			d["servers"] = []any{map[string]any{"url": v, "variables": map[string]any{"host": map[string]any{"default": "h"}}}}
			return d
		}},
		{"response header name", func(v string) map[string]any {
			return base(map[string]any{"operationId": "a", "parameters": []any{idParam()}, "responses": map[string]any{"200": map[string]any{"description": "r", "headers": map[string]any{v: map[string]any{"schema": map[string]any{"type": "string"}}}}}}, nil)
		}},
		{"required entry", func(v string) map[string]any {
			return base(map[string]any{"operationId": "a", "parameters": []any{idParam()}, "requestBody": map[string]any{"content": jsonOf(map[string]any{"type": "object", "required": []any{v}, "properties": map[string]any{"f": map[string]any{"type": "string"}}})}, "responses": okResp()}, nil)
		}},
		{"enum entry and default", func(v string) map[string]any {
			return base(map[string]any{"operationId": "a", "parameters": []any{idParam(), map[string]any{"name": "q", "in": "query", "schema": map[string]any{"type": "string", "enum": []any{v, "z"}, "default": v}}}, "responses": okResp()}, nil)
		}},
		{"integer default given as text", func(v string) map[string]any {
			return base(map[string]any{"operationId": "a", "parameters": []any{idParam(), map[string]any{"name": "q", "in": "query", "schema": map[string]any{"type": "integer", "default": v}}}, "responses": okResp()}, nil)
		}},
		{"discriminator mapping target", func(v string) map[string]any {
			return base(map[string]any{"operationId": "a", "parameters": []any{idParam()}, "requestBody": map[string]any{"content": jsonOf(map[string]any{"oneOf": []any{map[string]any{"$ref": "#/components/schemas/A"}, map[string]any{"$ref": "#/components/schemas/B"}}, "discriminator": map[string]any{"propertyName": "k", "mapping": map[string]any{"a": v, "b": "#/components/schemas/B"}}})}, "responses": okResp()},
				map[string]any{"schemas": map[string]any{"A": map[string]any{"type": "object", "required": []any{"k"}, "properties": map[string]any{"k": map[string]any{"type": "string"}}}, "B": map[string]any{"type": "object", "required": []any{"k"}, "properties": map[string]any{"k": map[string]any{"type": "string"}, "n": map[string]any{"type": "integer"}}}}})
		}},
		{"$ref target", func(v string) map[string]any {
			return base(map[string]any{"operationId": "a", "parameters": []any{idParam()}, "requestBody": map[string]any{"content": jsonOf(map[string]any{"$ref": v})}, "responses": okResp()}, map[string]any{"schemas": map[string]any{"A": map[string]any{"type": "string"}}})
		}},
		{"operationId", func(v string) map[string]any {
			return base(map[string]any{"operationId": v, "parameters": []any{idParam()}, "responses": okResp()}, nil)
		}},
		{"path parameter name", func(v string) map[string]any {
			d := map[string]any{"openapi": "3.0.3", "info": map[string]any{"title": "t", "version": "1"}, "paths": map[string]any{"/a/{" + v + "}": map[string]any{"get": map[string]any{"operationId": "a", "parameters": []any{map[string]any{"name": v, "in": "path", "required": true, "schema": map[string]any{"type": "string"}}}, "responses": okResp()}}}}
			return d
		}},
	}
	n := 0
	for _, p := range positions {
		for _, v := range values {
			b, err := json.Marshal(p.doc(v))
			if err != nil {
				continue
			}
			var twin []byte
			if hasControl(v) {
				twin, _ = json.Marshal(p.doc(stripControl(v)))
			}
			c11Judge(r, b, twin, fmt.Sprintf("position %q = %q", p.name, v))
			n++
		}
	}
	c11Flush(r)
	r.Exhaustive("keyed / enumerated positions × hostile values", fmt.Sprintf("%d positions × %d values = %d documents", len(positions), len(values), n))
}

// descriptions that stress the doc-comment line breaker: leading punctuation, very long unbreakable runs, both at
// the start of a description and right after a wrap point; and schemas whose members share their types (a DAG
// that is a tree of exponential size when walked along every path)
func c11Shapes(r *lp.Run) {
	var texts []string
	for _, lead := range []string{"", ".", ",", ";", " .", "..", ".,;", "- ", "\t."} {
		for _, n := range []int{98, 99, 100, 101, 130, 400} {
			for _, run := range []string{"a", "spec/template/containers/", "é"} {
				long := lead + strings.Repeat(run, n/len(run)+1)
				texts = append(texts, long, strings.Repeat("word ", 19)+long, "First line.\n"+long+"\nlast", long+" "+long)
			}
		}
	}
	place := func(where, text string) []byte {
		doc := map[string]any{"openapi": "3.0.3", "info": map[string]any{"title": "t", "version": "1"},
			"paths": map[string]any{"/x": map[string]any{"get": map[string]any{"operationId": "x",
				"parameters": []any{map[string]any{"name": "q", "in": "query", "schema": map[string]any{"type": "string"}}},
				"responses":  map[string]any{"200": map[string]any{"description": "ok", "content": map[string]any{"application/json": map[string]any{"schema": map[string]any{"$ref": "#/components/schemas/S"}}}}}}}},
			"components": map[string]any{"schemas": map[string]any{"S": map[string]any{"type": "object", "properties": map[string]any{"p": map[string]any{"type": "string"}}}}}}
		op := doc["paths"].(map[string]any)["/x"].(map[string]any)["get"].(map[string]any)
		sch := doc["components"].(map[string]any)["schemas"].(map[string]any)["S"].(map[string]any)
		switch where {
		case "info":
			doc["info"].(map[string]any)["description"] = text
		case "operation":
			op["description"] = text
			op["deprecated"] = true
		case "summary":
			op["summary"] = text
		case "parameter":
			op["parameters"].([]any)[0].(map[string]any)["description"] = text
		case "schema":
			sch["description"] = text
		case "property":
			sch["properties"].(map[string]any)["p"].(map[string]any)["description"] = text
		case "response":
			op["responses"].(map[string]any)["200"].(map[string]any)["description"] = text
		}
		b, _ := json.Marshal(doc)
		return b
	}
	wheres := []string{"info", "operation", "summary", "parameter", "schema", "property", "response"}
	k := 0
	for _, t := range texts {
		for _, w := range wheres {
			k++
			if !r.Thorough() && k%4 != int(r.Seed%4) {
				continue
			}
			c11Judge(r, place(w, t), nil, fmt.Sprintf("description shape at %s: %d bytes starting %q", w, len(t), truncN(t, 24)))
		}
	}
	// shared members
	for _, n := range []int{12, 26, 40} {
		schemas := map[string]any{}
		for i := 0; i < n; i++ {
			schemas[fmt.Sprintf("L%d", i)] = map[string]any{"allOf": []any{map[string]any{"$ref": fmt.Sprintf("#/components/schemas/L%d", i+1)}, map[string]any{"$ref": fmt.Sprintf("#/components/schemas/L%d", i+1)}}}
		}
		schemas[fmt.Sprintf("L%d", n)] = map[string]any{"type": "object", "properties": map[string]any{"a": map[string]any{"type": "string"}}}
		c11Judge(r, c11SharedDoc(schemas), nil, fmt.Sprintf("allOf members shared by two parents, %d levels", n))
		schemas = map[string]any{}
		for i := 0; i < n; i++ {
			next := map[string]any{"$ref": fmt.Sprintf("#/components/schemas/L%d", i+1)}
			schemas[fmt.Sprintf("L%d", i)] = map[string]any{"type": "object", "properties": map[string]any{"a": next, "b": next}}
		}
		schemas[fmt.Sprintf("L%d", n)] = map[string]any{"type": "object", "properties": map[string]any{"a": map[string]any{"type": "string"}}}
		c11Judge(r, c11SharedDoc(schemas), nil, fmt.Sprintf("property types shared by two members, %d levels", n))
	}
}

func c11SharedDoc(schemas map[string]any) []byte {
	b, _ := json.Marshal(map[string]any{"openapi": "3.0.3", "info": map[string]any{"title": "t", "version": "1"},
		"paths": map[string]any{"/x": map[string]any{"post": map[string]any{"operationId": "x",
			"requestBody": map[string]any{"content": map[string]any{"application/json": map[string]any{"schema": map[string]any{"$ref": "#/components/schemas/L0"}}}},
			"responses":   map[string]any{"200": map[string]any{"description": "ok"}}}}},
		"components": map[string]any{"schemas": schemas}})
	return b
}

// ir.splitLine against the Lean model DocLines (driver tag docsplit): bounded-exhaustive small texts at small
// limits, the description shapes at the real limit, random texts. The implementation runs under a watchdog (a
// loop that does not end is an outcome, not a hang of the check).
func c11DocSplit(r *lp.Run, rng *lp.Rand) {
	impl := func(s string, limit int) string {
		ch := make(chan string, 1)
		go func() {
			ch <- lp.Guard(func() string {
				lines := ir.VerifSplitLine(s, limit)
				if len(lines) == 0 {
					return "_"
				}
				out := make([]string, len(lines))
				for i, l := range lines {
					out[i] = c10KeyHex(l)
				}
				return strings.Join(out, "|")
			})
		}()
		select {
		case o := <-ch:
			return o
		case <-time.After(3 * time.Second):
			return "does-not-terminate"
		}
	}
	one := func(s string, limit int, what string) {
		out := impl(s, limit)
		r.Case("docsplit", fmt.Sprintf("%d %s", limit, c10KeyHex(s)), out, "docsplit:"+what, len(s) >= limit)
		r.PropCheck()
		if out == "does-not-terminate" || out == "panic" {
			r.Fail(lp.PropFail{Property: "C11", What: "ir.splitLine does not return", Input: map[string]any{"text": s, "limit": limit}, Observed: out, Expected: "lines"})
		}
	}
	alpha := []string{"a", " ", ".", ",", "é"}
	var rec func(prefix string, depth int)
	maxLen := r.N(6, 8)
	for _, limit := range []int{2, 3, 4, 6} {
		rec = func(prefix string, depth int) {
			one(prefix, limit, "exhaustive")
			if depth == maxLen {
				return
			}
			for _, a := range alpha {
				rec(prefix+a, depth+1)
			}
		}
		rec("", 0)
	}
	r.Exhaustive("splitLine small texts", map[string]any{"alphabet": alpha, "max_symbols": maxLen, "limits": []int{2, 3, 4, 6}})
	for _, lead := range []string{"", ".", ",", ";", " .", "..", ".,;", "- ", "\t."} {
		for _, n := range []int{97, 98, 99, 100, 101, 130, 250} {
			for _, run := range []string{"a", "spec/template/", "é", "ab. "} {
				long := lead + strings.Repeat(run, n/len(run)+1)
				for _, t := range []string{long, strings.Repeat("word ", 19) + long, long + " " + long, "  " + long + "  "} {
					one(t, 100, "shapes")
				}
			}
		}
	}
	for i := 0; i < r.N(3000, 40000); i++ {
		n := rng.Intn(260)
		var sb strings.Builder
		for sb.Len() < n {
			switch rng.Intn(12) {
			case 0, 1:
				sb.WriteByte(' ')
			case 2:
				sb.WriteString(lp.Pick(rng, []string{".", ",", ";", "\t", "  ", ". "}))
			case 3:
				sb.WriteString(lp.Pick(rng, []string{"é", "日本", "😀"}))
			default:
				sb.WriteString(strings.Repeat(lp.Pick(rng, []string{"a", "b", "/", "-", "x"}), 1+rng.Intn(40)))
			}
		}
		one(sb.String(), lp.Pick(rng, []int{100, 100, 100, 20, 7, 3, 2}), "random")
	}
}

// the listing printed under a located diagnostic (location.File.PrintListing): documents whose line count and
// error line sit around the powers of ten; the rendering must not fail, must not contain a recovered Format panic
// or the "cannot render" placeholder, must show the text of the highlighted line, and the width of the number
// column must be the one the Lean model computes (driver tag lpad)
func c11Listing(r *lp.Run) {
	var sizes []int
	for _, p := range []int{10, 100, 1000, 10000} {
		for d := -2; d <= 6; d++ {
			sizes = append(sizes, p+d)
		}
	}
	sizes = append(sizes, 1, 2, 5, 50, 500, 5000)
	for _, n := range sizes {
		var sb strings.Builder
		for i := 1; i <= n; i++ {
			fmt.Fprintf(&sb, "k%d: v\n", i)
		}
		f := location.NewFile("doc.yml", "doc.yml", []byte(sb.String()))
		for _, ctx := range []int{0, 1, 3, 5} {
			for _, line := range []int{1, n / 2, n - 7, n - 6, n - 5, n - 4, n - 3, n - 2, n - 1, n, n + 1} {
				if line < 1 {
					continue
				}
				var out strings.Builder
				var err error
				pan := lp.Guard(func() string {
					err = f.PrintListing(&out, "msg", location.Position{Line: line, Column: 1}, location.PrintListingOptions{Context: ctx}.WithoutColor())
					return ""
				})
				r.PropCheck()
				in := map[string]any{"lines": n, "line": line, "context": ctx}
				text := out.String()
				c := ctx
				if c == 0 {
					c = 3
				}
				hi := line - 1 + c + 1 // index of the last printed line (clamped to the number of newlines)
				if hi > n {
					hi = n
				}
				switch {
				case pan != "":
					r.Fail(lp.PropFail{Property: "C11", What: "rendering a located diagnostic panics", Input: in, Observed: pan, Expected: "a listing"})
					continue
				case err != nil:
					r.Fail(lp.PropFail{Property: "C11", What: "rendering a located diagnostic fails for a line of the document", Input: in, Observed: err.Error(), Expected: "a listing"})
					continue
				case strings.Contains(text, "PANIC=") || strings.Contains(text, location.BugLine):
					r.Fail(lp.PropFail{Property: "C11", What: "the listing under a located diagnostic holds a recovered panic / placeholder instead of a line", Input: in, Observed: truncN(text, 600), Expected: "line numbers and line texts"})
					continue
				case line <= n && !strings.Contains(text, fmt.Sprintf("%d | k%d: v", line, line)):
					r.Fail(lp.PropFail{Property: "C11", What: "the listing does not show the reported line", Input: in, Observed: truncN(text, 600), Expected: fmt.Sprintf("a row '%d | k%d: v'", line, line)})
					continue
				}
				// width of the number column, measured on the last row
				rows := strings.Split(strings.TrimRight(text, "\n"), "\n")
				last := rows[len(rows)-1]
				width := "?"
				if i := strings.Index(last, " | "); i >= 0 {
					num := strings.TrimPrefix(last[:i], "\t")
					if strings.HasPrefix(num, "→ ") {
						num = strings.TrimPrefix(num, "→ ")
					} else {
						num = strings.TrimPrefix(num, "  ")
					}
					width = fmt.Sprint(len(num))
				}
				r.Case("lpad", fmt.Sprint(hi), width, fmt.Sprintf("lpad:%d", len(fmt.Sprint(hi+1))), hi+1 >= 100)
			}
		}
	}
}

// location.Lines (Collect + Line) against the Lean model LinesM (driver tag lline), and against a reference on the
// implementation itself: for every line number of the document the slice data[start:end] does not panic and,
// trimmed as PrintHighlights trims it, is the n-th piece of bytes.Split(data, "\n") trimmed the same way
func c11Lines(r *lp.Run, rng *lp.Rand) {
	one := func(data []byte) {
		var l location.Lines
		nl := bytes.Count(data, []byte("\n"))
		for n := -1; n <= nl+3; n++ {
			var s, e int
			out := lp.Guard(func() string {
				l.Collect(data)
				s, e = l.Line(n)
				if s >= 0 && e >= 0 {
					_ = data[s:e]
				}
				return fmt.Sprintf("%d %d", s, e)
			})
			bs := "-"
			if len(data) > 0 {
				parts := make([]string, len(data))
				for i, b := range data {
					parts[i] = fmt.Sprint(int(b))
				}
				bs = strings.Join(parts, ",")
			}
			kind := "valid"
			switch {
			case n < 1:
				kind = "invalid"
			case n > nl+1:
				kind = "past-end"
			case n == nl+1:
				kind = "last"
			}
			r.Case("lline", fmt.Sprintf("%d %s", n, bs), out, "lline:"+kind, kind == "valid" && nl >= 2)
			r.PropCheck()
			in := map[string]any{"data": string(data), "line": n}
			if strings.Contains(out, "panic") {
				r.Fail(lp.PropFail{Property: "C11", What: "location.Lines panics (or yields a range that cannot be sliced)", Input: in, Observed: out, Expected: "a range inside the document"})
				continue
			}
			if n >= 1 && n <= nl+1 {
				got := bytes.Trim(data[s:e], "\r\n")
				want := bytes.Trim(bytes.Split(data, []byte("\n"))[n-1], "\r\n")
				if !bytes.Equal(got, want) {
					r.Fail(lp.PropFail{Property: "C11", What: "the listing shows another text than the line it numbers", Input: in, Observed: fmt.Sprintf("[%d:%d] = %q", s, e, got), Expected: fmt.Sprintf("%q", want)})
				}
			}
		}
	}
	// every document of at most 6 bytes over {a, \n, \r}
	alpha := []byte{'a', '\n', '\r'}
	var rec func(prefix []byte, depth int)
	rec = func(prefix []byte, depth int) {
		one(prefix)
		if depth == 0 {
			return
		}
		for _, c := range alpha {
			rec(append(append([]byte{}, prefix...), c), depth-1)
		}
	}
	rec(nil, r.N(5, 7))
	for i := 0; i < r.N(400, 6000); i++ {
		n := rng.Intn(40)
		data := make([]byte, n)
		for k := range data {
			data[k] = lp.Pick(rng, []byte{'a', 'b', ' ', '\n', '\n', '\r', ':', 0xc3})
		}
		one(data)
	}
	r.Exhaustive("location.Lines", "every document of at most 5 (quick) / 7 (thorough) bytes over {a, LF, CR} × every line number from -1 to count+3")
}
