package main

import (
	"encoding/json"
	"fmt"
	"net/url"
	"path"
	"regexp"
	"strconv"
	"strings"

	"github.com/ogen-go/ogen"
	"github.com/ogen-go/ogen/gen"
	"github.com/ogen-go/ogen/location"

	"verifharness/internal/lp"
)

// ---- composition cycles: oneOf / anyOf / allOf graphs with inline (unnamed) hops ----

func c11SumCycles(r *lp.Run, rng *lp.Rand) {
	kw := []string{"oneOf", "anyOf", "allOf"}
	n := r.N(150, 3000)
	for i := 0; i < n; i++ {
		k := 1 + rng.Intn(3)
		ref := func() M { return M{"$ref": fmt.Sprintf("#/components/schemas/N%d", rng.Intn(k))} }
		var member func(d int) any
		member = func(d int) any {
			switch x := rng.Intn(8); {
			case x < 3:
				return ref()
			case x == 3:
				return M{"type": lp.Pick(rng, []string{"string", "integer", "boolean"})}
			case x == 4:
				return M{"type": "object", "properties": M{"p": ref(), "q": M{"type": "string"}}}
			case x == 5:
				return M{"type": "array", "items": ref()}
			default:
				if d <= 0 {
					return ref()
				}
				m := []any{}
				for j := 0; j < 1+rng.Intn(3); j++ {
					m = append(m, member(d-1))
				}
				return M{lp.Pick(rng, kw): m}
			}
		}
		schemas := M{}
		for j := 0; j < k; j++ {
			m := []any{}
			for q := 0; q < 1+rng.Intn(3); q++ {
				m = append(m, member(2))
			}
			schemas[fmt.Sprintf("N%d", j)] = M{lp.Pick(rng, kw): m}
		}
		doc := M{"openapi": "3.0.3", "info": M{"title": "t", "version": "1"},
			"paths":      M{"/a": M{"post": M{"operationId": "a", "requestBody": M{"content": M{"application/json": M{"schema": M{"$ref": "#/components/schemas/N0"}}}}, "responses": M{"200": M{"description": "ok"}}}}},
			"components": M{"schemas": schemas}}
		b, _ := json.Marshal(doc)
		c11Judge(r, b, nil, fmt.Sprintf("composition graph %d (oneOf/anyOf/allOf with inline hops)", i))
	}
}

// ---- references one past the end of an array (what is left when the last element is deleted) ----

func arraysOf(root any) (out []npath, lens []int) {
	walkAny(root, nil, func(p npath, v any) {
		if a, ok := v.([]any); ok && len(p) > 0 {
			out = append(out, append(npath{}, p...))
			lens = append(lens, len(a))
		}
	})
	return
}

// ---- located diagnostics: the position an error names lies in the file it names, at the faulty node ----

var reAt = regexp.MustCompile(`([A-Za-z0-9_./:-]+\.(?:ya?ml|json)):(\d+)(?::(\d+))?`)

type locFiles struct {
	root  string
	files map[string]string
}

func runLocated(lf locFiles) (errText string, kind string) {
	res := lp.Guard(func() string {
		data := []byte(lf.files[lf.root])
		spec, err := ogen.Parse(data)
		if err != nil {
			errText = err.Error()
			return "parse-err"
		}
		opts := gen.Options{Parser: gen.ParseOptions{
			AllowRemote: true,
			File:        location.NewFile(lf.root, "/specs/"+lf.root, data),
			RootURL:     &url.URL{Scheme: "file", Path: "/specs/" + lf.root},
			Remote: gen.RemoteOptions{
				ReadFile: func(p string) ([]byte, error) {
					if s, ok := lf.files[path.Base(p)]; ok {
						return []byte(s), nil
					}
					return nil, fmt.Errorf("no such file %q", p)
				},
				URLToFilePath: func(u *url.URL) (string, error) {
					if u.Path == "" {
						return u.Opaque, nil
					}
					return u.Path, nil
				},
			},
		}}
		_, err = gen.NewGenerator(spec, opts)
		if err != nil {
			errText = err.Error()
			return "gen-err"
		}
		return "ok"
	})
	return errText, res
}

func c11Located(r *lp.Run) {
	items := "item:\n  get:\n    operationId: getItems\n    responses:\n      \"200\":\n        description: ok\n# end\n"
	rootFor := func(key string) string {
		return "openapi: 3.0.3\ninfo:\n  title: t\n  version: \"1\"\n# a few\n# lines\n# of\n# comment\npaths:\n  " + key + ":\n    $ref: \"items.yml#/item\"\n  /plain:\n    get:\n      operationId: plain\n      responses:\n        \"200\":\n          description: ok\n"
	}
	type sc struct {
		name     string
		lf       locFiles
		wantFile string // the file the faulty node is in ("" = the referring or the referred file: a fault inside a referred fragment may be reported at the reference)
		wantLine int    // its line (1-based), 0 = any line of that file
	}
	var scs []sc
	for _, key := range []string{`"/pets?limit=10"`, `"//host/x"`, `"/a%zz"`, `"/a/{x"`, `"pets"`} {
		scs = append(scs, sc{"path key " + key + " whose path item is a $ref into another file", locFiles{"root.yml", map[string]string{"root.yml": rootFor(key), "items.yml": items}}, "root.yml", 10})
	}
	// faults inside the external file
	badItems := strings.Replace(items, "description: ok", "description: ok\n        content: 7", 1)
	scs = append(scs, sc{"wrong node kind inside the external file", locFiles{"root.yml", map[string]string{"root.yml": rootFor("/items"), "items.yml": badItems}}, "", 0})
	badItems2 := strings.Replace(items, "operationId: getItems", "operationId: getItems\n    parameters:\n      - name: p\n        in: nowhere\n        schema: {type: string}", 1)
	scs = append(scs, sc{"invalid parameter location inside the external file", locFiles{"root.yml", map[string]string{"root.yml": rootFor("/items"), "items.yml": badItems2}}, "", 0})
	// a dangling reference from the root into the external file
	scs = append(scs, sc{"dangling pointer into the external file", locFiles{"root.yml", map[string]string{"root.yml": strings.Replace(rootFor("/items"), "items.yml#/item", "items.yml#/nope", 1), "items.yml": items}}, "root.yml", 11})
	// single file, fault deep in the document
	single := rootFor("/items")
	single = strings.Replace(single, "    $ref: \"items.yml#/item\"\n", "    get:\n      operationId: x\n      parameters:\n        - name: q\n          in: query\n          schema:\n            type: strng\n      responses:\n        \"200\":\n          description: ok\n", 1)
	scs = append(scs, sc{"unknown schema type in a single file", locFiles{"root.yml", map[string]string{"root.yml": single}}, "root.yml", 17})
	for _, s := range scs {
		errText, kind := runLocated(s.lf)
		r.Count("c11 located "+s.name, "located:"+kind, true)
		r.PropCheck()
		in := map[string]any{"case": s.name, "files": s.lf.files}
		if kind == "panic" {
			r.Fail(lp.PropFail{Property: "C11", What: "the generator panics", Input: in, Observed: "panic", Expected: "a located diagnostic"})
			continue
		}
		if kind == "ok" {
			r.Fail(lp.PropFail{Property: "C11", What: "a document with a fault is accepted", Input: in, Observed: "generated", Expected: "a located diagnostic"})
			continue
		}
		ms := reAt.FindAllStringSubmatch(errText, -1)
		if len(ms) == 0 {
			r.Fail(lp.PropFail{Property: "C11", What: "the diagnostic carries no file:line position", Input: in, Observed: truncN(errText, 400), Expected: "… " + s.wantFile + ":<line>:<col> …"})
			continue
		}
		hitWanted := false
		for _, m := range ms {
			base := path.Base(m[1])
			text, known := s.lf.files[base]
			line, _ := strconv.Atoi(m[2])
			if !known {
				r.Fail(lp.PropFail{Property: "C11", What: "the diagnostic names a file that is not part of the document", Input: in, Observed: m[0], Expected: "one of the document's files"})
				continue
			}
			lines := strings.Split(text, "\n")
			if line < 1 || line > len(lines) {
				r.Fail(lp.PropFail{Property: "C11", What: "the diagnostic's position lies outside the file it names", Input: in, Observed: fmt.Sprintf("%s (that file has %d lines)", m[0], len(lines)), Expected: "a position inside " + base})
				continue
			}
			if m[3] != "" {
				if col, _ := strconv.Atoi(m[3]); col < 1 || col > len(lines[line-1])+1 {
					r.Fail(lp.PropFail{Property: "C11", What: "the diagnostic's column lies outside the line it names", Input: in, Observed: fmt.Sprintf("%s (that line has %d bytes)", m[0], len(lines[line-1])), Expected: "a column inside the line"})
					continue
				}
			}
			if (s.wantFile == "" || base == s.wantFile) && (s.wantLine == 0 || line == s.wantLine) {
				hitWanted = true
			}
		}
		if !hitWanted {
			want := s.wantFile
			if s.wantLine > 0 {
				want += fmt.Sprintf(":%d", s.wantLine)
			}
			r.Fail(lp.PropFail{Property: "C11", What: "the diagnostic does not point at the faulty node", Input: in, Observed: truncN(errText, 400), Expected: "a position " + want})
		}
	}
}
