package main

import (
	"encoding/json"
	"fmt"
	"net/url"
	"os"
	"path/filepath"
	"regexp"
	"strings"

	"github.com/ogen-go/ogen/gen"

	"verifharness/internal/gc"
	"verifharness/internal/lp"
)

func init() { suites["c15"] = c15 }

const stagesDoc = `{"openapi":"3.0.3","info":{"title":"t","version":"1"},
"security":[{"K":[]}],
"paths":{
 "/items/{id}":{"post":{"operationId":"putItem",
   "parameters":[{"name":"id","in":"path","required":true,"schema":{"type":"integer","format":"int64"}},
                 {"name":"q","in":"query","schema":{"type":"integer","format":"int32"}},
                 {"name":"tags","in":"query","schema":{"type":"array","items":{"type":"string"},"maxItems":3}},
                 {"name":"X-H","in":"header","schema":{"type":"string","maxLength":8}},
                 {"name":"ck","in":"cookie","schema":{"type":"boolean"}}],
   "requestBody":{"required":true,"content":{"application/json":{"schema":{"$ref":"#/components/schemas/Item"}}}},
   "responses":{"200":{"description":"ok","content":{"application/json":{"schema":{"$ref":"#/components/schemas/Item"}}}}}}},
 "/plain":{"get":{"operationId":"getPlain","security":[],"responses":{"200":{"description":"ok","content":{"application/json":{"schema":{"type":"string"}}}}}}}
},
"components":{"securitySchemes":{"K":{"type":"apiKey","in":"header","name":"X-Key"}},
 "schemas":{"Item":{"type":"object","required":["name"],"additionalProperties":false,"properties":{"name":{"type":"string","minLength":1,"maxLength":5},"n":{"type":"integer","minimum":0,"maximum":9}}}}}}`

// the same operations with a declared default error response (convenient errors)
const stagesErrDoc = `{"openapi":"3.0.3","info":{"title":"t","version":"1"},
"security":[{"K":[]}],
"paths":{
 "/e/{id}":{"post":{"operationId":"postE",
   "parameters":[{"name":"id","in":"path","required":true,"schema":{"type":"integer"}}],
   "requestBody":{"required":true,"content":{"application/json":{"schema":{"$ref":"#/components/schemas/Item"}}}},
   "responses":{"200":{"description":"ok","content":{"application/json":{"schema":{"$ref":"#/components/schemas/Item"}}}},
                "default":{"description":"err","content":{"application/json":{"schema":{"$ref":"#/components/schemas/Error"}}}}}}}
},
"components":{"securitySchemes":{"K":{"type":"apiKey","in":"header","name":"X-Key"}},"schemas":{
  "Item":{"type":"object","required":["name"],"properties":{"name":{"type":"string"}}},
  "Error":{"type":"object","required":["code","message"],"properties":{"code":{"type":"integer"},"message":{"type":"string"}}}}}}`

type stReq struct {
	method, path, rawPath, query string
	header                       map[string][]string
	body                         *string
	contentLength                *int64 // overrides the length derived from body (-1: unknown / chunked)
	script                       map[string]any
	// expectation
	stage string // route404 route405 security params body415 body400 handler
	hout  string // for stage handler: ok | err | notimpl
}

var intRe = regexp.MustCompile(`^[+-]?[0-9]+$`)

func c15(r *lp.Run) {
	r.SetRule("a regenerated server with security, path/query/header/cookie parameters and a JSON body (plus one with a declared default error response); requests that fail at a chosen stage — unknown path, wrong method, missing/rejected credential, malformed path/query/header/cookie parameter (bad escapes through hand-built URLs, wrong type, too many items, too long), wrong/missing content type, truncated/trailing/ill-typed/oversized JSON, missing and unknown members — built from valid requests; every handler outcome (value, error, not implemented, declared error); then byte-level mutations of valid requests and random requests. Observed: status, number of WriteHeader calls, handler-invoked flag, recovered panic. non-trivial = distinct request that gets past routing")
	rng := r.Rng.Fork(15)
	scratch := os.Getenv("VERIF_SCRATCH")
	if scratch == "" {
		scratch = "/var/tmp"
	}
	mod, err := gc.NewModule(filepath.Join(scratch, fmt.Sprintf("gc-c15-%d", os.Getpid())))
	if err != nil {
		panic(err)
	}
	defer os.RemoveAll(mod.Dir)
	pkg, err := mod.Add("st", []byte(stagesDoc), gen.Options{})
	if err != nil {
		r.Fail(lp.PropFail{Property: "C15", What: "the generator refuses the stage-matrix spec", Input: stagesDoc, Observed: err.Error(), Expected: "generated package"})
		return
	}
	epkg, err := mod.Add("ste", []byte(stagesErrDoc), gen.Options{})
	if err != nil {
		r.Fail(lp.PropFail{Property: "C15", What: "the generator refuses the error-response spec", Input: stagesErrDoc, Observed: err.Error(), Expected: "generated package"})
		return
	}
	extra := c15Extra(r, mod)
	bin, err := mod.Build()
	if err != nil {
		r.Fail(lp.PropFail{Property: "C02", What: "generated packages do not compile", Input: "stage specs", Observed: err.Error(), Expected: "compiles"})
		return
	}
	drv, err := gc.Start(bin)
	if err != nil {
		panic(err)
	}
	defer drv.Close()

	okBody := `{"name":"abc","n":3}`
	valid := func() stReq {
		b := okBody
		return stReq{method: "POST", path: "/items/42", query: "q=7&tags=a&tags=b", header: map[string][]string{"X-Key": {"k"}, "Content-Type": {"application/json"}, "X-H": {"hv"}, "Cookie": {"ck=true"}},
			body: &b, stage: "handler", hout: "ok"}
	}
	respond := map[string]any{"$type": "*Item", "$value": map[string]any{"Name": "abc"}}
	var reqs []stReq
	add := func(f func(q *stReq)) {
		q := valid()
		f(&q)
		reqs = append(reqs, q)
	}
	sp := func(s string) *string { return &s }
	// handler outcomes
	add(func(q *stReq) {})
	add(func(q *stReq) { q.hout = "err" })
	add(func(q *stReq) { q.hout = "notimpl" })
	// routing
	add(func(q *stReq) { q.path = "/items/"; q.stage = "route404-or-params" }) // an empty path argument is accepted or not depending on tree shape (K7); it is never delivered
	for _, p := range []string{"/", "/items", "/items/42/x", "/nope", "/items/42/", "//items/42", "/ITEMS/42", "/items//42", "/items//", "/items/4/2", "/items///42"} {
		p := p
		add(func(q *stReq) { q.path = p; q.stage = "route404" })
	}
	for _, m := range []string{"GET", "PUT", "DELETE", "PATCH", "post", "HEAD", ""} {
		m := m
		add(func(q *stReq) { q.method = m; q.stage = "route405" })
	}
	// security
	add(func(q *stReq) { delete(q.header, "X-Key"); q.stage = "security" })
	add(func(q *stReq) { q.header["X-Key"] = []string{""}; q.stage = "security" })
	add(func(q *stReq) {
		q.script = map[string]any{"security": map[string]string{"K": "reject"}}
		q.stage = "security"
	})
	add(func(q *stReq) {
		q.script = map[string]any{"security": map[string]string{"K": "skip"}}
		q.stage = "security"
	})
	// parameters
	for _, id := range []string{"abc", "4 2", "1.5", "99999999999999999999", "0x10", "", "%zz", "4%2", "%34%32x", "١٢"} {
		id := id
		add(func(q *stReq) {
			q.path = "/items/" + id
			if strings.Contains(id, "%") {
				q.rawPath = "/items/" + id
				if u, err := url.PathUnescape(id); err == nil {
					q.path = "/items/" + u
				}
			}
			q.stage = "params"
			if id == "" {
				q.stage = "route404-or-params"
			}
		})
	}
	for _, qs := range []string{"q=x", "q=1.5", "q=99999999999", "q=", "q=1&q=2", "tags=a&tags=b&tags=c&tags=d", "q=+7x"} {
		qs := qs
		add(func(q *stReq) { q.query = qs; q.stage = "params" })
	}
	add(func(q *stReq) { q.header["X-H"] = []string{"much too long a value"}; q.stage = "params" })
	// K9 witnesses: malformed query pairs
	for _, qs := range []string{"q=%zz", "q=a;b", "q=1&tags=%"} {
		ans := c15Do(drv, pkg.Name, func() stReq { q := valid(); q.query = qs; return q }(), respond)
		srv, _ := ans["server"].(map[string]any)
		r.Count("k9 "+qs, "k9-witness", true)
		r.PropCheck()
		if srv != nil && fmt.Sprint(srv["handler_called"]) != "0" {
			r.Known(lp.PropFail{Property: "C15", Class: "K9", What: "a malformed query pair is silently dropped and the handler runs without the parameter", Input: map[string]any{"query": qs}, Observed: "handler invoked, status " + fmt.Sprint(ans["status"]), Expected: "400"})
		}
	}
	add(func(q *stReq) { q.header["Cookie"] = []string{"ck=maybe"}; q.stage = "params" })
	// body
	for _, ct := range []string{"text/plain", "application/xml", "application/jsonx", "multipart/form-data"} {
		ct := ct
		add(func(q *stReq) { q.header["Content-Type"] = []string{ct}; q.stage = "body415" })
	}
	add(func(q *stReq) { delete(q.header, "Content-Type"); q.stage = "body415-or-400" })
	add(func(q *stReq) { q.header["Content-Type"] = []string{"garbage;;;"}; q.stage = "body415-or-400" })
	for _, b := range []string{"", "{", `{"name":"abc"`, `{"name":"abc"} x`, `{"name":"abc"}{"name":"abc"}`, `[]`, `null`, `"abc"`, `{"n":3}`, `{"name":1}`, `{"name":""}`, `{"name":"abcdef"}`, `{"name":"abc","n":10}`, `{"name":"abc","n":-1}`,
		`{"name":"abc","zz":1}`, `{"name":"abc","n":1.5}`, `{"name":"abc","n":"1"}`, `{"name":null}`, `{"name":"abc",}`, "{\"name\":\"a\x00b\"}", `{"name":"abc","n":1e400}`, strings.Repeat("[", 10000), `{"name":"` + strings.Repeat("x", 100000) + `"}`} {
		b := b
		add(func(q *stReq) { q.body = sp(b); q.stage = "body400" })
	}
	add(func(q *stReq) { q.body = nil; q.stage = "body400" })
	// valid variants that must still reach the handler
	add(func(q *stReq) { q.query = "" })
	add(func(q *stReq) { delete(q.header, "X-H"); delete(q.header, "Cookie") })
	add(func(q *stReq) { q.header["Content-Type"] = []string{"application/json; charset=utf-8"} })
	add(func(q *stReq) { q.body = sp(" {\n\"n\" : 0 , \"name\" : \"a\" } \n") })
	add(func(q *stReq) { q.path = "/items/-9223372036854775808" })
	add(func(q *stReq) { q.path = "/items/42"; q.rawPath = "/items/%34%32" })

	for _, q := range reqs {
		c15One(r, drv, pkg.Name, q, respond)
	}
	c15Errors(r, drv, epkg.Name)
	c15ExtraRun(r, drv, extra)
	c15Mutations(r, rng, drv, pkg.Name, valid(), respond)
}

func c15Do(drv *gc.Driver, pkg string, q stReq, respond any) map[string]any {
	script := map[string]any{}
	for k, v := range q.script {
		script[k] = v
	}
	switch q.hout {
	case "ok":
		script["respond"] = respond
	case "err":
		script["handler_error"] = "boom"
	}
	req := map[string]any{"pkg": pkg, "cmd": "raw", "method": q.method, "path": q.path, "raw_path": q.rawPath, "query": q.query, "header": q.header, "script": script}
	if q.body != nil {
		req["body"] = *q.body
	}
	if q.contentLength != nil {
		req["content_length"] = *q.contentLength
	}
	ans, _ := drv.Do(req)
	return ans
}

func c15One(r *lp.Run, drv *gc.Driver, pkg string, q stReq, respond any) {
	ans := c15Do(drv, pkg, q, respond)
	status := fmt.Sprint(ans["status"])
	wh := fmt.Sprint(ans["write_headers"])
	srv, _ := ans["server"].(map[string]any)
	handler := srv != nil && fmt.Sprint(srv["handler_called"]) != "0"
	in := map[string]any{"method": q.method, "path": q.path, "raw_path": q.rawPath, "query": q.query, "header": q.header, "body": bodyStr(q.body), "stage": q.stage, "handler_outcome": q.hout}
	// model line: route sec params body handler
	route, sec, par, body, hout := "found", "1", "1", "none", "ok200"
	switch q.stage {
	case "route404":
		route = "noPath"
	case "route405":
		route = "wrongMethod"
	case "security":
		sec = "0"
	case "params":
		par = "0"
	case "body415":
		body = "ct"
	case "body400":
		body = "malformed"
	}
	switch q.hout {
	case "err":
		hout = "other"
	case "notimpl":
		hout = "notimpl"
	}
	implLine := fmt.Sprintf("%s h%s", status, map[bool]string{true: "1", false: "0"}[handler])
	exact := !strings.Contains(q.stage, "-or-")
	if exact {
		r.Case("stage", fmt.Sprintf("%s %s %s %s %s", route, sec, par, body, hout), implLine, "stage:"+q.stage, route == "found")
	} else {
		r.Count("stage-impl "+fmt.Sprint(in), "stage:"+q.stage, true)
	}
	r.PropCheck()
	fail := func(what, obs, exp string) {
		r.Fail(lp.PropFail{Property: "C15", What: what, Input: in, Observed: obs, Expected: exp})
	}
	if ans["panic"] != nil || ans["crash"] != nil || ans["driver_panic"] != nil {
		fail("the server panics", fmt.Sprint(ans["panic"], ans["crash"], ans["driver_panic"]), "a response")
		return
	}
	if wh != "1" {
		fail("not exactly one response is written", "WriteHeader calls: "+wh+" status "+status, "1")
	}
	want := map[string][]string{
		"route404": {"404"}, "route405": {"405"}, "security": {"401"}, "params": {"400"}, "body415": {"415"}, "body400": {"400"},
		"route404-or-params": {"404", "400"}, "body415-or-400": {"415", "400"},
	}
	if q.stage != "handler" {
		if handler {
			fail("a request that fails at stage "+q.stage+" reaches the handler", implLine, strings.Join(want[q.stage], "/")+", handler not invoked")
			return
		}
		ok := false
		for _, w := range want[q.stage] {
			if status == w {
				ok = true
			}
		}
		if !ok {
			fail("wrong status for a failure at stage "+q.stage, status, strings.Join(want[q.stage], "/"))
		}
		return
	}
	wantStatus := map[string]string{"ok": "200", "err": "500", "notimpl": "501"}[q.hout]
	if !handler {
		fail("a valid request does not reach the handler", implLine+" "+fmt.Sprint(ans["resp_body"]), "handler invoked")
	} else if status != wantStatus {
		fail("handler outcome "+q.hout+" surfaces with the wrong status", status, wantStatus)
	}
}

func bodyStr(b *string) string {
	if b == nil {
		return "<none>"
	}
	if len(*b) > 300 {
		return (*b)[:300] + fmt.Sprintf("…(%d bytes)", len(*b))
	}
	return *b
}

// handler failures surface as the spec's error response or 500
func c15Errors(r *lp.Run, drv *gc.Driver, pkg string) {
	b := `{"name":"x"}`
	base := stReq{method: "POST", path: "/e/1", header: map[string][]string{"Content-Type": {"application/json"}, "X-Key": {"k"}}, body: &b, stage: "handler"}
	// stage failures with convenient errors active: security goes through NewError + encodeErrorResponse
	for _, sc := range []struct {
		name   string
		mut    func(q *stReq)
		status string
	}{
		{"no credential", func(q *stReq) { delete(q.header, "X-Key") }, "401"},
		{"credential rejected", func(q *stReq) { q.script = map[string]any{"security": map[string]string{"K": "reject"}} }, "401"},
		{"credential skipped", func(q *stReq) { q.script = map[string]any{"security": map[string]string{"K": "skip"}} }, "401"},
		{"malformed parameter", func(q *stReq) { q.path = "/e/abc" }, "400"},
		{"malformed body", func(q *stReq) { s := "{"; q.body = &s }, "400"},
		{"wrong content type", func(q *stReq) { q.header["Content-Type"] = []string{"text/plain"} }, "415"},
	} {
		q := base
		q.header = map[string][]string{}
		for k, v := range base.header {
			q.header[k] = v
		}
		sc.mut(&q)
		q.hout = "ok"
		ans := c15Do(drv, pkg, q, map[string]any{"$type": "*Item", "$value": map[string]any{"Name": "x"}})
		srv, _ := ans["server"].(map[string]any)
		handler := srv != nil && fmt.Sprint(srv["handler_called"]) != "0"
		r.Count("c15err stage "+sc.name, "convenient-errors-stage:"+sc.name, true)
		r.PropCheck()
		in := map[string]any{"case": sc.name, "spec": "default error response declared (convenient errors), global security"}
		switch {
		case ans["panic"] != nil:
			r.Fail(lp.PropFail{Property: "C15", What: "the server panics", Input: in, Observed: fmt.Sprint(ans["panic"]), Expected: "a response"})
		case fmt.Sprint(ans["write_headers"]) != "1":
			r.Fail(lp.PropFail{Property: "C15", What: "not exactly one response is written", Input: in, Observed: fmt.Sprint(ans["write_headers"], " status ", ans["status"], " handler invoked: ", handler), Expected: "1"})
		case handler:
			r.Fail(lp.PropFail{Property: "C15", What: "a request that fails before the handler reaches the handler", Input: in, Observed: fmt.Sprint("status ", ans["status"], ", handler invoked"), Expected: sc.status + ", handler not invoked"})
		case fmt.Sprint(ans["status"]) != sc.status:
			r.Fail(lp.PropFail{Property: "C15", What: "wrong status for a stage failure", Input: in, Observed: fmt.Sprint(ans["status"]), Expected: sc.status})
		}
	}
	type ec struct {
		name   string
		script map[string]any
		want   string
	}
	cases := []ec{
		{"value", map[string]any{"respond": map[string]any{"$type": "*Item", "$value": map[string]any{"Name": "x"}}}, "200"},
		{"plain error", map[string]any{"handler_error": "boom"}, "500"},
		// errors the error path treats specially: exactly one response all the same
		{"not implemented", map[string]any{"handler_error": "$not-implemented"}, "501"},
		{"not implemented, wrapped", map[string]any{"handler_error": "$wrapped-not-implemented"}, "501"},
		{"no answer scripted (the unimplemented handler)", map[string]any{}, "501"},
		{"context canceled", map[string]any{"handler_error": "$canceled"}, "500"},
		{"declared error 418", map[string]any{"respond_error": map[string]any{"$type": "*ErrorStatusCode", "$value": map[string]any{"StatusCode": json.Number("418"), "Response": map[string]any{"Code": json.Number("7"), "Message": "teapot"}}}}, "418"},
		{"declared error 404", map[string]any{"respond_error": map[string]any{"$type": "*ErrorStatusCode", "$value": map[string]any{"StatusCode": json.Number("404"), "Response": map[string]any{"Code": json.Number("1"), "Message": "nf"}}}}, "404"},
	}
	for _, c := range cases {
		req := map[string]any{"pkg": pkg, "cmd": "raw", "method": base.method, "path": base.path, "header": base.header, "body": b, "script": c.script}
		ans, _ := drv.Do(req)
		status := fmt.Sprint(ans["status"])
		r.Count("c15err "+c.name, "handler-outcome:"+c.name, true)
		r.PropCheck()
		in := map[string]any{"case": c.name, "spec": "default error response declared"}
		if ans["panic"] != nil {
			r.Fail(lp.PropFail{Property: "C15", What: "the server panics", Input: in, Observed: fmt.Sprint(ans["panic"]), Expected: "a response"})
			continue
		}
		if fmt.Sprint(ans["write_headers"]) != "1" {
			r.Fail(lp.PropFail{Property: "C15", What: "not exactly one response is written", Input: in, Observed: fmt.Sprint(ans["write_headers"]), Expected: "1"})
		}
		if status != c.want {
			r.Fail(lp.PropFail{Property: "C15", What: "handler failure does not surface as the spec's error response / 500", Input: in, Observed: status + " " + fmt.Sprint(ans["resp_body"]), Expected: c.want})
		}
	}
}

// hand-built RawPath values (a client library or a proxy may set anything): a spelling that needs rewriting
// followed by a broken escape
var c15RawPaths = func() []string {
	var out []string
	for _, p := range []string{"/items/%34", "/items/4%32", "/it%65ms/42", "/items/%2f", "/items/42", "/items/%7e", "/%69tems/%34%32"} {
		for _, sfx := range []string{"%", "%4", "%z", "%zz", "%4z", "%%", "%2", "%2F%", "%41%4", "%61%", "/%", "%2f%4"} {
			out = append(out, p+sfx)
		}
	}
	return out
}()

// byte-level mutations of a valid request and random requests: never a panic, exactly one
// response, and the handler runs only for requests the reference accepts
func c15Mutations(r *lp.Run, rng *lp.Rand, drv *gc.Driver, pkg string, base stReq, respond any) {
	n := r.N(1500, 40000)
	junk := []byte("%/?&=;:#\"\\{}[],+ \x00\xff\r\nz09é")
	mut := func(s string) string {
		b := []byte(s)
		k := 1 + rng.Intn(3)
		for i := 0; i < k; i++ {
			switch rng.Intn(4) {
			case 0:
				if len(b) > 0 {
					b[rng.Intn(len(b))] = lp.Pick(rng, junk)
				}
			case 1:
				p := rng.Intn(len(b) + 1)
				b = append(b[:p], append([]byte{lp.Pick(rng, junk)}, b[p:]...)...)
			case 2:
				if len(b) > 0 {
					p := rng.Intn(len(b))
					b = append(b[:p], b[p+1:]...)
				}
			case 3:
				if len(b) > 1 {
					p := rng.Intn(len(b))
					b = b[:p]
				}
			}
		}
		return string(b)
	}
	for i := 0; i < n; i++ {
		q := base
		q.header = map[string][]string{}
		for k, v := range base.header {
			q.header[k] = append([]string{}, v...)
		}
		body := *base.body
		what := rng.Intn(6)
		if i < len(c15RawPaths) {
			what = 0
		}
		switch what {
		case 0:
			// escaped spellings of the path are mutated too (needless and lower-case escapes in front of the
			// fault); the first requests are a fixed grid of such spellings with a broken escape at the end
			raw := mut(lp.Pick(rng, []string{"/items/42", "/items/42", "/items/%34%32", "/it%65ms/4%32", "/%69tems/%34%32", "/items/%2f42"}))
			if i < len(c15RawPaths) {
				raw = c15RawPaths[i]
			}
			q.rawPath = raw
			if u, err := url.PathUnescape(raw); err == nil {
				q.path = u
			} else {
				q.path = raw
			}
		case 1:
			q.query = mut(base.query)
		case 2:
			body = mut(body)
		case 3:
			k := lp.Pick(rng, []string{"X-Key", "Content-Type", "X-H", "Cookie"})
			q.header[k] = []string{mut(q.header[k][0])}
		case 4:
			q.method = mut(q.method)
		case 5:
			body = renderJSON(NewSchemaGen(rng).RandomJSON(2))
		}
		q.body = &body
		q.hout = "ok"
		ans := c15Do(drv, pkg, q, respond)
		status := fmt.Sprint(ans["status"])
		srv, _ := ans["server"].(map[string]any)
		handler := srv != nil && fmt.Sprint(srv["handler_called"]) != "0"
		in := map[string]any{"method": q.method, "path": q.path, "raw_path": q.rawPath, "query": q.query, "header": q.header, "body": body}
		r.Count("mut "+fmt.Sprint(in), fmt.Sprintf("mutation%d:%s", what, status), status != "404" && status != "405")
		r.PropCheck()
		fail := func(what, obs, exp string) {
			r.Fail(lp.PropFail{Property: "C15", What: what, Input: in, Observed: obs, Expected: exp})
		}
		if ans["panic"] != nil || ans["crash"] != nil || ans["driver_panic"] != nil {
			fail("the server panics", fmt.Sprint(ans["panic"], ans["crash"], ans["driver_panic"]), "a response")
			continue
		}
		if fmt.Sprint(ans["write_headers"]) != "1" {
			fail("not exactly one response is written", fmt.Sprint(ans["write_headers"])+" status "+status, "1")
		}
		if !handler {
			continue
		}
		// over-acceptance: what the handler accepted must be acceptable to the reference
		why := ""
		idText := strings.TrimPrefix(q.path, "/items/")
		qs, _ := url.ParseQuery(q.query)
		var bodyV any = parseJSON(body)
		itemSchema := &Schema{Type: "object", AddMode: "false", Props: []Prop{{"name", &Schema{Type: "string", MinLen: ip(1), MaxLen: ip(5)}, true}, {"n", &Schema{Type: "integer", MinI: i64p(0), MaxI: i64p(9)}, false}}}
		switch {
		case q.method != "POST":
			why = "method is not POST"
		case !strings.HasPrefix(q.path, "/items/") || strings.Contains(idText, "/"):
			why = "path is not an instance of /items/{id}"
		case !intRe.MatchString(idText):
			why = "id is not an integer"
		case len(q.header["X-Key"]) == 0 || q.header["X-Key"][0] == "":
			why = "no credential"
		case len(qs["q"]) > 1 || (len(qs["q"]) == 1 && !intRe.MatchString(qs["q"][0])):
			why = "q is not an integer"
		case len(qs["tags"]) > 3:
			why = "too many tags"
		case !stdValid([]byte(body)):
			why = "body is not one JSON value"
		case !(Env{}).Valid(itemSchema, bodyV):
			why = "body is not valid against the schema"
		case len(q.header["X-H"]) > 0 && len([]rune(q.header["X-H"][0])) > 8:
			why = "X-H longer than 8"
		case !strings.HasPrefix(strings.ToLower(strings.TrimSpace(q.header["Content-Type"][0])), "application/json"):
			why = "content type is not application/json"
		}
		if _, err := url.ParseQuery(q.query); err != nil {
			// net/url's Query() silently drops malformed pairs (bad escapes, ';'): the handler runs
			// with the parameter absent — known finding K9
			r.Known(lp.PropFail{Property: "C15", Class: "K9", What: "a malformed query pair is silently dropped and the handler runs without the parameter", Input: in, Observed: "handler invoked, status " + status, Expected: "400"})
			continue
		}
		if why != "" {
			fail("the handler is invoked for a request the reference refuses: "+why, "handler invoked, status "+status, "4xx, handler not invoked")
		}
	}
}
