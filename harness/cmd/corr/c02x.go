package main

import (
	"encoding/json"
	"fmt"
	"go/ast"
	"go/parser"
	"go/token"
	"os"
	"path/filepath"
	"sort"
	"strings"
	"unicode"

	"github.com/ogen-go/ogen"
	"github.com/ogen-go/ogen/gen"

	"verifharness/internal/lp"
)

// ---------------------------------------------------------------- collision stream (K12)

func verifDir() string {
	if d := os.Getenv("VERIF_DIR"); d != "" {
		return d
	}
	return "/verif"
}

// knownCases returns the "cases" table of a known-finding class from /verif/known_findings.json.
func knownCases(class string) map[string]bool {
	out := map[string]bool{}
	b, err := os.ReadFile(filepath.Join(verifDir(), "known_findings.json"))
	if err != nil {
		return out
	}
	var kf struct {
		Known []struct {
			Class string   `json:"class"`
			Cases []string `json:"cases"`
		} `json:"known"`
	}
	if json.Unmarshal(b, &kf) != nil {
		return out
	}
	for _, k := range kf.Known {
		if k.Class == class {
			for _, c := range k.Cases {
				out[c] = true
			}
		}
	}
	return out
}

var collisionPositions = []string{"component", "body-component", "error-component", "variant", "security-scheme", "property", "required-property", "nested-property", "query-parameter", "header-parameter", "cookie-parameter", "path-parameter", "response-header", "operationId", "enum-value", "operation-group", "server-name"}

// collisionDoc is one fixed, feature-rich document with the name at one position replaced.
func collisionDoc(pos, name string) []byte {
	n := map[string]string{}
	for _, p := range collisionPositions {
		n[p] = map[string]string{"component": "Item", "body-component": "Body", "error-component": "Err", "variant": "Cat", "security-scheme": "key", "property": "opt", "required-property": "req", "nested-property": "x", "query-parameter": "q", "header-parameter": "X-H", "cookie-parameter": "ck", "path-parameter": "id", "response-header": "X-Rate", "operationId": "doIt", "enum-value": "one", "operation-group": "", "server-name": "Prod"}[p]
	}
	n[pos] = name
	esc := func(s string) string { return strings.ReplaceAll(strings.ReplaceAll(s, "~", "~0"), "/", "~1") }
	ref := func(s string) map[string]any { return map[string]any{"$ref": "#/components/schemas/" + esc(s)} }
	str := map[string]any{"type": "string"}
	body := map[string]any{"type": "object", "required": []any{n["required-property"]}, "properties": map[string]any{
		n["required-property"]: str,
		n["property"]:          map[string]any{"type": "integer"},
		"nul":                  map[string]any{"type": "string", "nullable": true},
		"arr":                  map[string]any{"type": "array", "items": str, "minItems": 1},
		"f":                    map[string]any{"type": "number", "minimum": 0},
		"b":                    map[string]any{"type": "boolean"},
		"t":                    map[string]any{"type": "string", "format": "date-time"},
		"u":                    map[string]any{"type": "string", "format": "uuid"},
		"item":                 ref(n["component"]),
		"kind":                 map[string]any{"type": "string", "enum": []any{n["enum-value"], "two"}},
		"pet":                  map[string]any{"oneOf": []any{ref(n["variant"]), ref("Dog")}, "discriminator": map[string]any{"propertyName": "kind"}},
		"inner":                map[string]any{"type": "object", "properties": map[string]any{n["nested-property"]: map[string]any{"type": "integer"}}},
		"m":                    map[string]any{"type": "object", "additionalProperties": str},
		"s":                    map[string]any{"type": "string", "pattern": "^a+$", "maxLength": 10},
	}}
	pet := func() map[string]any {
		return map[string]any{"type": "object", "required": []any{"kind"}, "properties": map[string]any{"kind": str, "name": str}}
	}
	schemas := map[string]any{
		n["body-component"]:  body,
		n["component"]:       map[string]any{"type": "object", "properties": map[string]any{"v": str}},
		n["variant"]:         pet(),
		"Dog":                pet(),
		n["error-component"]: map[string]any{"type": "object", "required": []any{"code"}, "properties": map[string]any{"code": map[string]any{"type": "integer"}, "message": str}},
	}
	js := func(s string) map[string]any {
		return map[string]any{"application/json": map[string]any{"schema": ref(s)}}
	}
	op := map[string]any{
		"operationId": n["operationId"],
		"parameters": []any{
			map[string]any{"name": n["path-parameter"], "in": "path", "required": true, "schema": str},
			map[string]any{"name": n["query-parameter"], "in": "query", "schema": map[string]any{"type": "integer", "minimum": 1}},
			map[string]any{"name": "obj", "in": "query", "schema": map[string]any{"type": "object", "properties": map[string]any{"f": str, "g": map[string]any{"type": "integer"}}}},
			map[string]any{"name": n["header-parameter"], "in": "header", "schema": str},
			map[string]any{"name": n["cookie-parameter"], "in": "cookie", "schema": str},
		},
		"requestBody": map[string]any{"required": true, "content": js(n["body-component"])},
		"responses": map[string]any{
			"200":     map[string]any{"description": "ok", "headers": map[string]any{n["response-header"]: map[string]any{"schema": str}}, "content": js(n["body-component"])},
			"404":     map[string]any{"description": "nf", "content": js(n["error-component"])},
			"default": map[string]any{"description": "err", "content": js(n["error-component"])},
		},
		"security": []any{map[string]any{n["security-scheme"]: []any{}}},
	}
	if n["operation-group"] != "" {
		op["x-ogen-operation-group"] = n["operation-group"]
	}
	doc := map[string]any{
		"openapi": "3.0.3", "info": map[string]any{"title": "t", "version": "1"},
		"servers": []any{map[string]any{"url": "https://{region}.example.com", "x-ogen-server-name": n["server-name"], "variables": map[string]any{"region": map[string]any{"default": "eu", "enum": []any{"eu", "us"}}}}},
		"paths": map[string]any{
			"/things/{" + n["path-parameter"] + "}": map[string]any{"post": op},
			"/other": map[string]any{"get": map[string]any{"operationId": "other", "responses": map[string]any{
				"200":     map[string]any{"description": "ok", "content": js(n["component"])},
				"default": map[string]any{"description": "err", "content": js(n["error-component"])}}}},
		},
		"components": map[string]any{"schemas": schemas, "securitySchemes": map[string]any{n["security-scheme"]: map[string]any{"type": "apiKey", "in": "header", "name": "X-Key"}}},
	}
	b, err := json.Marshal(doc)
	if err != nil {
		panic(err)
	}
	return b
}

type declared struct {
	pkgLevel []string // exported package-level identifiers
	members  []string // exported methods and struct fields
	locals   []string // exported type names declared inside functions
}

// declaredIdentifiers generates the benign document with every feature and collects the identifiers the
// package declares — the candidate names of the collision stream come from the generator's own output.
func declaredIdentifiers() (*declared, error) {
	spec, err := ogen.Parse(collisionDoc("", ""))
	if err != nil {
		return nil, err
	}
	fs := gen.FeatureSet{}
	for _, f := range gen.AllFeatures {
		_ = fs.Enable(f.Name)
	}
	g, err := gen.NewGenerator(spec, gen.Options{Parser: gen.ParseOptions{InferSchemaType: true}, Generator: gen.GenerateOptions{Features: &gen.FeatureOptions{DisableAll: true, Enable: fs}}})
	if err != nil {
		return nil, err
	}
	mem := &memFS{keep: true}
	if err := g.WriteSource(mem, "api"); err != nil {
		return nil, err
	}
	pk, mb, lc := map[string]bool{}, map[string]bool{}, map[string]bool{}
	fset := token.NewFileSet()
	for name, content := range mem.files {
		f, err := parser.ParseFile(fset, name, content, 0)
		if err != nil {
			return nil, err
		}
		for _, d := range f.Decls {
			switch d := d.(type) {
			case *ast.FuncDecl:
				if d.Recv != nil {
					mb[d.Name.Name] = true
				} else {
					pk[d.Name.Name] = true
				}
				if d.Body != nil {
					ast.Inspect(d.Body, func(n ast.Node) bool {
						if ts, ok := n.(*ast.TypeSpec); ok {
							lc[ts.Name.Name] = true
						}
						return true
					})
				}
			case *ast.GenDecl:
				for _, sp := range d.Specs {
					switch sp := sp.(type) {
					case *ast.TypeSpec:
						pk[sp.Name.Name] = true
						if st, ok := sp.Type.(*ast.StructType); ok {
							for _, fl := range st.Fields.List {
								for _, n := range fl.Names {
									mb[n.Name] = true
								}
							}
						}
						if it, ok := sp.Type.(*ast.InterfaceType); ok {
							for _, fl := range it.Methods.List {
								for _, n := range fl.Names {
									mb[n.Name] = true
								}
							}
						}
					case *ast.ValueSpec:
						for _, n := range sp.Names {
							pk[n.Name] = true
						}
					}
				}
			}
		}
	}
	exported := func(m map[string]bool) []string {
		var out []string
		for k := range m {
			if r := []rune(k); len(r) > 0 && unicode.IsUpper(r[0]) {
				out = append(out, k)
			}
		}
		sort.Strings(out)
		return out
	}
	return &declared{pkgLevel: exported(pk), members: exported(mb), locals: exported(lc)}, nil
}

// predeclared and runtime-package names whose Pascal form meets generated wrappers (OptString, OptInt …)
var collisionExtra = []string{"string", "int", "int32", "int64", "float64", "float32", "bool", "error", "any", "time", "uuid", "url", "date", "dateTime", "duration", "nil", "null", "opt", "optNil", "type", "func", "ip", "uri", "json", "jx", "ht", "conv", "validate", "errors", "context", "http", "middleware", "otelogen", "trace", "metric", "Request", "Response", "Params", "Args", "Labeler", "Route", "Option", "Error", "ErrorStatusCode", "StatusCode", "Headers", "Value", "Set", "Null", "Type", "Name", "Items", "Elem", "Default", "Key", "Values"}

func collisionCandidates(d *declared, pos string) []string {
	set := map[string]bool{}
	addAll := func(xs []string) {
		for _, x := range xs {
			set[x] = true
		}
	}
	switch pos {
	case "component", "body-component", "error-component", "variant", "security-scheme", "operation-group", "server-name":
		addAll(d.pkgLevel)
		addAll(d.locals)
		addAll(collisionExtra)
		if pos == "server-name" {
			addAll([]string{"", "_", "__", "é", "日本語"}) // nothing nameable: the type is called just "Server"
		}
	case "property", "required-property", "nested-property", "query-parameter", "header-parameter", "cookie-parameter", "path-parameter", "response-header", "enum-value":
		addAll(d.members)
		addAll(d.locals)
		addAll(collisionExtra)
	case "operationId":
		addAll(d.members)
		addAll(d.pkgLevel)
		addAll(d.locals)
		addAll(collisionExtra)
	}
	out := make([]string, 0, len(set))
	for k := range set {
		out = append(out, k)
	}
	sort.Strings(out)
	return out
}

func c02CollisionJobs(r *lp.Run, rng *lp.Rand, add func(*c02Job)) {
	d, err := declaredIdentifiers()
	if err != nil {
		r.Fail(lp.PropFail{Property: "C02", What: "the generator refuses the benign document of the collision stream", Input: string(collisionDoc("", "")), Observed: err.Error(), Expected: "generated package"})
		return
	}
	known := knownCases("K12")
	total, taken := 0, 0
	add(&c02Job{label: "collision", what: "benign document", spec: collisionDoc("", ""), collide: "none"})
	for _, pos := range collisionPositions {
		for _, name := range collisionCandidates(d, pos) {
			total++
			key := pos + "=" + name
			// quick: every listed case, and a seed-dependent sample of the others
			if !r.Thorough() && !(known[key] && rng.Chance(25)) && !rng.Chance(4) {
				continue
			}
			taken++
			// the default feature set and every feature: some collisions exist under one of them only
			// (thorough: both; quick: one of them at random — the table lists a pair that fails under either)
			withAll := r.Thorough() || rng.Bool()
			if withAll {
				add(&c02Job{label: "collision", what: key, spec: collisionDoc(pos, name), collide: key, features: allFeatureNames()})
			}
			if r.Thorough() || !withAll {
				add(&c02Job{label: "collision", what: key, spec: collisionDoc(pos, name), collide: key})
			}
		}
	}
	r.Exhaustive("collision stream", map[string]any{"positions": len(collisionPositions), "package_level_identifiers": len(d.pkgLevel), "members": len(d.members), "local_types": len(d.locals), "position_x_name_pairs": total, "pairs_run": taken, "all_pairs": r.Thorough()})
}

// ---------------------------------------------------------------- response matrix

func responseDoc(rng *lp.Rand) ([]byte, string) {
	codes := []string{"200", "201", "204", "400", "404", "4XX", "5XX", "default"}
	kinds := []string{"none", "A", "B", "C", "text", "bytes", "A+text", "arrA", "string"}
	obj := func(p string) map[string]any {
		return map[string]any{"type": "object", "properties": map[string]any{p: map[string]any{"type": "string"}}}
	}
	paths := map[string]any{}
	var desc []string
	nops := 1 + rng.Intn(3)
	for o := 0; o < nops; o++ {
		resps := map[string]any{}
		var d []string
		for _, c := range codes {
			if !rng.Chance(45) {
				continue
			}
			k := lp.Pick(rng, kinds)
			r := map[string]any{"description": "r"}
			content := map[string]any{}
			ref := func(s string) map[string]any { return map[string]any{"$ref": "#/components/schemas/" + s} }
			switch k {
			case "A", "B", "C":
				content["application/json"] = map[string]any{"schema": ref(k)}
			case "text":
				content["text/plain"] = map[string]any{"schema": map[string]any{"type": "string"}}
			case "bytes":
				content["application/octet-stream"] = map[string]any{"schema": map[string]any{"type": "string", "format": "binary"}}
			case "A+text":
				content["application/json"] = map[string]any{"schema": ref("A")}
				content["text/plain"] = map[string]any{"schema": map[string]any{"type": "string"}}
			case "arrA":
				content["application/json"] = map[string]any{"schema": map[string]any{"type": "array", "items": ref("A")}}
			case "string":
				content["application/json"] = map[string]any{"schema": map[string]any{"type": "string"}}
			}
			if len(content) > 0 {
				r["content"] = content
			}
			hd := ""
			if rng.Chance(30) {
				r["headers"] = map[string]any{"X-A": map[string]any{"schema": map[string]any{"type": "string"}}}
				hd = "+h"
			}
			resps[c] = r
			d = append(d, c+":"+k+hd)
		}
		if len(resps) == 0 {
			resps["200"] = map[string]any{"description": "ok"}
			d = append(d, "200:none")
		}
		paths[fmt.Sprintf("/op%d", o)] = map[string]any{"get": map[string]any{"operationId": fmt.Sprintf("op%d", o), "responses": resps}}
		desc = append(desc, strings.Join(d, ","))
	}
	doc := map[string]any{"openapi": "3.0.3", "info": map[string]any{"title": "t", "version": "1"}, "paths": paths,
		"components": map[string]any{"schemas": map[string]any{"A": obj("a"), "B": obj("b"), "C": obj("c")}}}
	b, _ := json.Marshal(doc)
	return b, strings.Join(desc, " | ")
}
