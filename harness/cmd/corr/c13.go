package main

import (
	"encoding/hex"
	"fmt"
	"math"
	"net"
	"net/netip"
	"net/url"
	"regexp"
	"strconv"
	"strings"
	"sync"
	"time"

	"github.com/go-faster/jx"
	"github.com/google/uuid"
	"github.com/ogen-go/ogen/conv"
	ogenjson "github.com/ogen-go/ogen/json"

	"verifharness/internal/lp"
)

func init() { suites["c13"] = c13 }

var (
	reInt      = regexp.MustCompile(`^-?(0|[1-9][0-9]*)$`)
	reUint     = regexp.MustCompile(`^(0|[1-9][0-9]*)$`)
	reFloatF   = regexp.MustCompile(`^-?[0-9]+(\.[0-9]+)?$`)
	reFloatG   = regexp.MustCompile(`^-?[0-9]+(\.[0-9]+)?(e[+-][0-9]+)?$`)
	reBool     = regexp.MustCompile(`^(true|false)$`)
	reUUID     = regexp.MustCompile(`^[0-9a-f]{8}-[0-9a-f]{4}-[0-9a-f]{4}-[0-9a-f]{4}-[0-9a-f]{12}$`)
	reDate     = regexp.MustCompile(`^[0-9]{4}-[0-9]{2}-[0-9]{2}$`)
	reTime     = regexp.MustCompile(`^[0-9]{2}:[0-9]{2}:[0-9]{2}$`)
	reDateTime = regexp.MustCompile(`^[0-9]{4}-[0-9]{2}-[0-9]{2}T[0-9]{2}:[0-9]{2}:[0-9]{2}(\.[0-9]+)?(Z|[+-][0-9]{2}:[0-9]{2})$`)
	reMAC      = regexp.MustCompile(`^([0-9a-f]{2}:)+[0-9a-f]{2}$`)
	reDuration = regexp.MustCompile(`^-?(0s|([0-9]+h)?([0-9]+m)?([0-9]+(\.[0-9]+)?(s|ms|µs|ns))?)$`)
)

type c13ctx struct {
	r *lp.Run
}

func (c *c13ctx) fail(helper, what string, in any, obs, exp string) {
	c.r.Fail(lp.PropFail{Property: "C13", What: helper + ": " + what, Input: in, Observed: obs, Expected: exp})
}

// rt checks one value through a text helper pair: dec(enc(v)) == v and enc(v) in the format's syntax.
func rt[T any](c *c13ctx, helper string, enc func(T) string, dec func(string) (T, error), v T, eq func(a, b T) bool, syntax *regexp.Regexp, show func(T) string) {
	c.r.PropCheck()
	var s string
	out := lp.Guard(func() string {
		s = enc(v)
		g, err := dec(s)
		if err != nil {
			return "err: " + err.Error()
		}
		if !eq(g, v) {
			return "different: " + show(g)
		}
		return "same"
	})
	c.r.Count(helper+" "+show(v), helper, true)
	if out != "same" {
		c.fail(helper, "text does not parse back to the same value", map[string]string{"value": show(v), "text": s}, out, "same value")
		return
	}
	if syntax != nil && !syntax.MatchString(s) {
		c.fail(helper, "text is not in the format's syntax", map[string]string{"value": show(v), "text": s}, s, syntax.String())
	}
}

func rtJSON[T any](c *c13ctx, helper string, enc func(*jx.Encoder, T), dec func(*jx.Decoder) (T, error), v T, eq func(a, b T) bool, syntax *regexp.Regexp, show func(T) string) {
	rt(c, helper, func(v T) string {
		var e jx.Encoder
		enc(&e, v)
		return string(e.Bytes())
	}, func(s string) (T, error) {
		return dec(jx.DecodeStr(s))
	}, v, eq, syntax, show)
}

func eqv[T comparable](a, b T) bool { return a == b }
func shw[T any](v T) string         { return fmt.Sprint(v) }

func quoted(re *regexp.Regexp) *regexp.Regexp {
	s := re.String()
	return regexp.MustCompile(`^"` + s[1:len(s)-1] + `"$`)
}

func c13(r *lp.Run) {
	r.SetRule("every conv.XToString/ToX pair and every json.EncodeX/DecodeX pair: exhaustive 8- and 16-bit integers and booleans; boundary (0, ±1, min, max, powers of two and ten ±1) + random 32/64-bit integers; random float bit patterns + shortest-decimal edge cases (1e-11, 0.1+0.2, 5e-324, max, 2^53±1, -0); random instants over years 0–9999 in several zones; random UUID / IPv4 / IPv6 / MAC (6, 8, 20 bytes) / URL; durations (boundaries + random at every magnitude). Integer formatting and parsing are also compared with the Lean model of strconv (IntRT) line by line, the parser on hostile strings. non-trivial = distinct (helper, value)")
	c := &c13ctx{r: r}
	rng := r.Rng.Fork(13)
	c13Generated(r)
	c13Unix(r, r.Rng.Fork(1301))

	// ---- integers: exhaustive small widths ----
	for v := math.MinInt16; v <= math.MaxInt16; v++ {
		x := int16(v)
		rt(c, "conv.Int16", conv.Int16ToString, conv.ToInt16, x, eqv[int16], reInt, shw[int16])
		rt(c, "conv.StringInt16", conv.StringInt16ToString, conv.ToStringInt16, x, eqv[int16], reInt, shw[int16])
		rtJSON(c, "json.StringInt16", ogenjson.EncodeStringInt16, ogenjson.DecodeStringInt16, x, eqv[int16], quoted(reInt), shw[int16])
		if v >= math.MinInt8 && v <= math.MaxInt8 {
			y := int8(v)
			rt(c, "conv.Int8", conv.Int8ToString, conv.ToInt8, y, eqv[int8], reInt, shw[int8])
			rt(c, "conv.StringInt8", conv.StringInt8ToString, conv.ToStringInt8, y, eqv[int8], reInt, shw[int8])
			rtJSON(c, "json.StringInt8", ogenjson.EncodeStringInt8, ogenjson.DecodeStringInt8, y, eqv[int8], quoted(reInt), shw[int8])
		}
	}
	for v := 0; v <= math.MaxUint16; v++ {
		x := uint16(v)
		rt(c, "conv.Uint16", conv.Uint16ToString, conv.ToUint16, x, eqv[uint16], reUint, shw[uint16])
		rt(c, "conv.StringUint16", conv.StringUint16ToString, conv.ToStringUint16, x, eqv[uint16], reUint, shw[uint16])
		rtJSON(c, "json.StringUint16", ogenjson.EncodeStringUint16, ogenjson.DecodeStringUint16, x, eqv[uint16], quoted(reUint), shw[uint16])
		if v <= math.MaxUint8 {
			y := uint8(v)
			rt(c, "conv.Uint8", conv.Uint8ToString, conv.ToUint8, y, eqv[uint8], reUint, shw[uint8])
			rt(c, "conv.StringUint8", conv.StringUint8ToString, conv.ToStringUint8, y, eqv[uint8], reUint, shw[uint8])
			rtJSON(c, "json.StringUint8", ogenjson.EncodeStringUint8, ogenjson.DecodeStringUint8, y, eqv[uint8], quoted(reUint), shw[uint8])
		}
	}
	for _, b := range []bool{false, true} {
		rt(c, "conv.Bool", conv.BoolToString, conv.ToBool, b, eqv[bool], reBool, shw[bool])
	}
	r.Exhaustive("8- and 16-bit integers, booleans", "every value through every conv/json helper pair of that width")

	// ---- wider integers: boundaries + random ----
	var i64s []int64
	for _, b := range []int64{0, 1, -1, math.MaxInt64, math.MinInt64, math.MaxInt32, math.MinInt32, math.MaxInt32 + 1, math.MinInt32 - 1, 1 << 53, 1<<53 + 1} {
		i64s = append(i64s, b)
	}
	for p := int64(1); p > 0 && p < math.MaxInt64/10; p *= 10 {
		i64s = append(i64s, p, p-1, -p, -p+1)
	}
	for s := uint(0); s < 63; s++ {
		i64s = append(i64s, 1<<s, (1<<s)-1, -(1 << s))
	}
	n := r.N(20000, 400000)
	for i := 0; i < n; i++ {
		v := int64(rng.Uint64())
		if i%3 == 0 {
			v >>= uint(rng.Intn(64))
		}
		i64s = append(i64s, v)
	}
	for _, v := range i64s {
		rt(c, "conv.Int64", conv.Int64ToString, conv.ToInt64, v, eqv[int64], reInt, shw[int64])
		rt(c, "conv.StringInt64", conv.StringInt64ToString, conv.ToStringInt64, v, eqv[int64], reInt, shw[int64])
		rtJSON(c, "json.StringInt64", ogenjson.EncodeStringInt64, ogenjson.DecodeStringInt64, v, eqv[int64], quoted(reInt), shw[int64])
		rt(c, "conv.Int", conv.IntToString, conv.ToInt, int(v), eqv[int], reInt, shw[int])
		rt(c, "conv.StringInt", conv.StringIntToString, conv.ToStringInt, int(v), eqv[int], reInt, shw[int])
		rtJSON(c, "json.StringInt", ogenjson.EncodeStringInt, ogenjson.DecodeStringInt, int(v), eqv[int], quoted(reInt), shw[int])
		w := int32(v)
		rt(c, "conv.Int32", conv.Int32ToString, conv.ToInt32, w, eqv[int32], reInt, shw[int32])
		rt(c, "conv.StringInt32", conv.StringInt32ToString, conv.ToStringInt32, w, eqv[int32], reInt, shw[int32])
		rtJSON(c, "json.StringInt32", ogenjson.EncodeStringInt32, ogenjson.DecodeStringInt32, w, eqv[int32], quoted(reInt), shw[int32])
		u := uint64(v)
		rt(c, "conv.Uint64", conv.Uint64ToString, conv.ToUint64, u, eqv[uint64], reUint, shw[uint64])
		rt(c, "conv.StringUint64", conv.StringUint64ToString, conv.ToStringUint64, u, eqv[uint64], reUint, shw[uint64])
		rtJSON(c, "json.StringUint64", ogenjson.EncodeStringUint64, ogenjson.DecodeStringUint64, u, eqv[uint64], quoted(reUint), shw[uint64])
		rt(c, "conv.Uint", conv.UintToString, conv.ToUint, uint(u), eqv[uint], reUint, shw[uint])
		rt(c, "conv.StringUint", conv.StringUintToString, conv.ToStringUint, uint(u), eqv[uint], reUint, shw[uint])
		rtJSON(c, "json.StringUint", ogenjson.EncodeStringUint, ogenjson.DecodeStringUint, uint(u), eqv[uint], quoted(reUint), shw[uint])
		u32 := uint32(u)
		rt(c, "conv.Uint32", conv.Uint32ToString, conv.ToUint32, u32, eqv[uint32], reUint, shw[uint32])
		rt(c, "conv.StringUint32", conv.StringUint32ToString, conv.ToStringUint32, u32, eqv[uint32], reUint, shw[uint32])
		rtJSON(c, "json.StringUint32", ogenjson.EncodeStringUint32, ogenjson.DecodeStringUint32, u32, eqv[uint32], quoted(reUint), shw[uint32])
	}
	c13IntModel(r, rng, i64s)

	// ---- floats ----
	f64s := []float64{0, math.Copysign(0, -1), 1, -1, 0.1, 0.2, 0.1 + 0.2, 1e-11, 1.5e-10, 5e-324, math.MaxFloat64, math.SmallestNonzeroFloat64, 1 << 53, 1<<53 + 2, 1e21, 1e20, 1e-7, 123456789.123456789, 0.3, 1.0000000000000002, 9007199254740993, 1e300, 1e-300, 4.35, 2.675, 1e23, 8.41e21}
	nf := r.N(40000, 1000000)
	for i := 0; i < nf; i++ {
		f := math.Float64frombits(rng.Uint64())
		if i%4 == 0 { // moderate magnitudes
			f = float64(int64(rng.Uint64()>>uint(rng.Intn(60)))) / math.Pow(10, float64(rng.Intn(12)))
		}
		f64s = append(f64s, f)
	}
	eqF64 := func(a, b float64) bool { return math.Float64bits(a) == math.Float64bits(b) }
	eqF32 := func(a, b float32) bool { return math.Float32bits(a) == math.Float32bits(b) }
	shF64 := func(v float64) string { return fmt.Sprintf("%v (bits %016x)", v, math.Float64bits(v)) }
	shF32 := func(v float32) string { return fmt.Sprintf("%v (bits %08x)", v, math.Float32bits(v)) }
	for i, f := range f64s {
		if math.IsNaN(f) || math.IsInf(f, 0) {
			continue
		}
		rt(c, "conv.Float64", conv.Float64ToString, conv.ToFloat64, f, eqF64, reFloatF, shF64)
		rt(c, "conv.StringFloat64", conv.StringFloat64ToString, conv.ToStringFloat64, f, eqF64, reFloatG, shF64)
		rtJSON(c, "json.StringFloat64", ogenjson.EncodeStringFloat64, ogenjson.DecodeStringFloat64, f, eqF64, quoted(reFloatG), shF64)
		g := float32(f)
		if i%2 == 1 {
			g = math.Float32frombits(uint32(math.Float64bits(f)))
		}
		if math.IsNaN(float64(g)) || math.IsInf(float64(g), 0) {
			continue
		}
		rt(c, "conv.Float32", conv.Float32ToString, conv.ToFloat32, g, eqF32, reFloatF, shF32)
		rt(c, "conv.StringFloat32", conv.StringFloat32ToString, conv.ToStringFloat32, g, eqF32, reFloatG, shF32)
		rtJSON(c, "json.StringFloat32", ogenjson.EncodeStringFloat32, ogenjson.DecodeStringFloat32, g, eqF32, quoted(reFloatG), shF32)
	}

	// float32 values whose shortest text, read as a float64 first and narrowed afterwards, lands on a neighbour
	// (double rounding); the whole float32 domain in the thorough tier
	for _, bits := range []uint32{0x15ae43fd, 0x95ae43fd, 0x00000001, 0x007fffff, 0x00800000, 0x7f7fffff, 0x3f800001, 0x33800000, 0x4b800000} {
		g := math.Float32frombits(bits)
		rt(c, "conv.Float32", conv.Float32ToString, conv.ToFloat32, g, eqF32, reFloatF, shF32)
		rt(c, "conv.StringFloat32", conv.StringFloat32ToString, conv.ToStringFloat32, g, eqF32, reFloatG, shF32)
		rtJSON(c, "json.StringFloat32", ogenjson.EncodeStringFloat32, ogenjson.DecodeStringFloat32, g, eqF32, quoted(reFloatG), shF32)
	}
	if r.Thorough() {
		var mu sync.Mutex
		var wg sync.WaitGroup
		bad := []uint32{}
		const W = 16
		for w := 0; w < W; w++ {
			wg.Add(1)
			go func(w int) {
				defer wg.Done()
				for hi := w; hi < 1<<16; hi += W {
					for lo := 0; lo < 1<<16; lo++ {
						bits := uint32(hi)<<16 | uint32(lo)
						g := math.Float32frombits(bits)
						if g != g || math.IsInf(float64(g), 0) {
							continue
						}
						back, err := conv.ToFloat32(conv.Float32ToString(g))
						back2, err2 := conv.ToStringFloat32(conv.StringFloat32ToString(g))
						if err != nil || err2 != nil || math.Float32bits(back) != bits || math.Float32bits(back2) != bits {
							mu.Lock()
							if len(bad) < 5 {
								bad = append(bad, bits)
							}
							mu.Unlock()
						}
					}
				}
			}(w)
		}
		wg.Wait()
		r.Exhaustive("float32 text round trip", map[string]any{"values": "all 2^32 bit patterns (NaN and infinities skipped)", "helpers": "conv.Float32ToString/ToFloat32, conv.StringFloat32ToString/ToStringFloat32"})
		r.PropCheck()
		for _, b := range bad {
			r.Fail(lp.PropFail{Property: "C13", What: "a float32 does not parse back from its text", Input: fmt.Sprintf("bits %08x = %v", b, math.Float32frombits(b)), Observed: conv.Float32ToString(math.Float32frombits(b)), Expected: "the same value"})
		}
	}

	// ---- durations ----
	durs := []time.Duration{math.MinInt64, math.MaxInt64, 0, 1, -1, 999, 1000, 1001, 999999, 1e6, 1e6 + 1, 1e9 - 1, 1e9, 1e9 + 1, 60e9, 60e9 - 1, 3600e9, 3600e9 + 1, 2540400*time.Hour + 10*time.Minute + 10*time.Second}
	nd := r.N(30000, 600000)
	for i := 0; i < nd; i++ {
		durs = append(durs, time.Duration(int64(rng.Uint64())>>uint(rng.Intn(64))))
	}
	for _, d := range durs {
		rt(c, "conv.Duration", conv.DurationToString, conv.ToDuration, d, eqv[time.Duration], reDuration, func(d time.Duration) string { return strconv.FormatInt(int64(d), 10) + "ns" })
		rtJSON(c, "json.Duration", ogenjson.EncodeDuration, ogenjson.DecodeDuration, d, eqv[time.Duration], quoted(reDuration), func(d time.Duration) string { return strconv.FormatInt(int64(d), 10) + "ns" })
		c.r.PropCheck()
		var e jx.Encoder
		ogenjson.EncodeDuration(&e, d)
		if string(e.Bytes()) != `"`+d.String()+`"` {
			c.fail("json.Duration", "formatDuration differs from time.Duration.String", int64(d), string(e.Bytes()), d.String())
		}
	}

	// ---- time formats ----
	zones := []*time.Location{time.UTC, time.FixedZone("", 3600), time.FixedZone("", -5*3600-1800), time.FixedZone("", 14*3600)}
	nt := r.N(30000, 500000)
	eqInstant := func(unit time.Duration) func(a, b time.Time) bool {
		return func(a, b time.Time) bool { return a.Equal(b.Truncate(unit)) }
	}
	shT := func(t time.Time) string { return t.Format(time.RFC3339Nano) }
	for i := 0; i < nt; i++ {
		// instants across years 0..9999
		sec := int64(rng.Uint64()%(253402300800+62167219200)) - 62167219200
		nsec := int64(rng.Uint64() % 1e9)
		if i%5 == 0 {
			nsec = 0
		}
		t := time.Unix(sec, nsec).In(lp.Pick(rng, zones))
		if y := t.Year(); y < 0 || y > 9999 {
			continue
		}
		rt(c, "conv.DateTime", conv.DateTimeToString, conv.ToDateTime, t, eqInstant(time.Second), reDateTime, shT)
		rtJSON(c, "json.DateTime", ogenjson.EncodeDateTime, ogenjson.DecodeDateTime, t, eqInstant(time.Second), quoted(reDateTime), shT)
		eqDate := func(a, b time.Time) bool {
			y1, m1, d1 := a.Date()
			y2, m2, d2 := b.Date()
			return y1 == y2 && m1 == m2 && d1 == d2
		}
		rt(c, "conv.Date", conv.DateToString, conv.ToDate, t, eqDate, reDate, shT)
		rtJSON(c, "json.Date", ogenjson.EncodeDate, ogenjson.DecodeDate, t, eqDate, quoted(reDate), shT)
		eqClock := func(a, b time.Time) bool {
			h1, m1, s1 := a.Clock()
			h2, m2, s2 := b.Clock()
			return h1 == h2 && m1 == m2 && s1 == s2
		}
		rt(c, "conv.Time", conv.TimeToString, conv.ToTime, t, eqClock, reTime, shT)
		rtJSON(c, "json.Time", ogenjson.EncodeTime, ogenjson.DecodeTime, t, eqClock, quoted(reTime), shT)
		// unix timestamps (wider range for the coarse units)
		u := t
		if i%2 == 0 {
			u = time.Unix(int64(rng.Uint64())>>uint(24+rng.Intn(30)), nsec)
		}
		rt(c, "conv.UnixSeconds", conv.UnixSecondsToString, conv.ToUnixSeconds, u, eqInstant(time.Second), reInt, shT)
		rt(c, "conv.UnixMilli", conv.UnixMilliToString, conv.ToUnixMilli, u, eqInstant(time.Millisecond), reInt, shT)
		rt(c, "conv.UnixMicro", conv.UnixMicroToString, conv.ToUnixMicro, u, eqInstant(time.Microsecond), reInt, shT)
		rtJSON(c, "json.UnixSeconds", ogenjson.EncodeUnixSeconds, ogenjson.DecodeUnixSeconds, u, eqInstant(time.Second), reInt, shT)
		rtJSON(c, "json.UnixMilli", ogenjson.EncodeUnixMilli, ogenjson.DecodeUnixMilli, u, eqInstant(time.Millisecond), reInt, shT)
		rtJSON(c, "json.UnixMicro", ogenjson.EncodeUnixMicro, ogenjson.DecodeUnixMicro, u, eqInstant(time.Microsecond), reInt, shT)
		rtJSON(c, "json.StringUnixSeconds", ogenjson.EncodeStringUnixSeconds, ogenjson.DecodeStringUnixSeconds, u, eqInstant(time.Second), quoted(reInt), shT)
		rtJSON(c, "json.StringUnixMilli", ogenjson.EncodeStringUnixMilli, ogenjson.DecodeStringUnixMilli, u, eqInstant(time.Millisecond), quoted(reInt), shT)
		rtJSON(c, "json.StringUnixMicro", ogenjson.EncodeStringUnixMicro, ogenjson.DecodeStringUnixMicro, u, eqInstant(time.Microsecond), quoted(reInt), shT)
		// nanoseconds: representable range of int64 nanoseconds
		ns := time.Unix(0, int64(rng.Uint64())>>uint(rng.Intn(40)))
		rt(c, "conv.UnixNano", conv.UnixNanoToString, conv.ToUnixNano, ns, eqInstant(time.Nanosecond), reInt, shT)
		rtJSON(c, "json.UnixNano", ogenjson.EncodeUnixNano, ogenjson.DecodeUnixNano, ns, eqInstant(time.Nanosecond), reInt, shT)
		rtJSON(c, "json.StringUnixNano", ogenjson.EncodeStringUnixNano, ogenjson.DecodeStringUnixNano, ns, eqInstant(time.Nanosecond), quoted(reInt), shT)
	}

	// ---- UUID text against the Lean model of json.hexEncode / the 36-byte branch of uuid.ParseBytes ----
	{
		enc := func(u uuid.UUID) string {
			return lp.Guard(func() string {
				e := &jx.Encoder{}
				ogenjson.EncodeUUID(e, u)
				b := e.Bytes()
				if len(b) < 2 || b[0] != '"' || b[len(b)-1] != '"' {
					return "not-quoted:" + hex.EncodeToString(b)
				}
				return hex.EncodeToString(b[1 : len(b)-1])
			})
		}
		// every byte value at every octet position, then random values
		for pos := 0; pos < 16; pos++ {
			for v := 0; v < 256; v++ {
				var u uuid.UUID
				for j := range u {
					u[j] = byte(0x11 * j)
				}
				u[pos] = byte(v)
				r.Case("uuidfmt", hex.EncodeToString(u[:]), enc(u), "uuidfmt", true)
				if got := hex.EncodeToString([]byte(conv.UUIDToString(u))); got != enc(u) {
					r.Fail(lp.PropFail{Property: "C13", What: "conv.UUIDToString and json.EncodeUUID write different texts", Input: hex.EncodeToString(u[:]), Observed: got, Expected: enc(u)})
				}
			}
		}
		r.Exhaustive("uuid octet × position", map[string]any{"positions": 16, "values": 256})
		for i := 0; i < r.N(3000, 50000); i++ {
			var u uuid.UUID
			for j := range u {
				u[j] = byte(rng.Uint64())
			}
			r.Case("uuidfmt", hex.EncodeToString(u[:]), enc(u), "uuidfmt", true)
			// parser: the canonical text, and one-byte mutants of it (other case, non-digits, moved hyphens)
			text := []byte(u.String())
			for k := 0; k < 3; k++ {
				m := append([]byte(nil), text...)
				if k > 0 {
					m[rng.Intn(36)] = lp.Pick(rng, []byte("0123456789abcdefABCDEFgG-_ xX/:@`"))
				}
				out := "err"
				if v, err := uuid.ParseBytes(m); err == nil {
					out = "ok:" + hex.EncodeToString(v[:])
				}
				d := jx.DecodeStr(`"` + string(m) + `"`)
				if strings.IndexByte(string(m), '"') < 0 && strings.IndexByte(string(m), '\\') < 0 {
					jv, jerr := ogenjson.DecodeUUID(d)
					jout := "err"
					if jerr == nil {
						jout = "ok:" + hex.EncodeToString(jv[:])
					}
					if jout != out {
						r.Fail(lp.PropFail{Property: "C13", What: "json.DecodeUUID and uuid.ParseBytes disagree on a 36-byte text", Input: string(m), Observed: jout, Expected: out})
					}
				}
				r.Case("uuidparse", hex.EncodeToString(m), out, "uuidparse:"+out[:2], true)
			}
		}
	}

	// ---- duration text against the Lean model of json.formatDuration and the documented reading of a text ----
	{
		encDur := func(d time.Duration) string {
			return lp.Guard(func() string {
				e := &jx.Encoder{}
				ogenjson.EncodeDuration(e, d)
				b := e.Bytes()
				if len(b) < 2 || b[0] != '"' || b[len(b)-1] != '"' {
					return "not-quoted:" + hex.EncodeToString(b)
				}
				return hex.EncodeToString(b[1 : len(b)-1])
			})
		}
		var ds []int64
		for _, b := range []int64{0, 1, 999, 1000, 1001, 999999, 1000000, 1000001, 999999999, 1000000000, 1000000001, 59999999999, 60000000000, 60000000001,
			3599999999999, 3600000000000, 3600000000001, 1500000, 1050000000, 90000000000, 5400000000000, 100000000, 10, 100, 1010, 1100, 1000100,
			math.MaxInt64, math.MaxInt64 - 1, math.MinInt64, math.MinInt64 + 1} {
			ds = append(ds, b, -b)
		}
		for i := 0; i < r.N(6000, 100000); i++ {
			mag := uint(rng.Intn(64))
			v := int64(rng.Uint64() >> (63 - mag))
			if rng.Chance(40) {
				// round values: few significant digits
				p := int64(1)
				for k := rng.Intn(18); k > 0; k-- {
					p *= 10
				}
				v = int64(rng.Intn(1000)) * p
			}
			if rng.Bool() {
				v = -v
			}
			ds = append(ds, v)
		}
		termRe := regexp.MustCompile(`^([0-9]*)(?:\.([0-9]*))?(ns|us|µs|μs|ms|s|m|h)`)
		maxFrac := map[string]int{"ns": 0, "us": 3, "µs": 3, "μs": 3, "ms": 6, "s": 9, "m": 9, "h": 9}
		within := func(text string) bool {
			// the domain on which the exact reading and time.ParseDuration are comparable: time.ParseDuration
			// computes a fraction in float64 (`f * (unit/scale)`), which is exact as long as the fraction has no
			// more digits than the unit has decimal places below it; integer parts of at most 15 digits
			t := strings.TrimLeft(text, "+-")
			for len(t) > 0 {
				m := termRe.FindStringSubmatch(t)
				if m == nil {
					return true // not a duration text at all: both sides refuse it
				}
				if len(m[1]) > 15 || len(m[2]) > maxFrac[m[3]] {
					return false
				}
				t = t[len(m[0]):]
			}
			return true
		}
		for _, v := range ds {
			d := time.Duration(v)
			text := encDur(d)
			r.Case("durfmt", strconv.FormatInt(v, 10), text, "durfmt", true)
			if got := hex.EncodeToString([]byte(conv.DurationToString(d))); got != text {
				r.Fail(lp.PropFail{Property: "C13", What: "json.EncodeDuration and conv.DurationToString write different texts", Input: v, Observed: text, Expected: got})
			}
			plain := d.String()
			for k := 0; k < 3; k++ {
				m := []byte(plain)
				if k > 0 && len(m) > 0 {
					switch rng.Intn(3) {
					case 0:
						m[rng.Intn(len(m))] = lp.Pick(rng, []byte("0123456789.hmsnu-+ "))
					case 1:
						j := rng.Intn(len(m) + 1)
						m = append(m[:j], append([]byte{lp.Pick(rng, []byte("0123456789.hmsnu"))}, m[j:]...)...)
					default:
						j := rng.Intn(len(m))
						m = append(m[:j], m[j+1:]...)
					}
				}
				if !within(string(m)) {
					continue
				}
				out := "err"
				if pv, err := time.ParseDuration(string(m)); err == nil {
					out = "ok:" + strconv.FormatInt(int64(pv), 10)
				}
				r.Case("durval", hex.EncodeToString(m), out, "durval:"+out[:2], true)
			}
		}
	}

	// ---- UUID, IP, MAC, URL ----
	ni := r.N(20000, 300000)
	for i := 0; i < ni; i++ {
		var u uuid.UUID
		for j := range u {
			u[j] = byte(rng.Uint64())
		}
		if i < 3 {
			u = [][16]byte{{}, {0xff, 0xff, 0xff, 0xff, 0xff, 0xff, 0xff, 0xff, 0xff, 0xff, 0xff, 0xff, 0xff, 0xff, 0xff, 0xff}, {0, 1, 2, 3, 4, 5, 6, 7, 8, 9, 10, 11, 12, 13, 14, 15}}[i]
		}
		rt(c, "conv.UUID", conv.UUIDToString, conv.ToUUID, u, eqv[uuid.UUID], reUUID, shw[uuid.UUID])
		rtJSON(c, "json.UUID", ogenjson.EncodeUUID, ogenjson.DecodeUUID, u, eqv[uuid.UUID], quoted(reUUID), shw[uuid.UUID])
		var a4 [4]byte
		var a16 [16]byte
		for j := range a16 {
			a16[j] = byte(rng.Uint64())
			if rng.Chance(30) {
				a16[j] = 0
			}
		}
		copy(a4[:], a16[:4])
		ip4, ip6 := netip.AddrFrom4(a4), netip.AddrFrom16(a16)
		eqAddr := func(a, b netip.Addr) bool { return a == b }
		rt(c, "conv.Addr(v4)", conv.AddrToString, conv.ToAddr, ip4, eqAddr, regexp.MustCompile(`^[0-9]{1,3}(\.[0-9]{1,3}){3}$`), shw[netip.Addr])
		rt(c, "conv.Addr(v6)", conv.AddrToString, conv.ToAddr, ip6, eqAddr, nil, shw[netip.Addr])
		rtJSON(c, "json.IP(v4)", ogenjson.EncodeIP, ogenjson.DecodeIP, ip4, eqAddr, nil, shw[netip.Addr])
		rtJSON(c, "json.IP(v6)", ogenjson.EncodeIP, ogenjson.DecodeIP, ip6, eqAddr, nil, shw[netip.Addr])
		rtJSON(c, "json.IPv4", ogenjson.EncodeIPv4, ogenjson.DecodeIPv4, ip4, eqAddr, nil, shw[netip.Addr])
		// special forms first: IPv4-mapped and IPv4-translated addresses, unspecified, loopback, a zone
		if sp := []string{"::ffff:192.0.2.1", "::ffff:0.0.0.0", "::ffff:255.255.255.255", "64:ff9b::192.0.2.33", "::", "::1", "fe80::1%eth0", "::ffff:0:0", "::1.2.3.4", "2001:db8::", "ff02::1"}; i < len(sp) {
			ip6 = netip.MustParseAddr(sp[i])
		} else if i%16 == 0 {
			ip6 = netip.AddrFrom16([16]byte{10: 0xff, 11: 0xff, 12: a16[12], 13: a16[13], 14: a16[14], 15: a16[15]})
		}
		rtJSON(c, "json.IPv6", ogenjson.EncodeIPv6, ogenjson.DecodeIPv6, ip6, eqAddr, nil, shw[netip.Addr])
		rtJSON(c, "json.IP(v6 special)", ogenjson.EncodeIP, ogenjson.DecodeIP, ip6, eqAddr, nil, shw[netip.Addr])
		rt(c, "conv.Addr(v6 special)", conv.AddrToString, conv.ToAddr, ip6, eqAddr, nil, shw[netip.Addr])
		mac := make(net.HardwareAddr, []int{6, 8, 20}[i%3])
		for j := range mac {
			mac[j] = byte(rng.Uint64())
		}
		eqMAC := func(a, b net.HardwareAddr) bool { return a.String() == b.String() && len(a) == len(b) }
		rt(c, "conv.MAC", conv.MACToString, conv.ToMAC, mac, eqMAC, reMAC, shw[net.HardwareAddr])
		rtJSON(c, "json.MAC", ogenjson.EncodeMAC, ogenjson.DecodeMAC, mac, eqMAC, quoted(reMAC), shw[net.HardwareAddr])
		// URLs from components
		u0 := url.URL{Scheme: lp.Pick(rng, []string{"http", "https", "ftp"}), Host: lp.Pick(rng, []string{"example.com", "h:8080", "[::1]:80", "a.b"}),
			Path: lp.Pick(rng, []string{"", "/", "/a b", "/a/b", "/é", "/a%2Fb", "/x;y"}), RawQuery: lp.Pick(rng, []string{"", "q=1", "a=b&c=d", "x=%20", "q=\"ogen\"", "path=C:\\new", "a=\\\"b", "j={\"k\":1}"}), Fragment: lp.Pick(rng, []string{"", "frag", "a b", "q\"r", "b\\s"})}
		if rng.Chance(20) {
			u0.User = url.UserPassword("u", "p w")
		}
		eqURL := func(a, b url.URL) bool { return a.String() == b.String() }
		rt(c, "conv.URL", conv.URLToString, conv.ToURL, u0, eqURL, nil, func(u url.URL) string { return u.String() })
		rtJSON(c, "json.URI", ogenjson.EncodeURI, ogenjson.DecodeURI, u0, eqURL, nil, func(u url.URL) string { return u.String() })
	}
}

// integer text vs the Lean model of strconv.FormatInt/ParseInt/ParseUint (IntRT)
func c13IntModel(r *lp.Run, rng *lp.Rand, vals []int64) {
	for i, v := range vals {
		if i > 40000 {
			break
		}
		r.Case("ifmt", strconv.FormatInt(v, 10), lp.Hex([]byte(conv.Int64ToString(v))), "ifmt", false)
		r.Case("ufmt", strconv.FormatUint(uint64(v), 10), lp.Hex([]byte(conv.Uint64ToString(uint64(v)))), "ufmt", false)
	}
	hostile := []string{"", "-", "+", "+5", "-0", "+0", "007", "-007", "1_0", " 1", "1 ", "0x10", "1e3", "1.0", "٣", "--1", "+-1", "127", "128", "-128", "-129", "255", "256", "32767", "32768", "-32768", "-32769", "65535", "65536",
		"2147483647", "2147483648", "-2147483648", "-2147483649", "4294967295", "4294967296", "9223372036854775807", "9223372036854775808", "-9223372036854775808", "-9223372036854775809", "18446744073709551615", "18446744073709551616", "99999999999999999999999", "00000000000000000000000000001"}
	n := r.N(20000, 300000)
	for i := 0; i < n; i++ {
		l := rng.Intn(22)
		b := make([]byte, l)
		for j := range b {
			if rng.Chance(90) {
				b[j] = byte('0' + rng.Intn(10))
			} else {
				b[j] = lp.Pick(rng, []byte("-+_ .e"))
			}
		}
		if l > 0 && rng.Chance(30) {
			b[0] = lp.Pick(rng, []byte("-+"))
		}
		hostile = append(hostile, string(b))
	}
	one := func(tag string, bits int, signed bool, s string, f func() (string, error)) {
		out := lp.Guard(func() string {
			v, err := f()
			if err != nil {
				return "err"
			}
			return v
		})
		sg := "u"
		if signed {
			sg = "s"
		}
		r.Case("iparse", fmt.Sprintf("%d %s %s", bits, sg, lp.Hex([]byte(s))), out, tag+":"+map[bool]string{true: "err", false: "ok"}[out == "err"], out != "err")
	}
	for _, s := range hostile {
		s := s
		one("ToInt8", 8, true, s, func() (string, error) { v, e := conv.ToInt8(s); return fmt.Sprint(v), e })
		one("ToInt16", 16, true, s, func() (string, error) { v, e := conv.ToInt16(s); return fmt.Sprint(v), e })
		one("ToInt32", 32, true, s, func() (string, error) { v, e := conv.ToInt32(s); return fmt.Sprint(v), e })
		one("ToInt64", 64, true, s, func() (string, error) { v, e := conv.ToInt64(s); return fmt.Sprint(v), e })
		one("ToInt", 64, true, s, func() (string, error) { v, e := conv.ToInt(s); return fmt.Sprint(v), e })
		one("ToUint8", 8, false, s, func() (string, error) { v, e := conv.ToUint8(s); return fmt.Sprint(v), e })
		one("ToUint16", 16, false, s, func() (string, error) { v, e := conv.ToUint16(s); return fmt.Sprint(v), e })
		one("ToUint32", 32, false, s, func() (string, error) { v, e := conv.ToUint32(s); return fmt.Sprint(v), e })
		one("ToUint64", 64, false, s, func() (string, error) { v, e := conv.ToUint64(s); return fmt.Sprint(v), e })
		one("ToUint", 64, false, s, func() (string, error) { v, e := conv.ToUint(s); return fmt.Sprint(v), e })
		one("ToStringInt32", 32, true, s, func() (string, error) { v, e := conv.ToStringInt32(s); return fmt.Sprint(v), e })
		one("ToStringUint16", 16, false, s, func() (string, error) { v, e := conv.ToStringUint16(s); return fmt.Sprint(v), e })
	}
	for _, s := range []string{"true", "false", "1", "0", "t", "f", "T", "F", "TRUE", "FALSE", "True", "False", "yes", "", "tRUE", " true"} {
		s := s
		out := lp.Guard(func() string {
			v, err := conv.ToBool(s)
			if err != nil {
				return "err"
			}
			return fmt.Sprint(v)
		})
		r.Case("bparse", lp.Hex([]byte(s)), out, "ToBool", true)
	}
}
