package main

import (
	"fmt"
	"net/url"

	"github.com/ogen-go/ogen/location"
	"strconv"
	"strings"

	"github.com/go-faster/yaml"
	"github.com/ogen-go/ogen/jsonpointer"

	"verifharness/internal/lp"
)

func init() { suites["c16"] = c16 }

type pnode struct {
	kind string // scalar, map, seq
	keys []string
	kids []*pnode
	id   int
	y    *yaml.Node
}

var ptrNames = []string{"", "a", "0", "1", "01", "-", "~", "/", "~0", "~1", "a/b", "m~n", "%", "%25", "a b", "é", "#", "00", "+1", " ", "~01", "~10", "10", "2", "%2F", "a%", "?", "18446744073709551616"}

type ptrGen struct {
	rng     *lp.Rand
	counter int
	byY     map[*yaml.Node]*pnode
}

func (g *ptrGen) gen(depth int, dupKeys bool) *pnode {
	g.counter++
	n := &pnode{id: g.counter}
	r := g.rng
	if depth == 0 || r.Intn(4) == 0 {
		n.kind = "scalar"
		return n
	}
	if r.Bool() {
		n.kind = "map"
		k := r.Intn(5)
		seen := map[string]bool{}
		for i := 0; i < k; i++ {
			name := lp.Pick(r, ptrNames)
			if seen[name] && !dupKeys {
				continue
			}
			seen[name] = true
			n.keys = append(n.keys, name)
			n.kids = append(n.kids, g.gen(depth-1, dupKeys))
		}
		return n
	}
	n.kind = "seq"
	k := r.Intn(5)
	if r.Intn(12) == 0 {
		k = 11 + r.Intn(3) // two-digit indices
	}
	for i := 0; i < k; i++ {
		d := depth - 1
		if k > 5 {
			d = 0
		}
		n.kids = append(n.kids, g.gen(d, dupKeys))
	}
	return n
}

func (g *ptrGen) toYAML(n *pnode) *yaml.Node {
	var y *yaml.Node
	switch n.kind {
	case "scalar":
		y = &yaml.Node{Kind: yaml.ScalarNode, Tag: "!!int", Value: strconv.Itoa(n.id)}
	case "map":
		y = &yaml.Node{Kind: yaml.MappingNode, Tag: "!!map"}
		for i, k := range n.keys {
			y.Content = append(y.Content, &yaml.Node{Kind: yaml.ScalarNode, Tag: "!!str", Value: k}, g.toYAML(n.kids[i]))
		}
	default:
		y = &yaml.Node{Kind: yaml.SequenceNode, Tag: "!!seq"}
		for _, k := range n.kids {
			y.Content = append(y.Content, g.toYAML(k))
		}
	}
	n.y = y
	g.byY[y] = n
	return y
}

// ---- independent RFC 6901 reference (node identity) ----

func rfcPlain(ptr string, n *pnode) (*pnode, bool) {
	if ptr == "" {
		return n, true
	}
	if ptr[0] != '/' {
		return nil, false
	}
	for _, tok := range strings.Split(ptr[1:], "/") {
		for i := 0; i < len(tok); i++ {
			if tok[i] == '~' {
				if i+1 >= len(tok) || (tok[i+1] != '0' && tok[i+1] != '1') {
					return nil, false
				}
				i++
			}
		}
		tok = strings.ReplaceAll(strings.ReplaceAll(tok, "~1", "/"), "~0", "~")
		switch n.kind {
		case "map":
			found := false
			for i, k := range n.keys {
				if k == tok {
					n = n.kids[i]
					found = true
					break
				}
			}
			if !found {
				return nil, false
			}
		case "seq":
			if tok == "" || (len(tok) > 1 && tok[0] == '0') {
				return nil, false
			}
			for _, c := range []byte(tok) {
				if c < '0' || c > '9' {
					return nil, false
				}
			}
			idx, err := strconv.ParseUint(tok, 10, 64)
			if err != nil || idx >= uint64(len(n.kids)) {
				return nil, false
			}
			n = n.kids[idx]
		default:
			return nil, false
		}
	}
	return n, true
}

func refPct(s string) (string, bool) {
	var sb strings.Builder
	for i := 0; i < len(s); {
		if s[i] != '%' {
			sb.WriteByte(s[i])
			i++
			continue
		}
		if i+2 >= len(s) {
			return "", false
		}
		h, ok1 := refHex(s[i+1])
		l, ok2 := refHex(s[i+2])
		if !ok1 || !ok2 {
			return "", false
		}
		sb.WriteByte(h<<4 | l)
		i += 3
	}
	return sb.String(), true
}

// rfcAny: "", "/…" plain; "#…" fragment (percent-decoded, then plain); anything else is a URI
// reference whose fragment is the pointer (modelled on the Go side only, through net/url).
func rfcAny(ptr string, n *pnode) (res *pnode, ok bool, modelled bool) {
	switch {
	case ptr == "" || ptr[0] == '/':
		r, ok := rfcPlain(ptr, n)
		return r, ok, true
	case ptr[0] == '#':
		d, ok := refPct(ptr[1:])
		if !ok {
			return nil, false, true
		}
		r, ok := rfcPlain(d, n)
		return r, ok, true
	}
	u, err := url.Parse(ptr)
	if err != nil {
		return nil, false, false
	}
	r, ok := rfcPlain(u.Fragment, n)
	return r, ok, false
}

func escTok(tok string) string {
	return strings.ReplaceAll(strings.ReplaceAll(tok, "~", "~0"), "/", "~1")
}

func allPtrs(n *pnode, prefix string, out *[]string) {
	*out = append(*out, prefix)
	switch n.kind {
	case "map":
		for i, k := range n.keys {
			allPtrs(n.kids[i], prefix+"/"+escTok(k), out)
		}
	case "seq":
		for i, k := range n.kids {
			allPtrs(k, prefix+"/"+strconv.Itoa(i), out)
		}
	}
}

func fragSpelling(rng *lp.Rand, p string) string {
	var sb strings.Builder
	sb.WriteByte('#')
	for i := 0; i < len(p); i++ {
		c := p[i]
		safe := c >= 'a' && c <= 'z' || c >= 'A' && c <= 'Z' || c >= '0' && c <= '9' || c == '/' || c == '~' || c == '-' || c == '_' || c == '.'
		if !safe || rng.Chance(15) {
			if rng.Bool() {
				fmt.Fprintf(&sb, "%%%02X", c)
			} else {
				fmt.Fprintf(&sb, "%%%02x", c)
			}
		} else {
			sb.WriteByte(c)
		}
	}
	return sb.String()
}

func ptrMutants(p string) []string {
	var out []string
	alpha := []string{"0", "1", "~", "/", "a", "-", "%", "+", " ", "2", "#"}
	for i := 0; i <= len(p); i++ {
		for _, a := range alpha {
			out = append(out, p[:i]+a+p[i:])
		}
		if i < len(p) {
			out = append(out, p[:i]+p[i+1:])
		}
	}
	return out
}

func treeToks(n *pnode, sb *strings.Builder) {
	switch n.kind {
	case "scalar":
		fmt.Fprintf(sb, "s%d ", n.id)
	case "map":
		fmt.Fprintf(sb, "m%d ", len(n.keys))
		for i, k := range n.keys {
			fmt.Fprintf(sb, "k%x ", k)
			treeToks(n.kids[i], sb)
		}
	default:
		fmt.Fprintf(sb, "q%d ", len(n.kids))
		for _, k := range n.kids {
			treeToks(k, sb)
		}
	}
}

func describeP(n *pnode) string {
	switch n.kind {
	case "scalar":
		return "s" + strconv.Itoa(n.id)
	case "map":
		parts := make([]string, len(n.keys))
		for i, k := range n.keys {
			parts[i] = fmt.Sprintf("k%x %s", k, describeP(n.kids[i]))
		}
		return fmt.Sprintf("m%d(%s)", len(n.keys), strings.Join(parts, " "))
	default:
		parts := make([]string, len(n.kids))
		for i, k := range n.kids {
			parts[i] = describeP(k)
		}
		return fmt.Sprintf("q%d(%s)", len(n.kids), strings.Join(parts, " "))
	}
}

func c16(r *lp.Run) {
	r.SetRule("random trees (depth ≤ 3, member names from an adversarial list: empty, numeric-looking, ~, /, %, escapes, duplicates in a separate stream; arrays up to 13 items); for each tree every valid pointer to every node in plain and in #-fragment spelling (random extra percent-escapes), all single-edit mutants of the plain and fragment spellings, random strings, and URI-reference forms (file#fragment; implementation vs reference only); non-trivial = distinct (tree, pointer) with at least one reference token")
	rng := r.Rng.Fork(16)
	// the resolver's shortcut through the decoded components map: references to components whose names are
	// made of the characters of "#/components/<kind>/", or extend a sibling's name
	refVariants(r, r.Rng.Fork(1601), "C16", r.N(150, 3000), "components renamed (names made of the prefix's characters, dotted and prefixed sibling names)", "components moved under an extension key of the same document (components keeps decoys of the same names)")
	trees := r.N(400, 6000)
	g := &ptrGen{rng: rng, byY: map[*yaml.Node]*pnode{}}
	for t := 0; t < trees; t++ {
		g.counter = 0
		g.byY = map[*yaml.Node]*pnode{}
		dup := t%7 == 6
		root := g.gen(3, dup)
		y := g.toYAML(root)
		doc := y
		if t%5 == 0 { // wrapped in a document node, as the YAML parser delivers it
			doc = &yaml.Node{Kind: yaml.DocumentNode, Content: []*yaml.Node{y}}
		}
		var tsb strings.Builder
		treeToks(root, &tsb)
		var ptrs []string
		allPtrs(root, "", &ptrs)
		seen := map[string]bool{}
		var cases []string
		add := func(p string) {
			if !seen[p] {
				seen[p] = true
				cases = append(cases, p)
			}
		}
		for _, p := range ptrs {
			add(p)
			f := fragSpelling(rng, p)
			add(f)
			for _, m := range ptrMutants(p) {
				add(m)
			}
			if rng.Chance(30) {
				for _, m := range ptrMutants(f) {
					add(m)
				}
			}
			c16Key(r, g, root, doc, tsb.String(), f)
			add("other.json#" + f[1:])
			add("http://h/x.yml#" + f[1:])
		}
		for i := 0; i < 20; i++ {
			l := rng.Intn(8)
			b := make([]byte, l)
			for j := range b {
				b[j] = lp.Pick(rng, []byte("/~01a#%2F-"))
			}
			add(string(b))
		}
		add("other.json")
		for _, p := range cases {
			c16One(r, g, root, doc, tsb.String(), p, dup)
		}
	}
	for _, o := range corpusObjs("C16") {
		_ = o
	}
}

func c16One(r *lp.Run, g *ptrGen, root *pnode, doc *yaml.Node, toks, p string, dup bool) {
	var got *yaml.Node
	out := lp.Guard(func() string {
		n, err := jsonpointer.Resolve(p, doc)
		if err != nil {
			return "err"
		}
		got = n
		pn := g.byY[n]
		if pn == nil {
			return "ok <foreign node>"
		}
		return "ok " + describeP(pn)
	})
	want, ok, modelled := rfcAny(p, root)
	branch := "err"
	if strings.HasPrefix(out, "ok") {
		branch = "ok"
	}
	form := "plain"
	if p != "" && p[0] == '#' {
		form = "frag"
	} else if !modelled {
		form = "uriref"
	}
	nontrivial := strings.Contains(p, "/")
	if modelled {
		r.Case("ptr", toks+"| "+lp.Hex([]byte(p)), out, form+":"+branch, nontrivial)
	} else {
		r.Count("ptr-uriref "+toks+p, form+":"+branch, nontrivial)
	}
	r.SizeN("tokens", strings.Count(p, "/"))
	// the property's predicate on the implementation: node identity against the reference
	r.PropCheck()
	fail := func(what, obs, exp string) {
		r.Fail(lp.PropFail{Property: "C16", What: what, Input: map[string]string{"tree": toks, "pointer": p, "pointer_hex": lp.Hex([]byte(p))}, Observed: obs, Expected: exp})
	}
	switch {
	case out == "panic":
		fail("Resolve panics", out, "node or error")
	case ok && out == "err":
		fail("RFC 6901 designates a node but Resolve reports an error", out, "ok "+describeP(want))
	case !ok && out != "err":
		fail("Resolve returns a node for a pointer that designates none", out, "err")
	case ok && g.byY[got] != want:
		fail("Resolve returns a different node", out, "ok "+describeP(want))
	}
}

// reference keys: the pointer part of a reference that is resolved in the context of another document
// (jsonpointer.ResolveCtx.Key: an external `ext.json#…` reference at the top level, and a local `#…` reference met
// while another reference is being resolved) must designate the node the fragment designates
func c16Key(r *lp.Run, g *ptrGen, root *pnode, doc *yaml.Node, toks, frag string) {
	if frag == "" || frag[0] != '#' {
		return
	}
	want, ok, modelled := rfcAny(frag, root)
	if !modelled {
		return
	}
	for _, mode := range []string{"external", "nested-local"} {
		var got *yaml.Node
		var keyPtr string
		out := lp.Guard(func() string {
			ctx := jsonpointer.NewResolveCtx(&url.URL{Scheme: "file", Path: "/spec/root.json"}, 100)
			ref := "ext.json" + frag
			if mode == "nested-local" {
				if err := ctx.AddKey(jsonpointer.RefKey{Loc: "file:///spec/ext.json", Ptr: "#"}, location.File{}); err != nil {
					return "err addkey"
				}
				ref = frag
			}
			key, err := ctx.Key(ref)
			if err != nil {
				return "err key"
			}
			keyPtr = key.Ptr
			n, err := jsonpointer.Resolve(key.Ptr, doc)
			if err != nil {
				return "err"
			}
			got = n
			if pn := g.byY[n]; pn != nil {
				return "ok " + describeP(pn)
			}
			return "ok <foreign node>"
		})
		branch := "err"
		if strings.HasPrefix(out, "ok") {
			branch = "ok"
		}
		r.Count("refkey "+mode+toks+frag, "refkey:"+mode+":"+branch, strings.Contains(frag, "%"))
		r.PropCheck()
		fail := func(what, obs, exp string) {
			r.Fail(lp.PropFail{Property: "C16", What: what, Input: map[string]string{"tree": toks, "reference": mode + " " + frag, "key_pointer": keyPtr}, Observed: obs, Expected: exp})
		}
		switch {
		case strings.Contains(out, "panic"):
			fail("building or resolving a reference key panics", out, "node or error")
		case ok && strings.HasPrefix(out, "err"):
			fail("the fragment of a reference designates a node but resolution through the reference key reports an error", out, "ok "+describeP(want))
		case !ok && branch == "ok":
			fail("resolution through the reference key returns a node for a fragment that designates none", out, "err")
		case ok && g.byY[got] != want:
			fail("resolution through the reference key returns a different node than the fragment designates", out, "ok "+describeP(want))
		}
	}
}
