package main

import (
	"bytes"
	"encoding/json"
	goerrors "errors"
	"fmt"
	"go/token"
	"os"
	"os/exec"
	"path/filepath"
	"regexp"
	"runtime/debug"
	"sort"
	"strconv"
	"strings"
	"sync"
	"time"
	"unicode"
	"unicode/utf8"

	"github.com/go-faster/yaml"

	"github.com/ogen-go/ogen"
	"github.com/ogen-go/ogen/gen"
	"github.com/ogen-go/ogen/gen/ir"
	"github.com/ogen-go/ogen/gen/genfs"
	"github.com/ogen-go/ogen/location"

	"verifharness/internal/gc"
	"verifharness/internal/lp"
)

func init() { suites["c02"] = c02 }

func c02(r *lp.Run) {
	r.SetRule("(1) name synthesis (gen.pascal / pascalSpecial / cleanSpecial through the verif hook) against the Lean model NameGen on every Unicode scalar value as a one-rune name (tier quick: all of U+0000–U+2FFF plus every rune whose case mapping is not the identity) and on random hostile names (quotes, backslashes, newlines, keywords, rule words in odd case, digits first, İ/K); on the implementation: a produced name is a Go identifier, no keyword, made of letters and digits only, and an error happens only when nothing nameable is in the input. (2) the type store (saveType / saveRef / saveWType / merge through the verif hook) against the Lean model TStore on random operation sequences. (3) compile matrix: code is regenerated in-process by /repo's generator into a scratch module that replaces github.com/ogen-go/ogen with /repo and is built with `go build ./...` and type-checked including test files with `go vet -asmdecl ./...`: corpus specs (_testdata/positive, _testdata/examples) with default features, feature matrix (pairwise covering array over the 11 features x ConvenientErrors auto/off; thorough: also random subsets) on feature-rich corpus specs, hostile-name documents (hostile strings at property, parameter, operationId, enum value, default, pattern, description, header, security scheme, server variable, discriminator, component-name and object-parameter-field positions, colliding names), corpus specs with hostile single-node mutations, random schema documents. A document is either refused with a diagnostic that is not ErrGoFormat (and not a panic), or every file written builds. non-trivial = distinct document x configuration that the generator accepts")
	c02Names(r, r.Rng.Fork(0x201))
	c02TStore(r, r.Rng.Fork(0x202))
	c02Compile(r, r.Rng.Fork(0x203))
}

// ---------------------------------------------------------------- names

func cpsHex(s []rune) string {
	if len(s) == 0 {
		return "-"
	}
	parts := make([]string, len(s))
	for i, c := range s {
		parts[i] = fmt.Sprintf("%x", c)
	}
	return strings.Join(parts, ",")
}

var goKeywordsAndPredeclared = func() map[string]bool {
	m := map[string]bool{}
	for _, k := range []string{"break", "case", "chan", "const", "continue", "default", "defer", "else", "fallthrough", "for", "func", "go", "goto", "if", "import", "interface", "map", "package", "range", "return", "select", "struct", "switch", "type", "var"} {
		m[k] = true
	}
	return m
}()

func c02NameOne(r *lp.Run, mode string, src []rune, what string) {
	var out string
	var err error
	s := string(src)
	res := lp.Guard(func() string {
		switch mode {
		case "pascal":
			out, err = gen.VerifPascal(s)
		case "pascalSpecial":
			out, err = gen.VerifPascalSpecial(s)
		case "cleanSpecial":
			out = gen.VerifCleanSpecial(s)
		}
		if err != nil {
			return "err"
		}
		return "ok:" + cpsHex([]rune(out))
	})
	branch := "name:" + mode + ":" + strings.SplitN(res, ":", 2)[0]
	r.Case("namegen", mode+" "+cpsHex(src), res, branch, len(src) > 1)
	// the property's own predicate, on the implementation
	r.PropCheck()
	in := map[string]any{"mode": mode, "name": s, "code_points": cpsHex(src), "what": what}
	if res == "panic" {
		r.Fail(lp.PropFail{Property: "C02", What: "name synthesis panics", Input: in, Observed: "panic", Expected: "a name or an error"})
		return
	}
	nameable := false
	for _, c := range src {
		l := unicode.ToLower(c)
		if (l >= 'a' && l <= 'z') || (l >= '0' && l <= '9') {
			nameable = true
		}
		if mode != "pascal" && strings.ContainsRune("+-/<>=.", c) {
			nameable = true
		}
	}
	if mode == "cleanSpecial" {
		for _, c := range out {
			if !(unicode.IsLetter(c) || unicode.IsDigit(c)) {
				r.Fail(lp.PropFail{Property: "C02", What: "cleanSpecial lets a character through that is neither letter nor digit", Input: in, Observed: out, Expected: "letters and digits only"})
				return
			}
		}
		return
	}
	if err != nil {
		if nameable {
			r.Fail(lp.PropFail{Property: "C02", What: "name synthesis fails although the input has a nameable character", Input: in, Observed: err.Error(), Expected: "an identifier"})
		}
		return
	}
	if !nameable {
		r.Fail(lp.PropFail{Property: "C02", What: "name synthesis succeeds on an input with nothing nameable", Input: in, Observed: out, Expected: "an error"})
		return
	}
	if !token.IsIdentifier(out) || goKeywordsAndPredeclared[out] || !utf8.ValidString(out) {
		r.Fail(lp.PropFail{Property: "C02", What: "synthesised name is not a Go identifier", Input: in, Observed: out, Expected: "identifier that is no keyword"})
		return
	}
	for _, c := range out {
		if !(unicode.IsLetter(c) || unicode.IsDigit(c)) {
			r.Fail(lp.PropFail{Property: "C02", What: "synthesised name contains a character that is neither letter nor digit", Input: in, Observed: out, Expected: "letters and digits only"})
			return
		}
	}
	first, _ := utf8.DecodeRuneInString(out)
	if first >= 'a' && first <= 'z' {
		r.Fail(lp.PropFail{Property: "C02", What: "synthesised exported name starts with a lower-case letter", Input: in, Observed: out, Expected: "upper-case, R-prefixed or non-ASCII first character"})
	}
}

var nameAlphabet = []string{"a", "b", "Z", "i", "d", "I", "D", "0", "9", "1", " ", "-", "_", "+", "/", "<", ">", "=", ".", "\"", "\\", "\n", "`", "'", "*", "{", "}", "é", "İ", "K", "ß", "日", "😀", "\x00", "\t", "$", "%", "id", "ID", "Id", "url", "oauth", "oAuth2", "uuid", "2fa", "sha256", "func", "type", "go", "nil", "http", "Https", "ıd", "ſ"}

func c02Names(r *lp.Run, rng *lp.Rand) {
	// T-exh: every scalar value as a one-rune name
	n := 0
	for c := rune(0); c <= unicode.MaxRune; c++ {
		if c >= 0xD800 && c <= 0xDFFF {
			continue
		}
		if !r.Thorough() && c >= 0x3000 && unicode.ToLower(c) == c && unicode.ToUpper(c) == c {
			continue
		}
		c02NameOne(r, "pascal", []rune{c}, "single rune")
		if c < 0x3000 {
			c02NameOne(r, "pascalSpecial", []rune{c}, "single rune")
			c02NameOne(r, "cleanSpecial", []rune{c}, "single rune")
		}
		// after a letter (no upper-casing) and before one
		if c < 0x3000 || unicode.ToLower(c) != c || unicode.ToUpper(c) != c {
			c02NameOne(r, "pascal", []rune{'a', c, 'b'}, "rune between letters")
		}
		n++
	}
	r.Exhaustive("one-rune names", map[string]any{"runes": n, "all_scalar_values": r.Thorough()})
	for i := 0; i < r.N(4000, 60000); i++ {
		k := rng.Intn(7)
		var sb strings.Builder
		for j := 0; j < k; j++ {
			sb.WriteString(lp.Pick(rng, nameAlphabet))
		}
		mode := lp.Pick(rng, []string{"pascal", "pascalSpecial", "cleanSpecial"})
		c02NameOne(r, mode, []rune(sb.String()), "random hostile name")
		r.SizeN("name-pieces-", k)
	}
}

// ---------------------------------------------------------------- type store

func c02TStore(r *lp.Run, rng *lp.Rand) {
	names := []string{"A", "B", "C", "OptA", "OptB"}
	refs := []string{"r1", "r2", "r3"}
	for i := 0; i < r.N(1500, 30000); i++ {
		k := 1 + rng.Intn(8)
		var ops []gen.VerifTSOp
		var words []string
		for j := 0; j < k; j++ {
			op := gen.VerifTSOp{Name: lp.Pick(rng, names), Generic: rng.Chance(35), Base: rng.Intn(2), ID: j + 1}
			switch rng.Intn(10) {
			case 0, 1, 2, 3:
				op.Op = "type"
			case 4, 5:
				op.Op = "ref"
				op.Ref = lp.Pick(rng, refs)
			case 6:
				op.Op = "wtype"
				op.Ref = lp.Pick(rng, refs)
			case 7:
				op.Op = "ltype" // into the local store that a later merge brings in
			case 8:
				op.Op = "lref"
				op.Ref = lp.Pick(rng, refs)
			default:
				op.Op = "merge"
			}
			if strings.HasPrefix(op.Name, "Opt") != op.Generic && op.Op != "merge" {
				// generic types are the Opt* ones in the generator; keep most cases realistic
				if rng.Chance(80) {
					op.Generic = strings.HasPrefix(op.Name, "Opt")
				}
			}
			ops = append(ops, op)
			g := 0
			if op.Generic {
				g = 1
			}
			ref := op.Ref
			if ref == "" {
				ref = "-"
			}
			words = append(words, fmt.Sprintf("%s:%s:%d:%d:%s:%d", op.Op, op.Name, g, op.Base, ref, op.ID))
		}
		var res string
		out := lp.Guard(func() string {
			res = gen.VerifTStorageRun(ops)
			return res
		})
		r.Case("tstore", strings.Join(words, " "), out, "tstore:"+fmt.Sprint(strings.Count(out, "err")), true)
		r.SizeN("tstore-ops-", k)
	}
}

// ---------------------------------------------------------------- compile matrix

type c02Job struct {
	pkg      string
	label    string // stream
	what     string
	spec     []byte
	specFile string
	features []string // nil: defaults
	convErr  int
	file     string // file name handed to the parser (remote refs)
	dir      string
	pairs    []string // hostile stream: the position=name choices made
	twin     []byte   // K13: the same document with control characters removed from names
	collide  string   // K12: "position=name" of the collision stream
	aliases  map[string]string // GenerateOptions.ContentTypeAliases
	// results
	outcome string // ok rejected unparsable panic timeout
	msg     string
	tests   bool
}

func (j *c02Job) input() map[string]any {
	in := map[string]any{"stream": j.label, "what": j.what, "convenient_errors": map[int]string{-1: "off", 0: "auto", 1: "on"}[j.convErr], "infer_types": true, "ignore_not_implemented": "all"}
	if j.features != nil {
		in["features_enabled_exactly"] = j.features
	} else {
		in["features"] = "default"
	}
	if j.specFile != "" {
		in["spec_file"] = j.specFile
	}
	if j.aliases != nil {
		in["content_type_aliases"] = j.aliases
	}
	if j.specFile == "" || j.label == "corpus-mutation" {
		d := string(j.spec)
		if len(d) > 6000 {
			d = d[:6000] + fmt.Sprintf("…(%d bytes)", len(j.spec))
		}
		in["document"] = d
	}
	return in
}

func c02Generate(j *c02Job, root string) {
	done := make(chan struct{})
	go func() {
		defer close(done)
		defer func() {
			if rec := recover(); rec != nil {
				j.outcome, j.msg = "panic", fmt.Sprint(rec)+"\n"+firstOgenFrame(string(debug.Stack()))
			}
		}()
		spec, err := ogen.Parse(j.spec)
		if err != nil {
			j.outcome, j.msg = "rejected", "parse: "+err.Error()
			return
		}
		opts := gen.Options{
			Parser:    gen.ParseOptions{InferSchemaType: true},
			Generator: gen.GenerateOptions{IgnoreNotImplemented: []string{"all"}, ConvenientErrors: gen.ConvenientErrors(j.convErr)},
		}
		if j.file != "" {
			opts.Parser.File = location.NewFile(j.file, j.file, j.spec)
		}
		if j.aliases != nil {
			opts.Generator.ContentTypeAliases = gen.ContentTypeAliases{}
			for k, v := range j.aliases {
				opts.Generator.ContentTypeAliases[k] = ir.Encoding(v)
			}
		}
		if j.features != nil {
			fs := gen.FeatureSet{}
			for _, f := range j.features {
				if err := fs.Enable(f); err != nil {
					panic(err)
				}
			}
			opts.Generator.Features = &gen.FeatureOptions{DisableAll: true, Enable: fs}
		}
		g, err := gen.NewGenerator(spec, opts)
		if err != nil {
			j.outcome, j.msg = "rejected", "generate: "+err.Error()
			return
		}
		dir := filepath.Join(root, j.pkg)
		if err := os.MkdirAll(dir, 0o755); err != nil {
			panic(err)
		}
		if err := g.WriteSource(genfs.FormattedSource{Root: dir}, j.pkg); err != nil {
			os.RemoveAll(dir)
			var gf *gen.ErrGoFormat
			if goerrors.As(err, &gf) {
				j.outcome, j.msg = "unparsable", err.Error()
				return
			}
			j.outcome, j.msg = "rejected", "write: "+err.Error()
			return
		}
		j.dir = dir
		if m, _ := filepath.Glob(filepath.Join(dir, "*_test.go")); len(m) > 0 {
			j.tests = true
		}
		j.outcome = "ok"
	}()
	select {
	case <-done:
	case <-time.After(120 * time.Second):
		j.outcome, j.msg = "timeout", "generation did not finish in 120 s"
	}
}

func firstOgenFrame(st string) string {
	lines := strings.Split(st, "\n")
	for i, l := range lines {
		if strings.Contains(l, "github.com/ogen-go/ogen") && !strings.Contains(l, "verifharness") && !strings.Contains(l, "cmd/corr") && i+1 < len(lines) {
			return strings.TrimSpace(l) + " " + strings.TrimSpace(lines[i+1])
		}
	}
	return ""
}

func allFeatureNames() []string {
	var out []string
	for _, f := range gen.AllFeatures {
		out = append(out, f.Name)
	}
	sort.Strings(out)
	return out
}

// pairwise covering array over the features plus one extra binary factor, greedily from the seed
func c02Covering(rng *lp.Rand, nf int) [][]bool {
	type pair struct{ i, j, vi, vj int }
	need := map[pair]bool{}
	for i := 0; i < nf; i++ {
		for j := i + 1; j < nf; j++ {
			for v := 0; v < 4; v++ {
				need[pair{i, j, v & 1, v >> 1}] = true
			}
		}
	}
	var rows [][]bool
	// all-on and all-off first
	for _, v := range []bool{true, false} {
		row := make([]bool, nf)
		for i := range row {
			row[i] = v
		}
		rows = append(rows, row)
	}
	cover := func(row []bool, apply bool) int {
		c := 0
		for i := 0; i < nf; i++ {
			for j := i + 1; j < nf; j++ {
				p := pair{i, j, b2i(row[i]), b2i(row[j])}
				if need[p] {
					c++
					if apply {
						delete(need, p)
					}
				}
			}
		}
		return c
	}
	for _, row := range rows {
		cover(row, true)
	}
	for len(need) > 0 {
		var best []bool
		bc := -1
		for t := 0; t < 40; t++ {
			row := make([]bool, nf)
			for i := range row {
				row[i] = rng.Bool()
			}
			if c := cover(row, false); c > bc {
				best, bc = row, c
			}
		}
		cover(best, true)
		rows = append(rows, best)
	}
	return rows
}

func b2i(b bool) int {
	if b {
		return 1
	}
	return 0
}

func c02Compile(r *lp.Run, rng *lp.Rand) {
	repo := os.Getenv("VERIF_REPO")
	if repo == "" {
		repo = "/repo"
	}
	scratch := os.Getenv("VERIF_SCRATCH")
	if scratch == "" {
		scratch = "/var/tmp"
	}
	mod, err := gc.NewModule(filepath.Join(scratch, fmt.Sprintf("gc-c02-%d", os.Getpid())))
	if err != nil {
		panic(err)
	}
	defer os.RemoveAll(mod.Dir)

	c02K12 = knownCases("K12")
	var jobs []*c02Job
	add := func(j *c02Job) {
		j.pkg = fmt.Sprintf("p%04d", len(jobs))
		jobs = append(jobs, j)
	}

	// --- corpus, default features
	var files []string
	for _, pat := range []string{"_testdata/positive/*.json", "_testdata/positive/*.yml", "_testdata/positive/*.yaml", "_testdata/positive/convenient_errors/*", "_testdata/examples/*.json", "_testdata/examples/*.yml", "_testdata/examples/autorest/*.json", "_testdata/examples/redoc/*.json"} {
		m, _ := filepath.Glob(filepath.Join(repo, pat))
		files = append(files, m...)
	}
	sort.Strings(files)
	limit := int64(r.N(70000, 800000))
	corpus := map[string][]byte{}
	for _, f := range files {
		st, err := os.Stat(f)
		if err != nil || st.Size() == 0 || st.Size() > limit || strings.HasSuffix(f, "file_reference.yml") {
			continue
		}
		data, err := os.ReadFile(f)
		if err != nil {
			continue
		}
		rel, _ := filepath.Rel(repo, f)
		corpus[rel] = data
		ce := 0
		if strings.Contains(rel, "convenient_errors") {
			ce = 1
		}
		add(&c02Job{label: "corpus", what: rel, spec: data, specFile: rel, convErr: ce, file: filepath.Base(f)})
	}

	// --- feature matrix
	feats := allFeatureNames()
	rows := c02Covering(rng, len(feats)+1)
	if r.Thorough() {
		for i := 0; i < 12; i++ {
			row := make([]bool, len(feats)+1)
			for k := range row {
				row[k] = rng.Bool()
			}
			rows = append(rows, row)
		}
	}
	matrixSpecs := []string{"_testdata/positive/webhooks.json", "_testdata/positive/security.json", "_testdata/positive/form.json", "_testdata/positive/parameters.json", "_testdata/positive/http_responses.json", "_testdata/examples/petstore-expanded.yml", "_testdata/positive/client_options.json", "_testdata/positive/servers.json"}
	if r.Thorough() {
		matrixSpecs = append(matrixSpecs, "_testdata/positive/sample.json", "_testdata/examples/ent.json", "_testdata/positive/http_requests.json", "_testdata/positive/anyOf.json", "_testdata/positive/allOf.yml")
	}
	for si, ms := range matrixSpecs {
		data, err := os.ReadFile(filepath.Join(repo, ms))
		if err != nil {
			r.Note("matrix spec missing: " + ms)
			continue
		}
		for ri, row := range rows {
			// quick: every spec sees a third of the rows (rotating), thorough: all
			if !r.Thorough() && (ri+si)%3 != int(r.Seed%3) && ri >= 2 {
				continue
			}
			fl := []string{}
			for k, f := range feats {
				if row[k] {
					fl = append(fl, f)
				}
			}
			ce := 0
			if row[len(feats)] {
				ce = -1
			}
			add(&c02Job{label: "feature-matrix", what: ms, spec: data, specFile: ms, features: fl, convErr: ce, file: filepath.Base(ms)})
		}
	}
	r.Exhaustive("feature pairs", map[string]any{"features": len(feats), "covering_rows": len(rows), "all_pairs_of_on_off_values_covered": true})

	// --- hostile names
	for i := 0; i < r.N(60, 700); i++ {
		fork := rng.Uint64()
		doc, what, ctl := hostileDoc(lp.NewRand(fork), false)
		fl := []string(nil)
		if rng.Chance(30) {
			fl = append(append([]string{}, feats...))
		}
		j := &c02Job{label: "hostile-names", what: what, spec: doc, features: fl, pairs: hostilePairs(what)}
		if ctl {
			j.twin, _, _ = hostileDoc(lp.NewRand(fork), true)
		}
		add(j)
	}
	// the recorded classes first (corpus of past failures)
	for _, o := range corpusObjs("C02") {
		if d, ok := o["document"].(string); ok {
			for _, ce := range []int{0, -1} {
				add(&c02Job{label: "past-failures", what: fmt.Sprint(o["what"]), spec: []byte(d), convErr: ce})
			}
		}
	}

	// --- corpus specs with one hostile mutation
	var smallRel []string
	for rel, d := range corpus {
		if len(d) < 15000 {
			smallRel = append(smallRel, rel)
		}
	}
	sort.Strings(smallRel)
	for i := 0; i < r.N(60, 600) && len(smallRel) > 0; i++ {
		rel := lp.Pick(rng, smallRel)
		var root any
		if err := yaml.Unmarshal(corpus[rel], &root); err != nil {
			continue
		}
		root = normYAML(root)
		var nodes []npath
		walkAny(root, nil, func(p npath, v any) {
			if len(p) > 0 {
				nodes = append(nodes, p)
			}
		})
		if len(nodes) == 0 {
			continue
		}
		p := lp.Pick(rng, nodes)
		h := lp.Pick(rng, c02Hostile)
		kind := "hostile-string"
		mut := func(h string) []byte {
			var c any
			if kind == "hostile-string" {
				c = setAt(cloneJSON(root), p, h, false)
			} else {
				c = renameKeyAt(cloneJSON(root), p, h)
			}
			b, _ := json.Marshal(c)
			return b
		}
		if rng.Bool() {
			kind = "hostile-key"
		}
		b := mut(h)
		if b == nil {
			continue
		}
		j := &c02Job{label: "corpus-mutation", what: fmt.Sprintf("%s: %s %q at /%s", rel, kind, h, joinPtr(p)), spec: b, specFile: rel}
		if hasControl(h) {
			j.twin = mut(stripControl(h))
		}
		add(j)
	}

	// --- random schema documents
	for i := 0; i < r.N(25, 300); i++ {
		g := NewSchemaGen(rng.Fork(uint64(i)))
		g.Sums = i%2 == 1
		b := &bodySpec{g: g}
		for k := 0; k < 3+rng.Intn(4); k++ {
			b.ops = append(b.ops, bodyOp{fmt.Sprintf("op%d", k), g.Gen(3)})
		}
		add(&c02Job{label: "random-schemas", what: fmt.Sprintf("random schema document %d", i), spec: []byte(b.doc())})
	}

	// --- response matrices: every non-empty set of {4XX, 5XX, default} sharing one schema, alone and next to a
	// 200 (with the same or another schema), convenient errors auto and off; then random ones
	for mask := 1; mask < 8; mask++ {
		for _, with200 := range []string{"", "A", "C"} {
			resps := map[string]any{}
			js := func(n string) map[string]any {
				return map[string]any{"description": "r", "content": map[string]any{"application/json": map[string]any{"schema": map[string]any{"$ref": "#/components/schemas/" + n}}}}
			}
			var names []string
			for b, code := range []string{"4XX", "5XX", "default"} {
				if mask&(1<<b) != 0 {
					resps[code] = js("C")
					names = append(names, code+":C")
				}
			}
			if with200 != "" {
				resps["200"] = js(with200)
				names = append(names, "200:"+with200)
			}
			obj := func(p string) map[string]any {
				return map[string]any{"type": "object", "properties": map[string]any{p: map[string]any{"type": "string"}}}
			}
			doc, _ := json.Marshal(map[string]any{"openapi": "3.0.3", "info": map[string]any{"title": "t", "version": "1"},
				"paths":      map[string]any{"/op": map[string]any{"get": map[string]any{"operationId": "op", "responses": resps}}},
				"components": map[string]any{"schemas": map[string]any{"A": obj("a"), "C": obj("c")}}})
			for _, ce := range []int{0, -1} {
				add(&c02Job{label: "response-matrix", what: strings.Join(names, ","), spec: doc, convErr: ce})
			}
		}
	}
	for i := 0; i < r.N(40, 500); i++ {
		doc, what := responseDoc(rng)
		ce := lp.Pick(rng, []int{0, -1})
		add(&c02Job{label: "response-matrix", what: what, spec: doc, convErr: ce})
	}

	// --- hostile paths: static path text whose bytes the router template copies into byte and string
	// literals (the first byte of a tree edge, the byte that ends a parameter, the edge text itself)
	for _, h := range c02HostilePathText {
		for _, fl := range [][]string{nil, feats} {
			add(&c02Job{label: "hostile-paths", what: fmt.Sprintf("path text %q", h), spec: hostilePathDoc(h), features: fl})
		}
	}

	// --- several media types of one response (or request) that come out as the same Go type: the same schema
	// under two JSON-like media types, the second made JSON by a content-type alias; alone and next to other
	// responses (the result type is then an interface with one case per media type)
	for _, shape := range []string{"two-media-one-status", "two-media-two-statuses", "two-media-and-default", "request-two-media", "three-media"} {
		for _, other := range []string{"same-schema", "other-schema"} {
			js := func(n string) map[string]any { return map[string]any{"schema": map[string]any{"$ref": "#/components/schemas/" + n}} }
			second := "Pet"
			if other == "other-schema" {
				second = "Err"
			}
			content := map[string]any{"application/json": js("Pet"), "application/vnd.pet+custom": js(second)}
			if shape == "three-media" {
				content["application/x-pet"] = js("Pet")
			}
			resps := map[string]any{"200": map[string]any{"description": "ok", "content": content}}
			op := map[string]any{"operationId": "getPet", "responses": resps}
			switch shape {
			case "two-media-two-statuses":
				resps["404"] = map[string]any{"description": "nf", "content": content}
			case "two-media-and-default":
				resps["default"] = map[string]any{"description": "e", "content": map[string]any{"application/json": js("Err")}}
			case "two-media-one-status", "three-media":
				resps["204"] = map[string]any{"description": "none"}
			case "request-two-media":
				op["requestBody"] = map[string]any{"required": true, "content": content}
			}
			doc, _ := json.Marshal(map[string]any{"openapi": "3.0.3", "info": map[string]any{"title": "t", "version": "1"},
				"paths": map[string]any{"/pet": map[string]any{"post": op}},
				"components": map[string]any{"schemas": map[string]any{
					"Pet": map[string]any{"type": "object", "required": []any{"name"}, "properties": map[string]any{"name": map[string]any{"type": "string"}}},
					"Err": map[string]any{"type": "object", "required": []any{"code"}, "properties": map[string]any{"code": map[string]any{"type": "integer"}}}}}})
			for _, ce := range []int{0, -1} {
				add(&c02Job{label: "media-aliases", what: shape + ", " + other, spec: doc, convErr: ce,
					aliases: map[string]string{"application/vnd.pet+custom": "application/json", "application/x-pet": "application/json"}})
			}
		}
	}

	// --- collision stream
	c02CollisionJobs(r, rng, add)

	// generate in parallel
	var wg sync.WaitGroup
	sem := make(chan struct{}, 12)
	for _, j := range jobs {
		wg.Add(1)
		sem <- struct{}{}
		go func(j *c02Job) {
			defer wg.Done()
			defer func() { <-sem }()
			c02Generate(j, mod.Dir)
		}(j)
	}
	wg.Wait()

	rejectReasons := map[string]int{}
	var collisionFails []string
	defer func() {
		r.Exhaustive("refusal diagnostics", rejectReasons)
		sort.Strings(collisionFails)
		os.WriteFile(filepath.Join(r.Dir, "c02_collisions.txt"), []byte(strings.Join(collisionFails, "\n")+"\n"), 0o644)
	}()
	okJobs := map[string]*c02Job{}
	for _, j := range jobs {
		r.Count("c02 "+j.label+" "+j.what+fmt.Sprint(j.features, j.convErr), "generate:"+j.label+":"+j.outcome, j.outcome == "ok")
		r.PropCheck()
		switch j.outcome {
		case "ok":
			okJobs[j.pkg] = j
		case "unparsable":
			if j.collide != "" {
				collisionFails = append(collisionFails, j.collide)
			}
			f := lp.PropFail{Property: "C02", What: "the generator fails because its own templates emitted unparsable Go", Input: j.input(), Observed: trunc200(j.msg), Expected: "a package that builds, or a spec-level diagnostic"}
			if cls := c02KnownClass(j, j.msg); cls != "" {
				f.Class = cls
				r.Known(f)
			} else {
				r.Fail(f)
			}
		case "panic":
			r.Fail(lp.PropFail{Property: "C02", What: "the generator panics instead of giving a diagnostic", Input: j.input(), Observed: trunc200(j.msg), Expected: "a package that builds, or a spec-level diagnostic"})
		case "timeout":
			r.Fail(lp.PropFail{Property: "C02", What: "generation does not finish", Input: j.input(), Observed: j.msg, Expected: "a package that builds, or a spec-level diagnostic"})
		case "rejected":
			if j.label == "corpus" || j.label == "feature-matrix" {
				r.Note("corpus spec refused: " + j.what + ": " + trunc200(j.msg))
			}
			rejectReasons[rejectReason(j.msg)]++
			if os.Getenv("C02_DEBUG") != "" && j.label == "hostile-names" {
				fmt.Fprintln(os.Stderr, "REJECT", j.what, "=>", truncN(j.msg, 300))
			}
		}
	}
	if len(okJobs) == 0 {
		return
	}
	// build everything, then type-check again including test files
	fails := goTool(mod.Dir, "build", "./...")
	vet := goTool(mod.Dir, "vet", "-asmdecl", "./...")
	for p, m := range vet {
		if _, dup := fails[p]; !dup {
			fails[p] = "(go vet type check) " + m
		}
	}
	built := 0
	for p, j := range okJobs {
		m, bad := fails[p]
		if !bad {
			built++
			r.Count("c02 build "+p, "build:"+j.label+":ok", false)
			continue
		}
		r.Count("c02 build "+p, "build:"+j.label+":FAIL", false)
		if j.collide != "" {
			collisionFails = append(collisionFails, j.collide)
		}
		f := lp.PropFail{Property: "C02", What: "freshly generated package does not compile", Input: j.input(), Observed: truncN(m, 700), Expected: "go build and go vet succeed"}
		if cls := c02KnownClass(j, m); cls != "" {
			f.Class = cls
			r.Known(f)
		} else {
			r.Fail(f)
		}
	}
	for p, m := range fails {
		if _, ok := okJobs[p]; !ok {
			r.Fail(lp.PropFail{Property: "C02", What: "build of the scratch module fails outside a generated package", Input: p, Observed: truncN(m, 700), Expected: "go build succeeds"})
		}
	}
	r.Exhaustive("packages built", map[string]any{"documents_x_configurations": len(jobs), "accepted_and_built": len(okJobs), "compiled_clean": built})
}

// rejectReason maps a diagnostic to a coarse class (for the evidence's distribution only).
func rejectReason(msg string) string {
	for _, k := range []string{"can't generate valid name", "name conflict", "duplicate", "conflict", "not implemented", "unsupported", "invalid Go identifier", "path", "discriminator", "mapping", "security", "server", "pattern", "default", "parse:"} {
		if strings.Contains(msg, k) {
			return k
		}
	}
	if len(msg) > 60 {
		return msg[:60]
	}
	return msg
}

func truncN(s string, n int) string {
	if len(s) > n {
		return s[:n] + "…"
	}
	return s
}

// goTool runs `go <args>` in dir and returns package name -> error text for every failing package.
func goTool(dir string, args ...string) map[string]string {
	cmd := exec.Command("go", args...)
	cmd.Dir = dir
	cmd.Env = append(os.Environ(), "GOFLAGS=-mod=mod", "GOPROXY=off", "GOSUMDB=off", "GOTOOLCHAIN=local")
	var out bytes.Buffer
	cmd.Stdout = &out
	cmd.Stderr = &out
	err := cmd.Run()
	res := map[string]string{}
	if err == nil {
		return res
	}
	cur := ""
	for _, l := range strings.Split(out.String(), "\n") {
		if strings.HasPrefix(l, "# ") {
			cur = strings.TrimPrefix(strings.Trim(strings.Fields(l)[1], "[]"), "gcmod/")
			cur = strings.TrimSuffix(strings.TrimSuffix(cur, "_test"), ".test")
			if i := strings.Index(cur, " "); i > 0 {
				cur = cur[:i]
			}
			continue
		}
		if strings.TrimSpace(l) == "" {
			continue
		}
		key := cur
		if key == "" {
			// vet prints "vet: p0001/x.go:1:2: …" without header
			for _, w := range strings.Fields(l) {
				if i := strings.Index(w, "/"); i > 0 && strings.HasPrefix(w, "p") {
					key = strings.TrimPrefix(w[:i], "./")
					break
				}
			}
			if key == "" {
				key = "(module)"
			}
		}
		res[key] += l + "\n"
	}
	if len(res) == 0 {
		res["(module)"] = out.String()
	}
	return res
}

// known classes (listed in known_findings.json); the class is decided from the input's shape and the
// diagnostic, so a different failure of the same document is still a violation
func c02KnownClass(j *c02Job, msg string) string {
	// K12: a (position, name) pair of the collision stream that is listed case by case
	if j.collide != "" && c02K12[j.collide] {
		return "K12"
	}
	// K12 in a random hostile document: one of its choices is a listed collision at the corresponding position
	for _, pr := range j.pairs {
		if c02K12[pr] {
			return "K12"
		}
	}
	// K12 outside the collision stream (corpus documents and their mutants bring their own names): the compiler
	// cites an identifier of the K12 table and the document spells a name that maps to it
	if j.collide == "" && j.outcome == "ok" {
		for _, m := range reCited.FindAllStringSubmatch(msg, -1) {
			x := m[1] + m[2] + m[3] + m[4] + m[5]
			if c02K12Idents()[x] && strings.Contains(strings.ToLower(string(j.spec)), `"`+strings.ToLower(x)+`"`) {
				return "K12"
			}
		}
	}
	// K13: the failure is caused by a control character inside a name — the same document with those
	// characters replaced generates parsable code
	if j.twin != nil && j.outcome == "unparsable" {
		t := &c02Job{pkg: j.pkg + "twin", spec: j.twin, features: j.features, convErr: j.convErr}
		c02Generate(t, filepath.Join(os.TempDir(), fmt.Sprintf("c02-twin-%d", os.Getpid())))
		os.RemoveAll(filepath.Join(os.TempDir(), fmt.Sprintf("c02-twin-%d", os.Getpid())))
		if t.outcome == "ok" || t.outcome == "rejected" {
			return "K13"
		}
	}
	return ""
}

var c02K12 = map[string]bool{}

var reCited = regexp.MustCompile(`(?:(\w+) redeclared|invalid recursive type:? (\w+)|(\w+) is not a type|other declaration of (\w+)|field and method with the same name (\w+))`)

// c02K12Idents: the identifiers named in the K12 table (the part after position=)
func c02K12Idents() map[string]bool {
	out := map[string]bool{}
	for k := range c02K12 {
		if i := strings.Index(k, "="); i >= 0 {
			out[k[i+1:]] = true
		}
	}
	return out
}

// hostilePairs maps the choices of a random hostile document (pos="name" …) to the position names of the
// collision stream, with the name in the form the generator derives from it
func hostilePairs(what string) []string {
	var out []string
	posMap := map[string][]string{"component-name": {"component", "body-component"}, "second-component": {"component"}, "variant-name": {"variant"}, "security-scheme": {"security-scheme"},
		"property": {"property", "required-property"}, "nested-property": {"nested-property"}, "query-parameter": {"query-parameter"}, "header-parameter": {"header-parameter"},
		"cookie-parameter": {"cookie-parameter"}, "path-parameter": {"path-parameter"}, "response-header": {"response-header"}, "operationId": {"operationId"}, "enum-value": {"enum-value"},
		"operation-group": {"operation-group"}, "server-name": {"server-name"}}
	for _, w := range splitPairs(what) {
		i := strings.Index(w, "=")
		if i < 0 {
			continue
		}
		pos := w[:i]
		name, err := strconv.Unquote(w[i+1:])
		if err != nil {
			continue
		}
		forms := []string{name}
		if p, err := gen.VerifPascal(name); err == nil {
			forms = append(forms, p)
		} else if pos == "server-name" {
			forms = append(forms, "<nothing nameable>")
		}
		for _, cp := range posMap[pos] {
			for _, f := range forms {
				out = append(out, cp+"="+f)
			}
		}
	}
	return out
}

// splitPairs splits `a="x y" b="z"` at the blanks between pairs.
func splitPairs(s string) []string {
	var out []string
	inq, esc, start := false, false, 0
	for i, c := range s {
		switch {
		case esc:
			esc = false
		case c == '\\' && inq:
			esc = true
		case c == '"':
			inq = !inq
		case c == ' ' && !inq:
			if i > start {
				out = append(out, s[start:i])
			}
			start = i + 1
		}
	}
	if start < len(s) {
		out = append(out, s[start:])
	}
	return out
}

// normYAML converts yaml's map[any]any style values into JSON-marshalable ones.
func normYAML(v any) any {
	switch t := v.(type) {
	case map[string]any:
		for k, x := range t {
			t[k] = normYAML(x)
		}
		return t
	case map[any]any:
		m := map[string]any{}
		for k, x := range t {
			m[fmt.Sprint(k)] = normYAML(x)
		}
		return m
	case []any:
		for i, x := range t {
			t[i] = normYAML(x)
		}
		return t
	}
	return v
}

// ---------------------------------------------------------------- hostile documents

var c02Hostile = []string{"a\"b", "a\\b", "a\nb", "a`b", "a'b", "func", "type", "go", "select", "range", "interface", "map", "chan", "default", "package", "import", "var", "const", "123abc", "1", "-", "+1", "_", "__", "日本語", "İd", "Kelvin", "é", "a-b", "a_b", "a b", "AB", "aB", "Ab", "ID", "Id", "id", " ", "$ref", "*/", "/*", "//", "%s", "%d%", "{{.}}", "{x}", "a.b", "a/b", "<>", "=", "\u2028", "😀", "a\tb", "a\rb", "\\n", "\"", "\\", "`", "\x00", "a\x00b", "\ufeff", "x-y-z", "X_Y_Z", "x.y.z", "2fa", "oauth2", "Url", "HTTPS", "uuid", "ıd", "ſ", "a+b", "a<b", "a>b", "a=b", "Ünï", "snake_case_name", "kebab-case-name", "camelCaseName", "SCREAMING_SNAKE", "with space", "trailing ", " leading", "dots.in.name", "slash/in/name", "tilde~name", "pct%20name", "q?uery", "h#ash", "amp&", "semi;", "colon:", "at@", "bang!", "paren(", "brack[", "brace{", "pipe|", "caret^", "comma,"}

// static path text: every sub-delimiter and the bytes that need quoting inside Go literals
var c02HostilePathText = []string{"'", "\"", "\\", "`", "%27", "%22", "%5C", "%60", "$", "&", "+", ",", ";", "=", ":", "@", "!", "*", "(", ")", "~", "é", "%C3%A9", "\u2028", "%00", "%0A", " ", "<", ">", "|", "^", "[", "]", "%", "%%", "日", "😀", "''", "'\\'", "\\'", "\\n", "%7B", "\"+\"", "`+`", "*/", "//", "%2F", "."}

// hostilePathDoc: the text h at the start of a route-tree edge (two routes that share everything before it),
// as the byte that ends a parameter, as the whole of an edge, after a slash, and in front of a parameter
func hostilePathDoc(h string) []byte {
	op := func(id string, params ...string) map[string]any {
		o := map[string]any{"operationId": id, "responses": map[string]any{"200": map[string]any{"description": "ok"}}}
		var ps []any
		for _, p := range params {
			ps = append(ps, map[string]any{"name": p, "in": "path", "required": true, "schema": map[string]any{"type": "string"}})
		}
		if ps != nil {
			o["parameters"] = ps
		}
		return map[string]any{"get": o}
	}
	paths := map[string]any{
		"/v1/today":                  op("a"),
		"/v1/today" + h + "s-menu":   op("b"),
		"/users/{name}" + h + "s/in": op("c", "name"),
		"/users/{name}":              op("d", "name"),
		"/" + h:                      op("e"),
		"/w/" + h + "{p}" + h + "/x": op("f", "p"),
		"/z" + h + "/{q}":            op("g", "q"),
	}
	b, _ := json.Marshal(map[string]any{"openapi": "3.0.3", "info": map[string]any{"title": "t", "version": "1"}, "paths": paths})
	return b
}

// name positions: what the templates copy into identifiers and // comments (K13: a control character there
// is known to give unparsable output); with sanitize the same random document is built with the control
// characters of those names replaced
var c02NamePositions = map[string]bool{"property": true, "nested-property": true, "component-name": true, "query-parameter": true, "header-parameter": true, "cookie-parameter": true, "path-parameter": true, "response-header": true, "operationId": true, "security-scheme": true, "apikey-name": true, "scope": true, "server-variable": true, "server-name": true, "operation-group": true, "variant-name": true, "discriminator-property": true, "mapping-key": true, "tag": true, "object-parameter-field": true, "second-component": true}

var (
	reComponentName = regexp.MustCompile(`^[a-zA-Z0-9.\-_]+$`)
	reToken         = regexp.MustCompile("^[!#$%&'*+\\-.^_`|~0-9A-Za-z]+$")
)

// what the parser itself demands of a name at a position (most picks respect it, so that the document
// reaches the generator; the rest checks the refusal)
var c02PosFilter = map[string]func(string) bool{
	"component-name":   reComponentName.MatchString,
	"second-component": reComponentName.MatchString,
	"variant-name":     reComponentName.MatchString,
	"security-scheme":  reComponentName.MatchString,
	"header-parameter": reToken.MatchString,
	"cookie-parameter": reToken.MatchString,
	"response-header":  reToken.MatchString,
	"apikey-name":      reToken.MatchString,
	"operation-group":  func(s string) bool { return token.IsIdentifier(s) && !token.IsKeyword(s) },
	"server-name":      func(s string) bool { return token.IsIdentifier(s) && !token.IsKeyword(s) },
	"server-variable":  func(s string) bool { return !strings.ContainsAny(s, "{}/") && s != "" },
}

// valid regular expressions with characters that are hostile to Go string literals
var c02Regexes = []string{`^"a"$`, "^`+$", "^[^`]+$", `^\\d\\\\$`, `^[a-z'"]+$`, "^\\n$", `^\x60$`, `^a/b$`, `^%s$`, "^a`b\"c$", `^\\\\$`, "^\\t\\r$", `^[\]]$`, `^\{\}$`, "^é+$", `^\u0041$`}

// documentation positions: line breaks are handled by the generator (prettyDoc), NUL and BOM are not
var c02DocPositions = map[string]bool{"description": true, "summary": true, "title": true}

func hasControl(s string) bool {
	for _, c := range s {
		if unicode.IsControl(c) || c == 0xFEFF || c == 0x2028 {
			return true
		}
	}
	return false
}

func stripControl(s string) string {
	return strings.Map(func(c rune) rune {
		if unicode.IsControl(c) || c == 0xFEFF || c == 0x2028 {
			return '_'
		}
		return c
	}, s)
}

func hostileDoc(rng *lp.Rand, sanitize bool) (out []byte, what string, controlInName bool) {
	h := func() string { return lp.Pick(rng, c02Hostile) }
	var used []string
	pick := func(pos, benign string, pct int) string {
		if rng.Chance(pct * 2 / 5) { // a few hostile choices per document, so that one refusal does not hide the rest
			v := h()
			if flt := c02PosFilter[pos]; flt != nil && rng.Chance(85) {
				for t := 0; t < 20 && !flt(v); t++ {
					v = h()
				}
			}
			if c02NamePositions[pos] && hasControl(v) {
				controlInName = true
				if sanitize {
					v = stripControl(v)
				}
			}
			if c02DocPositions[pos] && strings.ContainsAny(v, "\x00\ufeff") {
				controlInName = true
				if sanitize {
					v = strings.NewReplacer("\x00", "_", "\ufeff", "_").Replace(v)
				}
			}
			used = append(used, fmt.Sprintf("%s=%q", pos, v))
			return v
		}
		return benign
	}
	// properties of the body object
	props := map[string]any{}
	required := []any{}
	np := 1 + rng.Intn(4)
	for i := 0; i < np; i++ {
		name := pick("property", fmt.Sprintf("prop%d", i), 55)
		var s map[string]any
		switch rng.Intn(9) {
		case 7:
			// pattern-keyed map: the key pattern goes into regexMap and into the map's key validation
			s = map[string]any{"type": "object", "patternProperties": map[string]any{lp.Pick(rng, c02Regexes): map[string]any{"type": "string"}}}
			used = append(used, "patternProperties")
		case 8:
			s = map[string]any{"type": "object", "properties": map[string]any{"k": map[string]any{"type": "string"}}, "patternProperties": map[string]any{lp.Pick(rng, c02Regexes): map[string]any{"type": "integer"}}, "additionalProperties": false}
			used = append(used, "patternProperties+properties")
		case 0:
			s = map[string]any{"type": "string", "enum": []any{pick("enum-value", "one", 60), pick("enum-value", "two", 60), "three"}}
			if rng.Chance(50) {
				// exactly one value with nothing nameable in it (named after the type alone unless the generator takes care)
				s["enum"] = []any{"id", "name", lp.Pick(rng, []string{"*", "!", "#", " ", "&", "~", "@", "()", "日本"})}
				used = append(used, "unnameable-enum-value")
			}
		case 1:
			s = map[string]any{"type": "string", "default": pick("default", "dflt", 70)}
		case 2:
			s = map[string]any{"type": "string", "pattern": lp.Pick(rng, c02Regexes)}
			used = append(used, "pattern")
		case 3:
			s = map[string]any{"type": "object", "properties": map[string]any{pick("nested-property", "inner", 60): map[string]any{"type": "integer"}}}
		case 4:
			s = map[string]any{"type": "array", "items": map[string]any{"type": "string", "enum": []any{pick("enum-value", "x", 60), "y"}}}
		case 5:
			s = map[string]any{"type": "integer", "description": pick("description", "d", 70)}
		default:
			s = map[string]any{"type": "string", "format": lp.Pick(rng, []string{"date-time", "uuid", "a\"b", "byte", "x`y"}), "example": pick("example", "ex", 50)}
		}
		props[name] = s
		if rng.Chance(40) {
			required = append(required, name)
		}
	}
	body := map[string]any{"type": "object", "properties": props, "description": pick("description", "body", 30)}
	if len(required) > 0 {
		body["required"] = required
	}
	compName := pick("component-name", "Body", 40)
	schemas := map[string]any{compName: body}
	if rng.Chance(40) {
		// a second component whose name collides after normalisation (or is hostile)
		other := lp.Pick(rng, []string{strings.ToLower(compName), compName + "_", "_" + compName, compName + ".", strings.ToUpper(compName), pick("second-component", compName+"2", 100)})
		if other != compName {
			schemas[other] = map[string]any{"type": "object", "properties": map[string]any{"v": map[string]any{"type": "string"}}}
			used = append(used, fmt.Sprintf("second-component=%q", other))
		}
	}
	ref := "#/components/schemas/" + strings.ReplaceAll(strings.ReplaceAll(compName, "~", "~0"), "/", "~1")
	// parameters
	var params []any
	npar := rng.Intn(4)
	for i := 0; i < npar; i++ {
		in := lp.Pick(rng, []string{"query", "header", "cookie"})
		name := pick(in+"-parameter", fmt.Sprintf("par%d", i), 55)
		var s map[string]any
		switch rng.Intn(4) {
		case 0:
			s = map[string]any{"type": "object", "properties": map[string]any{pick("object-parameter-field", "f", 70): map[string]any{"type": "string"}, "g": map[string]any{"type": "integer"}}}
			in = "query"
		case 1:
			s = map[string]any{"type": "string", "default": pick("parameter-default", "x", 70)}
		case 2:
			s = map[string]any{"type": "array", "items": map[string]any{"type": "string"}}
			in = "query"
		default:
			s = map[string]any{"type": "string", "enum": []any{pick("enum-value", "p", 50), "q"}}
		}
		p := map[string]any{"name": name, "in": in, "schema": s, "description": pick("description", "p", 30)}
		params = append(params, p)
	}
	pathParam := "id"
	if rng.Chance(25) {
		pathParam = lp.Pick(rng, []string{"a\"b", "type", "a-b", "é", "1", "a.b", "func", "a b", "a`b", "a\\b"})
		used = append(used, fmt.Sprintf("path-parameter=%q", pathParam))
	}
	params = append(params, map[string]any{"name": pathParam, "in": "path", "required": true, "schema": map[string]any{"type": "string"}})
	respHeaders := map[string]any{}
	if rng.Chance(40) {
		respHeaders[pick("response-header", "X-Rate", 70)] = map[string]any{"schema": map[string]any{"type": "string"}}
	}
	ok := map[string]any{"description": pick("description", "ok", 40), "content": map[string]any{"application/json": map[string]any{"schema": map[string]any{"$ref": ref}}}}
	if len(respHeaders) > 0 {
		ok["headers"] = respHeaders
	}
	op := map[string]any{
		"operationId": pick("operationId", "doIt", 45),
		"summary":     pick("summary", "sum", 35),
		"description": pick("description", "desc", 35),
		"parameters":  params,
		"requestBody": map[string]any{"content": map[string]any{"application/json": map[string]any{"schema": map[string]any{"$ref": ref}}}},
		"responses":   map[string]any{"200": ok},
	}
	if rng.Chance(30) {
		op["tags"] = []any{pick("tag", "t", 80)}
	}
	if rng.Chance(25) {
		op["x-ogen-operation-group"] = pick("operation-group", "Grp", 70)
	}
	doc := map[string]any{
		"openapi": "3.0.3",
		"info":    map[string]any{"title": pick("title", "t", 40), "version": "1", "description": pick("description", "d", 30)},
		"paths":   map[string]any{"/things/{" + pathParam + "}": map[string]any{"post": op}},
	}
	comps := map[string]any{"schemas": schemas}
	if rng.Chance(40) {
		scheme := pick("security-scheme", "key", 70)
		var def map[string]any
		switch rng.Intn(3) {
		case 0:
			def = map[string]any{"type": "apiKey", "in": lp.Pick(rng, []string{"header", "query", "cookie"}), "name": pick("apikey-name", "X-Key", 70)}
		case 1:
			def = map[string]any{"type": "http", "scheme": lp.Pick(rng, []string{"bearer", "basic"})}
		default:
			def = map[string]any{"type": "oauth2", "flows": map[string]any{"implicit": map[string]any{"authorizationUrl": "https://a/b", "scopes": map[string]any{pick("scope", "read", 70): "d"}}}}
		}
		comps["securitySchemes"] = map[string]any{scheme: def}
		op["security"] = []any{map[string]any{scheme: []any{}}}
	}
	if rng.Chance(30) {
		vname := pick("server-variable", "region", 70)
		if !strings.ContainsAny(vname, "{}/") && vname != "" {
			doc["servers"] = []any{map[string]any{"url": "https://{" + vname + "}.example.com", "description": pick("description", "srv", 40), "x-ogen-server-name": pick("server-name", "Prod", 50),
				"variables": func() map[string]any {
					dflt := pick("server-default", "eu", 60)
					return map[string]any{vname: map[string]any{"default": dflt, "enum": []any{dflt, pick("server-enum", "us", 50)}}}
				}()}}
		}
	}
	if rng.Chance(25) {
		// discriminated sum
		a, b := pick("variant-name", "Cat", 40), pick("variant-name", "Dog", 40)
		if a != b {
			disc := pick("discriminator-property", "kind", 50)
			mk := func() map[string]any {
				return map[string]any{"type": "object", "required": []any{disc}, "properties": map[string]any{disc: map[string]any{"type": "string"}}}
			}
			schemas[a], schemas[b] = mk(), mk()
			esc := func(s string) string { return strings.ReplaceAll(strings.ReplaceAll(s, "~", "~0"), "/", "~1") }
			props["pet"] = map[string]any{"oneOf": []any{map[string]any{"$ref": "#/components/schemas/" + esc(a)}, map[string]any{"$ref": "#/components/schemas/" + esc(b)}},
				"discriminator": map[string]any{"propertyName": disc, "mapping": map[string]any{pick("mapping-key", "cat", 60): "#/components/schemas/" + esc(a), pick("mapping-key", "dog", 60): "#/components/schemas/" + esc(b)}}}
		}
	}
	doc["components"] = comps
	b, err := json.Marshal(doc)
	if err != nil {
		panic(err)
	}
	sort.Strings(used)
	return b, strings.Join(used, " "), controlInName
}
