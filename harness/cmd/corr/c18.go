package main

import (
	"encoding/json"
	"fmt"
	"math/big"
	"strings"

	"github.com/ogen-go/ogen"
	"github.com/ogen-go/ogen/gen"
	ogenjson "github.com/ogen-go/ogen/json"
	"github.com/ogen-go/ogen/jsonpointer"
	"github.com/ogen-go/ogen/jsonschema"
	"github.com/ogen-go/ogen/openapi/parser"

	"verifharness/internal/lp"
)

func init() { suites["c18"] = c18 }

type J struct {
	kind string // null bool str num arr obj
	b    bool
	s    string
	raw  string
	arr  []*J
	keys []string
	vals []*J
}

type jgen struct{ r *lp.Rand }

var jStrs = []string{"", "a", "b", "é", "\"", "\\", "\n", "/", " ", "😀", "a b", "0", "null", "1", "A", " ", "\x7f"}
var jInts = []string{"0", "1", "2", "10", "100", "9007199254740992", "9007199254740993", "18446744073709551615", "18446744073709551616", "123456789012345678901234567890", "4503599627370497"}

func (g *jgen) num() string {
	r := g.r
	i := lp.Pick(r, jInts)
	neg := r.Intn(3) == 0
	frac := lp.Pick(r, []string{"", "", ".0", ".00", ".5", ".50", ".25", ".10000000000000000001", ".1"})
	exp := lp.Pick(r, []string{"", "", "e0", "E0", "e1", "e+1", "e-1", "E-2", "e2", "e10", "e-10", "e300", "e-300", "e400", "E-400", "e+0", "e-0", "e01"})
	s := i + frac + exp
	if neg {
		s = "-" + s
	}
	return s
}

func (g *jgen) gen(depth int, dupKeys bool) *J {
	r := g.r
	k := r.Intn(6)
	if depth == 0 && k >= 4 {
		k = r.Intn(4)
	}
	switch k {
	case 0:
		return &J{kind: "null"}
	case 1:
		return &J{kind: "bool", b: r.Bool()}
	case 2:
		return &J{kind: "str", s: lp.Pick(r, jStrs)}
	case 3:
		return &J{kind: "num", raw: g.num()}
	case 4:
		j := &J{kind: "arr"}
		n := r.Intn(4)
		for i := 0; i < n; i++ {
			j.arr = append(j.arr, g.gen(depth-1, dupKeys))
		}
		return j
	default:
		j := &J{kind: "obj"}
		seen := map[string]bool{}
		n := r.Intn(4)
		for i := 0; i < n; i++ {
			k := lp.Pick(r, jStrs)
			if seen[k] && !(dupKeys && r.Intn(2) == 0) {
				continue
			}
			seen[k] = true
			j.keys = append(j.keys, k)
			j.vals = append(j.vals, g.gen(depth-1, dupKeys))
		}
		return j
	}
}

func (j *J) hasDupKeys() bool {
	switch j.kind {
	case "arr":
		for _, e := range j.arr {
			if e.hasDupKeys() {
				return true
			}
		}
	case "obj":
		seen := map[string]bool{}
		for i, k := range j.keys {
			if seen[k] || j.vals[i].hasDupKeys() {
				return true
			}
			seen[k] = true
		}
	}
	return false
}

// respell: same value, different number spelling / member order
func (g *jgen) respell(j *J) *J {
	r := g.r
	switch j.kind {
	case "num":
		if r.Bool() {
			return j
		}
		raw := j.raw
		if raw == "0" || raw == "-0" {
			// "00e-1" would not be a JSON number
			return &J{kind: "num", raw: raw + lp.Pick(r, []string{"", ".0", "e0", ".00E+5", "e-7"})}
		}
		switch r.Intn(5) {
		case 0:
			if !strings.ContainsAny(raw, ".eE") {
				raw += ".0"
			}
		case 1:
			if !strings.ContainsAny(raw, "eE") {
				raw += "e0"
			}
		case 2:
			if !strings.ContainsAny(raw, ".eE") {
				raw += "0e-1"
			}
		case 3:
			if strings.HasSuffix(raw, "e1") {
				raw = strings.TrimSuffix(raw, "e1") + "E+1"
			}
		case 4:
			if !strings.ContainsAny(raw, ".eE") {
				raw += "000E-3"
			}
		}
		return &J{kind: "num", raw: raw}
	case "arr":
		o := &J{kind: "arr"}
		for _, e := range j.arr {
			o.arr = append(o.arr, g.respell(e))
		}
		return o
	case "obj":
		o := &J{kind: "obj"}
		n := len(j.keys)
		idx := make([]int, n)
		for i := range idx {
			idx[i] = i
		}
		if !j.hasDupKeys() {
			for i := n - 1; i > 0; i-- {
				k := r.Intn(i + 1)
				idx[i], idx[k] = idx[k], idx[i]
			}
		}
		for _, i := range idx {
			o.keys = append(o.keys, j.keys[i])
			o.vals = append(o.vals, g.respell(j.vals[i]))
		}
		return o
	}
	return j
}

func (g *jgen) mutate(j *J) *J {
	r := g.r
	switch j.kind {
	case "arr":
		if len(j.arr) > 0 && r.Bool() {
			o := &J{kind: "arr", arr: append([]*J{}, j.arr...)}
			i := r.Intn(len(o.arr))
			o.arr[i] = g.mutate(o.arr[i])
			return o
		}
		if r.Intn(3) == 0 {
			return &J{kind: "arr", arr: append(append([]*J{}, j.arr...), g.gen(0, false))}
		}
	case "obj":
		if len(j.keys) > 0 && r.Bool() {
			o := &J{kind: "obj", keys: append([]string{}, j.keys...), vals: append([]*J{}, j.vals...)}
			i := r.Intn(len(o.vals))
			o.vals[i] = g.mutate(o.vals[i])
			return o
		}
	case "num":
		// near-equal numbers: last digit, sign, exponent
		raw := j.raw
		switch r.Intn(4) {
		case 0:
			if strings.HasPrefix(raw, "-") {
				return &J{kind: "num", raw: raw[1:]}
			}
			return &J{kind: "num", raw: "-" + raw}
		case 1:
			if !strings.ContainsAny(raw, "eE") {
				return &J{kind: "num", raw: raw + "e1"}
			}
		case 2:
			if !strings.ContainsAny(raw, ".eE") {
				return &J{kind: "num", raw: raw + ".0000000000000000000001"}
			}
		}
	case "str":
		return &J{kind: "str", s: j.s + lp.Pick(r, []string{"a", " ", "\x00"[:0] + "z"})}
	}
	return g.gen(1, false)
}

func (g *jgen) text(j *J, sb *strings.Builder) {
	r := g.r
	ws := func() {
		if r.Intn(4) == 0 {
			sb.WriteString(lp.Pick(r, []string{" ", "\n", "\t", "  ", "\r\n"}))
		}
	}
	switch j.kind {
	case "null":
		sb.WriteString("null")
	case "bool":
		fmt.Fprint(sb, j.b)
	case "str":
		sb.WriteString(g.quote(j.s))
	case "num":
		sb.WriteString(j.raw)
	case "arr":
		sb.WriteString("[")
		for i, e := range j.arr {
			if i > 0 {
				sb.WriteString(",")
			}
			ws()
			g.text(e, sb)
			ws()
		}
		sb.WriteString("]")
	case "obj":
		sb.WriteString("{")
		for i, k := range j.keys {
			if i > 0 {
				sb.WriteString(",")
			}
			ws()
			sb.WriteString(g.quote(k))
			ws()
			sb.WriteString(":")
			ws()
			g.text(j.vals[i], sb)
			ws()
		}
		sb.WriteString("}")
	}
}

func (g *jgen) quote(s string) string {
	r := g.r
	var sb strings.Builder
	sb.WriteByte('"')
	for _, c := range s {
		switch {
		case c == '"':
			sb.WriteString(`\"`)
		case c == '\\':
			sb.WriteString(`\\`)
		case c == '\n':
			sb.WriteString(`\n`)
		case c < 0x20 || c == 0x7f:
			fmt.Fprintf(&sb, `\u%04x`, c)
		case c < 0x80 && r.Intn(5) == 0:
			fmt.Fprintf(&sb, `\u%04X`, c)
		case c == '/' && r.Bool():
			sb.WriteString(`\/`)
		case c > 0xffff && r.Bool():
			c -= 0x10000
			fmt.Fprintf(&sb, `\u%04x\u%04x`, 0xd800+(c>>10), 0xdc00+(c&0x3ff))
		case c >= 0x80 && c <= 0xffff && r.Intn(3) == 0:
			fmt.Fprintf(&sb, `\u%04x`, c)
		default:
			sb.WriteRune(c)
		}
	}
	sb.WriteByte('"')
	return sb.String()
}

func jtoks(j *J, sb *strings.Builder) {
	switch j.kind {
	case "null":
		sb.WriteString("n ")
	case "bool":
		if j.b {
			sb.WriteString("t ")
		} else {
			sb.WriteString("f ")
		}
	case "str":
		fmt.Fprintf(sb, "s%x ", j.s)
	case "num":
		fmt.Fprintf(sb, "#%x ", j.raw)
	case "arr":
		fmt.Fprintf(sb, "[%d ", len(j.arr))
		for _, e := range j.arr {
			jtoks(e, sb)
		}
	case "obj":
		fmt.Fprintf(sb, "{%d ", len(j.keys))
		for i, k := range j.keys {
			fmt.Fprintf(sb, "k%x ", k)
			jtoks(j.vals[i], sb)
		}
	}
}

// ---- independent reference: exact rationals, unordered maps (defined for unique keys) ----

func refNum(raw string) *big.Rat {
	v, ok := new(big.Rat).SetString(raw)
	if !ok {
		return nil
	}
	return v
}

func refEqual(a, b *J) bool {
	if a.kind != b.kind {
		return false
	}
	switch a.kind {
	case "null":
		return true
	case "bool":
		return a.b == b.b
	case "str":
		return a.s == b.s
	case "num":
		x, y := refNum(a.raw), refNum(b.raw)
		return x != nil && y != nil && x.Cmp(y) == 0
	case "arr":
		if len(a.arr) != len(b.arr) {
			return false
		}
		for i := range a.arr {
			if !refEqual(a.arr[i], b.arr[i]) {
				return false
			}
		}
		return true
	default:
		if len(a.keys) != len(b.keys) {
			return false
		}
		m := map[string]*J{}
		for i, k := range a.keys {
			m[k] = a.vals[i]
		}
		for i, k := range b.keys {
			v, ok := m[k]
			if !ok || !refEqual(v, b.vals[i]) {
				return false
			}
		}
		return true
	}
}

func implEqual(a, b string) string {
	return lp.Guard(func() string {
		ok, err := ogenjson.Equal([]byte(a), []byte(b))
		if err != nil {
			return "err"
		}
		return fmt.Sprint(ok)
	})
}

func c18(r *lp.Run) {
	r.SetRule("random JSON ASTs (depth ≤ 3; strings with quotes, escapes, controls, astral characters; numbers around 2^53 and 2^64, 30-digit integers, fractions with trailing zeros, exponents to ±400); each paired with a re-spelling (member order, number spelling, whitespace, string escapes), a near-equal mutant (one leaf changed) or an independent value; a separate stream with duplicate member names (model comparison only); triples for transitivity; malformed texts (implementation must not answer true); enum lists through parser.Parse; non-trivial = distinct pair whose two sides have the same top-level kind")
	g := &jgen{r: r.Rng.Fork(18)}
	n := r.N(60000, 1500000)
	for i := 0; i < n; i++ {
		dup := i%10 == 9
		a := g.gen(3, dup)
		var b *J
		mode := g.r.Intn(3)
		switch mode {
		case 0:
			b = g.respell(a)
		case 1:
			b = g.mutate(g.respell(a))
		default:
			b = g.gen(3, dup)
		}
		c18Pair(r, g, a, b, []string{"respell", "mutant", "indep"}[mode])
		if i%4 == 0 && !a.hasDupKeys() {
			c18Triple(r, g, a)
		}
	}
	c18NumberGrid(r, g)
	c18Malformed(r, g)
	c18Enum(r, g)
	c18Reduce(r, g)
}

func c18Pair(r *lp.Run, g *jgen, a, b *J, mode string) {
	var ta, tb, sa strings.Builder
	g.text(a, &ta)
	g.text(b, &tb)
	jtoks(a, &sa)
	jtoks(b, &sa)
	res := implEqual(ta.String(), tb.String())
	wf := !a.hasDupKeys() && !b.hasDupKeys()
	tag := mode
	if !wf {
		tag = "dupkeys"
	}
	r.Case("jeq", strings.TrimSpace(sa.String()), res, tag+":"+res, a.kind == b.kind)
	if !wf {
		return
	}
	r.PropCheck()
	fail := func(what, obs, exp string) {
		r.Fail(lp.PropFail{Property: "C18", What: what, Input: map[string]string{"a": ta.String(), "b": tb.String()}, Observed: obs, Expected: exp})
	}
	want := fmt.Sprint(refEqual(a, b))
	if res != want {
		fail("Equal differs from semantic equality (exact rationals, unordered members)", res, want)
		return
	}
	if back := implEqual(tb.String(), ta.String()); back != res {
		fail("Equal is not symmetric", "Equal(a,b)="+res+" Equal(b,a)="+back, "same answer")
	}
}

func c18Triple(r *lp.Run, g *jgen, a *J) {
	b, c := g.respell(a), g.respell(g.respell(a))
	var ta, tb, tc strings.Builder
	g.text(a, &ta)
	g.text(b, &tb)
	g.text(c, &tc)
	ab, bc, ac := implEqual(ta.String(), tb.String()), implEqual(tb.String(), tc.String()), implEqual(ta.String(), tc.String())
	r.Count("triple "+ta.String()+tb.String()+tc.String(), "triple", true)
	r.PropCheck()
	if ab == "true" && bc == "true" && ac != "true" {
		r.Fail(lp.PropFail{Property: "C18", What: "Equal is not transitive", Input: map[string]string{"a": ta.String(), "b": tb.String(), "c": tc.String()}, Observed: "a=b, b=c, a≠c", Expected: "a=c"})
	}
	if aa := implEqual(ta.String(), ta.String()); aa != "true" {
		r.Fail(lp.PropFail{Property: "C18", What: "Equal is not reflexive", Input: map[string]string{"a": ta.String()}, Observed: aa, Expected: "true"})
	}
}

// all ordered pairs of a grammar-complete family of number spellings
func c18NumberGrid(r *lp.Run, g *jgen) {
	ints := []string{"0", "1", "7", "10", "100", "99", "123", "9007199254740992", "9007199254740993", "18446744073709551616"}
	fracs := []string{"", ".0", ".5", ".00", ".10", ".01", ".230", ".10000000000000000001"}
	exps := []string{"", "e0", "E+1", "e-1", "e-2", "E2", "e-0", "e10", "e-03", "e22", "e-22"}
	if !r.Thorough() {
		ints = ints[:8]
		fracs = fracs[:6]
		exps = exps[:7]
	}
	var all []string
	for _, neg := range []string{"", "-"} {
		for _, i := range ints {
			for _, f := range fracs {
				for _, e := range exps {
					all = append(all, neg+i+f+e)
				}
			}
		}
	}
	for _, x := range all {
		for _, y := range all {
			res := implEqual(x, y)
			r.Case("jeq", fmt.Sprintf("#%x #%x", x, y), res, "numgrid:"+res, x != y)
			r.PropCheck()
			want := fmt.Sprint(refNum(x).Cmp(refNum(y)) == 0)
			if res != want {
				r.Fail(lp.PropFail{Property: "C18", What: "number comparison differs from equality of exact rational values", Input: map[string]string{"a": x, "b": y}, Observed: res, Expected: want})
			}
		}
	}
	r.Exhaustive("number spellings", fmt.Sprintf("all %d ordered pairs of %d spellings (sign × int × frac × exp grid)", len(all)*len(all), len(all)))
}

// a text that is not exactly one JSON value never compares equal
func c18Malformed(r *lp.Run, g *jgen) {
	n := r.N(4000, 60000)
	fixed := [][2]string{{"nul", "null"}, {"1 2", "1"}, {"[1] x", "[1]"}, {"{\"a\":1}}", "{\"a\":1}"},
		{"tru", "true"}, {"[1,]", "[1]"}, {"{\"a\":1,}", "{\"a\":1}"}, {"01", "1"}, {"1.", "1"}, {".5", "0.5"}, {"\"a", "\"a\""}, {"", ""}, {"nulll", "null"}, {"[1 2]", "[1,2]"}, {"+1", "1"}, {"1e", "1"}}
	try := func(bad, good string) {
		for _, pr := range [][2]string{{bad, good}, {good, bad}, {bad, bad}} {
			res := implEqual(pr[0], pr[1])
			r.Count("malformed "+pr[0]+"|"+pr[1], "malformed:"+res, true)
			r.PropCheck()
			if res == "true" || res == "panic" {
				r.Fail(lp.PropFail{Property: "C18", What: "a text that is not exactly one JSON value compares equal", Input: map[string]string{"a": pr[0], "b": pr[1]}, Observed: res, Expected: "false or error"})
			}
		}
	}
	for _, f := range fixed {
		try(f[0], f[1])
	}
	for i := 0; i < n; i++ {
		a := g.gen(2, false)
		var ta strings.Builder
		g.text(a, &ta)
		good := ta.String()
		bad := good
		switch g.r.Intn(5) {
		case 0: // truncate
			if len(bad) > 1 {
				bad = bad[:1+g.r.Intn(len(bad)-1)]
			}
		case 1:
			bad = bad + lp.Pick(g.r, []string{" x", "]", "}", " 1", ",", "null"})
		case 2:
			if i := strings.LastIndexAny(bad, "]}"); i >= 0 {
				bad = bad[:i] + "," + bad[i:]
			}
		case 3:
			bad = strings.Replace(bad, "null", "nul", 1)
			bad = strings.Replace(bad, "true", "tru", 1)
			bad = strings.Replace(bad, "false", "fals", 1)
		case 4:
			if i := strings.IndexAny(bad, ":,"); i >= 0 {
				bad = bad[:i] + bad[i+1:]
			}
		}
		// only keep mutants that really are malformed
		if jsonValid(bad) {
			continue
		}
		try(bad, good)
	}
}

func jsonValid(s string) bool {
	// encoding/json as an independent judge of "exactly one JSON value"
	return stdValid([]byte(s))
}

// enum duplicate detection through the real schema parser
func c18Enum(r *lp.Run, g *jgen) {
	n := r.N(300, 5000)
	safeNums := []string{"0", "1", "2", "10", "1.0", "1e0", "10e-1", "0.5", "5e-1", "-0", "0.0", "-0.0", "-0e0", "0e0", "100", "1E2", "0.1e3", "-1", "-1.0", "-10e-1", "2.50", "2.5", "25e-1", "0.1e1"}
	safeStrs := []string{"", "a", "b", "1", "null", "A", "a b"}
	for i := 0; i < n; i++ {
		k := 1 + g.r.Intn(5)
		var members []*J
		kind := g.r.Intn(3)
		if i%12 == 11 {
			// long lists (17, 32, 100 … members) of distinct values with, half of the time, one member repeated far away
			// in another spelling: detection does not depend on the size of the list or the distance
			k = lp.Pick(g.r, []int{16, 17, 18, 32, 33, 64, 100})
			kind = g.r.Intn(2) * 2
			for m := 0; m < k; m++ {
				if kind == 0 || m%2 == 0 {
					members = append(members, &J{kind: "num", raw: fmt.Sprint(m + 3)})
				} else {
					members = append(members, &J{kind: "str", s: fmt.Sprintf("s%d", m)})
				}
			}
			if g.r.Bool() {
				src := g.r.Intn(k)
				for members[src].kind != "num" {
					src = g.r.Intn(k)
				}
				dup := &J{kind: "num", raw: members[src].raw + lp.Pick(g.r, []string{".0", "e0", ".00", "E+0", "0e-1"})}
				at := g.r.Intn(k + 1)
				members = append(members[:at:at], append([]*J{dup}, members[at:]...)...)
			}
		} else {
			for m := 0; m < k; m++ {
				switch {
				case kind == 0 || (kind == 2 && g.r.Bool()):
					members = append(members, &J{kind: "num", raw: lp.Pick(g.r, safeNums)})
				default:
					members = append(members, &J{kind: "str", s: lp.Pick(g.r, safeStrs)})
				}
			}
		}
		var parts []string
		var sa strings.Builder
		fmt.Fprintf(&sa, "%d ", len(members))
		for _, m := range members {
			var sb strings.Builder
			g.text(m, &sb)
			parts = append(parts, sb.String())
			jtoks(m, &sa)
		}
		typ := ""
		if kind == 0 {
			typ = `"type":"number",`
		} else if kind == 1 {
			typ = `"type":"string",`
		}
		doc := fmt.Sprintf(`{"openapi":"3.0.3","info":{"title":"t","version":"1"},"paths":{},"components":{"schemas":{"E":{%s"enum":[%s]}}}}`, typ, strings.Join(parts, ","))
		got := lp.Guard(func() string {
			spec, err := ogen.Parse([]byte(doc))
			if err != nil {
				return "spec-err"
			}
			_, err = parser.Parse(spec, parser.Settings{})
			if err != nil {
				// the documents are valid apart from their enum lists: any refusal is the duplicate refusal
				return "dup"
			}
			return "nodup"
		})
		r.Case("enum", strings.TrimSpace(sa.String()), got, "enum:"+got, len(members) > 1)
		r.PropCheck()
		// the same list handed to the schema parser directly (no YAML front end re-spelling the numbers)
		raw := &jsonschema.RawSchema{}
		for _, p := range parts {
			raw.Enum = append(raw.Enum, json.RawMessage(p))
		}
		if kind == 0 {
			raw.Type = "number"
		} else if kind == 1 {
			raw.Type = "string"
		}
		gotRaw := lp.Guard(func() string {
			_, err := jsonschema.NewParser(jsonschema.Settings{}).Parse(raw, jsonpointer.NewResolveCtx(jsonpointer.DummyURL(), jsonpointer.DefaultDepthLimit))
			if err != nil {
				// the documents are valid apart from their enum lists: any refusal is the duplicate refusal
				return "dup"
			}
			return "nodup"
		})
		r.Case("enum", strings.TrimSpace(sa.String()), gotRaw, "enum-raw:"+gotRaw, len(members) > 1)
		want := "nodup"
		for x := range members {
			for y := range members {
				if x != y && refEqual(members[x], members[y]) {
					want = "dup"
				}
			}
		}
		if got != want {
			r.Fail(lp.PropFail{Property: "C18", What: "enum duplicate detection differs from 'two members are the same value'", Input: map[string]string{"enum": "[" + strings.Join(parts, ",") + "]"}, Observed: got, Expected: want})
		}
		if gotRaw != want {
			r.Fail(lp.PropFail{Property: "C18", What: "enum duplicate detection (RawSchema handed to jsonschema.Parser) differs from 'two members are the same value'", Input: map[string]string{"enum": "[" + strings.Join(parts, ",") + "]"}, Observed: gotRaw, Expected: want})
		}
	}
}

// default responses are compared when they are reduced to one convenient error (gen/reduce.go): two
// operations whose default responses differ only in the spelling of a numeric bound are reduced, two whose
// bounds are different numbers are not. With convenient errors forced the generator refuses a document
// exactly when the responses differ, which makes the comparison observable: the spec is built as an
// *ogen.Spec value (no YAML front end between the number texts and the comparison).
func c18Reduce(r *lp.Run, g *jgen) {
	n := r.N(250, 6000)
	mk := func(kw, x string) *ogen.Schema {
		s := &ogen.Schema{Type: "object", Properties: []ogen.Property{{Name: "v", Schema: &ogen.Schema{Type: "number"}}}}
		switch kw {
		case "maximum":
			s.Properties[0].Schema.Maximum = ogen.Num(x)
		case "minimum":
			s.Properties[0].Schema.Minimum = ogen.Num(x)
		default:
			s.Properties[0].Schema.MultipleOf = ogen.Num(x)
		}
		return s
	}
	op := func(id string, s *ogen.Schema) *ogen.PathItem {
		return &ogen.PathItem{Get: &ogen.Operation{OperationID: id, Responses: ogen.Responses{
			"200":     &ogen.Response{Description: "ok"},
			"default": &ogen.Response{Description: "e", Content: map[string]ogen.Media{"application/json": {Schema: s}}},
		}}}
	}
	fixed := [][2]string{{"9007199254740993", "9007199254740992"}, {"9223372036854775807", "9223372036854775806"}, {"1e400", "10e399"}, {"1e400", "1e401"},
		{"0.1", "0.10000000000000000001"}, {"1", "1.0"}, {"1e0", "1"}, {"100", "1E2"}, {"0.5", "5e-1"}, {"123456789012345678901234567890", "123456789012345678901234567891"},
		{"1e-400", "1e-401"}, {"2e-400", "20e-401"}, {"-0", "0"}, {"18446744073709551616", "18446744073709551615"}, {"4503599627370497.5", "4503599627370497.50"}}
	for i := 0; i < n+len(fixed); i++ {
		var x, y string
		if i < len(fixed) {
			x, y = fixed[i][0], fixed[i][1]
		} else {
			a := &J{kind: "num", raw: g.num()}
			var b *J
			switch g.r.Intn(3) {
			case 0:
				b = g.respell(a)
			case 1:
				b = g.mutate(g.respell(a))
			default:
				b = &J{kind: "num", raw: g.num()}
			}
			if b.kind != "num" {
				continue
			}
			x, y = a.raw, b.raw
		}
		kw := []string{"maximum", "minimum", "multipleOf"}[i%3]
		if kw == "multipleOf" && (refNum(x).Sign() <= 0 || refNum(y).Sign() <= 0) {
			kw = "maximum"
		}
		run := func(x, y string) string {
			return lp.Guard(func() string {
				spec := &ogen.Spec{OpenAPI: "3.0.3", Info: ogen.Info{Title: "t", Version: "1"}, Paths: ogen.Paths{"/a": op("a", mk(kw, x)), "/b": op("b", mk(kw, y))}}
				_, err := gen.NewGenerator(spec, gen.Options{Generator: gen.GenerateOptions{ConvenientErrors: gen.ConvenientErrors(1)}})
				switch {
				case err == nil:
					return "reduced"
				case strings.Contains(err.Error(), "response is different"):
					return "different"
				default:
					return "other:" + err.Error()
				}
			})
		}
		got := run(x, y)
		if strings.HasPrefix(got, "other:") {
			// a bound the generator cannot express (out of range for the validator): not a comparison outcome
			r.Count("reduce "+kw+" "+x+" "+y, "reduce:other", false)
			continue
		}
		r.Case("jeq", fmt.Sprintf("#%x #%x", x, y), map[string]string{"reduced": "true", "different": "false"}[got], "reduce:"+got, x != y)
		r.PropCheck()
		want := "different"
		if refNum(x).Cmp(refNum(y)) == 0 {
			want = "reduced"
		}
		if got != want {
			r.Fail(lp.PropFail{Property: "C18", What: "default responses that differ only in a numeric bound are compared by something other than the value of the bound (convenient-error reduction)", Input: map[string]string{"keyword": kw, "a": x, "b": y}, Observed: got, Expected: want})
		}
		if back := run(y, x); back != got && !strings.HasPrefix(back, "other:") {
			r.Fail(lp.PropFail{Property: "C18", What: "the comparison of default responses is not symmetric", Input: map[string]string{"keyword": kw, "a": x, "b": y}, Observed: got + " / " + back, Expected: "same answer"})
		}
	}
}
