package main

import (
	"bufio"
	"encoding/binary"
	"encoding/json"
	"fmt"
	"io"
	"os"
	"os/exec"
	"strings"
	"sync"
	"time"
)

// The generator is run in child processes: a Go stack overflow or any other fatal error cannot be
// recovered in-process, and one such document must not take the whole check down. The child is this same
// binary started with VERIF_CHILD_GEN=1; it reads length-prefixed documents from stdin and answers one JSON
// line each. When a child dies the document in flight gets the outcome "fatal" (with the tail of stderr) and
// a new child is started.

type genWire struct {
	Kind   string `json:"kind"`
	Msg    string `json:"msg"`
	Where  string `json:"where"`
	HasLoc bool   `json:"has_loc"`
}

func childGenMain() {
	in := bufio.NewReaderSize(os.Stdin, 1<<20)
	out := bufio.NewWriter(os.Stdout)
	for {
		var n uint32
		if err := binary.Read(in, binary.LittleEndian, &n); err != nil {
			return
		}
		buf := make([]byte, n)
		if _, err := io.ReadFull(in, buf); err != nil {
			return
		}
		o := runGenerator(buf)
		b, _ := json.Marshal(genWire{o.kind, o.msg, o.where, o.hasLoc})
		out.Write(b)
		out.WriteByte('\n')
		out.Flush()
	}
}

type genWorker struct {
	cmd    *exec.Cmd
	stdin  io.WriteCloser
	stdout *bufio.Reader
	stderr *tailBuf
}

type tailBuf struct {
	mu sync.Mutex
	b  []byte
}

func (t *tailBuf) Write(p []byte) (int, error) {
	t.mu.Lock()
	t.b = append(t.b, p...)
	if len(t.b) > 1<<16 {
		t.b = t.b[len(t.b)-(1<<16):]
	}
	t.mu.Unlock()
	return len(p), nil
}

func (t *tailBuf) head() string {
	t.mu.Lock()
	defer t.mu.Unlock()
	s := string(t.b)
	// the first lines of a Go fatal error say what happened
	var keep []string
	for _, l := range strings.Split(s, "\n") {
		if strings.HasPrefix(l, "fatal error") || strings.HasPrefix(l, "runtime:") || strings.HasPrefix(l, "panic:") || strings.Contains(l, "ogen-go/ogen/") {
			keep = append(keep, strings.TrimSpace(l))
			if len(keep) >= 6 {
				break
			}
		}
	}
	return strings.Join(keep, " | ")
}

func startGenWorker() (*genWorker, error) {
	exe, err := os.Executable()
	if err != nil {
		return nil, err
	}
	cmd := exec.Command(exe)
	cmd.Env = append(os.Environ(), "VERIF_CHILD_GEN=1", "GOTRACEBACK=single", "GOMEMLIMIT=3GiB")
	stdin, err := cmd.StdinPipe()
	if err != nil {
		return nil, err
	}
	stdout, err := cmd.StdoutPipe()
	if err != nil {
		return nil, err
	}
	tb := &tailBuf{}
	cmd.Stderr = tb
	if err := cmd.Start(); err != nil {
		return nil, err
	}
	return &genWorker{cmd: cmd, stdin: stdin, stdout: bufio.NewReaderSize(stdout, 1<<20), stderr: tb}, nil
}

func (w *genWorker) stop() {
	w.stdin.Close()
	w.cmd.Process.Kill()
	w.cmd.Wait()
}

// do runs one document; ok=false means the child died or hung and must be replaced.
func (w *genWorker) do(doc []byte) (genOutcome, bool) {
	type res struct {
		o  genOutcome
		ok bool
	}
	ch := make(chan res, 1)
	go func() {
		if err := binary.Write(w.stdin, binary.LittleEndian, uint32(len(doc))); err != nil {
			ch <- res{ok: false}
			return
		}
		if _, err := w.stdin.Write(doc); err != nil {
			ch <- res{ok: false}
			return
		}
		line, err := w.stdout.ReadBytes('\n')
		if err != nil {
			ch <- res{ok: false}
			return
		}
		var g genWire
		if json.Unmarshal(line, &g) != nil {
			ch <- res{ok: false}
			return
		}
		ch <- res{genOutcome{kind: g.Kind, msg: g.Msg, where: g.Where, hasLoc: g.HasLoc}, true}
	}()
	select {
	case r := <-ch:
		if !r.ok {
			w.cmd.Wait()
			return genOutcome{kind: "fatal", msg: w.stderr.head()}, false
		}
		return r.o, true
	case <-time.After(90 * time.Second):
		// the child's own 30 s watchdog did not answer: a hang outside the watched goroutine
		w.cmd.Process.Kill()
		return genOutcome{kind: "timeout", msg: "no answer from the generator process in 90 s"}, false
	}
}

// runGeneratorBatch runs the documents on a pool of child processes and returns the outcomes in order.
func runGeneratorBatch(docs [][]byte, workers int) []genOutcome {
	out := make([]genOutcome, len(docs))
	if len(docs) == 0 {
		return out
	}
	if workers > len(docs) {
		workers = len(docs)
	}
	var next int
	var mu sync.Mutex
	var wg sync.WaitGroup
	for k := 0; k < workers; k++ {
		wg.Add(1)
		go func() {
			defer wg.Done()
			w, err := startGenWorker()
			if err != nil {
				panic(fmt.Sprint("cannot start generator child: ", err))
			}
			defer func() { w.stop() }()
			for {
				mu.Lock()
				i := next
				next++
				mu.Unlock()
				if i >= len(docs) {
					return
				}
				o, ok := w.do(docs[i])
				out[i] = o
				if !ok {
					w.stop()
					w, err = startGenWorker()
					if err != nil {
						panic(fmt.Sprint("cannot restart generator child: ", err))
					}
				}
			}
		}()
	}
	wg.Wait()
	return out
}
