package main

import (
	"encoding/json"
	"fmt"
	"net/url"
	"os"
	"path/filepath"
	"regexp"
	"sort"
	"strings"

	"github.com/ogen-go/ogen/gen"
	"github.com/ogen-go/ogen/gen/ir"
	"github.com/ogen-go/ogen/openapi"

	"verifharness/internal/gc"
	"verifharness/internal/lp"
)

func init() { suites["c05"] = c05 }

var tmplParamRe = regexp.MustCompile(`\{([^}]*)\}`)

type rroute struct {
	method, tmpl string
}

// realTree inserts routes with the real gen.Router and dumps the tree in the notation of the Lean driver.
func realTree(routes []rroute) (dump string, nerr int) {
	var r gen.Router
	errs := ""
	any := false
	for i, rt := range routes {
		op := &ir.Operation{Name: fmt.Sprintf("op%d", i)}
		for _, m := range tmplParamRe.FindAllStringSubmatch(rt.tmpl, -1) {
			op.Params = append(op.Params, &ir.Parameter{Name: m[1], Spec: &openapi.Parameter{Name: m[1], In: openapi.LocationPath}})
		}
		func() {
			defer func() {
				if rec := recover(); rec != nil {
					errs += fmt.Sprintf("PANIC(%d);", i)
					nerr++
				}
			}()
			if err := r.Add(gen.Route{Method: rt.method, Path: rt.tmpl, Operation: op}); err != nil {
				errs += fmt.Sprintf("ERR(%d);", i)
				nerr++
			} else {
				any = true
			}
		}()
	}
	var sb strings.Builder
	if any && r.Tree.Root != nil {
		r.Tree.Walk(func(level int, n *gen.RouteNode) {
			var rs []string
			for _, rt := range n.Routes() {
				rs = append(rs, rt.Method+":"+rt.Path)
			}
			fmt.Fprintf(&sb, "%d[%q,%q,%s]", level, n.Prefix(), n.ParamName(), strings.Join(rs, ","))
		})
	}
	return errs + sb.String(), nerr
}

func rsetLine(routes []rroute) string {
	parts := make([]string, 0, 2*len(routes))
	for _, r := range routes {
		parts = append(parts, r.method, r.tmpl)
	}
	return strings.Join(parts, " ")
}

// static texts: also some that sort after '{' ('~'), before every letter ('0', '-') and upper case; only bytes
// that may stand unescaped in a URI path ('|' may not: a valid request spells it %7C, which is not the template's
// literal byte — such a template is outside the domain)
var segLits = []string{"a", "ab", "b", "c", "abc", "u", "a-b", "x.y", "~me", "~", "~~", "Zed", "0", "_x"}

func genTemplate(rng *lp.Rand) string {
	nseg := 1 + rng.Intn(3)
	pn := 0
	var segs []string
	for i := 0; i < nseg; i++ {
		p := func() string { pn++; return fmt.Sprintf("{p%d}", pn-1) }
		switch rng.Intn(9) {
		case 0, 1, 2:
			segs = append(segs, lp.Pick(rng, segLits))
		case 3, 4:
			segs = append(segs, p())
		case 5:
			segs = append(segs, lp.Pick(rng, segLits)+p())
		case 6:
			segs = append(segs, p()+lp.Pick(rng, []string{"b", ".c", "-x", ".json", ":v"}))
		case 7:
			segs = append(segs, p()+lp.Pick(rng, []string{"-", ".", ":"})+p())
		default:
			segs = append(segs, lp.Pick(rng, segLits)+p()+lp.Pick(rng, []string{"b", ".c"}))
		}
	}
	t := "/" + strings.Join(segs, "/")
	if rng.Chance(12) {
		t += "/"
	}
	if rng.Chance(4) {
		t = "/"
	}
	return t
}

func genRouteSet(rng *lp.Rand, n int) []rroute {
	var rs []rroute
	for i := 0; i < n; i++ {
		t := genTemplate(rng)
		if len(rs) > 0 && rng.Chance(25) { // share a prefix with an earlier template
			base := rs[rng.Intn(len(rs))].tmpl
			if j := strings.LastIndex(base, "/"); j > 0 {
				k := len(tmplParamRe.FindAllString(base[:j], -1))
				t2 := genTemplate(rng)
				// renumber parameters of the suffix
				t2 = tmplParamRe.ReplaceAllStringFunc(t2, func(s string) string { k++; return fmt.Sprintf("{q%d}", k) })
				t = base[:j] + t2
			}
		}
		m := lp.Pick(rng, []string{"GET", "GET", "GET", "POST", "PUT", "DELETE"})
		rs = append(rs, rroute{m, t})
	}
	return rs
}

func specForRoutes(routes []rroute) string {
	paths := map[string]map[string]any{}
	for i, r := range routes {
		var params []any
		for _, m := range tmplParamRe.FindAllStringSubmatch(r.tmpl, -1) {
			params = append(params, map[string]any{"name": m[1], "in": "path", "required": true, "schema": map[string]any{"type": "string"}})
		}
		// the order parameters are declared in is not the order they have in the template: reversed for every
		// other route, and for every third the first one of the template is declared on the path item (the
		// parameters of an operation are merged in front of those of its path item)
		if i%2 == 1 {
			for a, b := 0, len(params)-1; a < b; a, b = a+1, b-1 {
				params[a], params[b] = params[b], params[a]
			}
		}
		op := map[string]any{"operationId": fmt.Sprintf("op%d", i), "responses": map[string]any{"200": map[string]any{"description": "ok"}}}
		if paths[r.tmpl] == nil {
			paths[r.tmpl] = map[string]any{}
		}
		if i%3 == 2 && len(params) > 1 && paths[r.tmpl]["parameters"] == nil && len(paths[r.tmpl]) == 0 {
			paths[r.tmpl]["parameters"] = params[:1]
			params = params[1:]
		} else if shared, ok := paths[r.tmpl]["parameters"].([]any); ok {
			// another method of a template whose path item already declares a parameter
			var rest []any
			for _, p := range params {
				if p.(map[string]any)["name"] != shared[0].(map[string]any)["name"] {
					rest = append(rest, p)
				}
			}
			params = rest
		}
		if params != nil {
			op["parameters"] = params
		}
		paths[r.tmpl][strings.ToLower(r.method)] = op
	}
	doc := map[string]any{"openapi": "3.0.3", "info": map[string]any{"title": "t", "version": "1"}, "paths": paths}
	b, _ := json.Marshal(doc)
	return string(b)
}

// ---- reference semantics of templates (independent of the tree) ----

func tmplInst(t string, args []string) string {
	i := 0
	return tmplParamRe.ReplaceAllStringFunc(t, func(string) string {
		if i >= len(args) {
			i++
			return "<missing>"
		}
		a := args[i]
		i++
		return a
	})
}

func tmplNParams(t string) int { return len(tmplParamRe.FindAllString(t, -1)) }

// eraseNames: template identity modulo parameter names
func eraseNames(t string) string { return tmplParamRe.ReplaceAllString(t, "{}") }

// paramContexts: for the j-th parameter of t, the name-erased text before it and the byte after it
func paramContexts(t string) (ids []string, next []string) {
	for _, l := range tmplParamRe.FindAllStringIndex(t, -1) {
		ids = append(ids, eraseNames(t[:l[0]]))
		n := ""
		if l[1] < len(t) {
			n = t[l[1] : l[1]+1]
		}
		next = append(next, n)
	}
	return
}

// fits: arguments in the property's completeness domain — non-empty, no '/', and free of every
// byte that may follow that parameter position anywhere in the route set
func fitsArgs(all []rroute, t string, args []string) bool {
	ids, _ := paramContexts(t)
	for j, a := range args {
		if a == "" || strings.Contains(a, "/") {
			return false
		}
		for _, r2 := range all {
			ids2, next2 := paramContexts(r2.tmpl)
			for k := range ids2 {
				if ids2[k] == ids[j] && next2[k] != "" && strings.Contains(a, next2[k]) {
					return false
				}
			}
		}
	}
	return true
}

// k5Template: does t have a parameter directly followed by a byte other than '/'
func k5Template(t string) bool {
	_, next := paramContexts(t)
	for _, n := range next {
		if n != "" && n != "/" {
			return true
		}
	}
	return false
}

// k5Position: the j-th parameter of the dispatched template shares its tree node with a template in
// which that parameter is directly followed by a byte other than '/' (the node's tail set then has
// no '/', so the cut runs across segment boundaries) — known finding K5
func k5Position(all []rroute, t string, j int) bool {
	ids, _ := paramContexts(t)
	if j >= len(ids) {
		return false
	}
	for _, r2 := range all {
		ids2, next2 := paramContexts(r2.tmpl)
		for k := range ids2 {
			if ids2[k] == ids[j] && next2[k] != "" && next2[k] != "/" {
				return true
			}
		}
	}
	return false
}

type c05set struct {
	routes []rroute // in the generator's insertion order
	pkg    *gc.Pkg
	byOp   map[string]rroute
}

func c05(r *lp.Run) {
	r.SetRule("tree construction: random route sets (shared prefixes, mid-segment and double parameters, trailing slashes, duplicate and mixed-case methods) through the real gen.Router.Add, dumped with Walk and compared node by node with the Lean insert; matching: route sets accepted by the generator are turned into OpenAPI documents, regenerated with /repo's generator, compiled, and FindPath + ServeHTTP are probed on every path of length ≤ L over the set's own alphabet, on template instances with fresh values / sibling static text / delimiter bytes, on escaped re-spellings and with a path prefix; non-trivial = distinct (route set, path) that reaches a node (dispatch or 405)")
	rng := r.Rng.Fork(5)

	// ---- 1. tree construction, in-process ----
	nTrees := r.N(3000, 60000)
	for i := 0; i < nTrees; i++ {
		rs := genRouteSet(rng, 1+rng.Intn(6))
		if i%9 == 0 { // duplicate / mixed-case methods, bad templates
			rs = append(rs, rroute{lp.Pick(rng, []string{"get", "Get", "GET", "post"}), rs[rng.Intn(len(rs))].tmpl})
		}
		if i%17 == 0 {
			rs = append(rs, rroute{"GET", lp.Pick(rng, []string{"/a/{x", "/a/x}", "/{a}{b}", "/a/{x}/{x}", "a", "{x}", "/{}"})})
		}
		dump, nerr := realTree(rs)
		r.Case("rset", rsetLine(rs), dump, map[bool]string{true: "tree:with-refusals", false: "tree:all-inserted"}[nerr > 0], len(rs) > 1)
	}

	// ---- 2. regenerated routers ----
	scratch := os.Getenv("VERIF_SCRATCH")
	if scratch == "" {
		scratch = "/var/tmp"
	}
	mod, err := gc.NewModule(filepath.Join(scratch, fmt.Sprintf("gc-c05-%d", os.Getpid())))
	if err != nil {
		panic(err)
	}
	defer os.RemoveAll(mod.Dir)
	nSets := r.N(10, 120)
	var sets []*c05set
	discarded := 0
	fixed := [][]rroute{
		{{"GET", "/a/{x}"}, {"GET", "/{y}/c"}, {"GET", "/a/b"}, {"POST", "/a/b"}},              // D5 shape + static wins + 405
		{{"GET", "/a/{x}.json"}, {"GET", "/a/{x}"}, {"PUT", "/a/{x}/b"}},                       // K5 shape
		{{"GET", "/{x}"}, {"GET", "/{x}b/c"}, {"DELETE", "/"}},                                 // K7 shape
		{{"GET", "/users/{id}"}, {"GET", "/users/me"}, {"POST", "/users"}, {"GET", "/users/"}}, // static vs param siblings
	}
	for i := 0; len(sets) < nSets && i < nSets*6; i++ {
		var rs []rroute
		if i < len(fixed) {
			rs = fixed[i]
		} else {
			rs = genRouteSet(rng, 2+rng.Intn(5))
		}
		if _, nerr := realTree(rs); nerr > 0 {
			continue // the router itself refuses the set: outside the domain
		}
		name := fmt.Sprintf("rt%d", len(sets))
		pkg, err := mod.Add(name, []byte(specForRoutes(rs)), gen.Options{})
		if err != nil {
			discarded++
			if i < len(fixed) {
				r.Fail(lp.PropFail{Property: "C05", What: "the generator refuses a fixed feature-matrix route set", Input: rsetLine(rs), Observed: err.Error(), Expected: "generated router"})
			}
			continue
		}
		s := &c05set{pkg: pkg, byOp: map[string]rroute{}}
		for _, op := range pkg.Ops {
			rt := rroute{op.Method, op.Path}
			s.routes = append(s.routes, rt)
			s.byOp[op.Name] = rt
		}
		sets = append(sets, s)
	}
	r.Note(fmt.Sprintf("route sets: %d generated, %d refused by the generator", len(sets), discarded))
	if discarded*10 > len(sets)+discarded {
		r.Fail(lp.PropFail{Property: "C05", What: "more than 10% of the route sets are refused by the generator (correspondence cannot be established)", Input: discarded, Observed: fmt.Sprint(discarded), Expected: "rare refusals"})
	}
	// tails that are first bytes of non-ASCII characters (implementation only: the model's alphabet is characters,
	// the tree's is bytes)
	naRoutes := []rroute{{"GET", "/a/{x}é"}, {"GET", "/a/{x}b"}, {"GET", "/m/{x}é"}, {"GET", "/n/{x}ü/{y}"}, {"GET", "/n/{x}é"}, {"GET", "/n/{x}-z"}}
	naPkg, naErr := mod.Add("rtna", []byte(specForRoutes(naRoutes)), gen.Options{})
	if naErr != nil {
		r.Fail(lp.PropFail{Property: "C05", What: "the generator refuses the route set with non-ASCII static text", Input: rsetLine(naRoutes), Observed: naErr.Error(), Expected: "generated router"})
	}
	bin, err := mod.Build()
	if err != nil {
		r.Fail(lp.PropFail{Property: "C02", What: "generated routers do not compile", Input: "route-set specs", Observed: err.Error(), Expected: "compiles"})
		return
	}
	drv, err := gc.Start(bin)
	if err != nil {
		panic(err)
	}
	defer drv.Close()
	L := r.N(4, 6)
	for _, s := range sets {
		c05Probe(r, rng, drv, s, L)
	}
	if naPkg != nil {
		// ASCII values in front of a non-ASCII tail; the request target as a client writes it (escaped)
		type na struct {
			tmpl string
			args []string
		}
		var items [][3]string
		var want []na
		for _, rt := range naRoutes {
			n := tmplNParams(rt.tmpl)
			for _, v := range []string{"v", "aa", "0", "x.y", "qq", "Zz9"} { // no byte that may follow the parameter ('b', '-')
				args := make([]string, n)
				for i := range args {
					args[i] = v
				}
				inst := tmplInst(rt.tmpl, args)
				u := url.URL{Path: inst}
				items = append(items, c12RequestItem(rt.method, u.EscapedPath(), inst))
				want = append(want, na{rt.tmpl, args})
			}
		}
		ans, _ := drv.Do(map[string]any{"pkg": naPkg.Name, "cmd": "batch", "items": items})
		res, _ := ans["results"].([]any)
		for i, x := range res {
			r.PropCheck()
			r.Count("nonascii "+items[i][1], "nonascii-tail", true)
			got := fmt.Sprint(x)
			exp := " " + want[i].tmpl + " " + gcHexArgs(want[i].args) + " S:"
			if !strings.HasPrefix(got, "F:ok ") || !strings.Contains(got, exp) {
				r.Fail(lp.PropFail{Property: "C05", What: "an instance of a template whose parameter is followed by a non-ASCII character does not reach it", Input: map[string]any{"routes": rsetLine(naRoutes), "method": items[i][0], "path": items[i][1], "raw_path": items[i][2]}, Observed: got, Expected: "F:ok …" + exp + "…"})
			}
		}
		if len(res) == 0 {
			r.Fail(lp.PropFail{Property: "C05", What: "driver failure", Input: "rtna", Observed: fmt.Sprint(ans), Expected: "results"})
		}
	}
}

type probe struct {
	method, path, raw string
	kind              string
	tmpl              string   // for instance probes: the template instantiated
	args              []string // and its arguments
}

func c05Probe(r *lp.Run, rng *lp.Rand, drv *gc.Driver, s *c05set, L int) {
	all := s.routes
	// alphabet of the set
	alpha := map[byte]bool{'/': true, 'z': true}
	for _, rt := range all {
		for _, lit := range tmplParamRe.Split(rt.tmpl, -1) {
			for i := 0; i < len(lit); i++ {
				alpha[lit[i]] = true
			}
		}
	}
	var ab []byte
	for b := range alpha {
		ab = append(ab, b)
	}
	sort.Slice(ab, func(i, j int) bool { return ab[i] < ab[j] })
	maxLen := L
	for pow(len(ab), maxLen) > r.N(30000, 400000) && maxLen > 2 {
		maxLen--
	}
	var probes []probe
	methods := []string{"GET", "POST"}
	var rec func(cur string, k int)
	rec = func(cur string, k int) {
		p := "/" + cur
		probes = append(probes, probe{method: "GET", path: p, kind: "exh"})
		if k == 0 {
			return
		}
		for _, b := range ab {
			rec(cur+string(b), k-1)
		}
	}
	rec("", maxLen)
	// template instances
	var statics []string
	for _, rt := range all {
		for _, lit := range tmplParamRe.Split(rt.tmpl, -1) {
			for _, seg := range strings.Split(lit, "/") {
				if seg != "" {
					statics = append(statics, seg)
				}
			}
		}
	}
	vals := append([]string{"v", "zz", "0", "a b", "é", "%", "a.b", "-", ".", "a/b", "", "me", "c"}, statics...)
	for _, rt := range all {
		n := tmplNParams(rt.tmpl)
		reps := 40
		if n == 0 {
			reps = 1
		}
		for k := 0; k < reps; k++ {
			args := make([]string, n)
			for j := range args {
				args[j] = lp.Pick(rng, vals)
			}
			p := tmplInst(rt.tmpl, args)
			for _, m := range append(methods, rt.method, "DELETE", "OPTIONS") {
				probes = append(probes, probe{method: m, path: p, kind: "inst", tmpl: rt.tmpl, args: args})
			}
			// near misses
			probes = append(probes, probe{method: rt.method, path: p + "/", kind: "near"}, probe{method: rt.method, path: strings.TrimSuffix(p, "/"), kind: "near"}, probe{method: rt.method, path: p + "x", kind: "near"})
			// a slash that is part of a value travels escaped (either hex case) and is never a separator
			if n > 0 && k < 12 {
				sargs := append([]string{}, args...)
				j := rng.Intn(n)
				if !strings.Contains(sargs[j], "/") {
					sargs[j] = lp.Pick(rng, []string{"b/c", "/", "x/", "/y", "a/b/c"})
				}
				esc := make([]string, n)
				for i, a := range sargs {
					esc[i] = strings.ReplaceAll(url.PathEscape(a), "%2F", lp.Pick(rng, []string{"%2F", "%2f"}))
				}
				probes = append(probes, probe{method: rt.method, path: tmplInst(rt.tmpl, sargs), raw: tmplInst(rt.tmpl, esc), kind: "slashesc", tmpl: rt.tmpl, args: sargs})
			}
			// escaped re-spellings of the same request (C12's equivalence reaches dispatch)
			for e := 0; e < 2; e++ {
				raw := respellPath(rng, p)
				if raw != p {
					probes = append(probes, probe{method: rt.method, path: p, raw: raw, kind: "respell", tmpl: rt.tmpl, args: args})
				}
			}
		}
	}
	// ---- run in batches ----
	r.Case("rset", rsetLine(all), func() string { d, _ := realTree(all); return d }(), "tree:generated-set", true)
	const B = 4000
	for off := 0; off < len(probes); off += B {
		end := off + B
		if end > len(probes) {
			end = len(probes)
		}
		items := make([][3]string, 0, end-off)
		for _, p := range probes[off:end] {
			items = append(items, [3]string{p.method, p.path, p.raw})
		}
		ans, err := drv.Do(map[string]any{"pkg": s.pkg.Name, "cmd": "batch", "items": items})
		if err != nil || ans["results"] == nil {
			r.Fail(lp.PropFail{Property: "C05", What: "driver failure", Input: s.pkg.Name, Observed: fmt.Sprint(ans, err), Expected: "results"})
			return
		}
		res := ans["results"].([]any)
		for i, x := range res {
			c05Judge(r, s, probes[off+i], x.(string))
		}
	}
	// prefix option: the same router behind /api — plain and escaped spellings, FindPath and ServeHTTP
	var pfxProbes []probe
	nInst, nResp := 0, 0
	for _, p := range probes {
		if p.kind == "inst" && nInst < 60 {
			nInst++
			pfxProbes = append(pfxProbes, p)
		}
		if p.kind == "respell" && nResp < 60 {
			nResp++
			pfxProbes = append(pfxProbes, p)
		}
	}
	with := [][3]string{}
	without := [][3]string{}
	for _, p := range pfxProbes {
		raw := ""
		if p.raw != "" {
			raw = "/api" + p.raw
		}
		with = append(with, [3]string{p.method, "/api" + p.path, raw})
		without = append(without, [3]string{p.method, p.path, p.raw})
	}
	ans, _ := drv.Do(map[string]any{"pkg": s.pkg.Name, "cmd": "batch", "prefix": "/api", "items": with})
	ans2, _ := drv.Do(map[string]any{"pkg": s.pkg.Name, "cmd": "batch", "items": without})
	if a, ok := ans["results"].([]any); ok {
		if b, ok := ans2["results"].([]any); ok {
			for i := range a {
				r.Count("prefix "+s.pkg.Name+pfxProbes[i].path+pfxProbes[i].raw, "prefix:"+pfxProbes[i].kind, true)
				r.PropCheck()
				if a[i] != b[i] {
					r.Fail(lp.PropFail{Property: "C05", What: "lookup/dispatch behind a path prefix differs from lookup/dispatch without it", Input: map[string]any{"routes": rsetLine(s.routes), "method": pfxProbes[i].method, "path": pfxProbes[i].path, "raw_path": pfxProbes[i].raw, "prefix": "/api"}, Observed: fmt.Sprint(a[i]), Expected: fmt.Sprint(b[i])})
				}
			}
		}
	}
	// the empty prefix given explicitly (WithPathPrefix("")) is no prefix
	ans3, _ := drv.Do(map[string]any{"pkg": s.pkg.Name, "cmd": "batch", "prefix": "$empty", "items": without})
	if a, ok := ans3["results"].([]any); ok {
		if b, ok := ans2["results"].([]any); ok {
			for i := range a {
				r.Count("emptyprefix "+s.pkg.Name+pfxProbes[i].path+pfxProbes[i].raw, "prefix-empty:"+pfxProbes[i].kind, true)
				r.PropCheck()
				if a[i] != b[i] {
					r.Fail(lp.PropFail{Property: "C05", What: "a server configured with the empty path prefix dispatches differently from one without the option", Input: map[string]any{"routes": rsetLine(s.routes), "method": pfxProbes[i].method, "path": pfxProbes[i].path, "raw_path": pfxProbes[i].raw, "prefix": ""}, Observed: fmt.Sprint(a[i]), Expected: fmt.Sprint(b[i])})
					break
				}
			}
		}
	}
}

func pow(a, b int) int {
	n := 1
	for i := 0; i < b; i++ {
		n *= a
		if n > 1<<40 {
			return n
		}
	}
	return n
}

// respellPath: escape what must be escaped, and needlessly escape some unreserved bytes, hex case random
func respellPath(rng *lp.Rand, p string) string {
	var sb strings.Builder
	changed := false
	for i := 0; i < len(p); i++ {
		c := p[i]
		must := !(refUnreserved(c) || c == '/' || c == '-' || c == '.' || c == ':')
		if must || (refUnreserved(c) && rng.Chance(25)) { // only unreserved bytes may be escaped needlessly: %3A is not ':'
			if rng.Bool() {
				fmt.Fprintf(&sb, "%%%02x", c)
			} else {
				fmt.Fprintf(&sb, "%%%02X", c)
			}
			changed = true
		} else {
			sb.WriteByte(c)
		}
	}
	if !changed {
		return p
	}
	return sb.String()
}

var batchRe = regexp.MustCompile(`^F:(.*) S:(\d+) w(\d+)(?: allow=(\S+))?(?: op=(\S+) params=(.*?))?( panic=.*)?$`)

func c05Judge(r *lp.Run, s *c05set, p probe, ans string) {
	m := batchRe.FindStringSubmatch(ans)
	in := map[string]any{"routes": rsetLine(s.routes), "method": p.method, "path": p.path}
	if p.raw != "" {
		in["raw_path"] = p.raw
	}
	fail := func(what, obs, exp string) {
		r.Fail(lp.PropFail{Property: "C05", What: what, Input: in, Observed: obs, Expected: exp})
	}
	if m == nil {
		fail("unparsable driver answer", ans, "F:… S:…")
		return
	}
	find, status, wh, allow, sop, sparams, pan := m[1], m[2], m[3], m[4], m[5], m[6], m[7]
	// canonical answer in the Lean driver's vocabulary
	implLine := "404"
	var fPattern string
	var fArgs []string
	if strings.HasPrefix(find, "ok ") {
		f := strings.SplitN(find[3:], " ", 3)
		fPattern = f[1]
		hx := ""
		if len(f) > 2 {
			hx = f[2]
		}
		if hx != "" {
			for _, h := range strings.Split(hx, ",") {
				fArgs = append(fArgs, hexDecode(h))
			}
		} else if tmplNParams(fPattern) > 0 {
			fArgs = make([]string, tmplNParams(fPattern))
		}
		implLine = "ok " + fPattern + " " + hx
	} else if status == "405" || (status == "204" && p.method == "OPTIONS") {
		implLine = "405 " + allow
	}
	branch := p.kind + ":" + strings.SplitN(implLine, " ", 2)[0]
	if p.raw == "" && p.method != "OPTIONS" {
		r.Case("rfind", p.method+" "+lp.Hex([]byte(p.path)), implLine, branch, implLine != "404")
	} else {
		r.Count("rfind-impl "+s.pkg.Name+p.method+p.path+p.raw, branch, implLine != "404")
	}
	r.SizeN("pathlen", len(p.path))

	// ---- the property's predicates on the implementation ----
	r.PropCheck()
	if pan != "" {
		fail("router panics", pan, "an answer")
		return
	}
	if wh != "1" {
		fail("ServeHTTP does not answer with exactly one WriteHeader", "WriteHeader calls: "+wh, "1")
	}
	dispatched := fPattern != ""
	if dispatched {
		// soundness: the path is the template instantiated with the extracted arguments
		if got := tmplInst(fPattern, fArgs); got != p.path {
			fail("dispatch is not an instance of the matched template (wrong operation or wrong arguments)", fmt.Sprintf("%s with %q = %q", fPattern, fArgs, got), p.path)
			return
		}
		for j, a := range fArgs {
			if strings.Contains(a, "/") {
				if k5Position(s.routes, fPattern, j) && p.raw == "" {
					r.Known(lp.PropFail{Property: "C05", Class: "K5", What: "a mid-segment parameter captures an unescaped '/'", Input: in, Observed: fmt.Sprintf("%s args %q", fPattern, fArgs), Expected: "no '/' inside an argument"})
				} else if p.raw == "" {
					fail("an extracted argument contains an unescaped '/'", fmt.Sprintf("%s args %q", fPattern, fArgs), "no '/' inside an argument")
				}
			}
		}
		// FindPath and ServeHTTP agree: same operation, same arguments (an empty argument is answered 400)
		op := strings.SplitN(find[3:], " ", 2)[0]
		hasEmpty := false
		for _, a := range fArgs {
			if a == "" {
				hasEmpty = true
			}
		}
		if sop == "" {
			if !(hasEmpty && status == "400") {
				fail("FindPath dispatches but ServeHTTP does not reach the handler", "FindPath: "+find+"; ServeHTTP: "+status, "handler of "+op)
			}
		} else {
			if sop != op {
				fail("FindPath and ServeHTTP dispatch to different operations", "ServeHTTP op="+sop, "FindPath op="+op)
			}
			// arguments as the handler saw them
			var opi *gc.OpInfo
			for i := range s.pkg.Ops {
				if s.pkg.Ops[i].Name == op {
					opi = &s.pkg.Ops[i]
				}
			}
			if opi != nil && len(opi.Params) == len(fArgs) {
				// FindPath reports the arguments in template order; the handler's struct has one field per
				// declared parameter, in declaration order (which need not be the template's): bind by name
				byName := map[string]string{}
				for i, m := range tmplParamRe.FindAllStringSubmatch(fPattern, -1) {
					if i < len(fArgs) {
						byName[m[1]] = fArgs[i]
					}
				}
				parts := make([]string, len(fArgs))
				for i, pi := range opi.Params {
					parts[i] = fmt.Sprintf("%s=%q", pi.Field, byName[pi.Name])
				}
				want := "<none>"
				if len(fArgs) > 0 {
					want = op + "Params{" + strings.Join(parts, ",") + "}"
				}
				if sparams != want {
					fail("the handler's named path parameters are not the arguments of the matched template (bound by name)", sparams, want)
				}
			}
		}
	}
	// an escaped slash is not a separator: the matched template has as many segments as the request target,
	// and where the same request with a letter in place of the slash fits the template, this one arrives too
	if p.kind == "slashesc" {
		k5Swallow := false
		if dispatched && strings.Count(p.raw, "/") > strings.Count(fPattern, "/") {
			// fewer segments in the template than in the target: a raw '/' went into an argument. That is K5
			// when the argument sits at a mid-segment position of the tree (the escaped slash is not involved).
			for j, a := range fArgs {
				if strings.Contains(a, "/") && k5Position(s.routes, fPattern, j) {
					k5Swallow = true
				}
			}
		}
		if k5Swallow {
			r.Known(lp.PropFail{Property: "C05", Class: "K5", What: "a mid-segment parameter captures an unescaped '/'", Input: in, Observed: fmt.Sprintf("%s args %q", fPattern, fArgs), Expected: "no raw '/' inside an argument"})
		} else if dispatched && strings.Count(p.raw, "/") != strings.Count(fPattern, "/") {
			fail("an escaped slash inside a parameter value is taken for a path separator", fmt.Sprintf("%s args %q", fPattern, fArgs), "a template with "+fmt.Sprint(strings.Count(p.raw, "/"))+" segments, e.g. "+p.tmpl)
		}
		plain := make([]string, len(p.args))
		for i, a := range p.args {
			plain[i] = strings.ReplaceAll(a, "/", "x")
		}
		if fitsArgs(s.routes, p.tmpl, plain) && !dispatched && status != "405" {
			fail("a template instance whose value holds an escaped slash reaches no template", find+" / "+status, "dispatch to "+p.tmpl+" (or a more specific template) with the slash inside the argument")
		}
	}
	// static wins
	for _, rt := range s.routes {
		if tmplNParams(rt.tmpl) == 0 && rt.tmpl == p.path && rt.method == p.method && p.raw == "" {
			if fPattern != rt.tmpl {
				fail("a fully static template loses to another match", find, "ok … "+rt.tmpl)
			}
		}
	}
	// completeness for instances in the property's domain
	if (p.kind == "inst" || p.kind == "respell") && fitsArgs(s.routes, p.tmpl, p.args) {
		// path-level completeness: the instance reaches a node (a dispatch, or 405 when the method is
		// not defined at the reached — possibly more specific — template; Allow is judged below)
		if !dispatched && status != "405" && !(p.method == "OPTIONS" && status == "204") {
			if p.raw != "" && k18Template(p.tmpl) {
				// K18: static text that has to stay escaped is held by the tree as the key spells it
				r.Known(lp.PropFail{Property: "C05", Class: "K18", What: "a template whose static text holds an octet that must stay escaped is matched in one request spelling only", Input: in, Observed: find + " / " + status, Expected: "dispatch to " + p.tmpl})
			} else {
				fail("a template instance with fitting arguments (non-empty, no '/', no following literal byte) reaches no template", find+" / "+status, "dispatch to "+p.tmpl+" or a more specific matching template (or 405 there)")
			}
		}
	}
	// 405: Allow lists exactly the methods defined for the matched template
	if status == "405" && !dispatched {
		allowed := strings.Split(allow, ",")
		// which templates does this path instantiate (slash-free arguments)?
		cands := map[string][]string{} // erased template -> methods
		for _, rt := range s.routes {
			if tmplMatches(rt.tmpl, p.path) {
				cands[eraseNames(rt.tmpl)] = append(cands[eraseNames(rt.tmpl)], rt.method)
			}
		}
		okSome := false
		for _, ms := range cands {
			sort.Strings(ms)
			a2 := append([]string{}, allowed...)
			sort.Strings(a2)
			if strings.Join(ms, ",") == strings.Join(a2, ",") {
				okSome = true
			}
		}
		for _, a := range allowed {
			if a == p.method {
				fail("405 although the method is in Allow", allow, "dispatch")
			}
		}
		if !okSome && !k5Any(s.routes) {
			fail("Allow is not exactly the method set of a template the path instantiates", allow, fmt.Sprint(cands))
		}
	}
	if status == "404" && p.raw == "" {
		// unknown path: fine. A known static path must not be 404.
		for _, rt := range s.routes {
			if tmplNParams(rt.tmpl) == 0 && rt.tmpl == p.path {
				fail("a defined static path is answered 404", status, "dispatch or 405")
			}
		}
	}
}

// k18Template: the template's static text holds a byte that a URI path carries escaped (non-ASCII, space, …)
func k18Template(t string) bool {
	static := tmplParamRe.ReplaceAllString(t, "")
	for i := 0; i < len(static); i++ {
		c := static[i]
		if c >= 0x80 || c <= 0x20 || c == '%' || c == '?' || c == '#' || c == '"' || c == '<' || c == '>' {
			return true
		}
	}
	return false
}

func k5Any(rs []rroute) bool {
	for _, r := range rs {
		if k5Template(r.tmpl) {
			return true
		}
	}
	return false
}

var tmplReCache = map[string]*regexp.Regexp{}

// tmplMatches: does path instantiate t with slash-free arguments (possibly empty: K7)?
func tmplMatches(t, path string) bool {
	re, ok := tmplReCache[t]
	if !ok {
		parts := tmplParamRe.Split(t, -1)
		var sb strings.Builder
		sb.WriteString("^")
		for i, lit := range parts {
			sb.WriteString(regexp.QuoteMeta(lit))
			if i != len(parts)-1 {
				sb.WriteString("([^/]*?)")
			}
		}
		sb.WriteString("$")
		re = regexp.MustCompile(sb.String())
		tmplReCache[t] = re
	}
	return re.MatchString(path)
}
