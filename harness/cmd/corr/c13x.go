package main

import (
	"encoding/json"
	"fmt"
	"math"
	"net/url"
	"os"
	"path/filepath"
	"strconv"
	"strings"
	"time"

	"github.com/ogen-go/ogen/conv"
	"github.com/ogen-go/ogen/gen"

	"verifharness/internal/gc"
	"verifharness/internal/lp"
)

// which helper the generator picks for a declared format: one query and one header parameter per format
// through a regenerated client and server; the text on the wire is compared with the text the format prescribes
// (computed here with the standard library), the value that arrives with the value that was sent.
type fmtParam struct {
	typ, format string
	vals        []fmtVal
}

type fmtVal struct {
	desc any    // value description for the driver
	wire string // the text the format prescribes
}

func num(s string) json.Number { return json.Number(s) }
func tm(s string) map[string]any {
	return map[string]any{"$time": s}
}

func fmtParams() []fmtParam {
	t1, _ := time.Parse(time.RFC3339Nano, "2023-11-14T22:13:20Z")
	t2, _ := time.Parse(time.RFC3339Nano, "1969-12-31T23:59:59Z")
	t3, _ := time.Parse(time.RFC3339Nano, "2023-11-14T22:13:20.123Z")
	unix := func(f func(time.Time) int64, ts ...time.Time) []fmtVal {
		var out []fmtVal
		for _, t := range ts {
			out = append(out, fmtVal{tm(t.Format(time.RFC3339Nano)), strconv.FormatInt(f(t), 10)})
		}
		return out
	}
	ints := func(vs ...string) []fmtVal {
		var out []fmtVal
		for _, v := range vs {
			out = append(out, fmtVal{num(v), v})
		}
		return out
	}
	sec := func(t time.Time) int64 { return t.Unix() }
	var ps []fmtParam
	for _, typ := range []string{"integer", "string"} {
		ps = append(ps,
			fmtParam{typ, "unix", unix(sec, t1, t2)},
			fmtParam{typ, "unix-seconds", unix(sec, t1, t2)},
			fmtParam{typ, "unix-nano", unix(func(t time.Time) int64 { return t.UnixNano() }, t1, t2, t3)},
			fmtParam{typ, "unix-micro", unix(func(t time.Time) int64 { return t.UnixMicro() }, t1, t2, t3)},
			fmtParam{typ, "unix-milli", unix(func(t time.Time) int64 { return t.UnixMilli() }, t1, t2, t3)},
			fmtParam{typ, "int64", ints("0", "-1", "9223372036854775807", "-9223372036854775808")},
			fmtParam{typ, "int32", ints("0", "-1", "2147483647", "-2147483648")},
			fmtParam{typ, "int16", ints("32767", "-32768")},
			fmtParam{typ, "int8", ints("127", "-128")},
			fmtParam{typ, "uint64", ints("0", "18446744073709551615", "9223372036854775808")},
			fmtParam{typ, "uint32", ints("4294967295", "2147483648")},
			fmtParam{typ, "uint16", ints("65535")},
			fmtParam{typ, "uint8", ints("255", "128")},
			fmtParam{typ, "uint", ints("18446744073709551615")},
			fmtParam{typ, "int", ints("-9223372036854775808")},
		)
	}
	ps = append(ps,
		fmtParam{"string", "date", []fmtVal{{tm("2023-11-14T00:00:00Z"), "2023-11-14"}, {tm("0001-01-01T00:00:00Z"), "0001-01-01"}}},
		fmtParam{"string", "time", []fmtVal{{tm("0000-01-01T22:13:20Z"), "22:13:20"}, {tm("0000-01-01T00:00:00Z"), "00:00:00"}}},
		fmtParam{"string", "date-time", []fmtVal{{tm("2023-11-14T22:13:20Z"), "2023-11-14T22:13:20Z"}, {tm("2023-11-14T22:13:20+05:30"), "2023-11-14T22:13:20+05:30"}}},
		fmtParam{"string", "duration", []fmtVal{{num("3723000000000"), "1h2m3s"}, {num("0"), "0s"}, {num("-1500000000"), "-1.5s"}}},
		fmtParam{"string", "uuid", []fmtVal{{"123e4567-e89b-12d3-a456-426614174000", "123e4567-e89b-12d3-a456-426614174000"}}},
		fmtParam{"string", "ip", []fmtVal{{"1.2.3.4", "1.2.3.4"}, {"2001:db8::1", "2001:db8::1"}, {"::ffff:10.0.0.1", "::ffff:10.0.0.1"}}},
		fmtParam{"string", "ipv4", []fmtVal{{"255.255.255.255", "255.255.255.255"}}},
		fmtParam{"string", "ipv6", []fmtVal{{"::1", "::1"}, {"::ffff:192.0.2.1", "::ffff:192.0.2.1"}}},
		fmtParam{"string", "uri", []fmtVal{{"http://example.com/p?q=1#f", "http://example.com/p?q=1#f"}}},
		fmtParam{"number", "float", []fmtVal{{num("0.5"), "0.5"}, {num("16777216"), "16777216"}}},
		fmtParam{"number", "double", []fmtVal{{num("0.00000000001"), "0.00000000001"}, {num("-2.5"), "-2.5"}}},
		fmtParam{"string", "float64", []fmtVal{{num("0.1"), "0.1"}}},
		fmtParam{"boolean", "", []fmtVal{{true, "true"}, {false, "false"}}},
	)
	return ps
}

func c13Generated(r *lp.Run) {
	scratch := os.Getenv("VERIF_SCRATCH")
	if scratch == "" {
		scratch = "/var/tmp"
	}
	mod, err := gc.NewModule(filepath.Join(scratch, fmt.Sprintf("gc-c13-%d", os.Getpid())))
	if err != nil {
		panic(err)
	}
	defer os.RemoveAll(mod.Dir)
	ps := fmtParams()
	paths := map[string]any{}
	for i, p := range ps {
		schema := map[string]any{"type": p.typ}
		if p.format != "" {
			schema["format"] = p.format
		}
		for _, loc := range []string{"query", "header"} {
			name := fmt.Sprintf("%s%d", loc[:1], i)
			paths["/"+name] = map[string]any{"get": map[string]any{"operationId": name,
				"parameters": []any{map[string]any{"name": "p", "in": loc, "required": true, "schema": schema}},
				"responses":  map[string]any{"200": map[string]any{"description": "ok"}}}}
		}
	}
	doc, _ := json.Marshal(map[string]any{"openapi": "3.0.3", "info": map[string]any{"title": "t", "version": "1"}, "paths": paths})
	pkg, err := mod.Add("fp", doc, gen.Options{})
	if err != nil {
		r.Fail(lp.PropFail{Property: "C13", What: "the generator refuses the parameter-format spec", Input: string(doc), Observed: err.Error(), Expected: "generated package"})
		return
	}
	bin, err := mod.Build()
	if err != nil {
		r.Fail(lp.PropFail{Property: "C02", What: "generated packages do not compile", Input: "C13 parameter formats", Observed: err.Error(), Expected: "compiles"})
		return
	}
	drv, err := gc.Start(bin)
	if err != nil {
		panic(err)
	}
	defer drv.Close()
	byID := map[string]gc.OpInfo{}
	for _, oi := range pkg.Ops {
		byID[oi.OperationID] = oi
	}
	for i, p := range ps {
		for _, loc := range []string{"query", "header"} {
			oi, ok := byID[fmt.Sprintf("%s%d", loc[:1], i)]
			if !ok || len(oi.Params) != 1 {
				r.Fail(lp.PropFail{Property: "C13", What: "operation of the parameter-format spec is missing from the IR", Input: p.format, Observed: fmt.Sprint(oi), Expected: "one parameter"})
				continue
			}
			for _, v := range p.vals {
				ans, _ := drv.Do(map[string]any{"pkg": pkg.Name, "cmd": "call", "op": oi.Name, "params": map[string]any{oi.Params[0].Field: v.desc}})
				in := map[string]any{"location": loc, "schema_type": p.typ, "format": p.format, "value": v.desc, "prescribed_text": v.wire}
				r.PropCheck()
				r.Count("c13 gen "+loc+p.typ+p.format+v.wire, "generated-param:"+p.typ+"/"+p.format, true)
				if ans["error"] != nil || ans["crash"] != nil || ans["driver_panic"] != nil {
					r.Fail(lp.PropFail{Property: "C13", What: "driver failure", Input: in, Observed: fmt.Sprint(ans["error"], ans["crash"], ans["driver_panic"]), Expected: "a call"})
					continue
				}
				given, _ := ans["given"].(map[string]any)
				srv, _ := ans["server"].(map[string]any)
				wire, _ := ans["wire"].(map[string]any)
				got := ""
				if wire != nil {
					if loc == "query" {
						if u, err := url.Parse(fmt.Sprint(wire["uri"])); err == nil {
							got = u.Query().Get("p")
						}
					} else if h, ok := wire["header"].(map[string]any); ok {
						if xs, ok := h["P"].([]any); ok && len(xs) > 0 {
							got = fmt.Sprint(xs[0])
						}
					}
				}
				if got != v.wire {
					r.Fail(lp.PropFail{Property: "C13", What: "the generated client does not write the text the declared format prescribes", Input: in, Observed: got, Expected: v.wire})
					continue
				}
				if srv == nil || fmt.Sprint(srv["handler_called"]) == "0" {
					r.Fail(lp.PropFail{Property: "C13", What: "the generated server refuses the text its own client wrote", Input: in, Observed: fmt.Sprint(ans["status"], " ", ans["client"]), Expected: "handler invoked"})
					continue
				}
				if fmt.Sprint(srv["params"]) != fmt.Sprint(given["params"]) {
					r.Fail(lp.PropFail{Property: "C13", What: "the value that arrives differs from the value sent", Input: in, Observed: fmt.Sprint(srv["params"]), Expected: fmt.Sprint(given["params"])})
				}
			}
		}
	}
}

// Unix timestamps against the Lean model (UnixT): text → time.Time → (sec, nsec) and back to the integer
func c13Unix(r *lp.Run, rng *lp.Rand) {
	type unit struct {
		name string
		from func(string) (time.Time, error)
		to   func(time.Time) string
	}
	units := []unit{
		{"seconds", conv.ToUnixSeconds, conv.UnixSecondsToString},
		{"milli", conv.ToUnixMilli, conv.UnixMilliToString},
		{"micro", conv.ToUnixMicro, conv.UnixMicroToString},
		{"nano", conv.ToUnixNano, conv.UnixNanoToString},
	}
	var vals []int64
	for _, b := range []int64{0, 1, -1, 999, 1000, -999, -1000, -1001, 999999, 1000000, -1000001, 999999999, 1000000000, -1000000001, 1700000000, 1700000000123, 1700000000123456, 1700000000123456789, math.MaxInt64, math.MinInt64, math.MaxInt64 - 1, math.MinInt64 + 1, 1 << 53, -(1 << 53)} {
		vals = append(vals, b)
	}
	for i := 0; i < r.N(3000, 100000); i++ {
		v := int64(rng.Uint64()) >> uint(rng.Intn(64))
		if rng.Bool() {
			v = -v
		}
		vals = append(vals, v)
	}
	for _, u := range units {
		for _, v := range vals {
			if u.name == "seconds" && (v > 1<<55 || v < -(1<<55)) {
				continue // time.Time's own range: seconds beyond ±2^55 overflow the internal representation
			}
			s := strconv.FormatInt(v, 10)
			out := lp.Guard(func() string {
				t, err := u.from(s)
				if err != nil {
					return "err"
				}
				return fmt.Sprintf("%d %d %s", t.Unix(), t.Nanosecond(), u.to(t))
			})
			r.Case("unixt", u.name+" "+s, out, "unix:"+u.name, true)
			r.PropCheck()
			if f := strings.Fields(out); len(f) != 3 || f[2] != s {
				r.Fail(lp.PropFail{Property: "C13", What: "unix-" + u.name + ": text does not parse back to the same text", Input: map[string]string{"text": s}, Observed: out, Expected: "… " + s})
			}
		}
	}
}
