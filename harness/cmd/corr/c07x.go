package main

import (
	"context"
	"encoding/json"
	"fmt"
	"net/url"
	"os"
	"path/filepath"
	"strings"

	"github.com/ogen-go/ogen"
	"github.com/ogen-go/ogen/openapi"
	"github.com/ogen-go/ogen/openapi/parser"

	"verifharness/internal/gc"
	"verifharness/internal/lp"
)

// ---- externalised components: the same document with every component moved to a second file ----

type mapResolver map[string][]byte

func (m mapResolver) Get(_ context.Context, loc string) ([]byte, error) {
	for k, v := range m {
		if strings.HasSuffix(loc, k) {
			return v, nil
		}
	}
	return nil, fmt.Errorf("no such document %q", loc)
}

// decoy components: valid, but different from every real component (so that answering a reference of the
// external file from the root document shows in the projection)
func decoyFor(kind string) any {
	switch kind {
	case "schemas":
		return M{"type": "boolean", "description": "decoy"}
	case "parameters":
		return M{"name": "decoy", "in": "header", "schema": M{"type": "boolean"}, "description": "decoy"}
	case "headers":
		return M{"schema": M{"type": "boolean"}, "description": "decoy"}
	case "responses":
		return M{"description": "decoy"}
	case "requestBodies":
		return M{"required": true, "content": M{"text/plain": M{"schema": M{"type": "string"}}}}
	case "pathItems":
		return M{"delete": M{"responses": M{"200": M{"description": "decoy"}}}}
	}
	return M{}
}

func rewriteRefs(v any, f func(string) string) any {
	switch t := v.(type) {
	case map[string]any:
		out := map[string]any{}
		for k, e := range t {
			if s, ok := e.(string); ok && k == "$ref" {
				out[k] = f(s)
				continue
			}
			out[k] = rewriteRefs(e, f)
		}
		return out
	case []any:
		out := make([]any, len(t))
		for i, e := range t {
			out[i] = rewriteRefs(e, f)
		}
		return out
	}
	return v
}

// externalise returns (root, ext): root keeps the paths with their references pointing into ext.json and
// gets decoy components of the same names; ext.json holds the real components with their local references.
func externalise(spec M, decoys bool) (M, M) {
	spec = cloneJSON(spec).(M)
	comps, _ := spec["components"].(M)
	root := M{}
	for k, v := range spec {
		if k != "components" {
			root[k] = rewriteRefs(v, func(s string) string {
				if strings.HasPrefix(s, "#/components/") {
					return "ext.json" + s
				}
				return s
			})
		}
	}
	if decoys {
		dc := M{}
		for kind, m := range comps {
			km := M{}
			for name := range m.(M) {
				km[name] = decoyFor(kind)
			}
			dc[kind] = km
		}
		root["components"] = dc
	}
	ext := M{"components": comps}
	return root, ext
}

type urlPair struct{ root, ref, abs string }

var urlPairs = []urlPair{
	{"https://specs.example/openapi?doc=root", "?doc=ext", "https://specs.example/openapi?doc=ext"},
	{"https://specs.example/a/root.json", "ext.json", "https://specs.example/a/ext.json"},
	{"https://specs.example/root.json", "https://other.example/root.json", "https://other.example/root.json"},
	{"https://specs.example/root.json", "http://specs.example/root.json", "http://specs.example/root.json"},
	{"https://specs.example:8443/root.json", "https://specs.example:9443/root.json", "https://specs.example:9443/root.json"},
	{"https://specs.example/root.json?v=1", "https://specs.example/root.json?v=2", "https://specs.example/root.json?v=2"},
	{"https://specs.example/a/b/root.json", "../root.json", "https://specs.example/a/root.json"},
	{"https://specs.example/root.json?v=1", "root.json", "https://specs.example/root.json"},
}

// externaliseTo: externalise with decoys, the references written with the given prefix
func externaliseTo(spec M, prefix string) (M, M) {
	root, ext := externalise(spec, true)
	root = rewriteRefs(root, func(s string) string {
		if strings.HasPrefix(s, "ext.json#") {
			return prefix + strings.TrimPrefix(s, "ext.json")
		}
		return s
	}).(M)
	return root, ext
}

type exactResolver map[string][]byte

func (m exactResolver) Get(_ context.Context, loc string) ([]byte, error) {
	if v, ok := m[loc]; ok {
		return v, nil
	}
	return nil, fmt.Errorf("no such document %q", loc)
}

func parseProjectURL(root M, ext M, rootURL, extURL string) (string, error) {
	data, _ := json.Marshal(root)
	extData, _ := json.Marshal(ext)
	var out string
	var perr error
	res := lp.Guard(func() string {
		s, err := ogen.Parse(data)
		if err != nil {
			perr = err
			return ""
		}
		ru, _ := url.Parse(rootURL)
		api, err := parser.Parse(s, parser.Settings{External: exactResolver{extURL: extData}, RootURL: ru})
		if err != nil {
			perr = err
			return ""
		}
		out = projectAPI(api)
		return ""
	})
	if res == "panic" {
		return "", fmt.Errorf("panic")
	}
	return out, perr
}

func parseProjectExt(root M, ext M) (string, error) {
	data, _ := json.Marshal(root)
	extData, _ := json.Marshal(ext)
	var out string
	var perr error
	res := lp.Guard(func() string {
		s, err := ogen.Parse(data)
		if err != nil {
			perr = err
			return ""
		}
		api, err := parser.Parse(s, parser.Settings{External: mapResolver{"ext.json": extData}})
		if err != nil {
			perr = err
			return ""
		}
		out = projectAPI(api)
		return ""
	})
	if res == "panic" {
		return "", fmt.Errorf("panic")
	}
	return out, perr
}

// ---- adversarial component names ----

// cutsetWord: a word made only of characters that occur in "#/components/<kind>/"
var cutsetWord = map[string]string{"schemas": "mesh", "parameters": "pets", "headers": "seed", "responses": "person", "requestBodies": "step", "pathItems": "path"}

// renameAdversarial renames, per kind, one component to <cutset word><name of a sibling> (and, half of the
// time, others to names with escapes and prefixes of siblings); every reference is renamed with it.
func renameAdversarial(rng *lp.Rand, spec M) (M, map[string]string) {
	spec = cloneJSON(spec).(M)
	comps, _ := spec["components"].(M)
	mapping := map[string]string{}
	for kind, m := range comps {
		var names []string
		for n := range m.(M) {
			names = append(names, n)
		}
		sortStrings(names)
		if len(names) < 2 {
			if len(names) == 1 && rng.Bool() {
				mapping["#/components/"+kind+"/"+names[0]] = "#/components/" + kind + "/" + cutsetWord[kind] + cutsetWord[kind]
			}
			continue
		}
		i := rng.Intn(len(names))
		j := (i + 1 + rng.Intn(len(names)-1)) % len(names)
		// names[i] becomes <word><names[j]>; names[j] keeps its name
		mapping["#/components/"+kind+"/"+names[i]] = "#/components/" + kind + "/" + cutsetWord[kind] + names[j]
		for k, n := range names {
			if k == i || k == j || !rng.Chance(40) {
				continue
			}
			alt := lp.Pick(rng, []string{n + "." + names[j], names[j] + "_", names[j] + "." + n, n + "-", "x" + n, cutsetWord[kind] + "." + n})
			mapping["#/components/"+kind+"/"+n] = "#/components/" + kind + "/" + alt
		}
	}
	unesc := func(s string) string { return strings.ReplaceAll(strings.ReplaceAll(s, "~1", "/"), "~0", "~") }
	out := rewriteRefs(spec, func(s string) string {
		if n, ok := mapping[s]; ok {
			return n
		}
		return s
	}).(M)
	oc, _ := out["components"].(M)
	for kind, m := range oc {
		km := M{}
		for n, v := range m.(M) {
			if nn, ok := mapping["#/components/"+kind+"/"+n]; ok {
				km[unesc(nn[strings.LastIndex(nn, "/")+1:])] = v
			} else {
				km[n] = v
			}
		}
		oc[kind] = km
	}
	return out, mapping
}

func sortStrings(xs []string) {
	for i := 1; i < len(xs); i++ {
		for j := i; j > 0 && xs[j] < xs[j-1]; j-- {
			xs[j], xs[j-1] = xs[j-1], xs[j]
		}
	}
}

// refVariants compares a document with its externalised and adversarially renamed forms.
func refVariants(r *lp.Run, rng *lp.Rand, prop string, n int, kinds ...string) {
	for i := 0; i < n; i++ {
		spec := genRefSpec(rng)
		a, errA := parseProject(spec)
		doc, _ := json.Marshal(spec)
		for _, kind := range kinds {
			var b string
			var errB error
			in := map[string]any{"document": json.RawMessage(doc), "compared_with": kind}
			switch kind {
			case "components moved to an external file":
				root, ext := externalise(spec, false)
				b, errB = parseProjectExt(root, ext)
				rb, _ := json.Marshal(root)
				eb, _ := json.Marshal(ext)
				in["root"], in["ext.json"] = json.RawMessage(rb), json.RawMessage(eb)
			case "components moved to an external file, root has decoys of the same names":
				root, ext := externalise(spec, true)
				b, errB = parseProjectExt(root, ext)
				rb, _ := json.Marshal(root)
				eb, _ := json.Marshal(ext)
				in["root"], in["ext.json"] = json.RawMessage(rb), json.RawMessage(eb)
			case "components moved to a document addressed by URL (the root has a URL of its own and decoys of the same names)":
				// the external document differs from the root's own URL in exactly one component (query, path, host,
				// scheme, port); a reference into it must not be answered from the root
				u := urlPairs[i%len(urlPairs)]
				root, ext := externaliseTo(spec, u.ref)
				b, errB = parseProjectURL(root, ext, u.root, u.abs)
				rb, _ := json.Marshal(root)
				eb, _ := json.Marshal(ext)
				in["root"], in["root_url"], in["external_document"], in["external_url"], in["reference_prefix"] = json.RawMessage(rb), u.root, json.RawMessage(eb), u.abs, u.ref
			case "components moved under an extension key of the same document (components keeps decoys of the same names)":
				// a local reference outside #/components/<kind>/ must not be answered from the components map
				root, ext := externalise(spec, true)
				toShared := func(prefix string) func(string) string {
					return func(s string) string {
						if strings.HasPrefix(s, prefix) {
							return "#/x-shared/" + strings.TrimPrefix(s, prefix)
						}
						return s
					}
				}
				root = rewriteRefs(root, toShared("ext.json#/components/")).(M)
				root["x-shared"] = rewriteRefs(ext["components"], toShared("#/components/"))
				b, errB = parseProject(root)
				rb, _ := json.Marshal(root)
				in["moved"] = json.RawMessage(rb)
			case "components renamed (names made of the prefix's characters, dotted and prefixed sibling names)":
				ren, mapping := renameAdversarial(rng, spec)
				b, errB = parseProject(ren)
				rb, _ := json.Marshal(ren)
				in["renamed"], in["mapping"] = json.RawMessage(rb), mapping
			}
			r.Count(fmt.Sprintf("refvariant %s %d %s", prop, i, kind), "variant:"+kind, true)
			r.PropCheck()
			switch {
			case (errA == nil) != (errB == nil):
				r.Fail(lp.PropFail{Property: prop, What: "a document and the same document with " + kind + " are not both accepted", Input: in, Observed: fmt.Sprint(errA, " | ", errB), Expected: "same outcome"})
			case errA == nil && a != b:
				la, lb := strings.Split(a, "\n"), strings.Split(b, "\n")
				d := "operation count differs"
				for k := range la {
					if k < len(lb) && la[k] != lb[k] {
						d = "original: " + la[k] + "  ||  variant: " + lb[k]
						break
					}
				}
				r.Fail(lp.PropFail{Property: prop, What: "a reference does not designate the same component after: " + kind, Input: in, Observed: d, Expected: "identical parsed API"})
			}
		}
	}
}

// ---- schema cycles yield recursive types: the generated package must compile ----

func c07Recursion(r *lp.Run, rng *lp.Rand) {
	scratch := os.Getenv("VERIF_SCRATCH")
	if scratch == "" {
		scratch = "/var/tmp"
	}
	mod, err := gc.NewModule(filepath.Join(scratch, fmt.Sprintf("gc-c07-%d", os.Getpid())))
	if err != nil {
		panic(err)
	}
	defer os.RemoveAll(mod.Dir)
	ref := func(n string) M { return M{"$ref": "#/components/schemas/" + n} }
	var jobs []*c02Job
	edgeKinds := []string{"optional", "array", "nullable-optional", "map", "oneOf", "array-of-array", "optional-nullable-ref", "inline-sum", "inline-sum-behind", "inline-anyOf-behind"}
	wheres := []string{"request body", "response", "webhook only", "webhook and path", "parameter content"}
	n := len(edgeKinds)*len(wheres) + r.N(15, 300)
	for i := 0; i < n; i++ {
		// a cycle N0 -> N1 -> … -> N(k-1) -> N0 through a kind of edge each: every (edge kind, place of use) with a
		// self-reference first, then random longer cycles
		k := 1
		systematic := i < len(edgeKinds)*len(wheres)
		if !systematic {
			k = 2 + rng.Intn(2)
		}
		schemas := M{}
		var edges []string
		for j := 0; j < k; j++ {
			next := fmt.Sprintf("N%d", (j+1)%k)
			props := M{"v": M{"type": "string"}}
			edge := lp.Pick(rng, edgeKinds)
			if systematic {
				edge = edgeKinds[i%len(edgeKinds)]
			}
			switch edge {
			case "optional":
				props["next"] = ref(next)
			case "array":
				props["next"] = M{"type": "array", "items": ref(next)}
			case "nullable-optional":
				props["next"] = M{"nullable": true, "allOf": []any{ref(next)}}
			case "map":
				props["next"] = M{"type": "object", "additionalProperties": ref(next)}
			case "oneOf":
				props["next"] = M{"oneOf": []any{ref(next), M{"type": "string"}}}
			case "array-of-array":
				props["next"] = M{"type": "array", "items": M{"type": "array", "items": ref(next)}}
			case "optional-nullable-ref":
				props["next"] = ref(next)
			}
			s := M{"type": "object", "properties": props}
			// an object that has properties *and* a oneOf/anyOf of objects holds its variants by value in an inlined sum
			// field; the cycle runs through one variant
			if strings.HasPrefix(edge, "inline-") {
				kw := "oneOf"
				if strings.Contains(edge, "anyOf") {
					kw = "anyOf"
				}
				fv, dv := fmt.Sprintf("F%d", j), fmt.Sprintf("D%d", j)
				schemas[fv] = M{"type": "object", "required": []any{"size"}, "properties": M{"size": M{"type": "integer"}}}
				schemas[dv] = M{"type": "object", "required": []any{"count"}, "properties": M{"count": M{"type": "integer"}, "folder": ref(next)}}
				sum := M{"type": "object", "required": []any{"id"}, "properties": M{"id": M{"type": "string"}}, kw: []any{ref(fv), ref(dv)}}
				if edge == "inline-sum" {
					s = sum
				} else {
					ev := fmt.Sprintf("E%d", j)
					schemas[ev] = sum
					props["entry"] = ref(ev)
				}
			}
			if edge == "optional-nullable-ref" {
				schemas[next+"Wrap"] = s
			}
			schemas[fmt.Sprintf("N%d", j)] = s
			edges = append(edges, edge)
		}
		where := lp.Pick(rng, wheres)
		if systematic {
			where = wheres[i/len(edgeKinds)]
		}
		js := M{"application/json": M{"schema": ref("N0")}}
		op := func(id string) M {
			return M{"operationId": id, "requestBody": M{"content": js}, "responses": M{"200": M{"description": "ok", "content": js}}}
		}
		doc := M{"openapi": "3.1.0", "info": M{"title": "t", "version": "1"}, "components": M{"schemas": schemas}}
		plain := M{"/plain": M{"get": M{"operationId": "plain", "responses": M{"200": M{"description": "ok"}}}}}
		switch where {
		case "request body":
			doc["paths"] = M{"/a": M{"post": M{"operationId": "a", "requestBody": M{"content": js}, "responses": M{"200": M{"description": "ok"}}}}}
		case "response":
			doc["paths"] = M{"/a": M{"get": M{"operationId": "a", "responses": M{"200": M{"description": "ok", "content": js}}}}}
		case "webhook only":
			doc["paths"] = plain
			doc["webhooks"] = M{"hook": M{"post": op("hook")}}
		case "webhook and path":
			doc["paths"] = M{"/a": M{"post": op("a")}}
			doc["webhooks"] = M{"hook": M{"post": op("hook")}}
		case "parameter content":
			doc["paths"] = M{"/a": M{"get": M{"operationId": "a", "parameters": []any{M{"name": "p", "in": "query", "content": js}}, "responses": M{"200": M{"description": "ok"}}}}}
		}
		b, _ := json.Marshal(doc)
		j := &c02Job{pkg: fmt.Sprintf("rec%03d", i), label: "recursion", what: fmt.Sprintf("cycle of %d schemas through %v, reachable from: %s", k, edges, where), spec: b}
		jobs = append(jobs, j)
	}
	ok := map[string]*c02Job{}
	for _, j := range jobs {
		c02Generate(j, mod.Dir)
		r.Count("c07 rec "+j.what+string(j.spec), "recursion:"+j.outcome, j.outcome == "ok")
		r.PropCheck()
		switch j.outcome {
		case "ok":
			ok[j.pkg] = j
		case "rejected":
		default:
			r.Fail(lp.PropFail{Property: "C07", What: "a schema cycle makes generation fail without a diagnostic (" + j.outcome + ")", Input: j.input(), Observed: trunc200(j.msg), Expected: "recursive types or a located error"})
		}
	}
	if len(ok) == 0 {
		return
	}
	fails := goTool(mod.Dir, "vet", "-asmdecl", "./...")
	for p, m := range fails {
		j, known := ok[p]
		if !known {
			r.Fail(lp.PropFail{Property: "C07", What: "type check of the scratch module fails outside a generated package", Input: p, Observed: truncN(m, 500), Expected: "ok"})
			continue
		}
		f := lp.PropFail{Property: "C07", What: "a schema cycle does not yield a recursive type that compiles", Input: j.input(), Observed: truncN(m, 600), Expected: "the generated package type-checks"}
		r.Fail(f)
	}
}

// ---- the dereferenced spec parses back to an equivalent API ----

func parseAPIExt(root M, files map[string][]byte) (*openapi.API, error) {
	data, _ := json.Marshal(root)
	var api *openapi.API
	var perr error
	res := lp.Guard(func() string {
		s, err := ogen.Parse(data)
		if err != nil {
			perr = err
			return ""
		}
		settings := parser.Settings{}
		if files != nil {
			settings.External = mapResolver(files)
		}
		api, perr = parser.Parse(s, settings)
		return ""
	})
	if res == "panic" {
		return nil, fmt.Errorf("panic")
	}
	return api, perr
}

// twoFiles: a.json holds the components as they are, b.json the same names with the contents of the first two
// components of every kind swapped; the root refers to a.json and b.json alternately
func twoFiles(spec M) (M, map[string][]byte) {
	spec = cloneJSON(spec).(M)
	comps, _ := spec["components"].(M)
	swapped := cloneJSON(comps).(M)
	for _, m := range swapped {
		km := m.(M)
		var names []string
		for n := range km {
			names = append(names, n)
		}
		sortStrings(names)
		if len(names) >= 2 {
			km[names[0]], km[names[1]] = km[names[1]], km[names[0]]
		}
	}
	n := 0
	root := M{}
	for k, v := range spec {
		if k != "components" {
			root[k] = rewriteRefs(v, func(s string) string {
				if strings.HasPrefix(s, "#/components/") {
					n++
					if n%2 == 0 {
						return "b.json" + s
					}
					return "a.json" + s
				}
				return s
			})
		}
	}
	a, _ := json.Marshal(M{"components": comps})
	b, _ := json.Marshal(M{"components": swapped})
	return root, map[string][]byte{"a.json": a, "b.json": b}
}

func c07Expand(r *lp.Run, rng *lp.Rand) {
	n := r.N(120, 2500)
	for i := 0; i < n; i++ {
		spec := genRefSpec(rng)
		type variant struct {
			name  string
			root  M
			files map[string][]byte
		}
		vs := []variant{{"single file", spec, nil}}
		{
			root, ext := externalise(spec, rng.Bool())
			eb, _ := json.Marshal(ext)
			vs = append(vs, variant{"components in one external file", root, map[string][]byte{"ext.json": eb}})
		}
		{
			root, files := twoFiles(spec)
			vs = append(vs, variant{"components in two external files with the same names and different contents", root, files})
		}
		for _, v := range vs {
			api, err := parseAPIExt(v.root, v.files)
			if err != nil {
				r.Count(fmt.Sprintf("expand %d %s", i, v.name), "expand:"+v.name+":parse-refused", false)
				continue
			}
			want := projectAPI(api)
			var expanded []byte
			var eerr error
			res := lp.Guard(func() string {
				sp, err := parser.Expand(api)
				if err != nil {
					eerr = err
					return ""
				}
				expanded, eerr = json.Marshal(sp)
				return ""
			})
			rb, _ := json.Marshal(v.root)
			in := map[string]any{"variant": v.name, "root": json.RawMessage(rb)}
			for k, f := range v.files {
				in[k] = json.RawMessage(f)
			}
			r.PropCheck()
			if res == "panic" {
				r.Count(fmt.Sprintf("expand %d %s", i, v.name), "expand:"+v.name+":panic", true)
				r.Fail(lp.PropFail{Property: "C07", What: "emitting the dereferenced spec panics", Input: in, Observed: "panic", Expected: "a spec or an error"})
				continue
			}
			if eerr != nil {
				r.Count(fmt.Sprintf("expand %d %s", i, v.name), "expand:"+v.name+":refused", true)
				// a located refusal (a name conflict between files) is an allowed outcome — but a document in one file
				// that parsed (recursive schemas included) has nothing that could conflict: it must be emitted
				if v.files == nil {
					r.Fail(lp.PropFail{Property: "C07", What: "a single-file document that parses cannot be emitted in dereferenced form", Input: in, Observed: eerr.Error(), Expected: "a dereferenced spec"})
				}
				continue
			}
			var got string
			{
				var perr error
				res := lp.Guard(func() string {
					s, err := ogen.Parse(expanded)
					if err != nil {
						perr = err
						return ""
					}
					a2, err := parser.Parse(s, parser.Settings{})
					if err != nil {
						perr = err
						return ""
					}
					got = projectAPI(a2)
					return ""
				})
				if res == "panic" {
					perr = fmt.Errorf("panic")
				}
				err = perr
			}
			in["dereferenced"] = json.RawMessage(expanded)
			r.Count(fmt.Sprintf("expand %d %s", i, v.name), "expand:"+v.name+":emitted", true)
			switch {
			case err != nil:
				r.Fail(lp.PropFail{Property: "C07", What: "the dereferenced spec ogen emits does not parse", Input: in, Observed: err.Error(), Expected: "parses back to an equivalent API"})
			case got != want:
				la, lb := strings.Split(want, "\n"), strings.Split(got, "\n")
				d := "operation count differs"
				for k := range la {
					if k < len(lb) && la[k] != lb[k] {
						d = "original: " + la[k] + "  ||  parsed back: " + lb[k]
						break
					}
				}
				r.Fail(lp.PropFail{Property: "C07", What: "the dereferenced spec parses back to a different API", Input: in, Observed: d, Expected: "identical parsed API"})
			}
		}
	}
}

// ---- acyclic composition graphs (diamonds: a component referenced directly and again through a sibling) must
// never be refused as infinite recursion ----

func c07CompositionDAGs(r *lp.Run, rng *lp.Rand) {
	kw := []string{"oneOf", "anyOf", "allOf"}
	n := r.N(150, 3000)
	for i := 0; i < n; i++ {
		k := 3 + rng.Intn(3)
		schemas := M{}
		// leaves are objects with distinct required properties (so that oneOf variants can be told apart)
		schemas[fmt.Sprintf("N%d", k-1)] = M{"type": "object", "required": []any{"base"}, "properties": M{"base": M{"type": "string"}}}
		for j := k - 2; j >= 0; j-- {
			// refers only to higher-numbered schemas: acyclic by construction; several members may share a target
			var members []any
			cnt := 1 + rng.Intn(3)
			for q := 0; q < cnt; q++ {
				t := j + 1 + rng.Intn(k-1-j)
				if rng.Chance(25) {
					members = append(members, M{lp.Pick(rng, kw): []any{M{"$ref": fmt.Sprintf("#/components/schemas/N%d", t)}}})
				} else {
					members = append(members, M{"$ref": fmt.Sprintf("#/components/schemas/N%d", t)})
				}
			}
			key := lp.Pick(rng, kw)
			if key == "allOf" {
				members = append(members, M{"type": "object", "properties": M{fmt.Sprintf("p%d", j): M{"type": "integer"}}})
			}
			schemas[fmt.Sprintf("N%d", j)] = M{key: members}
		}
		doc := M{"openapi": "3.0.3", "info": M{"title": "t", "version": "1"},
			"paths":      M{"/a": M{"post": M{"operationId": "a", "requestBody": M{"content": M{"application/json": M{"schema": M{"$ref": "#/components/schemas/N0"}}}}, "responses": M{"200": M{"description": "ok"}}}}},
			"components": M{"schemas": schemas}}
		b, _ := json.Marshal(doc)
		o := runGeneratorBatch([][]byte{b}, 1)[0]
		r.Count(fmt.Sprintf("dag %d", i), "composition-dag:"+o.kind, true)
		r.PropCheck()
		if strings.Contains(o.msg, "infinite recursion") {
			r.Fail(lp.PropFail{Property: "C07", What: "an acyclic composition (a component reached directly and again through a sibling) is refused as infinite recursion", Input: map[string]any{"document": json.RawMessage(b)}, Observed: trunc200(o.msg), Expected: "types, or a diagnostic about something else"})
		}
		if o.kind == "panic" || o.kind == "fatal" || o.kind == "timeout" {
			r.Fail(lp.PropFail{Property: "C07", What: "an acyclic composition makes generation fail without a diagnostic (" + o.kind + ")", Input: map[string]any{"document": json.RawMessage(b)}, Observed: trunc200(o.msg), Expected: "types or a diagnostic"})
		}
	}
}
