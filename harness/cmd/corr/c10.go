package main

// C10 — generation is deterministic and free of data races.
//
// Correspondence with the Lean model GenOrder (driver tags sortkeys / collect / writers):
//   - xmaps.SortedKeys on string sets filled in random orders,
//   - TemplateConfig.RegexStrings / RatStrings on random type graphs spread over the Types / Interfaces maps,
//     the error type and operations (each evaluated several times: Go re-randomises the map order),
//   - the observed completion order of WriteSource's parallel writers against the model's file system.
// Search for a failing input (the part no theorem covers: every other map range of the generator, the
// templates, the Go runtime): every document is generated several times in one process — fresh parse each
// time, GOMAXPROCS varied, documents interleaved in different orders, the buffer pool poisoned — and the bytes
// are compared; a child built with -race repeats generations under the race detector.

import (
	"bytes"
	"crypto/sha256"
	"encoding/hex"
	"encoding/json"
	"fmt"
	"math/big"
	"os"
	"os/exec"
	"path/filepath"
	"runtime"
	"sort"
	"strconv"
	"strings"
	"sync"
	"time"

	"github.com/ogen-go/ogen"
	"github.com/ogen-go/ogen/gen"
	"github.com/ogen-go/ogen/gen/ir"
	"github.com/ogen-go/ogen/ogenregex"

	"verifharness/internal/lp"
)

func init() { suites["c10"] = c10 }

func c10(r *lp.Run) {
	r.SetRule("model = code for SortedKeys / collectStrings / the writers' file system; every document generated repeatedly (fresh parse, GOMAXPROCS 1..16, interleaved with other documents, poisoned buffer pool) must give byte-identical files and the same outcome; no report from the race detector")
	rng := r.Rng
	c10Sorted(r, rng.Fork(1))
	c10Collect(r, rng.Fork(2))
	c10RespOrder(r, rng.Fork(4))
	c10NameSorts(r, rng.Fork(5))
	c10Repeat(r, rng.Fork(3))
	c10Race(r)
}

func c10KeyHex(s string) string {
	if s == "" {
		return "-"
	}
	return hex.EncodeToString([]byte(s))
}

func c10KeysHex(ks []string) string {
	if len(ks) == 0 {
		return "_"
	}
	out := make([]string, len(ks))
	for i, k := range ks {
		out[i] = c10KeyHex(k)
	}
	return strings.Join(out, ",")
}

// --- xmaps.SortedKeys ------------------------------------------------------------------------------------

func c10Sorted(r *lp.Run, rng *lp.Rand) {
	alpha := []string{"a", "b", "A", "~", "0", "\x00", "\xff", "é", "aa", "ab", "-", "_", "{", "z"}
	for i := 0; i < r.N(1500, 20000); i++ {
		n := rng.Intn(9)
		var keys []string
		for k := 0; k < n; k++ {
			var sb strings.Builder
			for l := rng.Intn(4); l > 0; l-- {
				sb.WriteString(lp.Pick(rng, alpha))
			}
			if rng.Chance(10) {
				sb.WriteByte(byte(rng.Intn(256)))
			}
			keys = append(keys, sb.String())
			if rng.Chance(15) && len(keys) > 0 {
				keys = append(keys, keys[rng.Intn(len(keys))]) // a key put twice
			}
		}
		m := map[string]struct{}{}
		for _, k := range keys {
			m[k] = struct{}{}
		}
		got := lp.Guard(func() string { return c10KeysHex(gen.VerifSortedKeys(m)) })
		// the property on the implementation: sorted, duplicate-free, same members, same answer every time
		r.PropCheck()
		again := lp.Guard(func() string { return c10KeysHex(gen.VerifSortedKeys(m)) })
		ks := gen.VerifSortedKeys(m)
		ok := got == again && len(ks) == len(m) && sort.StringsAreSorted(ks)
		for _, k := range ks {
			if _, in := m[k]; !in {
				ok = false
			}
		}
		if !ok {
			r.Fail(lp.PropFail{Property: "C10", What: "SortedKeys is not the sorted list of the map's keys", Input: keys, Observed: got + " / " + again, Expected: "strictly ascending keys of the set, the same on every call"})
		}
		r.Case("sortkeys", c10KeysHex(keys), got, "sortkeys", len(m) > 1)
		r.SizeN("keys", len(m))
	}
}

// --- collectStrings --------------------------------------------------------------------------------------

type c10Node struct {
	pats []string // regex patterns (String.Regex, MapPattern)
	rat  *big.Rat
	kids []int // slots: fields…, sums…, alias, pointer, generic, item  (>= len(nodes) stands for nil)
	nf   int   // number of field slots
	ns   int   // number of sum slots
}

func c10Collect(r *lp.Run, rng *lp.Rand) {
	pats := []string{"a", "b+", "^c$", "[a-z]+", "^\\d{3}$", "x|y", "^(?:ab)*$", "\\s", "A", "~", "é", "a", "b+"}
	for i := 0; i < r.N(400, 6000); i++ {
		n := 1 + rng.Intn(10)
		nodes := make([]c10Node, n)
		pick := func() int {
			if rng.Chance(15) {
				return n + rng.Intn(3) // nil
			}
			return rng.Intn(n)
		}
		for k := range nodes {
			nd := &nodes[k]
			for c := rng.Intn(3); c > 0 && len(nd.pats) < 2; c-- {
				nd.pats = append(nd.pats, lp.Pick(rng, pats))
			}
			if rng.Chance(40) {
				nd.rat = big.NewRat(int64(1+rng.Intn(6)), int64(1+rng.Intn(4)))
			}
			nd.nf = rng.Intn(3)
			nd.ns = rng.Intn(3)
			for s := 0; s < nd.nf+nd.ns; s++ {
				nd.kids = append(nd.kids, pick())
			}
			for s := 0; s < 4; s++ {
				if rng.Chance(30) {
					nd.kids = append(nd.kids, pick())
				} else {
					nd.kids = append(nd.kids, n+9)
				}
			}
		}
		// build the real types
		types := make([]*ir.Type, n)
		for k := range types {
			types[k] = &ir.Type{Name: fmt.Sprintf("T%d", k)}
		}
		at := func(j int) *ir.Type {
			if j >= n {
				return nil
			}
			return types[j]
		}
		bad := false
		for k, nd := range nodes {
			t := types[k]
			for pi, p := range nd.pats {
				re, err := ogenregex.Compile(p)
				if err != nil {
					bad = true
					break
				}
				if pi == 0 {
					t.Validators.String.Regex = re
				} else {
					t.MapPattern = re
				}
			}
			if nd.rat != nil {
				t.Validators.Float.MultipleOf = nd.rat
				t.Validators.Float.MultipleOfSet = true
			}
			for s := 0; s < nd.nf; s++ {
				t.Fields = append(t.Fields, &ir.Field{Name: fmt.Sprintf("F%d", s), Type: at(nd.kids[s])})
			}
			for s := 0; s < nd.ns; s++ {
				t.SumOf = append(t.SumOf, at(nd.kids[nd.nf+s]))
			}
			b := nd.nf + nd.ns
			t.AliasTo, t.PointerTo, t.GenericOf, t.Item = at(nd.kids[b]), at(nd.kids[b+1]), at(nd.kids[b+2]), at(nd.kids[b+3])
		}
		if bad {
			continue
		}
		// roots: some in the Types map, some in Interfaces, maybe the error type, some through operations
		cfg := gen.TemplateConfig{Types: map[string]*ir.Type{}, Interfaces: map[string]*ir.Type{}}
		var roots []int
		for k := 0; k < n; k++ {
			switch rng.Intn(6) {
			case 0, 1:
				cfg.Types[fmt.Sprintf("T%d", k)] = types[k]
				roots = append(roots, k)
			case 2:
				cfg.Interfaces[fmt.Sprintf("I%d", k)] = types[k]
				roots = append(roots, k)
			case 3:
				if cfg.ErrorType == nil {
					cfg.ErrorType = types[k]
					roots = append(roots, k)
				}
			case 4:
				op := &ir.Operation{Name: fmt.Sprintf("op%d", k), Params: []*ir.Parameter{{Name: "p", Type: types[k]}}, Responses: &ir.Responses{}}
				if rng.Bool() {
					cfg.Operations = append(cfg.Operations, op)
				} else {
					cfg.Webhooks = append(cfg.Webhooks, op)
				}
				roots = append(roots, k)
			}
		}
		rng2 := rng.Fork(uint64(i))
		sort.Slice(roots, func(a, b int) bool { return rng2.Bool() }) // the harness's own arbitrary order
		rootStr := "_"
		if len(roots) > 0 {
			s := make([]string, len(roots))
			for k, x := range roots {
				s[k] = strconv.Itoa(x)
			}
			rootStr = strings.Join(s, ",")
		}
		for _, which := range []string{"regex", "rat"} {
			var nodeStrs []string
			for _, nd := range nodes {
				var strs []string
				if which == "regex" {
					strs = nd.pats
				} else if nd.rat != nil {
					strs = []string{nd.rat.RatString()}
				}
				hs := "_"
				if len(strs) > 0 {
					x := make([]string, len(strs))
					for k, s := range strs {
						x[k] = c10KeyHex(s)
					}
					hs = strings.Join(x, ".")
				}
				ks := make([]string, len(nd.kids))
				for k, c := range nd.kids {
					ks[k] = strconv.Itoa(c)
				}
				nodeStrs = append(nodeStrs, hs+":"+strings.Join(ks, "."))
			}
			call := func() string {
				return lp.Guard(func() string {
					if which == "regex" {
						return c10KeysHex(cfg.RegexStrings())
					}
					return c10KeysHex(cfg.RatStrings())
				})
			}
			first := call()
			r.PropCheck()
			for rep := 0; rep < 5; rep++ {
				if again := call(); again != first {
					r.Fail(lp.PropFail{Property: "C10", What: which + " string table differs between two calls on one IR (map iteration order)", Input: map[string]any{"roots": rootStr, "nodes": nodeStrs}, Observed: again, Expected: first})
					break
				}
			}
			r.Case("collect", rootStr+" "+strings.Join(nodeStrs, " "), first, "collect-"+which, len(roots) > 1)
		}
		r.SizeN("graph", n)
		r.SizeN("roots", len(roots))
	}
}

// --- repeated generation -----------------------------------------------------------------------------------

type c10FS struct {
	mu    sync.Mutex
	files map[string][]byte
	order []string
	twice []string
}

func (f *c10FS) WriteFile(name string, data []byte) error {
	f.mu.Lock()
	defer f.mu.Unlock()
	if _, dup := f.files[name]; dup {
		f.twice = append(f.twice, name)
	}
	f.files[name] = append([]byte(nil), data...)
	f.order = append(f.order, name)
	return nil
}

type c10Doc struct {
	label    string
	what     string
	spec     []byte
	features []string
	disable  []string // features switched off in the default set (FeatureOptions.Disable)
	convErr  int
}

type c10Result struct {
	outcome string // ok | rejected | unparsable | panic
	files   map[string]string
	order   []string
	twice   []string
	msg     string
}

func c10Generate(d *c10Doc) (res c10Result) {
	defer func() {
		if rec := recover(); rec != nil {
			res = c10Result{outcome: "panic", msg: fmt.Sprint(rec)}
		}
	}()
	spec, err := ogen.Parse(d.spec)
	if err != nil {
		return c10Result{outcome: "rejected", msg: err.Error()}
	}
	opts := gen.Options{
		Parser:    gen.ParseOptions{InferSchemaType: true},
		Generator: gen.GenerateOptions{IgnoreNotImplemented: []string{"all"}, ConvenientErrors: gen.ConvenientErrors(d.convErr)},
	}
	if d.features != nil {
		fs := gen.FeatureSet{}
		for _, f := range d.features {
			if err := fs.Enable(f); err != nil {
				panic(err)
			}
		}
		opts.Generator.Features = &gen.FeatureOptions{DisableAll: true, Enable: fs}
	}
	if d.disable != nil {
		fs := gen.FeatureSet{}
		for _, f := range d.disable {
			if err := fs.Enable(f); err != nil { // the Disable *set* names the features to switch off
				panic(err)
			}
		}
		opts.Generator.Features = &gen.FeatureOptions{Disable: fs}
	}
	g, err := gen.NewGenerator(spec, opts)
	if err != nil {
		return c10Result{outcome: "rejected", msg: err.Error()}
	}
	fs := &c10FS{files: map[string][]byte{}}
	if err := g.WriteSource(fs, "api"); err != nil {
		return c10Result{outcome: "unparsable", msg: err.Error()}
	}
	res = c10Result{outcome: "ok", files: map[string]string{}, order: fs.order, twice: fs.twice}
	for n, b := range fs.files {
		res.files[n] = string(b)
	}
	return res
}

func c10Docs(r *lp.Run, rng *lp.Rand) []*c10Doc { return c10DocsT(r.Thorough(), rng) }

type c10Tier struct{ thorough bool }

func (t c10Tier) N(q, th int) int {
	if t.thorough {
		return th
	}
	return q
}
func (t c10Tier) Thorough() bool { return t.thorough }

func c10DocsT(thorough bool, rng *lp.Rand) []*c10Doc {
	r := c10Tier{thorough}
	repo := os.Getenv("VERIF_REPO")
	if repo == "" {
		repo = "/repo"
	}
	var docs []*c10Doc
	var files []string
	for _, pat := range []string{"_testdata/positive/*.json", "_testdata/positive/*.yml", "_testdata/positive/*.yaml", "_testdata/positive/convenient_errors/*", "_testdata/examples/*.json", "_testdata/examples/*.yml", "_testdata/examples/autorest/*.json", "_testdata/examples/redoc/*.json"} {
		m, _ := filepath.Glob(filepath.Join(repo, pat))
		files = append(files, m...)
	}
	sort.Strings(files)
	limit := int64(r.N(120000, 3000000))
	feats := allFeatureNames()
	for _, f := range files {
		st, err := os.Stat(f)
		if err != nil || st.Size() == 0 || st.Size() > limit || strings.HasSuffix(f, "file_reference.yml") {
			continue
		}
		data, err := os.ReadFile(f)
		if err != nil {
			continue
		}
		rel, _ := filepath.Rel(repo, f)
		ce := 0
		if strings.Contains(rel, "convenient_errors") {
			ce = 1
		}
		docs = append(docs, &c10Doc{label: "corpus", what: rel, spec: data, convErr: ce})
		if st.Size() < 40000 || r.Thorough() {
			docs = append(docs, &c10Doc{label: "corpus-all-features", what: rel, spec: data, convErr: ce, features: feats})
		}
	}
	for i := 0; i < r.N(30, 400); i++ {
		g := NewSchemaGen(rng.Fork(uint64(i)))
		g.Sums = i%2 == 1
		b := &bodySpec{g: g}
		for k := 0; k < 3+rng.Intn(5); k++ {
			b.ops = append(b.ops, bodyOp{fmt.Sprintf("op%d", k), g.Gen(3)})
		}
		var fl []string
		if i%3 == 0 {
			fl = feats
		}
		docs = append(docs, &c10Doc{label: "random-schemas", what: fmt.Sprintf("random schema document %d", i), spec: []byte(b.doc()), features: fl})
	}
	for i := 0; i < r.N(30, 300); i++ {
		doc, what := responseDoc(rng)
		docs = append(docs, &c10Doc{label: "response-sets", what: what, spec: doc, convErr: lp.Pick(rng, []int{0, -1})})
	}
	for i := 0; i < r.N(12, 120); i++ {
		docs = append(docs, &c10Doc{label: "map-heavy", what: fmt.Sprintf("map-heavy document %d", i), spec: c10MapHeavy(rng.Fork(uint64(1000 + i))), features: feats})
	}
	masks := []string{"application/json", "image/*", "*/*", "application/*", "*", "**", "text/plain", "image/png"}
	for i := 0; i < r.N(40, 200); i++ {
		content := func() map[string]any {
			c := map[string]any{}
			for n := 1 + rng.Intn(3); n > 0; n-- {
				mt := lp.Pick(rng, masks)
				switch mt {
				case "application/json":
					c[mt] = map[string]any{"schema": map[string]any{"type": "object", "properties": map[string]any{"a": map[string]any{"type": "string"}}}}
				case "text/plain":
					c[mt] = map[string]any{"schema": map[string]any{"type": "string"}}
				default:
					c[mt] = map[string]any{"schema": map[string]any{"type": "string", "format": "binary"}}
				}
			}
			return c
		}
		resps := map[string]any{"200": map[string]any{"description": "ok", "content": content()}}
		if rng.Bool() {
			resps["default"] = map[string]any{"description": "d", "content": content()}
		}
		op := map[string]any{"operationId": "op", "responses": resps}
		if rng.Bool() {
			op["requestBody"] = map[string]any{"content": content()}
		}
		b, _ := json.Marshal(map[string]any{"openapi": "3.0.3", "info": map[string]any{"title": "t", "version": "1"}, "paths": map[string]any{"/m": map[string]any{"post": op}}})
		docs = append(docs, &c10Doc{label: "media-masks", what: fmt.Sprintf("media type mask document %d", i), spec: b})
	}
	for _, o := range corpusObjs("C10") {
		if d, ok := o["document"].(string); ok {
			docs = append(docs, &c10Doc{label: "past-failures", what: fmt.Sprint(o["what"]), spec: []byte(d), features: feats})
		}
	}
	// last: documents generated with features switched off in the default set — every later pass generates the
	// default-feature documents above after these (process-wide state must not leak from one run to the next)
	docs = append(docs, &c10Doc{label: "disable-features", what: "map-heavy document 0 without otel and unimplemented", spec: c10MapHeavy(rng.Fork(1000)), disable: []string{"ogen/otel", "ogen/unimplemented"}})
	docs = append(docs, &c10Doc{label: "disable-features", what: "map-heavy document 1 without clients", spec: c10MapHeavy(rng.Fork(1001)), disable: []string{"paths/client", "webhooks/client"}})
	return docs
}

// c10MapHeavy builds a document in which every position that is a JSON object (= a Go map somewhere in the
// parser or the generator) has several entries: many schemas used in many ways (allOf with overlapping
// properties, discriminated and undiscriminated sums, patterns and multipleOf in many places), many response
// codes / headers / media types / security schemes / servers / tags, webhooks.
func c10MapHeavy(rng *lp.Rand) []byte {
	names := []string{"alpha", "beta", "gamma", "delta", "eps", "zeta", "eta", "theta"}
	rng2 := rng
	shuf := func() []string {
		out := append([]string{}, names...)
		for i := len(out) - 1; i > 0; i-- {
			j := rng2.Intn(i + 1)
			out[i], out[j] = out[j], out[i]
		}
		return out[:3+rng2.Intn(len(out)-3)]
	}
	prim := func() map[string]any {
		switch rng.Intn(6) {
		case 0:
			return map[string]any{"type": "string", "pattern": lp.Pick(rng, []string{"^a+$", "^[a-z]{2}$", "^\\d+$", "^x|y$", "^q*$", "^[A-Z]$"})}
		case 1:
			return map[string]any{"type": "number", "multipleOf": lp.Pick(rng, []any{0.5, 2, 3, 0.25, 10, 7})}
		case 2:
			return map[string]any{"type": "integer", "minimum": rng.Intn(5), "maximum": 10 + rng.Intn(5)}
		case 3:
			return map[string]any{"type": "string", "enum": shuf()}
		case 4:
			return map[string]any{"type": "array", "items": map[string]any{"type": "string", "maxLength": 1 + rng.Intn(9)}, "minItems": rng.Intn(3)}
		}
		return map[string]any{"type": "string", "format": lp.Pick(rng, []string{"uuid", "date", "date-time", "ipv4", "uri", "byte"})}
	}
	schemas := map[string]any{}
	obj := func(tag string) map[string]any {
		props := map[string]any{}
		for _, n := range shuf() {
			props[n] = prim()
		}
		props["kind"] = map[string]any{"type": "string"}
		props[tag] = map[string]any{"type": "integer"}
		s := map[string]any{"type": "object", "properties": props, "required": []string{"kind", tag}}
		if rng.Chance(30) {
			s["additionalProperties"] = prim()
		}
		if rng.Chance(20) {
			s["patternProperties"] = map[string]any{"^x-": prim()}
		}
		return s
	}
	var objs []string
	for i, n := range shuf() {
		name := "Obj" + strings.Title(n)
		schemas[name] = obj(fmt.Sprintf("only%d", i))
		objs = append(objs, name)
	}
	ref := func(n string) map[string]any { return map[string]any{"$ref": "#/components/schemas/" + n} }
	// sums
	var variants []any
	mapping := map[string]any{}
	for _, n := range objs {
		variants = append(variants, ref(n))
		mapping[strings.ToLower(n)] = "#/components/schemas/" + n
	}
	// several mapping keys for one variant (aliases), in a second sum so that the first keeps generating
	aliasMapping := map[string]any{}
	for _, n := range objs {
		for _, suffix := range []string{"", "_v2", "-alias", "0"} {
			aliasMapping[strings.ToLower(n)+suffix] = "#/components/schemas/" + n
		}
	}
	schemas["SumAliases"] = map[string]any{"oneOf": variants, "discriminator": map[string]any{"propertyName": "kind", "mapping": aliasMapping}}
	// mutually recursive schemas where one member needs validation only through the back-reference, declared in
	// both orders; and a diamond of shared members
	schemas["RecNode"] = map[string]any{"type": "object", "properties": map[string]any{"peer": ref("RecPeer"), "weight": map[string]any{"type": "number"}, "alt": ref("RecAlt")}}
	schemas["RecPeer"] = map[string]any{"type": "object", "properties": map[string]any{"node": ref("RecNode"), "nodes": map[string]any{"type": "array", "items": ref("RecNode")}}}
	schemas["RecAlt"] = map[string]any{"type": "object", "properties": map[string]any{"back": ref("RecPeer"), "tag": map[string]any{"type": "string"}}}
	schemas["AaaUsesRec"] = map[string]any{"type": "object", "properties": map[string]any{"p": ref("RecPeer"), "a": ref("RecAlt")}}
	schemas["ZzzUsesRec"] = map[string]any{"type": "object", "properties": map[string]any{"a": ref("RecAlt"), "n": ref("RecNode")}}
	schemas["SumDisc"] = map[string]any{"oneOf": variants, "discriminator": map[string]any{"propertyName": "kind", "mapping": mapping}}
	schemas["SumFields"] = map[string]any{"oneOf": variants}
	schemas["AnyPrim"] = map[string]any{"anyOf": []any{map[string]any{"type": "string"}, map[string]any{"type": "integer"}, map[string]any{"type": "boolean"}}}
	if len(objs) >= 2 {
		extra := map[string]any{"type": "object", "properties": map[string]any{}}
		for _, n := range shuf() {
			extra["properties"].(map[string]any)["x"+n] = prim()
		}
		schemas["Merged"] = map[string]any{"allOf": []any{ref(objs[0]), extra, map[string]any{"type": "object", "properties": map[string]any{"zz": prim(), "aa": prim(), "mm": prim()}}}}
	}
	for _, n := range shuf() {
		schemas["Scalar"+strings.Title(n)+"Value"] = prim()
	}
	objs = append(objs, "SumDisc", "SumFields", "RecNode", "RecPeer", "AaaUsesRec", "ZzzUsesRec", "SumAliases")
	content := func() map[string]any {
		c := map[string]any{"application/json": map[string]any{"schema": ref(lp.Pick(rng, objs))}}
		if rng.Chance(40) {
			c["text/plain"] = map[string]any{"schema": map[string]any{"type": "string"}}
		}
		if rng.Chance(30) {
			c["application/octet-stream"] = map[string]any{"schema": map[string]any{"type": "string", "format": "binary"}}
		}
		// media type masks next to concrete types and next to each other
		bin := map[string]any{"schema": map[string]any{"type": "string", "format": "binary"}}
		for _, mask := range []string{"image/*", "*/*", "application/*", "*", "**", "text/*"} {
			if rng.Chance(12) {
				c[mask] = bin
			}
		}
		return c
	}
	var fixedHeaders map[string]any
	headers := func() map[string]any {
		if fixedHeaders != nil {
			return fixedHeaders
		}
		h := map[string]any{}
		fixedHeaders = h
		for _, n := range shuf() {
			hs := prim()
			for hs["type"] == "array" {
				hs = prim()
			}
			h["X-"+strings.Title(n)] = map[string]any{"schema": hs}
		}
		return h
	}
	secSchemes := map[string]any{}
	var secNames []string
	for i, n := range shuf() {
		sn := "sec" + strings.Title(n)
		switch i % 4 {
		case 0:
			secSchemes[sn] = map[string]any{"type": "apiKey", "in": "header", "name": "X-Key-" + n}
		case 1:
			secSchemes[sn] = map[string]any{"type": "http", "scheme": "bearer"}
		case 2:
			secSchemes[sn] = map[string]any{"type": "apiKey", "in": "query", "name": "k" + n}
		case 3:
			secSchemes[sn] = map[string]any{"type": "http", "scheme": "basic"}
		}
		secNames = append(secNames, sn)
	}
	op := func(id string) map[string]any {
		resps := map[string]any{}
		for _, code := range []string{"200", "201", "202", "400", "404", "4XX", "5XX", "default"} {
			if rng.Chance(55) || code == "200" {
				rsp := map[string]any{"description": "r"}
				if rng.Chance(80) {
					rsp["content"] = content()
				}
				if rng.Chance(50) {
					rsp["headers"] = headers()
				}
				resps[code] = rsp
			}
		}
		o := map[string]any{"operationId": id, "responses": resps, "tags": shuf()[:1]}
		// operation groups whose names differ in letter case only, next to ordinary ones
		if rng.Chance(60) {
			o["x-ogen-operation-group"] = lp.Pick(rng, []string{"Users", "USERS", "Admin", "ADMIN", "Misc"})
		}
		// one component response used as default / pattern here and under several fixed codes there
		if rng.Chance(50) {
			for _, code := range lp.Pick(rng, [][]string{{"default"}, {"4XX"}, {"400", "404", "409"}, {"401", "403"}, {"default", "500", "503"}}) {
				resps[code] = map[string]any{"$ref": "#/components/responses/SharedErr"}
			}
		}
		if rng.Chance(50) {
			// descriptions of 1 to 16 lines on deprecated operations (the doc comment gets a deprecation notice)
			var lines []string
			for k := 1 + rng.Intn(16); k > 0; k-- {
				lines = append(lines, "Line "+strings.Repeat("word ", 1+rng.Intn(12))+".")
			}
			o["description"] = strings.Join(lines, "\n")
			o["deprecated"] = rng.Chance(70)
			o["summary"] = "Summary of " + id
		}
		var params []any
		for i, n := range shuf() {
			in := []string{"query", "header", "cookie"}[i%3]
			ps := prim()
			for ps["type"] == "array" {
				ps = prim()
			}
			params = append(params, map[string]any{"name": n, "in": in, "schema": ps})
		}
		o["parameters"] = params
		if rng.Chance(60) {
			o["requestBody"] = map[string]any{"content": content()}
		}
		if rng.Chance(60) {
			var alts []any
			for _, s := range secNames {
				if rng.Chance(50) {
					alts = append(alts, map[string]any{s: []any{}})
				}
			}
			if len(alts) > 0 {
				o["security"] = alts
			}
		}
		return o
	}
	paths := map[string]any{}
	for i, n := range shuf() {
		item := map[string]any{}
		for _, m := range []string{"get", "post", "put", "delete", "patch"} {
			if rng.Chance(50) || m == "get" {
				item[m] = op(fmt.Sprintf("%s%s%d", m, strings.Title(n), i))
			}
		}
		paths["/"+n+"/{id}"] = item
		item["parameters"] = []any{map[string]any{"name": "id", "in": "path", "required": true, "schema": map[string]any{"type": "string"}}}
	}
	webhooks := map[string]any{}
	for i, n := range shuf() {
		webhooks["hook"+strings.Title(n)] = map[string]any{"post": op(fmt.Sprintf("hook%s%d", strings.Title(n), i))}
	}
	doc := map[string]any{
		"openapi": "3.1.0", "info": map[string]any{"title": "t", "version": "1"},
		"servers":    []any{map[string]any{"url": "https://{region}.example.com/{base}", "variables": map[string]any{"region": map[string]any{"default": "eu", "enum": []string{"eu", "us"}}, "base": map[string]any{"default": "v1"}}}, map[string]any{"url": "https://b.example.com", "x-ogen-server-name": "Backup"}},
		"paths":      paths,
		"webhooks":   webhooks,
		"components": map[string]any{"schemas": schemas, "securitySchemes": secSchemes, "responses": map[string]any{
			"SharedErr": map[string]any{"description": "shared error", "content": map[string]any{"application/json": map[string]any{"schema": map[string]any{"type": "object", "required": []string{"code"}, "properties": map[string]any{"code": map[string]any{"type": "integer"}, "msg": map[string]any{"type": "string"}}}}}}}},
	}
	b, _ := json.Marshal(doc)
	return b
}

func c10Hash(s string) string {
	h := sha256.Sum256([]byte(s))
	return hex.EncodeToString(h[:6])
}

func c10FirstDiff(a, b string) string {
	la, lb := strings.Split(a, "\n"), strings.Split(b, "\n")
	for i := 0; i < len(la) && i < len(lb); i++ {
		if la[i] != lb[i] {
			return fmt.Sprintf("line %d: %q vs %q", i+1, trunc200(la[i]), trunc200(lb[i]))
		}
	}
	return fmt.Sprintf("lengths %d vs %d lines", len(la), len(lb))
}

func c10Repeat(r *lp.Run, rng *lp.Rand) {
	docs := c10Docs(r, rng)
	old := runtime.GOMAXPROCS(0)
	defer runtime.GOMAXPROCS(old)
	base := make([]c10Result, len(docs))
	input := func(d *c10Doc) map[string]any {
		in := map[string]any{"label": d.label, "what": d.what, "features": d.features, "convenient_errors": d.convErr}
		if d.label != "corpus" && d.label != "corpus-all-features" {
			s := string(d.spec)
			if len(s) > 8000 {
				s = s[:8000] + "…"
			}
			in["document"] = s
		}
		return in
	}
	compare := func(i int, got c10Result, how string) {
		d := docs[i]
		r.PropCheck()
		b := base[i]
		if got.outcome != b.outcome {
			r.Fail(lp.PropFail{Property: "C10", What: "the outcome of generating one document differs between two runs (" + how + ")", Input: input(d), Observed: got.outcome + ": " + trunc200(got.msg), Expected: b.outcome + ": " + trunc200(b.msg)})
			return
		}
		if got.outcome != "ok" {
			return
		}
		var names []string
		for n := range b.files {
			names = append(names, n)
		}
		for n := range got.files {
			if _, ok := b.files[n]; !ok {
				names = append(names, n)
			}
		}
		sort.Strings(names)
		for _, n := range names {
			if got.files[n] != b.files[n] {
				r.Fail(lp.PropFail{Property: "C10", What: "generated file differs between two runs on the same document (" + how + ")", Input: input(d), Observed: n + ": " + c10FirstDiff(got.files[n], b.files[n]), Expected: "byte-identical files"})
				return
			}
		}
	}
	writersCase := func(res c10Result) {
		if res.outcome != "ok" {
			return
		}
		var ws, final []string
		for _, n := range res.order {
			ws = append(ws, c10KeyHex(n)+"="+c10Hash(res.files[n]))
		}
		names := make([]string, 0, len(res.files))
		for n := range res.files {
			names = append(names, n)
		}
		sort.Strings(names)
		for _, n := range names {
			final = append(final, c10KeyHex(n)+"="+c10Hash(res.files[n]))
		}
		r.Case("writers", strings.Join(ws, ","), strings.Join(final, ","), "writers", len(ws) > 1)
		if len(res.twice) > 0 {
			r.Fail(lp.PropFail{Property: "C10", What: "two template tasks wrote the same file name (the last to finish wins)", Input: res.order, Observed: strings.Join(res.twice, ","), Expected: "every file written once"})
		}
	}
	// pass 0: baseline, in order, GOMAXPROCS as is
	nok := 0
	for i, d := range docs {
		base[i] = c10Generate(d)
		r.Count(d.label+":"+d.what, "gen-"+base[i].outcome+"-"+d.label, base[i].outcome == "ok")
		if base[i].outcome != "ok" && (d.label == "map-heavy" || os.Getenv("VERIF_C10_DEBUG") != "") {
			r.Note("not generated: " + d.what + ": " + trunc200(base[i].msg))
		}
		r.Size("docs-" + d.label)
		if base[i].outcome == "ok" {
			nok++
			writersCase(base[i])
		}
		if base[i].outcome == "panic" {
			r.Note("generator panicked on " + d.what + " (C11's business): " + trunc200(base[i].msg))
		}
	}
	// further passes
	passes := []struct {
		procs  int
		order  string
		poison bool
	}{{1, "reverse", true}, {16, "shuffle", false}, {2, "order", true}, {4, "shuffle", true}}
	if r.Thorough() {
		passes = append(passes, []struct {
			procs  int
			order  string
			poison bool
		}{{3, "reverse", false}, {8, "shuffle", true}, {1, "order", false}, {16, "reverse", true}, {5, "shuffle", false}, {2, "shuffle", true}}...)
	}
	deadline := time.Now().Add(time.Duration(r.N(100, 3000)) * time.Second)
	for pi, p := range passes {
		if time.Now().After(deadline) {
			r.Note(fmt.Sprintf("pass %d and later skipped: time budget used", pi+1))
			break
		}
		runtime.GOMAXPROCS(p.procs)
		idx := make([]int, len(docs))
		for i := range idx {
			idx[i] = i
		}
		switch p.order {
		case "reverse":
			for a, b := 0, len(idx)-1; a < b; a, b = a+1, b-1 {
				idx[a], idx[b] = idx[b], idx[a]
			}
		case "shuffle":
			for i := len(idx) - 1; i > 0; i-- {
				j := rng.Intn(i + 1)
				idx[i], idx[j] = idx[j], idx[i]
			}
		}
		for _, i := range idx {
			if p.poison {
				gen.VerifPoisonPool(2*p.procs, []byte("package poison // left over by an earlier generation\nvar x = `"))
			}
			got := c10Generate(docs[i])
			compare(i, got, fmt.Sprintf("pass %d: GOMAXPROCS=%d, documents in %s order, pool poisoned=%v", pi+1, p.procs, p.order, p.poison))
			if pi == 0 {
				writersCase(got)
			}
			r.Count(fmt.Sprintf("%d:%d", pi, i), "regen", false)
		}
	}
	runtime.GOMAXPROCS(old)
	r.Exhaustive("repeat-generation", map[string]any{"documents": len(docs), "generated_ok": nok, "passes": len(passes) + 1})
}

// --- race detector ------------------------------------------------------------------------------------------

func c10Race(r *lp.Run) {
	if os.Getenv("VERIF_C10_NORACE") != "" {
		r.Note("race child skipped (VERIF_C10_NORACE)")
		return
	}
	harness := os.Getenv("VERIF_HARNESS")
	if harness == "" {
		harness = "/verif/harness"
	}
	scratch := os.Getenv("VERIF_SCRATCH")
	if scratch == "" {
		scratch = "/var/tmp"
	}
	bin := filepath.Join(scratch, fmt.Sprintf("racegen-%d", os.Getpid()))
	defer os.Remove(bin)
	cmd := exec.Command("go", "build", "-race", "-tags", "verif", "-o", bin, "./cmd/corr")
	cmd.Dir = harness
	cmd.Env = append(os.Environ(), "CGO_ENABLED=1")
	if out, err := cmd.CombinedOutput(); err != nil {
		r.Fail(lp.PropFail{Property: "C10", What: "cannot build the race-detector child against the working tree", Input: "go build -race -tags verif ./cmd/corr", Observed: trunc200(string(out)), Expected: "builds"})
		return
	}
	repo := os.Getenv("VERIF_REPO")
	if repo == "" {
		repo = "/repo"
	}
	var buf bytes.Buffer
	run := exec.Command(bin)
	run.Env = append(os.Environ(), "VERIF_CHILD_RACE="+r.Tier, "VERIF_REPO="+repo, "VERIF_SEED="+strconv.FormatUint(r.Seed, 10), "GORACE=halt_on_error=0 history_size=3", "GOMAXPROCS=16")
	run.Stdout = &buf
	run.Stderr = &buf
	done := make(chan error, 1)
	if err := run.Start(); err != nil {
		r.Fail(lp.PropFail{Property: "C10", What: "cannot start the race-detector child", Input: bin, Observed: err.Error(), Expected: "runs"})
		return
	}
	go func() { done <- run.Wait() }()
	select {
	case <-done:
	case <-time.After(time.Duration(r.N(400, 3000)) * time.Second):
		run.Process.Kill()
		<-done
		r.Note("race child stopped at the time limit")
	}
	out := buf.String()
	races := strings.Count(out, "WARNING: DATA RACE")
	gens := 0
	for _, l := range strings.Split(out, "\n") {
		if strings.HasPrefix(l, "racegen: generations=") {
			gens, _ = strconv.Atoi(strings.TrimPrefix(l, "racegen: generations="))
		}
	}
	r.PropCheck()
	r.Count("race", "race-child", true)
	r.Exhaustive("race-detector", map[string]any{"generations_under_race_detector": gens, "reports": races})
	if gens == 0 {
		r.Fail(lp.PropFail{Property: "C10", What: "the race-detector child did not complete a single generation", Input: bin, Observed: trunc200(out), Expected: "generations under the race detector"})
		return
	}
	if races > 0 {
		i := strings.Index(out, "WARNING: DATA RACE")
		rep := out[i:]
		if j := strings.Index(rep, "=================="); j > 0 {
			rep = rep[:j]
		}
		var frames []string
		for _, l := range strings.Split(rep, "\n") {
			l = strings.TrimSpace(l)
			if strings.Contains(l, "ogen-go/ogen") || strings.Contains(l, "/repo/") || strings.HasPrefix(l, "Write at") || strings.HasPrefix(l, "Read at") || strings.HasPrefix(l, "Previous") {
				frames = append(frames, l)
			}
			if len(frames) > 14 {
				break
			}
		}
		doc := ""
		for _, l := range strings.Split(out[:i], "\n") {
			if strings.HasPrefix(l, "racegen: doc=") {
				doc = strings.TrimPrefix(l, "racegen: doc=")
			}
		}
		r.Fail(lp.PropFail{Property: "C10", What: "data race reported while generating", Input: map[string]any{"document": doc, "reports": races}, Observed: strings.Join(frames, " | "), Expected: "no unsynchronised access to shared state"})
	}
}

// c10RaceChild is the body of the -race build of this binary: generations under the race detector, one
// document after the other in one process (shared template set, shared buffer pool), each document twice.
func c10RaceChild() {
	tier := os.Getenv("VERIF_CHILD_RACE")
	seed, _ := strconv.ParseUint(os.Getenv("VERIF_SEED"), 10, 64)
	rng := lp.NewRand(seed).Fork(3)
	docs := c10DocsT(tier == "thorough", rng)
	budget := 75 * time.Second
	if tier == "thorough" {
		budget = 2400 * time.Second
	}
	deadline := time.Now().Add(budget)
	// small documents first, so that many different template paths run before the budget ends
	prio := func(d *c10Doc) int {
		switch d.label {
		case "map-heavy":
			return 0
		case "media-masks", "past-failures":
			return 1
		}
		return 2
	}
	sort.SliceStable(docs, func(a, b int) bool {
		if pa, pb := prio(docs[a]), prio(docs[b]); pa != pb {
			return pa < pb
		}
		return len(docs[a].spec) < len(docs[b].spec)
	})
	n := 0
	for _, d := range docs {
		if time.Now().After(deadline) {
			break
		}
		fmt.Printf("racegen: doc=%s [%s]\n", d.what, d.label)
		for k := 0; k < 2; k++ {
			res := c10Generate(d)
			if res.outcome == "ok" {
				n++
			}
		}
	}
	fmt.Printf("racegen: generations=%d\n", n)
}

// ir.sortResponseInfos against the Lean model RespOrder (driver tag rsort): entry sets as the StatusCode map holds
// them (one entry per real code and content type; responses that carry their code fold to 999), handed over in two
// random orders — the two results must be equal (the property), and equal to the model's
func c10RespOrder(r *lp.Run, rng *lp.Rand) {
	ctypes := []string{"application/json", "application/xml", "text/plain", ""}
	codes := []int{200, 201, 204, 400, 401, 404, 409, 500, 503, 0}
	for it := 0; it < r.N(3000, 40000); it++ {
		type ent struct {
			code  int
			with  bool
			ctype string
		}
		seen := map[[2]int]bool{}
		var es []ent
		// a shared component first used as default: every one of its codes carries the flag
		sharedWith := rng.Chance(50)
		for k := rng.Intn(7); k > 0; k-- {
			ci, ti := rng.Intn(len(codes)), rng.Intn(len(ctypes))
			if seen[[2]int{ci, ti}] {
				continue
			}
			seen[[2]int{ci, ti}] = true
			with := rng.Chance(20)
			if sharedWith && codes[ci] >= 400 {
				with = true
			}
			es = append(es, ent{codes[ci], with, ctypes[ti]})
		}
		run := func(perm []int) string {
			cs := make([]int, len(es))
			ws := make([]bool, len(es))
			ts := make([]string, len(es))
			for i, p := range perm {
				cs[i], ws[i], ts[i] = es[p].code, es[p].with, es[p].ctype
			}
			return lp.Guard(func() string {
				order := ir.VerifSortResponseInfos(cs, ws, ts)
				parts := make([]string, len(order))
				for i, o := range order {
					parts[i] = c10RespKey(cs[o], ws[o], ts[o], ctypes)
				}
				if len(parts) == 0 {
					return "-"
				}
				return strings.Join(parts, ",")
			})
		}
		p1, p2 := rng.Perm(len(es)), rng.Perm(len(es))
		o1, o2 := run(p1), run(p2)
		r.PropCheck()
		ties := 0
		for i := range es {
			for j := i + 1; j < len(es); j++ {
				if es[i].with && es[j].with && es[i].ctype == es[j].ctype {
					ties++
				}
			}
		}
		if o1 != o2 {
			r.Fail(lp.PropFail{Property: "C10", What: "the order of response cases depends on the iteration order of the status-code map", Input: map[string]any{"entries": fmt.Sprint(es), "order1": p1, "order2": p2}, Observed: o1 + " vs " + o2, Expected: "one order"})
		}
		in := make([]string, len(es))
		for i, p := range p1 {
			in[i] = c10RespKey(es[p].code, es[p].with, es[p].ctype, ctypes)
		}
		payload := "-"
		if len(in) > 0 {
			payload = strings.Join(in, ",")
		}
		r.Case("rsort", payload, o1, fmt.Sprintf("rsort:ties%d", min(ties, 2)), ties > 0)
	}
}

func c10RespKey(code int, with bool, ctype string, ctypes []string) string {
	f := code
	if with {
		f = 999
	}
	sorted := append([]string{}, ctypes...)
	sort.Strings(sorted)
	rank := sort.SearchStrings(sorted, ctype)
	return fmt.Sprintf("%d:%d:%d", f, rank, code)
}

// the other sorts behind generated output that start from a Go map: gen.groupOperations (operation groups) and
// ir.Type.ListImplementations (implementations of a response / sum interface) against the Lean model's sortedKeys
// (driver tag sortkeys): names that differ in letter case only, prefixes of each other, non-ASCII bytes
func c10NameSorts(r *lp.Run, rng *lp.Rand) {
	pool := []string{"Users", "USERS", "users", "User", "UsersAdmin", "Admin", "ADMIN", "admin", "Zeta", "alpha", "Alpha", "_x", "É", "é", "A1", "A10", "A2"}
	for i := 0; i < r.N(1500, 20000); i++ {
		n := rng.Intn(10)
		groups := make([]string, n)
		var named []string
		for k := range groups {
			if rng.Chance(25) {
				continue // an operation without a group
			}
			groups[k] = lp.Pick(rng, pool)
			named = append(named, groups[k])
		}
		var ungrouped int
		var names []string
		var sizes []int
		got := lp.Guard(func() string {
			ungrouped, names, sizes = gen.VerifGroupOperations(groups)
			return c10KeysHex(names)
		})
		r.PropCheck()
		total := ungrouped
		for _, s := range sizes {
			total += s
		}
		if !strings.Contains(got, "panic") && (total != n || !sort.StringsAreSorted(names)) {
			r.Fail(lp.PropFail{Property: "C10", What: "groupOperations loses operations or lists the groups out of order", Input: groups, Observed: fmt.Sprint(ungrouped, names, sizes), Expected: "every operation in exactly one place, groups in ascending order of their names"})
		}
		r.Case("sortkeys", c10KeysHex(named), got, "sortkeys-groups", len(names) > 1)

		// ListImplementations: distinct names
		perm := rng.Perm(len(pool))
		impls := make([]string, 0, n)
		for _, p := range perm[:min(n, len(pool))] {
			impls = append(impls, pool[p])
		}
		gotI := lp.Guard(func() string {
			iface := ir.Interface("I")
			for _, name := range impls {
				iface.Implementations[&ir.Type{Kind: ir.KindStruct, Name: name}] = struct{}{}
			}
			var out []string
			for _, t := range iface.ListImplementations() {
				out = append(out, t.Name)
			}
			return c10KeysHex(out)
		})
		r.Case("sortkeys", c10KeysHex(impls), gotI, "sortkeys-impls", len(impls) > 1)
	}
}
