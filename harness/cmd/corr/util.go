package main

import "encoding/json"

func stdValid(b []byte) bool { return json.Valid(b) }
