package main

import (
	"encoding/json"
	"fmt"
	"math"
	"math/big"
	"regexp"
	"sort"
	"strconv"
	"strings"
	"unicode/utf8"

	"verifharness/internal/lp"
)

// Schema is the keyword fragment of C03/C04 as the harness generates it. It is rendered to an
// OpenAPI 3.0 schema object for the generator and interpreted by the independent reference
// validator below (written from the JSON Schema draft-4 keyword definitions + `nullable`).
type Schema struct {
	Ref      string // "#/components/schemas/<Ref>"
	Type     string // string integer number boolean array object
	Format   string
	Nullable bool
	Enum     []any
	Default  any
	HasDef   bool

	MinI, MaxI     *int64 // integer
	MinF, MaxF     *float64
	ExclMin        bool
	ExclMax        bool
	MultI          *int64
	MultF          *float64
	MinLen, MaxLen *int
	Pattern        *patternPair
	Items          *Schema
	MinItems       *int
	MaxItems       *int
	Unique         bool
	Props          []Prop
	AddProps       *Schema // nil with AddMode "" ⇒ keyword absent
	AddMode        string  // "" | "true" | "false" | "schema"
	MinProps       *int
	MaxProps       *int
	OneOf          []*Schema
	AnyOf          []*Schema
	AllOf          []*Schema
	reqOnly        []string          // a member schema that is just {"required": [...]}
	DiscProp       string            // discriminator.propertyName
	DiscMap        map[string]string // value -> component name
}

type Prop struct {
	Name     string
	S        *Schema
	Required bool
}

type patternPair struct {
	ecma string
	re   *regexp.Regexp
	ok   []string // matching examples
	bad  []string
}

var patterns = []*patternPair{
	{`^[a-z]+$`, regexp.MustCompile(`^[a-z]+$`), []string{"a", "abc", "zz"}, []string{"", "A", "a1", "a b"}},
	{`^\d{2,3}$`, regexp.MustCompile(`^[0-9]{2,3}$`), []string{"12", "123"}, []string{"1", "1234", "ab", ""}},
	{`^a.*z$`, regexp.MustCompile(`^a[^\n\r\x{2028}\x{2029}]*z$`), []string{"az", "a-z", "abcz"}, []string{"a", "z", "za", ""}},
	{`^(foo|bar)$`, regexp.MustCompile(`^(foo|bar)$`), []string{"foo", "bar"}, []string{"fo", "foobar", ""}},
	{`[0-9]`, regexp.MustCompile(`[0-9]`), []string{"a1", "7", "x9y"}, []string{"", "abc"}},
}

func ip(i int) *int           { return &i }
func i64p(i int64) *int64     { return &i }
func f64p(f float64) *float64 { return &f }

func (s *Schema) JSON() map[string]any {
	m := map[string]any{}
	if s.Ref != "" {
		m["$ref"] = "#/components/schemas/" + s.Ref
		return m
	}
	if s.reqOnly != nil {
		m["required"] = s.reqOnly
	}
	if s.Type != "" {
		m["type"] = s.Type
	}
	if s.Format != "" {
		m["format"] = s.Format
	}
	if s.Nullable {
		m["nullable"] = true
	}
	if s.Enum != nil {
		m["enum"] = s.Enum
	}
	if s.HasDef {
		m["default"] = s.Default
	}
	if s.MinI != nil {
		m["minimum"] = *s.MinI
	}
	if s.MaxI != nil {
		m["maximum"] = *s.MaxI
	}
	if s.MinF != nil {
		m["minimum"] = *s.MinF
	}
	if s.MaxF != nil {
		m["maximum"] = *s.MaxF
	}
	if s.ExclMin {
		m["exclusiveMinimum"] = true
	}
	if s.ExclMax {
		m["exclusiveMaximum"] = true
	}
	if s.MultI != nil {
		m["multipleOf"] = *s.MultI
	}
	if s.MultF != nil {
		m["multipleOf"] = *s.MultF
	}
	if s.MinLen != nil {
		m["minLength"] = *s.MinLen
	}
	if s.MaxLen != nil {
		m["maxLength"] = *s.MaxLen
	}
	if s.Pattern != nil {
		m["pattern"] = s.Pattern.ecma
	}
	if s.Items != nil {
		m["items"] = s.Items.JSON()
	}
	if s.MinItems != nil {
		m["minItems"] = *s.MinItems
	}
	if s.MaxItems != nil {
		m["maxItems"] = *s.MaxItems
	}
	if s.Unique {
		m["uniqueItems"] = true
	}
	if len(s.Props) > 0 {
		ps := map[string]any{}
		var req []string
		for _, p := range s.Props {
			ps[p.Name] = p.S.JSON()
			if p.Required {
				req = append(req, p.Name)
			}
		}
		m["properties"] = ps
		if req != nil {
			m["required"] = req
		}
	}
	switch s.AddMode {
	case "true":
		m["additionalProperties"] = true
	case "false":
		m["additionalProperties"] = false
	case "schema":
		m["additionalProperties"] = s.AddProps.JSON()
	}
	if s.MinProps != nil {
		m["minProperties"] = *s.MinProps
	}
	if s.MaxProps != nil {
		m["maxProperties"] = *s.MaxProps
	}
	sub := func(xs []*Schema) []any {
		out := make([]any, len(xs))
		for i, x := range xs {
			out[i] = x.JSON()
		}
		return out
	}
	if s.OneOf != nil {
		m["oneOf"] = sub(s.OneOf)
	}
	if s.AnyOf != nil {
		m["anyOf"] = sub(s.AnyOf)
	}
	if s.AllOf != nil {
		m["allOf"] = sub(s.AllOf)
	}
	if s.DiscProp != "" {
		mp := map[string]any{}
		for k, v := range s.DiscMap {
			mp[k] = "#/components/schemas/" + v
		}
		m["discriminator"] = map[string]any{"propertyName": s.DiscProp, "mapping": mp}
	}
	return m
}

// ---------------------------------------------------------------------------------------
// reference validator (independent of ogen): instances are encoding/json values with UseNumber

type Env map[string]*Schema

func numRat(n json.Number) *big.Rat {
	r, ok := new(big.Rat).SetString(string(n))
	if !ok {
		return nil
	}
	return r
}

// isIntegral: OpenAPI 3.0 takes its types from JSON Schema Wright draft 00, where an integer is "a JSON
// number without a fraction or exponent part" — 2.0 and 1e2 are numbers, not integers (later drafts say
// otherwise; the documents of these suites are 3.0.3)
func isIntegral(n json.Number) bool {
	r := numRat(n)
	return r != nil && r.IsInt() && !strings.ContainsAny(string(n), ".eE")
}

func jsonEqualRef(a, b any) bool {
	switch x := a.(type) {
	case nil:
		return b == nil
	case bool:
		y, ok := b.(bool)
		return ok && x == y
	case string:
		y, ok := b.(string)
		return ok && x == y
	case json.Number:
		y, ok := b.(json.Number)
		return ok && numRat(x).Cmp(numRat(y)) == 0
	case []any:
		y, ok := b.([]any)
		if !ok || len(x) != len(y) {
			return false
		}
		for i := range x {
			if !jsonEqualRef(x[i], y[i]) {
				return false
			}
		}
		return true
	case map[string]any:
		y, ok := b.(map[string]any)
		if !ok || len(x) != len(y) {
			return false
		}
		for k, v := range x {
			w, ok := y[k]
			if !ok || !jsonEqualRef(v, w) {
				return false
			}
		}
		return true
	}
	return false
}

// Valid: is instance v valid against s? (draft 4 + nullable; `integer` = a number with an integral value)
func (env Env) Valid(s *Schema, v any) bool {
	if s.Ref != "" {
		return env.Valid(env[s.Ref], v)
	}
	if v == nil {
		if s.Nullable {
			return true
		}
		// a schema without type restrictions accepts null
		if s.Type == "" && s.OneOf == nil && s.AnyOf == nil && s.AllOf == nil && s.Enum == nil {
			return true
		}
		if s.Type != "" {
			return false
		}
	}
	if s.reqOnly != nil {
		if x, ok := v.(map[string]any); ok {
			for _, k := range s.reqOnly {
				if _, ok := x[k]; !ok {
					return false
				}
			}
		}
	}
	switch s.Type {
	case "string":
		x, ok := v.(string)
		if !ok {
			return false
		}
		n := utf8.RuneCountInString(x)
		if s.MinLen != nil && n < *s.MinLen {
			return false
		}
		if s.MaxLen != nil && n > *s.MaxLen {
			return false
		}
		if s.Pattern != nil && !s.Pattern.re.MatchString(x) {
			return false
		}
	case "integer":
		x, ok := v.(json.Number)
		if !ok || !isIntegral(x) {
			return false
		}
		r := numRat(x)
		// the format is a range: int32 "signed 32 bits", int64 (and no format: ogen's int) "signed 64 bits"
		lo, hi := int64(math.MinInt64), int64(math.MaxInt64)
		if s.Format == "int32" {
			lo, hi = math.MinInt32, math.MaxInt32
		}
		if r.Cmp(new(big.Rat).SetInt64(lo)) < 0 || r.Cmp(new(big.Rat).SetInt64(hi)) > 0 {
			return false
		}
		if s.MinI != nil {
			c := r.Cmp(new(big.Rat).SetInt64(*s.MinI))
			if c < 0 || (s.ExclMin && c == 0) {
				return false
			}
		}
		if s.MaxI != nil {
			c := r.Cmp(new(big.Rat).SetInt64(*s.MaxI))
			if c > 0 || (s.ExclMax && c == 0) {
				return false
			}
		}
		if s.MultI != nil {
			q := new(big.Rat).Quo(r, new(big.Rat).SetInt64(*s.MultI))
			if !q.IsInt() {
				return false
			}
		}
	case "number":
		x, ok := v.(json.Number)
		if !ok {
			return false
		}
		r := numRat(x)
		if s.MinF != nil {
			c := r.Cmp(new(big.Rat).SetFloat64(*s.MinF))
			if c < 0 || (s.ExclMin && c == 0) {
				return false
			}
		}
		if s.MaxF != nil {
			c := r.Cmp(new(big.Rat).SetFloat64(*s.MaxF))
			if c > 0 || (s.ExclMax && c == 0) {
				return false
			}
		}
		if s.MultF != nil {
			q := new(big.Rat).Quo(r, new(big.Rat).SetFloat64(*s.MultF))
			if !q.IsInt() {
				return false
			}
		}
	case "boolean":
		if _, ok := v.(bool); !ok {
			return false
		}
	case "array":
		x, ok := v.([]any)
		if !ok {
			return false
		}
		if s.MinItems != nil && len(x) < *s.MinItems {
			return false
		}
		if s.MaxItems != nil && len(x) > *s.MaxItems {
			return false
		}
		if s.Unique {
			for i := range x {
				for j := i + 1; j < len(x); j++ {
					if jsonEqualRef(x[i], x[j]) {
						return false
					}
				}
			}
		}
		if s.Items != nil {
			for _, e := range x {
				if !env.Valid(s.Items, e) {
					return false
				}
			}
		}
	case "object":
		x, ok := v.(map[string]any)
		if !ok {
			return false
		}
		if s.MinProps != nil && len(x) < *s.MinProps {
			return false
		}
		if s.MaxProps != nil && len(x) > *s.MaxProps {
			return false
		}
		known := map[string]bool{}
		for _, p := range s.Props {
			known[p.Name] = true
			pv, present := x[p.Name]
			if !present {
				if p.Required {
					return false
				}
				continue
			}
			if !env.Valid(p.S, pv) {
				return false
			}
		}
		for k, pv := range x {
			if known[k] {
				continue
			}
			switch s.AddMode {
			case "false":
				return false
			case "schema":
				if !env.Valid(s.AddProps, pv) {
					return false
				}
			}
		}
	}
	if s.Enum != nil {
		found := false
		for _, e := range s.Enum {
			if jsonEqualRef(normJSON(e), v) {
				found = true
			}
		}
		if !found {
			return false
		}
	}
	for _, sub := range s.AllOf {
		if !env.Valid(sub, v) {
			return false
		}
	}
	if s.OneOf != nil {
		n := 0
		for _, sub := range s.OneOf {
			if env.Valid(sub, v) {
				n++
			}
		}
		if n != 1 {
			return false
		}
	}
	if s.AnyOf != nil {
		n := 0
		for _, sub := range s.AnyOf {
			if env.Valid(sub, v) {
				n++
			}
		}
		if n == 0 {
			return false
		}
	}
	return true
}

// normJSON converts Go ints/floats/strings given in schema literals to UseNumber form
func normJSON(v any) any {
	b, _ := json.Marshal(v)
	return parseJSON(string(b))
}

func parseJSON(s string) any {
	d := json.NewDecoder(strings.NewReader(s))
	d.UseNumber()
	var v any
	if err := d.Decode(&v); err != nil {
		return fmt.Sprintf("<unparsable %q>", s)
	}
	return v
}

func renderJSON(v any) string {
	switch x := v.(type) {
	case nil:
		return "null"
	case bool:
		return strconv.FormatBool(x)
	case string:
		b, _ := json.Marshal(x)
		return string(b)
	case json.Number:
		return string(x)
	case []any:
		parts := make([]string, len(x))
		for i, e := range x {
			parts[i] = renderJSON(e)
		}
		return "[" + strings.Join(parts, ",") + "]"
	case map[string]any:
		keys := make([]string, 0, len(x))
		for k := range x {
			keys = append(keys, k)
		}
		sort.Strings(keys)
		parts := make([]string, len(keys))
		for i, k := range keys {
			kb, _ := json.Marshal(k)
			parts[i] = string(kb) + ":" + renderJSON(x[k])
		}
		return "{" + strings.Join(parts, ",") + "}"
	}
	return "null"
}

// ---------------------------------------------------------------------------------------
// schema generator

type SchemaGen struct {
	rng   *lp.Rand
	env   Env
	names []string
	nComp int
	// feature switches
	Sums bool
}

func NewSchemaGen(rng *lp.Rand) *SchemaGen { return &SchemaGen{rng: rng, env: Env{}} }

func (g *SchemaGen) Env() Env { return g.env }

func (g *SchemaGen) Component(s *Schema) *Schema {
	name := fmt.Sprintf("C%d", g.nComp)
	g.nComp++
	g.env[name] = s
	g.names = append(g.names, name)
	return &Schema{Ref: name}
}

func (g *SchemaGen) prim() *Schema {
	r := g.rng
	switch r.Intn(5) {
	case 0:
		s := &Schema{Type: "string"}
		switch r.Intn(5) {
		case 0:
			s.MinLen = ip(r.Intn(3))
		case 1:
			s.MaxLen = ip(1 + r.Intn(4))
		case 2:
			a := r.Intn(3)
			s.MinLen, s.MaxLen = ip(a), ip(a+r.Intn(3))
		case 3:
			s.Pattern = lp.Pick(r, patterns)
		}
		if r.Chance(15) && s.MinLen == nil && s.MaxLen == nil && s.Pattern == nil {
			s.Enum = []any{"red", "green", lp.Pick(r, []string{"blue", "a b", ""})}
		}
		return s
	case 1:
		s := &Schema{Type: "integer"}
		if r.Chance(50) {
			s.Format = lp.Pick(r, []string{"int32", "int64"})
		}
		switch r.Intn(6) {
		case 0:
			s.MinI = i64p(int64(r.Intn(7) - 3))
			s.ExclMin = r.Chance(40)
		case 1:
			s.MaxI = i64p(int64(r.Intn(7) - 3))
			s.ExclMax = r.Chance(40)
		case 2:
			a := int64(r.Intn(7) - 3)
			s.MinI, s.MaxI = i64p(a), i64p(a+int64(1+r.Intn(6)))
			s.ExclMin, s.ExclMax = r.Chance(30), r.Chance(30)
		case 3:
			s.MultI = i64p(int64(lp.Pick(r, []int{2, 3, 5, 10})))
		case 4:
			s.MultI = i64p(int64(lp.Pick(r, []int{2, 3})))
			s.MinI = i64p(int64(r.Intn(5) - 6))
		}
		if r.Chance(10) && s.MinI == nil && s.MaxI == nil && s.MultI == nil {
			s.Enum = []any{1, 2, 5}
		}
		return s
	case 2:
		s := &Schema{Type: "number"}
		switch r.Intn(5) {
		case 0:
			s.MinF = f64p(float64(r.Intn(9)-4) * 0.5)
			s.ExclMin = r.Chance(40)
		case 1:
			s.MaxF = f64p(float64(r.Intn(9)-4) * 0.5)
			s.ExclMax = r.Chance(40)
		case 2:
			a := float64(r.Intn(9)-4) * 0.5
			s.MinF, s.MaxF = f64p(a), f64p(a+float64(1+r.Intn(4))*0.5)
		case 3:
			s.MultF = f64p(lp.Pick(r, []float64{0.5, 0.25, 2, 3}))
		}
		return s
	case 3:
		return &Schema{Type: "boolean"}
	default:
		return &Schema{Type: "string"}
	}
}

// GenSum generates one of the composition shapes ogen implements: allOf merging, oneOf/anyOf with
// unambiguous discrimination (by JSON type, by discriminator with mapping, by unique required fields).
func (g *SchemaGen) GenSum() *Schema {
	r := g.rng
	objComp := func(props ...Prop) (*Schema, string) {
		ref := g.Component(&Schema{Type: "object", Props: props})
		return ref, ref.Ref
	}
	switch r.Intn(8) {
	case 7: // allOf on a primitive: both members bound the same side, exclusive flags on either
		lo1, lo2 := int64(r.Intn(4)), int64(r.Intn(4))
		hi1, hi2 := int64(6+r.Intn(4)), int64(6+r.Intn(4))
		a := &Schema{Type: "integer", MinI: i64p(lo1), MaxI: i64p(hi1), ExclMin: r.Chance(50), ExclMax: r.Chance(50)}
		b := &Schema{Type: "integer", MinI: i64p(lo2), MaxI: i64p(hi2), ExclMin: r.Chance(50), ExclMax: r.Chance(50)}
		if r.Chance(30) {
			b.MinI = nil
		}
		if r.Chance(30) {
			a.MaxI = nil
		}
		return g.Component(&Schema{AllOf: []*Schema{a, b}})
	case 0: // oneOf by type
		subs := []*Schema{{Type: "string", MinLen: ip(1)}, {Type: "integer", MinI: i64p(0)}}
		if r.Bool() {
			subs = append(subs, &Schema{Type: "boolean"})
		}
		return g.Component(&Schema{OneOf: subs})
	case 1: // anyOf by type
		return g.Component(&Schema{AnyOf: []*Schema{{Type: "string", MaxLen: ip(4)}, {Type: "number", MaxF: f64p(10)}}})
	case 2: // oneOf with discriminator + mapping
		a, an := objComp(Prop{"kind", &Schema{Type: "string", Enum: []any{"a"}}, true}, Prop{"x", &Schema{Type: "integer", MinI: i64p(0)}, true})
		b, bn := objComp(Prop{"kind", &Schema{Type: "string", Enum: []any{"b"}}, true}, Prop{"y", &Schema{Type: "string", MinLen: ip(1)}, r.Bool()})
		return g.Component(&Schema{OneOf: []*Schema{a, b}, DiscProp: "kind", DiscMap: map[string]string{"a": an, "b": bn}})
	case 3: // oneOf by unique required fields
		a, _ := objComp(Prop{"ua", &Schema{Type: "integer"}, true}, Prop{"c", &Schema{Type: "string"}, false})
		b, _ := objComp(Prop{"ub", &Schema{Type: "string", MaxLen: ip(3)}, true}, Prop{"c", &Schema{Type: "string"}, false})
		return g.Component(&Schema{OneOf: []*Schema{a, b}})
	case 4: // allOf: base + required-only member
		base, _ := objComp(Prop{"name", &Schema{Type: "string", MinLen: ip(1)}, false}, Prop{"tag", &Schema{Type: "string"}, false}, Prop{"n", &Schema{Type: "integer"}, r.Bool()})
		return g.Component(&Schema{AllOf: []*Schema{base, {Props: nil, Type: "", reqOnly: []string{lp.Pick(r, []string{"name", "tag"})}}}})
	case 5: // allOf: two objects with disjoint members
		a, _ := objComp(Prop{"p", &Schema{Type: "integer", MaxI: i64p(5)}, true})
		b, _ := objComp(Prop{"q", &Schema{Type: "string", Pattern: patterns[0]}, r.Bool()})
		return g.Component(&Schema{AllOf: []*Schema{a, b}})
	default: // allOf on a primitive: two halves of a range
		return g.Component(&Schema{AllOf: []*Schema{{Type: "integer", MinI: i64p(int64(r.Intn(3)))}, {Type: "integer", MaxI: i64p(int64(5 + r.Intn(3)))}}})
	}
}

// Gen generates a schema of the given depth; named=true wraps objects in components.
func (g *SchemaGen) Gen(depth int) *Schema {
	r := g.rng
	if g.Sums && depth > 0 && r.Chance(18) {
		return g.GenSum()
	}
	if depth == 0 || r.Chance(35) {
		s := g.prim()
		if r.Chance(15) {
			s.Nullable = true
		}
		return s
	}
	switch r.Intn(10) {
	case 0, 1, 2: // array
		s := &Schema{Type: "array", Items: g.Gen(depth - 1)}
		switch r.Intn(5) {
		case 0:
			s.MinItems = ip(r.Intn(3))
		case 1:
			s.MaxItems = ip(1 + r.Intn(3))
		case 2:
			a := r.Intn(2)
			s.MinItems, s.MaxItems = ip(a), ip(a+1+r.Intn(2))
		}
		it := s.Items
		if it.Ref == "" && (it.Type == "string" || it.Type == "integer") && it.Enum == nil && !it.Nullable && r.Chance(40) {
			s.Unique = true
		}
		if r.Chance(12) {
			s.Nullable = true
		}
		return s
	case 3: // map
		s := &Schema{Type: "object", AddMode: "schema", AddProps: g.Gen(depth - 1)}
		if r.Chance(40) {
			s.MinProps = ip(r.Intn(2))
		}
		if r.Chance(30) {
			s.MaxProps = ip(1 + r.Intn(2))
		}
		return g.Component(s)
	case 4: // recursive component
		name := fmt.Sprintf("C%d", g.nComp)
		g.nComp++
		s := &Schema{Type: "object", Props: []Prop{
			{"v", g.prim(), r.Bool()},
			{"next", &Schema{Ref: name}, false},
			{"kids", &Schema{Type: "array", Items: &Schema{Ref: name}}, false},
		}}
		g.env[name] = s
		g.names = append(g.names, name)
		return &Schema{Ref: name}
	default: // object
		n := 1 + r.Intn(4)
		s := &Schema{Type: "object"}
		for i := 0; i < n; i++ {
			name := string(rune('a' + i))
			if r.Chance(10) {
				name = lp.Pick(r, []string{"a b", "x-y", "Z", "type", "é", "a_" + name, "1st"}) + name
			}
			s.Props = append(s.Props, Prop{Name: name, S: g.Gen(depth - 1), Required: r.Chance(50)})
		}
		switch r.Intn(6) {
		case 0:
			s.AddMode = "false"
		case 1:
			s.AddMode = "true"
		case 2:
			s.AddMode, s.AddProps = "schema", g.prim()
		}
		if r.Chance(15) {
			s.MinProps = ip(r.Intn(n + 1))
		}
		if r.Chance(10) {
			s.MaxProps = ip(n + r.Intn(2))
		}
		if r.Chance(10) {
			s.Nullable = true
		}
		return g.Component(s)
	}
}

// ---------------------------------------------------------------------------------------
// instances

var sampleStrings = []string{"", "a", "abc", "zz", "A", "a1", "12", "123", "foo", "bar", "az", "a-z", "é", "日本", "a b", "\"q\"", "\\", "\n", "😀", "x9y", "red", "green"}

// GenValid returns a valid instance (ok=false when none was found in a few attempts).
func (g *SchemaGen) GenValid(s *Schema, depth int) (any, bool) {
	r := g.rng
	env := g.env
	if s.Ref != "" {
		return g.GenValid(env[s.Ref], depth)
	}
	if s.Nullable && r.Chance(15) {
		return nil, true
	}
	if s.Enum != nil {
		return normJSON(lp.Pick(r, s.Enum)), true
	}
	if s.OneOf != nil || s.AnyOf != nil {
		subs := s.OneOf
		if subs == nil {
			subs = s.AnyOf
		}
		for attempt := 0; attempt < 20; attempt++ {
			v, ok := g.GenValid(lp.Pick(r, subs), depth)
			if ok && env.Valid(s, v) {
				return v, true
			}
		}
		return nil, false
	}
	if s.AllOf != nil {
		for attempt := 0; attempt < 30; attempt++ {
			// merge object members of every branch; for primitives take a value of the first and test the rest
			merged := map[string]any{}
			var prim any
			isObj := false
			for _, sub := range s.AllOf {
				if sub.reqOnly != nil {
					continue
				}
				v, ok := g.GenValid(sub, depth)
				if !ok {
					continue
				}
				if m, ok := v.(map[string]any); ok {
					isObj = true
					for k, e := range m {
						merged[k] = e
					}
				} else if prim == nil {
					prim = v
				}
			}
			var v any = prim
			if isObj {
				// fill members demanded by required-only branches
				for _, sub := range s.AllOf {
					for _, k := range sub.reqOnly {
						if _, ok := merged[k]; !ok {
							merged[k] = "x"
						}
					}
				}
				v = merged
			}
			if v != nil && env.Valid(s, v) {
				return v, true
			}
		}
		return nil, false
	}
	for attempt := 0; attempt < 40; attempt++ {
		var v any
		switch s.Type {
		case "string":
			if s.Format == "byte" {
				v = lp.Pick(r, []string{"", "AA==", "AAEC/w==", "Zm9v"})
			} else if s.Pattern != nil {
				v = lp.Pick(r, s.Pattern.ok)
			} else {
				v = lp.Pick(r, sampleStrings)
				if s.MinLen != nil && utf8.RuneCountInString(v.(string)) < *s.MinLen {
					v = v.(string) + strings.Repeat("é", *s.MinLen)
				}
			}
		case "integer":
			lo, hi := int64(-8), int64(8)
			if s.MinI != nil {
				lo = *s.MinI
				if s.MaxI == nil {
					hi = lo + 8
				}
			}
			if s.MaxI != nil {
				hi = *s.MaxI
				if s.MinI == nil {
					lo = hi - 8
				}
			}
			x := lo + int64(r.Intn(int(hi-lo+1)))
			if s.MultI != nil {
				x -= ((x % *s.MultI) + *s.MultI) % *s.MultI
			}
			if r.Chance(5) && s.MinI == nil && s.MaxI == nil && s.MultI == nil && s.Format != "int32" {
				x = lp.Pick(r, []int64{1 << 40, -(1 << 40), 9007199254740993})
			}
			v = json.Number(strconv.FormatInt(x, 10))
		case "number":
			lo, hi := -4.0, 4.0
			if s.MinF != nil {
				lo = *s.MinF
				if s.MaxF == nil {
					hi = lo + 4
				}
			}
			if s.MaxF != nil {
				hi = *s.MaxF
				if s.MinF == nil {
					lo = hi - 4
				}
			}
			steps := int((hi-lo)/0.25) + 1
			x := lo + float64(r.Intn(steps))*0.25
			if s.MultF != nil {
				q := float64(int64(x / *s.MultF))
				x = q * *s.MultF
			}
			v = json.Number(strconv.FormatFloat(x, 'f', -1, 64))
			if r.Chance(20) && x == float64(int64(x)) {
				v = json.Number(strconv.FormatInt(int64(x), 10) + lp.Pick(r, []string{".0", "e0", ""}))
			}
		case "boolean":
			v = r.Bool()
		case "array":
			n := r.Intn(4)
			if s.MinItems != nil && n < *s.MinItems {
				n = *s.MinItems
			}
			if s.MaxItems != nil && n > *s.MaxItems {
				n = *s.MaxItems
			}
			if depth <= 0 && s.MinItems == nil {
				n = 0
			}
			arr := []any{}
			for i := 0; i < n; i++ {
				e, ok := g.GenValid(s.Items, depth-1)
				if !ok {
					return nil, false
				}
				arr = append(arr, e)
			}
			v = arr
		case "object":
			m := map[string]any{}
			for _, p := range s.Props {
				if !p.Required && (r.Chance(45) || depth <= 0) {
					continue
				}
				e, ok := g.GenValid(p.S, depth-1)
				if !ok {
					if p.Required {
						return nil, false
					}
					continue
				}
				m[p.Name] = e
			}
			extra := 0
			if s.AddMode == "schema" || s.AddMode == "true" || s.AddMode == "" {
				extra = r.Intn(3)
				if s.AddMode == "" && r.Chance(70) {
					extra = 0
				}
			}
			if s.MinProps != nil && len(m)+extra < *s.MinProps && s.AddMode != "false" {
				extra = *s.MinProps - len(m)
			}
			for i := 0; i < extra; i++ {
				k := lp.Pick(r, []string{"x", "y", "extra", "k1", "k 2", "ключ"}) + fmt.Sprint(i)
				switch s.AddMode {
				case "schema":
					e, ok := g.GenValid(s.AddProps, depth-1)
					if ok {
						m[k] = e
					}
				default:
					m[k] = lp.Pick(r, []any{json.Number("1"), "s", true, nil, []any{json.Number("1")}, map[string]any{"q": "r"}})
				}
			}
			v = m
		default:
			v = lp.Pick(r, []any{json.Number("1"), "s", true})
		}
		if env.Valid(s, v) {
			return v, true
		}
	}
	return nil, false
}

// Mutants: single-keyword boundary mutants of a valid instance (each may be valid or not; the
// reference validator decides).
func (g *SchemaGen) Mutants(s *Schema, v any, depth int) []any {
	env := g.env
	r := g.rng
	if s.Ref != "" {
		return g.Mutants(env[s.Ref], v, depth)
	}
	var out []any
	// wrong type / null
	out = append(out, nil)
	switch v.(type) {
	case string:
		out = append(out, json.Number("1"), true)
	case json.Number:
		out = append(out, "1", true)
	case bool:
		out = append(out, "true", json.Number("0"))
	case []any:
		out = append(out, map[string]any{}, "[]")
	case map[string]any:
		out = append(out, []any{}, "{}")
	}
	if m, ok := v.(map[string]any); ok && len(s.OneOf) >= 2 {
		// a document that has the members of two variants at once
		for _, sub := range s.OneOf {
			if o, ok := g.GenValid(sub, depth); ok {
				if om, ok := o.(map[string]any); ok {
					u := map[string]any{}
					for k, e := range om {
						u[k] = e
					}
					for k, e := range m {
						u[k] = e
					}
					if len(u) > len(m) {
						out = append(out, u)
					}
				}
			}
		}
	}
	for _, subs := range [][]*Schema{s.OneOf, s.AnyOf, s.AllOf} {
		for _, sub := range subs {
			if sub.reqOnly != nil {
				if m, ok := v.(map[string]any); ok {
					for _, k := range sub.reqOnly {
						c := map[string]any{}
						for kk, e := range m {
							if kk != k {
								c[kk] = e
							}
						}
						out = append(out, c)
					}
				}
				continue
			}
			if env.Valid(sub, v) || s.AllOf != nil {
				// mutants inside the branch the value belongs to (for allOf: every branch, applied to the merged value)
				for _, mu := range g.Mutants(sub, v, depth) {
					if _, isMap := v.(map[string]any); isMap {
						if _, ok := mu.(map[string]any); !ok && r.Chance(70) {
							continue
						}
					}
					out = append(out, mu)
				}
			}
		}
	}
	switch s.Type {
	case "string":
		x, _ := v.(string)
		if s.MinLen != nil {
			out = append(out, strings.Repeat("é", *s.MinLen), strings.Repeat("é", max(*s.MinLen-1, 0)))
		}
		if s.MaxLen != nil {
			out = append(out, strings.Repeat("😀", *s.MaxLen), strings.Repeat("😀", *s.MaxLen+1), strings.Repeat("ab", *s.MaxLen))
		}
		if s.Pattern != nil {
			for _, b := range s.Pattern.bad {
				out = append(out, b)
			}
		}
		if s.Enum != nil {
			out = append(out, x+"x", "RED")
		}
	case "integer":
		for _, b := range []*int64{s.MinI, s.MaxI} {
			if b != nil {
				out = append(out, json.Number(fmt.Sprint(*b)), json.Number(fmt.Sprint(*b-1)), json.Number(fmt.Sprint(*b+1)))
			}
		}
		if s.MultI != nil {
			m := *s.MultI
			out = append(out, json.Number(fmt.Sprint(m)), json.Number(fmt.Sprint(m+1)), json.Number(fmt.Sprint(-m)), json.Number(fmt.Sprint(-m-1)), json.Number("0"))
		}
		if s.Enum != nil {
			out = append(out, json.Number("3"), json.Number("-1"))
		}
		out = append(out, json.Number("1.5"))
	case "number":
		for _, b := range []*float64{s.MinF, s.MaxF} {
			if b != nil {
				for _, d := range []float64{0, -0.25, 0.25} {
					out = append(out, json.Number(strconv.FormatFloat(*b+d, 'f', -1, 64)))
				}
			}
		}
		if s.MultF != nil {
			m := *s.MultF
			for _, k := range []float64{1, -1, 0, 1.5, 0.5, 3} {
				out = append(out, json.Number(strconv.FormatFloat(m*k, 'f', -1, 64)))
			}
		}
	case "array":
		x, _ := v.([]any)
		if s.MinItems != nil && *s.MinItems > 0 && len(x) >= *s.MinItems {
			out = append(out, append([]any{}, x[:*s.MinItems-1]...))
		}
		if s.MaxItems != nil {
			e, ok := g.GenValid(s.Items, depth-1)
			for ok && len(x) <= *s.MaxItems {
				x = append(append([]any{}, x...), e)
				if s.Unique {
					break
				}
			}
			out = append(out, x)
		}
		if len(x) > 0 {
			out = append(out, append(append([]any{}, x...), x[0])) // duplicate item
			// one bad item
			for _, m := range g.Mutants(s.Items, x[0], depth-1) {
				if r.Chance(40) {
					y := append([]any{}, x...)
					y[r.Intn(len(y))] = m
					out = append(out, y)
				}
			}
		} else {
			out = append(out, []any{nil}, []any{json.Number("1")}, []any{"s"})
		}
	case "object":
		x, _ := v.(map[string]any)
		clone := func() map[string]any {
			m := map[string]any{}
			for k, e := range x {
				m[k] = e
			}
			return m
		}
		for _, p := range s.Props {
			if _, ok := x[p.Name]; ok {
				m := clone()
				delete(m, p.Name) // missing member
				out = append(out, m)
				for _, mu := range g.Mutants(p.S, x[p.Name], depth-1) {
					if r.Chance(50) {
						m := clone()
						m[p.Name] = mu
						out = append(out, m)
					}
				}
			} else if e, ok := g.GenValid(p.S, depth-1); ok {
				m := clone()
				m[p.Name] = e
				out = append(out, m)
			}
		}
		m := clone()
		m["zzextra"] = lp.Pick(r, []any{json.Number("1"), "s", nil, true})
		out = append(out, m)
		if s.AddMode == "schema" {
			for _, mu := range g.Mutants(s.AddProps, json.Number("0"), depth-1) {
				m := clone()
				m["zzbad"] = mu
				out = append(out, m)
			}
		}
		out = append(out, map[string]any{})
	}
	return out
}

// RandomJSON: schema-independent instances
func (g *SchemaGen) RandomJSON(depth int) any {
	r := g.rng
	k := r.Intn(7)
	if depth == 0 && k >= 5 {
		k = r.Intn(5)
	}
	switch k {
	case 0:
		return nil
	case 1:
		return r.Bool()
	case 2:
		return lp.Pick(r, sampleStrings)
	case 3:
		return json.Number(lp.Pick(r, []string{"0", "1", "-1", "2", "3", "10", "0.5", "-0.25", "1e2", "2.0", "100000000000"}))
	case 4:
		return json.Number(strconv.Itoa(r.Intn(9) - 4))
	case 5:
		n := r.Intn(3)
		a := []any{}
		for i := 0; i < n; i++ {
			a = append(a, g.RandomJSON(depth-1))
		}
		return a
	default:
		n := r.Intn(3)
		m := map[string]any{}
		for i := 0; i < n; i++ {
			m[lp.Pick(r, []string{"a", "b", "c", "v", "next", "x"})] = g.RandomJSON(depth - 1)
		}
		return m
	}
}
