package main

import (
	"fmt"
	"strings"

	"github.com/dlclark/regexp2"
	"github.com/ogen-go/ogen/ogenregex"

	"verifharness/internal/lp"
)

func init() { suites["c08"] = c08 }

func cpsOf(s string) string {
	var sb strings.Builder
	for _, r := range s {
		fmt.Fprintf(&sb, "%x,", r)
	}
	return sb.String()
}

// ---- the fragment of the Lean semantic model as a Go AST, printed to ECMA-262 text ----

type rx struct {
	op   string // l . s S d D w W a n c ^ $ b B C A * + ?
	cp   rune
	a, b *rx
}

func (e *rx) toks(sb *strings.Builder) {
	switch e.op {
	case "l", "c":
		fmt.Fprintf(sb, "%s%x ", e.op, e.cp)
	case "C", "A":
		sb.WriteString(e.op + " ")
		e.a.toks(sb)
		e.b.toks(sb)
	case "*", "+", "?":
		sb.WriteString(e.op + " ")
		e.a.toks(sb)
	default:
		sb.WriteString(e.op + " ")
	}
}

func (e *rx) atomic() bool {
	switch e.op {
	case "C", "A", "*", "+", "?":
		return false
	}
	return true
}

// print: ECMA-262 source text
func (e *rx) print() string {
	switch e.op {
	case "l":
		if strings.ContainsRune(`\^$.*+?()[]{}|/`, e.cp) {
			return `\` + string(e.cp)
		}
		return string(e.cp)
	case "c":
		return `\c` + string(e.cp)
	case ".":
		return "."
	case "s", "S", "d", "D", "w", "W", "b", "B":
		return `\` + e.op
	case "a":
		return "[^]"
	case "n":
		return "[]"
	case "^", "$":
		return e.op
	case "C":
		l, r := e.a.print(), e.b.print()
		if e.a.op == "A" {
			l = "(?:" + l + ")"
		}
		if e.b.op == "A" {
			r = "(?:" + r + ")"
		}
		return l + r
	case "A":
		return e.a.print() + "|" + e.b.print()
	default: // * + ?
		in := e.a.print()
		if !e.a.atomic() || e.a.op == "^" || e.a.op == "$" || e.a.op == "b" || e.a.op == "B" {
			in = "(?:" + in + ")"
		}
		return in + e.op
	}
}

func (e *rx) hasQuantifiedAssertion() bool {
	switch e.op {
	case "*", "+", "?":
		if e.a.op == "^" || e.a.op == "$" || e.a.op == "b" || e.a.op == "B" {
			return true
		}
		return e.a.hasQuantifiedAssertion()
	case "C", "A":
		return e.a.hasQuantifiedAssertion() || e.b.hasQuantifiedAssertion()
	}
	return false
}

// nullable: the expression can match the empty string
func (e *rx) nullable() bool {
	switch e.op {
	case "*", "?":
		return true
	case "+":
		return e.a.nullable()
	case "C":
		return e.a.nullable() && e.b.nullable()
	case "A":
		return e.a.nullable() || e.b.nullable()
	case "^", "$", "b", "B":
		return true
	}
	return false
}

// nullableLoopDepth: how many * / + with a nullable body are nested inside each other
func (e *rx) nullableLoopDepth() int {
	switch e.op {
	case "*", "+":
		d := e.a.nullableLoopDepth()
		if e.a.nullable() {
			d++
		}
		return d
	case "?":
		return e.a.nullableLoopDepth()
	case "C", "A":
		return max(e.a.nullableLoopDepth(), e.b.nullableLoopDepth())
	}
	return 0
}

// hasNullableLoop: a * or + over something that can match the empty string — the model's fuel-bounded matcher
// explores such loops exponentially in the subject length
func (e *rx) hasNullableLoop() bool {
	switch e.op {
	case "*", "+":
		return e.a.nullable() || e.a.hasNullableLoop()
	case "?":
		return e.a.hasNullableLoop()
	case "C", "A":
		return e.a.hasNullableLoop() || e.b.hasNullableLoop()
	}
	return false
}

var rxLeaves = func() []*rx {
	var ls []*rx
	for _, c := range []rune{'a', 'Z', '0', '_', ' ', '\n', 0xa0, 0x2028, 0xfeff, 'é', 0x20000, '.', '*', '[', '/'} {
		ls = append(ls, &rx{op: "l", cp: c})
	}
	for _, op := range []string{".", "s", "S", "d", "D", "w", "W", "a", "n", "^", "$", "b", "B"} {
		ls = append(ls, &rx{op: op})
	}
	ls = append(ls, &rx{op: "c", cp: 'J'}, &rx{op: "c", cp: 'a'})
	return ls
}()

var rxSubjectAlpha = []rune{'a', 'Z', '0', '_', ' ', '\n', 0xa0, 0x2028, 0xfeff, 'é', 0x20000, '\r', 0x2029, 0x85, '.', '\t', 0x0a}

func rxGen(rng *lp.Rand, size int) *rx {
	if size <= 1 {
		return lp.Pick(rng, rxLeaves)
	}
	switch rng.Intn(5) {
	case 0, 1:
		k := 1 + rng.Intn(size-1)
		return &rx{op: "C", a: rxGen(rng, k), b: rxGen(rng, size-k)}
	case 2:
		k := 1 + rng.Intn(size-1)
		return &rx{op: "A", a: rxGen(rng, k), b: rxGen(rng, size-k)}
	default:
		return &rx{op: lp.Pick(rng, []string{"*", "+", "?"}), a: rxGen(rng, size-1)}
	}
}

func c08(r *lp.Run) {
	r.SetRule("(1) Convert on random token sequences (escapes cut short, octal/\\x/\\u/\\u{ forms, \\c, unterminated classes and groups, look-around prefixes, '[' inside classes, astral characters) and on printed ASTs, output text compared with the Lean converter model; (2) ogenregex.Compile(p).MatchString(s) for expressions of the semantic fragment (literals incl. line terminators / ECMAScript-only whitespace / astral, ., \\s \\S \\d \\D \\w \\W, [^], [], \\cX, ^ $ \\b \\B, concatenation, alternation, * + ?) — every expression of size ≤ 2 plus random larger ones — on every subject of length ≤ L over a 17-symbol alphabet, compared with the Lean ECMA-262 semantics; atoms on a code-point grid (thorough: every code point of planes 0–2, every 16th above); regexp2 (ECMAScript|Unicode) is the second opinion for the failing-input search; (3) fallback: look-around / back-reference / named-group patterns must run on the backtracking engine, never approximated; String() returns the source; (4) engine agreement: patterns of the sub-fragment both engines implement faithfully, forced onto the backtracking engine by a look-around that cannot fail, must answer as their converted form does; (5) generated validators: a regenerated server accepts a string member exactly when ogenregex.Compile(pattern).MatchString does (patterns that look like match-all, line terminators in subjects). non-trivial = distinct (pattern, subject) where the pattern contains a class, an escape or a quantifier")
	rng := r.Rng.Fork(8)
	c08Convert(r, rng)
	c08Semantics(r, rng)
	c08Atoms(r)
	c08Fallback(r)
	c08EngineAgreement(r, r.Rng.Fork(801))
	c08ClassEdges(r)
	c08Escapes(r)
	c08Generated(r)
}

func implConvert(p string) string {
	return lp.Guard(func() string {
		out, ok := ogenregex.Convert(p)
		if !ok {
			return "fail"
		}
		return "ok:" + cpsOf(out)
	})
}

func c08Convert(r *lp.Run, rng *lp.Rand) {
	toks := []string{"a", "Z", "0", "1", "7", "8", "9", "\\", "(", ")", "[", "]", "^", "$", ".", "*", "+", "?", "{", "}", ",", "|", "-", ":", "=", "!", "<", "x", "u", "c", "b", "B", "d", "s", "S", "w", "f", "n", "v", "k", "p", "é", "\U00020000", "/", "_", " ", "4", "F", "g", "\\d", "\\s", "\\S", "\\b", "\\x4", "\\x41", "\\u00", "\\u0041", "\\u{41}", "\\u{", "\\cA", "\\cP", "\\cp", "\\cO", "\\cQ", "\\cZ", "\\cz", "\\cJ", "\\c1", "\\0", "\\01", "\\12", "\\17", "\\20", "\\21", "\\37", "\\40", "\\77", "\\100", "\\377", "\\400", "\\8", "(?:", "(?=", "(?<", "(?i", "[^", "[]", "[^]", "\\-", "\\/", "\\$", "\\_", "[[", "[:alpha:]", "[a-", "\\u{1F600}", "\\u{110000}", "\\W", "\\D", "[\\s", "[\\S", "[\\b", "\\k<n>", "\\1", "(?<n>", "(?!", "(?<=", "(?<!"}
	n := r.N(60000, 600000)
	for i := 0; i < n; i++ {
		k := 1 + rng.Intn(6)
		var sb strings.Builder
		for j := 0; j < k; j++ {
			sb.WriteString(lp.Pick(rng, toks))
		}
		p := sb.String()
		out := implConvert(p)
		branch := "convert:fail"
		if strings.HasPrefix(out, "ok") {
			branch = "convert:ok"
		}
		r.Case("conv", cpsOf(p), out, branch, strings.ContainsAny(p, `\[(`))
		if out == "panic" {
			r.PropCheck()
			r.Fail(lp.PropFail{Property: "C08", What: "Convert panics", Input: map[string]string{"pattern": p}, Observed: "panic", Expected: "text or refusal"})
		}
	}
}

func c08Semantics(r *lp.Run, rng *lp.Rand) {
	// expressions: all of size ≤ 2 (leaf, unary over leaf, binary over leaves sampled), random larger
	var exprs []*rx
	exprs = append(exprs, rxLeaves...)
	for _, l := range rxLeaves {
		for _, op := range []string{"*", "+", "?"} {
			exprs = append(exprs, &rx{op: op, a: l})
		}
	}
	for i := 0; i < r.N(300, 600); i++ {
		exprs = append(exprs, &rx{op: lp.Pick(rng, []string{"C", "A"}), a: lp.Pick(rng, rxLeaves), b: lp.Pick(rng, rxLeaves)})
	}
	for i := 0; i < r.N(400, 1000); i++ {
		exprs = append(exprs, rxGen(rng, 3+rng.Intn(4)))
	}
	L := r.N(2, 3)
	var subjects [][]rune
	var rec func(cur []rune, k int)
	rec = func(cur []rune, k int) {
		subjects = append(subjects, append([]rune{}, cur...))
		if k == 0 {
			return
		}
		for _, c := range rxSubjectAlpha {
			rec(append(cur, c), k-1)
		}
	}
	rec(nil, L)
	for ei, e := range exprs {
		if e.hasQuantifiedAssertion() {
			continue // `^*`, `\b+`: quantified assertions are Annex B only and refused by RE2
		}
		p := e.print()
		re, err := ogenregex.Compile(p)
		if err != nil {
			r.PropCheck()
			r.Fail(lp.PropFail{Property: "C08", What: "a pattern of the portable grammar does not compile", Input: map[string]string{"pattern": p}, Observed: err.Error(), Expected: "compiles"})
			continue
		}
		if got := re.String(); got != p {
			r.PropCheck()
			r.Fail(lp.PropFail{Property: "C08", What: "a compiled pattern does not report its source text", Input: map[string]string{"pattern": p}, Observed: got, Expected: p})
		}
		var etoks strings.Builder
		e.toks(&etoks)
		var oracle *regexp2.Regexp
		subs := subjects
		if e.nullableLoopDepth() > 2 {
			// three or more nested loops over nullable bodies: the model's matcher is exponential in that depth even
			// on the empty subject; such expressions are compared through the converter text only
			r.Count("rematch-skipped "+p, "semantics-skipped:nested-nullable-loops", false)
			continue
		}
		if d := e.nullableLoopDepth(); d > 0 && (L > 2 || d > 1) {
			// shorter subjects (see hasNullableLoop): length ≤ 2 for one nullable loop, ≤ 1 for nested ones
			lim := 2
			if d > 1 {
				lim = 1
			}
			subs = nil
			for _, s := range subjects {
				if len(s) <= lim {
					subs = append(subs, s)
				}
			}
		}
		if ei >= len(rxLeaves)*4 {
			// larger expressions: a random third (quick, length ≤ 2) / eighth (thorough, length ≤ 3) of the subjects;
			// leaves and their quantified forms see every subject
			all := subs
			subs = nil
			for _, s := range all {
				if rng.Intn(r.N(3, 8)) == 0 {
					subs = append(subs, s)
				}
			}
		}
		for _, s := range subs {
			m, merr := re.MatchString(string(s))
			out := "0"
			if merr != nil {
				out = "err"
			} else if m {
				out = "1"
			}
			subj := "-"
			if len(s) > 0 {
				parts := make([]string, len(s))
				for i, c := range s {
					parts[i] = fmt.Sprintf("%x", c)
				}
				subj = strings.Join(parts, ",")
			}
			r.Case("rematch", strings.TrimSpace(etoks.String())+" | "+subj, out, "match:"+out, !e.atomic() || e.op != "l")
			// second opinion for the failing-input search — only where regexp2 is itself ECMA-262
			// (its `.` accepts U+2028/2029, its \b \B \w are Unicode-aware)
			if strings.ContainsAny(p, ".") || strings.Contains(p, `\b`) || strings.Contains(p, `\B`) {
				continue
			}
			if oracle == nil {
				oracle, _ = regexp2.Compile(p, regexp2.ECMAScript|regexp2.Unicode)
			}
			if oracle != nil {
				r.PropCheck()
				om, oerr := oracle.MatchString(string(s))
				if oerr == nil && merr == nil && om != m {
					r.Fail(lp.PropFail{Property: "C08", What: "the converted expression and the ECMAScript engine disagree", Input: map[string]string{"pattern": p, "subject": fmt.Sprintf("%q", string(s)), "subject_cps": subj}, Observed: fmt.Sprint("ogen: ", m), Expected: fmt.Sprint("ECMA-262: ", om)})
				}
			}
		}
	}
	r.Exhaustive("subjects", fmt.Sprintf("every string of length ≤ %d over 17 symbols for every expression of size ≤ 2", L))
}

// every atom the converter can emit, against a code-point grid
func c08Atoms(r *lp.Run) {
	atoms := []*rx{{op: "s"}, {op: "S"}, {op: "."}, {op: "a"}, {op: "n"}, {op: "d"}, {op: "w"}, {op: "W"}, {op: "D"}}
	step := rune(61)
	if r.Thorough() {
		step = 16
	}
	for _, a := range atoms {
		e := &rx{op: "C", a: &rx{op: "^"}, b: &rx{op: "C", a: a, b: &rx{op: "$"}}}
		re, err := ogenregex.Compile(e.print())
		if err != nil {
			continue
		}
		var etoks strings.Builder
		e.toks(&etoks)
		for c := rune(0); c <= 0x10FFFF; c++ {
			if c >= 0xD800 && c <= 0xDFFF {
				continue
			}
			if !(c < 0x3100 || (r.Thorough() && c < 0x30000) || c%step == 0 || c >= 0x10FFF0 || (c >= 0xFE00 && c <= 0x1003F) || (c >= 0x1FFF0 && c <= 0x2000F)) {
				continue
			}
			m, _ := re.MatchString(string(c))
			r.Case("rematch", strings.TrimSpace(etoks.String())+" | "+fmt.Sprintf("%x", c), b2s(m), "atom:"+a.op, false)
		}
	}
	if r.Thorough() {
		r.Exhaustive("atoms \\s \\S . [^] [] \\d \\D \\w \\W", "every scalar value below U+30000 (planes 0–2, where every assigned white space, line terminator, digit and word character lives) and every 16th above, plus the boundaries")
	}
}

// constructs outside the faithful set are executed by the backtracking engine, never approximated
func c08Fallback(r *lp.Run) {
	type fc struct {
		p, yes, no string
	}
	cases := []fc{
		{`^(?=a)ab$`, "ab", "bb"}, {`^a(?!b).$`, "ac", "ab"}, {`^(a)\1$`, "aa", "ab"}, {`(?<=a)b`, "ab", "cb"}, {`(?<!a)b`, "cb", "ab"},
		{`^(?<x>a)\k<x>$`, "aa", "ab"}, {`^[\S]$`, "a", " "}, {`^[^\S]$`, " ", "a"},
		// a back-reference to a group that opens later (or encloses it) matches the empty string
		{`^\1(a)$`, "a", "\x01a"}, {`^(a)\2(b)$`, "ab", "a\x02b"}, {`^(a\1)$`, "a", "aa"},
	}
	for _, c := range cases {
		out := implConvert(c.p)
		r.Count("fallback "+c.p, "fallback", true)
		r.PropCheck()
		in := map[string]string{"pattern": c.p}
		if out != "fail" {
			r.Fail(lp.PropFail{Property: "C08", What: "a construct that the linear-time engine cannot express is converted instead of being handed to the backtracking engine", Input: in, Observed: out, Expected: "not converted"})
			continue
		}
		re, err := ogenregex.Compile(c.p)
		if err != nil {
			r.Fail(lp.PropFail{Property: "C08", What: "fallback pattern does not compile", Input: in, Observed: err.Error(), Expected: "compiles on regexp2"})
			continue
		}
		y, _ := re.MatchString(c.yes)
		n, _ := re.MatchString(c.no)
		if !y || n {
			r.Fail(lp.PropFail{Property: "C08", What: "fallback pattern does not have ECMA-262 semantics", Input: in, Observed: fmt.Sprintf("%q:%v %q:%v", c.yes, y, c.no, n), Expected: "true false"})
		}
		if re.String() != c.p {
			r.Fail(lp.PropFail{Property: "C08", What: "a compiled pattern does not report its source text", Input: in, Observed: re.String(), Expected: c.p})
		}
	}
}
