// corr runs the real ogen code (compiled from /repo's working tree with -tags verif) on
// generated cases, writes the line-protocol files for the Lean driver and evaluates the
// properties' own predicates directly on the implementation (the failing-input search).
package main

import (
	"flag"
	"fmt"
	"os"
	"sort"
	"strconv"

	"verifharness/internal/lp"
)

type suite func(r *lp.Run)

var suites = map[string]suite{}

var replayFile string

func main() {
	if os.Getenv("VERIF_CHILD_GEN") != "" {
		childGenMain()
		return
	}
	if os.Getenv("VERIF_CHILD_RACE") != "" {
		c10RaceChild()
		return
	}
	out := flag.String("out", "", "output directory")
	tier := flag.String("tier", "quick", "quick|thorough")
	seed := flag.Uint64("seed", 1, "PRNG seed")
	flag.StringVar(&replayFile, "replay", "", "replay file (a suite may re-run just its failing inputs)")
	flag.Parse()
	if flag.NArg() != 1 || *out == "" {
		names := []string{}
		for k := range suites {
			names = append(names, k)
		}
		sort.Strings(names)
		fmt.Fprintln(os.Stderr, "usage: corr -out DIR [-tier T] [-seed N] <suite>; suites:", names)
		os.Exit(2)
	}
	if s := os.Getenv("VERIF_SEED"); s != "" && !isFlagSet("seed") {
		if v, err := strconv.ParseUint(s, 10, 64); err == nil {
			*seed = v
		}
	}
	name := flag.Arg(0)
	f, ok := suites[name]
	if !ok {
		fmt.Fprintln(os.Stderr, "unknown suite", name)
		os.Exit(2)
	}
	r, err := lp.NewRun(name, *out, *tier, *seed)
	if err != nil {
		fmt.Fprintln(os.Stderr, err)
		os.Exit(2)
	}
	f(r)
	if err := r.Close(); err != nil {
		fmt.Fprintln(os.Stderr, err)
		os.Exit(2)
	}
}

func isFlagSet(name string) bool {
	set := false
	flag.Visit(func(f *flag.Flag) {
		if f.Name == name {
			set = true
		}
	})
	return set
}
