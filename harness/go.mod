module verifharness

go 1.23.0

require (
	github.com/dlclark/regexp2 v1.11.5
	github.com/go-faster/jx v1.1.0
	github.com/go-faster/yaml v0.4.6
	github.com/google/uuid v1.6.0
	github.com/ogen-go/ogen v0.0.0
)

require (
	github.com/fatih/color v1.18.0 // indirect
	github.com/ghodss/yaml v1.0.0 // indirect
	github.com/go-faster/errors v0.7.1 // indirect
	github.com/mattn/go-colorable v0.1.13 // indirect
	github.com/mattn/go-isatty v0.0.20 // indirect
	github.com/segmentio/asm v1.2.0 // indirect
	go.uber.org/multierr v1.11.0 // indirect
	go.uber.org/zap v1.27.0 // indirect
	golang.org/x/exp v0.0.0-20230725093048-515e97ebf090 // indirect
	golang.org/x/mod v0.24.0 // indirect
	golang.org/x/net v0.39.0 // indirect
	golang.org/x/sync v0.13.0 // indirect
	golang.org/x/sys v0.32.0 // indirect
	golang.org/x/text v0.24.0 // indirect
	golang.org/x/tools v0.32.0 // indirect
	gopkg.in/yaml.v2 v2.4.0 // indirect
)

replace github.com/ogen-go/ogen => /repo
