import Ogen.Norm_feasibility
import Ogen.UriCodecLib
import Ogen.JsonPointer_driver

import Ogen.RegexConvert_feasibility
import Ogen.JsonEqualDriver
import Ogen.IntRoundTrip_proof

/-! Line-protocol driver over all executable models: `<model> <payload>` per line, one
    canonical output line per input line. Core-only (no Mathlib) so it links natively. -/

def convLine (line : String) : String :=
  match Conv.convert (Conv.parseLine line) with
  | .ok out => "ok:" ++ Conv.hexOfString out
  | .fatal => "fail"
  | .nonfatal => "fail"

def dispatch (line : String) : String :=
  let line := line.trimAscii.toString
  match line.splitOn " " with
  | [] => "bad-line"
  | tag :: rest =>
    let payload := " ".intercalate rest
    match tag with
    | "norm" => Norm.runLine payload
    | "nbyte" => Norm.byteLine payload
    | "codec" => Codec.runLine payload
    | "admitcfg" => Codec.admitLine payload
    | "cookie" => Codec.cookieLine payload
    | "uncookie" => Codec.uncookieLine payload
    | "cookiebyte" => Codec.cookieByteLine payload
    | "ptr" => Ptr.runLine payload

    | "conv" => convLine payload
    | "ifmt" => IntRT.ifmtLine payload
    | "ufmt" => IntRT.ufmtLine payload
    | "iparse" => IntRT.iparseLine payload
    | "bparse" => IntRT.bparseLine payload
    | "jeq" => JEqDrv.runLine payload
    | "enum" => JEqDrv.enumLine payload
    | _ => "bad-model"

partial def loop (h : IO.FS.Stream) (out : IO.FS.Stream) : IO Unit := do
  let line ← h.getLine
  if line.isEmpty then return ()
  out.putStrLn (dispatch line)
  loop h out

def main : IO Unit := do
  let out ← IO.getStdout
  loop (← IO.getStdin) out
  out.flush
