import Ogen.Norm_feasibility
import Ogen.UriCodecLib
import Ogen.JsonPointer_driver

import Ogen.RegexConvert_feasibility
import Ogen.JsonEqualDriver
import Ogen.IntRoundTrip_proof
import Ogen.RouterDriver
import Ogen.SecurityHandler_proof
import Ogen.ValidateModel_proof
import Ogen.OptNilStates_proof
import Ogen.HandlerStages_proof
import Ogen.Exchange_proof
import Ogen.RefCache_proof
import Ogen.CliStages_proof
import Ogen.RegexSemantics_proof
import Ogen.NameGen_proof
import Ogen.TStore_proof
import Ogen.UnixTime_proof
import Ogen.FloatValidateModel
import Ogen.JsonCodecDriver
import Ogen.GenOrderDriver
import Ogen.AuthHeaderDriver
import Ogen.UuidText_proof
import Ogen.DocLines_proof
import Ogen.DurationText_proof
import Ogen.BoundMerge_proof
import Ogen.Listing_proof
import Ogen.Lines_proof
import Ogen.RespOrder_proof

/-! Line-protocol driver over all executable models: `<model> <payload>` per line, one
    canonical output line per input line. Core-only (no Mathlib) so it links natively. -/

def convLine (line : String) : String :=
  match Conv.convert (Conv.parseLine line) with
  | .ok out => "ok:" ++ Conv.hexOfString out
  | .fatal => "fail"
  | .nonfatal => "fail"

def dispatch (line : String) : String :=
  let line := line.trimAscii.toString
  match line.splitOn " " with
  | [] => "bad-line"
  | tag :: rest =>
    let payload := " ".intercalate rest
    match tag with
    | "norm" => Norm.runLine payload
    | "nbyte" => Norm.byteLine payload
    | "codec" => Codec.runLine payload
    | "admitcfg" => Codec.admitLine payload
    | "cookie" => Codec.cookieLine payload
    | "uncookie" => Codec.uncookieLine payload
    | "cookiebyte" => Codec.cookieByteLine payload
    | "ptr" => Ptr.runLine payload

    | "conv" => convLine payload
    | "ifmt" => IntRT.ifmtLine payload
    | "ufmt" => IntRT.ufmtLine payload
    | "iparse" => IntRT.iparseLine payload
    | "bparse" => IntRT.bparseLine payload
    | "sec" => Sec.secLine payload
    | "bitset" => Sec.bitsetLine payload
    | "vint" => ValidateM.vintLine payload
    | "vlen" => ValidateM.vlenLine payload
    | "vprops" => ValidateM.vpropsLine payload
    | "vuniq" => ValidateM.vuniqLine payload
    | "optnil" => OptNil.optnilLine payload
    | "stage" => Stages.stageLine payload
    | "rsel" => Exchange.rselLine payload
    | "refs" => RefChain.refsLine payload
    | "cli" => Cli.cliLine payload
    | "rematch" => ReSem.rematchLine payload
    | "namegen" => NameGen.namegenLine payload
    | "tstore" => TStore.tstoreLine payload
    | "unixt" => UnixT.unixLine payload
    | "vfloat" => FloatV.floatLine payload
    | "jcodec" => JCodecDrv.codecLine payload
    | "jaccept" => JCodecDrv.acceptLine payload
    | "bmerge" => BoundM.mergeLine payload
    | "cmerge" => BoundM.countLine payload
    | "emerge" => BoundM.enumLine payload
    | "pmerge" => BoundM.propsLine payload
    | "nmerge" => BoundM.nmergeLine payload
    | "durfmt" => DurT.fmtLine payload
    | "durval" => DurT.valLine payload
    | "docsplit" => DocLines.splitLineLine payload
    | "lpad" => Listing.padLine payload
    | "lline" => LinesM.lineLine payload
    | "rsort" => RespOrder.sortLine payload
    | "uuidfmt" => UuidT.fmtLine payload
    | "uuidparse" => UuidT.parseLine payload
    | "authz" => AuthHDrv.authzLine payload
    | "sortkeys" => GenOrderDrv.sortkeysLine payload
    | "collect" => GenOrderDrv.collectLine payload
    | "writers" => GenOrderDrv.writersLine payload
    | "jeq" => JEqDrv.runLine payload
    | "enum" => JEqDrv.enumLine payload
    | _ => "bad-model"

/-- the router model is the one stateful model: `rset` installs the current tree for `rfind` -/
partial def loop (h : IO.FS.Stream) (out : IO.FS.Stream) (tree : IO.Ref Tree.Node) : IO Unit := do
  let line ← h.getLine
  if line.isEmpty then return ()
  if line.startsWith "rset " then
    let (t, s) := Tree.setLine (line.drop 5).toString.trimAscii.toString
    tree.set t
    out.putStrLn s
  else if line.startsWith "rfind " then
    out.putStrLn (Tree.findLine (← tree.get) (line.drop 6).toString.trimAscii.toString)
  else
    out.putStrLn (dispatch line)
  loop h out tree

def main : IO Unit := do
  let out ← IO.getStdout
  let tree ← IO.mkRef Tree.emptyRootD
  loop (← IO.getStdin) out tree
  out.flush
