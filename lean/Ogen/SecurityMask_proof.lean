/-! Proof probe for C09: byte-array bit masks of any length mean what the requirement says. -/
namespace Sec
abbrev Bitset := List UInt8

def bit (b : UInt8) (k : Nat) : Bool := b.toBitVec.getLsbD k
def setByte (b : UInt8) (k : Nat) : UInt8 := b ||| ((1 : UInt8) <<< k.toUInt8)

/-- bitset.Set(i, true) -/
def set : Bitset → Nat → Bitset
  | [], i => if i < 8 then [setByte 0 i] else 0 :: set [] (i - 8)
  | b :: bs, i => if i < 8 then setByte b i :: bs else b :: set bs (i - 8)

def test : Bitset → Nat → Bool
  | [], _ => false
  | b :: bs, i => if i < 8 then bit b i else test bs (i - 8)

theorem forall_byte {P : UInt8 → Prop} (h : ∀ n : Fin 256, P (UInt8.ofFin n)) : ∀ c : UInt8, P c := by
  intro c; simpa using h c.toFin

theorem bit_setByte : ∀ (b : UInt8) (k j : Fin 8), bit (setByte b k) j = (decide (j = k) || bit b j) := by
  apply forall_byte; decide +kernel
theorem bit_zero : ∀ j : Fin 8, bit 0 j = false := by decide

theorem test_set (bs : Bitset) (i j : Nat) : test (set bs i) j = (decide (j = i) || test bs j) := by
  induction bs generalizing i j with
  | nil =>
    induction i using Nat.strongRecOn generalizing j with
    | _ i ih =>
      unfold set
      by_cases hi : i < 8
      · simp only [hi, if_true]
        unfold test
        by_cases hj : j < 8
        · simp only [hj, if_true]
          have := bit_setByte 0 ⟨i, hi⟩ ⟨j, hj⟩
          simp only [Fin.mk.injEq] at this
          rw [this, bit_zero ⟨j, hj⟩]
        · have : j ≠ i := by omega
          simp [hj, this, test]
      · simp only [hi, if_false]
        unfold test
        by_cases hj : j < 8
        · have : j ≠ i := by omega
          simp [hj, this]
          exact bit_zero ⟨j, hj⟩
        · simp only [hj, if_false]
          rw [ih (i - 8) (by omega) (j - 8)]
          have : (j - 8 = i - 8) = (j = i) := by
            apply propext; constructor <;> intro h <;> omega
          simp [this, test]
  | cons b bs ih =>
    unfold set
    by_cases hi : i < 8
    · simp only [hi, if_true]
      unfold test
      by_cases hj : j < 8
      · simp only [hj, if_true]
        have := bit_setByte b ⟨i, hi⟩ ⟨j, hj⟩
        simp only [Fin.mk.injEq] at this
        exact this
      · have : j ≠ i := by omega
        simp [hj, this]
    · simp only [hi, if_false]
      unfold test
      by_cases hj : j < 8
      · have : j ≠ i := by omega
        simp [hj, this]
      · simp only [hj, if_false]
        rw [ih (i - 8) (j - 8)]
        have : (j - 8 = i - 8) = (j = i) := by
          apply propext; constructor <;> intro h <;> omega
        simp [this]

/-- a requirement's mask, as `generateSecurities` builds it: one Set per scheme index -/
def maskOf (idxs : List Nat) : Bitset := idxs.foldl set []

theorem test_foldl_set (idxs : List Nat) (bs : Bitset) (j : Nat) :
    test (idxs.foldl set bs) j = (decide (j ∈ idxs) || test bs j) := by
  induction idxs generalizing bs with
  | nil => simp
  | cons i is ih =>
    simp only [List.foldl_cons, ih, test_set, List.mem_cons]
    by_cases h1 : j = i <;> by_cases h2 : j ∈ is <;> simp [h1, h2]

theorem test_maskOf (idxs : List Nat) (j : Nat) : test (maskOf idxs) j = decide (j ∈ idxs) := by
  simp [maskOf, test_foldl_set, test]

/-- the generated loop: `for i, mask := range requirement { if satisfied[i] & mask != mask { continue next } }`;
    both arrays have the same fixed length in generated code, shorter lists read as zero bytes -/
def covers : Bitset → Bitset → Bool
  | _, [] => true
  | [], m :: ms => m == 0 && covers [] ms
  | s :: ss, m :: ms => (s &&& m == m) && covers ss ms

theorem and_eq_iff (s m : UInt8) : (s &&& m == m) = true ↔ ∀ k, k < 8 → bit m k = true → bit s k = true := by
  unfold bit
  constructor
  · intro h k _ hk
    have h' : s &&& m = m := by simpa using h
    have : (s &&& m).toBitVec.getLsbD k = m.toBitVec.getLsbD k := by rw [h']
    rw [UInt8.toBitVec_and, BitVec.getLsbD_and, hk] at this
    simpa using this
  · intro h
    have : s &&& m = m := by
      apply UInt8.toBitVec_inj.mp
      apply BitVec.eq_of_getLsbD_eq
      intro k hk
      rw [UInt8.toBitVec_and, BitVec.getLsbD_and]
      cases hm : m.toBitVec.getLsbD k with
      | false => simp
      | true => simp [h k hk hm]
    simpa using this

theorem zero_iff (m : UInt8) : (m == 0) = true ↔ ∀ k, k < 8 → bit m k = false := by
  unfold bit
  constructor
  · intro h k _
    have : m = 0 := by simpa using h
    subst this; simp
  · intro h
    have : m = 0 := by
      apply UInt8.toBitVec_inj.mp
      apply BitVec.eq_of_getLsbD_eq
      intro k hk
      simpa using h k hk
    simpa using this

theorem covers_iff (sat mask : Bitset) : covers sat mask = true ↔ ∀ j, test mask j = true → test sat j = true := by
  induction mask generalizing sat with
  | nil => simp [covers, test]
  | cons m ms ih =>
    cases sat with
    | nil =>
      simp only [covers, Bool.and_eq_true, zero_iff, ih]
      constructor
      · rintro ⟨h1, h2⟩ j hj
        unfold test at hj
        by_cases hlt : j < 8
        · simp [hlt, h1 j hlt] at hj
        · simp only [hlt, if_false] at hj
          have := h2 (j - 8) hj
          simp [test] at this
      · intro h
        constructor
        · intro k hk
          cases hb : bit m k with
          | false => rfl
          | true =>
            have := h k (by unfold test; simp [hk, hb])
            simp [test] at this
        · intro j hj
          have := h (j + 8) (by unfold test; simp [hj])
          simp [test] at this
    | cons s ss =>
      simp only [covers, Bool.and_eq_true, and_eq_iff, ih]
      constructor
      · rintro ⟨h1, h2⟩ j hj
        unfold test at hj ⊢
        by_cases hlt : j < 8
        · simp only [hlt, if_true] at hj ⊢
          exact h1 j hlt hj
        · simp only [hlt, if_false] at hj ⊢
          exact h2 (j - 8) hj
      · intro h
        constructor
        · intro k hk hb
          have := h k (by unfold test; simp [hk, hb])
          unfold test at this
          simpa [hk] using this
        · intro j hj
          have := h (j + 8) (by unfold test; simp [hj])
          unfold test at this
          have hnot : ¬ (j + 8 < 8) := by omega
          simpa [hnot] using this

/-- **C09 mask semantics, any number of schemes**: the byte-array test of one alternative holds exactly when
    every scheme of the alternative has its bit set in `satisfied`, however many bytes the indexes span. -/
theorem mask_semantics (sat : Bitset) (req : List Nat) :
    covers sat (maskOf req) = true ↔ ∀ i ∈ req, test sat i = true := by
  rw [covers_iff]
  constructor
  · intro h i hi
    exact h i (by simp [test_maskOf, hi])
  · intro h j hj
    have : j ∈ req := by simpa [test_maskOf] using hj
    exact h j this

/-- the handler is allowed exactly when some alternative is fully satisfied; the empty alternative always is -/
def authorized (sat : Bitset) (reqs : List (List Nat)) : Bool := reqs.any (fun r => covers sat (maskOf r))

theorem authorized_iff (sat : Bitset) (reqs : List (List Nat)) :
    authorized sat reqs = true ↔ ∃ r ∈ reqs, ∀ i ∈ r, test sat i = true := by
  simp [authorized, mask_semantics]

theorem anonymous_ok (sat : Bitset) (reqs : List (List Nat)) (h : [] ∈ reqs) : authorized sat reqs = true :=
  (authorized_iff sat reqs).mpr ⟨[], h, by simp⟩

#print axioms authorized_iff

/-! ### C03: the required-field check of generated struct decoders is the same arithmetic -/
/-- `bitset.Build(fields, required)`: bit i is set iff field i is required -/
def buildMask : List Bool → Nat → Bitset → Bitset
  | [], _, acc => acc
  | r :: rs, i, acc => buildMask rs (i + 1) (if r then set acc i else acc)

/-- generated: `for i, mask := range [...]uint8{…} { if result := (requiredBitSet[i] & mask) ^ mask; result != 0 { … } }` -/
def missingAny : Bitset → Bitset → Bool
  | _, [] => false
  | [], m :: ms => ((0 &&& m) ^^^ m != 0) || missingAny [] ms
  | s :: ss, m :: ms => ((s &&& m) ^^^ m != 0) || missingAny ss ms

theorem xor_ne_zero (s m : UInt8) : ((s &&& m) ^^^ m != 0) = !(s &&& m == m) := by
  have : ((s &&& m) ^^^ m = 0) ↔ (s &&& m = m) := by
    constructor
    · intro h
      have := congrArg UInt8.toBitVec h
      simp only [UInt8.toBitVec_xor, UInt8.toBitVec_and] at this
      apply UInt8.toBitVec_inj.mp
      simp only [UInt8.toBitVec_and]
      exact BitVec.xor_eq_zero_iff.mp this
    · intro h; rw [h]; simp
  apply Bool.eq_iff_iff.mpr
  simp only [bne_iff_ne, ne_eq, Bool.not_eq_true', beq_eq_false_iff_ne]
  exact not_congr this

theorem missingAny_eq (sat mask : Bitset) : missingAny sat mask = !covers sat mask := by
  induction mask generalizing sat with
  | nil => simp [missingAny, covers]
  | cons m ms ih =>
    cases sat with
    | nil =>
      simp only [missingAny, covers, ih, xor_ne_zero]
      have : ((0 : UInt8) &&& m == m) = (m == 0) := by
        have h0 : (0 : UInt8) &&& m = 0 := by simp
        rw [h0]
        apply Bool.eq_iff_iff.mpr
        simp only [beq_iff_eq]
        exact eq_comm
      rw [this]
      cases (m == 0) <;> cases covers [] ms <;> rfl
    | cons s ss =>
      simp only [missingAny, covers, ih, xor_ne_zero]
      cases (s &&& m == m) <;> cases covers ss ms <;> rfl

/-- **C03 required mask**: the decoder reports a missing required field exactly when some field whose index is in
    the required set was not seen — for any number of fields, across byte boundaries. -/
theorem required_check_iff (seen : Bitset) (requiredIdx : List Nat) :
    missingAny seen (maskOf requiredIdx) = false ↔ ∀ i ∈ requiredIdx, test seen i = true := by
  rw [missingAny_eq]
  simp only [Bool.not_eq_false']
  exact mask_semantics seen requiredIdx

#print axioms required_check_iff
end Sec
