/-! Proof probe for C13: decimal text of integers parses back to the same value, for every width.
    `fmt` models strconv.FormatInt/FormatUint(v, 10); `parse` models strconv.ParseInt/ParseUint(s, 10, bits):
    optional sign (signed only), one or more ASCII digits, no underscores (base is explicit), range check. -/
namespace IntRT
abbrev Bytes := List UInt8

def digitChar (d : Nat) : UInt8 := (48 + d).toUInt8

/-- digits of n, most significant first (FormatUint) -/
def digitsAux : Nat → Nat → Bytes → Bytes
  | 0, _, acc => acc
  | fuel + 1, n, acc => if n < 10 then digitChar n :: acc else digitsAux fuel (n / 10) (digitChar (n % 10) :: acc)
def fmtNat (n : Nat) : Bytes := digitsAux (n + 1) n []

def isDigit (c : UInt8) : Bool := 0x30 ≤ c && c ≤ 0x39
def digitsVal (ds : Bytes) : Nat := ds.foldl (fun a d => a * 10 + (d.toNat - 48)) 0

def fmtInt (v : Int) : Bytes := if v < 0 then 0x2d :: fmtNat v.natAbs else fmtNat v.natAbs

/-- ParseUint(s, 10, bits) -/
def parseNat (bits : Nat) (s : Bytes) : Option Nat :=
  if s.isEmpty || !s.all isDigit then none
  else if digitsVal s < 2 ^ bits then some (digitsVal s) else none

/-- ParseInt(s, 10, bits) -/
def splitSign : Bytes → Bool × Bytes
  | [] => (false, [])
  | c :: r => if c = 0x2d then (true, r) else if c = 0x2b then (false, r) else (false, c :: r)

def parseInt (bits : Nat) (s : Bytes) : Option Int :=
  let body := (splitSign s).2
  if body.isEmpty || !body.all isDigit then none
  else
    let m := digitsVal body
    if (splitSign s).1 then (if m ≤ 2 ^ (bits - 1) then some (-(m : Int)) else none)
    else (if m < 2 ^ (bits - 1) then some (m : Int) else none)

theorem digitsVal_append (a b : Bytes) : digitsVal (a ++ b) = b.foldl (fun x d => x * 10 + (d.toNat - 48)) (digitsVal a) := by
  simp [digitsVal, List.foldl_append]

theorem digitChar_val {d : Nat} (h : d < 10) : (digitChar d).toNat - 48 = d ∧ isDigit (digitChar d) = true := by
  have : ∀ d : Fin 10, (digitChar d.val).toNat - 48 = d.val ∧ isDigit (digitChar d.val) = true := by decide
  exact this ⟨d, h⟩

/-- the accumulator invariant of the digit loop -/
theorem digitsAux_spec (fuel : Nat) : ∀ (n : Nat) (acc : Bytes), n < fuel →
    (∀ c ∈ acc, isDigit c = true) →
    (∀ c ∈ digitsAux fuel n acc, isDigit c = true) ∧ digitsAux fuel n acc ≠ [] ∧
    ∃ pre, digitsAux fuel n acc = pre ++ acc ∧ digitsVal pre = n ∧ pre ≠ [] := by
  induction fuel with
  | zero => intro n acc h; omega
  | succ fuel ih =>
    intro n acc hn hacc
    unfold digitsAux
    by_cases h10 : n < 10
    · simp only [h10, if_true]
      obtain ⟨hv, hd⟩ := digitChar_val h10
      refine ⟨?_, by simp, [digitChar n], by simp, ?_, by simp⟩
      · intro c hc
        rcases List.mem_cons.mp hc with rfl | hm
        · exact hd
        · exact hacc c hm
      · simp [digitsVal, hv]
    · simp only [h10, if_false]
      have hmod : n % 10 < 10 := Nat.mod_lt _ (by omega)
      obtain ⟨hv, hd⟩ := digitChar_val hmod
      have hlt : n / 10 < fuel := by
        have : n / 10 < n := Nat.div_lt_self (by omega) (by omega)
        omega
      obtain ⟨h1, h2, pre, hp, hpv, hpne⟩ := ih (n / 10) (digitChar (n % 10) :: acc) hlt (by
        intro c hc
        rcases List.mem_cons.mp hc with rfl | hm
        · exact hd
        · exact hacc c hm)
      refine ⟨h1, h2, pre ++ [digitChar (n % 10)], by simp [hp], ?_, by simp⟩
      rw [digitsVal_append]
      simp only [List.foldl_cons, List.foldl_nil, hpv, hv]
      omega

theorem fmtNat_spec (n : Nat) : (fmtNat n).all isDigit = true ∧ fmtNat n ≠ [] ∧ digitsVal (fmtNat n) = n := by
  obtain ⟨h1, h2, pre, hp, hpv, _⟩ := digitsAux_spec (n + 1) n [] (by omega) (by simp)
  unfold fmtNat
  refine ⟨List.all_eq_true.mpr h1, h2, ?_⟩
  rw [hp]; simpa using hpv

/-- unsigned widths: uint8 … uint64, uint -/
theorem uint_rt (bits : Nat) (n : Nat) (h : n < 2 ^ bits) : parseNat bits (fmtNat n) = some n := by
  obtain ⟨h1, h2, h3⟩ := fmtNat_spec n
  unfold parseNat
  have : (fmtNat n).isEmpty = false := by
    cases hf : fmtNat n with
    | nil => exact absurd hf h2
    | cons _ _ => rfl
  simp [this, h1, h3, h]

theorem fmtNat_head (n : Nat) : (fmtNat n).head? ≠ some 0x2d ∧ (fmtNat n).head? ≠ some 0x2b := by
  obtain ⟨h1, h2, _⟩ := fmtNat_spec n
  cases hf : fmtNat n with
  | nil => exact absurd hf h2
  | cons c cs =>
    rw [hf] at h1
    have hc : isDigit c = true := by simp at h1; exact h1.1
    simp only [List.head?_cons, ne_eq, Option.some.injEq]
    constructor <;> intro heq <;> subst heq <;> simp [isDigit] at hc <;> exact absurd hc (by decide)

/-- signed widths: int8 … int64, int — every value of the width, including the minimum -/
theorem int_rt (bits : Nat) (hb : 0 < bits) (v : Int) (hlo : -(2 ^ (bits - 1) : Int) ≤ v) (hhi : v < (2 ^ (bits - 1) : Int)) :
    parseInt bits (fmtInt v) = some v := by
  obtain ⟨h1, h2, h3⟩ := fmtNat_spec v.natAbs
  have hemp : (fmtNat v.natAbs).isEmpty = false := by
    cases hf : fmtNat v.natAbs with
    | nil => exact absurd hf h2
    | cons _ _ => rfl
  unfold fmtInt
  by_cases hneg : v < 0
  · simp only [hneg, if_true]
    unfold parseInt
    simp only [splitSign, if_true, hemp, h1, h3, Bool.not_true, Bool.or_false, Bool.false_eq_true, if_false]
    have hm : v.natAbs ≤ 2 ^ (bits - 1) := by
      have : ((v.natAbs : Nat) : Int) = -v := by omega
      have h2' : ((2 ^ (bits - 1) : Nat) : Int) = (2 ^ (bits - 1) : Int) := by norm_cast
      omega
    simp [hm]
    omega
  · simp only [hneg, if_false]
    obtain ⟨hh1, hh2⟩ := fmtNat_head v.natAbs
    unfold parseInt
    cases hf : fmtNat v.natAbs with
    | nil => exact absurd hf h2
    | cons c cs =>
      rw [hf] at hh1 hh2 h1 h3 hemp
      have hc1 : c ≠ 0x2d := by simpa using hh1
      have hc2 : c ≠ 0x2b := by simpa using hh2
      have hm : v.natAbs < 2 ^ (bits - 1) := by
        have : ((v.natAbs : Nat) : Int) = v := by omega
        have h2' : ((2 ^ (bits - 1) : Nat) : Int) = (2 ^ (bits - 1) : Int) := by norm_cast
        omega
      simp only [splitSign, hc1, hc2, if_false, hemp, h1, h3, Bool.not_true, Bool.or_false, Bool.false_eq_true, hm, if_true]
      simp; omega

example : fmtInt (-128) = [0x2d, 0x31, 0x32, 0x38] ∧ parseInt 8 (fmtInt (-128)) = some (-128) := by decide
/-! ### booleans: strconv.FormatBool / ParseBool -/
def strB (s : String) : Bytes := s.toList.map (fun c => c.toNat.toUInt8)
def fmtBool (b : Bool) : Bytes := if b then [0x74, 0x72, 0x75, 0x65] else [0x66, 0x61, 0x6c, 0x73, 0x65]
def parseBool (s : Bytes) : Option Bool :=
  if s = [0x31] || s = [0x74] || s = [0x54] || s = [0x54, 0x52, 0x55, 0x45] || s = [0x74, 0x72, 0x75, 0x65] || s = [0x54, 0x72, 0x75, 0x65] then some true
  else if s = [0x30] || s = [0x66] || s = [0x46] || s = [0x46, 0x41, 0x4c, 0x53, 0x45] || s = [0x66, 0x61, 0x6c, 0x73, 0x65] || s = [0x46, 0x61, 0x6c, 0x73, 0x65] then some false
  else none
theorem bool_rt (b : Bool) : parseBool (fmtBool b) = some b := by cases b <;> decide

/-- the text of an integer is in the syntax `-?(0|[1-9][0-9]*)`: digits only after the optional sign -/
theorem fmtInt_syntax (v : Int) :
    (fmtInt v = 0x2d :: fmtNat v.natAbs ∧ v < 0 ∨ fmtInt v = fmtNat v.natAbs ∧ 0 ≤ v) ∧
      (fmtNat v.natAbs).all isDigit = true ∧ fmtNat v.natAbs ≠ [] := by
  refine ⟨?_, (fmtNat_spec _).1, (fmtNat_spec _).2.1⟩
  unfold fmtInt
  by_cases h : v < 0
  · simp [h]
  · simp [h]; omega

/-! line protocol -/
def hexValI (c : Char) : UInt8 :=
  if c.isDigit then (c.toNat - 48).toUInt8 else (c.toNat - 87).toUInt8
def parseHexI : List Char → Bytes
  | a :: b :: rest => (hexValI a * 16 + hexValI b) :: parseHexI rest
  | _ => []
def toHexI (bs : Bytes) : String :=
  let hd (n : UInt8) : Char := if n < 10 then Char.ofNat (48 + n.toNat) else Char.ofNat (87 + n.toNat)
  String.ofList (bs.flatMap fun b => [hd (b / 16), hd (b % 16)])
/-- `ifmt <decimal int>` / `ufmt <decimal nat>`: the model's text, hex -/
def ifmtLine (line : String) : String :=
  match line.trimAscii.toString.toInt? with | some v => toHexI (fmtInt v) | none => "bad"
def ufmtLine (line : String) : String :=
  match line.trimAscii.toString.toNat? with | some v => toHexI (fmtNat v) | none => "bad"
/-- `iparse <bits> <s|u> <hex text>` -/
def iparseLine (line : String) : String :=
  match line.splitOn " " with
  | [bits, sg, h] =>
    let b := bits.toNat!
    let s := parseHexI h.toList
    if sg == "s" then (match parseInt b s with | some v => toString v | none => "err")
    else (match parseNat b s with | some v => toString v | none => "err")
  | [bits, sg] =>   -- empty text
    let b := bits.toNat!
    if sg == "s" then (match parseInt b [] with | some v => toString v | none => "err")
    else (match parseNat b [] with | some v => toString v | none => "err")
  | _ => "bad"
def bparseLine (line : String) : String :=
  match parseBool (parseHexI line.trimAscii.toString.toList) with
  | some true => "true" | some false => "false" | none => "err"

#print axioms int_rt
#print axioms uint_rt
end IntRT
