import Ogen.RegexConvert_feasibility
/-! Proof probe for C08, syntax layer: on a printed *flat* token sequence (literals, `.`, the self-delimiting
    escapes) the converter emits the concatenation of the per-token conversions, for every sequence, every
    accumulator and any sufficient fuel. This is the base case of `conv_commutes`: groups and classes add the
    recursive calls, the length-dependent escapes (`\0..`, `\x`, `\u`, `\c`) add side conditions on what follows. -/
namespace Conv

inductive Tok where
  | lit (c : Char)
  | dot
  | esc (c : Char)

/-- escapes whose conversion does not look at what follows -/
def simpleEsc : List Char :=
  ['b', 'B', 'd', 'D', 'w', 'W', '\\', 'f', 'n', 'r', 't', 'v',          -- kept as they are
   '^', '$', '.', '*', '+', '?', '(', ')', '[', ']', '{', '}', '|', '/',  -- identity escapes of syntax characters
   's', 'S']                                                              -- rewritten to explicit classes

def Tok.ok : Tok → Prop
  | .lit c => c ≠ '\\' ∧ c ≠ '(' ∧ c ≠ ')' ∧ c ≠ '[' ∧ c ≠ '.'
  | .dot => True
  | .esc c => c ∈ simpleEsc

def Tok.print : Tok → List Char
  | .lit c => [c]
  | .dot => ['.']
  | .esc c => ['\\', c]

def convEsc (c : Char) : List Char :=
  if c = 's' then ['['] ++ whitespaceChars ++ [']']
  else if c = 'S' then ['[', '^'] ++ whitespaceChars ++ [']']
  else ['\\', c]

def Tok.conv : Tok → List Char
  | .lit c => [c]
  | .dot => re2Dot
  | .esc c => convEsc c

theorem scanEscape_simple (c : Char) (h : c ∈ simpleEsc) (rest : List Char) :
    scanEscape false (c :: rest) = .ok (convEsc c, rest) := by
  simp only [simpleEsc, List.mem_cons, List.not_mem_nil, or_false] at h
  rcases h with rfl | rfl | rfl | rfl | rfl | rfl | rfl | rfl | rfl | rfl | rfl | rfl | rfl | rfl | rfl | rfl | rfl |
    rfl | rfl | rfl | rfl | rfl | rfl | rfl | rfl | rfl | rfl | rfl <;>
  · unfold scanEscape
    simp +decide [convEsc]


theorem scanBody_lit (fuel : Nat) (c : Char) (rest acc : List Char)
    (h : c ≠ '\\' ∧ c ≠ '(' ∧ c ≠ ')' ∧ c ≠ '[' ∧ c ≠ '.') :
    scanBody (fuel + 1) false (c :: rest) acc = scanBody fuel false rest (acc ++ [c]) := by
  obtain ⟨h1, h2, h3, h4, h5⟩ := h
  rw [scanBody] <;> intro h
  · exact h3 h
  · exact h1 h
  · exact h2 h
  · exact h4 h
  · exact h5 h

/-- **flat commutation** -/
theorem scanBody_flat : ∀ (toks : List Tok), (∀ t ∈ toks, t.ok) → ∀ fuel acc, toks.length < fuel →
    scanBody fuel false (toks.flatMap Tok.print) acc = .ok (acc ++ toks.flatMap Tok.conv, []) := by
  intro toks
  induction toks with
  | nil =>
    intro _ fuel acc hf
    cases fuel with
    | zero => simp at hf
    | succ f => simp [scanBody]
  | cons t ts ih =>
    intro hok fuel acc hf
    have ht := hok t (List.mem_cons_self ..)
    have hts : ∀ t ∈ ts, t.ok := fun t h => hok t (List.mem_cons_of_mem _ h)
    cases fuel with
    | zero => simp at hf
    | succ f =>
      have hf' : ts.length < f := by simp at hf; omega
      cases t with
      | lit c =>
        simp only [List.flatMap_cons, Tok.print, Tok.conv, List.cons_append, List.nil_append]
        rw [scanBody_lit f c _ acc ht, ih hts f (acc ++ [c]) hf']
        simp [List.append_assoc]
      | dot =>
        simp only [List.flatMap_cons, Tok.print, Tok.conv, List.cons_append, List.nil_append]
        rw [scanBody]
        rw [ih hts f (acc ++ re2Dot) hf']
        simp [List.append_assoc]
      | esc c =>
        simp only [List.flatMap_cons, Tok.print, Tok.conv, List.cons_append, List.nil_append]
        rw [scanBody]
        simp only [scanEscape_simple c ht]
        rw [ih hts f (acc ++ convEsc c) hf']
        simp [List.append_assoc]

#print axioms scanBody_flat

theorem print_length (toks : List Tok) : toks.length ≤ (toks.flatMap Tok.print).length := by
  induction toks with
  | nil => simp
  | cons t ts ih =>
    cases t <;> simp only [List.flatMap_cons, Tok.print, List.length_append, List.length_cons, List.length_nil] <;> omega

/-- so `Convert` on a printed flat sequence is the concatenation of the token conversions -/
theorem convert_flat (toks : List Tok) (hok : ∀ t ∈ toks, t.ok) :
    convert (toks.flatMap Tok.print) = .ok (toks.flatMap Tok.conv) := by
  unfold convert
  by_cases he : (toks.flatMap Tok.print).isEmpty = true
  · cases toks with
    | nil => simp
    | cons t ts => cases t <;> simp [Tok.print] at he
  · have hlen : toks.length < 2 * (toks.flatMap Tok.print).length + 2 := by
      have := print_length toks
      omega
    simp only [he, Bool.false_eq_true, if_false]
    rw [scanBody_flat toks hok _ [] hlen]
    simp

#print axioms convert_flat

/-- non-vacuity: `a\.b.\d$` -/
example : convert ("a\\.b.\\d$".toList) = .ok ("a\\.b[^\r\n\u2028\u2029]\\d$".toList) := by
  have := convert_flat [.lit 'a', .esc '.', .lit 'b', .dot, .esc 'd', .lit '$']
    (by intro t ht; simp at ht; rcases ht with rfl | rfl | rfl | rfl | rfl | rfl <;> simp [Tok.ok, simpleEsc])
  simpa [Tok.print, Tok.conv, convEsc, re2Dot] using this
end Conv
