import Ogen.ParamNeverWrong_proof
/-! C06 `core_delivered`, path location: a value in the core domain (non-empty texts without the active delimiter)
    always makes the trip and arrives unchanged. -/
namespace Codec

theorem length_le_join (sep : UInt8) (items : List Bytes) (h : ∀ it ∈ items, it ≠ []) :
    items.length ≤ (join sep items).length := by
  induction items with
  | nil => simp [join]
  | cons x xs ih =>
    have hx : 0 < x.length := List.length_pos_iff.mpr (h x (List.mem_cons_self ..))
    cases xs with
    | nil => simp [join]; omega
    | cons y ys =>
      have := ih (fun it hit => h it (List.mem_cons_of_mem _ hit))
      simp only [join, List.length_append, List.length_cons] at this ⊢
      omega

theorem decodeObject_complete (kv fs : UInt8) (fields : List (Bytes × Bytes)) (hne : fields ≠ [])
    (hk : ∀ f ∈ fields, contains f.1 kv = false) (hv : ∀ f ∈ fields, contains f.2 fs = false)
    (hval : ∀ f ∈ fields, f.2 ≠ []) :
    ∀ fuel, fields.length ≤ fuel → decodeObject fuel kv fs (encodeObject kv fs fields) = some fields := by
  induction fields with
  | nil => exact absurd rfl hne
  | cons f rest ih =>
    obtain ⟨k, v⟩ := f
    intro fuel hfuel
    have hk0 := hk (k, v) (List.mem_cons_self ..)
    have hv0 := hv (k, v) (List.mem_cons_self ..)
    have hvne : v ≠ [] := hval (k, v) (List.mem_cons_self ..)
    cases fuel with
    | zero => simp at hfuel
    | succ fuel =>
      cases rest with
      | nil =>
        simp only [encodeObject, decodeObject]
        rw [readValue_free_append kv k v hk0]
        simp only
        rw [readValue_free fs v hv0]
        have : v.isEmpty = false := by simpa using hvne
        simp [this]
      | cons g gs =>
        have hrec := ih (by simp) (fun f hf => hk f (List.mem_cons_of_mem _ hf))
          (fun f hf => hv f (List.mem_cons_of_mem _ hf)) (fun f hf => hval f (List.mem_cons_of_mem _ hf)) fuel
          (by simp at hfuel ⊢; omega)
        simp only [encodeObject, decodeObject, List.append_assoc, List.cons_append]
        rw [readValue_free_append kv k _ hk0]
        simp only
        rw [readValue_free_append fs v _ hv0]
        simp only [if_true]
        rw [hrec]; rfl

theorem loop_join (c : Cfg) (hname : contains c.name 0x3d = false) (items : List Bytes) (hne : items ≠ [])
    (hfree : ∀ it ∈ items, contains it 0x3b = false) (hval : ∀ it ∈ items, it ≠ []) :
    ∀ fuel, items.length ≤ fuel → pathDec.loop c fuel (mtail c.name items) = some items := by
  induction items with
  | nil => exact absurd rfl hne
  | cons x xs ih =>
    intro fuel hfuel
    have hx := hfree x (List.mem_cons_self ..)
    have hxne : x.isEmpty = false := by simpa using hval x (List.mem_cons_self ..)
    cases fuel with
    | zero => simp at hfuel
    | succ fuel =>
      cases xs with
      | nil =>
        simp only [mtail, pathDec.loop]
        rw [readValue_free_append 0x3d c.name x hname]
        simp only [Option.bind_eq_bind, Option.bind_some, bne_self_eq_false, Bool.not_true, Bool.or_self,
          Bool.false_eq_true, if_false]
        rw [readValue_free 0x3b x hx]
        simp [hxne]
      | cons y ys =>
        have hrec := ih (by simp) (fun it hit => hfree it (List.mem_cons_of_mem _ hit))
          (fun it hit => hval it (List.mem_cons_of_mem _ hit)) fuel (by simp at hfuel ⊢; omega)
        simp only [mtail, pathDec.loop, List.append_assoc, List.cons_append]
        rw [readValue_free_append 0x3d c.name _ hname]
        simp only [Option.bind_eq_bind, Option.bind_some, bne_self_eq_false, Bool.not_true, Bool.or_self,
          Bool.false_eq_true, if_false]
        rw [readValue_free_append 0x3b x _ hx]
        simp only [Option.bind_some, if_true]
        rw [hrec]; rfl

#print axioms loop_join
#print axioms decodeObject_complete

theorem length_le_mtail (name : Bytes) (items : List Bytes) (h : ∀ it ∈ items, it ≠ []) :
    items.length ≤ (mtail name items).length := by
  induction items with
  | nil => simp [mtail]
  | cons x xs ih =>
    have hx : 0 < x.length := List.length_pos_iff.mpr (h x (List.mem_cons_self ..))
    cases xs with
    | nil => simp [mtail]; omega
    | cons y ys =>
      have := ih (fun it hit => h it (List.mem_cons_of_mem _ hit))
      simp only [mtail, List.length_append, List.length_cons] at this ⊢
      omega

theorem length_le_encodeObject (kv fs : UInt8) (fields : List (Bytes × Bytes)) :
    fields.length ≤ (encodeObject kv fs fields).length := by
  induction fields with
  | nil => simp [encodeObject]
  | cons f rest ih =>
    obtain ⟨k, v⟩ := f
    cases rest with
    | nil => simp [encodeObject]; omega
    | cons g gs =>
      simp only [encodeObject, List.length_append, List.length_cons] at ih ⊢
      omega

/-- the core domain for a path parameter -/
def CorePath (c : Cfg) : Val → Prop
  | .prim s => s ≠ []
  | .arr items => items ≠ [] ∧ ∀ it ∈ items, it ≠ [] ∧ contains it (arrSep c.style c.explode) = false
  | .obj fields => fields ≠ [] ∧ ∀ f ∈ fields, f.2 ≠ [] ∧
      contains f.1 (objSeps c.style c.explode).1 = false ∧ contains f.2 (objSeps c.style c.explode).2 = false

theorem pathEnc_ok (c : Cfg) (v : Val) (hname : c.style = .matrix → contains c.name 0x3d = false)
    (hcore : CorePath c v) : pathEnc c v = .ok (pathWire pathEscape c v) := by
  have hn : c.style = .matrix → contains (pathEscape c.name) 0x3d = false := by
    intro h; rw [contains_escape_eq]; exact hname h
  cases v with
  | prim s =>
    cases hst : c.style <;> simp [pathEnc, pathWire, hst]
    exact hn hst
  | arr items =>
    simp only [CorePath] at hcore
    cases hst : c.style <;> cases hex : c.explode <;> simp [arrSep, hst, hex] at hcore <;>
      simp [pathEnc, pathWire, hst, hex, ← mexp_eq]
    all_goals first
      | exact fun x hx => (hcore.2 x hx).2
      | (rw [if_neg (by rw [hn hst]; simp), if_neg (by rintro ⟨x, hx, h⟩; rw [(hcore.2 x hx).2] at h; cases h)])
  | obj fields =>
    simp only [CorePath] at hcore
    have hE : ¬ fields = [] := hcore.1
    have hany : ∀ kv fs : UInt8, (∀ a b, (a, b) ∈ fields → contains a kv = false ∧ contains b fs = false) →
        (fields.any fun x => contains x.1 kv || contains x.2 fs) = false := by
      intro kv fs h
      simp only [List.any_eq_false, Bool.not_eq_true, Bool.or_eq_false_iff]
      intro x hx; exact h x.1 x.2 hx
    obtain ⟨loc, style, explode, shape, name⟩ := c
    simp only at hcore hn hname
    cases style <;> cases explode <;> simp [objSeps] at hcore <;>
      simp [pathEnc, pathWire, objSeps, hE]
    all_goals (
      have h1 := hany _ _ (fun a b h => (hcore.2 a b h).2)
      first
        | (simp [h1]; done)
        | (simp [h1]; exact hn rfl))

#print axioms pathEnc_ok

theorem mexp_isEmpty (pre : Bytes) (items : List Bytes) (hp : pre ≠ []) : (mexp pre items).isEmpty = false := by
  cases pre with
  | nil => exact absurd rfl hp
  | cons p ps =>
    cases items with
    | nil => simp [mexp]
    | cons x xs =>
      cases xs with
      | nil => simp [mexp]
      | cons y ys => simp [mexp]

theorem wire_nonempty (c : Cfg) (v : Val) (hcore : CorePath c v) : (pathWire id c v).isEmpty = false := by
  cases v with
  | prim s =>
    simp only [CorePath] at hcore
    cases hst : c.style <;> simp [pathWire, hst, hcore]
  | arr items =>
    simp only [CorePath] at hcore
    have hj : ∀ sep, (join sep items).isEmpty = false := by
      intro sep
      have h1 := length_le_join sep items (fun it hit => (hcore.2 it hit).1)
      have h2 : 0 < items.length := List.length_pos_iff.mpr hcore.1
      cases hj : join sep items with
      | nil => rw [hj] at h1; simp only [List.length_nil] at h1; omega
      | cons _ _ => rfl
    cases hst : c.style <;> cases hex : c.explode <;> simp only [pathWire, hst, hex, List.map_id] <;>
      first
        | exact hj _
        | rfl
        | exact mexp_isEmpty _ _ (by simp)
  | obj fields =>
    simp only [CorePath] at hcore
    have ho : ∀ kv fs, (encodeObject kv fs fields).isEmpty = false := by
      intro kv fs
      have h1 := length_le_encodeObject kv fs fields
      have h2 : 0 < fields.length := List.length_pos_iff.mpr hcore.1
      cases hj : encodeObject kv fs fields with
      | nil => rw [hj] at h1; simp only [List.length_nil] at h1; omega
      | cons _ _ => rfl
    have hid : fields.map (fun (x : Bytes × Bytes) => (id x.1, id x.2)) = fields := by simp
    cases hst : c.style <;> cases hex : c.explode <;> simp only [pathWire, hst, hex, hid] <;>
      first
        | exact ho _ _
        | rfl

theorem readAll_ne {s : Bytes} (h : s ≠ []) : readAll s = some s := by
  have : s.isEmpty = false := by simpa using h
  simp [readAll, this]

/-- **core values are always delivered (path location)** -/
theorem path_core_delivered (c : Cfg) (v : Val) (hloc : c.loc = .path)
    (hshape : match v with | .prim _ => c.shape = .prim | .arr _ => c.shape = .arr | .obj _ => c.shape = .obj)
    (hname : c.style = .matrix → contains c.name 0x3d = false) (hcore : CorePath c v) :
    roundTrip c v = .ok v := by
  unfold roundTrip
  simp only [hloc]
  rw [pathEnc_ok c v hname hcore]
  simp only
  unfold pathDec
  rw [ue_wire]
  simp only [wire_nonempty c v hcore, Bool.false_eq_true, if_false]
  cases v with
  | prim s =>
    simp only at hshape
    simp only [CorePath] at hcore
    simp only [hshape]
    cases hst : c.style
    case label => simp [pathWire, hst, eat_cons, readAll_ne hcore]
    case matrix =>
      simp [pathWire, hst, eat_cons, readUntil_free_append 0x3d c.name s (hname hst), readAll_ne hcore]
    all_goals simp [pathWire, hst, readAll_ne hcore]
  | arr items =>
    simp only at hshape
    simp only [CorePath] at hcore
    simp only [hshape]
    have hne := hcore.1
    have hval : ∀ it ∈ items, it ≠ [] := fun it hit => (hcore.2 it hit).1
    have hlast : items.getLast? ≠ some [] := by
      intro h
      have := List.mem_of_getLast? h
      exact hval [] this rfl
    have hlen : ∀ sep, items.length ≤ (join sep items).length := fun sep => length_le_join sep items hval
    cases hst : c.style
    case label =>
      have hf : ∀ it ∈ items, contains it (if c.explode = true then 0x2e else 0x2c) = false := by
        intro it hit; have := (hcore.2 it hit).2; simpa [arrSep, hst] using this
      simp only [pathWire, hst, List.map_id, eat_cons, Option.bind_some]
      rw [parseArray_join _ items hne hf hlast _ (by have := hlen (if c.explode = true then 0x2e else 0x2c); simp; omega)]
      rfl
    case matrix =>
      have hn := hname hst
      cases hex : c.explode
      · have hf : ∀ it ∈ items, contains it 0x2c = false := by
          intro it hit; have := (hcore.2 it hit).2; simpa [arrSep, hst, hex] using this
        simp only [hst, hex, pathWire, List.map_id, id, Bool.not_false, if_true, List.cons_append, eat_cons,
          Option.bind_eq_bind, Option.bind_some, readValue_free_append 0x3d c.name _ hn, bne_self_eq_false,
          Bool.not_true, Bool.or_self, Bool.false_eq_true, if_false]
        rw [parseArray_join _ items hne hf hlast _ (by have := hlen 0x2c; simp; omega)]
        rfl
      · have hf : ∀ it ∈ items, contains it 0x3b = false := by
          intro it hit; have := (hcore.2 it hit).2; simpa [arrSep, hst, hex] using this
        simp only [hst, hex, pathWire, List.map_id, id, Bool.not_true, Bool.false_eq_true, if_false, mexp_mtail,
          eat_cons, Option.bind_eq_bind, Option.bind_some]
        rw [loop_join c hn items hne hf hval _ (by have := length_le_mtail c.name items hval; simp; omega)]
        rfl
    all_goals (
      have hf : ∀ it ∈ items, contains it 0x2c = false := by
        intro it hit; have := (hcore.2 it hit).2; simpa [arrSep, hst] using this
      simp only [pathWire, hst, List.map_id]
      rw [parseArray_join _ items hne hf hlast _ (by have := hlen 0x2c; omega)]
      rfl)
  | obj fields =>
    simp only at hshape
    simp only [CorePath] at hcore
    simp only [hshape]
    have hne := hcore.1
    have hval : ∀ f ∈ fields, f.2 ≠ [] := fun f hf => (hcore.2 f hf).1
    have hlen : ∀ kv fs, fields.length ≤ (encodeObject kv fs fields).length := fun kv fs => length_le_encodeObject kv fs fields
    have hid : fields.map (fun (x : Bytes × Bytes) => (id x.1, id x.2)) = fields := by simp
    have hk0 : ∀ f ∈ fields, contains f.1 (objSeps c.style c.explode).1 = false := fun f hf => (hcore.2 f hf).2.1
    have hv0 : ∀ f ∈ fields, contains f.2 (objSeps c.style c.explode).2 = false := fun f hf => (hcore.2 f hf).2.2
    cases hst : c.style
    case label =>
      simp only [hst] at hk0 hv0
      simp only [pathWire, hst, hid, eat_cons, Option.bind_some]
      rw [decodeObject_complete _ _ fields hne hk0 hv0 hval _ (by have := hlen (objSeps Style.label c.explode).1 (objSeps Style.label c.explode).2; simp; omega)]
      rfl
    case matrix =>
      have hn := hname hst
      simp only [hst] at hk0 hv0
      cases hex : c.explode
      · simp only [hex, objSeps, Bool.not_false, Bool.not_true, Bool.false_eq_true, if_true, if_false] at hk0 hv0
        simp only [hst, hex, pathWire, hid]
        simp only [id_eq, Bool.not_false, if_true, List.cons_append, eat_cons,
          Option.bind_eq_bind, Option.bind_some, readUntil_free_append 0x3d c.name _ hn, bne_self_eq_false,
          Bool.false_eq_true, if_false]
        rw [decodeObject_complete _ _ fields hne hk0 hv0 hval _ (by have := hlen 0x2c 0x2c; simp; omega)]
        rfl
      · simp only [hex, objSeps, Bool.not_false, Bool.not_true, Bool.false_eq_true, if_true, if_false] at hk0 hv0
        simp only [hst, hex, pathWire, hid]
        simp only [id_eq, Bool.not_true, Bool.false_eq_true, if_false, eat_cons,
          Option.bind_eq_bind, Option.bind_some]
        rw [decodeObject_complete _ _ fields hne hk0 hv0 hval _ (by have := hlen 0x3d 0x3b; simp; omega)]
        rfl
    all_goals (
      simp only [hst] at hk0 hv0
      simp only [pathWire, hst, hid]
      rw [decodeObject_complete _ _ fields hne hk0 hv0 hval _ (by have := hlen (objSeps c.style c.explode).1 (objSeps c.style c.explode).2; simp only [hst] at this; omega)]
      rfl)

#print axioms path_core_delivered

end Codec
