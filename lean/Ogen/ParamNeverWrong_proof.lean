import Ogen.PathNeverWrong_proof
import Ogen.QueryNeverWrong_proof
/-! C06 `never_wrong`, all four locations assembled: a parameter value that survives the round trip client encoder →
    transport → server decoder is the value that was sent, except in the four known classes W1–W4 (all of them
    arrays that are empty or hold one empty string). -/
namespace Codec

def inKnownClass (c : Cfg) (v : Val) : Prop :=
  (c.loc = .query ∧ c.style = .form ∧ c.explode = false ∧ v = .arr [[]]) ∨   -- W1
  (c.loc = .query ∧ c.style = .pipe ∧ c.explode = false ∧ v = .arr []) ∨     -- W2
  (c.loc = .header ∧ v = .arr []) ∨                                          -- W3
  (c.loc = .cookie ∧ v = .arr [])                                            -- W4

/-- the value has the configured shape; object field names are distinct (property names of one schema) -/
def Fits (c : Cfg) : Val → Prop
  | .prim _ => c.shape = .prim
  | .arr _ => c.shape = .arr
  | .obj fs => c.shape = .obj ∧ (fs.map (·.1)).Nodup

theorem fits_shape (c : Cfg) (v : Val) : Fits c v →
    match v with | .prim _ => c.shape = .prim | .arr _ => c.shape = .arr | .obj _ => c.shape = .obj := by
  cases v with
  | prim _ => exact fun h => h
  | arr _ => exact fun h => h
  | obj _ => exact fun h => h.1

theorem c06_never_wrong_partial (c : Cfg) (v v' : Val) (hfit : Fits c v) (h : roundTrip c v = .ok v') :
    v' = v ∨ inKnownClass c v := by
  have hshape := fits_shape c v hfit
  cases hloc : c.loc with
  | path => exact Or.inl (path_never_wrong c v v' hloc hshape h)
  | query =>
    cases v with
    | obj fs =>
      simp only [Fits] at hfit
      exact Or.inl (query_never_wrong_obj c fs v' hloc hfit.1 hfit.2 h)
    | prim s =>
      rcases query_never_wrong_prim_arr c (.prim s) v' hloc (by simpa [Fits] using hfit) h with h1 | ⟨h1, _, _⟩ | ⟨h1, _, _⟩
      · exact Or.inl h1
      · cases h1
      · cases h1
    | arr items =>
      rcases query_never_wrong_prim_arr c (.arr items) v' hloc (by simpa [Fits] using hfit) h with h1 | ⟨h1, h2, h3⟩ | ⟨h1, h2, h3⟩
      · exact Or.inl h1
      · exact Or.inr (Or.inl ⟨hloc, h2, h3, h1⟩)
      · exact Or.inr (Or.inr (Or.inl ⟨hloc, h2, h3, h1⟩))
  | header =>
    rcases header_never_wrong c v v' hloc hshape h with h1 | h1
    · exact Or.inl h1
    · exact Or.inr (Or.inr (Or.inr (Or.inl ⟨hloc, h1⟩)))
  | cookie =>
    rcases cookie_never_wrong c v v' hloc hshape h with h1 | h1
    · exact Or.inl h1
    · exact Or.inr (Or.inr (Or.inr (Or.inr ⟨hloc, h1⟩)))

#print axioms c06_never_wrong_partial

/-- the carve-outs are real (the full statement is false): W1 on the model, by evaluation -/
example : roundTrip ⟨.query, .form, false, .arr, [0x71]⟩ (.arr [[]]) = .ok (.arr []) := by rfl
example : roundTrip ⟨.query, .pipe, false, .arr, [0x71]⟩ (.arr []) = .ok (.arr [[]]) := by rfl
/-- non-vacuity: a value outside the classes that does make the trip -/
example : roundTrip ⟨.path, .matrix, true, .arr, [0x71]⟩ (.arr [[0x61, 0x2f], [0x25]]) = .ok (.arr [[0x61, 0x2f], [0x25]]) := by rfl
end Codec
