/-! Feasibility probe for C18: model of json.Equal (after D2/D12) on ASTs whose numbers keep their spelling. -/
namespace JEq

inductive J where
  | null
  | bool (b : Bool)
  | str (s : String)
  | num (raw : String)
  | arr (items : List J)
  | obj (members : List (String × J))
deriving Repr, Inhabited

def isZero (raw : String) : Bool :=
  let cs := raw.toList
  if cs.length = 1 then cs == ['0'] else cs.all (fun c => c == '.' || c == '0' || c == '-')

def isInt (raw : String) : Bool :=
  let cs := raw.toList
  let cs := match cs with | '-' :: r => r | r => r
  !raw.isEmpty && cs.all Char.isDigit

/-- (negative, mantissa digits as Nat, decimal exponent) with value = ±m · 10^e -/
def parseNum (raw : String) : Bool × Nat × Int :=
  let cs := raw.toList
  let (neg, cs) := match cs with | '-' :: r => (true, r) | r => (false, r)
  let mant := cs.takeWhile (fun c => c != 'e' && c != 'E')
  let expPart := (cs.dropWhile (fun c => c != 'e' && c != 'E')).drop 1
  let intPart := mant.takeWhile (· != '.')
  let frac := (mant.dropWhile (· != '.')).drop 1
  let digits := intPart ++ frac
  let m := digits.foldl (fun v d => v * 10 + (d.toNat - 48)) 0
  let (eneg, ed) := match expPart with | '-' :: r => (true, r) | '+' :: r => (false, r) | r => (false, r)
  let e : Nat := ed.foldl (fun v d => v * 10 + (d.toNat - 48)) 0
  let exp : Int := (if eneg then -(e : Int) else (e : Int)) - (frac.length : Int)
  (neg, m, exp)

def numEq (l r : String) : Bool :=
  if isZero l && isZero r then true
  else if l == r then true
  else if isInt l && isInt r then false
  else
    let (n1, m1, e1) := parseNum l
    let (n2, m2, e2) := parseNum r
    let lo := min e1 e2
    let v1 := m1 * 10 ^ (e1 - lo).toNat
    let v2 := m2 * 10 ^ (e2 - lo).toNat
    if v1 = 0 && v2 = 0 then true else n1 == n2 && v1 == v2

def lastWins (ms : List (String × J)) : List (String × J) :=
  ms.foldl (fun acc (k, v) => (acc.filter (·.1 != k)) ++ [(k, v)]) []

mutual
def equal : J → J → Bool
  | .null, .null => true
  | .bool a, .bool b => a == b
  | .str a, .str b => a == b
  | .num a, .num b => numEq a b
  | .arr a, .arr b => equalList a b
  | .obj a, .obj b => equalObj (lastWins a) b (lastWins a).length 0
  | _, _ => false
def equalList : List J → List J → Bool
  | [], [] => true
  | x :: xs, y :: ys => equal x y && equalList xs ys
  | _, _ => false
/-- right-hand members are iterated; each key must be in the left map and equal; the number of right
    members must equal the size of the left map -/
def equalObj (lmap : List (String × J)) : List (String × J) → Nat → Nat → Bool
  | [], n, i => n == i
  | (k, v) :: rest, n, i =>
    match lookupJ lmap k with
    | none => false
    | some lv => equal lv v && equalObj lmap rest n (i + 1)
def lookupJ : List (String × J) → String → Option J
  | [], _ => none
  | (k, v) :: rest, key => if k == key then some v else lookupJ rest key
end

/-! prefix token reader: n | t | f | s<hex> | #<hex> | [k | {k -/
def hexVal (c : Char) : Nat := if c.isDigit then c.toNat - 48 else c.toNat - 87
def unhexStr (s : String) : String :=
  let rec go : List Char → List UInt8
    | a :: b :: rest => (hexVal a * 16 + hexVal b).toUInt8 :: go rest
    | _ => []
  match String.fromUTF8? (ByteArray.mk (go s.toList).toArray) with
  | some r => r
  | none => "<bad utf8>"

partial def readJ (toks : List String) : J × List String :=
  match toks with
  | [] => (.null, [])
  | t :: rest =>
    if t == "n" then (.null, rest)
    else if t == "t" then (.bool true, rest)
    else if t == "f" then (.bool false, rest)
    else if t.startsWith "s" then (.str (unhexStr (t.drop 1).toString), rest)
    else if t.startsWith "#" then (.num (unhexStr (t.drop 1).toString), rest)
    else if t.startsWith "[" then
      let k := (t.drop 1).toString.toNat!
      let rec items (k : Nat) (toks : List String) (acc : List J) : List J × List String :=
        match k with
        | 0 => (acc.reverse, toks)
        | k + 1 => let (j, r) := readJ toks; items k r (j :: acc)
      let (xs, r) := items k rest []
      (.arr xs, r)
    else
      let k := (t.drop 1).toString.toNat!
      let rec members (k : Nat) (toks : List String) (acc : List (String × J)) : List (String × J) × List String :=
        match k with
        | 0 => (acc.reverse, toks)
        | k + 1 =>
          match toks with
          | key :: r =>
            let (j, r') := readJ r
            members k r' ((unhexStr (key.drop 1).toString, j) :: acc)
          | [] => (acc.reverse, [])
      let (ms, r) := members k rest []
      (.obj ms, r)

def runLine (line : String) : String :=
  let toks := (line.splitOn " ").filter (· ≠ "")
  let (a, rest) := readJ toks
  let (b, _) := readJ rest
  if equal a b then "true" else "false"
end JEq
