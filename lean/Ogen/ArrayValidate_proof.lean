/-! Proof probe for C03: `validate.Array.ValidateLength` and `validate.UniqueItems` (validate/array.go) decide the
    JSON Schema keywords `minItems`, `maxItems`, `uniqueItems` — for every array, of any length. -/
namespace ArrVal

structure Arr where
  minLength : Int
  minLengthSet : Bool
  maxLength : Int
  maxLengthSet : Bool

/-- `ValidateLength(v)`: `true` = no error -/
def validateLength (t : Arr) (v : Int) : Bool :=
  if t.maxLengthSet && v > t.maxLength then false
  else if t.minLengthSet && v < t.minLength then false
  else true

theorem validateLength_iff (t : Arr) (v : Int) :
    validateLength t v = true ↔ (t.maxLengthSet = true → v ≤ t.maxLength) ∧ (t.minLengthSet = true → t.minLength ≤ v) := by
  unfold validateLength
  cases t.maxLengthSet <;> cases t.minLengthSet <;> simp <;> omega

/-- the inner loop: is `a` equal to some later element -/
def dupIn {α} [DecidableEq α] (a : α) : List α → Bool
  | [] => false
  | b :: bs => if a = b then true else dupIn a bs

/-- `UniqueItems`: the quadratic scan; `true` = no error. (The `len < 2` shortcut is the same function.) -/
def uniqueItems {α} [DecidableEq α] : List α → Bool
  | [] => true
  | a :: rest => if dupIn a rest then false else uniqueItems rest

theorem dupIn_iff {α} [DecidableEq α] (a : α) (l : List α) : dupIn a l = true ↔ a ∈ l := by
  induction l with
  | nil => simp [dupIn]
  | cons b bs ih =>
    unfold dupIn
    by_cases h : a = b
    · simp [h]
    · simp [h, ih]

/-- **`uniqueItems` accepts exactly the duplicate-free arrays** -/
theorem uniqueItems_iff {α} [DecidableEq α] (l : List α) : uniqueItems l = true ↔ l.Nodup := by
  induction l with
  | nil => simp [uniqueItems]
  | cons a rest ih =>
    unfold uniqueItems
    rw [List.nodup_cons]
    by_cases h : dupIn a rest = true
    · have := (dupIn_iff a rest).mp h
      simp [h, this]
    · have hn : a ∉ rest := fun hm => h ((dupIn_iff a rest).mpr hm)
      simp [h, hn, ih]

theorem short_ok {α} [DecidableEq α] (l : List α) (h : l.length < 2) : uniqueItems l = true := by
  match l, h with
  | [], _ => rfl
  | [a], _ => simp [uniqueItems, dupIn]

#print axioms uniqueItems_iff
#print axioms validateLength_iff
end ArrVal
