import Ogen.JsonEqualGeneric_model
/-! C18, structural half, generic in the numbers: on texts whose objects have unique member names and whose
    numbers satisfy `P`, the model of `json.Equal` decides `Same R` (arrays pointwise, objects as unordered maps,
    numbers through `R`) whenever the number comparison decides `R` on `P`. -/
namespace JEqG
variable {N : Type}

def keys (ms : List (String × J N)) : List String := ms.map (·.1)

mutual
def WF (P : N → Prop) : J N → Prop
  | .num n => P n
  | .arr xs => WFL P xs
  | .obj ms => (keys ms).Nodup ∧ WFM P ms
  | _ => True
def WFL (P : N → Prop) : List (J N) → Prop
  | [] => True
  | x :: xs => WF P x ∧ WFL P xs
def WFM (P : N → Prop) : List (String × J N) → Prop
  | [] => True
  | (_, v) :: r => WF P v ∧ WFM P r
end

mutual
def Same (R : N → N → Prop) : J N → J N → Prop
  | .null, .null => True
  | .bool a, .bool b => a = b
  | .str a, .str b => a = b
  | .num a, .num b => R a b
  | .arr a, .arr b => SameL R a b
  | .obj a, .obj b => SubR R a b ∧ a.length = b.length
  | _, _ => False
def SameL (R : N → N → Prop) : List (J N) → List (J N) → Prop
  | [], [] => True
  | x :: xs, y :: ys => Same R x y ∧ SameL R xs ys
  | _, _ => False
/-- every member of the right object has a same-valued member of that name on the left -/
def SubR (R : N → N → Prop) (a : List (String × J N)) : List (String × J N) → Prop
  | [] => True
  | (k, v) :: r => (∃ lv, (k, lv) ∈ a ∧ Same R lv v) ∧ SubR R a r
end

theorem lookupJ_mem {ms : List (String × J N)} {k : String} {v : J N} (h : lookupJ ms k = some v) : (k, v) ∈ ms := by
  induction ms with
  | nil => simp [lookupJ] at h
  | cons m rest ih =>
    obtain ⟨k', v'⟩ := m
    simp only [lookupJ] at h
    split at h
    · rename_i hk
      have : k' = k := by simpa using hk
      cases h; subst this; exact List.mem_cons_self ..
    · exact List.mem_cons_of_mem _ (ih h)

theorem mem_lookupJ {ms : List (String × J N)} {k : String} {v : J N} (hn : (keys ms).Nodup) (h : (k, v) ∈ ms) :
    lookupJ ms k = some v := by
  induction ms with
  | nil => cases h
  | cons m rest ih =>
    obtain ⟨k', v'⟩ := m
    simp only [keys, List.map_cons, List.nodup_cons] at hn
    simp only [lookupJ]
    rcases List.mem_cons.mp h with heq | hmem
    · cases heq; simp
    · have hne : k' ≠ k := by
        intro hk; subst hk
        exact hn.1 (List.mem_map.mpr ⟨(k', v), hmem, rfl⟩)
      simp only [beq_iff_eq, hne, if_false]
      exact ih hn.2 hmem

theorem lastWins_go (acc ms : List (String × J N)) (h : (keys (acc ++ ms)).Nodup) :
    ms.foldl (fun acc (kv : String × J N) => (acc.filter (·.1 != kv.1)) ++ [(kv.1, kv.2)]) acc = acc ++ ms := by
  induction ms generalizing acc with
  | nil => simp
  | cons m rest ih =>
    obtain ⟨k, v⟩ := m
    simp only [List.foldl_cons]
    have hfil : acc.filter (·.1 != k) = acc := by
      apply List.filter_eq_self.mpr
      intro x hx
      simp only [bne_iff_ne, ne_eq]
      intro hxk
      simp only [keys, List.map_append, List.map_cons] at h
      have := (List.nodup_append.mp h).2.2 x.1 (List.mem_map.mpr ⟨x, hx, rfl⟩) k (List.mem_cons_self ..)
      exact this hxk
    rw [hfil]
    have := ih (acc ++ [(k, v)]) (by simpa [List.append_assoc] using h)
    simpa [List.append_assoc] using this

theorem lastWins_nodup {ms : List (String × J N)} (h : (keys ms).Nodup) : lastWins ms = ms := by
  have := lastWins_go [] ms (by simpa using h)
  simpa [lastWins] using this

theorem wfm_mem {P : N → Prop} {ms : List (String × J N)} (h : WFM P ms) {k v} (hm : (k, v) ∈ ms) : WF P v := by
  induction ms with
  | nil => cases hm
  | cons m rest ih =>
    obtain ⟨k', v'⟩ := m
    simp only [WFM] at h
    rcases List.mem_cons.mp hm with heq | hmem
    · cases heq; exact h.1
    · exact ih h.2 hmem

section
variable {P : N → Prop} {R : N → N → Prop} {ne : N → N → Bool}
variable (hleaf : ∀ x y, P x → P y → (ne x y = true ↔ R x y))
include hleaf

mutual
theorem equal_iff : ∀ (a b : J N), WF P a → WF P b → (equal ne a b = true ↔ Same R a b)
  | .null, .null, _, _ => by simp [equal, Same]
  | .null, .bool _, _, _ | .null, .str _, _, _ | .null, .num _, _, _ | .null, .arr _, _, _ | .null, .obj _, _, _ => by simp [equal, Same]
  | .bool _, .null, _, _ | .bool _, .str _, _, _ | .bool _, .num _, _, _ | .bool _, .arr _, _, _ | .bool _, .obj _, _, _ => by simp [equal, Same]
  | .bool a, .bool b, _, _ => by simp [equal, Same]
  | .str _, .null, _, _ | .str _, .bool _, _, _ | .str _, .num _, _, _ | .str _, .arr _, _, _ | .str _, .obj _, _, _ => by simp [equal, Same]
  | .str a, .str b, _, _ => by simp [equal, Same]
  | .num _, .null, _, _ | .num _, .bool _, _, _ | .num _, .str _, _, _ | .num _, .arr _, _, _ | .num _, .obj _, _, _ => by simp [equal, Same]
  | .num a, .num b, ha, hb => by
    simp only [equal, Same]
    exact hleaf a b (by simpa [WF] using ha) (by simpa [WF] using hb)
  | .arr _, .null, _, _ | .arr _, .bool _, _, _ | .arr _, .str _, _, _ | .arr _, .num _, _, _ | .arr _, .obj _, _, _ => by simp [equal, Same]
  | .arr a, .arr b, ha, hb => by
    simp only [equal, Same]
    exact equalList_iff a b (by simpa [WF] using ha) (by simpa [WF] using hb)
  | .obj _, .null, _, _ | .obj _, .bool _, _, _ | .obj _, .str _, _, _ | .obj _, .num _, _, _ | .obj _, .arr _, _, _ => by simp [equal, Same]
  | .obj a, .obj b, ha, hb => by
    simp only [WF] at ha hb
    simp only [equal, Same, lastWins_nodup ha.1]
    rw [equalObj_iff a b a.length 0 ha.1 ha.2 hb.2]
    simp
theorem equalList_iff : ∀ (a b : List (J N)), WFL P a → WFL P b → (equalList ne a b = true ↔ SameL R a b)
  | [], [], _, _ => by simp [equalList, SameL]
  | [], _ :: _, _, _ => by simp [equalList, SameL]
  | _ :: _, [], _, _ => by simp [equalList, SameL]
  | x :: xs, y :: ys, ha, hb => by
    simp only [WFL] at ha hb
    simp only [equalList, SameL, Bool.and_eq_true]
    rw [equal_iff x y ha.1 hb.1, equalList_iff xs ys ha.2 hb.2]
theorem equalObj_iff : ∀ (lmap b : List (String × J N)) (n i : Nat), (keys lmap).Nodup → WFM P lmap → WFM P b →
    (equalObj ne lmap b n i = true ↔ SubR R lmap b ∧ n = i + b.length)
  | lmap, [], n, i, _, _, _ => by simp [equalObj, SubR]
  | lmap, (k, v) :: rest, n, i, hn, hw, hb => by
    simp only [WFM] at hb
    simp only [equalObj, SubR]
    cases hl : lookupJ lmap k with
    | none =>
      simp only [Bool.false_eq_true, false_iff]
      intro ⟨⟨⟨lv, hm, _⟩, _⟩, _⟩
      rw [mem_lookupJ hn hm] at hl; cases hl
    | some lv =>
      simp only [Bool.and_eq_true]
      have hm := lookupJ_mem hl
      rw [equal_iff lv v (wfm_mem hw hm) hb.1, equalObj_iff lmap rest n (i + 1) hn hw hb.2]
      constructor
      · intro ⟨h1, h2, h3⟩
        exact ⟨⟨⟨lv, hm, h1⟩, h2⟩, by simp; omega⟩
      · intro ⟨⟨⟨lv', hm', h1⟩, h2⟩, h3⟩
        have : lv' = lv := by
          have := mem_lookupJ hn hm'
          rw [hl] at this; cases this; rfl
        subst this
        exact ⟨h1, h2, by simp at h3; omega⟩
end
end

#print axioms equal_iff
end JEqG
