/-
`location.Lines` (location/lines.go): the table of newline offsets of a document and the byte range of a line.

  Collect: for { idx := bytes.IndexByte(remain, '\n'); if idx < 0 { break }
                 lines = append(lines, offset+idx); offset += idx + 1; remain = remain[idx+1:] }
  Line(n): n--; end = len(data)
           n < 0            → (-1, -1)
           n >= len(lines)  → (last newline offset or 0, len(data))
           otherwise        → (lines[n-1] or 0, lines[n])

`PrintHighlights` slices `l.data[start:end]` and trims `\r`, `\n` from both ends.
-/
namespace LinesM

def NL : Nat := 10

/-- `bytes.IndexByte(l, '\n')` -/
def indexNL : List Nat → Option Nat
  | [] => none
  | c :: rest => if c = NL then some 0 else (indexNL rest).map (· + 1)

theorem indexNL_lt {l : List Nat} {i : Nat} (h : indexNL l = some i) : i < l.length := by
  induction l generalizing i with
  | nil => simp [indexNL] at h
  | cons c rest ih =>
    simp only [indexNL] at h
    split at h
    · cases h; simp
    · cases hr : indexNL rest with
      | none => simp [hr] at h
      | some j => simp [hr] at h; subst h; have := ih hr; simp; omega

/-- the loop of `Collect`, with the length of `remain` as measure -/
def collectLoop (remain : List Nat) (offset : Nat) : List Nat :=
  match h : indexNL remain with
  | none => []
  | some idx => (offset + idx) :: collectLoop (remain.drop (idx + 1)) (offset + idx + 1)
termination_by remain.length
decreasing_by have := indexNL_lt h; simp; omega

/-- the offsets of the newlines of `data` (first byte at `off`), as a structural recursion -/
def newlines : List Nat → Nat → List Nat
  | [], _ => []
  | c :: rest, off => if c = NL then off :: newlines rest (off + 1) else newlines rest (off + 1)

theorem collectLoop_none {r : List Nat} {off : Nat} (h : indexNL r = none) : collectLoop r off = [] := by
  rw [collectLoop]; split
  · rfl
  · rename_i idx h'; rw [h] at h'; cases h'

theorem collectLoop_some {r : List Nat} {off idx : Nat} (h : indexNL r = some idx) :
    collectLoop r off = (off + idx) :: collectLoop (r.drop (idx + 1)) (off + idx + 1) := by
  rw [collectLoop]; split
  · rename_i h'; rw [h] at h'; cases h'
  · rename_i idx' h'; rw [h] at h'; cases h'; rfl

/-- **the loop collects exactly the newline offsets, in order** -/
theorem collectLoop_eq : ∀ (n : Nat) (remain : List Nat) (off : Nat), remain.length ≤ n →
    collectLoop remain off = newlines remain off := by
  intro n
  induction n with
  | zero =>
    intro remain off h
    have : remain = [] := List.length_eq_zero_iff.1 (by omega)
    subst this; rw [collectLoop_none (by simp [indexNL])]; simp [newlines]
  | succ n ih =>
    intro remain off h
    cases remain with
    | nil => rw [collectLoop_none (by simp [indexNL])]; simp [newlines]
    | cons c rest =>
      have hlen : rest.length ≤ n := by simp at h; omega
      by_cases hc : c = NL
      · have hi : indexNL (c :: rest) = some 0 := by simp [indexNL, hc]
        rw [collectLoop_some hi]
        simp only [newlines, hc, if_true, List.drop_succ_cons, List.drop_zero, Nat.add_zero]
        rw [ih rest (off + 1) hlen]
      · have hrec := ih rest (off + 1) hlen
        simp only [newlines, hc, if_false]
        rw [← hrec]
        cases hr : indexNL rest with
        | none =>
          rw [collectLoop_none (by simp [indexNL, hc, hr]), collectLoop_none hr]
        | some j =>
          have hi : indexNL (c :: rest) = some (j + 1) := by simp [indexNL, hc, hr]
          rw [collectLoop_some hi, collectLoop_some hr]
          simp only [List.drop_succ_cons]
          have e1 : off + (j + 1) = off + 1 + j := by omega
          rw [e1]

theorem mem_newlines : ∀ (data : List Nat) (off j : Nat),
    j ∈ newlines data off ↔ off ≤ j ∧ j - off < data.length ∧ data[j - off]? = some NL := by
  intro data
  induction data with
  | nil => intro off j; simp [newlines]
  | cons c rest ih =>
    intro off j
    simp only [newlines]
    by_cases hc : c = NL
    · simp only [hc, if_true, List.mem_cons, ih]
      constructor
      · rintro (rfl | ⟨h1, h2, h3⟩)
        · simp
        · refine ⟨by omega, by simp; omega, ?_⟩
          have : j - off = (j - (off + 1)) + 1 := by omega
          rw [this]; simpa using h3
      · rintro ⟨h1, h2, h3⟩
        by_cases hj : j = off
        · exact Or.inl hj
        · right
          have : j - off = (j - (off + 1)) + 1 := by omega
          rw [this] at h3 h2
          exact ⟨by omega, by simpa using h2, by simpa using h3⟩
    · simp only [hc, if_false, ih]
      constructor
      · rintro ⟨h1, h2, h3⟩
        refine ⟨by omega, by simp; omega, ?_⟩
        have : j - off = (j - (off + 1)) + 1 := by omega
        rw [this]; simpa using h3
      · rintro ⟨h1, h2, h3⟩
        by_cases hj : j = off
        · subst hj; simp at h3; exact absurd h3 hc
        · have : j - off = (j - (off + 1)) + 1 := by omega
          rw [this] at h3 h2
          exact ⟨by omega, by simpa using h2, by simpa using h3⟩

theorem newlines_sorted : ∀ (data : List Nat) (off : Nat), (newlines data off).Pairwise (· < ·) := by
  intro data
  induction data with
  | nil => intro off; simp [newlines]
  | cons c rest ih =>
    intro off
    simp only [newlines]
    split
    · refine List.pairwise_cons.2 ⟨?_, ih _⟩
      intro j hj
      have := (mem_newlines rest (off + 1) j).1 hj
      omega
    · exact ih _

/-- `Lines.Line(n)` over the collected table (`len` = `len(data)`); `none` is Go's `(-1, -1)` -/
def line (len : Nat) (lines : List Nat) (n : Nat) : Option (Nat × Nat) :=
  if n = 0 then none
  else if n - 1 ≥ lines.length then some (lines.getLast?.getD 0, len)
  else some ((if n - 1 > 0 then lines.getD (n - 2) 0 else 0), lines.getD (n - 1) 0)

theorem getD_eq {l : List Nat} {i : Nat} (h : i < l.length) : l.getD i 0 = l[i] := by
  simp [List.getD, h]

/-- **no slice panic**: for every document and every line number ≥ 1 the range satisfies
    `start ≤ end ≤ len(data)` -/
theorem line_range_ok (data : List Nat) (n : Nat) (r : Nat × Nat)
    (h : line data.length (newlines data 0) n = some r) : r.1 ≤ r.2 ∧ r.2 ≤ data.length := by
  unfold line at h
  split at h
  · cases h
  · split at h
    · cases h
      cases hl : (newlines data 0).getLast? with
      | none => simp
      | some x =>
        have := (mem_newlines data 0 x).1 (List.mem_of_getLast? hl)
        simp; omega
    · rename_i hn hlt
      have hlt' : n - 1 < (newlines data 0).length := by omega
      cases h
      have hm : (newlines data 0)[n - 1] ∈ newlines data 0 := List.getElem_mem _
      have hb := (mem_newlines data 0 _).1 hm
      rw [getD_eq hlt']
      split
      · rename_i hpos
        have hlt2 : n - 2 < (newlines data 0).length := by omega
        rw [getD_eq hlt2]
        have := List.pairwise_iff_getElem.1 (newlines_sorted data 0) (n - 2) (n - 1) hlt2 hlt' (by omega)
        simp only; omega
      · simp only; omega

/-- **the range is one line**: no newline lies strictly inside `(start, end)` — the only newline the slice can
    hold is its first byte (the separator before the line), which `bytes.Trim` removes -/
theorem line_has_no_inner_newline (data : List Nat) (n : Nat) (r : Nat × Nat)
    (h : line data.length (newlines data 0) n = some r) (j : Nat) (hj : r.1 < j ∧ j < r.2) :
    data[j]? ≠ some NL := by
  intro hnl
  have hjlen : j < data.length := by
    rcases Nat.lt_or_ge j data.length with h' | h'
    · exact h'
    · rw [List.getElem?_eq_none_iff.2 h'] at hnl; cases hnl
  have hmem : j ∈ newlines data 0 :=
    (mem_newlines data 0 j).2 ⟨by omega, by simpa using hjlen, by simpa using hnl⟩
  have hs := newlines_sorted data 0
  obtain ⟨k, hk, hkj⟩ := List.getElem_of_mem hmem
  unfold line at h
  split at h
  · cases h
  · split at h
    · -- last line: start is the last newline, nothing after it
      cases h
      cases hl : (newlines data 0).getLast? with
      | none =>
        have : newlines data 0 = [] := List.getLast?_eq_none_iff.1 hl
        rw [this] at hmem; cases hmem
      | some x =>
        rw [hl] at hj
        simp only [Option.getD_some] at hj
        have hx : x = (newlines data 0)[(newlines data 0).length - 1]'(by omega) := by
          rw [List.getLast?_eq_getElem?] at hl
          rw [List.getElem?_eq_getElem (by omega)] at hl
          exact (Option.some.inj hl).symm
        by_cases hk' : k = (newlines data 0).length - 1
        · subst hk'; omega
        · have := List.pairwise_iff_getElem.1 hs k ((newlines data 0).length - 1) hk (by omega) (by omega)
          omega
    · rename_i hn hlt
      have hlt' : n - 1 < (newlines data 0).length := by omega
      cases h
      simp only at hj
      rw [getD_eq hlt'] at hj
      have hkm : k < n - 1 := by
        rcases Nat.lt_or_ge k (n - 1) with h' | h'
        · exact h'
        · rcases Nat.eq_or_lt_of_le h' with h'' | h''
          · subst h''; omega
          · have := List.pairwise_iff_getElem.1 hs _ _ hlt' hk h''
            omega
      split at hj
      · rename_i hpos
        have hlt2 : n - 2 < (newlines data 0).length := by omega
        rw [getD_eq hlt2] at hj
        rcases Nat.eq_or_lt_of_le (show k ≤ n - 2 by omega) with h' | h'
        · subst h'; omega
        · have := List.pairwise_iff_getElem.1 hs _ _ hk hlt2 h'
          omega
      · omega

/-- `lline <n> <b1,b2,…>` → `start end` (`-1 -1` for an invalid line number) -/
def lineLine (p : String) : String :=
  match p.splitOn " " with
  | [n, bs] =>
    let data := if bs == "-" then [] else (bs.splitOn ",").filterMap String.toNat?
    match n.toInt? with
    | some k =>
      if k < 0 then "-1 -1" else
      match line data.length (collectLoop data 0) k.toNat with
      | none => "-1 -1"
      | some r => toString r.1 ++ " " ++ toString r.2
    | none => "bad"
  | _ => "bad"

end LinesM
