import Ogen.Generated.Facts_naming
/-! C02, name synthesis: a model of `gen/names.go` (`nameGen.generate`, `isAllowed`, `checkPart`, `namedChar`,
    the `R` prefix and the final `token.IsIdentifier` check) over code points, with the rule table of
    `internal/naming/rules.go` taken from regenerated facts. The theorems say that whatever goes into a Go
    identifier is harmless: only ASCII letters and digits (and the two non-ASCII letters whose simple lower-case
    mapping is ASCII) survive, so quotes, backslashes, newlines and every other hostile character of a spec name
    never reach the generated source through a name — and generation of a name fails only when nothing
    nameable is left. -/
namespace NameGen

abbrev Str := List Nat   -- code points

def isDigit (c : Nat) : Bool := 48 ≤ c && c ≤ 57
def isUpper (c : Nat) : Bool := 65 ≤ c && c ≤ 90
def isLowerA (c : Nat) : Bool := 97 ≤ c && c ≤ 122
/-- `unicode.ToLower` on the code points that matter: ASCII, and U+0130 ↦ i, U+212A ↦ k (the only non-ASCII
    code points whose simple lower-case mapping is an ASCII letter) -/
def goLower (c : Nat) : Nat := if isUpper c then c + 32 else if c = 0x130 then 105 else if c = 0x212A then 107 else c
def isAllowed (c : Nat) : Bool := isLowerA (goLower c) || isDigit (goLower c)
/-- `unicode.ToUpper` on allowed code points -/
def goUpper (c : Nat) : Nat := if isLowerA c then c - 32 else c

/-- what may appear in a synthesised name -/
def safe (c : Nat) : Bool := isDigit c || isUpper c || isLowerA c || c = 0x130 || c = 0x212A

def namedChar (c : Nat) : Option Str :=
  if c = 43 then some [80, 108, 117, 115]            -- '+' Plus
  else if c = 45 then some [77, 105, 110, 117, 115]  -- '-' Minus
  else if c = 47 then some [83, 108, 97, 115, 104]   -- '/' Slash
  else if c = 60 then some [76, 101, 115, 115]       -- '<' Less
  else if c = 62 then some [71, 114, 101, 97, 116, 101, 114]  -- '>' Greater
  else if c = 61 then some [69, 113]                 -- '=' Eq
  else if c = 46 then some [68, 111, 116]            -- '.' Dot
  else none

/-- `naming.Rule`: case-insensitive lookup in the table -/
def checkPart (rules : List Str) (p : Str) : Str :=
  match rules.find? (fun r => r.map goLower == p.map goLower) with
  | some r => r
  | none => p

structure St where
  parts : List Str
  part : Str
  upper : Bool

def pushPart (rules : List Str) (s : St) : St := { s with parts := s.parts ++ [checkPart rules s.part], part := [] }

def step (rules : List Str) (special : Bool) (s : St) (r : Nat) : St :=
  if isAllowed r then
    { s with part := s.part ++ [if s.upper then goUpper r else r], upper := false }
  else
    let s := { s with upper := true }
    let s := if special then (match namedChar r with | some p => { pushPart rules s with part := p } | none => s) else s
    pushPart rules s

def joined (rules : List Str) (special : Bool) (src : Str) : Str :=
  (pushPart rules (src.foldl (step rules special) ⟨[], [], true⟩)).parts.flatten

def headDigit (name : Str) : Bool := match name with | c :: _ => isDigit c | [] => false
/-- FIXME in the source: "choose prefix according to context" — a leading digit gets an `R` -/
def withPrefix (name : Str) : Str := if headDigit name then 82 :: name else name
/-- `token.IsIdentifier` on what can occur here: non-empty, safe characters, no leading digit (a name that starts
    with an upper-case letter or `R` is never a keyword) -/
def identOk (name : Str) : Bool := !name.isEmpty && name.all safe && !headDigit name

/-- `generate`: join, `R` prefix for a leading digit, `token.IsIdentifier` -/
def generate (rules : List Str) (special : Bool) (src : Str) : Option Str :=
  if identOk (withPrefix (joined rules special src)) then some (withPrefix (joined rules special src)) else none

/-- `clean` (used for `cleanSpecial`): the same loop without capitalisation and without the final check -/
def stepClean (rules : List Str) (special : Bool) (s : St) (r : Nat) : St :=
  if isAllowed r then { s with part := s.part ++ [r] }
  else
    let s := if special then (match namedChar r with | some p => { pushPart rules s with part := p } | none => s) else s
    pushPart rules s
def clean (rules : List Str) (special : Bool) (src : Str) : Str :=
  (pushPart rules (src.foldl (stepClean rules special) ⟨[], [], true⟩)).parts.flatten

/-! ### everything that is collected is safe -/
def RulesSafe (rules : List Str) : Prop := ∀ r ∈ rules, r.all safe = true

theorem allowed_safe (c : Nat) (h : isAllowed c = true) : safe c = true ∧ safe (goUpper c) = true := by
  have hc : (97 ≤ c ∧ c ≤ 122) ∨ (65 ≤ c ∧ c ≤ 90) ∨ (48 ≤ c ∧ c ≤ 57) ∨ c = 0x130 ∨ c = 0x212A := by
    simp only [isAllowed, goLower, isDigit, isUpper, isLowerA, Bool.or_eq_true, Bool.and_eq_true,
      decide_eq_true_eq] at h
    by_cases h1 : 65 ≤ c ∧ c ≤ 90
    · exact Or.inr (Or.inl h1)
    · simp only [h1, if_false] at h
      by_cases h2 : c = 0x130
      · exact Or.inr (Or.inr (Or.inr (Or.inl h2)))
      · simp only [h2, if_false] at h
        by_cases h3 : c = 0x212A
        · exact Or.inr (Or.inr (Or.inr (Or.inr h3)))
        · simp only [h3, if_false] at h
          omega
  simp only [safe, goUpper, isDigit, isUpper, isLowerA, Bool.or_eq_true, Bool.and_eq_true, decide_eq_true_eq]
  by_cases h4 : 97 ≤ c ∧ c ≤ 122
  · simp only [h4, and_self, if_true]
    exact ⟨by simp, by omega⟩
  · simp only [h4, if_false]
    omega

theorem namedChar_safe (c : Nat) (p : Str) (h : namedChar c = some p) : p.all safe = true := by
  unfold namedChar at h
  repeat' (first | (split at h; (first | (cases h; decide) | skip)) | cases h)

theorem checkPart_safe {rules : List Str} (hr : RulesSafe rules) (p : Str) (hp : p.all safe = true) :
    (checkPart rules p).all safe = true := by
  unfold checkPart
  cases hf : rules.find? (fun r => r.map goLower == p.map goLower) with
  | none => simpa using hp
  | some r => exact hr r (List.mem_of_find?_eq_some hf)

def StSafe (s : St) : Prop := (∀ p ∈ s.parts, p.all safe = true) ∧ s.part.all safe = true

theorem pushPart_safe {rules : List Str} (hr : RulesSafe rules) (s : St) (h : StSafe s) : StSafe (pushPart rules s) := by
  unfold pushPart StSafe
  refine ⟨?_, by simp⟩
  intro p hp
  simp only [List.mem_append, List.mem_singleton] at hp
  rcases hp with hp | rfl
  · exact h.1 p hp
  · exact checkPart_safe hr _ h.2

theorem step_safe {rules : List Str} (hr : RulesSafe rules) (special : Bool) (s : St) (r : Nat) (h : StSafe s) :
    StSafe (step rules special s r) := by
  unfold step
  split
  · rename_i ha
    refine ⟨h.1, ?_⟩
    simp only [List.all_append, Bool.and_eq_true]
    refine ⟨h.2, ?_⟩
    have := allowed_safe r ha
    split <;> simp [this.1, this.2]
  · apply pushPart_safe hr
    cases special with
    | false => exact h
    | true =>
      simp only [if_true]
      cases hn : namedChar r with
      | none => exact h
      | some p =>
        have hs : StSafe (pushPart rules { s with upper := true }) := pushPart_safe hr _ h
        exact ⟨hs.1, namedChar_safe r p hn⟩

theorem stepClean_safe {rules : List Str} (hr : RulesSafe rules) (special : Bool) (s : St) (r : Nat) (h : StSafe s) :
    StSafe (stepClean rules special s r) := by
  unfold stepClean
  split
  · rename_i ha
    refine ⟨h.1, ?_⟩
    simp only [List.all_append, Bool.and_eq_true]
    exact ⟨h.2, by simp [(allowed_safe r ha).1]⟩
  · apply pushPart_safe hr
    cases special with
    | false => exact h
    | true =>
      simp only [if_true]
      cases hn : namedChar r with
      | none => exact h
      | some p =>
        have hs : StSafe (pushPart rules s) := pushPart_safe hr _ h
        exact ⟨hs.1, namedChar_safe r p hn⟩

theorem foldl_safe {rules : List Str} (_hr : RulesSafe rules) (f : St → Nat → St)
    (hf : ∀ s r, StSafe s → StSafe (f s r)) (src : Str) (s : St) (h : StSafe s) : StSafe (src.foldl f s) := by
  induction src generalizing s with
  | nil => exact h
  | cons c cs ih => exact ih (f s c) (hf s c h)

theorem flatten_safe (ps : List Str) (h : ∀ p ∈ ps, p.all safe = true) : ps.flatten.all safe = true := by
  induction ps with
  | nil => rfl
  | cons p ps ih =>
    simp only [List.flatten_cons, List.all_append, Bool.and_eq_true]
    exact ⟨h p (List.mem_cons_self ..), ih (fun q hq => h q (List.mem_cons_of_mem _ hq))⟩

/-- **whatever characters the spec name contains, only safe ones are collected** (before any final check) -/
theorem joined_safe {rules : List Str} (hr : RulesSafe rules) (special : Bool) (src : Str) :
    (joined rules special src).all safe = true := by
  unfold joined
  have h0 : StSafe ⟨[], [], true⟩ := ⟨by intro p hp; simp at hp, rfl⟩
  have := pushPart_safe hr _ (foldl_safe hr (step rules special) (fun s r => step_safe hr special s r) src _ h0)
  exact flatten_safe _ this.1

theorem clean_safe {rules : List Str} (hr : RulesSafe rules) (special : Bool) (src : Str) :
    (clean rules special src).all safe = true := by
  unfold clean
  have h0 : StSafe ⟨[], [], true⟩ := ⟨by intro p hp; simp at hp, rfl⟩
  have := pushPart_safe hr _ (foldl_safe hr (stepClean rules special) (fun s r => stepClean_safe hr special s r) src _ h0)
  exact flatten_safe _ this.1

/-- a produced name is a well-formed identifier made of safe characters, not starting with a digit -/
theorem generate_ident {rules : List Str} (special : Bool) (src name : Str)
    (h : generate rules special src = some name) :
    name ≠ [] ∧ name.all safe = true ∧ headDigit name = false := by
  unfold generate at h
  split at h
  · rename_i hok
    cases h
    unfold identOk at hok
    simp only [Bool.and_eq_true, Bool.not_eq_true'] at hok
    refine ⟨?_, hok.1.2, hok.2⟩
    intro he
    rw [he] at hok
    simp at hok
  · cases h

theorem withPrefix_ok (name : Str) (hne : name ≠ []) (hs : name.all safe = true) : identOk (withPrefix name) = true := by
  unfold withPrefix identOk
  by_cases hd : headDigit name = true
  · simp only [hd, if_true]
    simp [headDigit, isDigit, hs, safe, isUpper]
  · have hd' : headDigit name = false := by simpa using hd
    simp only [hd', Bool.false_eq_true, if_false]
    cases name with
    | nil => exact absurd rfl hne
    | cons c rest => simp [hs, hd']

/-- **name generation fails only when nothing nameable is left**: with a safe rule table, `generate` is `none`
    exactly when no allowed character (and, with `special`, no named character) was collected -/
theorem generate_none_iff {rules : List Str} (hr : RulesSafe rules) (special : Bool) (src : Str) :
    generate rules special src = none ↔ joined rules special src = [] := by
  have hs := joined_safe hr special src
  unfold generate
  constructor
  · intro h
    by_cases hj : joined rules special src = []
    · exact hj
    · rw [if_pos (withPrefix_ok _ hj hs)] at h
      cases h
  · intro hj
    rw [hj]
    simp [withPrefix, identOk, headDigit]

/-! ### a synthesised name is never a Go keyword: it never starts with a lower-case ASCII letter -/
def headNotLower (p : Str) : Bool := match p with | [] => true | c :: _ => !isLowerA c
def RulesHead (rules : List Str) : Prop := ∀ r ∈ rules, headNotLower r = true

theorem goUpper_notLower (c : Nat) : isLowerA (goUpper c) = false := by
  simp only [goUpper, isLowerA]
  by_cases h : 97 ≤ c ∧ c ≤ 122
  · simp only [h, decide_true, Bool.and_self, if_true]
    simp only [Bool.and_eq_false_iff, decide_eq_false_iff_not]; omega
  · have : (decide (97 ≤ c) && decide (c ≤ 122)) = false := by
      simp only [Bool.and_eq_false_iff, decide_eq_false_iff_not]; omega
    simp [this]

theorem namedChar_head (c : Nat) (p : Str) (h : namedChar c = some p) : headNotLower p = true := by
  unfold namedChar at h
  repeat' (first | (split at h; (first | (cases h; decide) | skip)) | cases h)

theorem checkPart_head {rules : List Str} (hr : RulesHead rules) (p : Str) (hp : headNotLower p = true) :
    headNotLower (checkPart rules p) = true := by
  unfold checkPart
  cases hf : rules.find? (fun r => r.map goLower == p.map goLower) with
  | none => simpa using hp
  | some r => exact hr r (List.mem_of_find?_eq_some hf)

/-- the loop invariant of `generate`: finished parts and the open part start with a non-lower-case character,
    and an empty open part is always followed by an upper-cased character -/
def StHead (s : St) : Prop :=
  (∀ p ∈ s.parts, headNotLower p = true) ∧ headNotLower s.part = true ∧ (s.part = [] → s.upper = true)

theorem pushPart_head {rules : List Str} (hr : RulesHead rules) (s : St) (h : StHead s) (hu : s.upper = true) :
    StHead (pushPart rules s) := by
  unfold pushPart StHead
  refine ⟨?_, rfl, fun _ => hu⟩
  intro p hp
  simp only [List.mem_append, List.mem_singleton] at hp
  rcases hp with hp | hp
  · exact h.1 p hp
  · rw [hp]; exact checkPart_head hr _ h.2.1

theorem step_head {rules : List Str} (hr : RulesHead rules) (special : Bool) (s : St) (r : Nat) (h : StHead s) :
    StHead (step rules special s r) := by
  unfold step
  split
  · refine ⟨h.1, ?_, ?_⟩
    · cases hp : s.part with
      | nil =>
        have hu := h.2.2 hp
        simp [headNotLower, hu, goUpper_notLower]
      | cons c cs =>
        have := h.2.1
        rw [hp] at this
        simpa [headNotLower] using this
    · intro he; simp at he
  · have h1 : StHead { s with upper := true } := ⟨h.1, h.2.1, fun _ => rfl⟩
    apply pushPart_head hr
    · cases special with
      | false => exact h1
      | true =>
        simp only [if_true]
        cases hn : namedChar r with
        | none => exact h1
        | some p =>
          have hs : StHead (pushPart rules { s with upper := true }) := pushPart_head hr _ h1 rfl
          refine ⟨hs.1, namedChar_head r p hn, ?_⟩
          intro _; rfl
    · cases special with
      | false => rfl
      | true =>
        simp only [if_true]
        cases hn : namedChar r with
        | none => rfl
        | some p => rfl

theorem foldl_head {rules : List Str} (hr : RulesHead rules) (special : Bool) (src : Str) (s : St) (h : StHead s) :
    StHead (src.foldl (step rules special) s) ∧ True := by
  induction src generalizing s with
  | nil => exact ⟨h, trivial⟩
  | cons c cs ih => exact ih (step rules special s c) (step_head hr special s c h)

theorem flatten_head (ps : List Str) (h : ∀ p ∈ ps, headNotLower p = true) : headNotLower ps.flatten = true := by
  induction ps with
  | nil => rfl
  | cons p ps ih =>
    cases p with
    | nil => simpa using ih (fun q hq => h q (List.mem_cons_of_mem _ hq))
    | cons c cs =>
      have := h (c :: cs) (List.mem_cons_self)
      simpa [headNotLower] using this

/-- the last `pushPart` needs no `upper` (nothing follows it) -/
theorem joined_head {rules : List Str} (hr : RulesHead rules) (special : Bool) (src : Str) :
    headNotLower (joined rules special src) = true := by
  unfold joined
  have h0 : StHead ⟨[], [], true⟩ := ⟨by intro p hp; simp at hp, rfl, fun _ => rfl⟩
  have h := (foldl_head hr special src _ h0).1
  apply flatten_head
  intro p hp
  simp only [pushPart, List.mem_append, List.mem_singleton] at hp
  rcases hp with hp | hp
  · exact h.1 p hp
  · rw [hp]; exact checkPart_head hr _ h.2.1

/-- **no keyword**: a produced name starts with something that is not a lower-case ASCII letter, while every Go
    keyword (and every predeclared identifier) starts with one — so the model's `identOk` is the whole of
    `token.IsIdentifier` here -/
theorem generate_not_keyword {rules : List Str} (hr : RulesHead rules) (special : Bool) (src name : Str)
    (h : generate rules special src = some name) : headNotLower name = true := by
  unfold generate at h
  split at h
  · cases h
    unfold withPrefix
    split
    · rfl
    · exact joined_head hr special src
  · cases h

theorem facts_rules_head : RulesHead Facts.Naming.rules := by
  intro r hr
  have : Facts.Naming.rules.all headNotLower = true := by decide
  exact (List.all_eq_true.mp this) r hr

/-- the lowered spellings are pairwise different, so the map `rulesMap` and a first-match search agree -/
theorem facts_rules_nodup : (Facts.Naming.rules.map (fun r => r.map goLower)).Nodup := by decide

/-! the regenerated table is safe -/
theorem facts_rules_safe : RulesSafe Facts.Naming.rules := by
  intro r hr
  have : Facts.Naming.rules.all (fun r => r.all safe) = true := by decide
  exact (List.all_eq_true.mp this) r hr


/-! line protocol: `namegen <pascal|pascalSpecial|cleanSpecial> <code points hex, comma separated | ->` -/
def hexNatN (s : String) : Nat :=
  s.foldl (fun v d => v * 16 + (if d.isDigit then d.toNat - 48 else if 'a' ≤ d ∧ d ≤ 'f' then d.toNat - 87 else d.toNat - 55)) 0
def showCps (s : Str) : String := if s.isEmpty then "-" else ",".intercalate (s.map fun c => String.ofList (Nat.toDigits 16 c))
def namegenLine (line : String) : String :=
  match (line.splitOn " ").filter (· ≠ "") with
  | [mode, cps] =>
    let src : Str := if cps == "-" then [] else (cps.splitOn ",").map hexNatN
    match mode with
    | "pascal" => (match generate Facts.Naming.rules false src with | some n => "ok:" ++ showCps n | none => "err")
    | "pascalSpecial" => (match generate Facts.Naming.rules true src with | some n => "ok:" ++ showCps n | none => "err")
    | "cleanSpecial" => "ok:" ++ showCps (clean Facts.Naming.rules true src)
    | _ => "bad-mode"
  | _ => "bad"
end NameGen
