import Ogen.JsonCodecModel
import Ogen.JsonEqualStruct_proof
/-! C04: theorems about the codec model `JCodec` (round trip, the decoder builds only values of the type, it
    accepts exactly the documents the schema admits, the encoder's output is admitted). -/
set_option linter.constructorNameAsVariable false
namespace JCodec
open JEqG

theorem encode_ne_null : ∀ (t : Ty) (v : Val), WT t v → encode t v ≠ .null
  | .int _, .int _, _ => by simp [encode]
  | .str _, .str _, _ => by simp [encode]
  | .bool, .bool _, _ => by simp [encode]
  | .arr _ _ _, .arr _, _ => by simp [encode]
  | .obj _ _, .obj _, _ => by simp [encode]
  | .int _, .omitted, h | .int _, .null, h | .int _, .str _, h | .int _, .bool _, h | .int _, .arr _, h | .int _, .obj _, h => by simp [WT] at h
  | .str _, .omitted, h | .str _, .null, h | .str _, .int _, h | .str _, .bool _, h | .str _, .arr _, h | .str _, .obj _, h => by simp [WT] at h
  | .bool, .omitted, h | .bool, .null, h | .bool, .int _, h | .bool, .str _, h | .bool, .arr _, h | .bool, .obj _, h => by simp [WT] at h
  | .arr _ _ _, .omitted, h | .arr _ _ _, .null, h | .arr _ _ _, .int _, h | .arr _ _ _, .str _, h | .arr _ _ _, .bool _, h | .arr _ _ _, .obj _, h => by simp [WT] at h
  | .obj _ _, .omitted, h | .obj _ _, .null, h | .obj _ _, .int _, h | .obj _ _, .str _, h | .obj _ _, .bool _, h | .obj _ _, .arr _, h => by simp [WT] at h

theorem findIdx_hit (pre : List Field) (n : String) (req : Pres) (nul : Bool) (t : Ty) (rest : List Field) (i : Nat)
    (h : n ∉ names pre) : findIdx (pre ++ (n, req, nul, t) :: rest) n i = some (i + pre.length, nul, t) := by
  induction pre generalizing i with
  | nil => simp [findIdx]
  | cons f pre ih =>
    obtain ⟨n', r', u', t'⟩ := f
    simp only [names, List.map_cons, List.mem_cons, not_or] at h
    have hne : (n' == n) = false := by simpa using fun e => h.1 e.symm
    simp only [List.cons_append, findIdx, hne, Bool.false_eq_true, if_false]
    rw [ih (i + 1) (by simpa [names] using h.2)]
    simp; omega

theorem requiredOk_of_wt : ∀ (fs : List Field) (ms : List Val), WTFields fs ms → requiredOk fs ms = true
  | [], [], _ => rfl
  | [], _ :: _, h | _ :: _, [], h => by simp [WTFields] at h
  | (_, req, nul, t) :: fs, m :: ms, h => by
    simp only [WTFields] at h
    simp only [requiredOk, Bool.and_eq_true]
    refine ⟨?_, requiredOk_of_wt fs ms h.2⟩
    cases m <;> cases req <;> simp_all [memberOk, Val.isOmitted, Pres.mayOmit, Pres.isReq]

theorem memberOf_encode (req nul : Bool) (t : Ty) (m : Val) (hm : memberOk req nul m (WT t m)) (ho : m.isOmitted = false)
    (ih : WT t m → decode t (encode t m) = some m) :
    memberOf nul (encode t m) (decode t (encode t m)) = some m := by
  cases m with
  | omitted => simp [Val.isOmitted] at ho
  | null =>
    simp only [memberOk] at hm
    simp [encode, memberOf, hm]
  | int i => have := encode_ne_null t _ hm; rw [ih hm]; revert this; cases h : encode t (.int i) <;> simp [memberOf]
  | str i => have := encode_ne_null t _ hm; rw [ih hm]; revert this; cases h : encode t (.str i) <;> simp [memberOf]
  | bool i => have := encode_ne_null t _ hm; rw [ih hm]; revert this; cases h : encode t (.bool i) <;> simp [memberOf]
  | arr i => have := encode_ne_null t _ hm; rw [ih hm]; revert this; cases h : encode t (.arr i) <;> simp [memberOf]
  | obj i => have := encode_ne_null t _ hm; rw [ih hm]; revert this; cases h : encode t (.obj i) <;> simp [memberOf]

theorem wfs_append (a b : List Field) : Ty.WF.WFs (a ++ b) ↔ Ty.WF.WFs a ∧ Ty.WF.WFs b := by
  induction a with
  | nil => simp [Ty.WF.WFs]
  | cons f a ih => obtain ⟨n, r, u, t⟩ := f; simp [Ty.WF.WFs, ih, and_assoc]

mutual
/-- **round trip**: every value of the type comes back from its own encoding -/
theorem decode_encode : ∀ (t : Ty) (v : Val), t.WF → WT t v → decode t (encode t v) = some v
  | .int _, .int _, _, h => by simp only [WT] at h; simp [encode, decode, h]
  | .str _, .str _, _, _ => by simp [encode, decode]
  | .bool, .bool _, _, _ => by simp [encode, decode]
  | .arr _ nul t, .arr xs, hw, h => by
    simp only [WT] at h
    simp only [Ty.WF] at hw
    simp [encode, decode, decodeItems_encodeItems nul t xs hw h]
  | .obj closed fs, .obj ms, hw, h => by
    simp only [WT] at h
    simp only [Ty.WF] at hw
    have := decodeMembers_encodeFields closed [] [] fs ms (by simpa using hw.1) hw.2 rfl h
    simp only [List.nil_append] at this
    simp [encode, decode, this, requiredOk_of_wt fs ms h]
  | .int _, .omitted, _, h | .int _, .null, _, h | .int _, .str _, _, h | .int _, .bool _, _, h | .int _, .arr _, _, h | .int _, .obj _, _, h => by simp [WT] at h
  | .str _, .omitted, _, h | .str _, .null, _, h | .str _, .int _, _, h | .str _, .bool _, _, h | .str _, .arr _, _, h | .str _, .obj _, _, h => by simp [WT] at h
  | .bool, .omitted, _, h | .bool, .null, _, h | .bool, .int _, _, h | .bool, .str _, _, h | .bool, .arr _, _, h | .bool, .obj _, _, h => by simp [WT] at h
  | .arr _ _ _, .omitted, _, h | .arr _ _ _, .null, _, h | .arr _ _ _, .int _, _, h | .arr _ _ _, .str _, _, h | .arr _ _ _, .bool _, _, h | .arr _ _ _, .obj _, _, h => by simp [WT] at h
  | .obj _ _, .omitted, _, h | .obj _ _, .null, _, h | .obj _ _, .int _, _, h | .obj _ _, .str _, _, h | .obj _ _, .bool _, _, h | .obj _ _, .arr _, _, h => by simp [WT] at h
theorem decodeItems_encodeItems (nul : Bool) (t : Ty) : ∀ (xs : List Val), t.WF → WTItems nul t xs →
    decodeItems nul t (encodeItems t xs) = some xs
  | [], _, _ => by simp [encodeItems, decodeItems]
  | x :: xs, hw, h => by
    simp only [WTItems] at h
    have hx : x.isOmitted = false := by
      cases x <;> simp_all [memberOk, Val.isOmitted]
    simp only [encodeItems, decodeItems]
    rw [memberOf_encode true nul t x h.1 hx (decode_encode t x hw), decodeItems_encodeItems nul t xs hw h.2]
theorem decodeMembers_encodeFields (closed : Bool) (pre : List Field) (preSt : List Val) : ∀ (fs : List Field) (ms : List Val),
    (names (pre ++ fs)).Nodup → Ty.WF.WFs fs → preSt.length = pre.length → WTFields fs ms →
    decodeMembers closed (pre ++ fs) (preSt ++ fs.map initState) (encodeFields fs ms) = some (preSt ++ ms)
  | [], [], _, _, _, _ => by simp [encodeFields, decodeMembers]
  | [], _ :: _, _, _, _, h | _ :: _, [], _, _, _, h => by simp [WTFields] at h
  | (n, req, nul, t) :: fs, m :: ms, hn, hw, hl, h => by
    simp only [WTFields] at h
    simp only [Ty.WF.WFs] at hw
    have hrec := decodeMembers_encodeFields closed (pre ++ [(n, req, nul, t)]) (preSt ++ [m]) fs ms
      (by simpa [List.append_assoc] using hn) hw.2.2 (by simp [hl]) h.2
    simp only [List.append_assoc, List.singleton_append] at hrec
    cases hm : m.isOmitted with
    | true =>
      have : m = .omitted := by cases m <;> simp_all [Val.isOmitted]
      subst this
      have hinit : initState (n, req, nul, t) = .omitted := by
        have := h.1
        cases req <;> simp_all [memberOk, Pres.mayOmit, initState, Pres.init]
      simpa [encodeFields, hinit] using hrec
    | false =>
      have henc : encodeFields ((n, req, nul, t) :: fs) (m :: ms) = (n, encode t m) :: encodeFields fs ms := by
        cases m <;> simp_all [encodeFields, Val.isOmitted]
      have hnot : n ∉ names pre := by
        simp only [names, List.map_append, List.map_cons] at hn
        have := (List.nodup_append.mp hn).2.2
        intro hmem
        exact this n (by simpa [names] using hmem) n (List.mem_cons_self ..) rfl
      rw [henc]
      simp only [decodeMembers, findIdx_hit pre n req nul t fs 0 hnot, Nat.zero_add]
      rw [memberOf_encode (!req.mayOmit) nul t m h.1 hm (decode_encode t m hw.1)]
      simp only
      have hset : (preSt ++ List.map initState ((n, req, nul, t) :: fs)).set pre.length m
          = preSt ++ m :: List.map initState fs := by
        rw [← hl]; simp
      rw [hset]; exact hrec
end

/-! ## the decoder builds only values of the type -/

/-- the decoder's working state: every slot is still `omitted` or already holds a member of its field -/
def PWT : List Field → List Val → Prop
  | [], [] => True
  | (_, req, nul, t) :: fs, m :: ms => memberOk req.isDflt nul m (WT t m) ∧ PWT fs ms
  | _, _ => False

theorem wt_memberOk : ∀ (t : Ty) (v : Val) (b nul : Bool), WT t v → memberOk b nul v (WT t v)
  | _, .omitted, _, _, h | _, .null, _, _, h => by cases ‹Ty› <;> simp [WT] at h
  | _, .int _, _, _, h | _, .str _, _, _, h | _, .bool _, _, _, h | _, .arr _, _, _, h | _, .obj _, _, _, h => by simpa [memberOk] using h

theorem pwt_init : ∀ (fs : List Field), Ty.WF.WFs fs → PWT fs (fs.map initState)
  | [], _ => by simp [PWT]
  | (_, req, nul, t) :: fs, hw => by
    simp only [Ty.WF.WFs] at hw
    simp only [List.map_cons, PWT]
    refine ⟨?_, pwt_init fs hw.2.2⟩
    cases req with
    | req => simp [initState, Pres.init, Pres.isDflt, memberOk]
    | opt => simp [initState, Pres.init, Pres.isDflt, memberOk]
    | dflt d => exact wt_memberOk t d _ nul (hw.2.1 d rfl).1

theorem pwt_set : ∀ (fs : List Field) (st : List Val) (k : String) (i0 i : Nat) (nul : Bool) (t : Ty) (v : Val),
    findIdx fs k i0 = some (i, nul, t) → PWT fs st → (∀ b, memberOk b nul v (WT t v)) → PWT fs (st.set (i - i0) v)
  | [], _, _, _, _, _, _, _, h, _, _ => by simp [findIdx] at h
  | _ :: _, [], _, _, _, _, _, _, _, h, _ => by simp [PWT] at h
  | (n, req, nul', t') :: fs, m :: ms, k, i0, i, nul, t, v, hf, hp, hv => by
    simp only [findIdx] at hf
    simp only [PWT] at hp
    split at hf
    · cases hf
      simp [PWT, hp.2, hv _]
    · have hge : i0 + 1 ≤ i := findIdx_ge fs k (i0 + 1) i nul t hf
      have := pwt_set fs ms k (i0 + 1) i nul t v hf hp.2 hv
      have e : i - i0 = (i - (i0 + 1)) + 1 := by omega
      rw [e]
      simp [PWT, hp.1, this]
where findIdx_ge : ∀ (fs : List Field) (k : String) (i0 i : Nat) (nul : Bool) (t : Ty), findIdx fs k i0 = some (i, nul, t) → i0 ≤ i
  | [], _, _, _, _, _, h => by simp [findIdx] at h
  | (n, _, _, _) :: fs, k, i0, i, nul, t, h => by
    simp only [findIdx] at h
    split at h
    · cases h; exact Nat.le_refl _
    · have := findIdx_ge fs k (i0 + 1) i nul t h; omega

theorem wt_of_pwt : ∀ (fs : List Field) (ms : List Val), PWT fs ms → requiredOk fs ms = true → WTFields fs ms
  | [], [], _, _ => by simp [WTFields]
  | [], _ :: _, h, _ | _ :: _, [], h, _ => by simp [PWT] at h
  | (_, req, nul, t) :: fs, m :: ms, hp, hr => by
    simp only [PWT] at hp
    simp only [requiredOk, Bool.and_eq_true] at hr
    simp only [WTFields]
    refine ⟨?_, wt_of_pwt fs ms hp.2 hr.2⟩
    cases m <;> cases req <;> simp_all [memberOk, Val.isOmitted, Pres.mayOmit, Pres.isReq, Pres.isDflt]

theorem wt_not_slot : ∀ (t : Ty) (v : Val) (req nul : Bool), WT t v → memberOk req nul v (WT t v)
  | _, .omitted, _, _, h | _, .null, _, _, h => by cases ‹Ty› <;> simp [WT] at h
  | _, .int _, _, _, h | _, .str _, _, _, h | _, .bool _, _, _, h | _, .arr _, _, _, h | _, .obj _, _, _, h => by simpa [memberOk] using h

theorem memberOf_wt (req nul : Bool) (t : Ty) (j : Json) (v : Val) (ih : decode t j = some v → WT t v)
    (h : memberOf nul j (decode t j) = some v) : memberOk req nul v (WT t v) ∧ v.isOmitted = false := by
  cases j with
  | null =>
    simp only [memberOf] at h
    split at h
    · cases h; simp_all [memberOk, Val.isOmitted]
    · cases h
  | bool _ | str _ | num _ | arr _ | obj _ =>
    simp only [memberOf] at h
    have hw := ih h
    refine ⟨wt_not_slot t v req nul hw, ?_⟩
    cases v <;> first | rfl | (cases t <;> simp [WT] at hw)

theorem findIdx_some_mem : ∀ (fs : List Field) (k : String) (i0 i : Nat) (nul : Bool) (t : Ty),
    findIdx fs k i0 = some (i, nul, t) → ∃ req, (k, req, nul, t) ∈ fs
  | [], _, _, _, _, _, h => by simp [findIdx] at h
  | (n, req, nul', t') :: fs, k, i0, i, nul, t, h => by
    simp only [findIdx] at h
    split at h
    · rename_i heq
      have heq : n = k := by simpa using heq
      cases h; subst heq
      exact ⟨req, List.mem_cons_self ..⟩
    · obtain ⟨r, hr⟩ := findIdx_some_mem fs k (i0 + 1) i nul t h
      exact ⟨r, List.mem_cons_of_mem _ hr⟩

theorem wfs_mem : ∀ (fs : List Field) (f : Field), Ty.WF.WFs fs → f ∈ fs → f.2.2.2.WF
  | [], _, _, h => by cases h
  | (n, req, nul, t) :: fs, f, hw, h => by
    simp only [Ty.WF.WFs] at hw
    rcases List.mem_cons.mp h with e | h
    · cases e; exact hw.1
    · exact wfs_mem fs f hw.2.2 h

theorem wfs_mem_dflt : ∀ (fs : List Field) (f : Field) (d : Val), Ty.WF.WFs fs → f ∈ fs → f.2.1 = .dflt d →
    WT f.2.2.2 d ∧ validate f.2.2.2 d = true
  | [], _, _, _, h, _ => by cases h
  | (n, req, nul, t) :: fs, f, d, hw, h, hd => by
    simp only [Ty.WF.WFs] at hw
    rcases List.mem_cons.mp h with e | h
    · cases e; exact hw.2.1 d hd
    · exact wfs_mem_dflt fs f d hw.2.2 h hd

theorem findIdx_wf (fs : List Field) (k : String) (i0 i : Nat) (nul : Bool) (t : Ty) (hw : Ty.WF.WFs fs)
    (h : findIdx fs k i0 = some (i, nul, t)) : t.WF := by
  obtain ⟨req, hm⟩ := findIdx_some_mem fs k i0 i nul t h
  exact wfs_mem fs _ hw hm

mutual
/-- **whatever the decoder accepts, it turns into a value of the type** (three states only where the schema
    allows them, every required member present, items and members of the declared types) -/
theorem decode_wt : ∀ (j : Json) (t : Ty) (v : Val), t.WF → decode t j = some v → WT t v
  | .null, t, v, _, h => by cases t <;> simp [decode] at h
  | .bool b, t, v, _, h => by cases t <;> simp [decode] at h; subst h; simp [WT]
  | .str s, t, v, _, h => by cases t <;> simp [decode] at h; subst h; simp [WT]
  | .num (.int n), t, v, _, h => by
    cases t <;> simp [decode] at h
    obtain ⟨hr, rfl⟩ := h
    simp [WT, hr]
  | .num .frac, t, v, _, h => by cases t <;> simp [decode] at h
  | .arr xs, t, v, hw, h => by
    cases t with
    | arr _ nul t =>
      simp only [decode, Option.map_eq_some_iff] at h
      obtain ⟨vs, hvs, rfl⟩ := h
      simp only [Ty.WF] at hw
      simpa [WT] using decodeItems_wt xs nul t vs hw hvs
    | int _ | str _ | bool | obj _ _ => simp [decode] at h
  | .obj kvs, t, v, hw, h => by
    cases t with
    | obj closed fs =>
      simp only [Ty.WF] at hw
      simp only [decode] at h
      split at h
      · rename_i st hst
        split at h
        · cases h
          rename_i hr
          simp only [WT]
          exact wt_of_pwt fs st (decodeMembers_pwt closed kvs fs _ st hw.2 (pwt_init fs hw.2) hst) hr
        · cases h
      · cases h
    | int _ | str _ | bool | arr _ _ _ => simp [decode] at h
theorem decodeItems_wt : ∀ (xs : List Json) (nul : Bool) (t : Ty) (vs : List Val), t.WF → decodeItems nul t xs = some vs → WTItems nul t vs
  | [], _, _, vs, _, h => by simp [decodeItems] at h; subst h; simp [WTItems]
  | x :: xs, nul, t, vs, hw, h => by
    simp only [decodeItems] at h
    split at h
    · rename_i v vs' hv hvs
      cases h
      simp only [WTItems]
      exact ⟨(memberOf_wt true nul t x v (decode_wt x t v hw) hv).1, decodeItems_wt xs nul t vs' hw hvs⟩
    · cases h
theorem decodeMembers_pwt (closed : Bool) : ∀ (kvs : List (String × Json)) (fs : List Field) (st st' : List Val), Ty.WF.WFs fs → PWT fs st →
    decodeMembers closed fs st kvs = some st' → PWT fs st'
  | [], _, _, _, _, hp, h => by simp [decodeMembers] at h; subst h; exact hp
  | (k, jv) :: rest, fs, st, st', hw, hp, h => by
    simp only [decodeMembers] at h
    split at h
    · split at h
      · cases h
      · exact decodeMembers_pwt closed rest fs st st' hw hp h
    · rename_i i nul t hf
      split at h
      · cases h
      · rename_i v hv
        have hm := fun b => (memberOf_wt b nul t jv v (decode_wt jv t v (findIdx_wf fs k 0 i nul t hw hf)) hv).1
        have := pwt_set fs st k 0 i nul t v hf hp hm
        exact decodeMembers_pwt closed rest fs _ st' hw (by simpa using this) h
end

/-! ## the decoder accepts exactly the documents the schema admits -/

/-- every member with a known name decodes -/
def AcceptM (closed : Bool) (fs : List Field) (kvs : List (String × Json)) : Prop :=
  (∀ k jv, (k, jv) ∈ kvs → ∀ i nul t, findIdx fs k 0 = some (i, nul, t) → (memberOf nul jv (decode t jv)).isSome) ∧
  (closed = true → ∀ k jv, (k, jv) ∈ kvs → (findIdx fs k 0).isSome)

theorem decodeMembers_isSome (closed : Bool) (fs : List Field) : ∀ (kvs : List (String × Json)) (st : List Val),
    (decodeMembers closed fs st kvs).isSome ↔ AcceptM closed fs kvs
  | [], st => by simp [decodeMembers, AcceptM]
  | (k, jv) :: rest, st => by
    simp only [decodeMembers]
    cases hf : findIdx fs k 0 with
    | none =>
      simp only
      cases closed with
      | true =>
        simp only [if_true, Option.isSome_none, Bool.false_eq_true, false_iff]
        intro ⟨_, h2⟩
        have := h2 rfl k jv (List.mem_cons_self ..)
        rw [hf] at this; cases this
      | false =>
        simp only [Bool.false_eq_true, if_false]
        rw [decodeMembers_isSome false fs rest st]
        constructor
        · intro ⟨h, _⟩
          refine ⟨?_, by intro hc; cases hc⟩
          intro k' jv' hm i nul t hf'
          rcases List.mem_cons.mp hm with e | hm
          · cases e; rw [hf] at hf'; cases hf'
          · exact h k' jv' hm i nul t hf'
        · intro ⟨h, _⟩
          exact ⟨fun k' jv' hm => h k' jv' (List.mem_cons_of_mem _ hm), by intro hc; cases hc⟩
    | some r =>
      obtain ⟨i, nul, t⟩ := r
      simp only
      cases hv : memberOf nul jv (decode t jv) with
      | none =>
        simp only [Option.isSome_none, Bool.false_eq_true, false_iff]
        intro ⟨h, _⟩
        have := h k jv (List.mem_cons_self ..) i nul t hf
        rw [hv] at this; cases this
      | some v =>
        simp only
        rw [decodeMembers_isSome closed fs rest _]
        constructor
        · intro ⟨h, h2⟩
          refine ⟨?_, ?_⟩
          · intro k' jv' hm i' nul' t' hf'
            rcases List.mem_cons.mp hm with e | hm
            · cases e; rw [hf] at hf'; cases hf'; simp [hv]
            · exact h k' jv' hm i' nul' t' hf'
          · intro hc k' jv' hm
            rcases List.mem_cons.mp hm with e | hm
            · cases e; rw [hf]; rfl
            · exact h2 hc k' jv' hm
        · intro ⟨h, h2⟩
          exact ⟨fun k' jv' hm => h k' jv' (List.mem_cons_of_mem _ hm), fun hc k' jv' hm => h2 hc k' jv' (List.mem_cons_of_mem _ hm)⟩

/-- the required check, told from the initial state and the members seen -/
def requiredOk' : List Field → List Val → List (String × Json) → Bool
  | (n, req, _, _) :: fs, m :: ms, kvs => (!req.isReq || !m.isOmitted || (lookupJ kvs n).isSome) && requiredOk' fs ms kvs
  | [], [], _ => true
  | _, _, _ => false

theorem requiredOk'_nil : ∀ (fs : List Field) (st : List Val), requiredOk' fs st [] = requiredOk fs st
  | [], [] => rfl
  | [], _ :: _ | _ :: _, [] => by simp [requiredOk', requiredOk]
  | (_, _, _, _) :: fs, _ :: ms => by simp [requiredOk', requiredOk, lookupJ, requiredOk'_nil fs ms]

theorem findIdx_none : ∀ (fs : List Field) (k : String) (i0 : Nat), findIdx fs k i0 = none → k ∉ names fs
  | [], _, _, _ => by simp [names]
  | (n, _, _, _) :: fs, k, i0, h => by
    simp only [findIdx] at h
    split at h
    · cases h
    · rename_i hne
      have := findIdx_none fs k (i0 + 1) h
      simp only [names, List.map_cons, List.mem_cons, not_or]
      exact ⟨fun e => hne (by simp [e]), by simpa [names] using this⟩

theorem requiredOk'_skip (k : String) (jv : Json) (rest : List (String × Json)) : ∀ (fs : List Field) (st : List Val),
    k ∉ names fs → requiredOk' fs st ((k, jv) :: rest) = requiredOk' fs st rest
  | [], [], _ => rfl
  | [], _ :: _, _ | _ :: _, [], _ => by simp [requiredOk']
  | (n, _, _, _) :: fs, _ :: ms, h => by
    simp only [names, List.map_cons, List.mem_cons, not_or] at h
    have hne : (k == n) = false := by simpa using h.1
    simp [requiredOk', lookupJ, hne, requiredOk'_skip k jv rest fs ms (by simpa [names] using h.2)]

theorem requiredOk'_set (k : String) (jv : Json) (rest : List (String × Json)) (v : Val) (hv : v.isOmitted = false) :
    ∀ (fs : List Field) (st : List Val) (i0 i : Nat) (nul : Bool) (t : Ty), findIdx fs k i0 = some (i, nul, t) →
    (names fs).Nodup → requiredOk' fs (st.set (i - i0) v) rest = requiredOk' fs st ((k, jv) :: rest)
  | [], _, _, _, _, _, h, _ => by simp [findIdx] at h
  | _ :: _, [], _, _, _, _, _, _ => by simp [requiredOk']
  | (n, req, nul', t') :: fs, m :: ms, i0, i, nul, t, hf, hn => by
    simp only [findIdx] at hf
    simp only [names, List.map_cons, List.nodup_cons] at hn
    split at hf
    · rename_i heq
      have heq : n = k := by simpa using heq
      cases hf
      subst heq
      simp [requiredOk', lookupJ, hv, requiredOk'_skip n jv rest fs ms (by simpa [names] using hn.1)]
    · rename_i hne
      have hne : (k == n) = false := by
        cases h : k == n
        · rfl
        · exact absurd (by simp at h; simp [h]) hne
      have hge := pwt_set.findIdx_ge fs k (i0 + 1) i nul t hf
      have e : i - i0 = (i - (i0 + 1)) + 1 := by omega
      rw [e]
      simp [requiredOk', lookupJ, hne, requiredOk'_set k jv rest v hv fs ms (i0 + 1) i nul t hf (by simpa [names] using hn.2)]

theorem decode_not_omitted (t : Ty) (j : Json) (v : Val) (h : decode t j = some v) : v.isOmitted = false := by
  cases j with
  | null => cases t <;> simp [decode] at h
  | bool _ | str _ => cases t <;> simp [decode] at h <;> subst h <;> rfl
  | num n =>
    cases n with
    | int n => cases t <;> simp [decode] at h; obtain ⟨_, rfl⟩ := h; rfl
    | frac => cases t <;> simp [decode] at h
  | arr xs =>
    cases t <;> simp [decode] at h
    obtain ⟨_, _, rfl⟩ := h; rfl
  | obj kvs =>
    cases t with
    | obj closed fs =>
      simp only [decode] at h
      split at h
      · split at h
        · cases h; rfl
        · cases h
      · cases h
    | int _ | str _ | bool | arr _ _ _ => simp [decode] at h

theorem memberOf_not_omitted (nul : Bool) (t : Ty) (j : Json) (v : Val) (h : memberOf nul j (decode t j) = some v) :
    v.isOmitted = false := by
  cases j with
  | null =>
    simp only [memberOf] at h
    split at h
    · cases h; rfl
    · cases h
  | bool _ | str _ | num _ | arr _ | obj _ =>
    simp only [memberOf] at h
    exact decode_not_omitted t _ v h

theorem requiredOk_decodeMembers (closed : Bool) (fs : List Field) (hn : (names fs).Nodup) : ∀ (kvs : List (String × Json)) (st st' : List Val),
    decodeMembers closed fs st kvs = some st' → requiredOk fs st' = requiredOk' fs st kvs
  | [], st, st', h => by simp [decodeMembers] at h; subst h; exact (requiredOk'_nil fs st).symm
  | (k, jv) :: rest, st, st', h => by
    simp only [decodeMembers] at h
    split at h
    · rename_i hf
      split at h
      · cases h
      · rw [requiredOk_decodeMembers closed fs hn rest st st' h, requiredOk'_skip k jv rest fs st (findIdx_none fs k 0 hf)]
    · rename_i i nul t hf
      split at h
      · cases h
      · rename_i v hv
        rw [requiredOk_decodeMembers closed fs hn rest _ st' h]
        have := requiredOk'_set k jv rest v (memberOf_not_omitted nul t jv v hv) fs st 0 i nul t hf hn
        simpa using this

theorem requiredOk'_init : ∀ (fs : List Field) (kvs : List (String × Json)),
    requiredOk' fs (fs.map initState) kvs = true ↔ ∀ f ∈ fs, f.2.1.isReq = true → (lookupJ kvs f.1).isSome
  | [], _ => by simp [requiredOk']
  | (n, req, nul, t) :: fs, kvs => by
    simp only [List.map_cons, requiredOk', Bool.and_eq_true, requiredOk'_init fs kvs, List.mem_cons,
      forall_eq_or_imp]
    cases req <;> simp [Pres.isReq, initState, Pres.init, Val.isOmitted]

theorem validFields_iff : ∀ (fs : List Field) (kvs : List (String × Json)),
    ValidFields fs kvs ↔ ∀ f ∈ fs, (match lookupJ kvs f.1 with
      | none => f.2.1.isReq = false
      | some j => slotOk f.2.2.1 j (Valid f.2.2.2 j))
  | [], _ => by simp [ValidFields]
  | (n, req, nul, t) :: fs, kvs => by
    simp only [ValidFields, validFields_iff fs kvs, List.mem_cons, forall_eq_or_imp]
    cases lookupJ kvs n <;> exact Iff.rfl

theorem findIdx_mem : ∀ (fs : List Field) (n : String) (req : Pres) (nul : Bool) (t : Ty) (i0 : Nat), (names fs).Nodup →
    (n, req, nul, t) ∈ fs → ∃ i, findIdx fs n i0 = some (i, nul, t)
  | [], _, _, _, _, _, _, h => by cases h
  | (n', req', nul', t') :: fs, n, req, nul, t, i0, hn, h => by
    simp only [names, List.map_cons, List.nodup_cons] at hn
    rcases List.mem_cons.mp h with e | h
    · cases e; exact ⟨i0, by simp [findIdx]⟩
    · have hne : (n' == n) = false := by
        cases hh : n' == n
        · rfl
        · have : n' = n := by simpa using hh
          subst this
          exact absurd (List.mem_map.mpr ⟨_, h, rfl⟩) hn.1
      obtain ⟨i, hi⟩ := findIdx_mem fs n req nul t (i0 + 1) (by simpa [names] using hn.2) h
      exact ⟨i, by simp [findIdx, hne, hi]⟩

theorem memberOf_isSome (nul : Bool) (j : Json) (r : Option Val) : (memberOf nul j r).isSome ↔ slotOk nul j (r.isSome = true) := by
  cases j <;> simp [memberOf, slotOk]

theorem slotOk_congr (nul : Bool) (j : Json) {p q : Prop} (h : p ↔ q) : slotOk nul j p ↔ slotOk nul j q := by
  cases j <;> simp [slotOk, h]

theorem uniqueKeysM_mem : ∀ (kvs : List (String × Json)) (k : String) (jv : Json), UniqueKeysM kvs → (k, jv) ∈ kvs → UniqueKeys jv
  | [], _, _, _, h => by cases h
  | (k', v') :: r, k, jv, hu, h => by
    simp only [UniqueKeysM] at hu
    rcases List.mem_cons.mp h with e | h
    · cases e; exact hu.1
    · exact uniqueKeysM_mem r k jv hu.2 h

theorem findIdx_isSome_iff : ∀ (fs : List Field) (k : String) (i0 : Nat), (findIdx fs k i0).isSome ↔ k ∈ names fs
  | [], _, _ => by simp [findIdx, names]
  | (n, _, _, _) :: fs, k, i0 => by
    simp only [findIdx, names, List.map_cons, List.mem_cons]
    split
    · rename_i h; have : n = k := by simpa using h
      simp [this]
    · rename_i h
      have hne : ¬ k = n := fun e => h (by simp [e])
      rw [findIdx_isSome_iff fs k (i0 + 1)]
      simp [hne, names]

/-- object case, given the statement for every member value -/
theorem accept_obj (closed : Bool) (fs : List Field) (kvs : List (String × Json)) (hn : (names fs).Nodup) (hw : Ty.WF.WFs fs)
    (hk : (kvs.map (·.1)).Nodup)
    (ih : ∀ k jv, (k, jv) ∈ kvs → ∀ t : Ty, t.WF → ((decode t jv).isSome ↔ Valid t jv)) :
    (decode (.obj closed fs) (.obj kvs)).isSome ↔ Valid (.obj closed fs) (.obj kvs) := by
  have hdec : (decode (.obj closed fs) (.obj kvs)).isSome ↔
      AcceptM closed fs kvs ∧ requiredOk' fs (fs.map initState) kvs = true := by
    simp only [decode]
    cases hd : decodeMembers closed fs (fs.map initState) kvs with
    | none =>
      have : ¬ AcceptM closed fs kvs := fun ha => by
        have := (decodeMembers_isSome closed fs kvs (fs.map initState)).mpr ha
        rw [hd] at this; cases this
      simp [this]
    | some st =>
      have ha := (decodeMembers_isSome closed fs kvs (fs.map initState)).mp (by rw [hd]; rfl)
      have hr := requiredOk_decodeMembers closed fs hn kvs _ st hd
      show (if requiredOk fs st = true then some (Val.obj st) else none).isSome = true ↔ _
      rw [hr]
      cases requiredOk' fs (fs.map initState) kvs <;> simp [ha]
  rw [hdec, requiredOk'_init]
  simp only [Valid, validFields_iff, AcceptM]
  have hclosed : (closed = true → ∀ k jv, (k, jv) ∈ kvs → (findIdx fs k 0).isSome) ↔
      (closed = true → ∀ kv ∈ kvs, kv.1 ∈ names fs) := by
    constructor
    · intro h hc kv hkv; exact (findIdx_isSome_iff fs kv.1 0).mp (h hc kv.1 kv.2 hkv)
    · intro h hc k jv hm; exact (findIdx_isSome_iff fs k 0).mpr (h hc (k, jv) hm)
  constructor
  · intro ⟨⟨ha, hcl⟩, hr⟩
    refine ⟨?_, hclosed.mp hcl⟩
    intro f hf
    obtain ⟨n, req, nul, t⟩ := f
    cases hl : lookupJ kvs n with
    | none =>
      simp only
      cases req with
      | req =>
        have := hr _ hf rfl
        simp [hl] at this
      | opt => rfl
      | dflt d => rfl
    | some j =>
      simp only
      have hm := lookupJ_mem hl
      obtain ⟨i, hi⟩ := findIdx_mem fs n req nul t 0 hn hf
      have := ha n j hm i nul t hi
      rw [memberOf_isSome] at this
      exact (slotOk_congr nul j (ih n j hm t (wfs_mem fs _ hw hf))).mp this
  · intro ⟨h, hcl⟩
    refine ⟨⟨?_, hclosed.mpr hcl⟩, ?_⟩
    · intro k jv hm i nul t hf
      obtain ⟨req, hmem⟩ := findIdx_some_mem fs k 0 i nul t hf
      have := h _ hmem
      rw [mem_lookupJ (by simpa [keys] using hk) hm] at this
      rw [memberOf_isSome]
      exact (slotOk_congr nul jv (ih k jv hm t (wfs_mem fs _ hw hmem))).mpr this
    · intro f hf hreq
      have := h f hf
      cases hl : lookupJ kvs f.1 with
      | none => rw [hl] at this; simp [hreq] at this
      | some j => rfl

theorem decodeItems_isSome (nul : Bool) (t : Ty) : ∀ (xs : List Json),
    (decodeItems nul t xs).isSome ↔ ∀ x ∈ xs, (memberOf nul x (decode t x)).isSome
  | [] => by simp [decodeItems]
  | x :: xs => by
    simp only [decodeItems, List.mem_cons, forall_eq_or_imp, ← decodeItems_isSome nul t xs]
    cases memberOf nul x (decode t x) <;> cases decodeItems nul t xs <;> simp

mutual
/-- **the decoder accepts exactly the documents the schema admits** (unique member names) -/
theorem accept_iff : ∀ (j : Json) (t : Ty), t.WF → UniqueKeys j → ((decode t j).isSome ↔ Valid t j)
  | .null, t, _, _ => by cases t <;> simp [decode, Valid]
  | .bool _, t, _, _ => by cases t <;> simp [decode, Valid]
  | .str _, t, _, _ => by cases t <;> simp [decode, Valid]
  | .num (.int n), t, _, _ => by
    cases t <;> simp [decode, Valid]
  | .num .frac, t, _, _ => by cases t <;> simp [decode, Valid]
  | .arr xs, t, hw, hu => by
    cases t with
    | arr _ nul t =>
      simp only [Ty.WF] at hw
      simp only [UniqueKeys] at hu
      simp only [decode, Option.isSome_map, decodeItems_isSome, Valid]
      have ih := accept_items xs t hw hu
      constructor
      · intro h x hx; exact (slotOk_congr nul x (ih x hx)).mp ((memberOf_isSome nul x _).mp (h x hx))
      · intro h x hx; exact (memberOf_isSome nul x _).mpr ((slotOk_congr nul x (ih x hx)).mpr (h x hx))
    | int _ | str _ | bool | obj _ _ => simp [decode, Valid]
  | .obj kvs, t, hw, hu => by
    cases t with
    | obj closed fs =>
      simp only [Ty.WF] at hw
      simp only [UniqueKeys] at hu
      exact accept_obj closed fs kvs hw.1 hw.2 hu.1 (accept_members kvs hu.2)
    | int _ | str _ | bool | arr _ _ _ => simp [decode, Valid]
theorem accept_items : ∀ (xs : List Json) (t : Ty), t.WF → UniqueKeysL xs → ∀ x ∈ xs, ((decode t x).isSome ↔ Valid t x)
  | [], _, _, _, _, h => by cases h
  | y :: ys, t, hw, hu, x, h => by
    simp only [UniqueKeysL] at hu
    rcases List.mem_cons.mp h with e | h
    · rw [e]; exact accept_iff y t hw hu.1
    · exact accept_items ys t hw hu.2 x h
theorem accept_members : ∀ (kvs : List (String × Json)), UniqueKeysM kvs →
    ∀ k jv, (k, jv) ∈ kvs → ∀ t : Ty, t.WF → ((decode t jv).isSome ↔ Valid t jv)
  | [], _, _, _, h, _, _ => by cases h
  | (k', v') :: r, hu, k, jv, h, t, hw => by
    simp only [UniqueKeysM] at hu
    rcases List.mem_cons.mp h with e | h
    · have e1 : jv = v' := by cases e; rfl
      rw [e1]; exact accept_iff v' t hw hu.1
    · exact accept_members r hu.2 k jv h t hw
end

/-! ## what the encoder writes is admitted by the schema -/

theorem encodeFields_keys : ∀ (fs : List Field) (ms : List Val), ((encodeFields fs ms).map (·.1)).Sublist (names fs)
  | [], _ => by simp [encodeFields, names]
  | _ :: _, [] => by simp [encodeFields]
  | (n, _, _, t) :: fs, m :: ms => by
    have ih := encodeFields_keys fs ms
    cases m <;> simp only [encodeFields, names, List.map_cons] <;>
      first | exact List.Sublist.cons _ ih | exact List.Sublist.cons_cons _ ih

mutual
theorem encode_uniqueKeys : ∀ (v : Val) (t : Ty), t.WF → UniqueKeys (encode t v)
  | .omitted, t, _ | .null, t, _ => by cases t <;> simp [encode, UniqueKeys]
  | .int _, t, _ | .str _, t, _ | .bool _, t, _ => by cases t <;> simp [encode, UniqueKeys]
  | .arr xs, t, hw => by
    cases t with
    | arr _ nul t => simp only [Ty.WF] at hw; simpa [encode, UniqueKeys] using encodeItems_uniqueKeys xs t hw
    | int _ | str _ | bool | obj _ _ => simp [encode, UniqueKeys]
  | .obj ms, t, hw => by
    cases t with
    | obj _ fs =>
      simp only [Ty.WF] at hw
      simp only [encode, UniqueKeys]
      exact ⟨(encodeFields_keys fs ms).nodup hw.1, encodeFields_uniqueKeys ms fs hw.2⟩
    | int _ | str _ | bool | arr _ _ _ => simp [encode, UniqueKeys]
theorem encodeItems_uniqueKeys : ∀ (xs : List Val) (t : Ty), t.WF → UniqueKeysL (encodeItems t xs)
  | [], _, _ => by simp [encodeItems, UniqueKeysL]
  | x :: xs, t, hw => by
    simp only [encodeItems, UniqueKeysL]
    exact ⟨encode_uniqueKeys x t hw, encodeItems_uniqueKeys xs t hw⟩
theorem encodeFields_uniqueKeys : ∀ (ms : List Val) (fs : List Field), Ty.WF.WFs fs → UniqueKeysM (encodeFields fs ms)
  | [], fs, _ => by cases fs <;> simp [encodeFields, UniqueKeysM]
  | m :: ms, [], _ => by simp [encodeFields, UniqueKeysM]
  | m :: ms, (n, _, _, t) :: fs, hw => by
    simp only [Ty.WF.WFs] at hw
    have ih := encodeFields_uniqueKeys ms fs hw.2.2
    have hm := encode_uniqueKeys m t hw.1
    cases m <;> simp only [encodeFields, UniqueKeysM] <;> first | exact ih | exact ⟨hm, ih⟩
end

/-- **conforms to the schema**: the encoding of every value of the type is admitted by the schema -/
theorem encode_valid (t : Ty) (v : Val) (hw : t.WF) (h : WT t v) : Valid t (encode t v) :=
  (accept_iff (encode t v) t hw (encode_uniqueKeys v t hw)).mp (by rw [decode_encode t v hw h]; rfl)

/-- and decoding is canonical: what was decoded, encoded and decoded again is the same value -/
theorem decode_canonical (t : Ty) (j : Json) (v : Val) (hw : t.WF) (h : decode t j = some v) :
    decode t (encode t v) = some v := decode_encode t v hw (decode_wt j t v hw h)

/-! non-vacuity: a schema with every kind of member, a value in each of the three states, a refused document -/
def exTy : Ty := .obj false [("id", .req, false, .int {}), ("tag", .opt, true, .str {}), ("xs", .opt, false, .arr {} true (.int {})),
  ("in", .req, true, .obj true [("b", .opt, false, .bool)]), ("lim", .dflt (.int 10), false, .int {})]
example : exTy.WF := by simp [exTy, Ty.WF, Ty.WF.WFs, names, WT, validate, IntC.ok, inRange]
example : WT exTy (.obj [.int 7, .null, .omitted, .obj [.bool true], .int 3]) := by
  simp [exTy, WT, WTFields, memberOk, inRange, Pres.mayOmit]
example : decode exTy (.obj [("in", .null), ("zz", .num 1), ("xs", .arr [.null, .num 2]), ("id", .num 7)])
    = some (.obj [.int 7, .omitted, .arr [.null, .int 2], .null, .int 10]) := by rfl   -- `lim` absent: its default
example : encode exTy (.obj [.int 7, .omitted, .arr [.null, .int 2], .null, .int 10])
    = .obj [("id", .num 7), ("xs", .arr [.null, .num 2]), ("in", .null), ("lim", .num 10)] := by rfl
example : decode exTy (.obj [("in", .null), ("xs", .arr [])]) = none := by rfl          -- required `id` missing
example : decode exTy (.obj [("id", .null), ("in", .null)]) = none := by rfl          -- `id` is not nullable
end JCodec
