/-! Feasibility probe: literal model of ogenregex/convert.go (parser.scan/scanGroup/scanBracket/scanEscape)
    over code points; output is the converted pattern or `fatal` / `nonfatal` (fallback to regexp2).
    The `passOffset` optimisation only decides *how* the output is assembled (slice of the input vs
    builder); the model always appends to an output list, which is observationally the same string. -/
namespace Conv

inductive Res where
  | ok (out : List Char)
  | fatal
  | nonfatal
deriving Repr

def whitespaceChars : List Char :=
  [0x20, 0x0c, 0x0a, 0x0d, 0x09, 0x0b, 0xa0, 0x1680, 0x2000, 0x2001, 0x2002, 0x2003, 0x2004, 0x2005, 0x2006,
   0x2007, 0x2008, 0x2009, 0x200a, 0x2028, 0x2029, 0x202f, 0x205f, 0x3000, 0xfeff].map Char.ofNat
def re2Dot : List Char := ['[', '^', '\r', '\n', Char.ofNat 0x2028, Char.ofNat 0x2029, ']']

def digitValue (c : Char) : Nat :=
  if '0' ≤ c ∧ c ≤ '9' then c.toNat - 48
  else if 'a' ≤ c ∧ c ≤ 'f' then c.toNat - 87
  else if 'A' ≤ c ∧ c ≤ 'F' then c.toNat - 55
  else 16

def isAsciiIdentPart (c : Char) : Bool :=
  c == '$' || c == '_' || c == '\\' || ('a' ≤ c && c ≤ 'z') || ('A' ≤ c && c ≤ 'Z') || ('0' ≤ c && c ≤ '9')

def hexLower (n : Nat) : List Char := (Nat.toDigits 16 n)

def xEscape (v : Nat) : List Char :=
  if v ≥ 16 then ['\\', 'x'] ++ hexLower v else ['\\', 'x', '0'] ++ hexLower v

/-- scanEscape: input is positioned *after* the backslash. Returns emitted text and the rest. -/
def scanEscape (inClass : Bool) (s : List Char) : Except Res (List Char × List Char) :=
  match s with
  | [] =>
    -- p.chr = -1: default branch: `p.chr < RuneSelf && !isIdentifierPart` holds for -1 → passString(offset-1, p.offset): just the backslash
    .ok (['\\'], [])
  | c :: rest =>
    if '0' ≤ c ∧ c ≤ '7' then
      -- octal run
      -- at most three digits, and a third one only while the first two stay below \40 (fix 3e2d17a9: Annex B's
      -- LegacyOctalEscapeSequence; before, every following octal digit was consumed)
      let run := s.takeWhile (fun d => '0' ≤ d ∧ d ≤ '7')
      let two : Nat := (run.take 2).foldl (fun v d => v * 8 + (d.toNat - 48)) 0
      let n := if run.length ≥ 3 ∧ two < 32 then 3 else min run.length 2
      let digits := s.take n
      let rest' := s.drop n
      let value : Nat := digits.foldl (fun v d => v * 8 + (d.toNat - 48)) 0
      if digits.length = 1 then
        if value ≠ 0 then .error .nonfatal else .ok (['\\', '0'], rest')
      else .ok (xEscape value, rest')
    else if c = '8' ∨ c = '9' then .error .nonfatal
    else if c = 'x' ∨ c = 'u' then
      -- \x.. / \u.... / \u{...}
      let (len, body, _brace) :=
        if c = 'x' then (2, rest, false)
        else match rest with
          | '{' :: r => (0, r, true)
          | _ => (4, rest, false)
      if len > 0 then
        let ds := body.take len
        if ds.length = len ∧ ds.all (fun d => digitValue d < 16) then
          if len = 2 then .ok (['\\', 'x'] ++ ds, body.drop len)
          else .ok (['\\', 'x', '{'] ++ ds ++ ['}'], body.drop len)
        else
          -- goto skip: passString(offset, p.chrOffset): text from the letter up to the first bad digit
          let good := body.takeWhile (fun d => digitValue d < 16)
          let k := min good.length len
          .ok ([c] ++ body.take k, body.drop k)
      else
        -- \u{ ... : digits until '}' or EOF
        let ds := body.takeWhile (fun d => d ≠ '}' ∧ digitValue d < 16)
        let after := body.drop ds.length
        match after with
        | [] => .ok (['\\', 'x', '{'] ++ ds, [])
        | '}' :: _ => .ok (['\\', 'x', '{'] ++ ds, after)      -- the '}' is passed by the caller loop
        | _ => .ok (['u', '{'] ++ ds, after)                    -- skip: from 'u' to the bad char
    else if c = 'b' ∧ inClass then .ok (['\\', 'x', '0', '8'], rest)
    else if c = 'b' ∨ c = 'B' ∨ c = 'd' ∨ c = 'D' ∨ c = 'w' ∨ c = 'W' ∨ c = '\\' ∨ c = 'f' ∨ c = 'n' ∨ c = 'r' ∨ c = 't' ∨ c = 'v' then
      .ok (['\\', c], rest)
    else if c = 'c' then
      match rest with
      | d :: r =>
        if 'a' ≤ d ∧ d ≤ 'z' then .ok (xEscape (d.toNat - 96), r)
        else if 'A' ≤ d ∧ d ≤ 'Z' then .ok (xEscape (d.toNat - 64), r)
        else .ok (['c'], rest)
      | [] => .ok (['c'], [])
    else if c = 's' then
      .ok (if inClass then whitespaceChars else ['['] ++ whitespaceChars ++ [']'], rest)
    else if c = 'S' then
      if inClass then .error .nonfatal else .ok (['[', '^'] ++ whitespaceChars ++ [']'], rest)
    else if c = '$' ∨ (c.toNat < 128 ∧ !isAsciiIdentPart c) then .ok (['\\', c], rest)
    else .ok ([c], rest)   -- identity escape of an identifier character: drop the backslash

/-- scanBracket: input starts at '['. -/
def scanBracket (fuel : Nat) (s : List Char) : Except Res (List Char × List Char) :=
  match s with
  | '[' :: ']' :: rest => .ok ((['[', '^', Char.ofNat 0, '-', Char.ofNat 0x10FFFF, ']'] : List Char), rest)
  | '[' :: '^' :: ']' :: rest => .ok ((['[', Char.ofNat 0, '-', Char.ofNat 0x10FFFF, ']'] : List Char), rest)
  | '[' :: rest =>
    let rec go (fuel : Nat) (s : List Char) (acc : List Char) : Except Res (List Char × List Char) :=
      match fuel with
      | 0 => .error .fatal
      | fuel + 1 =>
        match s with
        | [] => .error .fatal  -- Unterminated character class
        | ']' :: rest => .ok (acc ++ [']'], rest)
        | '\\' :: rest =>
          match scanEscape true rest with
          | .ok (out, rest') => go fuel rest' (acc ++ out)
          | .error e => .error e
        | c :: rest => go fuel rest (if c = '[' then acc ++ ['\\', '['] else acc ++ [c])   -- D8: '[' inside a class is escaped
    go fuel rest ['[']
  | _ => .error .fatal

mutual
/-- scan / scanGroup share the body; `inGroup` stops at ')' -/
def scanBody (fuel : Nat) (inGroup : Bool) (s : List Char) (acc : List Char) : Except Res (List Char × List Char) :=
  match fuel with
  | 0 => .error .fatal
  | fuel + 1 =>
    match s with
    | [] => if inGroup then .error .fatal else .ok (acc, [])
    | ')' :: rest => if inGroup then .ok (acc ++ [')'], rest) else .error .fatal
    | '\\' :: rest =>
      match scanEscape false rest with
      | .ok (out, rest') => scanBody fuel inGroup rest' (acc ++ out)
      | .error e => .error e
    | '(' :: rest =>
      match scanGroup fuel rest with
      | .ok (out, rest') => scanBody fuel inGroup rest' (acc ++ ['('] ++ out)
      | .error e => .error e
    | '[' :: _ =>
      match scanBracket (s.length + 1) s with
      | .ok (out, rest') => scanBody fuel inGroup rest' (acc ++ out)
      | .error e => .error e
    | '.' :: rest => scanBody fuel inGroup rest (acc ++ re2Dot)
    | c :: rest => scanBody fuel inGroup rest (acc ++ [c])

/-- input positioned after '(' -/
def scanGroup (fuel : Nat) (s : List Char) : Except Res (List Char × List Char) :=
  match fuel with
  | 0 => .error .fatal
  | fuel + 1 =>
    match s with
    | '?' :: c :: _ =>
      if c = '=' ∨ c = '!' ∨ c = '<' then .error .nonfatal
      else if c ≠ ':' then .error .fatal
      else scanBody fuel true s []
    | _ => scanBody fuel true s []
end

def convert (p : List Char) : Res :=
  if p.isEmpty then .ok [] else
  match scanBody (2 * p.length + 2) false p [] with
  | .ok (out, _) => .ok out
  | .error e => e

def hexOfString (s : List Char) : String :=
  String.join (s.map fun c => (String.ofList (Nat.toDigits 16 c.toNat)) ++ ",")

def parseLine (line : String) : List Char :=
  (line.splitOn ",").filterMap fun t => if t.isEmpty then none else some (Char.ofNat (t.foldl (fun v d => v * 16 + digitValue d) 0))

end Conv
