import Ogen.RouterEndToEnd_proof
namespace Tree
/-- non-vacuity: a route set with a static/parameter sibling clash and a fully static template is accepted by
    the builder, so the hypotheses of `build_complete_sound`, `static_wins`, `dispatch_sound` are met -/
def demoRoutes : List (Bytes × Route) :=
  [("/a/{x}".toUTF8.toList, ⟨"GET", "/a/{x}"⟩), ("/{y}/c".toUTF8.toList, ⟨"GET", "/{y}/c"⟩),
   ("/a/b".toUTF8.toList, ⟨"GET", "/a/b"⟩)]

def isOk : Except String Node → Bool | .ok _ => true | _ => false
def lookup (fuel : Nat) (p : String) : Except String Node → Option (List String × List Bytes)
  | .ok n => (edge fuel n p.toUTF8.toList).map (fun r => (r.1.map (·.path), r.2))
  | _ => none

#eval isOk (buildFrom 50 emptyRoot demoRoutes)
#eval lookup 50 "/a/b/c" (buildFrom 50 emptyRoot demoRoutes)
#eval lookup 50 "/a/b" (buildFrom 50 emptyRoot demoRoutes)
#eval lookup 50 "/a/zz" (buildFrom 50 emptyRoot demoRoutes)
#eval lookup 50 "/ab/c" (buildFrom 50 emptyRoot demoRoutes)
/- Output: true; none (x would contain '/', and "/b/c" is not "/c"); some (["/a/b"], []) (static wins);
   some (["/a/{x}"], ["zz"]); some (["/{y}/c"], ["ab"]) (the static child "a/" is entered, fails, and `elem` is
   restored before the parameter child is tried).
   `decide +kernel` cannot evaluate `buildFrom` here: `List.mergeSort` is defined by well-founded recursion and
   `eqFold` goes through `String.toUpper`, neither reduces in the kernel. The real development therefore defines
   the model's two sorts by insertion (a structural definition; the correspondence check sees the same trees) and
   compares methods as byte lists, so that concrete route sets can be `decide`d as non-vacuity examples. -/
end Tree
