/-! C18 number model (core-only, executable): a number spelling, field for field what the JSON text
    contains, and `equalNumber`'s ladder on spellings. The proofs about it are in
    `JsonNumberValue_proof.lean` (`cmp_iff`) and `JsonNumberLadder_proof.lean` (`numEqS_iff`). -/
namespace JEqNum

/-- the comparison of the last branch of `numEq` -/
def cmp (n1 : Bool) (m1 : Nat) (e1 : Int) (n2 : Bool) (m2 : Nat) (e2 : Int) : Bool :=
  let lo := min e1 e2
  let v1 := m1 * 10 ^ (e1 - lo).toNat
  let v2 := m2 * 10 ^ (e2 - lo).toNat
  if v1 = 0 && v2 = 0 then true else n1 == n2 && v1 == v2

/-- a number spelling, field for field what the text contains (so equal spellings = equal bytes) -/
structure Spell where
  neg : Bool
  int : List Nat
  frac : Option (List Nat)
  exp : Option (Bool × Option Bool × List Nat)   -- (capital E, sign none/+/- as none/some false/some true, digits)
deriving DecidableEq

def value (ds : List Nat) : Nat := ds.foldl (fun v d => v * 10 + d) 0

def fracDigits (s : Spell) : List Nat := s.frac.getD []
def mant (s : Spell) : Nat := value (s.int ++ fracDigits s)
def expo (s : Spell) : Int :=
  (match s.exp with
   | none => 0
   | some (_, sg, ds) => if sg = some true then -(value ds : Int) else (value ds : Int)) - ((fracDigits s).length : Int)
/-- jx `Num.Zero()` as `equalNumber` uses it: no exponent and nothing but `0`, `.`, `-` -/
def isZeroS (s : Spell) : Bool := s.exp.isNone && (s.int ++ fracDigits s).all (· == 0)
def isIntS (s : Spell) : Bool := s.frac.isNone && s.exp.isNone

def numEqS (a b : Spell) : Bool :=
  if isZeroS a && isZeroS b then true
  else if a == b then true
  else if isIntS a && isIntS b then false
  else cmp a.neg (mant a) (expo a) b.neg (mant b) (expo b)

end JEqNum
