import Ogen.RouterBuildPresent_proof
/-! Proof probe for C05: the glue between the construction half and the matching half of completeness. -/
namespace Tree

/-! ### parameter nodes only have static children (the generator refuses two parameters in a row) -/
inductive PK : Node → Prop
  | mk {n} : (n.isParam = true → ∀ c ∈ n.children, c.isParam = false) → (∀ c ∈ n.children, PK c) → PK n

theorem PK.here {n} (h : PK n) : n.isParam = true → ∀ c ∈ n.children, c.isParam = false := by
  cases h with | mk h1 _ => exact h1
theorem PK.kids {n} (h : PK n) : ∀ c ∈ n.children, PK c := by
  cases h with | mk _ h2 => exact h2

/-- no two holes in a row (`checkRoutePath`) -/
def NoAdj : List Sym → Prop
  | [] => True
  | [_] => True
  | a :: b :: rest => ¬ (a = none ∧ b = none) ∧ NoAdj (b :: rest)

theorem noAdj_tail {a : Sym} {t : List Sym} (h : NoAdj (a :: t)) : NoAdj t := by
  cases t with
  | nil => trivial
  | cons b rest => exact h.2

theorem noAdj_suffix (l t : List Sym) (h : NoAdj (l ++ t)) : NoAdj t := by
  induction l with
  | nil => simpa using h
  | cons a as ih => exact ih (noAdj_tail (by simpa using h))

theorem noAdj_hole {t : List Sym} (h : NoAdj (none :: t)) : t.head? ≠ some none := by
  cases t with
  | nil => simp
  | cons b rest =>
    intro hb
    simp at hb
    exact h.1 ⟨rfl, hb⟩

/-- a child that carries a template not starting with a hole is static -/
theorem static_of_via {c : Node} {sp : List Sym} {r : Route} (h : PresentVia c sp r) (hh : sp.head? ≠ some none) :
    c.isParam = false := by
  rcases h with ⟨hs, _⟩ | ⟨_, sp', rfl, _⟩
  · exact hs
  · simp at hh

theorem mkChain_pk (fuel : Nat) : ∀ (path selfPfx : Bytes) (selfParam : Option Bytes) (m : Route) (ch : Node)
    (sp : List Sym), Syms path sp → NoAdj sp → (selfParam = none → selfPfx = path) →
    (selfParam.isSome = true → path.head? = some 0x7b) →
    mkChain fuel path selfPfx selfParam m = .ok ch → PK ch := by
  induction fuel with
  | zero => intro _ _ _ _ _ _ _ _ _ _ h; simp [mkChain] at h
  | succ fuel ih =>
    intro path selfPfx selfParam m ch sp hs hna h1 h2 h
    unfold mkChain at h
    cases hs with
    | @static a ha =>
      rw [npp_static ha] at h
      simp only at h
      cases h
      exact PK.mk (by simp [Node.children]) (by simp [Node.children])
    | @param a name rest t ha hn hrest =>
      rw [npp_param ha hn] at h
      simp only at h
      have hna' : NoAdj (none :: t) := noAdj_suffix (a.map some) _ hna
      by_cases ha0 : a.length = 0
      · have ha' : a = [] := List.eq_nil_of_length_eq_zero ha0
        subst ha'
        simp only [List.length_nil, Nat.zero_add, List.nil_append, if_true] at h
        have hdrop : List.drop (name.length + 2) (0x7b :: (name ++ 0x7d :: rest)) = rest := by
          have : name.length + 2 = (0x7b :: (name ++ [0x7d])).length := by simp
          rw [this]
          have h' : (0x7b : UInt8) :: (name ++ 0x7d :: rest) = (0x7b :: (name ++ [0x7d])) ++ rest := by simp
          rw [h', List.drop_left]
        rw [hdrop] at h
        by_cases hr0 : rest.isEmpty = true
        · simp only [hr0, if_true] at h
          cases h
          exact PK.mk (by simp [Node.children]) (by simp [Node.children])
        · simp only [hr0, Bool.false_eq_true, if_false] at h
          obtain ⟨child, hc, hf⟩ := bind_ok h
          cases hf
          have hvia := mkChain_present fuel rest rest none m child t hrest (fun _ => rfl) (by simp) hc
          have hstat := static_of_via hvia (noAdj_hole hna')
          have ihc := ih rest rest none m child t hrest (noAdj_tail hna') (fun _ => rfl) (by simp) hc
          refine PK.mk ?_ ?_
          · intro _ c hc'; simp only [Node.children, List.mem_singleton] at hc'; subst hc'; exact hstat
          · intro c hc'; simp only [Node.children, List.mem_singleton] at hc'; subst hc'; exact ihc
      · simp only [ha0, if_false] at h
        have hdrop : List.drop a.length (a ++ 0x7b :: (name ++ 0x7d :: rest)) = 0x7b :: (name ++ 0x7d :: rest) := List.drop_left
        have htake : List.take a.length (a ++ 0x7b :: (name ++ 0x7d :: rest)) = a := List.take_left
        rw [hdrop, htake] at h
        obtain ⟨child, hc, hf⟩ := bind_ok h
        cases hf
        have hs' : Syms (0x7b :: (name ++ 0x7d :: rest)) (none :: t) := by
          have := Syms.param (a := []) (by intro c hc; cases hc) hn hrest
          simpa using this
        have ihc := ih _ [] _ m child (none :: t) hs' hna' (by intro h; cases h) (by simp) hc
        have hane : a ≠ [] := by intro h; apply ha0; simp [h]
        have hsn : selfParam = none := by
          cases hsp : selfParam with
          | none => rfl
          | some nm =>
            have hh := h2 (by simp [hsp])
            have : (a ++ 0x7b :: (name ++ 0x7d :: rest)).head? = a.head? := by
              cases a with
              | nil => exact absurd rfl hane
              | cons c cs => simp
            rw [this] at hh
            exact absurd hh (noBrace_head_ne ha hane)
        subst hsn
        refine PK.mk ?_ ?_
        · intro hp; simp [Node.isParam, Node.paramName] at hp
        · intro c hc'; simp only [Node.children, List.mem_singleton] at hc'; subst hc'; exact ihc

#print axioms mkChain_pk

theorem pk_replace {p h pn cs rs hd c' c} (hpk : PK (.mk p h pn cs rs)) (hc : c ∈ cs)
    (hsame : c'.isParam = c.isParam) (h2 : PK c') : PK (.mk p h pn (replaceFirst cs hd c') rs) := by
  refine PK.mk ?_ ?_
  · intro hp d hd'
    rcases mem_replaceFirst hd' with rfl | hmem
    · rw [hsame]; exact hpk.here hp c hc
    · exact hpk.here hp d hmem
  · intro d hd'
    rcases mem_replaceFirst hd' with rfl | hmem
    · exact h2
    · exact hpk.kids d hmem

theorem isParam_of_fields {c c' : Node} (h : c'.pfx = c.pfx ∧ c'.head = c.head ∧ c'.paramName = c.paramName) :
    c'.isParam = c.isParam := by
  unfold Node.isParam; rw [h.2.2]

theorem insert_pk (fuel : Nat) : ∀ (n : Node) (path : Bytes) (m : Route) (n' : Node) (sp : List Sym),
    WF n → PK n → Syms path sp → NoAdj sp → (n.isParam = true → sp.head? ≠ some none) →
    insert fuel n path m = .ok n' → PK n' := by
  induction fuel with
  | zero => intro _ _ _ _ _ _ _ _ _ _ h; simp [insert] at h
  | succ fuel ih =>
    intro n path m n' sp hwf hpk hs hna hnp h
    cases n with
    | mk p hd0 pn cs rs =>
    have hch := hwf.children
    unfold insert at h
    simp only at h
    by_cases hpe : path.isEmpty = true
    · simp only [hpe, if_true] at h
      obtain ⟨rs', _, hf⟩ := bind_ok h
      cases hf
      exact PK.mk hpk.here hpk.kids
    · simp only [hpe, Bool.false_eq_true, if_false] at h
      have hpne : path ≠ [] := by intro h'; apply hpe; simp [h']
      split at h
      · cases h
      · split at h
        · obtain ⟨ch, hchn, hf⟩ := bind_ok h
          cases hf
          have hvia := mkChain_present _ path path none m ch sp hs (fun _ => rfl) (by simp) hchn
          have hpkch := mkChain_pk _ path path none m ch sp hs hna (fun _ => rfl) (by simp) hchn
          refine PK.mk ?_ ?_
          · intro hp d hd
            rcases List.mem_append.mp (mem_sortChildren.mp hd) with hmem | hmem
            · exact hpk.here hp d hmem
            · simp only [List.mem_singleton] at hmem; subst hmem
              exact static_of_via hvia (hnp hp)
          · intro d hd
            rcases List.mem_append.mp (mem_sortChildren.mp hd) with hmem | hmem
            · exact hpk.kids d hmem
            · simp only [List.mem_singleton] at hmem; subst hmem; exact hpkch
        · rename_i c hfind
          have hcmem : c ∈ cs := List.mem_of_find?_eq_some hfind
          have hchead : c.head = path.headD 0 := by
            have := List.find?_some hfind
            simpa using this
          have hcwf := hch c hcmem
          have hcpk := hpk.kids c hcmem
          split at h
          · rename_i hcp
            obtain ⟨c', hc', hf⟩ := bind_ok h
            cases hf
            have hh : path.head? = some 0x7b := by
              rw [path_head_of_ne hpne, ← hchead, hcwf.1.1 hcp]
            obtain ⟨name, rest, t, hpath, hn, hrest, hspt⟩ := syms_param_head hs hh
            subst hpath; subst hspt
            have hnpp := npp_param (a := []) (rest := rest) (by intro c hc; cases hc) hn
            simp only [List.nil_append, List.length_nil, Nat.zero_add] at hnpp
            rw [hnpp] at hc'
            simp only at hc'
            have hdrop : List.drop (name.length + 2) (0x7b :: (name ++ 0x7d :: rest)) = rest := by
              have : name.length + 2 = (0x7b :: (name ++ [0x7d])).length := by simp
              rw [this]
              have h' : (0x7b : UInt8) :: (name ++ 0x7d :: rest) = (0x7b :: (name ++ [0x7d])) ++ rest := by simp
              rw [h', List.drop_left]
            rw [hdrop] at hc'
            have hpk' := ih c rest m c' t hcwf.2 hcpk hrest (noAdj_tail hna) (fun _ => noAdj_hole hna) hc'
            exact pk_replace hpk hcmem (isParam_of_fields (insert_fields hc')) hpk'
          · rename_i hcp
            have hcs : c.isParam = false := by simpa using hcp
            obtain ⟨hpfx_ne, hpfx_head, hpfx_nb⟩ := hcwf.1.2 hcs
            split at h
            · rename_i hfull
              obtain ⟨c', hc', hf⟩ := bind_ok h
              cases hf
              have hpath := lcp_full hfull
              obtain ⟨t', hst', hspt⟩ := syms_strip' hs hpath hpfx_nb
              rw [hfull] at hc'
              have hna' : NoAdj t' := noAdj_suffix (c.pfx.map some) t' (by rw [← hspt]; exact hna)
              have hpk' := ih c _ m c' t' hcwf.2 hcpk hst' hna' (fun hp => by rw [hcs] at hp; cases hp) hc'
              exact pk_replace hpk hcmem (isParam_of_fields (insert_fields hc')) hpk'
            · rename_i hnotfull
              have htake : path.take (lcp path c.pfx) = c.pfx.take (lcp path c.pfx) := lcp_take _ _
              have hnb_take : noBrace (path.take (lcp path c.pfx)) := by
                rw [htake]
                intro x hx
                exact hpfx_nb x (List.mem_of_mem_take hx)
              have hpath : path = path.take (lcp path c.pfx) ++ path.drop (lcp path c.pfx) := (List.take_append_drop _ _).symm
              obtain ⟨t', hst', hspt⟩ := syms_strip' hs hpath hnb_take
              have hna' : NoAdj t' := noAdj_suffix ((path.take (lcp path c.pfx)).map some) t' (by rw [← hspt]; exact hna)
              have hpn : c.paramName = none := by
                simp [Node.isParam] at hcs; exact hcs
              rw [hpn] at h
              have hold_pk : PK (Node.mk (c.pfx.drop (lcp path c.pfx)) ((c.pfx.drop (lcp path c.pfx)).headD 0) none c.children c.routes) :=
                PK.mk (by intro hp; simp [Node.isParam, Node.paramName] at hp) hcpk.kids
              have hNstat : ∀ kids rts, (Node.mk (path.take (lcp path c.pfx)) (path.headD 0) none kids rts).isParam = c.isParam := by
                intro kids rts; rw [hcs]; simp [Node.isParam, Node.paramName]
              split at h
              · cases h
                refine pk_replace hpk hcmem (hNstat _ _) (PK.mk (by intro hp; simp [Node.isParam, Node.paramName] at hp) ?_)
                intro d hd; simp only [Node.children, List.mem_singleton] at hd; subst hd; exact hold_pk
              · obtain ⟨ch, hchn, hf⟩ := bind_ok h
                cases hf
                have hpkch := mkChain_pk _ _ _ none m ch t' hst' hna' (fun _ => rfl) (by simp) hchn
                refine pk_replace hpk hcmem (hNstat _ _) (PK.mk (by intro hp; simp [Node.isParam, Node.paramName] at hp) ?_)
                intro d hd
                simp only [Node.children] at hd
                rcases List.mem_cons.mp (mem_sortChildren.mp hd) with rfl | hd'
                · exact hold_pk
                · simp only [List.mem_singleton] at hd'; subst hd'; exact hpkch

#print axioms insert_pk

/-! ### the invariants together give the hypotheses of `edge_complete` -/
theorem noBrace_head {a : Bytes} {h : UInt8} (ha : noBrace a) (hh : a.head? = some h) : h ≠ 0x7b := by
  cases a with
  | nil => simp at hh
  | cons c cs =>
    simp at hh; subst hh
    exact (ha c (List.mem_cons_self ..)).1

theorem treeOK_of {n : Node} (hwf : WF n) : Distinct n → PK n → TreeOK n := by
  induction hwf with
  | @mk p h pn cs rs h1 _ ih =>
    intro hdis hpk
    refine TreeOK.mk ⟨hdis.here, ?_, ?_, hpk.here⟩ ?_
    · intro c hc hp; exact (h1 c hc).1 hp
    · intro c hc hs
      obtain ⟨hne, hhead, hnb⟩ := (h1 c hc).2 hs
      exact ⟨hne, hhead, noBrace_head hnb hhead⟩
    · intro c hc
      exact ih c hc (hdis.kids c hc) (hpk.kids c hc)

/-! ### from presence to reachability: the argument conditions, hole by hole -/
def FitsArgs : List (List UInt8) → List Bytes → Prop
  | [], [] => True
  | t :: ts, a :: as => a ≠ [] ∧ (∀ b ∈ a, b ≠ 0x2f ∧ b ∉ t) ∧ FitsArgs ts as
  | _, _ => False

/-- `elem` is the template `sp` with its holes filled by `args` -/
inductive Fill : List Sym → List Bytes → Bytes → Prop
  | nil : Fill [] [] []
  | byte {b sp args e} : Fill sp args e → Fill (some b :: sp) args (b :: e)
  | hole {a sp args e} : Fill sp args e → Fill (none :: sp) (a :: args) (a ++ e)

theorem fill_bytes (l : Bytes) {sp args e} (h : Fill sp args e) : Fill (l.map some ++ sp) args (l ++ e) := by
  induction l with
  | nil => simpa using h
  | cons b bs ih => exact Fill.byte ih

/-- the tail sets along the path of a present route: for arguments that fit them the instance is reachable -/
theorem present_fits {n : Node} {sp : List Sym} {m : Route} (h : Present n sp m) :
    ∃ tails : List (List UInt8), ∀ args, FitsArgs tails args →
      ∃ elem rs, m ∈ rs ∧ Fill sp args elem ∧ Reach n args elem rs := by
  induction h with
  | @here n r hr =>
    refine ⟨[], ?_⟩
    intro args hf
    cases args with
    | nil =>
      have hne : n.routes ≠ [] := by intro h0; rw [h0] at hr; cases hr
      exact ⟨[], n.routes, hr, Fill.nil, Reach.here hne⟩
    | cons _ _ => exact absurd hf (by simp [FitsArgs])
  | @static n c sp r hc hs _ ih =>
    obtain ⟨tails, ht⟩ := ih
    refine ⟨tails, ?_⟩
    intro args hf
    obtain ⟨elem, rs, hm, hfill, hreach⟩ := ht args hf
    exact ⟨c.pfx ++ elem, rs, hm, fill_bytes c.pfx hfill, Reach.static hc hs hreach⟩
  | @param n c sp r hc hp _ ih =>
    obtain ⟨tails, ht⟩ := ih
    refine ⟨staticHeads c :: tails, ?_⟩
    intro args hf
    cases args with
    | nil => exact absurd hf (by simp [FitsArgs])
    | cons a as =>
      obtain ⟨hane, hab, hfs⟩ := hf
      obtain ⟨elem, rs, hm, hfill, hreach⟩ := ht as hfs
      exact ⟨a ++ elem, rs, hm, Fill.hole hfill, Reach.param hc hp hane hab hreach⟩

/-! ### the whole route set -/
theorem buildFrom_pk (fuel : Nat) : ∀ (routes : List (Bytes × Route)) (n n' : Node),
    (∀ pm ∈ routes, ∃ sp, Syms pm.1 sp ∧ NoAdj sp) → n.isParam = false → WF n → PK n →
    buildFrom fuel n routes = .ok n' → PK n' := by
  intro routes
  induction routes with
  | nil => intro n n' _ _ _ hpk h; simp [buildFrom] at h; subst h; exact hpk
  | cons pm rest ih =>
    intro n n' hr hroot hwf hpk h
    obtain ⟨p, m⟩ := pm
    simp only [buildFrom] at h
    obtain ⟨n1, h1, h2⟩ := bind_ok h
    obtain ⟨sp, hs, hna⟩ := hr (p, m) (List.mem_cons_self ..)
    have hwf1 := insert_wf fuel n p m n1 sp hwf hs h1
    have hpk1 := insert_pk fuel n p m n1 sp hwf hpk hs hna (fun hp => by rw [hroot] at hp; cases hp) h1
    have hroot1 : n1.isParam = false := by rw [isParam_of_fields (insert_fields h1)]; exact hroot
    exact ih n1 n' (fun pm hpm => hr pm (List.mem_cons_of_mem _ hpm)) hroot1 hwf1 hpk1 h2

/-- **C05 completeness.** For any set of route templates without two parameters in a row, in any insertion order:
    every inserted route has tail sets (the static heads below its parameter nodes in the finished tree) such that
    every instance whose arguments are non-empty and avoid `/` and those tails is dispatched — to that template or,
    by `edge_sound`/`build_noJunk`, to another template that the path instantiates. -/
theorem build_complete (fuel0 : Nat) (routes : List (Bytes × Route)) (n : Node)
    (hr : ∀ pm ∈ routes, ∃ sp, Syms pm.1 sp ∧ NoAdj sp)
    (h : buildFrom fuel0 emptyRoot routes = .ok n) :
    ∀ pm ∈ routes, ∀ sp, Syms pm.1 sp →
      ∃ tails : List (List UInt8), ∀ args, FitsArgs tails args →
        ∃ elem, Fill sp args elem ∧ ∀ fuel, elem.length + args.length + 1 ≤ fuel → ∃ res, edge fuel n elem = some res := by
  have hr' : ∀ pm ∈ routes, ∃ sp, Syms pm.1 sp := fun pm hpm => let ⟨sp, hs, _⟩ := hr pm hpm; ⟨sp, hs⟩
  obtain ⟨hwf, hdis, hpres⟩ := build_present fuel0 routes n hr' h
  have hpk : PK n := buildFrom_pk fuel0 routes emptyRoot n hr (by simp [emptyRoot, Node.isParam, Node.paramName])
    (WF.mk (by simp) (by simp)) (PK.mk (by simp [emptyRoot, Node.children]) (by simp [emptyRoot, Node.children])) h
  have hok : TreeOK n := treeOK_of hwf hdis hpk
  intro pm hpm sp hs
  obtain ⟨tails, ht⟩ := present_fits (hpres pm hpm sp hs)
  refine ⟨tails, ?_⟩
  intro args hf
  obtain ⟨elem, rs, _, hfill, hreach⟩ := ht args hf
  refine ⟨elem, hfill, ?_⟩
  intro fuel hfuel
  exact edge_complete fuel n args elem rs hok hreach hfuel

#print axioms build_complete
end Tree
