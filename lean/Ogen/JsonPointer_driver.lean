import Ogen.JsonPointer_proof
/-! Line-protocol driver for C16: a reader for the harness' tree notation on top of the *proved*
    model (`Ptr.resolve` / `Ptr.find` of `JsonPointer_proof.lean`). -/
namespace Ptr

/-! driver: line = tree tokens | pointer hex.  tree: "s<id>" | "m<k>" then k×(key hex, tree) | "q<k>" then k trees -/
def hexVal (c : Char) : UInt8 := if c.isDigit then (c.toNat - 48).toUInt8 else (c.toNat - 87).toUInt8
def parseHex : List Char → Bytes
  | a :: b :: rest => (hexVal a * 16 + hexVal b) :: parseHex rest
  | _ => []

partial def readTree (toks : List String) : Node × List String :=
  match toks with
  | [] => (.scalar 0, [])
  | t :: rest =>
    if t.startsWith "s" then (.scalar (t.drop 1).toString.toNat!, rest)
    else if t.startsWith "m" then
      let k := (t.drop 1).toString.toNat!
      let rec go (k : Nat) (toks : List String) (acc : List (Bytes × Node)) : List (Bytes × Node) × List String :=
        match k with
        | 0 => (acc.reverse, toks)
        | k + 1 =>
          match toks with
          | key :: r => let (n, r') := readTree r; go k r' ((parseHex (key.drop 1).toString.toList, n) :: acc)
          | [] => (acc.reverse, [])
      let (ms, r) := go k rest []
      (.map ms, r)
    else
      let k := (t.drop 1).toString.toNat!
      let rec goSeq (k : Nat) (toks : List String) (acc : List Node) : List Node × List String :=
        match k with
        | 0 => (acc.reverse, toks)
        | k + 1 => let (n, r) := readTree toks; goSeq k r (n :: acc)
      let (xs, r) := goSeq k rest []
      (.seq xs, r)

def toHexD (bs : Bytes) : String :=
  let hd (n : UInt8) : Char := if n < 10 then Char.ofNat (48 + n.toNat) else Char.ofNat (87 + n.toNat)
  String.ofList (bs.flatMap fun b => [hd (b / 16), hd (b % 16)])

/-- full dump of the designated subtree: scalars carry unique ids, so the dump identifies the
    node (up to empty containers) -/
partial def describe : Node → String
  | .scalar id => s!"s{id}"
  | .map ms => s!"m{ms.length}(" ++ " ".intercalate (ms.map fun (k, v) => "k" ++ toHexD k ++ " " ++ describe v) ++ ")"
  | .seq xs => s!"q{xs.length}(" ++ " ".intercalate (xs.map describe) ++ ")"

def runLine (line : String) : String :=
  match line.splitOn "|" with
  | [tree, ptr] =>
    let (n, _) := readTree ((tree.splitOn " ").filter (· ≠ ""))
    match resolve (parseHex ptr.trimAscii.toString.toList) n with
    | .ok r => "ok " ++ describe r
    | .err => "err"
    | .unmodelled => "unmodelled"
  | _ => "bad"
end Ptr
