/-! Line-protocol driver used for the C16 fidelity run (84 901 pointers): the model of `JsonPointer_proof.lean` plus a reader for the emitter of `explore_jsonpointer_lineprotocol.go.txt`. -/
namespace Ptr
abbrev Bytes := List UInt8

inductive Node where
  | scalar (id : Nat)
  | map (members : List (Bytes × Node))
  | seq (items : List Node)
deriving Inhabited

/-! ### the implementation, as a model -/
def splitAux : Bytes → Bytes → List Bytes
  | [], cur => [cur.reverse]
  | c :: cs, cur => if c = 0x2f then cur.reverse :: splitAux cs [] else splitAux cs (c :: cur)
def split (s : Bytes) : List Bytes := splitAux s []

/-- D7: every '~' must be followed by '0' or '1' (then both are skipped) -/
def escapesOk : Bytes → Bool
  | [] => true
  | c :: rest =>
    if c = 0x7e then
      match rest with
      | d :: rest' => (d = 0x30 || d = 0x31) && escapesOk rest'
      | [] => false
    else escapesOk rest

/-- strings.NewReplacer("~1", "/", "~0", "~"): one left-to-right pass -/
def unescape : Bytes → Bytes
  | [] => []
  | c :: rest =>
    if c = 0x7e then
      match rest with
      | d :: rest' => if d = 0x31 then 0x2f :: unescape rest' else if d = 0x30 then 0x7e :: unescape rest' else c :: unescape (d :: rest')
      | [] => [c]
    else c :: unescape rest

def isDigit (c : UInt8) : Bool := 0x30 ≤ c && c ≤ 0x39
def digitsVal (ds : Bytes) : Nat := ds.foldl (fun a d => a * 10 + (d.toNat - 48)) 0

/-- strconv.ParseUint(part, 10, 64) behind the D7 leading-zero check -/
def parseIndex (part : Bytes) : Option Nat :=
  if part.isEmpty then none
  else if part.length > 1 && part.head? = some 0x30 then none
  else if !part.all isDigit then none
  else if digitsVal part < 2 ^ 64 then some (digitsVal part) else none

def findKey : List (Bytes × Node) → Bytes → Option Node
  | [], _ => none
  | (k, v) :: rest, key => if k = key then some v else findKey rest key

def step (n : Node) (rawPart : Bytes) : Option Node :=
  if !escapesOk rawPart then none else
  match n with
  | .map ms => findKey ms (unescape rawPart)
  | .seq items => (parseIndex (unescape rawPart)).bind (fun i => items[i]?)
  | .scalar _ => none

def walk : List Bytes → Node → Option Node
  | [], n => some n
  | t :: ts, n => (step n t).bind (walk ts)

def find (ptr : Bytes) (n : Node) : Option Node :=
  match ptr with
  | [] => some n
  | c :: rest => if c = 0x2f then walk (split rest) n else none


/-! driver: line = tree tokens | pointer hex.  tree: "s<id>" | "m<k>" then k×(key hex, tree) | "q<k>" then k trees -/
def hexVal (c : Char) : UInt8 := if c.isDigit then (c.toNat - 48).toUInt8 else (c.toNat - 87).toUInt8
def parseHex : List Char → Bytes
  | a :: b :: rest => (hexVal a * 16 + hexVal b) :: parseHex rest
  | _ => []

partial def readTree (toks : List String) : Node × List String :=
  match toks with
  | [] => (.scalar 0, [])
  | t :: rest =>
    if t.startsWith "s" then (.scalar (t.drop 1).toString.toNat!, rest)
    else if t.startsWith "m" then
      let k := (t.drop 1).toString.toNat!
      let rec go (k : Nat) (toks : List String) (acc : List (Bytes × Node)) : List (Bytes × Node) × List String :=
        match k with
        | 0 => (acc.reverse, toks)
        | k + 1 =>
          match toks with
          | key :: r => let (n, r') := readTree r; go k r' ((parseHex (key.drop 1).toString.toList, n) :: acc)
          | [] => (acc.reverse, [])
      let (ms, r) := go k rest []
      (.map ms, r)
    else
      let k := (t.drop 1).toString.toNat!
      let rec goSeq (k : Nat) (toks : List String) (acc : List Node) : List Node × List String :=
        match k with
        | 0 => (acc.reverse, toks)
        | k + 1 => let (n, r) := readTree toks; goSeq k r (n :: acc)
      let (xs, r) := goSeq k rest []
      (.seq xs, r)

def describe : Node → String
  | .scalar id => s!"s{id}"
  | .map ms => s!"m{ms.length}"
  | .seq xs => s!"q{xs.length}"

def runLine (line : String) : String :=
  match line.splitOn "|" with
  | [tree, ptr] =>
    let (n, _) := readTree ((tree.splitOn " ").filter (· ≠ ""))
    match find (parseHex ptr.trimAscii.toString.toList) n with
    | some r => "ok " ++ describe r
    | none => "err"
  | _ => "bad"
end Ptr
